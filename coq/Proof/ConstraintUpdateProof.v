(* Proofs over R about Model/ConstraintUpdate.v (mj_constraintUpdate_impl): gradient, C1, convexity,
   admissibility.  Props/C12.v and Props/C11.v only restate lemmas of this file. *)
From Coq Require Import ZArith List Bool Reals Lra Lia Psatz.
From Coquelicot Require Import Coquelicot.
From MJV Require Import Lib.Num Lib.NumR Model.ConstraintUpdate Model.ConstraintUpdateSpec.
Import ListNotations.
Open Scope R_scope.

(* ------------------------------------------------------------------ analysis helpers *)

(* a function that near [a] coincides pointwise with one of two functions sharing value and
   derivative at [a] has that derivative *)
Lemma derive_glue (f g h : R -> R) a l :
  (exists d, 0 < d /\ forall x, Rabs (x - a) < d -> f x = g x \/ f x = h x) ->
  f a = g a -> f a = h a -> is_derive g a l -> is_derive h a l -> is_derive f a l.
Proof.
  intros [d0 [Hd0 Hloc]] Hga Hha Hg Hh.
  apply is_derive_Reals. apply is_derive_Reals in Hg. apply is_derive_Reals in Hh.
  intros eps Heps. destruct (Hg eps Heps) as [d1 H1]. destruct (Hh eps Heps) as [d2 H2].
  assert (Hm : 0 < Rmin d0 (Rmin d1 d2)).
  { apply Rmin_pos; [assumption|]. apply Rmin_pos; [apply d1 | apply d2]. }
  exists (mkposreal _ Hm). intros h0 Hne Hlt. simpl in Hlt.
  assert (Hl0 : Rabs h0 < d0) by (eapply Rlt_le_trans; [exact Hlt | apply Rmin_l]).
  assert (Hl1 : Rabs h0 < d1) by (eapply Rlt_le_trans; [exact Hlt |]; eapply Rle_trans; [apply Rmin_r | apply Rmin_l]).
  assert (Hl2 : Rabs h0 < d2) by (eapply Rlt_le_trans; [exact Hlt |]; eapply Rle_trans; [apply Rmin_r | apply Rmin_r]).
  destruct (Hloc (a + h0)) as [E|E].
  - replace (a + h0 - a) with h0 by ring. exact Hl0.
  - rewrite E, Hga. apply H1; assumption.
  - rewrite E, Hha. apply H2; assumption.
Qed.

Lemma derive_local (f g : R -> R) a l :
  (exists d, 0 < d /\ forall x, Rabs (x - a) < d -> f x = g x) -> is_derive g a l -> is_derive f a l.
Proof.
  intros [d [Hd Hloc]] Hg. apply (derive_glue f g g a l); auto.
  - exists d. split; auto.
  - apply Hloc. rewrite Rminus_eq_0, Rabs_R0. exact Hd.
  - apply Hloc. rewrite Rminus_eq_0, Rabs_R0. exact Hd.
Qed.

Lemma locally_pos (g : R -> R) a : continuous g a -> 0 < g a ->
  exists d, 0 < d /\ forall x, Rabs (x - a) < d -> 0 < g x.
Proof.
  intros Hc Hp.
  assert (HL : locally a (fun x => 0 < g x)).
  { apply (Hc (fun y => 0 < y)). apply (open_gt 0). exact Hp. }
  destruct HL as [eps He]. exists eps. split; [apply eps|].
  intros x Hx. apply He. exact Hx.
Qed.

Lemma two_radii (P Q : R -> Prop) a :
  (exists d, 0 < d /\ forall x, Rabs (x - a) < d -> P x) ->
  (exists d, 0 < d /\ forall x, Rabs (x - a) < d -> Q x) ->
  exists d, 0 < d /\ forall x, Rabs (x - a) < d -> P x /\ Q x.
Proof.
  intros [d1 [H1 P1]] [d2 [H2 P2]]. exists (Rmin d1 d2). split; [apply Rmin_pos; auto|].
  intros x Hx. split; [apply P1 | apply P2]; eapply Rlt_le_trans; try exact Hx; [apply Rmin_l | apply Rmin_r].
Qed.

(* the tangent-line criterion of convexity *)
Lemma convex_of_tangent (c g : R -> R) :
  (forall x y, c x + g x * (y - x) <= c y) -> convex1 c.
Proof.
  intros Ht x y lam [H0 H1].
  pose (z := lam * x + (1 - lam) * y).
  pose proof (Ht z x) as Hx. pose proof (Ht z y) as Hy. fold z.
  assert (E : lam * (g z * (x - z)) + (1 - lam) * (g z * (y - z)) = 0) by (unfold z; ring).
  assert (A : lam * (c z + g z * (x - z)) <= lam * c x) by (apply Rmult_le_compat_l; lra).
  assert (B : (1 - lam) * (c z + g z * (y - z)) <= (1 - lam) * c y) by (apply Rmult_le_compat_l; lra).
  lra.
Qed.

(* ------------------------------------------------------------------ constants at R *)
Lemma half_R : half (T:=R) = / 2.
Proof. unfold half. num_R. unfold Rdec. change (Z.pow 10 1) with 10%Z. lra. Qed.

Ltac cu_R := rewrite ?half_R in *; num_R.

(* ------------------------------------------------------------------ scalar rows *)
Definition r_cost (r : R * R * Z) : R := fst (fst r).
Definition r_force (r : R * R * Z) : R := snd (fst r).

Lemma row_eq_acc s D x : r_cost (row_eq s D x) = s + r_cost (row_eq 0 D x).
Proof. unfold row_eq, r_cost; cbn [fst snd]. cu_R. ring. Qed.
Lemma row_eq_force s D x : r_force (row_eq s D x) = - (D * x).
Proof. unfold row_eq, r_force; cbn [fst snd]. cu_R. ring. Qed.
Lemma row_eq_cost D x : r_cost (row_eq 0 D x) = / 2 * D * x * x.
Proof. unfold row_eq, r_cost; cbn [fst snd]. cu_R. ring. Qed.

Lemma row_eq_grad D x : is_derive (fun t => r_cost (row_eq 0 D t)) x (- r_force (row_eq 0 D x)).
Proof.
  rewrite row_eq_force.
  apply (is_derive_ext (fun t => / 2 * D * t * t)); [intros; symmetry; apply row_eq_cost|].
  auto_derive; [exact I | lra].
Qed.

Lemma row_eq_convex D : 0 <= D -> convex1 (fun t => r_cost (row_eq 0 D t)).
Proof.
  intros HD. apply (convex_of_tangent _ (fun t => D * t)). intros x y.
  rewrite !row_eq_cost. assert (0 <= D * (y - x) * (y - x)) by (rewrite Rmult_assoc; apply Rmult_le_pos; [lra | apply Rle_0_sqr]).
  nra.
Qed.

(* unilateral rows: limits, frictionless and pyramidal contacts *)
Lemma row_uni_cost D x : r_cost (row_uni 0 D x) = if Rle_dec 0 x then 0 else / 2 * D * x * x.
Proof. unfold row_uni, r_cost. cu_R. unfold Rleb. destruct (Rle_dec 0 x); simpl; ring. Qed.
Lemma row_uni_force s D x : r_force (row_uni s D x) = if Rle_dec 0 x then 0 else - (D * x).
Proof. unfold row_uni, r_force. cu_R. unfold Rleb. destruct (Rle_dec 0 x); simpl; ring. Qed.
Lemma row_uni_acc s D x : r_cost (row_uni s D x) = s + r_cost (row_uni 0 D x).
Proof. unfold row_uni, r_cost. cu_R. unfold Rleb. destruct (Rle_dec 0 x); simpl; ring. Qed.

Lemma row_uni_grad D x : is_derive (fun t => r_cost (row_uni 0 D t)) x (- r_force (row_uni 0 D x)).
Proof.
  rewrite row_uni_force.
  apply (is_derive_ext (fun t => if Rle_dec 0 t then 0 else / 2 * D * t * t)); [intros; symmetry; apply row_uni_cost|].
  destruct (Rtotal_order x 0) as [Hx|[Hx|Hx]].
  - destruct (Rle_dec 0 x); [lra|].
    apply (derive_local _ (fun t => / 2 * D * t * t)).
    + exists (- x). split; [lra|]. intros t Ht. apply Rabs_def2 in Ht. destruct (Rle_dec 0 t); [lra | reflexivity].
    + auto_derive; [exact I | lra].
  - subst x. destruct (Rle_dec 0 0); [|lra].
    apply (derive_glue _ (fun _ => 0) (fun t => / 2 * D * t * t)).
    + exists 1. split; [lra|]. intros t _. destruct (Rle_dec 0 t); auto.
    + destruct (Rle_dec 0 0); [reflexivity | lra].
    + destruct (Rle_dec 0 0); [ring | lra].
    + auto_derive; [exact I | lra].
    + auto_derive; [exact I | lra].
  - destruct (Rle_dec 0 x); [|lra].
    apply (derive_local _ (fun _ => 0)).
    + exists x. split; [lra|]. intros t Ht. apply Rabs_def2 in Ht. destruct (Rle_dec 0 t); [reflexivity | lra].
    + auto_derive; [exact I | lra].
Qed.

Lemma row_uni_convex D : 0 <= D -> convex1 (fun t => r_cost (row_uni 0 D t)).
Proof.
  intros HD. apply (convex_of_tangent _ (fun t => if Rle_dec 0 t then 0 else D * t)). intros x y.
  rewrite !row_uni_cost.
  assert (0 <= D * (y * y)) by (apply Rmult_le_pos; [lra | apply Rle_0_sqr]).
  assert (0 <= D * (x * x)) by (apply Rmult_le_pos; [lra | apply Rle_0_sqr]).
  assert (0 <= D * ((y - x) * (y - x))) by (apply Rmult_le_pos; [lra | apply Rle_0_sqr]).
  destruct (Rle_dec 0 x), (Rle_dec 0 y); nra.
Qed.

(* friction-loss rows: with a = R*floss and D*R = 1 the cost is D * Huber_a(x) *)
Definition hub (a x : R) : R :=
  if Rle_dec x (- a) then - / 2 * a * a - a * x else if Rle_dec a x then - / 2 * a * a + a * x else / 2 * x * x.
Definition hubg (a x : R) : R :=
  if Rle_dec x (- a) then - a else if Rle_dec a x then a else x.

Lemma hub_tangent a x y : 0 <= a -> hub a x + hubg a x * (y - x) <= hub a y.
Proof.
  intros Ha. unfold hub, hubg.
  pose proof (Rle_0_sqr (y - x)) as S1. pose proof (Rle_0_sqr (y + a)) as S2. pose proof (Rle_0_sqr (y - a)) as S3.
  unfold Rsqr in *.
  destruct (Rle_dec x (- a)), (Rle_dec a x), (Rle_dec y (- a)), (Rle_dec a y); try nra.
Qed.

Lemma hub_derive a x : 0 <= a -> is_derive (hub a) x (hubg a x).
Proof.
  intros Ha. destruct (Req_dec a 0) as [Ea|Ea].
  { (* a = 0: hub is identically 0 *)
    subst a. apply (derive_local _ (fun _ => 0)).
    - exists 1. split; [lra|]. intros t _. unfold hub. destruct (Rle_dec t (- 0)), (Rle_dec 0 t); lra.
    - replace (hubg 0 x) with 0 by (unfold hubg; destruct (Rle_dec x (- 0)), (Rle_dec 0 x); lra).
      auto_derive; [exact I | lra]. }
  assert (Hp : 0 < a) by lra.
  destruct (Rtotal_order x (- a)) as [Hx|[Hx|Hx]].
  - (* linear negative *)
    replace (hubg a x) with (- a) by (unfold hubg; destruct (Rle_dec x (- a)); lra).
    apply (derive_local _ (fun t => - / 2 * a * a - a * t)).
    + exists (- a - x). split; [lra|]. intros t Ht. apply Rabs_def2 in Ht. unfold hub. destruct (Rle_dec t (- a)); lra.
    + auto_derive; [exact I | lra].
  - (* boundary x = -a *)
    replace (hubg a x) with (- a) by (unfold hubg; destruct (Rle_dec x (- a)); lra).
    apply (derive_glue _ (fun t => - / 2 * a * a - a * t) (fun t => / 2 * t * t)).
    + exists a. split; [lra|]. intros t Ht. apply Rabs_def2 in Ht. unfold hub.
      destruct (Rle_dec t (- a)); [left; reflexivity|]. destruct (Rle_dec a t); [lra | right; reflexivity].
    + unfold hub. destruct (Rle_dec x (- a)); lra.
    + unfold hub. destruct (Rle_dec x (- a)); [subst x; nra | lra].
    + auto_derive; [exact I | lra].
    + auto_derive; [exact I | lra].
  - destruct (Rtotal_order x a) as [Hy|[Hy|Hy]].
    + (* quadratic *)
      replace (hubg a x) with x by (unfold hubg; destruct (Rle_dec x (- a)), (Rle_dec a x); lra).
      apply (derive_local _ (fun t => / 2 * t * t)).
      * exists (Rmin (x + a) (a - x)). split; [apply Rmin_pos; lra|]. intros t Ht.
        assert (Rabs (t - x) < x + a) by (eapply Rlt_le_trans; [exact Ht | apply Rmin_l]).
        assert (Rabs (t - x) < a - x) by (eapply Rlt_le_trans; [exact Ht | apply Rmin_r]).
        apply Rabs_def2 in H. apply Rabs_def2 in H0. unfold hub.
        destruct (Rle_dec t (- a)), (Rle_dec a t); lra.
      * auto_derive; [exact I | lra].
    + (* boundary x = a *)
      replace (hubg a x) with a by (unfold hubg; destruct (Rle_dec x (- a)), (Rle_dec a x); lra).
      apply (derive_glue _ (fun t => - / 2 * a * a + a * t) (fun t => / 2 * t * t)).
      * exists a. split; [lra|]. intros t Ht. apply Rabs_def2 in Ht. unfold hub.
        destruct (Rle_dec t (- a)); [lra|]. destruct (Rle_dec a t); [left | right]; reflexivity.
      * unfold hub. destruct (Rle_dec x (- a)), (Rle_dec a x); lra.
      * unfold hub. destruct (Rle_dec x (- a)), (Rle_dec a x); try lra. subst x; nra.
      * auto_derive; [exact I | lra].
      * auto_derive; [exact I | lra].
    + (* linear positive *)
      replace (hubg a x) with a by (unfold hubg; destruct (Rle_dec x (- a)), (Rle_dec a x); lra).
      apply (derive_local _ (fun t => - / 2 * a * a + a * t)).
      * exists (x - a). split; [lra|]. intros t Ht. apply Rabs_def2 in Ht. unfold hub.
        destruct (Rle_dec t (- a)), (Rle_dec a t); lra.
      * auto_derive; [exact I | lra].
Qed.

Lemma hubg_bound a x : 0 <= a -> Rabs (hubg a x) <= a.
Proof.
  intros Ha. unfold hubg. destruct (Rle_dec x (- a)), (Rle_dec a x); apply Rabs_le; lra.
Qed.

Lemma row_fric_cost D R fl x : D * R = 1 ->
  r_cost (row_fric 0 D R fl x) = D * hub (R * fl) x.
Proof.
  intros E. unfold row_fric, r_cost, hub. cu_R. unfold Rleb.
  replace (- R * fl) with (- (R * fl)) by ring.
  assert (Ef : fl = D * (R * fl)) by (rewrite <- Rmult_assoc, E; ring).
  destruct (Rle_dec x (- (R * fl))); [|destruct (Rle_dec (R * fl) x)]; cbn [fst snd].
  - rewrite Ef at 2 3. ring.
  - rewrite Ef at 2 3. ring.
  - ring.
Qed.
Lemma row_fric_force s D R fl x : D * R = 1 ->
  r_force (row_fric s D R fl x) = - (D * hubg (R * fl) x).
Proof.
  intros E. unfold row_fric, r_force, hubg. cu_R. unfold Rleb.
  replace (- R * fl) with (- (R * fl)) by ring.
  assert (Ef : fl = D * (R * fl)) by (rewrite <- Rmult_assoc, E; ring).
  destruct (Rle_dec x (- (R * fl))); [|destruct (Rle_dec (R * fl) x)]; cbn [fst snd].
  - rewrite Ef at 1. ring.
  - rewrite Ef at 1. ring.
  - ring.
Qed.
Lemma row_fric_acc s D R fl x : r_cost (row_fric s D R fl x) = s + r_cost (row_fric 0 D R fl x).
Proof.
  unfold row_fric, r_cost. cu_R. unfold Rleb.
  destruct (Rle_dec x (- R * fl)); [|destruct (Rle_dec (R * fl) x)]; cbn [fst snd]; ring.
Qed.

Lemma row_fric_grad D R fl x : D * R = 1 -> 0 < R -> 0 <= fl ->
  is_derive (fun t => r_cost (row_fric 0 D R fl t)) x (- r_force (row_fric 0 D R fl x)).
Proof.
  intros E HR Hf. rewrite row_fric_force by assumption.
  apply (is_derive_ext (fun t => D * hub (R * fl) t)); [intros; symmetry; apply row_fric_cost; assumption|].
  replace (- - (D * hubg (R * fl) x)) with (D * hubg (R * fl) x) by ring.
  apply (is_derive_scal (hub (R * fl)) x D). apply hub_derive. apply Rmult_le_pos; lra.
Qed.

Lemma row_fric_convex D R fl : D * R = 1 -> 0 < R -> 0 <= fl ->
  convex1 (fun t => r_cost (row_fric 0 D R fl t)).
Proof.
  intros E HR Hf. apply (convex_of_tangent _ (fun t => D * hubg (R * fl) t)). intros x y.
  rewrite !row_fric_cost by assumption.
  assert (HD : 0 < D) by (destruct (Rlt_or_le 0 D); [assumption | nra]).
  assert (Ha : 0 <= R * fl) by (apply Rmult_le_pos; lra).
  pose proof (hub_tangent (R * fl) x y Ha). nra.
Qed.

Lemma row_fric_bound s D R fl x : D * R = 1 -> 0 < R -> 0 <= fl ->
  Rabs (r_force (row_fric s D R fl x)) <= fl.
Proof.
  intros E HR Hf. rewrite row_fric_force by assumption.
  assert (HD : 0 < D) by (destruct (Rlt_or_le 0 D); [assumption | nra]).
  assert (Ha : 0 <= R * fl) by (apply Rmult_le_pos; lra).
  rewrite Rabs_Ropp, Rabs_mult, (Rabs_pos_eq D) by lra.
  pose proof (hubg_bound (R * fl) x Ha).
  replace fl with (D * (R * fl)) at 2 by (rewrite <- Rmult_assoc, E; ring).
  apply Rmult_le_compat_l; lra.
Qed.

(* ------------------------------------------------------------------ mju_dot / mju_norm at R *)

Lemma ssq_nonneg v : 0 <= ssq v.
Proof. induction v; simpl; [lra | pose proof (Rle_0_sqr a); unfold Rsqr in *; lra]. Qed.

Lemma sumsq4_R : forall n v, (length v <= n)%nat -> forall r0 r1 r2 r3 : R,
  sumsq4 r0 r1 r2 r3 v = r0 + r1 + r2 + r3 + ssq v.
Proof.
  induction n; intros v Hl r0 r1 r2 r3.
  - destruct v; [|simpl in Hl; lia]. simpl. num_R. ring.
  - destruct v as [|a0 [|a1 [|a2 [|a3 v']]]]; simpl; num_R; try ring.
    rewrite IHn by (simpl in Hl; lia). ring.
Qed.

Lemma mju_sumsq_R (v : list R) : mju_sumsq v = ssq v.
Proof. unfold mju_sumsq. rewrite (sumsq4_R (length v)) by lia. num_R. ring. Qed.

Lemma mju_norm_R (v : list R) : mju_norm v = sqrt (ssq v).
Proof. unfold mju_norm. rewrite mju_sumsq_R. reflexivity. Qed.

Lemma ssq_app a b : ssq (a ++ b) = ssq a + ssq b.
Proof. induction a; simpl; [ring | rewrite IHa; ring]. Qed.

Lemma ssq_upd v k u : (k < length v)%nat -> ssq (upd v k u) = ssq (upd v k 0) + u * u.
Proof. intros Hk. unfold upd. rewrite !ssq_app. simpl. ring. Qed.

Lemma ssq_zero_all v : ssq v = 0 -> List.Forall (fun a => a = 0) v.
Proof.
  induction v; simpl; intros E; [constructor|].
  pose proof (ssq_nonneg v). pose proof (Rle_0_sqr a). unfold Rsqr in *.
  constructor; [nra | apply IHv; nra].
Qed.

(* map2 and upd *)
Lemma map2_length (f : R -> R -> R) a b : length (map2 f a b) = Nat.min (length a) (length b).
Proof. revert b; induction a; destruct b; simpl; auto. Qed.

Lemma map2_upd (f : R -> R -> R) a b k u : (k < length a)%nat -> (k < length b)%nat ->
  map2 f (upd a k u) b = upd (map2 f a b) k (f u (nth k b 0)).
Proof.
  revert b k. induction a as [|x a IH]; intros b k Ha Hb; [simpl in Ha; lia|].
  destruct b as [|y b]; [simpl in Hb; lia|].
  destruct k; unfold upd in *; simpl.
  - reflexivity.
  - f_equal. apply IH; simpl in *; lia.
Qed.

Lemma upd_length {A} (l : list A) k x : (k < length l)%nat -> length (upd l k x) = length l.
Proof.
  intros Hk. unfold upd. rewrite app_length, firstn_length. cbn [length]. rewrite skipn_length. lia.
Qed.

Lemma nth_upd_same {A} (l : list A) k x d : (k < length l)%nat -> nth k (upd l k x) d = x.
Proof.
  intros Hk. unfold upd. rewrite app_nth2; rewrite firstn_length; [|lia].
  replace (k - Nat.min k (length l))%nat with 0%nat by lia. reflexivity.
Qed.

Lemma upd_nth_id {A} (l : list A) k d : (k < length l)%nat -> upd l k (nth k l d) = l.
Proof.
  revert k; induction l; intros k Hk; [simpl in Hk; lia|].
  destruct k; unfold upd in *; simpl; [reflexivity|]. f_equal. apply IHl. simpl in Hk; lia.
Qed.

(* ------------------------------------------------------------------ the three zones of the elliptic cone *)
(* top: mu*T <= N;  bottom: mu*N + T <= 0;  middle otherwise *)
Definition Zsel (mu N T a b c : R) : R :=
  if Rle_dec (mu * T) N then a else if Rle_dec (mu * N + T) 0 then b else c.

Lemma locally_neg (g : R -> R) a : continuous g a -> g a < 0 ->
  exists d, 0 < d /\ forall x, Rabs (x - a) < d -> g x < 0.
Proof.
  intros Hc Hn. destruct (locally_pos (fun t => - g t) a) as [d [Hd H]].
  - apply (continuous_opp g a Hc).
  - lra.
  - exists d. split; [exact Hd|]. intros x Hx. specialize (H x Hx). lra.
Qed.

(* derivative of a zone-wise defined function of one variable t, N = Nf t, T = Tf t.
   Away from the apex the derivative is determined by the branch functions on the closures of their
   zones, provided they agree (value and derivative) where two zones meet. *)
Lemma Zsel_derive (mu : R) (Nf Tf bf cf : R -> R) (x l : R) :
  0 < mu -> (forall t, 0 <= Tf t) -> continuous Nf x -> continuous Tf x ->
  0 < Tf x \/ Nf x <> 0 ->
  (mu * Tf x <= Nf x -> l = 0) ->
  (mu * Nf x + Tf x <= 0 -> is_derive bf x l) ->
  (Nf x <= mu * Tf x -> 0 <= mu * Nf x + Tf x -> is_derive cf x l) ->
  (mu * Nf x + Tf x = 0 -> bf x = cf x) ->
  (Nf x = mu * Tf x -> cf x = 0) ->
  is_derive (fun t => Zsel mu (Nf t) (Tf t) 0 (bf t) (cf t)) x l.
Proof.
  intros Hmu HT cN cT Hna Htop Hbot Hmid Hvb Hvc.
  pose (g1 := fun t => Nf t - mu * Tf t). pose (g2 := fun t => mu * Nf t + Tf t).
  assert (c1 : continuous g1 x).
  { unfold g1. apply (continuous_minus Nf (fun t => mu * Tf t)); [exact cN|].
    apply (continuous_scal_r mu Tf x cT). }
  assert (c2 : continuous g2 x).
  { unfold g2. apply (continuous_plus (fun t => mu * Nf t) Tf); [|exact cT].
    apply (continuous_scal_r mu Nf x cN). }
  destruct (Rtotal_order (g1 x) 0) as [H1|[H1|H1]].
  - (* strictly outside the top zone *)
    destruct (locally_neg g1 x c1 H1) as [d1 [Hd1 L1]].
    destruct (Rtotal_order (g2 x) 0) as [H2|[H2|H2]].
    + (* bottom interior *)
      destruct (locally_neg g2 x c2 H2) as [d2 [Hd2 L2]].
      apply (derive_local _ bf).
      * destruct (two_radii _ _ x (ex_intro _ d1 (conj Hd1 L1)) (ex_intro _ d2 (conj Hd2 L2))) as [d [Hd L]].
        exists d. split; [exact Hd|]. intros t Ht. destruct (L t Ht) as [A B]. unfold g1, g2 in A, B.
        unfold Zsel. destruct (Rle_dec (mu * Tf t) (Nf t)); [lra|]. destruct (Rle_dec (mu * Nf t + Tf t) 0); [reflexivity | lra].
      * apply Hbot. unfold g2 in H2. lra.
    + (* bottom / middle boundary *)
      apply (derive_glue _ bf cf).
      * exists d1. split; [exact Hd1|]. intros t Ht. specialize (L1 t Ht). unfold g1 in L1.
        unfold Zsel. destruct (Rle_dec (mu * Tf t) (Nf t)); [lra|]. destruct (Rle_dec (mu * Nf t + Tf t) 0); auto.
      * unfold Zsel. unfold g1, g2 in *. destruct (Rle_dec (mu * Tf x) (Nf x)); [lra|]. destruct (Rle_dec (mu * Nf x + Tf x) 0); [reflexivity | lra].
      * unfold Zsel. unfold g1, g2 in *. destruct (Rle_dec (mu * Tf x) (Nf x)); [lra|]. destruct (Rle_dec (mu * Nf x + Tf x) 0); [apply Hvb; lra | lra].
      * apply Hbot. unfold g2 in H2. lra.
      * apply Hmid; unfold g1, g2 in *; lra.
    + (* middle interior *)
      destruct (locally_pos g2 x c2 H2) as [d2 [Hd2 L2]].
      apply (derive_local _ cf).
      * destruct (two_radii _ _ x (ex_intro _ d1 (conj Hd1 L1)) (ex_intro _ d2 (conj Hd2 L2))) as [d [Hd L]].
        exists d. split; [exact Hd|]. intros t Ht. destruct (L t Ht) as [A B]. unfold g1, g2 in A, B.
        unfold Zsel. destruct (Rle_dec (mu * Tf t) (Nf t)); [lra|]. destruct (Rle_dec (mu * Nf t + Tf t) 0); [lra | reflexivity].
      * apply Hmid; unfold g1, g2 in *; lra.
  - (* on the top boundary: away from the apex the bottom zone is not adjacent *)
    unfold g1 in H1.
    assert (HTp : 0 < Tf x).
    { destruct Hna as [A|A]; [exact A|]. pose proof (HT x). destruct (Req_dec (Tf x) 0) as [E|E]; [|lra].
      exfalso. apply A. rewrite E in H1. lra. }
    assert (H2 : 0 < g2 x) by (unfold g2; nra).
    destruct (locally_pos g2 x c2 H2) as [d2 [Hd2 L2]].
    assert (El : l = 0) by (apply Htop; lra). subst l.
    apply (derive_glue _ (fun _ => 0) cf).
    + exists d2. split; [exact Hd2|]. intros t Ht. specialize (L2 t Ht). unfold g2 in L2.
      unfold Zsel. destruct (Rle_dec (mu * Tf t) (Nf t)); [left; reflexivity|].
      destruct (Rle_dec (mu * Nf t + Tf t) 0); [lra | right; reflexivity].
    + unfold Zsel. destruct (Rle_dec (mu * Tf x) (Nf x)); [reflexivity | lra].
    + unfold Zsel. destruct (Rle_dec (mu * Tf x) (Nf x)); [symmetry; apply Hvc; lra | lra].
    + auto_derive; [exact I | lra].
    + apply Hmid; unfold g2 in H2; lra.
  - (* top interior *)
    destruct (locally_pos g1 x c1 H1) as [d1 [Hd1 L1]].
    assert (El : l = 0) by (apply Htop; unfold g1 in H1; lra). subst l.
    apply (derive_local _ (fun _ => 0)).
    + exists d1. split; [exact Hd1|]. intros t Ht. specialize (L1 t Ht). unfold g1 in L1.
      unfold Zsel. destruct (Rle_dec (mu * Tf t) (Nf t)); [reflexivity | lra].
    + auto_derive; [exact I | lra].
Qed.

(* ------------------------------------------------------------------ one-variable profiles of the elliptic block *)
(* along the normal coordinate: N = t*mu, T constant *)
Definition Dmid (mu D0 : R) : R := D0 / (mu * mu * (1 + mu * mu)).

Lemma profA mu T D0 Q x : 0 < mu -> 0 <= T -> Q = / 2 * (D0 / (mu * mu)) * (T * T) ->
  is_derive (fun t => Zsel mu (t * mu) T 0 (/ 2 * D0 * t * t + Q)
                           (/ 2 * Dmid mu D0 * (t * mu - mu * T) * (t * mu - mu * T)))
            x (- Zsel mu (x * mu) T 0 (- (D0 * x)) (- Dmid mu D0 * (x * mu - mu * T) * mu)).
Proof.
  intros Hmu HT HQ.
  assert (Hm2 : 0 < mu * mu) by nra.
  destruct (Req_dec T 0) as [ET|ET]; [destruct (Req_dec x 0) as [Ex|Ex]|].
  - (* apex *)
    subst T x. assert (Q0 : Q = 0) by (rewrite HQ; field; lra). clear HQ. subst Q.
    replace (- Zsel mu (0 * mu) 0 0 (- (D0 * 0)) (- Dmid mu D0 * (0 * mu - mu * 0) * mu)) with 0.
    2:{ unfold Zsel. destruct (Rle_dec (mu * 0) (0 * mu)); lra. }
    apply (derive_glue _ (fun _ => 0) (fun t => / 2 * D0 * t * t + 0)).
    + exists 1. split; [lra|]. intros t _. unfold Zsel.
      destruct (Rle_dec (mu * 0) (t * mu)); [left; reflexivity|].
      destruct (Rle_dec (mu * (t * mu) + 0) 0); [right; reflexivity|]. exfalso. nra.
    + unfold Zsel. destruct (Rle_dec (mu * 0) (0 * mu)); [reflexivity | lra].
    + unfold Zsel. destruct (Rle_dec (mu * 0) (0 * mu)); lra.
    + auto_derive; [exact I | lra].
    + auto_derive; [exact I | lra].
  - (* T = 0, x <> 0 *) 
    apply (Zsel_derive mu (fun t => t * mu) (fun _ => T)); auto.
    + apply (ex_derive_continuous (fun t : R => t * mu)). auto_derive. exact I.
    + apply continuous_const.
    + right. nra.
    + intros H. unfold Zsel. destruct (Rle_dec (mu * T) (x * mu)); lra.
    + intros H. unfold Zsel. destruct (Rle_dec (mu * T) (x * mu)); [exfalso; subst T; nra|].
      destruct (Rle_dec (mu * (x * mu) + T) 0); [|lra]. auto_derive; [exact I | lra].
    + intros H1 H2. exfalso. subst T. nra.
    + intros H. exfalso. subst T. nra.
    + intros H. exfalso. subst T. nra.
  - assert (HTp : 0 < T) by lra.
    apply (Zsel_derive mu (fun t => t * mu) (fun _ => T)); auto.
    + apply (ex_derive_continuous (fun t : R => t * mu)). auto_derive. exact I.
    + apply continuous_const.
    + intros H. unfold Zsel. destruct (Rle_dec (mu * T) (x * mu)); lra.
    + intros H. unfold Zsel. destruct (Rle_dec (mu * T) (x * mu)); [exfalso; nra|].
      destruct (Rle_dec (mu * (x * mu) + T) 0); [|lra]. auto_derive; [exact I | lra].
    + intros H1 H2. unfold Zsel. destruct (Rle_dec (mu * T) (x * mu)) as [A|A].
      * assert (E : x = T) by nra. subst x. auto_derive; [exact I | unfold Dmid; field; lra].
      * destruct (Rle_dec (mu * (x * mu) + T) 0) as [B|B].
        -- assert (E : T = - (mu * mu * x)) by lra. subst T. auto_derive; [exact I | unfold Dmid; field; nra].
        -- auto_derive; [exact I | unfold Dmid; field; nra].
    + intros H. assert (E : T = - (mu * mu * x)) by lra. subst T. rewrite HQ. unfold Dmid. field. nra.
    + intros H. assert (E : x = T) by nra. subst x. ring.
Qed.

(* along a tangential coordinate: N constant, T = sqrt(c + (t f)^2) *)
Definition Tk (c f t : R) : R := sqrt (c + (t * f) * (t * f)).

Lemma Tk_nonneg c f t : 0 <= Tk c f t.
Proof. apply sqrt_pos. Qed.
Lemma Tk_sqr c f t : 0 <= c -> Tk c f t * Tk c f t = c + (t * f) * (t * f).
Proof. intros Hc. unfold Tk. apply sqrt_sqrt. pose proof (Rle_0_sqr (t * f)). unfold Rsqr in *. lra. Qed.
Lemma Tk_cont c f x : continuous (Tk c f) x.
Proof.
  unfold Tk. apply (continuous_comp (fun t => c + t * f * (t * f)) sqrt).
  - apply (ex_derive_continuous (fun t : R => c + t * f * (t * f))). auto_derive. exact I.
  - apply continuous_sqrt.
Qed.
Lemma Tk_derive c f x : 0 < Tk c f x -> is_derive (Tk c f) x (f * (x * f) / Tk c f x).
Proof.
  intros Hp. unfold Tk in *.
  assert (0 < c + x * f * (x * f)).
  { destruct (Rlt_or_le 0 (c + x * f * (x * f))); [assumption|]. rewrite sqrt_neg_0 in Hp; lra. }
  auto_derive; [assumption|]. field. apply Rgt_not_eq. apply sqrt_lt_R0. assumption.
Qed.

Lemma profB mu N c f D0 Dk Q x : 0 < mu -> 0 <= c -> Dk * (mu * mu) = D0 * (f * f) ->
  Q = / 2 * (D0 / (mu * mu)) * (N * N + c) ->
  is_derive (fun t => Zsel mu N (Tk c f t) 0 (Q + / 2 * Dk * t * t)
                           (/ 2 * Dmid mu D0 * (N - mu * Tk c f t) * (N - mu * Tk c f t)))
            x (- Zsel mu N (Tk c f x) 0 (- (Dk * x))
                      (Dmid mu D0 * (N - mu * Tk c f x) * mu / Tk c f x * (x * f) * f)).
Proof.
  intros Hmu Hc Hrel HQ.
  assert (Hm2 : 0 < mu * mu) by nra.
  assert (EDk : Dk = D0 * (f * f) / (mu * mu)) by (apply (Rmult_eq_reg_r (mu * mu)); [rewrite Hrel; field; lra | lra]).
  pose proof (Tk_nonneg c f x) as HTx. pose proof (Tk_sqr c f x Hc) as HT2.
  destruct (Rlt_or_le 0 (Tk c f x)) as [HTp|HT0]; [|destruct (Req_dec N 0) as [EN|EN]].
  - (* T > 0 *)
    apply (Zsel_derive mu (fun _ => N) (Tk c f)); auto.
    + apply Tk_nonneg.
    + apply continuous_const.
    + apply Tk_cont.
    + intros H. unfold Zsel. destruct (Rle_dec (mu * Tk c f x) N); lra.
    + intros H. unfold Zsel. destruct (Rle_dec (mu * Tk c f x) N); [exfalso; nra|].
      destruct (Rle_dec (mu * N + Tk c f x) 0); [|lra]. auto_derive; [exact I | lra].
    + intros H1 H2.
      assert (Hd : is_derive (fun t => / 2 * Dmid mu D0 * (N - mu * Tk c f t) * (N - mu * Tk c f t)) x
                     (Dmid mu D0 * (N - mu * Tk c f x) * (- mu * (f * (x * f) / Tk c f x)))).
      { pose proof (Tk_derive c f x HTp) as Hk.
        assert (Hex : ex_derive (fun x0 : R => Tk c f x0) x) by (exists (f * (x * f) / Tk c f x); exact Hk).
        auto_derive; [repeat split; assumption |].
        replace (Derive (fun x0 : R => Tk c f x0) x) with (f * (x * f) / Tk c f x)
          by (symmetry; apply is_derive_unique; exact Hk).
        field. lra. }
      unfold Zsel. destruct (Rle_dec (mu * Tk c f x) N) as [A|A].
      * assert (E : N - mu * Tk c f x = 0) by lra.
        replace (-0) with (Dmid mu D0 * (N - mu * Tk c f x) * (- mu * (f * (x * f) / Tk c f x))) by (rewrite E; field; lra).
        exact Hd.
      * destruct (Rle_dec (mu * N + Tk c f x) 0) as [B|B].
        -- assert (E : Tk c f x = - (mu * N)) by lra.
           replace (- - (Dk * x)) with (Dmid mu D0 * (N - mu * Tk c f x) * (- mu * (f * (x * f) / Tk c f x))); [exact Hd|].
           rewrite EDk. rewrite E. unfold Dmid. field. repeat split; try lra. rewrite E in HTp. nra.
        -- replace (- (Dmid mu D0 * (N - mu * Tk c f x) * mu / Tk c f x * (x * f) * f))
             with (Dmid mu D0 * (N - mu * Tk c f x) * (- mu * (f * (x * f) / Tk c f x))) by (field; lra).
           exact Hd.
    + intros H. assert (E : Tk c f x = - (mu * N)) by lra.
      assert (Ec : c = mu * N * (mu * N) - x * f * (x * f)) by (rewrite E in HT2; lra).
      rewrite HQ, EDk, E, Ec. unfold Dmid. field. lra.
    + intros H. rewrite H. ring.
  - (* apex: N = 0, T = 0 *)
    assert (ET : Tk c f x = 0) by lra.
    assert (Ecx : c + x * f * (x * f) = 0) by (rewrite <- HT2, ET; ring).
    pose proof (Rle_0_sqr (x * f)) as Hs. unfold Rsqr in Hs.
    assert (Ec0 : c = 0) by lra. assert (Exf : x * f = 0) by nra.
    subst N c.
    replace (- Zsel mu 0 (Tk 0 f x) 0 (- (Dk * x)) (Dmid mu D0 * (0 - mu * Tk 0 f x) * mu / Tk 0 f x * (x * f) * f)) with 0.
    2:{ unfold Zsel. rewrite ET. destruct (Rle_dec (mu * 0) 0); lra. }
    apply (derive_local _ (fun t => / 2 * Dmid mu D0 * (mu * mu) * ((t * f) * (t * f)))).
    + exists 1. split; [lra|]. intros t _. unfold Zsel.
      pose proof (Tk_nonneg 0 f t) as Ht. pose proof (Tk_sqr 0 f t (Rle_refl 0)) as Ht2.
      destruct (Rle_dec (mu * Tk 0 f t) 0) as [A|A].
      * assert (Tk 0 f t = 0) by nra. rewrite H in Ht2.
        assert (Z : t * f * (t * f) = 0) by lra. rewrite Z. ring.
      * destruct (Rle_dec (mu * 0 + Tk 0 f t) 0) as [B|B]; [exfalso; nra|].
        replace (/ 2 * Dmid mu D0 * (0 - mu * Tk 0 f t) * (0 - mu * Tk 0 f t))
          with (/ 2 * Dmid mu D0 * (mu * mu) * (Tk 0 f t * Tk 0 f t)) by ring.
        rewrite Ht2. ring.
    + auto_derive; [exact I|]. replace (x * f) with 0. ring.
  - (* T = 0, N <> 0 *)
    assert (ET : Tk c f x = 0) by lra.
    apply (Zsel_derive mu (fun _ => N) (Tk c f)); auto.
    + apply Tk_nonneg.
    + apply continuous_const.
    + apply Tk_cont.
    + intros H. unfold Zsel. destruct (Rle_dec (mu * Tk c f x) N); lra.
    + intros H. unfold Zsel. destruct (Rle_dec (mu * Tk c f x) N); [exfalso; rewrite ET in *; nra|].
      destruct (Rle_dec (mu * N + Tk c f x) 0); [|lra]. auto_derive; [exact I | lra].
    + intros H1 H2. exfalso. rewrite ET in *. nra.
    + intros H. exfalso. rewrite ET in *. nra.
    + intros H. exfalso. rewrite ET in *. nra.
Qed.

(* ------------------------------------------------------------------ block_ell at R *)
Definition e_cost (r : R * list R * Z * option (list R)) : R := fst (fst (fst r)).
Definition e_force (r : R * list R * Z * option (list R)) : list R := snd (fst (fst r)).
Definition e_state (r : R * list R * Z * option (list R)) : Z := snd (fst r).

Fixpoint quad (Ds xs : list R) : R :=
  match Ds, xs with d :: Ds', x :: xs' => / 2 * d * x * x + quad Ds' xs' | _, _ => 0 end.

Lemma fold_quad (Ds xs : list R) : forall s : R,
  fold_left (fun a dx => a + half * (fst dx) * (snd dx) * (snd dx))%num (combine Ds xs) s = s + quad Ds xs.
Proof.
  revert xs. induction Ds as [|d Ds IH]; intros xs s; [simpl; ring|].
  destruct xs as [|x xs]; [simpl; ring|].
  cbn [combine fold_left quad]. rewrite IH. cbn [fst snd]. cu_R. ring.
Qed.

Lemma top_bool mu N T : 0 < mu -> 0 <= T ->
  (Rleb (mu * T) N || (Rleb T 0 && Rleb 0 N)) = if Rle_dec (mu * T) N then true else false.
Proof.
  intros Hmu HT. unfold Rleb.
  destruct (Rle_dec (mu * T) N); [reflexivity|]. simpl.
  destruct (Rle_dec T 0); [|reflexivity]. destruct (Rle_dec 0 N); [|reflexivity].
  exfalso. assert (T = 0) by lra. subst T. lra.
Qed.
Lemma bot_bool mu N T : 0 < mu -> 0 <= T ->
  (Rleb (mu * N + T) 0 || (Rleb T 0 && Rltb N 0)) = if Rle_dec (mu * N + T) 0 then true else false.
Proof.
  intros Hmu HT. unfold Rleb, Rltb.
  destruct (Rle_dec (mu * N + T) 0); [reflexivity|]. simpl.
  destruct (Rle_dec T 0); [|reflexivity]. destruct (Rlt_dec N 0); [|reflexivity].
  exfalso. assert (T = 0) by lra. subst T. nra.
Qed.

Lemma nth_map2 (f : R -> R -> R) a b k : (k < length a)%nat -> (k < length b)%nat ->
  nth k (map2 f a b) 0 = f (nth k a 0) (nth k b 0).
Proof.
  revert b k. induction a as [|x a IH]; intros b k Ha Hb; [simpl in Ha; lia|].
  destruct b as [|y b]; [simpl in Hb; lia|]. destruct k; simpl; [reflexivity|]. apply IH; simpl in *; lia.
Qed.

Lemma nth_map_const {A} (l : list A) k : nth k (map (fun _ => 0) l) 0 = 0.
Proof. revert k; induction l; destruct k; simpl; auto. Qed.

Definition Tnorm (xt fr : list R) : R := sqrt (ssq (map2 Rmult xt fr)).

Lemma block_ell_cost flg s mu fr D0 Dt x0 xt : 0 < mu ->
  e_cost (block_ell flg s mu fr (D0 :: Dt) (x0 :: xt)) =
  s + Zsel mu (x0 * mu) (Tnorm xt fr) 0 (quad (D0 :: Dt) (x0 :: xt))
        (/ 2 * Dmid mu D0 * (x0 * mu - mu * Tnorm xt fr) * (x0 * mu - mu * Tnorm xt fr)).
Proof.
  intros Hmu. unfold block_ell, e_cost. cbv zeta. rewrite mju_norm_R. num_R.
  change (map2 Rmult xt fr) with (map2 Rmult xt fr). fold (Tnorm xt fr).
  assert (HT : 0 <= Tnorm xt fr) by apply sqrt_pos.
  rewrite top_bool, bot_bool by assumption. unfold Zsel.
  destruct (Rle_dec (mu * Tnorm xt fr) (x0 * mu)); [cbn [fst snd]; ring|].
  destruct (Rle_dec (mu * (x0 * mu) + Tnorm xt fr) 0); cbn [fst snd].
  - rewrite fold_quad. reflexivity.
  - cu_R. unfold Dmid. ring.
Qed.

Lemma block_ell_force0 flg s mu fr D0 Dt x0 xt : 0 < mu ->
  nth 0 (e_force (block_ell flg s mu fr (D0 :: Dt) (x0 :: xt))) 0 =
  Zsel mu (x0 * mu) (Tnorm xt fr) 0 (- (D0 * x0)) (- Dmid mu D0 * (x0 * mu - mu * Tnorm xt fr) * mu).
Proof.
  intros Hmu. unfold block_ell, e_force. cbv zeta. rewrite mju_norm_R. num_R. fold (Tnorm xt fr).
  assert (HT : 0 <= Tnorm xt fr) by apply sqrt_pos.
  rewrite top_bool, bot_bool by assumption. unfold Zsel.
  destruct (Rle_dec (mu * Tnorm xt fr) (x0 * mu)); [cbn [fst snd map nth]; reflexivity|].
  destruct (Rle_dec (mu * (x0 * mu) + Tnorm xt fr) 0); cbn [fst snd map2 nth].
  - ring.
  - unfold Dmid. ring.
Qed.

Lemma block_ell_forceS flg s mu fr D0 Dt x0 xt k : 0 < mu ->
  (k < length xt)%nat -> (k < length fr)%nat -> (k < length Dt)%nat ->
  nth (S k) (e_force (block_ell flg s mu fr (D0 :: Dt) (x0 :: xt))) 0 =
  Zsel mu (x0 * mu) (Tnorm xt fr) 0 (- (nth k Dt 0 * nth k xt 0))
       (Dmid mu D0 * (x0 * mu - mu * Tnorm xt fr) * mu / Tnorm xt fr * (nth k xt 0 * nth k fr 0) * nth k fr 0).
Proof.
  intros Hmu Hx Hf Hd. unfold block_ell, e_force. cbv zeta. rewrite mju_norm_R. num_R. fold (Tnorm xt fr).
  assert (HT : 0 <= Tnorm xt fr) by apply sqrt_pos.
  rewrite top_bool, bot_bool by assumption. unfold Zsel.
  destruct (Rle_dec (mu * Tnorm xt fr) (x0 * mu)); [cbn [fst snd]; apply nth_map_const|].
  destruct (Rle_dec (mu * (x0 * mu) + Tnorm xt fr) 0); cbn [fst snd map2 nth].
  - rewrite (nth_map2 (fun d x => - d * x)) by assumption. ring.
  - rewrite (nth_map2 (fun u f => - (- (D0 / (mu * mu * (1 + mu * mu))) * (x0 * mu - mu * Tnorm xt fr) * mu) / Tnorm xt fr * u * f)).
    + rewrite (nth_map2 Rmult) by assumption. unfold Dmid, Rdiv. ring.
    + rewrite map2_length. lia.
    + assumption.
Qed.

(* ------------------------------------------------------------------ gradient of the elliptic block *)
Lemma rel_ok_tail mu f fr D0 d Dt : rel_ok mu (f :: fr) D0 (d :: Dt) ->
  d * (mu * mu) = D0 * (f * f) /\ rel_ok mu fr D0 Dt.
Proof.
  intros H. split; [apply (H 0%nat); simpl; lia|]. intros k Hk. apply (H (S k)). simpl; lia.
Qed.

Lemma quad_rel mu D0 : 0 < mu -> forall Dt xt fr, length Dt = length xt -> (length xt <= length fr)%nat ->
  rel_ok mu fr D0 Dt -> quad Dt xt = / 2 * (D0 / (mu * mu)) * ssq (map2 Rmult xt fr).
Proof.
  intros Hmu. induction Dt as [|d Dt IH]; intros xt fr Hl Hf Hr.
  - destruct xt; [|simpl in Hl; lia]. simpl. ring.
  - destruct xt as [|x xt]; [simpl in Hl; lia|]. destruct fr as [|f fr]; [simpl in Hf; lia|].
    apply rel_ok_tail in Hr. destruct Hr as [Hd Hr].
    cbn [quad map2 ssq]. rewrite (IH xt fr) by (simpl in *; auto; lia).
    assert (Ed : d = D0 * (f * f) / (mu * mu)) by (apply (Rmult_eq_reg_r (mu * mu)); [rewrite Hd; field; lra | nra]).
    rewrite Ed. field. lra.
Qed.

Lemma upd_S {A} (x : A) l k t : upd (x :: l) (S k) t = x :: upd l k t.
Proof. reflexivity. Qed.
Lemma upd_0 {A} (x : A) l t : upd (x :: l) 0 t = t :: l.
Proof. reflexivity. Qed.

Lemma quad_upd Dt xt k t : (k < length xt)%nat -> (k < length Dt)%nat ->
  quad Dt (upd xt k t) = quad Dt (upd xt k 0) + / 2 * nth k Dt 0 * t * t.
Proof.
  revert xt k. induction Dt as [|d Dt IH]; intros xt k Hx Hd; [simpl in Hd; lia|].
  destruct xt as [|x xt]; [simpl in Hx; lia|].
  destruct k.
  - rewrite !upd_0. cbn [quad nth]. lra.
  - rewrite !upd_S. cbn [quad nth]. rewrite IH by (simpl in *; lia). lra.
Qed.

Lemma Tnorm_sqr xt fr : Tnorm xt fr * Tnorm xt fr = ssq (map2 Rmult xt fr).
Proof. unfold Tnorm. apply sqrt_sqrt. apply ssq_nonneg. Qed.

Lemma Tnorm_upd xt fr k t : (k < length xt)%nat -> (k < length fr)%nat ->
  Tnorm (upd xt k t) fr = Tk (ssq (map2 Rmult (upd xt k 0) fr)) (nth k fr 0) t.
Proof.
  intros Hx Hf. unfold Tnorm, Tk. f_equal.
  rewrite !map2_upd by assumption. rewrite ssq_upd by (rewrite map2_length; lia).
  rewrite (ssq_upd _ k (0 * nth k fr 0)) by (rewrite map2_length; lia). ring.
Qed.

Lemma ell_grad (flg : bool) (mu : R) (fr : list R) (D0 : R) (Dt : list R) (x0 : R) (xt : list R) (k : nat) : 0 < mu ->
  length Dt = length xt -> (length xt <= length fr)%nat -> rel_ok mu fr D0 Dt ->
  (k < length (x0 :: xt))%nat ->
  is_derive (fun t : R => e_cost (block_ell flg 0 mu fr (D0 :: Dt) (upd (x0 :: xt) k t)))
            (nth k (x0 :: xt) 0)
            (- nth k (e_force (block_ell flg 0 mu fr (D0 :: Dt) (x0 :: xt))) 0).
Proof.
  intros Hmu Hl Hf Hr Hk. destruct k as [|k].
  - (* normal coordinate *)
    cbn [nth]. rewrite block_ell_force0 by assumption.
    apply (is_derive_ext (fun t : R => Zsel mu (t * mu) (Tnorm xt fr) 0 (/ 2 * D0 * t * t + quad Dt xt)
               (/ 2 * Dmid mu D0 * (t * mu - mu * Tnorm xt fr) * (t * mu - mu * Tnorm xt fr)))).
    { intros t. cbv beta. rewrite upd_0. rewrite (block_ell_cost flg 0 mu fr D0 Dt t xt Hmu).
      cbn [quad]. rewrite Rplus_0_l. reflexivity. }
    apply profA; [assumption | apply sqrt_pos |].
    rewrite Tnorm_sqr. apply quad_rel; assumption.
  - (* tangential coordinate k *)
    simpl in Hk. assert (Hkx : (k < length xt)%nat) by lia.
    assert (Hkf : (k < length fr)%nat) by lia. assert (Hkd : (k < length Dt)%nat) by lia.
    cbn [nth]. rewrite block_ell_forceS by assumption.
    set (x := nth k xt 0). set (f := nth k fr 0). set (c := ssq (map2 Rmult (upd xt k 0) fr)).
    assert (ET : Tnorm xt fr = Tk c f x).
    { rewrite <- (upd_nth_id xt k 0 Hkx) at 1. apply Tnorm_upd; assumption. }
    rewrite ET.
    apply (is_derive_ext (fun t : R => Zsel mu (x0 * mu) (Tk c f t) 0
               ((/ 2 * D0 * x0 * x0 + quad Dt (upd xt k 0)) + / 2 * nth k Dt 0 * t * t)
               (/ 2 * Dmid mu D0 * (x0 * mu - mu * Tk c f t) * (x0 * mu - mu * Tk c f t)))).
    { intros t. cbv beta. rewrite upd_S. rewrite (block_ell_cost flg 0 mu fr D0 Dt x0 (upd xt k t) Hmu).
      rewrite Tnorm_upd by assumption. fold f c. cbn [quad]. rewrite (quad_upd Dt xt k t) by assumption.
      rewrite Rplus_0_l. f_equal. lra. }
    apply profB; [assumption | apply ssq_nonneg | apply Hr; assumption |].
    rewrite (quad_rel mu D0 Hmu Dt (upd xt k 0) fr); [fold c; field; lra | | | assumption].
    + rewrite upd_length; assumption.
    + rewrite upd_length; assumption.
Qed.

(* ------------------------------------------------------------------ the row loop *)
Lemma row_eq_tuple s D x :
  row_eq s D x = (s + r_cost (row_eq 0 D x), r_force (row_eq 0 D x), snd (row_eq 0 D x)).
Proof. unfold row_eq, r_cost, r_force. cbn [fst snd]. cu_R. rewrite Rplus_0_l. reflexivity. Qed.

Lemma row_fric_tuple s D R fl x :
  row_fric s D R fl x = (s + r_cost (row_fric 0 D R fl x), r_force (row_fric 0 D R fl x), snd (row_fric 0 D R fl x)).
Proof.
  unfold row_fric, r_cost, r_force. cu_R. unfold Rleb.
  destruct (Rle_dec x (- R * fl)); [|destruct (Rle_dec (R * fl) x)]; cbn [fst snd]; rewrite Rplus_0_l; reflexivity.
Qed.

Lemma row_uni_tuple s D x :
  row_uni s D x = (s + r_cost (row_uni 0 D x), r_force (row_uni 0 D x), snd (row_uni 0 D x)).
Proof.
  unfold row_uni, r_cost, r_force. cu_R. unfold Rleb.
  destruct (Rle_dec 0 x); cbn [fst snd]; rewrite ?Rplus_0_l, ?Rplus_0_r; reflexivity.
Qed.

Lemma block_ell_tuple flg s mu fr Ds xs :
  block_ell flg s mu fr Ds xs =
  (s + e_cost (block_ell flg 0 mu fr Ds xs), e_force (block_ell flg 0 mu fr Ds xs),
   e_state (block_ell flg 0 mu fr Ds xs), snd (block_ell flg 0 mu fr Ds xs)).
Proof.
  unfold block_ell, e_cost, e_force, e_state.
  destruct xs as [|x0 xt]; [cbn [fst snd]; num_R; rewrite Rplus_0_r; reflexivity|].
  destruct Ds as [|D0 Dt]; [cbn [fst snd]; num_R; rewrite Rplus_0_r; reflexivity|].
  cbv zeta.
  destruct (_ || _); [cbn [fst snd]; num_R; rewrite Rplus_0_r; reflexivity|].
  destruct (_ || _); cbn [fst snd].
  - rewrite !fold_quad. rewrite Rplus_0_l. reflexivity.
  - num_R. rewrite Rplus_0_l. reflexivity.
Qed.

Definition shift (s : R) (r : option (@cu_result R)) : option (@cu_result R) :=
  match r with Some (c, f, st, h) => Some (s + c, f, st, h) | None => None end.

Lemma shift_res_cons s f st r : shift s (res_cons f st r) = res_cons f st (shift s r).
Proof. destruct r as [[[[c fs] sts] hs]|]; reflexivity. Qed.
Lemma shift_res_app s f st h r : shift s (res_app f st h r) = res_app f st h (shift s r).
Proof. destruct r as [[[[c fs] sts] hs]|]; reflexivity. Qed.
Lemma shift_shift a b r : shift a (shift b r) = shift (a + b) r.
Proof. destruct r as [[[[c fs] sts] hs]|]; simpl; [rewrite Rplus_assoc; reflexivity | reflexivity]. Qed.

Lemma cu_loop_acc : forall fuel flg ne nf con i s rows jar,
  cu_loop fuel flg ne nf con i s rows jar = shift s (cu_loop fuel flg ne nf con i 0 rows jar).
Proof.
  induction fuel as [|fuel IH]; intros flg ne nf con i s rows jar;
    destruct rows as [|[[[[D Rr] fl] tp] id] rows]; destruct jar as [|x jar]; cbn [cu_loop]; try reflexivity;
    try (simpl; rewrite Rplus_0_r; reflexivity).
  destruct (i <? ne)%Z.
  { rewrite (row_eq_tuple s), (row_eq_tuple 0). rewrite (IH _ _ _ _ _ (s + _)), (IH _ _ _ _ _ (0 + _)).
    rewrite shift_res_cons, shift_shift, Rplus_0_l. reflexivity. }
  destruct (i <? ne + nf)%Z.
  { rewrite (row_fric_tuple s), (row_fric_tuple 0). rewrite (IH _ _ _ _ _ (s + _)), (IH _ _ _ _ _ (0 + _)).
    rewrite shift_res_cons, shift_shift, Rplus_0_l. reflexivity. }
  destruct (negb (tp =? CT_ELLIPTIC)%Z).
  { rewrite (row_uni_tuple s), (row_uni_tuple 0). rewrite (IH _ _ _ _ _ (s + _)), (IH _ _ _ _ _ (0 + _)).
    rewrite shift_res_cons, shift_shift, Rplus_0_l. reflexivity. }
  destruct (id <? 0)%Z; [reflexivity|].
  destruct (nth_error con (Z.to_nat id)) as [[[dim mu] fr]|]; [|reflexivity].
  cbv zeta. destruct (_ || _); [reflexivity|].
  rewrite (block_ell_tuple flg s), (block_ell_tuple flg 0).
  rewrite (IH _ _ _ _ _ (s + _)), (IH _ _ _ _ _ (0 + _)).
  rewrite shift_res_app, shift_shift, Rplus_0_l. reflexivity.
Qed.

Lemma cu_cost_shift s r : r <> None -> cu_cost (shift s r) = s + cu_cost r.
Proof. destruct r as [[[[c fs] sts] hs]|]; [reflexivity | congruence]. Qed.
Lemma cu_force_shift s r : cu_force (shift s r) = cu_force r.
Proof. destruct r as [[[[c fs] sts] hs]|]; reflexivity. Qed.
Lemma shift_none s r : shift s r = None <-> r = None.
Proof. destruct r as [[[[c fs] sts] hs]|]; simpl; split; congruence. Qed.

(* ---- list surgery *)
Lemma firstn_upd_lt {A} (l : list A) n k x : (k < n)%nat -> (k < length l)%nat -> firstn n (upd l k x) = upd (firstn n l) k x.
Proof.
  revert n k. induction l as [|a l IH]; intros n k Hk Hl; [simpl in Hl; lia|].
  destruct n; [lia|]. destruct k.
  - reflexivity.
  - rewrite upd_S. cbn [firstn]. rewrite upd_S. f_equal. apply IH; simpl in Hl; lia.
Qed.
Lemma skipn_upd_lt {A} (l : list A) n k x : (k < n)%nat -> (k < length l)%nat -> skipn n (upd l k x) = skipn n l.
Proof.
  revert n k. induction l as [|a l IH]; intros n k Hk Hl; [simpl in Hl; lia|].
  destruct n; [lia|]. destruct k.
  - reflexivity.
  - rewrite upd_S. cbn [skipn]. apply IH; simpl in Hl; lia.
Qed.
Lemma firstn_upd_ge {A} (l : list A) n k x : (n <= k)%nat -> (k < length l)%nat -> firstn n (upd l k x) = firstn n l.
Proof.
  revert n k. induction l as [|a l IH]; intros n k Hk Hl; [simpl in Hl; lia|].
  destruct n; [reflexivity|]. destruct k; [lia|]. rewrite upd_S. cbn [firstn]. f_equal. apply IH; simpl in Hl; lia.
Qed.
Lemma skipn_upd_ge {A} (l : list A) n k x : (n <= k)%nat -> (k < length l)%nat -> skipn n (upd l k x) = upd (skipn n l) (k - n) x.
Proof.
  revert n k. induction l as [|a l IH]; intros n k Hk Hl; [simpl in Hl; lia|].
  destruct n; [rewrite Nat.sub_0_r; reflexivity|]. destruct k; [lia|].
  rewrite upd_S. cbn [skipn]. change (S k - S n)%nat with (k - n)%nat. apply IH; simpl in Hl; lia.
Qed.

(* ---- projections through res_cons / res_app *)
Lemma cu_cost_res_cons (f : R) st (r : option (@cu_result R)) : cu_cost (res_cons f st r) = cu_cost r.
Proof. destruct r as [[[[c fs] sts] hs]|]; reflexivity. Qed.
Lemma cu_cost_res_app (f : list R) st h (r : option (@cu_result R)) : cu_cost (res_app f st h r) = cu_cost r.
Proof. destruct r as [[[[c fs] sts] hs]|]; reflexivity. Qed.
Lemma cu_force_res_cons (f : R) st (r : option (@cu_result R)) : r <> None -> cu_force (res_cons f st r) = f :: cu_force r.
Proof. destruct r as [[[[c fs] sts] hs]|]; [reflexivity | congruence]. Qed.
Lemma cu_force_res_app (f : list R) st h (r : option (@cu_result R)) : r <> None -> cu_force (res_app f st h r) = f ++ cu_force r.
Proof. destruct r as [[[[c fs] sts] hs]|]; [reflexivity | congruence]. Qed.
Lemma res_cons_some (f : R) st (r : option (@cu_result R)) : r <> None -> res_cons f st r <> None.
Proof. destruct r as [[[[c fs] sts] hs]|]; simpl; congruence. Qed.
Lemma res_app_some (f : list R) st h (r : option (@cu_result R)) : r <> None -> res_app f st h r <> None.
Proof. destruct r as [[[[c fs] sts] hs]|]; simpl; congruence. Qed.

Lemma e_force_length flg s mu fr Ds xs :
  length Ds = length xs -> (length xs - 1 <= length fr)%nat ->
  length (e_force (block_ell flg s mu fr Ds xs)) = length xs.
Proof.
  intros Hd Hf. unfold block_ell, e_force.
  destruct xs as [|x0 xt]; [reflexivity|]. destruct Ds as [|D0 Dt]; [simpl in Hd; lia|].
  cbv zeta. simpl in Hd, Hf.
  destruct (_ || _); [cbn [fst snd]; rewrite map_length; reflexivity|].
  destruct (_ || _); cbn [fst snd].
  - cbn [map2 length]. rewrite (map2_length (fun d x => (- d * x)%num)). lia.
  - cbn [length]. rewrite (map2_length _ (map2 nmul xt fr) fr), (map2_length nmul). lia.
Qed.

(* ---- the loop returns a result of the right length on well-formed input *)
Lemma cu_loop_ok : forall fuel flg ne nf con i s rows jar,
  cu_wf fuel ne nf con i rows -> length jar = length rows ->
  cu_loop fuel flg ne nf con i s rows jar <> None /\
  length (cu_force (cu_loop fuel flg ne nf con i s rows jar)) = length rows.
Proof.
  induction fuel as [|fuel IH]; intros flg ne nf con i s rows jar Hwf Hl;
    destruct rows as [|[[[[D Rr] fl] tp] id] rows]; destruct jar as [|x jar]; try (simpl in Hl; lia);
    try (simpl; split; [congruence | reflexivity]).
  { simpl in Hwf. contradiction. }
  cbn [cu_loop]. cbn [cu_wf] in Hwf. simpl in Hl.
  destruct (i <? ne)%Z.
  { rewrite row_eq_tuple. destruct (IH flg ne nf con (i + 1)%Z (s + r_cost (row_eq 0 D x)) rows jar Hwf) as [A B]; [lia|].
    split; [apply res_cons_some; exact A|]. rewrite cu_force_res_cons by exact A. simpl. rewrite B. reflexivity. }
  destruct (i <? ne + nf)%Z.
  { destruct Hwf as [_ Hwf]. rewrite row_fric_tuple.
    destruct (IH flg ne nf con (i + 1)%Z (s + r_cost (row_fric 0 D Rr fl x)) rows jar Hwf) as [A B]; [lia|].
    split; [apply res_cons_some; exact A|]. rewrite cu_force_res_cons by exact A. simpl. rewrite B. reflexivity. }
  destruct (negb (tp =? CT_ELLIPTIC)%Z).
  { rewrite row_uni_tuple. destruct (IH flg ne nf con (i + 1)%Z (s + r_cost (row_uni 0 D x)) rows jar Hwf) as [A B]; [lia|].
    split; [apply res_cons_some; exact A|]. rewrite cu_force_res_cons by exact A. simpl. rewrite B. reflexivity. }
  destruct Hwf as [Hid Hwf].
  destruct (id <? 0)%Z eqn:Eid; [apply Z.ltb_lt in Eid; lia|].
  destruct (nth_error con (Z.to_nat id)) as [[[dim mu] fr]|]; [|contradiction].
  cbv zeta in Hwf |- *. destruct Hwf as [Hdim [Hn [Hmu [Hfr [Hrel Hwf]]]]].
  set (n := Z.to_nat dim) in *.
  assert (Hn1 : (1 <= n)%nat) by (unfold n; lia). clearbody n.
  match goal with |- context [if ?c then None else _] => assert (Ec : c = false) end.
  { simpl length in *. apply orb_false_iff; split; [apply orb_false_iff; split|].
    - apply Z.ltb_ge. clear - Hdim. lia.
    - apply Nat.ltb_ge. exact Hn.
    - apply Nat.ltb_ge. clear - Hn Hl. lia. }
  rewrite Ec. rewrite block_ell_tuple.
  match goal with |- context [cu_loop fuel flg ne nf con ?i' ?s' ?r' ?j'] =>
    destruct (IH flg ne nf con i' s' r' j' Hwf) as [A B] end.
  { rewrite !skipn_length. simpl length. clear - Hl. lia. }
  split; [apply res_app_some; exact A|].
  rewrite cu_force_res_app by exact A. rewrite app_length, B.
  rewrite e_force_length.
  - rewrite firstn_length, skipn_length. simpl length in *. clear - Hn Hl. lia.
  - rewrite map_length, !firstn_length. simpl length in *. clear - Hn Hl. lia.
  - rewrite firstn_length. simpl length in *. clear - Hn Hl Hfr. lia.
Qed.

Lemma derive_const_plus (a : R) (f : R -> R) (x l : R) : is_derive f x l -> is_derive (fun t => a + f t) x l.
Proof.
  intros Hf. assert (Hex : ex_derive f x) by (exists l; exact Hf).
  auto_derive; [exact Hex|]. rewrite (is_derive_unique (fun x0 : R => f x0) x l Hf). apply Rmult_1_l.
Qed.

Lemma shift_none_not s (r : option (@cu_result R)) : r <> None -> shift s r <> None.
Proof. intros H E. apply shift_none in E. contradiction. Qed.

(* ---- gradient: efc_force[k] = - d cost / d jar[k], for every row composition *)
Lemma cu_loop_grad : forall fuel flg ne nf con i s rows jar k,
  cu_wf fuel ne nf con i rows -> length jar = length rows -> (k < length jar)%nat ->
  is_derive (fun t : R => cu_cost (cu_loop fuel flg ne nf con i s rows (upd jar k t)))
            (nth k jar 0)
            (- nth k (cu_force (cu_loop fuel flg ne nf con i s rows jar)) 0).
Proof.
  induction fuel as [|fuel IH]; intros flg ne nf con i s rows jar k Hwf Hl Hk;
    destruct rows as [|[[[[D Rr] fl] tp] id] rows]; destruct jar as [|x jar]; try (simpl in Hl, Hk; lia).
  { simpl in Hwf. contradiction. }
  cbn [cu_wf] in Hwf. simpl in Hl. 
  destruct (i <? ne)%Z eqn:E1.
  { (* equality row *)
    destruct (cu_loop_ok fuel flg ne nf con (i + 1)%Z 0 rows jar Hwf) as [A B]; [lia|].
    destruct k as [|k].
    - apply (is_derive_ext (fun t : R => (s + cu_cost (cu_loop fuel flg ne nf con (i + 1)%Z 0 rows jar)) + r_cost (row_eq 0 D t))).
      { intros t. rewrite upd_0. cbn [cu_loop]. rewrite E1, (row_eq_tuple s D t); cbv beta iota; rewrite cu_cost_res_cons, (cu_loop_acc fuel flg ne nf con (i + 1)%Z (s + r_cost (row_eq 0 D t))), cu_cost_shift by exact A. lra. }
      apply derive_const_plus. cbn [cu_loop nth]. rewrite E1, (row_eq_tuple s D x); cbv beta iota; rewrite cu_loop_acc.
      rewrite cu_force_res_cons by (apply shift_none_not; exact A). cbn [nth]. apply row_eq_grad.
    - apply (is_derive_ext (fun t : R => cu_cost (cu_loop fuel flg ne nf con (i + 1)%Z (s + r_cost (row_eq 0 D x)) rows (upd jar k t)))).
      { intros t. rewrite upd_S. cbn [cu_loop]. rewrite E1, (row_eq_tuple s D x); cbv beta iota; rewrite cu_cost_res_cons. reflexivity. }
      cbn [cu_loop nth]. rewrite E1, (row_eq_tuple s D x); cbv beta iota.
      rewrite cu_force_res_cons by (rewrite cu_loop_acc; apply shift_none_not; exact A). cbn [nth].
      apply IH; [exact Hwf | lia | simpl in Hk; lia]. }
  destruct (i <? ne + nf)%Z eqn:E2.
  { (* friction-loss row *)
    destruct Hwf as [[Hdr [HR Hfl]] Hwf].
    destruct (cu_loop_ok fuel flg ne nf con (i + 1)%Z 0 rows jar Hwf) as [A B]; [lia|].
    destruct k as [|k].
    - apply (is_derive_ext (fun t : R => (s + cu_cost (cu_loop fuel flg ne nf con (i + 1)%Z 0 rows jar)) + r_cost (row_fric 0 D Rr fl t))).
      { intros t. rewrite upd_0. cbn [cu_loop]. rewrite E1, E2, (row_fric_tuple s D Rr fl t); cbv beta iota; rewrite cu_cost_res_cons, (cu_loop_acc fuel flg ne nf con (i + 1)%Z (s + r_cost (row_fric 0 D Rr fl t))), cu_cost_shift by exact A. lra. }
      apply derive_const_plus. cbn [cu_loop nth]. rewrite E1, E2, (row_fric_tuple s D Rr fl x); cbv beta iota; rewrite cu_loop_acc.
      rewrite cu_force_res_cons by (apply shift_none_not; exact A). cbn [nth]. apply row_fric_grad; assumption.
    - apply (is_derive_ext (fun t : R => cu_cost (cu_loop fuel flg ne nf con (i + 1)%Z (s + r_cost (row_fric 0 D Rr fl x)) rows (upd jar k t)))).
      { intros t. rewrite upd_S. cbn [cu_loop]. rewrite E1, E2, (row_fric_tuple s D Rr fl x); cbv beta iota; rewrite cu_cost_res_cons. reflexivity. }
      cbn [cu_loop nth]. rewrite E1, E2, (row_fric_tuple s D Rr fl x); cbv beta iota.
      rewrite cu_force_res_cons by (rewrite cu_loop_acc; apply shift_none_not; exact A). cbn [nth].
      apply IH; [exact Hwf | lia | simpl in Hk; lia]. }
  destruct (negb (tp =? CT_ELLIPTIC)%Z) eqn:E3.
  { (* unilateral row *)
    destruct (cu_loop_ok fuel flg ne nf con (i + 1)%Z 0 rows jar Hwf) as [A B]; [lia|].
    destruct k as [|k].
    - apply (is_derive_ext (fun t : R => (s + cu_cost (cu_loop fuel flg ne nf con (i + 1)%Z 0 rows jar)) + r_cost (row_uni 0 D t))).
      { intros t. rewrite upd_0. cbn [cu_loop]. rewrite E1, E2, E3, (row_uni_tuple s D t); cbv beta iota; rewrite cu_cost_res_cons, (cu_loop_acc fuel flg ne nf con (i + 1)%Z (s + r_cost (row_uni 0 D t))), cu_cost_shift by exact A. lra. }
      apply derive_const_plus. cbn [cu_loop nth]. rewrite E1, E2, E3, (row_uni_tuple s D x); cbv beta iota; rewrite cu_loop_acc.
      rewrite cu_force_res_cons by (apply shift_none_not; exact A). cbn [nth]. apply row_uni_grad.
    - apply (is_derive_ext (fun t : R => cu_cost (cu_loop fuel flg ne nf con (i + 1)%Z (s + r_cost (row_uni 0 D x)) rows (upd jar k t)))).
      { intros t. rewrite upd_S. cbn [cu_loop]. rewrite E1, E2, E3, (row_uni_tuple s D x); cbv beta iota; rewrite cu_cost_res_cons. reflexivity. }
      cbn [cu_loop nth]. rewrite E1, E2, E3, (row_uni_tuple s D x); cbv beta iota.
      rewrite cu_force_res_cons by (rewrite cu_loop_acc; apply shift_none_not; exact A). cbn [nth].
      apply IH; [exact Hwf | lia | simpl in Hk; lia]. }
  (* elliptic block *)
  destruct Hwf as [Hid Hwf].
  assert (E4 : (id <? 0)%Z = false) by (apply Z.ltb_ge; lia).
  destruct (nth_error con (Z.to_nat id)) as [[[dim mu] fr]|] eqn:E5; [|contradiction].
  cbv zeta in Hwf. destruct Hwf as [Hdim [Hn [Hmu [Hfr [Hrel Hwf]]]]].
  remember (Z.to_nat dim) as n eqn:En.
  destruct n as [|m]; [exfalso; clear - En Hdim; lia|].
  simpl length in Hn. replace (S m - 1)%nat with m in Hfr, Hrel by lia.
  set (rows0 := @cons (@rowdesc R) (D, Rr, fl, tp, id) rows) in *.
  set (Dt := map rD (firstn m rows)) in *.
  set (Rst := skipn (S m) rows0) in *.
  assert (Hl0 : length (x :: jar) = length rows0) by (unfold rows0; simpl; clear - Hl; lia).
  destruct (cu_loop_ok fuel flg ne nf con (i + dim)%Z 0 Rst (skipn (S m) (x :: jar)) Hwf) as [A B].
  { unfold Rst. rewrite !skipn_length. lia. }
  assert (Hdl : length Dt = length (firstn m jar)).
  { unfold Dt. rewrite map_length, !firstn_length. lia. }
  assert (Hfm : length (firstn m jar) = m) by (rewrite firstn_length; clear - Hn Hl; lia).
  assert (Hfl : (length (firstn m jar) <= length fr)%nat) by (rewrite Hfm; exact Hfr).
  (* the loop on any residual vector of the right length, unfolded one block *)
  assert (Step : forall J : list R, length J = length rows0 ->
            cu_loop (S fuel) flg ne nf con i s rows0 J =
            res_app (e_force (block_ell flg 0 mu fr (D :: Dt) (firstn (S m) J)))
                    (repeat (e_state (block_ell flg 0 mu fr (D :: Dt) (firstn (S m) J))) (S m))
                    (snd (block_ell flg 0 mu fr (D :: Dt) (firstn (S m) J)))
                    (shift (s + e_cost (block_ell flg 0 mu fr (D :: Dt) (firstn (S m) J)))
                           (cu_loop fuel flg ne nf con (i + dim)%Z 0 Rst (skipn (S m) J)))).
  { intros J HJ. destruct J as [|j0 J]; [simpl in HJ; unfold rows0 in HJ; simpl in HJ; lia|].
    unfold rows0 at 1. cbn [cu_loop]. rewrite E1, E2, E3, E4, E5. cbv zeta. rewrite <- En.
    match goal with |- context [if ?c then None else _] => assert (Ec : c = false) end.
    { apply orb_false_iff; split; [apply orb_false_iff; split|].
      - apply Z.ltb_ge. lia.
      - apply Nat.ltb_ge. simpl length. lia.
      - apply Nat.ltb_ge. rewrite HJ. unfold rows0. simpl length. lia. }
    rewrite Ec. rewrite block_ell_tuple. cbv beta iota. rewrite cu_loop_acc. reflexivity. }
  destruct (Nat.lt_ge_cases k (S m)) as [Hkm|Hkm].
  - (* coordinate inside the block *)
    assert (Hx : firstn (S m) (x :: jar) = x :: firstn m jar) by reflexivity.
    apply (is_derive_ext (fun t : R => (s + cu_cost (cu_loop fuel flg ne nf con (i + dim)%Z 0 Rst (skipn (S m) (x :: jar)))) +
                                       e_cost (block_ell flg 0 mu fr (D :: Dt) (upd (x :: firstn m jar) k t)))).
    { intros t. rewrite Step by (rewrite upd_length; assumption).
      rewrite cu_cost_res_app.
      rewrite firstn_upd_lt, skipn_upd_lt by assumption. rewrite cu_cost_shift by exact A. rewrite Hx. lra. }
    apply derive_const_plus.
    rewrite Step by assumption. rewrite cu_force_res_app by (apply shift_none_not; exact A).
    rewrite app_nth1.
    2:{ rewrite e_force_length; rewrite Hx; simpl length; rewrite ?Hdl, ?Hfm; [clear - Hkm; lia | reflexivity | clear - Hfr; lia]. }
    rewrite Hx.
    replace (nth k (x :: jar) 0) with (nth k (x :: firstn m jar) 0).
    2:{ rewrite <- Hx. rewrite <- (firstn_skipn (S m) (x :: jar)) at 2. rewrite app_nth1; [reflexivity|].
        rewrite firstn_length. lia. }
    apply ell_grad; try assumption. simpl length. rewrite firstn_length. lia.
  - (* coordinate after the block *)
    apply (is_derive_ext (fun t : R => cu_cost (cu_loop fuel flg ne nf con (i + dim)%Z
                (s + e_cost (block_ell flg 0 mu fr (D :: Dt) (firstn (S m) (x :: jar)))) Rst (upd (skipn (S m) (x :: jar)) (k - S m) t)))).
    { intros t. rewrite Step by (rewrite upd_length; assumption).
      rewrite cu_cost_res_app. rewrite firstn_upd_ge, skipn_upd_ge by assumption.
      rewrite <- cu_loop_acc. reflexivity. }
    rewrite Step by assumption. rewrite cu_force_res_app by (apply shift_none_not; exact A).
    rewrite app_nth2; rewrite e_force_length.
    2,5: (cbn [firstn length]; rewrite Hdl; reflexivity).
    2,4: (cbn [firstn length]; lia).
    2:{ cbn [firstn length]. rewrite firstn_length. lia. }
    rewrite <- cu_loop_acc.
    replace (length (firstn (S m) (x :: jar))) with (S m) by (rewrite firstn_length; simpl length; lia).
    replace (nth k (x :: jar) 0) with (nth (k - S m) (skipn (S m) (x :: jar)) 0).
    2:{ rewrite <- (firstn_skipn (S m) (x :: jar)) at 2. rewrite app_nth2; rewrite firstn_length; [|simpl length; lia].
        f_equal. simpl length. lia. }
    apply IH; [exact Hwf | unfold Rst; rewrite !skipn_length; lia | rewrite skipn_length; lia].
Qed.


Theorem cu_gradient : forall flgH ne nf (con : list (@contact R)) (rows : list (@rowdesc R)) (jar : list R) k,
  cu_wf (length rows) ne nf con 0 rows -> length jar = length rows -> (k < length jar)%nat ->
  constraint_update flgH ne nf con rows jar <> None /\
  length (cu_force (constraint_update flgH ne nf con rows jar)) = length rows /\
  is_derive (fun t : R => cu_cost (constraint_update flgH ne nf con rows (upd jar k t)))
            (nth k jar 0)
            (- nth k (cu_force (constraint_update flgH ne nf con rows jar)) 0).
Proof.
  intros flgH ne nf con rows jar k Hwf Hl Hk. unfold constraint_update.
  destruct (cu_loop_ok (length rows) flgH ne nf con 0%Z 0 rows jar Hwf Hl) as [A B].
  split; [exact A|]. split; [exact B|]. apply cu_loop_grad; assumption.
Qed.

(* ------------------------------------------------------------------ admissible forces (C11) *)
Lemma row_uni_nonneg s D x : 0 <= D -> 0 <= r_force (row_uni s D x).
Proof. intros HD. rewrite row_uni_force. destruct (Rle_dec 0 x); [lra | nra]. Qed.

Lemma ssq_div_zeros (xt fr : list R) : ssq (map2 Rdiv (map (fun _ => 0) xt) fr) = 0.
Proof.
  revert fr. induction xt as [|x xt IH]; intros fr; [reflexivity|].
  destruct fr as [|f fr]; [reflexivity|]. cbn [map map2 ssq]. rewrite IH. unfold Rdiv. ring.
Qed.

Lemma tang_middle (a : R) : forall xt fr : list R, List.Forall (fun f => f <> 0) (firstn (length xt) fr) ->
  ssq (map2 Rdiv (map2 (fun u f => a * u * f) (map2 Rmult xt fr) fr) fr) = a * a * ssq (map2 Rmult xt fr).
Proof.
  induction xt as [|x xt IH]; intros fr Hnz; [simpl; ring|].
  destruct fr as [|f fr]; [simpl; ring|].
  cbn [length firstn] in Hnz. inversion Hnz as [|? ? Hf Hr]; subst.
  cbn [map2 ssq]. rewrite IH by assumption. field. exact Hf.
Qed.

Lemma tang_bottom (mu D0 : R) : 0 < mu -> forall Dt xt fr : list R, rel_ok mu fr D0 Dt -> length Dt = length xt ->
  List.Forall (fun f => f <> 0) (firstn (length xt) fr) ->
  ssq (map2 Rdiv (map2 (fun d x => - d * x) Dt xt) fr) = (D0 / (mu * mu)) * (D0 / (mu * mu)) * ssq (map2 Rmult xt fr).
Proof.
  intros Hmu. induction Dt as [|d Dt IH]; intros xt fr Hr Hl Hnz.
  - destruct xt; [simpl; ring | simpl in Hl; lia].
  - destruct xt as [|x xt]; [simpl in Hl; lia|]. destruct fr as [|f fr]; [simpl; ring|].
    cbn [length firstn] in Hnz. inversion Hnz as [|? ? Hf Hnz']; subst.
    apply rel_ok_tail in Hr. destruct Hr as [Hd Hr].
    assert (Ed : d = D0 * (f * f) / (mu * mu)) by (apply (Rmult_eq_reg_r (mu * mu)); [rewrite Hd; field; lra | nra]).
    cbn [map2 ssq]. rewrite IH by (simpl in Hl; auto; lia). rewrite Ed. field. split; [lra | exact Hf].
Qed.

Lemma ell_adm flg s mu fr D0 Dt x0 xt : 0 < mu -> 0 < D0 -> length Dt = length xt -> rel_ok mu fr D0 Dt ->
  List.Forall (fun f => f <> 0) (firstn (length xt) fr) ->
  ell_admissible fr (e_force (block_ell flg s mu fr (D0 :: Dt) (x0 :: xt))).
Proof.
  intros Hmu HD Hl Hr Hnz. unfold block_ell, e_force. cbv zeta. rewrite mju_norm_R. num_R. fold (Tnorm xt fr).
  assert (HT : 0 <= Tnorm xt fr) by apply sqrt_pos.
  pose proof (Tnorm_sqr xt fr) as HT2.
  assert (Hm2 : 0 < mu * mu) by nra.
  rewrite top_bool, bot_bool by assumption.
  destruct (Rle_dec (mu * Tnorm xt fr) (x0 * mu)) as [Htop|Htop]; [|destruct (Rle_dec (mu * (x0 * mu) + Tnorm xt fr) 0) as [Hbot|Hbot]];
    cbn [fst snd map map2 ell_admissible].
  - rewrite ssq_div_zeros. lra.
  - rewrite (tang_bottom mu D0 Hmu Dt xt fr Hr Hl Hnz). rewrite <- HT2.
    set (T := Tnorm xt fr) in *. set (q := D0 / (mu * mu)).
    assert (Hq : 0 < q) by (unfold q; apply Rdiv_lt_0_compat; assumption).
    assert (Hx : T <= - (mu * mu * x0)) by lra.
    assert (E : - D0 * x0 = q * (- (mu * mu * x0))) by (unfold q; field; lra).
    rewrite E. split; [apply Rmult_le_pos; lra|].
    assert (q * T <= q * - (mu * mu * x0)) by (apply Rmult_le_compat_l; lra).
    assert (0 <= q * T) by (apply Rmult_le_pos; lra). nra.
  - assert (HTp : 0 < Tnorm xt fr).
    { destruct (Req_dec (Tnorm xt fr) 0) as [E|E]; [|lra]. exfalso. rewrite E in *. destruct (Rle_dec 0 (x0 * mu)); nra. }
    set (T := Tnorm xt fr) in *. set (Dm := D0 / (mu * mu * (1 + mu * mu))).
    assert (HDm : 0 < Dm) by (unfold Dm; apply Rdiv_lt_0_compat; nra).
    set (f0 := - Dm * (x0 * mu - mu * T) * mu).
    assert (Hf0 : 0 < f0).
    { unfold f0. assert (0 < Dm * (mu * T - x0 * mu)) by (apply Rmult_lt_0_compat; lra). nra. }
    split; [lra|].
    rewrite (tang_middle (- f0 / T) xt fr Hnz). rewrite <- HT2. fold T.
    right. field. lra.
Qed.

Lemma Forall_skipn {A} (P : A -> Prop) l n : List.Forall P l -> List.Forall P (skipn n l).
Proof.
  revert n. induction l as [|a l IH]; intros n H; destruct n; simpl; auto.
  inversion H; subst. apply IH. assumption.
Qed.

Lemma cu_loop_adm : forall fuel flg ne nf con i s rows jar,
  cu_wf fuel ne nf con i rows -> D_pos rows -> cu_fr_nonzero fuel ne nf con i rows -> length jar = length rows ->
  cu_adm fuel ne nf con i rows (cu_force (cu_loop fuel flg ne nf con i s rows jar)).
Proof.
  induction fuel as [|fuel IH]; intros flg ne nf con i s rows jar Hwf HD Hnz Hl;
    destruct rows as [|[[[[D Rr] fl] tp] id] rows]; destruct jar as [|x jar]; try (simpl in Hl; lia);
    try (simpl; exact I).
  { simpl in Hwf. contradiction. }
  cbn [cu_wf] in Hwf. cbn [cu_fr_nonzero] in Hnz. simpl in Hl.
  inversion HD as [|? ? HD0 HD']; subst. unfold rD in HD0.
  cbn [cu_loop].
  destruct (i <? ne)%Z eqn:E1.
  { cbn [orb] in Hnz.
    destruct (cu_loop_ok fuel flg ne nf con (i + 1)%Z (s + r_cost (row_eq 0 D x)) rows jar Hwf) as [A B]; [lia|].
    rewrite (row_eq_tuple s D x); cbv beta iota. rewrite cu_force_res_cons by exact A.
    cbn [cu_adm]. rewrite E1. apply IH; auto; lia. }
  destruct (i <? ne + nf)%Z eqn:E2.
  { cbn [orb] in Hnz. destruct Hwf as [[Hdr [HR Hfl]] Hwf].
    destruct (cu_loop_ok fuel flg ne nf con (i + 1)%Z (s + r_cost (row_fric 0 D Rr fl x)) rows jar Hwf) as [A B]; [lia|].
    rewrite (row_fric_tuple s D Rr fl x); cbv beta iota. rewrite cu_force_res_cons by exact A.
    cbn [cu_adm]. rewrite E1, E2. split; [apply row_fric_bound; assumption | apply IH; auto; lia]. }
  destruct (negb (tp =? CT_ELLIPTIC)%Z) eqn:E3.
  { cbn [orb] in Hnz.
    destruct (cu_loop_ok fuel flg ne nf con (i + 1)%Z (s + r_cost (row_uni 0 D x)) rows jar Hwf) as [A B]; [lia|].
    rewrite (row_uni_tuple s D x); cbv beta iota. rewrite cu_force_res_cons by exact A.
    cbn [cu_adm]. rewrite E1, E2, E3. split; [apply row_uni_nonneg; lra | apply IH; auto; lia]. }
  cbn [orb] in Hnz.
  destruct Hwf as [Hid Hwf].
  assert (E4 : (id <? 0)%Z = false) by (apply Z.ltb_ge; lia). rewrite E4.
  cbn [cu_adm]. rewrite E1, E2, E3.
  destruct (nth_error con (Z.to_nat id)) as [[[dim mu] fr]|] eqn:E5; [|contradiction].
  cbv zeta in Hwf, Hnz |- *. destruct Hwf as [Hdim [Hn [Hmu [Hfr [Hrel Hwf]]]]]. destruct Hnz as [Hnz0 Hnz].
  remember (Z.to_nat dim) as n eqn:En.
  destruct n as [|m]; [exfalso; clear - En Hdim; lia|].
  simpl length in Hn. replace (S m - 1)%nat with m in Hfr, Hrel, Hnz0 by (clear; lia).
  match goal with |- context [if ?c then None else _] => assert (Ec : c = false) end.
  { apply orb_false_iff; split; [apply orb_false_iff; split|].
    - apply Z.ltb_ge. clear - Hdim. lia.
    - apply Nat.ltb_ge. simpl length. exact Hn.
    - apply Nat.ltb_ge. simpl length. clear - Hn Hl. lia. }
  rewrite Ec. rewrite block_ell_tuple; cbv beta iota.
  match goal with |- context [cu_loop fuel flg ne nf con ?i' ?s' ?r' ?j'] =>
    destruct (cu_loop_ok fuel flg ne nf con i' s' r' j' Hwf) as [A B]; [rewrite !skipn_length; simpl length; clear - Hl; lia|];
    pose proof (IH flg ne nf con i' s' r' j' Hwf) as IH'
  end.
  rewrite cu_force_res_app by exact A.
  assert (Hfm : length (firstn m jar) = m) by (rewrite firstn_length; clear - Hn Hl; lia).
  match goal with |- context [e_force ?b ++ _] => assert (Hlen : length (e_force b) = S m) end.
  { rewrite e_force_length; cbn [firstn length map]; rewrite ?Hfm, ?map_length, ?firstn_length.
    - reflexivity.
    - clear - Hn Hl. lia.
    - clear - Hfr. lia. }
  match goal with |- context [match ?l with [] => False | _ :: _ => _ end] => destruct l as [|l0 L'] eqn:EL end.
  { exfalso. apply (f_equal (@length R)) in EL. rewrite app_length, Hlen in EL. simpl in EL. clear - EL. lia. }
  rewrite <- EL. clear EL l0 L'.
  split.
  - rewrite firstn_app, Hlen, Nat.sub_diag, firstn_O, app_nil_r.
    rewrite <- Hlen at 1. rewrite firstn_all.
    cbn [firstn map]. apply ell_adm; try assumption.
    + rewrite map_length, firstn_length, Hfm. clear - Hn. lia.
    + rewrite Hfm. exact Hnz0.
  - rewrite skipn_app, Hlen, Nat.sub_diag. match goal with |- context [skipn (S m) (e_force ?b)] => rewrite (skipn_all2 (e_force b)) by (rewrite Hlen; apply le_n) end. cbn [skipn app].
    apply IH'.
    + apply Forall_skipn. exact HD.
    + exact Hnz.
    + rewrite !skipn_length. simpl length. clear - Hl. lia.
Qed.

Theorem cu_admissible : forall flgH ne nf (con : list (@contact R)) (rows : list (@rowdesc R)) (jar : list R),
  cu_wf (length rows) ne nf con 0 rows -> D_pos rows -> cu_fr_nonzero (length rows) ne nf con 0 rows ->
  length jar = length rows ->
  cu_adm (length rows) ne nf con 0 rows (cu_force (constraint_update flgH ne nf con rows jar)).
Proof. intros. unfold constraint_update. apply cu_loop_adm; assumption. Qed.

(* ------------------------------------------------------------------ the relations set by mj_makeImpedance *)
Lemma nmax_R (a b : R) : nmax a b = Rmax a b.
Proof.
  unfold nmax. num_R. unfold Rltb, Rmax. destruct (Rlt_dec a b), (Rle_dec a b); try reflexivity; lra.
Qed.

Lemma nth_firstn_lt {A} (l : list A) n k d : (k < n)%nat -> nth k (firstn n l) d = nth k l d.
Proof.
  revert n k. induction l as [|a l IH]; intros n k Hk; [rewrite firstn_nil; reflexivity|].
  destruct n; [lia|]. destruct k; [reflexivity|]. cbn [firstn nth]. apply IH. lia.
Qed.

Lemma ell_impedance_rel (R0 impratio : R) (fr : list R) (dim : nat) :
  0 < R0 -> 0 < impratio -> (2 <= dim)%nat -> (dim - 1 <= length fr)%nat ->
  List.Forall (fun f => 0 < f) (firstn (dim - 1) fr) ->
  match ell_impedance R0 impratio fr dim with
  | (mu, Rs, Ds) =>
      0 < mu /\ length Rs = dim /\ length Ds = dim /\
      (forall k, (k < dim)%nat -> 0 < nth k Rs 0 /\ nth k Ds 0 * nth k Rs 0 = 1) /\
      match Ds with D0 :: Dt => rel_ok mu fr D0 Dt | [] => False end
  end.
Proof.
  intros HR0 Himp Hdim Hfr Hpos. unfold ell_impedance. cbv zeta.
  rewrite nmax_R. num_R.
  set (ir := Rmax mjMINVAL impratio). assert (Hir : 0 < ir) by (unfold ir; eapply Rlt_le_trans; [exact Himp | apply Rmax_r]).
  set (f0 := nth 0 fr 0). set (R1 := R0 / ir).
  assert (HR1 : 0 < R1) by (unfold R1; apply Rdiv_lt_0_compat; assumption).
  assert (Hfk : forall k, (k < dim - 1)%nat -> 0 < nth k fr 0).
  { intros k Hk. rewrite Forall_forall in Hpos. apply Hpos.
    rewrite <- (nth_firstn_lt fr (dim - 1) k 0 Hk). apply nth_In. rewrite firstn_length. lia. }
  assert (Hf0 : 0 < f0) by (apply Hfk; lia).
  assert (Hq : 0 < R1 / R0) by (apply Rdiv_lt_0_compat; assumption).
  assert (Hs : 0 < sqrt (R1 / R0)) by (apply sqrt_lt_R0; exact Hq).
  assert (Hs2 : sqrt (R1 / R0) * sqrt (R1 / R0) = R1 / R0) by (apply sqrt_sqrt; lra).
  set (g := fun j : nat => R1 * f0 * f0 / (nth j fr 0 * nth j fr 0)).
  assert (Hg : forall j, (j < dim - 1)%nat -> 0 < g j).
  { intros j Hj. unfold g. pose proof (Hfk j Hj). apply Rdiv_lt_0_compat; [|nra].
    apply Rmult_lt_0_compat; [apply Rmult_lt_0_compat|]; assumption. }
  assert (Hlen : length (R0 :: R1 :: map g (seq 1 (dim - 2))) = dim) by (simpl; rewrite map_length, seq_length; lia).
  assert (Hnth : forall k, (k < dim)%nat -> nth k (R0 :: R1 :: map g (seq 1 (dim - 2))) 0 =
                   match k with O => R0 | S O => R1 | S k' => g k' end).
  { intros k Hk. destruct k as [|[|k]]; try reflexivity. cbn [nth].
    rewrite (nth_indep _ 0 (g 0%nat)) by (rewrite map_length, seq_length; lia).
    rewrite map_nth. rewrite seq_nth by lia. reflexivity. }
  assert (HRpos : forall k, (k < dim)%nat -> 0 < nth k (R0 :: R1 :: map g (seq 1 (dim - 2))) 0).
  { intros k Hk. rewrite Hnth by assumption. destruct k as [|[|k]]; try assumption. apply Hg. lia. }
  split; [apply Rmult_lt_0_compat; assumption|].
  split; [exact Hlen|]. split; [rewrite map_length; exact Hlen|].
  split.
  - intros k Hk. split; [apply HRpos; exact Hk|].
    rewrite (nth_indep _ 0 (1 / 0)) by (rewrite map_length, Hlen; exact Hk).
    rewrite (map_nth (fun r => 1 / r)). pose proof (HRpos k Hk). field. lra.
  - cbn [map]. intros k Hk. cbn [length] in Hk. rewrite !map_length, seq_length in Hk.
    pose proof (Hfk k ltac:(lia)) as Hk0.
    destruct k as [|k].
    + cbn [nth]. fold f0. replace (f0 * sqrt (R1 / R0) * (f0 * sqrt (R1 / R0))) with (f0 * f0 * (sqrt (R1 / R0) * sqrt (R1 / R0))) by ring.
      rewrite Hs2. field. split; lra.
    + cbn [nth]. rewrite (nth_indep _ 0 (1 / 0)) by (rewrite !map_length, seq_length; lia).
      rewrite (map_nth (fun r => 1 / r)). rewrite (nth_indep _ 0 (g 0%nat)) by (rewrite map_length, seq_length; lia).
      rewrite map_nth, seq_nth by lia. unfold g. cbn [Nat.add].
      replace (f0 * sqrt (R1 / R0) * (f0 * sqrt (R1 / R0))) with (f0 * f0 * (sqrt (R1 / R0) * sqrt (R1 / R0))) by ring.
      rewrite Hs2. field. repeat split; lra.
Qed.

(* ------------------------------------------------------------------ pyramid encode / decode, mj_contactForce *)
Fixpoint rsum (l : list R) : R := match l with [] => 0 | a :: l' => a + rsum l' end.

Lemma fold_left_rsum (l : list R) : forall s : R, fold_left Rplus l s = s + rsum l.
Proof. induction l as [|a l IH]; intros s; simpl; [ring | rewrite IH; ring]. Qed.

(* pairs (p i, q i) for i = s .. s+n-1, flattened *)
Definition pairs (p q : nat -> R) (s n : nat) : list R := flat_map (fun i => [p i; q i]) (seq s n).

Lemma pairs_length p q s n : length (pairs p q s n) = (2 * n)%nat.
Proof. unfold pairs. revert s. induction n; intros s; simpl; [reflexivity | rewrite IHn; lia]. Qed.

Lemma pairs_rsum p q s n : rsum (pairs p q s n) = rsum (map (fun i => p i + q i) (seq s n)).
Proof. unfold pairs. revert s. induction n; intros s; simpl; [reflexivity | rewrite IHn; ring]. Qed.

Lemma pairs_nth p q : forall n s i, (i < n)%nat ->
  nth (2 * i) (pairs p q s n) 0 = p (s + i)%nat /\ nth (2 * i + 1) (pairs p q s n) 0 = q (s + i)%nat.
Proof.
  unfold pairs. induction n; intros s i Hi; [lia|].
  destruct i.
  - simpl. rewrite Nat.add_0_r. split; reflexivity.
  - replace (2 * S i)%nat with (S (S (2 * i))) by lia. replace (S (S (2 * i)) + 1)%nat with (S (S (2 * i + 1))) by lia.
    cbn [seq flat_map app nth]. destruct (IHn (S s) i ltac:(lia)) as [A B].
    rewrite A, B. replace (S s + i)%nat with (s + S i)%nat by lia. split; reflexivity.
Qed.

Lemma rsum_const (a : R) (l : list nat) : rsum (map (fun _ => a) l) = INR (length l) * a.
Proof. induction l as [|x l IH]; [simpl; ring|]. cbn [map rsum length]. rewrite IH, S_INR. ring. Qed.

(* decode(encode(force)) = force whenever every tangential component is within the positive side of
   the pyramid: force[i+1]/mu[i] <= force[0]/(dim-1) *)
Lemma decode_encode (force mu : list R) (dim : Z) :
  (2 <= dim)%Z -> length force = Z.to_nat dim -> (Z.to_nat (dim - 1) <= length mu)%nat ->
  (forall i, (i < Z.to_nat (dim - 1))%nat -> nth i mu 0 <> 0 /\
             nth (S i) force 0 / nth i mu 0 <= nth 0 force 0 / IZR (dim - 1)) ->
  decode_pyramid (encode_pyramid force mu dim) mu dim = force.
Proof.
  intros Hdim Hlf Hlm Hc. unfold decode_pyramid.
  assert (E1 : (dim =? 1)%Z = false) by (apply Z.eqb_neq; lia). rewrite E1.
  set (n := Z.to_nat (dim - 1)) in *.
  assert (Hn : (1 <= n)%nat) by (unfold n; lia).
  assert (HI : IZR (dim - 1) = INR n) by (unfold n; rewrite INR_IZR_INZ, Z2Nat.id by lia; reflexivity).
  set (a := nth 0 force 0 / IZR (dim - 1)).
  set (b := fun i : nat => Rmin a (nth (S i) force 0 / nth i mu 0)).
  assert (Eenc : encode_pyramid force mu dim = pairs (fun i => / 2 * (a + b i)) (fun i => / 2 * (a - b i)) 0 n).
  { unfold encode_pyramid, pairs. fold n. apply flat_map_ext. intros i. cu_R.
    unfold nmin. num_R. fold a. unfold b, Rltb, Rmin.
    destruct (Rlt_dec a (nth (S i) force 0 / nth i mu 0)), (Rle_dec a (nth (S i) force 0 / nth i mu 0)); try reflexivity; try lra.
    assert (a = nth (S i) force 0 / nth i mu 0) by lra. rewrite <- H. reflexivity. }
  rewrite Eenc. num_R.
  assert (Hb : forall i, (i < n)%nat -> b i = nth (S i) force 0 / nth i mu 0).
  { intros i Hi. unfold b. destruct (Hc i Hi) as [_ Hle]. fold a in Hle. apply Rmin_right. exact Hle. }
  apply (nth_ext _ _ 0 0).
  - cbn [length]. rewrite map_length, seq_length, Hlf. unfold n. lia.
  - intros k Hk. cbn [length] in Hk. rewrite map_length, seq_length in Hk.
    destruct k as [|k].
    + cbn [nth]. rewrite firstn_all2 by (rewrite pairs_length; lia).
      rewrite fold_left_rsum, pairs_rsum.
      rewrite (map_ext _ (fun _ => a)) by (intros; field).
      rewrite rsum_const, seq_length. unfold a. rewrite HI. field.
      apply not_0_INR. lia.
    + cbn [nth]. match goal with |- context [map ?f (seq 0 n)] => set (g := f) end.
      rewrite (nth_indep _ 0 (g 0%nat)) by (rewrite map_length, seq_length; lia).
      rewrite map_nth, seq_nth by lia. cbn [Nat.add]. unfold g.
      destruct (pairs_nth (fun i0 : nat => / 2 * (a + b i0)) (fun i0 : nat => / 2 * (a - b i0)) n 0 k ltac:(lia)) as [A B].
      rewrite A, B. cbn [Nat.add]. rewrite Hb by lia. destruct (Hc k ltac:(lia)) as [Hmu _]. field. exact Hmu.
Qed.

(* decoding non-negative edge forces gives a force in the pyramidal cone: f0 = sum of the edges >= 0 and
   |f_{i+1}| <= mu_i * (edge pair i) <= mu_i * f0 *)
Lemma rsum_nonneg l : List.Forall (fun p => 0 <= p) l -> 0 <= rsum l.
Proof. induction 1; simpl; lra. Qed.

Lemma rsum_pair_le : forall i (l : list R), List.Forall (fun p => 0 <= p) l -> (2 * i + 1 < length l)%nat ->
  nth (2 * i) l 0 + nth (2 * i + 1) l 0 <= rsum l.
Proof.
  induction i as [|i IH]; intros l Hp Hl; destruct l as [|p [|q l]]; try (simpl in Hl; lia);
    inversion Hp as [|? ? Hp0 Hp']; subst; inversion Hp' as [|? ? Hq0 Hp'']; subst.
  - simpl. pose proof (rsum_nonneg l Hp''). lra.
  - replace (2 * S i)%nat with (S (S (2 * i))) by lia. replace (S (S (2 * i)) + 1)%nat with (S (S (2 * i + 1))) by lia.
    cbn [nth rsum]. assert (nth (2 * i) l 0 + nth (2 * i + 1) l 0 <= rsum l) by (apply IH; [assumption | simpl in Hl; lia]).
    lra.
Qed.

Lemma decode_cone (pyr mu : list R) (dim : Z) :
  (2 <= dim)%Z -> length pyr = (2 * Z.to_nat (dim - 1))%nat -> List.Forall (fun p => 0 <= p) pyr ->
  (forall i, (i < Z.to_nat (dim - 1))%nat -> 0 <= nth i mu 0) ->
  let f := decode_pyramid pyr mu dim in
  0 <= nth 0 f 0 /\
  forall i, (i < Z.to_nat (dim - 1))%nat -> Rabs (nth (S i) f 0) <= nth i mu 0 * nth 0 f 0.
Proof.
  intros Hdim Hl Hp Hmu. unfold decode_pyramid.
  assert (E1 : (dim =? 1)%Z = false) by (apply Z.eqb_neq; lia). rewrite E1.
  set (n := Z.to_nat (dim - 1)) in *. cbv zeta. num_R. cbn [nth].
  rewrite firstn_all2 by lia. rewrite fold_left_rsum, Rplus_0_l.
  split; [apply rsum_nonneg; exact Hp|].
  intros i Hi.
  match goal with |- context [map ?f (seq 0 n)] => set (g := f) end.
  rewrite (nth_indep _ 0 (g 0%nat)) by (rewrite map_length, seq_length; lia).
  rewrite map_nth, seq_nth by lia. cbn [Nat.add]. unfold g.
  pose proof (rsum_pair_le i pyr Hp ltac:(lia)) as Hs.
  assert (H0 : 0 <= nth (2 * i) pyr 0) by (rewrite Forall_forall in Hp; apply Hp, nth_In; lia).
  assert (H1 : 0 <= nth (2 * i + 1) pyr 0) by (rewrite Forall_forall in Hp; apply Hp, nth_In; lia).
  pose proof (Hmu i Hi) as Hm.
  rewrite Rabs_mult, (Rabs_pos_eq (nth i mu 0)) by exact Hm.
  rewrite Rmult_comm. apply Rmult_le_compat_l; [exact Hm|].
  apply Rabs_le. lra.
Qed.

Lemma nth_skipn_add {A} (l : list A) n k d : nth k (skipn n l) d = nth (n + k) l d.
Proof.
  revert n. induction l as [|a l IH]; intros n; [rewrite skipn_nil; destruct k, n; reflexivity|].
  destruct n; [reflexivity|]. cbn [skipn Nat.add nth]. apply IH.
Qed.

(* mj_contactForce with an elliptic cone: the dim entries of efc_force at efc_address, zero-padded to 6,
   with result[0] reduced by the contact's adhesion *)
Lemma contact_force_elliptic (efc_force fr : list R) (adr dim : Z) (adhesion : R) :
  (0 <= adr)%Z -> (1 <= dim <= 6)%Z -> (Z.to_nat adr + Z.to_nat dim <= length efc_force)%nat ->
  let r := contact_force false efc_force adr fr dim adhesion in
  length r = 6%nat /\
  nth 0 r 0 = nth (Z.to_nat adr) efc_force 0 - adhesion /\
  (forall k, (1 <= k < Z.to_nat dim)%nat -> nth k r 0 = nth (Z.to_nat adr + k) efc_force 0) /\
  (forall k, (Z.to_nat dim <= k < 6)%nat -> nth k r 0 = 0).
Proof.
  intros Ha Hd Hl. unfold contact_force. cbv zeta.
  set (sl := skipn (Z.to_nat adr) efc_force). set (n := Z.to_nat dim) in *.
  assert (Hn : (1 <= n <= 6)%nat) by (unfold n; lia).
  assert (Hsl : (n <= length sl)%nat) by (unfold sl; rewrite skipn_length; lia).
  assert (Hnth : forall k, nth k sl 0 = nth (Z.to_nat adr + k) efc_force 0).
  { intros k. unfold sl. apply nth_skipn_add. }
  set (r6 := firstn 6 (firstn n sl ++ repeat nzero 6)).
  assert (Hr6 : length r6 = 6%nat).
  { unfold r6. rewrite firstn_length, app_length, firstn_length, repeat_length. lia. }
  assert (Hk : forall k, (k < 6)%nat -> nth k r6 0 = if (k <? n)%nat then nth k sl 0 else 0).
  { intros k Hk. unfold r6. rewrite nth_firstn_lt by exact Hk.
    destruct (k <? n)%nat eqn:E.
    - apply Nat.ltb_lt in E. rewrite app_nth1 by (rewrite firstn_length; lia). apply nth_firstn_lt. exact E.
    - apply Nat.ltb_ge in E. rewrite app_nth2 by (rewrite firstn_length; lia).
      num_R. destruct (nth_in_or_default (k - length (firstn n sl)) (repeat 0 6) 0) as [H|H]; [|exact H].
      apply repeat_spec in H. exact H. }
  destruct r6 as [|r0 rest] eqn:Er; [simpl in Hr6; lia|].
  num_R. split; [simpl in *; lia|].
  split.
  - cbn [nth]. pose proof (Hk 0%nat ltac:(lia)) as H0. cbn [nth] in H0. rewrite H0.
    replace (0 <? n)%nat with true by (symmetry; apply Nat.ltb_lt; lia). rewrite Hnth, Nat.add_0_r. reflexivity.
  - split; intros k Hkk.
    + destruct k; [lia|]. cbn [nth]. pose proof (Hk (S k) ltac:(lia)) as H1. cbn [nth] in H1. rewrite H1.
      replace (S k <? n)%nat with true by (symmetry; apply Nat.ltb_lt; lia). apply Hnth.
    + destruct k; [lia|]. cbn [nth]. pose proof (Hk (S k) ltac:(lia)) as H1. cbn [nth] in H1. rewrite H1.
      replace (S k <? n)%nat with false by (symmetry; apply Nat.ltb_ge; lia). reflexivity.
Qed.

(* ------------------------------------------------------------------ C1: cost on coordinate lines, zone boundaries *)
Lemma upd_upd {A} (l : list A) k a b : (k < length l)%nat -> upd (upd l k a) k b = upd l k b.
Proof.
  revert k. induction l as [|x l IH]; intros k Hk; [simpl in Hk; lia|].
  destruct k; [reflexivity|]. rewrite !upd_S. f_equal. apply IH. simpl in Hk; lia.
Qed.

Theorem cu_cost_line : forall flgH ne nf (con : list (@contact R)) (rows : list (@rowdesc R)) (jar : list R) k,
  cu_wf (length rows) ne nf con 0 rows -> length jar = length rows -> (k < length jar)%nat ->
  forall t : R,
    is_derive (fun u : R => cu_cost (constraint_update flgH ne nf con rows (upd jar k u))) t
              (- nth k (cu_force (constraint_update flgH ne nf con rows (upd jar k t))) 0) /\
    continuous (fun u : R => cu_cost (constraint_update flgH ne nf con rows (upd jar k u))) t.
Proof.
  intros flgH ne nf con rows jar k Hwf Hl Hk t.
  assert (Hd : is_derive (fun u : R => cu_cost (constraint_update flgH ne nf con rows (upd jar k u))) t
              (- nth k (cu_force (constraint_update flgH ne nf con rows (upd jar k t))) 0)).
  { destruct (cu_gradient flgH ne nf con rows (upd jar k t) k Hwf) as [_ [_ Hg]].
    - rewrite upd_length; assumption.
    - rewrite upd_length; assumption.
    - rewrite nth_upd_same in Hg by assumption.
      eapply is_derive_ext; [|exact Hg]. intros u. cbv beta. rewrite upd_upd by assumption. reflexivity. }
  split; [exact Hd|].
  apply (ex_derive_continuous (fun u : R => cu_cost (constraint_update flgH ne nf con rows (upd jar k u)))).
  eexists. exact Hd.
Qed.

(* the expressions of the middle zone coincide with those of the top zone on N = mu*T ... *)
Lemma ell_boundary_top (mu D0 N T : R) : mu * T = N ->
  / 2 * Dmid mu D0 * (N - mu * T) * (N - mu * T) = 0 /\
  - Dmid mu D0 * (N - mu * T) * mu = 0 /\
  forall u f : R, Dmid mu D0 * (N - mu * T) * mu / T * u * f = 0.
Proof.
  intros E. replace (N - mu * T) with 0 by lra. repeat split; intros; unfold Rdiv; ring.
Qed.

(* ... and with those of the bottom zone on mu*N + T = 0, under the relations set by mj_makeImpedance *)
Lemma ell_boundary_bottom (mu : R) (fr : list R) (D0 : R) (Dt : list R) (x0 : R) (xt : list R) :
  0 < mu -> length Dt = length xt -> (length xt <= length fr)%nat -> rel_ok mu fr D0 Dt ->
  mu * (x0 * mu) + Tnorm xt fr = 0 -> 0 < Tnorm xt fr ->
  / 2 * Dmid mu D0 * (x0 * mu - mu * Tnorm xt fr) * (x0 * mu - mu * Tnorm xt fr) = quad (D0 :: Dt) (x0 :: xt) /\
  - Dmid mu D0 * (x0 * mu - mu * Tnorm xt fr) * mu = - (D0 * x0) /\
  forall k, (k < length xt)%nat ->
    Dmid mu D0 * (x0 * mu - mu * Tnorm xt fr) * mu / Tnorm xt fr * (nth k xt 0 * nth k fr 0) * nth k fr 0 =
    - (nth k Dt 0 * nth k xt 0).
Proof.
  intros Hmu Hl Hf Hr Hb HT.
  assert (Hm2 : 0 < mu * mu) by nra.
  pose proof (Tnorm_sqr xt fr) as HT2.
  assert (ET : Tnorm xt fr = - (mu * mu * x0)) by lra.
  assert (Hx0 : x0 <> 0) by (intros E; rewrite E in ET; lra).
  split; [|split].
  - cbn [quad]. rewrite (quad_rel mu D0 Hmu Dt xt fr Hl Hf Hr). rewrite <- HT2, ET. unfold Dmid. field. nra.
  - rewrite ET. unfold Dmid. field. nra.
  - intros k Hk. assert (Ed : nth k Dt 0 = D0 * (nth k fr 0 * nth k fr 0) / (mu * mu)).
    { apply (Rmult_eq_reg_r (mu * mu)); [rewrite (Hr k) by lia; field; lra | lra]. }
    rewrite Ed, ET. unfold Dmid. field. repeat split; try lra; nra.
Qed.

(* ------------------------------------------------------------------ statements restated by Props/C12.v *)
Lemma block_ell_zones :
  forall flg s mu fr D0 Dt x0 xt, 0 < mu ->
    e_cost (block_ell flg s mu fr (D0 :: Dt) (x0 :: xt)) =
      s + Zsel mu (x0 * mu) (Tnorm xt fr) 0 (quad (D0 :: Dt) (x0 :: xt))
            (/ 2 * Dmid mu D0 * (x0 * mu - mu * Tnorm xt fr) * (x0 * mu - mu * Tnorm xt fr)) /\
    nth 0 (e_force (block_ell flg s mu fr (D0 :: Dt) (x0 :: xt))) 0 =
      Zsel mu (x0 * mu) (Tnorm xt fr) 0 (- (D0 * x0)) (- Dmid mu D0 * (x0 * mu - mu * Tnorm xt fr) * mu) /\
    forall k, (k < length xt)%nat -> (k < length fr)%nat -> (k < length Dt)%nat ->
      nth (S k) (e_force (block_ell flg s mu fr (D0 :: Dt) (x0 :: xt))) 0 =
      Zsel mu (x0 * mu) (Tnorm xt fr) 0 (- (nth k Dt 0 * nth k xt 0))
           (Dmid mu D0 * (x0 * mu - mu * Tnorm xt fr) * mu / Tnorm xt fr * (nth k xt 0 * nth k fr 0) * nth k fr 0).
Proof.
  intros. split; [apply block_ell_cost; assumption|]. split; [apply block_ell_force0; assumption|].
  intros. apply block_ell_forceS; assumption.
Qed.

Lemma ell_boundary :
  forall (mu : R) (fr : list R) (D0 : R) (Dt : list R) (x0 : R) (xt : list R),
    0 < mu -> length Dt = length xt -> (length xt <= length fr)%nat -> rel_ok mu fr D0 Dt ->
    let N := x0 * mu in let T := Tnorm xt fr in
    (mu * T = N ->
       / 2 * Dmid mu D0 * (N - mu * T) * (N - mu * T) = 0 /\ - Dmid mu D0 * (N - mu * T) * mu = 0 /\
       forall u f : R, Dmid mu D0 * (N - mu * T) * mu / T * u * f = 0) /\
    (mu * N + T = 0 -> 0 < T ->
       / 2 * Dmid mu D0 * (N - mu * T) * (N - mu * T) = quad (D0 :: Dt) (x0 :: xt) /\
       - Dmid mu D0 * (N - mu * T) * mu = - (D0 * x0) /\
       forall k, (k < length xt)%nat ->
         Dmid mu D0 * (N - mu * T) * mu / T * (nth k xt 0 * nth k fr 0) * nth k fr 0 = - (nth k Dt 0 * nth k xt 0)).
Proof.
  intros mu fr D0 Dt x0 xt Hmu Hl Hf Hr N T. split.
  - intros E. apply ell_boundary_top. exact E.
  - intros E HT. apply ell_boundary_bottom; assumption.
Qed.

Lemma row_fric_hub :
  forall D Rr fl x, D * Rr = 1 ->
    r_cost (row_fric 0 D Rr fl x) = D * hub (Rr * fl) x /\
    r_force (row_fric 0 D Rr fl x) = - (D * hubg (Rr * fl) x).
Proof. intros. split; [apply row_fric_cost | apply row_fric_force]; assumption. Qed.

Lemma scalar_convex :
  (forall D, 0 <= D -> convex1 (fun t => r_cost (row_eq 0 D t))) /\
  (forall D, 0 <= D -> convex1 (fun t => r_cost (row_uni 0 D t))) /\
  (forall D Rr fl, D * Rr = 1 -> 0 < Rr -> 0 <= fl -> convex1 (fun t => r_cost (row_fric 0 D Rr fl t))).
Proof. split; [exact row_eq_convex | split; [exact row_uni_convex | exact row_fric_convex]]. Qed.

(* ------------------------------------------------------------------ cone Hessian = - d force / d jar (middle zone) *)
Lemma nth_flat_grid (g : nat -> nat -> R) (n : nat) : forall m a b, (a < m)%nat -> (b < n)%nat ->
  nth (a * n + b) (flat_map (fun k => map (g k) (seq 0 n)) (seq 0 m)) 0 = g a b.
Proof.
  assert (Hgen : forall m s a b, (a < m)%nat -> (b < n)%nat ->
            nth (a * n + b) (flat_map (fun k => map (g k) (seq 0 n)) (seq s m)) 0 = g (s + a)%nat b).
  { induction m as [|m IH]; intros s a b Ha Hb; [lia|].
    cbn [seq flat_map]. destruct a as [|a].
    - cbn [Nat.mul Nat.add]. rewrite app_nth1 by (rewrite map_length, seq_length; exact Hb).
      rewrite (nth_indep _ 0 (g s 0%nat)) by (rewrite map_length, seq_length; exact Hb).
      rewrite map_nth, seq_nth by exact Hb. rewrite Nat.add_0_r. reflexivity.
    - rewrite app_nth2; rewrite map_length, seq_length; [|lia].
      replace (S a * n + b - n)%nat with (a * n + b)%nat by lia.
      rewrite IH by lia. f_equal. lia. }
  intros m a b Ha Hb. rewrite Hgen by assumption. reflexivity.
Qed.

(* strictly inside the middle zone the zone selector is locally its third branch *)
Lemma Zsel_local_mid (mu : R) (Nf Tf : R -> R) (x : R) :
  continuous Nf x -> continuous Tf x -> Nf x < mu * Tf x -> 0 < mu * Nf x + Tf x ->
  exists d, 0 < d /\ forall t, Rabs (t - x) < d -> forall a b c : R, Zsel mu (Nf t) (Tf t) a b c = c.
Proof.
  intros cN cT H1 H2.
  assert (c1 : continuous (fun t => Nf t - mu * Tf t) x).
  { apply (continuous_minus Nf (fun t => mu * Tf t)); [exact cN|]. apply (continuous_scal_r mu Tf x cT). }
  assert (c2 : continuous (fun t => mu * Nf t + Tf t) x).
  { apply (continuous_plus (fun t => mu * Nf t) Tf); [|exact cT]. apply (continuous_scal_r mu Nf x cN). }
  destruct (locally_neg _ x c1 ltac:(lra)) as [d1 [Hd1 L1]].
  destruct (locally_pos _ x c2 H2) as [d2 [Hd2 L2]].
  destruct (two_radii _ _ x (ex_intro _ d1 (conj Hd1 L1)) (ex_intro _ d2 (conj Hd2 L2))) as [d [Hd L]].
  exists d. split; [exact Hd|]. intros t Ht a b c. destruct (L t Ht) as [A B]. unfold Zsel.
  destruct (Rle_dec (mu * Tf t) (Nf t)); [lra|]. destruct (Rle_dec (mu * Nf t + Tf t) 0); [lra | reflexivity].
Qed.

Lemma nth_upd_other {A} (l : list A) k j x d : (k < length l)%nat -> j <> k -> nth j (upd l k x) d = nth j l d.
Proof.
  revert k j. induction l as [|a l IH]; intros k j Hk Hjk; [simpl in Hk; lia|].
  destruct k, j; try congruence; try reflexivity.
  rewrite upd_S. cbn [nth]. apply IH; [simpl in Hk; lia | congruence].
Qed.

(* middle-zone force expressions *)
Definition mf0 (mu D0 N T : R) : R := - Dmid mu D0 * (N - mu * T) * mu.
Definition mfk (mu D0 N T u f : R) : R := Dmid mu D0 * (N - mu * T) * mu / T * u * f.

Lemma Tk_ex_derive c f x : 0 < Tk c f x -> ex_derive (fun t : R => Tk c f t) x.
Proof. intros H. exists (f * (x * f) / Tk c f x). apply Tk_derive. exact H. Qed.
Lemma Tk_Derive c f x : 0 < Tk c f x -> Derive (fun t : R => Tk c f t) x = f * (x * f) / Tk c f x.
Proof. intros H. apply is_derive_unique. apply Tk_derive. exact H. Qed.

Lemma mf0_d0 mu D0 T (x : R) :
  is_derive (fun t : R => mf0 mu D0 (t * mu) T) x (- (Dmid mu D0 * mu * mu)).
Proof. unfold mf0. auto_derive; [exact I | lra]. Qed.

Lemma mf0_dk mu D0 N c f (x : R) : 0 < Tk c f x ->
  is_derive (fun t : R => mf0 mu D0 N (Tk c f t)) x (Dmid mu D0 * mu * mu * (f * (x * f) / Tk c f x)).
Proof.
  intros HT. unfold mf0. pose proof (Tk_ex_derive c f x HT) as Hex.
  auto_derive; [repeat split; assumption|]. rewrite (Tk_Derive c f x HT). field. lra.
Qed.

Lemma mfk_d0 mu D0 T u g (x : R) : 0 < T ->
  is_derive (fun t : R => mfk mu D0 (t * mu) T u g) x (Dmid mu D0 * mu * mu / T * u * g).
Proof. intros HT. unfold mfk. auto_derive; [lra | field; lra]. Qed.

Lemma mfk_dother mu D0 N c f u g (x : R) : 0 < Tk c f x ->
  is_derive (fun t : R => mfk mu D0 N (Tk c f t) u g) x
            (- (Dmid mu D0 * mu * N * u * g * (f * (x * f)) / (Tk c f x * Tk c f x * Tk c f x))).
Proof.
  intros HT. unfold mfk. pose proof (Tk_ex_derive c f x HT) as Hex.
  auto_derive; [repeat split; try assumption; lra|]. rewrite (Tk_Derive c f x HT). field. lra.
Qed.

Lemma mfk_dsame mu D0 N c f (x : R) : 0 < Tk c f x ->
  is_derive (fun t : R => mfk mu D0 N (Tk c f t) (t * f) f) x
            (Dmid mu D0 * mu * f * f * (N / Tk c f x - mu - N * (x * f) * (x * f) / (Tk c f x * Tk c f x * Tk c f x))).
Proof.
  intros HT. unfold mfk. pose proof (Tk_ex_derive c f x HT) as Hex.
  auto_derive; [repeat split; try assumption; lra|]. rewrite (Tk_Derive c f x HT). field. lra.
Qed.

Lemma block_ell_hess s mu fr D0 Dt x0 xt : 0 < mu ->
  x0 * mu < mu * Tnorm xt fr -> 0 < mu * (x0 * mu) + Tnorm xt fr ->
  snd (block_ell true s mu fr (D0 :: Dt) (x0 :: xt)) =
  Some (hess mu (x0 * mu) (Tnorm xt fr) (Dmid mu D0) (x0 * mu :: map2 Rmult xt fr) (mu :: fr) (S (length xt))).
Proof.
  intros Hmu H1 H2. unfold block_ell. cbv zeta. rewrite mju_norm_R. num_R. fold (Tnorm xt fr).
  assert (HT : 0 <= Tnorm xt fr) by apply sqrt_pos.
  rewrite top_bool, bot_bool by assumption.
  destruct (Rle_dec (mu * Tnorm xt fr) (x0 * mu)); [lra|].
  destruct (Rle_dec (mu * (x0 * mu) + Tnorm xt fr) 0); [lra|].
  cbn [snd length]. reflexivity.
Qed.

Lemma ell_hessian s mu fr D0 Dt (x0 : R) (xt : list R) : 0 < mu ->
  length Dt = length xt -> (length xt <= length fr)%nat ->
  x0 * mu < mu * Tnorm xt fr -> 0 < mu * (x0 * mu) + Tnorm xt fr ->
  forall a b, (a < S (length xt))%nat -> (b < S (length xt))%nat ->
  is_derive (fun t : R => nth a (e_force (block_ell true s mu fr (D0 :: Dt) (upd (x0 :: xt) b t))) 0)
            (nth b (x0 :: xt) 0)
            (- nth (a * S (length xt) + b)
                   (hess mu (x0 * mu) (Tnorm xt fr) (Dmid mu D0) (x0 * mu :: map2 Rmult xt fr) (mu :: fr) (S (length xt))) 0).
Proof.
  intros Hmu Hl Hf H1 H2 a b Ha Hb.
  assert (HT0 : 0 <= Tnorm xt fr) by apply sqrt_pos.
  assert (HT : 0 < Tnorm xt fr) by (destruct (Req_dec (Tnorm xt fr) 0) as [E|E]; [rewrite E in *; nra | lra]).
  unfold hess. rewrite nth_flat_grid by assumption.
  assert (HU : forall j, (j < length xt)%nat -> nth (S j) (x0 * mu :: map2 Rmult xt fr) 0 = nth j xt 0 * nth j fr 0).
  { intros j Hj. cbn [nth]. apply nth_map2; lia. }
  destruct b as [|k].
  - (* derivative along the normal coordinate *)
    cbn [nth].
    destruct (Zsel_local_mid mu (fun t => t * mu) (fun _ => Tnorm xt fr) x0) as [d [Hd L]]; try assumption.
    { apply (ex_derive_continuous (fun t : R => t * mu)). auto_derive. exact I. }
    { apply continuous_const. }
    destruct a as [|j].
    + apply (derive_local _ (fun t : R => mf0 mu D0 (t * mu) (Tnorm xt fr))).
      { exists d. split; [exact Hd|]. intros t Ht. rewrite upd_0, block_ell_force0 by assumption. apply (L t Ht). }
      replace (- hess_upper mu (x0 * mu) (Tnorm xt fr) (Dmid mu D0) (x0 * mu :: map2 Rmult xt fr) (mu :: fr) (Nat.min 0 0) (Nat.max 0 0))
        with (- (Dmid mu D0 * mu * mu)) by (unfold hess_upper; cbn [Nat.min Nat.max nth]; num_R; ring).
      apply mf0_d0.
    + assert (Hj : (j < length xt)%nat) by lia.
      apply (derive_local _ (fun t : R => mfk mu D0 (t * mu) (Tnorm xt fr) (nth j xt 0 * nth j fr 0) (nth j fr 0))).
      { exists d. split; [exact Hd|]. intros t Ht. rewrite upd_0, block_ell_forceS by (assumption || lia). apply (L t Ht). }
      replace (- hess_upper mu (x0 * mu) (Tnorm xt fr) (Dmid mu D0) (x0 * mu :: map2 Rmult xt fr) (mu :: fr) (Nat.min (S j) 0) (Nat.max (S j) 0))
        with (Dmid mu D0 * mu * mu / Tnorm xt fr * (nth j xt 0 * nth j fr 0) * nth j fr 0).
      2:{ unfold hess_upper. cbn [Nat.min Nat.max]. rewrite HU by exact Hj. cbn [nth]. num_R. field. lra. }
      apply mfk_d0. exact HT.
  - (* derivative along the tangential coordinate k *)
    assert (Hk : (k < length xt)%nat) by lia.
    assert (Hkf : (k < length fr)%nat) by lia.
    cbn [nth].
    set (x := nth k xt 0). set (f := nth k fr 0). set (c := ssq (map2 Rmult (upd xt k 0) fr)).
    assert (ET : Tnorm xt fr = Tk c f x).
    { rewrite <- (upd_nth_id xt k 0 Hk) at 1. apply Tnorm_upd; assumption. }
    assert (ETt : forall t, Tnorm (upd xt k t) fr = Tk c f t) by (intros t; apply Tnorm_upd; assumption).
    rewrite ET in *.
    destruct (Zsel_local_mid mu (fun _ => x0 * mu) (Tk c f) x) as [d [Hd L]]; try assumption.
    { apply continuous_const. }
    { apply Tk_cont. }
    destruct a as [|j].
    + apply (derive_local _ (fun t : R => mf0 mu D0 (x0 * mu) (Tk c f t))).
      { exists d. split; [exact Hd|]. intros t Ht. rewrite upd_S, block_ell_force0 by assumption. rewrite ETt. apply (L t Ht). }
      replace (- hess_upper mu (x0 * mu) (Tk c f x) (Dmid mu D0) (x0 * mu :: map2 Rmult xt fr) (mu :: fr) (Nat.min 0 (S k)) (Nat.max 0 (S k)))
        with (Dmid mu D0 * mu * mu * (f * (x * f) / Tk c f x)).
      2:{ unfold hess_upper. cbn [Nat.min Nat.max]. rewrite HU by exact Hk. cbn [nth]. num_R. fold x f. field. lra. }
      apply mf0_dk. exact HT.
    + assert (Hj : (j < length xt)%nat) by lia.
      destruct (Nat.eq_dec j k) as [Ejk|Njk].
      * subst j.
        apply (derive_local _ (fun t : R => mfk mu D0 (x0 * mu) (Tk c f t) (t * f) f)).
        { exists d. split; [exact Hd|]. intros t Ht. rewrite upd_S, block_ell_forceS by (rewrite ?upd_length by assumption; assumption || lia).
          rewrite ETt, nth_upd_same by assumption. fold f. apply (L t Ht). }
        replace (- hess_upper mu (x0 * mu) (Tk c f x) (Dmid mu D0) (x0 * mu :: map2 Rmult xt fr) (mu :: fr) (Nat.min (S k) (S k)) (Nat.max (S k) (S k)))
          with (Dmid mu D0 * mu * f * f * (x0 * mu / Tk c f x - mu - x0 * mu * (x * f) * (x * f) / (Tk c f x * Tk c f x * Tk c f x))).
        2:{ unfold hess_upper. rewrite Nat.min_id, Nat.max_id, Nat.eqb_refl. rewrite HU by exact Hk. cbn [nth]. num_R. fold x f. field. lra. }
        apply mfk_dsame. exact HT.
      * apply (derive_local _ (fun t : R => mfk mu D0 (x0 * mu) (Tk c f t) (nth j xt 0 * nth j fr 0) (nth j fr 0))).
        { exists d. split; [exact Hd|]. intros t Ht. rewrite upd_S, block_ell_forceS by (rewrite ?upd_length by assumption; assumption || lia).
          rewrite ETt, nth_upd_other by assumption. apply (L t Ht). }
        replace (- hess_upper mu (x0 * mu) (Tk c f x) (Dmid mu D0) (x0 * mu :: map2 Rmult xt fr) (mu :: fr) (Nat.min (S j) (S k)) (Nat.max (S j) (S k)))
          with (- (Dmid mu D0 * mu * (x0 * mu) * (nth j xt 0 * nth j fr 0) * nth j fr 0 * (f * (x * f)) / (Tk c f x * Tk c f x * Tk c f x))).
        2:{ unfold hess_upper.
            destruct (Nat.lt_ge_cases j k) as [Hlt|Hge].
            - rewrite Nat.min_l, Nat.max_r by lia.
              replace (Nat.eqb (S j) (S k)) with false by (symmetry; apply Nat.eqb_neq; lia).
              rewrite !HU by assumption. cbn [nth]. num_R. fold x f. field. lra.
            - rewrite Nat.min_r, Nat.max_l by lia.
              replace (Nat.eqb (S k) (S j)) with false by (symmetry; apply Nat.eqb_neq; lia).
              rewrite !HU by assumption. cbn [nth]. num_R. fold x f. field. lra. }
        apply mfk_dother. exact HT.
Qed.

(* ------------------------------------------------------------------ continuity of the forces on coordinate lines *)
Lemma locally_radius (a : R) (P : R -> Prop) :
  locally a P <-> exists d, 0 < d /\ forall x, Rabs (x - a) < d -> P x.
Proof.
  split.
  - intros [eps He]. exists eps. split; [apply eps|]. intros x Hx. apply He. exact Hx.
  - intros [d [Hd H]]. exists (mkposreal d Hd). intros x Hx. apply H. exact Hx.
Qed.

Lemma continuous_glue3 (f g1 g2 g3 : R -> R) a :
  (exists d, 0 < d /\ forall x, Rabs (x - a) < d -> f x = g1 x \/ f x = g2 x \/ f x = g3 x) ->
  g1 a = f a -> g2 a = f a -> g3 a = f a ->
  continuous g1 a -> continuous g2 a -> continuous g3 a -> continuous f a.
Proof.
  intros Hloc E1 E2 E3 C1 C2 C3 P HP.
  assert (L1 : locally a (fun x => P (g1 x))) by (apply C1; rewrite E1; exact HP).
  assert (L2 : locally a (fun x => P (g2 x))) by (apply C2; rewrite E2; exact HP).
  assert (L3 : locally a (fun x => P (g3 x))) by (apply C3; rewrite E3; exact HP).
  apply locally_radius in L1. apply locally_radius in L2. apply locally_radius in L3.
  destruct (two_radii _ _ a L1 L2) as [d12 [Hd12 L12]].
  destruct (two_radii _ _ a (ex_intro _ d12 (conj Hd12 L12)) L3) as [d123 [Hd123 L123]].
  destruct (two_radii _ _ a (ex_intro _ d123 (conj Hd123 L123)) Hloc) as [d [Hd L]].
  apply locally_radius. exists d. split; [exact Hd|]. intros x Hx.
  destruct (L x Hx) as [[[A1 A2] A3] [B|[B|B]]]; rewrite B; assumption.
Qed.

Lemma continuous_glue (f g h : R -> R) a :
  (exists d, 0 < d /\ forall x, Rabs (x - a) < d -> f x = g x \/ f x = h x) ->
  g a = f a -> h a = f a -> continuous g a -> continuous h a -> continuous f a.
Proof.
  intros [d [Hd Hloc]] E1 E2 C1 C2. apply (continuous_glue3 f g h h a); auto.
  exists d. split; [exact Hd|]. intros x Hx. destruct (Hloc x Hx); auto.
Qed.

Lemma continuous_local (f g : R -> R) a :
  (exists d, 0 < d /\ forall x, Rabs (x - a) < d -> f x = g x) -> continuous g a -> continuous f a.
Proof.
  intros [d [Hd Hloc]] C. apply (continuous_glue f g g a); auto.
  - exists d. split; [exact Hd|]. intros x Hx. left. apply Hloc. exact Hx.
  - symmetry. apply Hloc. rewrite Rminus_eq_0, Rabs_R0. exact Hd.
  - symmetry. apply Hloc. rewrite Rminus_eq_0, Rabs_R0. exact Hd.
Qed.

(* continuity of a zone-wise defined function, away from the apex *)
Lemma Zsel_continuous (mu : R) (Nf Tf bf cf : R -> R) (x : R) :
  0 < mu -> (forall t, 0 <= Tf t) -> continuous Nf x -> continuous Tf x ->
  0 < Tf x \/ Nf x <> 0 ->
  (mu * Nf x + Tf x <= 0 -> continuous bf x) ->
  (Nf x <= mu * Tf x -> 0 <= mu * Nf x + Tf x -> continuous cf x) ->
  (mu * Nf x + Tf x = 0 -> bf x = cf x) ->
  (Nf x = mu * Tf x -> cf x = 0) ->
  continuous (fun t => Zsel mu (Nf t) (Tf t) 0 (bf t) (cf t)) x.
Proof.
  intros Hmu HT cN cT Hna Hbot Hmid Hvb Hvc.
  pose (g1 := fun t => Nf t - mu * Tf t). pose (g2 := fun t => mu * Nf t + Tf t).
  assert (c1 : continuous g1 x).
  { unfold g1. apply (continuous_minus Nf (fun t => mu * Tf t)); [exact cN|]. apply (continuous_scal_r mu Tf x cT). }
  assert (c2 : continuous g2 x).
  { unfold g2. apply (continuous_plus (fun t => mu * Nf t) Tf); [|exact cT]. apply (continuous_scal_r mu Nf x cN). }
  destruct (Rtotal_order (g1 x) 0) as [H1|[H1|H1]].
  - destruct (locally_neg g1 x c1 H1) as [d1 [Hd1 L1]].
    destruct (Rtotal_order (g2 x) 0) as [H2|[H2|H2]].
    + destruct (locally_neg g2 x c2 H2) as [d2 [Hd2 L2]].
      apply (continuous_local _ bf).
      * destruct (two_radii _ _ x (ex_intro _ d1 (conj Hd1 L1)) (ex_intro _ d2 (conj Hd2 L2))) as [d [Hd L]].
        exists d. split; [exact Hd|]. intros t Ht. destruct (L t Ht) as [A B]. unfold g1, g2 in A, B.
        unfold Zsel. destruct (Rle_dec (mu * Tf t) (Nf t)); [lra|]. destruct (Rle_dec (mu * Nf t + Tf t) 0); [reflexivity | lra].
      * apply Hbot. unfold g2 in H2. lra.
    + apply (continuous_glue _ bf cf).
      * exists d1. split; [exact Hd1|]. intros t Ht. specialize (L1 t Ht). unfold g1 in L1.
        unfold Zsel. destruct (Rle_dec (mu * Tf t) (Nf t)); [lra|]. destruct (Rle_dec (mu * Nf t + Tf t) 0); auto.
      * unfold Zsel. unfold g1, g2 in *. destruct (Rle_dec (mu * Tf x) (Nf x)); [lra|]. destruct (Rle_dec (mu * Nf x + Tf x) 0); [reflexivity | lra].
      * unfold Zsel. unfold g1, g2 in *. destruct (Rle_dec (mu * Tf x) (Nf x)); [lra|]. destruct (Rle_dec (mu * Nf x + Tf x) 0); [symmetry; apply Hvb; lra | lra].
      * apply Hbot. unfold g2 in H2. lra.
      * apply Hmid; unfold g1, g2 in *; lra.
    + destruct (locally_pos g2 x c2 H2) as [d2 [Hd2 L2]].
      apply (continuous_local _ cf).
      * destruct (two_radii _ _ x (ex_intro _ d1 (conj Hd1 L1)) (ex_intro _ d2 (conj Hd2 L2))) as [d [Hd L]].
        exists d. split; [exact Hd|]. intros t Ht. destruct (L t Ht) as [A B]. unfold g1, g2 in A, B.
        unfold Zsel. destruct (Rle_dec (mu * Tf t) (Nf t)); [lra|]. destruct (Rle_dec (mu * Nf t + Tf t) 0); [lra | reflexivity].
      * apply Hmid; unfold g1, g2 in *; lra.
  - unfold g1 in H1.
    assert (HTp : 0 < Tf x).
    { destruct Hna as [A|A]; [exact A|]. pose proof (HT x). destruct (Req_dec (Tf x) 0) as [E|E]; [|lra].
      exfalso. apply A. rewrite E in H1. lra. }
    assert (H2 : 0 < g2 x) by (unfold g2; nra).
    destruct (locally_pos g2 x c2 H2) as [d2 [Hd2 L2]].
    apply (continuous_glue _ (fun _ => 0) cf).
    + exists d2. split; [exact Hd2|]. intros t Ht. specialize (L2 t Ht). unfold g2 in L2.
      unfold Zsel. destruct (Rle_dec (mu * Tf t) (Nf t)); [left; reflexivity|].
      destruct (Rle_dec (mu * Nf t + Tf t) 0); [lra | right; reflexivity].
    + unfold Zsel. destruct (Rle_dec (mu * Tf x) (Nf x)); [reflexivity | lra].
    + unfold Zsel. destruct (Rle_dec (mu * Tf x) (Nf x)); [apply Hvc; lra | lra].
    + apply continuous_const.
    + apply Hmid; unfold g2 in H2; lra.
  - destruct (locally_pos g1 x c1 H1) as [d1 [Hd1 L1]].
    apply (continuous_local _ (fun _ => 0)).
    + exists d1. split; [exact Hd1|]. intros t Ht. specialize (L1 t Ht). unfold g1 in L1.
      unfold Zsel. destruct (Rle_dec (mu * Tf t) (Nf t)); [reflexivity | lra].
    + apply continuous_const.
Qed.

(* ... and at the apex, where all three zones meet *)
Lemma Zsel_continuous_apex (mu : R) (Nf Tf bf cf : R -> R) (x : R) :
  Nf x = 0 -> Tf x = 0 -> bf x = 0 -> cf x = 0 -> continuous bf x -> continuous cf x ->
  continuous (fun t => Zsel mu (Nf t) (Tf t) 0 (bf t) (cf t)) x.
Proof.
  intros EN ET Eb Ec Cb Cc.
  assert (E0 : Zsel mu (Nf x) (Tf x) 0 (bf x) (cf x) = 0).
  { unfold Zsel. rewrite EN, ET. destruct (Rle_dec (mu * 0) 0); [reflexivity | lra]. }
  apply (continuous_glue3 _ (fun _ => 0) bf cf).
  - exists 1. split; [lra|]. intros t _. unfold Zsel.
    destruct (Rle_dec (mu * Tf t) (Nf t)); [left; reflexivity|]. destruct (Rle_dec (mu * Nf t + Tf t) 0); auto.
  - symmetry. exact E0.
  - rewrite E0. exact Eb.
  - rewrite E0. exact Ec.
  - apply continuous_const.
  - exact Cb.
  - exact Cc.
Qed.

Lemma mf0_cont mu D0 (Nf Tf : R -> R) x : continuous Nf x -> continuous Tf x ->
  continuous (fun t => mf0 mu D0 (Nf t) (Tf t)) x.
Proof.
  intros cN cT.
  apply (continuous_ext (fun t => (- Dmid mu D0 * mu) * (Nf t - mu * Tf t))); [intros t; unfold mf0; cbv beta; lra|].
  apply (continuous_scal_r (- Dmid mu D0 * mu) (fun t => Nf t - mu * Tf t)).
  apply (continuous_minus Nf (fun t => mu * Tf t)); [exact cN|]. apply (continuous_scal_r mu Tf x cT).
Qed.

Lemma cont_lin (a : R) x : continuous (fun t : R => - (a * t)) x.
Proof. apply (ex_derive_continuous (fun t : R => - (a * t))). auto_derive. exact I. Qed.
Lemma cont_mul (a : R) x : continuous (fun t : R => t * a) x.
Proof. apply (ex_derive_continuous (fun t : R => t * a)). auto_derive. exact I. Qed.

Lemma mfk_zero mu D0 N T g : mfk mu D0 N T 0 g = 0.
Proof. unfold mfk, Rdiv. ring. Qed.

(* T = 0 forces every product jar_j * friction_j to vanish, and with rel_ok every D_j * jar_j *)
Lemma Tnorm_zero xt fr : Tnorm xt fr = 0 -> forall j, nth j (map2 Rmult xt fr) 0 = 0.
Proof.
  intros E j. pose proof (Tnorm_sqr xt fr) as H. rewrite E in H.
  assert (Hs : ssq (map2 Rmult xt fr) = 0) by lra.
  apply ssq_zero_all in Hs. rewrite Forall_forall in Hs.
  destruct (nth_in_or_default j (map2 Rmult xt fr) 0) as [Hin|Hd]; [apply Hs; exact Hin | exact Hd].
Qed.

Lemma apex_Dx mu fr D0 Dt xt j : 0 < mu -> rel_ok mu fr D0 Dt -> length Dt = length xt -> (length xt <= length fr)%nat ->
  (j < length xt)%nat -> nth j xt 0 * nth j fr 0 = 0 -> nth j Dt 0 * nth j xt 0 = 0.
Proof.
  intros Hmu Hr Hl Hf Hj HU.
  assert (Hm2 : 0 < mu * mu) by nra.
  assert (E : nth j Dt 0 * nth j xt 0 * (mu * mu) = 0).
  { replace (nth j Dt 0 * nth j xt 0 * (mu * mu)) with (nth j Dt 0 * (mu * mu) * nth j xt 0) by ring.
    rewrite (Hr j) by lia.
    replace (D0 * (nth j fr 0 * nth j fr 0) * nth j xt 0) with (D0 * nth j fr 0 * (nth j xt 0 * nth j fr 0)) by ring.
    rewrite HU. ring. }
  apply Rmult_integral in E. destruct E; [assumption | lra].
Qed.

Lemma ell_force_cont_at flg s mu fr D0 Dt (x0 : R) (xt : list R) a b : 0 < mu ->
  length Dt = length xt -> (length xt <= length fr)%nat -> rel_ok mu fr D0 Dt ->
  (a < S (length xt))%nat -> (b < S (length xt))%nat ->
  continuous (fun u : R => nth a (e_force (block_ell flg s mu fr (D0 :: Dt) (upd (x0 :: xt) b u))) 0)
             (nth b (x0 :: xt) 0).
Proof.
  intros Hmu Hl Hf Hr Ha Hb.
  assert (Hm2 : 0 < mu * mu) by nra.
  assert (HT0 : 0 <= Tnorm xt fr) by apply sqrt_pos.
  destruct b as [|k].
  - (* line along the normal coordinate: N = u*mu, T constant *)
    cbn [nth]. set (T := Tnorm xt fr) in *.
    destruct a as [|j].
    + apply (continuous_ext (fun u : R => Zsel mu (u * mu) T 0 (- (D0 * u)) (mf0 mu D0 (u * mu) T))).
      { intros u. rewrite upd_0, block_ell_force0 by assumption. reflexivity. }
      destruct (Req_dec T 0) as [ET|ET]; [destruct (Req_dec x0 0) as [Ex|Ex]|].
      * subst x0. apply (Zsel_continuous_apex mu (fun u => u * mu) (fun _ => T)); try lra.
        -- unfold mf0. rewrite ET. ring.
        -- apply cont_lin.
        -- apply (mf0_cont mu D0 (fun u => u * mu) (fun _ => T)); [apply cont_mul | apply continuous_const].
      * apply (Zsel_continuous mu (fun u => u * mu) (fun _ => T)); auto.
        -- apply cont_mul.
        -- apply continuous_const.
        -- right. nra.
        -- intros _. apply cont_lin.
        -- intros _ _. apply (mf0_cont mu D0 (fun u => u * mu) (fun _ => T)); [apply cont_mul | apply continuous_const].
        -- intros H. exfalso. rewrite ET in H. nra.
        -- intros H. unfold mf0. replace (x0 * mu - mu * T) with 0 by lra. ring.
      * apply (Zsel_continuous mu (fun u => u * mu) (fun _ => T)); auto.
        -- apply cont_mul.
        -- apply continuous_const.
        -- left. lra.
        -- intros _. apply cont_lin.
        -- intros _ _. apply (mf0_cont mu D0 (fun u => u * mu) (fun _ => T)); [apply cont_mul | apply continuous_const].
        -- intros H. assert (E : T = - (mu * mu * x0)) by lra. unfold mf0, Dmid. rewrite E. field. nra.
        -- intros H. unfold mf0. replace (x0 * mu - mu * T) with 0 by lra. ring.
    + assert (Hj : (j < length xt)%nat) by lia.
      set (u0 := nth j xt 0 * nth j fr 0). set (g := nth j fr 0).
      apply (continuous_ext (fun u : R => Zsel mu (u * mu) T 0 (- (nth j Dt 0 * nth j xt 0)) (mfk mu D0 (u * mu) T u0 g))).
      { intros u. rewrite upd_0, block_ell_forceS by (assumption || lia). reflexivity. }
      destruct (Req_dec T 0) as [ET|ET]; [destruct (Req_dec x0 0) as [Ex|Ex]|].
      * (* apex *)
        assert (EU : u0 = 0) by (unfold u0; rewrite <- (nth_map2 Rmult) by lia; apply Tnorm_zero; exact ET).
        subst x0. apply (Zsel_continuous_apex mu (fun u => u * mu) (fun _ => T)); try lra.
        -- rewrite (apex_Dx mu fr D0 Dt xt j) by assumption. ring.
        -- rewrite EU. apply mfk_zero.
        -- apply continuous_const.
        -- apply (continuous_ext (fun _ => 0)); [intros u; rewrite EU, mfk_zero; reflexivity | apply continuous_const].
      * apply (Zsel_continuous mu (fun u => u * mu) (fun _ => T)); auto.
        -- apply cont_mul.
        -- apply continuous_const.
        -- right. nra.
        -- intros _. apply continuous_const.
        -- intros H1 H2. exfalso. rewrite ET in *. nra.
        -- intros H. exfalso. rewrite ET in H. nra.
        -- intros H. exfalso. rewrite ET in H. nra.
      * assert (HTp : 0 < T) by lra.
        apply (Zsel_continuous mu (fun u => u * mu) (fun _ => T)); auto.
        -- apply cont_mul.
        -- apply continuous_const.
        -- intros _. apply continuous_const.
        -- intros _ _. apply (ex_derive_continuous (fun u : R => mfk mu D0 (u * mu) T u0 g)).
           eexists. apply mfk_d0. exact HTp.
        -- intros H. destruct (ell_boundary_bottom mu fr D0 Dt x0 xt Hmu Hl Hf Hr H HTp) as [_ [_ Hk]].
           symmetry. apply (Hk j Hj).
        -- intros H. unfold mfk. replace (x0 * mu - mu * T) with 0 by lra. unfold Rdiv. ring.
  - (* line along the tangential coordinate k: N constant, T = Tk c f u *)
    assert (Hk : (k < length xt)%nat) by lia.
    assert (Hkf : (k < length fr)%nat) by lia.
    cbn [nth].
    set (x := nth k xt 0). set (f := nth k fr 0). set (c := ssq (map2 Rmult (upd xt k 0) fr)). set (N := x0 * mu).
    assert (ET : Tnorm xt fr = Tk c f x).
    { rewrite <- (upd_nth_id xt k 0 Hk) at 1. apply Tnorm_upd; assumption. }
    assert (ETt : forall t, Tnorm (upd xt k t) fr = Tk c f t) by (intros t; apply Tnorm_upd; assumption).
    assert (Hc : 0 <= c) by apply ssq_nonneg.
    pose proof (Tk_sqr c f x Hc) as HT2. pose proof (Tk_nonneg c f x) as HTx.
    (* facts at the apex *)
    assert (Hapex : Tk c f x = 0 -> c = 0 /\ x * f = 0).
    { intros E. rewrite E in HT2. pose proof (Rle_0_sqr (x * f)) as Hs. unfold Rsqr in Hs. split; nra. }
    destruct a as [|j].
    + apply (continuous_ext (fun u : R => Zsel mu N (Tk c f u) 0 (- (D0 * x0)) (mf0 mu D0 N (Tk c f u)))).
      { intros u. rewrite upd_S, block_ell_force0 by assumption. rewrite ETt. reflexivity. }
      destruct (Rlt_or_le 0 (Tk c f x)) as [HTp|HTz]; [|destruct (Req_dec N 0) as [EN|EN]].
      * apply (Zsel_continuous mu (fun _ => N) (Tk c f)); auto.
        -- apply Tk_nonneg.
        -- apply continuous_const.
        -- apply Tk_cont.
        -- intros _. apply continuous_const.
        -- intros _ _. apply (mf0_cont mu D0 (fun _ => N) (Tk c f)); [apply continuous_const | apply Tk_cont].
        -- intros H. assert (E : Tk c f x = - (mu * N)) by lra. unfold mf0, Dmid, N in *. rewrite E. field. nra.
        -- intros H. unfold mf0. replace (N - mu * Tk c f x) with 0 by lra. ring.
      * assert (E0 : Tk c f x = 0) by lra. assert (Ex0 : x0 = 0) by (unfold N in EN; nra).
        apply (Zsel_continuous_apex mu (fun _ => N) (Tk c f)); auto.
        -- rewrite Ex0. ring.
        -- unfold mf0. rewrite EN, E0. ring.
        -- apply continuous_const.
        -- apply (mf0_cont mu D0 (fun _ => N) (Tk c f)); [apply continuous_const | apply Tk_cont].
      * assert (E0 : Tk c f x = 0) by lra.
        apply (Zsel_continuous mu (fun _ => N) (Tk c f)); auto.
        -- apply Tk_nonneg.
        -- apply continuous_const.
        -- apply Tk_cont.
        -- intros _. apply continuous_const.
        -- intros _ _. apply (mf0_cont mu D0 (fun _ => N) (Tk c f)); [apply continuous_const | apply Tk_cont].
        -- intros H. exfalso. rewrite E0 in H. nra.
        -- intros H. exfalso. rewrite E0 in H. nra.
    + assert (Hj : (j < length xt)%nat) by lia.
      destruct (Nat.eq_dec j k) as [Ejk|Njk].
      * subst j.
        apply (continuous_ext (fun u : R => Zsel mu N (Tk c f u) 0 (- (nth k Dt 0 * u)) (mfk mu D0 N (Tk c f u) (u * f) f))).
        { intros u. rewrite upd_S, block_ell_forceS by (rewrite ?upd_length by assumption; assumption || lia).
          rewrite ETt, nth_upd_same by assumption. reflexivity. }
        destruct (Rlt_or_le 0 (Tk c f x)) as [HTp|HTz]; [|destruct (Req_dec N 0) as [EN|EN]].
        -- apply (Zsel_continuous mu (fun _ => N) (Tk c f)); auto.
           ++ apply Tk_nonneg.
           ++ apply continuous_const.
           ++ apply Tk_cont.
           ++ intros _. apply cont_lin.
           ++ intros _ _. apply (ex_derive_continuous (fun u : R => mfk mu D0 N (Tk c f u) (u * f) f)).
              eexists. apply mfk_dsame. exact HTp.
           ++ intros H. rewrite <- ET in H, HTp. unfold N in H.
              destruct (ell_boundary_bottom mu fr D0 Dt x0 xt Hmu Hl Hf Hr H HTp) as [_ [_ Hkk]].
              rewrite <- ET. symmetry. apply (Hkk k Hk).
           ++ intros H. unfold mfk. replace (N - mu * Tk c f x) with 0 by lra. unfold Rdiv. ring.
        -- (* apex *)
           assert (E0 : Tk c f x = 0) by lra. destruct (Hapex E0) as [Ec Exf].
           apply (Zsel_continuous_apex mu (fun _ => N) (Tk c f)); auto.
           ++ cbv beta. unfold x. rewrite (apex_Dx mu fr D0 Dt xt k) by assumption. ring.
           ++ rewrite Exf. apply mfk_zero.
           ++ apply cont_lin.
           ++ apply (continuous_ext (fun u : R => - (Dmid mu D0 * mu * mu * f * f * u))).
              { intros u. match goal with |- @eq _ ?a ?b => change (@eq R a b) end. unfold mfk. rewrite EN.
                pose proof (Tk_sqr c f u Hc) as Hu2. pose proof (Tk_nonneg c f u) as Hu.
                destruct (Req_dec (Tk c f u) 0) as [Eu|Eu].
                - rewrite Eu in Hu2. assert (Z : u * f = 0) by nra.
                  rewrite Z. unfold Rdiv. replace (Dmid mu D0 * mu * mu * f * f * u) with (Dmid mu D0 * mu * mu * f * (u * f)) by ring.
                  rewrite Z. ring.
                - field. exact Eu. }
              apply (ex_derive_continuous (fun u : R => - (Dmid mu D0 * mu * mu * f * f * u))). auto_derive. exact I.
        -- assert (E0 : Tk c f x = 0) by lra.
           apply (Zsel_continuous mu (fun _ => N) (Tk c f)); auto.
           ++ apply Tk_nonneg.
           ++ apply continuous_const.
           ++ apply Tk_cont.
           ++ intros _. apply cont_lin.
           ++ intros H1 H2. exfalso. rewrite E0 in *. nra.
           ++ intros H. exfalso. rewrite E0 in H. nra.
           ++ intros H. exfalso. rewrite E0 in H. nra.
      * set (u0 := nth j xt 0 * nth j fr 0). set (g := nth j fr 0).
        apply (continuous_ext (fun u : R => Zsel mu N (Tk c f u) 0 (- (nth j Dt 0 * nth j xt 0)) (mfk mu D0 N (Tk c f u) u0 g))).
        { intros u. rewrite upd_S, block_ell_forceS by (rewrite ?upd_length by assumption; assumption || lia).
          rewrite ETt, nth_upd_other by assumption. reflexivity. }
        destruct (Rlt_or_le 0 (Tk c f x)) as [HTp|HTz]; [|destruct (Req_dec N 0) as [EN|EN]].
        -- apply (Zsel_continuous mu (fun _ => N) (Tk c f)); auto.
           ++ apply Tk_nonneg.
           ++ apply continuous_const.
           ++ apply Tk_cont.
           ++ intros _. apply continuous_const.
           ++ intros _ _. apply (ex_derive_continuous (fun u : R => mfk mu D0 N (Tk c f u) u0 g)).
              eexists. apply mfk_dother. exact HTp.
           ++ intros H. rewrite <- ET in H, HTp. unfold N in H.
              destruct (ell_boundary_bottom mu fr D0 Dt x0 xt Hmu Hl Hf Hr H HTp) as [_ [_ Hkk]].
              rewrite <- ET. symmetry. apply (Hkk j Hj).
           ++ intros H. unfold mfk. replace (N - mu * Tk c f x) with 0 by lra. unfold Rdiv. ring.
        -- (* apex *)
           assert (E0 : Tk c f x = 0) by lra. rewrite <- ET in E0.
           assert (EU : u0 = 0) by (unfold u0; rewrite <- (nth_map2 Rmult) by lia; apply Tnorm_zero; exact E0).
           apply (Zsel_continuous_apex mu (fun _ => N) (Tk c f)); auto.
           ++ rewrite <- ET. exact E0.
           ++ rewrite (apex_Dx mu fr D0 Dt xt j) by assumption. ring.
           ++ rewrite EU. apply mfk_zero.
           ++ apply continuous_const.
           ++ apply (continuous_ext (fun _ => 0)); [intros u; rewrite EU, mfk_zero; reflexivity | apply continuous_const].
        -- assert (E0 : Tk c f x = 0) by lra.
           apply (Zsel_continuous mu (fun _ => N) (Tk c f)); auto.
           ++ apply Tk_nonneg.
           ++ apply continuous_const.
           ++ apply Tk_cont.
           ++ intros _. apply continuous_const.
           ++ intros H1 H2. exfalso. rewrite E0 in *. nra.
           ++ intros H. exfalso. rewrite E0 in H. nra.
           ++ intros H. exfalso. rewrite E0 in H. nra.
Qed.

(* ---- continuity of the scalar row forces *)
Lemma row_eq_force_cont s D x : continuous (fun t : R => r_force (row_eq s D t)) x.
Proof.
  apply (continuous_ext (fun t : R => - (D * t))); [intros t; symmetry; apply row_eq_force|]. apply cont_lin.
Qed.

Lemma row_uni_force_cont s D x : continuous (fun t : R => r_force (row_uni s D t)) x.
Proof.
  apply (continuous_ext (fun t : R => if Rle_dec 0 t then 0 else - (D * t))); [intros t; symmetry; apply row_uni_force|].
  destruct (Rtotal_order x 0) as [Hx|[Hx|Hx]].
  - apply (continuous_local _ (fun t : R => - (D * t))); [|apply cont_lin].
    exists (- x). split; [lra|]. intros t Ht. apply Rabs_def2 in Ht. destruct (Rle_dec 0 t); [lra | reflexivity].
  - subst x. apply (continuous_glue _ (fun _ => 0) (fun t : R => - (D * t))).
    + exists 1. split; [lra|]. intros t _. destruct (Rle_dec 0 t); auto.
    + destruct (Rle_dec 0 0); [reflexivity | lra].
    + destruct (Rle_dec 0 0); [ring | lra].
    + apply continuous_const.
    + apply cont_lin.
  - apply (continuous_local _ (fun _ => 0)); [|apply continuous_const].
    exists x. split; [lra|]. intros t Ht. apply Rabs_def2 in Ht. destruct (Rle_dec 0 t); [reflexivity | lra].
Qed.

Lemma cont_id x : continuous (fun t : R => t) x.
Proof. apply continuous_id. Qed.

Lemma hubg_cont a x : 0 <= a -> continuous (hubg a) x.
Proof.
  intros Ha. destruct (Req_dec a 0) as [Ea|Ea].
  { subst a. apply (continuous_local _ (fun _ => 0)); [|apply continuous_const].
    exists 1. split; [lra|]. intros t _. unfold hubg. destruct (Rle_dec t (- 0)), (Rle_dec 0 t); lra. }
  assert (Hp : 0 < a) by lra.
  destruct (Rtotal_order x (- a)) as [Hx|[Hx|Hx]].
  - apply (continuous_local _ (fun _ => - a)); [|apply continuous_const].
    exists (- a - x). split; [lra|]. intros t Ht. apply Rabs_def2 in Ht. unfold hubg. destruct (Rle_dec t (- a)); lra.
  - apply (continuous_glue _ (fun _ => - a) (fun t => t)).
    + exists a. split; [lra|]. intros t Ht. apply Rabs_def2 in Ht. unfold hubg.
      destruct (Rle_dec t (- a)); [left; reflexivity|]. destruct (Rle_dec a t); [lra | right; reflexivity].
    + unfold hubg. destruct (Rle_dec x (- a)); lra.
    + unfold hubg. destruct (Rle_dec x (- a)); lra.
    + apply continuous_const.
    + apply cont_id.
  - destruct (Rtotal_order x a) as [Hy|[Hy|Hy]].
    + apply (continuous_local _ (fun t => t)); [|apply cont_id].
      exists (Rmin (x + a) (a - x)). split; [apply Rmin_pos; lra|]. intros t Ht.
      assert (H : Rabs (t - x) < x + a) by (eapply Rlt_le_trans; [exact Ht | apply Rmin_l]).
      assert (H0 : Rabs (t - x) < a - x) by (eapply Rlt_le_trans; [exact Ht | apply Rmin_r]).
      apply Rabs_def2 in H. apply Rabs_def2 in H0. unfold hubg.
      destruct (Rle_dec t (- a)), (Rle_dec a t); lra.
    + apply (continuous_glue _ (fun _ => a) (fun t => t)).
      * exists a. split; [lra|]. intros t Ht. apply Rabs_def2 in Ht. unfold hubg.
        destruct (Rle_dec t (- a)); [lra|]. destruct (Rle_dec a t); [left | right]; reflexivity.
      * unfold hubg. destruct (Rle_dec x (- a)), (Rle_dec a x); lra.
      * unfold hubg. destruct (Rle_dec x (- a)), (Rle_dec a x); lra.
      * apply continuous_const.
      * apply cont_id.
    + apply (continuous_local _ (fun _ => a)); [|apply continuous_const].
      exists (x - a). split; [lra|]. intros t Ht. apply Rabs_def2 in Ht. unfold hubg.
      destruct (Rle_dec t (- a)), (Rle_dec a t); lra.
Qed.

Lemma row_fric_force_cont s D Rr fl x : D * Rr = 1 -> 0 < Rr -> 0 <= fl ->
  continuous (fun t : R => r_force (row_fric s D Rr fl t)) x.
Proof.
  intros E HR Hf.
  apply (continuous_ext (fun t : R => (- D) * hubg (Rr * fl) t)).
  { intros t. rewrite row_fric_force by assumption. match goal with |- @eq _ ?a ?b => change (@eq R a b) end. ring. }
  apply (continuous_scal_r (- D) (hubg (Rr * fl))). apply hubg_cont. apply Rmult_le_pos; lra.
Qed.

(* ---- one elliptic block of the loop, unfolded *)
Lemma cu_loop_ell_step fuel flg ne nf (con : list (@contact R)) i s D Rr fl tp id (rows : list (@rowdesc R))
      dim mu fr m (J : list R) :
  (i <? ne)%Z = false -> (i <? ne + nf)%Z = false -> negb (tp =? CT_ELLIPTIC)%Z = false -> (0 <= id)%Z ->
  nth_error con (Z.to_nat id) = Some (dim, mu, fr) -> Z.to_nat dim = S m -> (1 <= dim)%Z ->
  (S m <= S (length rows))%nat -> length J = S (length rows) ->
  let B := block_ell flg 0 mu fr (D :: map rD (firstn m rows)) (firstn (S m) J) in
  cu_loop (S fuel) flg ne nf con i s (@cons (@rowdesc R) (D, Rr, fl, tp, id) rows) J =
  res_app (e_force B) (repeat (e_state B) (S m)) (snd B)
          (shift (s + e_cost B)
                 (cu_loop fuel flg ne nf con (i + dim)%Z 0 (skipn (S m) (@cons (@rowdesc R) (D, Rr, fl, tp, id) rows)) (skipn (S m) J))).
Proof.
  intros E1 E2 E3 Hid E5 En Hdim Hn HJ B.
  destruct J as [|j0 J]; [simpl in HJ; lia|].
  cbn [cu_loop]. rewrite E1, E2, E3.
  assert (E4 : (id <? 0)%Z = false) by (apply Z.ltb_ge; lia). rewrite E4, E5. cbv zeta. rewrite En.
  match goal with |- context [if ?c then None else _] => assert (Ec : c = false) end.
  { apply orb_false_iff; split; [apply orb_false_iff; split|].
    - apply Z.ltb_ge. lia.
    - apply Nat.ltb_ge. simpl length. exact Hn.
    - apply Nat.ltb_ge. rewrite HJ. exact Hn. }
  rewrite Ec. rewrite block_ell_tuple. cbv beta iota. rewrite cu_loop_acc. reflexivity.
Qed.

Lemma nth_const_cont (l : list R) a x : continuous (fun _ : R => nth a l 0) x.
Proof. apply continuous_const. Qed.

(* ---- every force component is continuous along every coordinate line *)
Lemma cu_loop_force_cont : forall fuel flg ne nf con i s rows jar a k,
  cu_wf fuel ne nf con i rows -> length jar = length rows -> (a < length jar)%nat -> (k < length jar)%nat ->
  continuous (fun u : R => nth a (cu_force (cu_loop fuel flg ne nf con i s rows (upd jar k u))) 0) (nth k jar 0).
Proof.
  induction fuel as [|fuel IH]; intros flg ne nf con i s rows jar a k Hwf Hl Ha Hk;
    destruct rows as [|[[[[D Rr] fl] tp] id] rows]; destruct jar as [|x jar]; try (simpl in Hl, Hk; lia).
  { simpl in Hwf. contradiction. }
  cbn [cu_wf] in Hwf. simpl in Hl.
  (* a scalar first row with kernel K: shared argument *)
  assert (Scalar : forall (K : R -> R -> R * R * Z),
            (forall s0 t, K s0 t = (s0 + r_cost (K 0 t), r_force (K 0 t), snd (K 0 t))) ->
            (forall y, continuous (fun t : R => r_force (K 0 t)) y) ->
            cu_wf fuel ne nf con (i + 1)%Z rows ->
            (forall J : list R, cu_loop (S fuel) flg ne nf con i s (@cons (@rowdesc R) (D, Rr, fl, tp, id) rows) J =
               match J with
               | [] => None
               | y :: J' => let '(s', f, st) := K s y in res_cons f st (cu_loop fuel flg ne nf con (i + 1)%Z s' rows J')
               end) ->
            continuous (fun u : R => nth a (cu_force (cu_loop (S fuel) flg ne nf con i s (@cons (@rowdesc R) (D, Rr, fl, tp, id) rows) (upd (x :: jar) k u))) 0)
                       (nth k (x :: jar) 0)).
  { intros K Ktuple Kcont Hwf' Hstep.
    destruct k as [|k].
    - apply (continuous_ext (fun u : R => nth a (r_force (K 0 u) :: cu_force (cu_loop fuel flg ne nf con (i + 1)%Z 0 rows jar)) 0)).
      { intros u. rewrite upd_0, Hstep. rewrite (Ktuple s u). cbv beta iota.
        destruct (cu_loop_ok fuel flg ne nf con (i + 1)%Z 0 rows jar Hwf') as [A _]; [lia|].
        rewrite (cu_loop_acc fuel flg ne nf con (i + 1)%Z (s + r_cost (K 0 u))). rewrite cu_force_res_cons by (apply shift_none_not; exact A). rewrite cu_force_shift. reflexivity. }
      destruct a as [|a]; cbn [nth]; [apply Kcont | apply continuous_const].
    - apply (continuous_ext (fun u : R => nth a (r_force (K 0 x) :: cu_force (cu_loop fuel flg ne nf con (i + 1)%Z (s + r_cost (K 0 x)) rows (upd jar k u))) 0)).
      { intros u. rewrite upd_S, Hstep. rewrite (Ktuple s x). cbv beta iota.
        destruct (cu_loop_ok fuel flg ne nf con (i + 1)%Z (s + r_cost (K 0 x)) rows (upd jar k u) Hwf') as [A _].
        { rewrite upd_length; simpl in Hk; lia. }
        rewrite cu_force_res_cons by exact A. reflexivity. }
      destruct a as [|a]; cbn [nth]; [apply continuous_const|].
      apply IH; [exact Hwf' | lia | simpl in Ha; lia | simpl in Hk; lia]. }
  destruct (i <? ne)%Z eqn:E1.
  { apply (Scalar (fun s0 t => row_eq s0 D t)); [intros; apply row_eq_tuple | intros; apply row_eq_force_cont | exact Hwf |].
    intros J. destruct J; cbn [cu_loop]; [reflexivity|]. rewrite E1. reflexivity. }
  destruct (i <? ne + nf)%Z eqn:E2.
  { destruct Hwf as [[Hdr [HR Hfl]] Hwf].
    apply (Scalar (fun s0 t => row_fric s0 D Rr fl t)); [intros; apply row_fric_tuple | intros; apply row_fric_force_cont; assumption | exact Hwf |].
    intros J. destruct J; cbn [cu_loop]; [reflexivity|]. rewrite E1, E2. reflexivity. }
  destruct (negb (tp =? CT_ELLIPTIC)%Z) eqn:E3.
  { apply (Scalar (fun s0 t => row_uni s0 D t)); [intros; apply row_uni_tuple | intros; apply row_uni_force_cont | exact Hwf |].
    intros J. destruct J; cbn [cu_loop]; [reflexivity|]. rewrite E1, E2, E3. reflexivity. }
  clear Scalar.
  (* elliptic block *)
  destruct Hwf as [Hid Hwf].
  destruct (nth_error con (Z.to_nat id)) as [[[dim mu] fr]|] eqn:E5; [|contradiction].
  cbv zeta in Hwf. destruct Hwf as [Hdim [Hn [Hmu [Hfr [Hrel Hwf]]]]].
  remember (Z.to_nat dim) as n eqn:En.
  destruct n as [|m]; [exfalso; clear - En Hdim; lia|].
  simpl length in Hn. replace (S m - 1)%nat with m in Hfr, Hrel by (clear; lia).
  set (rows0 := @cons (@rowdesc R) (D, Rr, fl, tp, id) rows) in *.
  set (Dt := map rD (firstn m rows)) in *.
  set (Rst := skipn (S m) rows0) in *.
  assert (Hfm : length (firstn m jar) = m) by (rewrite firstn_length; clear - Hn Hl; lia).
  assert (Hdl : length Dt = length (firstn m jar)).
  { unfold Dt. rewrite map_length, firstn_length, Hfm. clear - Hn. lia. }
  assert (Hfl : (length (firstn m jar) <= length fr)%nat) by (rewrite Hfm; exact Hfr).
  assert (Step : forall J : list R, length J = S (length rows) ->
            cu_force (cu_loop (S fuel) flg ne nf con i s rows0 J) =
            e_force (block_ell flg 0 mu fr (D :: Dt) (firstn (S m) J)) ++
            cu_force (cu_loop fuel flg ne nf con (i + dim)%Z 0 Rst (skipn (S m) J))).
  { intros J HJ. unfold rows0. rewrite (cu_loop_ell_step fuel flg ne nf con i s D Rr fl tp id rows dim mu fr m J) by (auto; lia).
    cbv zeta. fold Dt. fold rows0. fold Rst.
    destruct (cu_loop_ok fuel flg ne nf con (i + dim)%Z 0 Rst (skipn (S m) J) Hwf) as [A _].
    { unfold Rst, rows0. rewrite !skipn_length. simpl length. clear - HJ. lia. }
    rewrite cu_force_res_app by (apply shift_none_not; exact A). rewrite cu_force_shift. reflexivity. }
  assert (Hx : firstn (S m) (x :: jar) = x :: firstn m jar) by reflexivity.
  assert (HlenB : forall J : list R, length J = S (length rows) ->
            length (e_force (block_ell flg 0 mu fr (D :: Dt) (firstn (S m) J))) = S m).
  { intros J HJ. rewrite e_force_length; rewrite firstn_length, HJ.
    - clear - Hn. lia.
    - cbn [length]. rewrite Hdl, Hfm. clear - Hn. lia.
    - clear - Hn Hfr. lia. }
  destruct (Nat.lt_ge_cases k (S m)) as [Hkm|Hkm].
  - (* the line moves a coordinate of this block *)
    apply (continuous_ext (fun u : R => nth a (e_force (block_ell flg 0 mu fr (D :: Dt) (upd (x :: firstn m jar) k u)) ++
                                               cu_force (cu_loop fuel flg ne nf con (i + dim)%Z 0 Rst (skipn (S m) (x :: jar)))) 0)).
    { intros u. rewrite Step by (rewrite upd_length by assumption; simpl; lia).
      rewrite firstn_upd_lt, skipn_upd_lt by assumption. rewrite Hx. reflexivity. }
    destruct (Nat.lt_ge_cases a (S m)) as [Ham|Ham].
    + apply (continuous_ext (fun u : R => nth a (e_force (block_ell flg 0 mu fr (D :: Dt) (upd (x :: firstn m jar) k u))) 0)).
      { intros u. rewrite app_nth1; [reflexivity|].
        rewrite e_force_length; rewrite upd_length; cbn [length]; rewrite ?Hdl, ?Hfm; try lia; try reflexivity. }
      replace (nth k (x :: jar) 0) with (nth k (x :: firstn m jar) 0).
      2:{ rewrite <- Hx. apply nth_firstn_lt. exact Hkm. }
      apply ell_force_cont_at; try assumption; cbn [length]; rewrite Hfm; assumption.
    + apply (continuous_ext (fun u : R => nth (a - S m) (cu_force (cu_loop fuel flg ne nf con (i + dim)%Z 0 Rst (skipn (S m) (x :: jar)))) 0)).
      { intros u. rewrite app_nth2; rewrite e_force_length; rewrite ?upd_length; cbn [length]; rewrite ?Hdl, ?Hfm; try lia; try reflexivity. }
      apply continuous_const.
  - (* the line moves a coordinate after this block *)
    apply (continuous_ext (fun u : R => nth a (e_force (block_ell flg 0 mu fr (D :: Dt) (firstn (S m) (x :: jar))) ++
                                               cu_force (cu_loop fuel flg ne nf con (i + dim)%Z 0 Rst (upd (skipn (S m) (x :: jar)) (k - S m) u))) 0)).
    { intros u. rewrite Step by (rewrite upd_length by assumption; simpl; lia).
      rewrite firstn_upd_ge, skipn_upd_ge by assumption. reflexivity. }
    pose proof (HlenB (x :: jar) ltac:(simpl; lia)) as HB.
    destruct (Nat.lt_ge_cases a (S m)) as [Ham|Ham].
    + apply (continuous_ext (fun u : R => nth a (e_force (block_ell flg 0 mu fr (D :: Dt) (firstn (S m) (x :: jar)))) 0)).
      { intros u. rewrite app_nth1 by (rewrite HB; exact Ham). reflexivity. }
      apply continuous_const.
    + apply (continuous_ext (fun u : R => nth (a - S m) (cu_force (cu_loop fuel flg ne nf con (i + dim)%Z 0 Rst (upd (skipn (S m) (x :: jar)) (k - S m) u))) 0)).
      { intros u. rewrite app_nth2 by (rewrite HB; exact Ham). rewrite HB. reflexivity. }
      replace (nth k (x :: jar) 0) with (nth (k - S m) (skipn (S m) (x :: jar)) 0).
      2:{ rewrite nth_skipn_add. f_equal. lia. }
      apply IH; [exact Hwf | unfold Rst, rows0; rewrite !skipn_length; simpl length; clear - Hl; lia
                | rewrite skipn_length; simpl length in *; lia | rewrite skipn_length; simpl length in *; lia].
Qed.


Theorem cu_force_line : forall flgH ne nf (con : list (@contact R)) (rows : list (@rowdesc R)) (jar : list R) a k,
  cu_wf (length rows) ne nf con 0 rows -> length jar = length rows -> (a < length jar)%nat -> (k < length jar)%nat ->
  forall t : R,
    continuous (fun u : R => nth a (cu_force (constraint_update flgH ne nf con rows (upd jar k u))) 0) t.
Proof.
  intros flgH ne nf con rows jar a k Hwf Hl Ha Hk t. unfold constraint_update.
  pose proof (cu_loop_force_cont (length rows) flgH ne nf con 0%Z 0 rows (upd jar k t) a k Hwf) as H.
  rewrite upd_length in H by assumption. specialize (H Hl Ha Hk).
  rewrite nth_upd_same in H by assumption.
  eapply continuous_ext; [|exact H]. intros u. cbv beta. rewrite upd_upd by assumption. reflexivity.
Qed.

(* the Hessian statement restated by Props/C12.v *)
Lemma ell_hessian_full s mu fr D0 Dt (x0 : R) (xt : list R) : 0 < mu ->
  length Dt = length xt -> (length xt <= length fr)%nat ->
  x0 * mu < mu * Tnorm xt fr -> 0 < mu * (x0 * mu) + Tnorm xt fr ->
  exists H : list R,
    snd (block_ell true s mu fr (D0 :: Dt) (x0 :: xt)) = Some H /\
    e_state (block_ell true s mu fr (D0 :: Dt) (x0 :: xt)) = ST_CONE /\
    forall a b, (a < S (length xt))%nat -> (b < S (length xt))%nat ->
      nth (a * S (length xt) + b) H 0 = nth (b * S (length xt) + a) H 0 /\
      is_derive (fun t : R => nth a (e_force (block_ell true s mu fr (D0 :: Dt) (upd (x0 :: xt) b t))) 0)
                (nth b (x0 :: xt) 0) (- nth (a * S (length xt) + b) H 0).
Proof.
  intros Hmu Hl Hf H1 H2. eexists. split; [apply block_ell_hess; assumption|]. split.
  - unfold block_ell, e_state. cbv zeta. rewrite mju_norm_R. num_R. fold (Tnorm xt fr).
    assert (HT : 0 <= Tnorm xt fr) by apply sqrt_pos.
    rewrite top_bool, bot_bool by assumption.
    destruct (Rle_dec (mu * Tnorm xt fr) (x0 * mu)); [lra|].
    destruct (Rle_dec (mu * (x0 * mu) + Tnorm xt fr) 0); [lra|]. reflexivity.
  - intros a b Ha Hb. split; [|apply ell_hessian; assumption].
    unfold hess. rewrite !nth_flat_grid by assumption. rewrite Nat.min_comm, Nat.max_comm. reflexivity.
Qed.

(* ------------------------------------------------------------------ convexity *)
(* the elliptic cost in the plane (N, T), T >= 0, up to the factor D0/(2 mu^2): squared distance to the cone *)
Definition G2 (mu N T : R) : R := Zsel mu N T 0 (N * N + T * T) ((N - mu * T) * (N - mu * T) / (1 + mu * mu)).
Definition G2N (mu N T : R) : R := Zsel mu N T 0 (2 * N) (2 * (N - mu * T) / (1 + mu * mu)).
Definition G2T (mu N T : R) : R := Zsel mu N T 0 (2 * T) (- 2 * mu * (N - mu * T) / (1 + mu * mu)).

Lemma G2T_nonneg mu N T : 0 < mu -> 0 <= T -> 0 <= G2T mu N T.
Proof.
  intros Hmu HT. unfold G2T, Zsel.
  destruct (Rle_dec (mu * T) N); [lra|]. destruct (Rle_dec (mu * N + T) 0); [lra|].
  assert (0 < 1 + mu * mu) by nra.
  unfold Rdiv. apply Rmult_le_pos; [nra | left; apply Rinv_0_lt_compat; assumption].
Qed.

Lemma G2_tangent mu N T N' T' : 0 < mu -> 0 <= T -> 0 <= T' ->
  G2 mu N T + G2N mu N T * (N' - N) + G2T mu N T * (T' - T) <= G2 mu N' T'.
Proof.
  intros Hmu HT HT'. unfold G2, G2N, G2T, Zsel.
  assert (Hq : 0 < 1 + mu * mu) by nra.
  assert (Hi : 0 < / (1 + mu * mu)) by (apply Rinv_0_lt_compat; assumption).
  set (k := / (1 + mu * mu)) in *.
  assert (Hk : k * (1 + mu * mu) = 1) by (unfold k; field; lra).
  set (a := N - mu * T). set (a' := N' - mu * T').
  assert (Id : (1 + mu * mu) * (N' * N' + T' * T') = a' * a' + (mu * N' + T') * (mu * N' + T')) by (unfold a'; ring).
  assert (Id0 : (1 + mu * mu) * (N * N + T * T) = a * a + (mu * N + T) * (mu * N + T)) by (unfold a; ring).
  unfold Rdiv. fold k.
  destruct (Rle_dec (mu * T) N) as [P1|P1]; [|destruct (Rle_dec (mu * N + T) 0) as [P2|P2]];
    (destruct (Rle_dec (mu * T') N') as [Q1|Q1]; [|destruct (Rle_dec (mu * N' + T') 0) as [Q2|Q2]]).
  - lra.
  - nra.
  - assert (0 <= a' * a' * k) by (apply Rmult_le_pos; [apply Rle_0_sqr | lra]). fold a'. lra.
  - (* bottom, top *) assert (N * N' + T * T' <= 0).
    { assert (N <= 0) by nra. assert (N * N' <= N * (mu * T')) by (apply Rmult_le_compat_neg_l; lra).
      assert (N * mu * T' <= - T * T') by (apply Rmult_le_compat_r; lra). nra. }
    nra.
  - (* bottom, bottom *) pose proof (Rle_0_sqr (N' - N)) as S1. pose proof (Rle_0_sqr (T' - T)) as S2. unfold Rsqr in *. lra.
  - (* bottom, middle *)
    fold a'.
    (* (1+mu^2) * rhs = a'^2 ; lhs*(1+mu^2) = (1+mu^2)(2NN'+2TT'-N^2-T^2) *)
    assert (H : (2 * N * N' + 2 * T * T' - N * N - T * T) * (1 + mu * mu) <= a' * a').
    { (* with b = mu N + T <= 0, b' = mu N' + T' > 0, a <= 0?, use decomposition along the two orthogonal directions *)
      set (b := mu * N + T) in *. set (b' := mu * N' + T') in *.
      assert (E1 : (1 + mu * mu) * (N * N' + T * T') = a * a' + b * b') by (unfold a, a', b, b'; ring).
      assert (Hbb : b * b' <= 0) by nra.
      assert (Sq : 0 <= (a - a') * (a - a')) by apply Rle_0_sqr.
      assert (Sb : 0 <= b * b) by apply Rle_0_sqr.
      nra. }
    assert (H2 : (2 * N * N' + 2 * T * T' - N * N - T * T) * (1 + mu * mu) * k <= a' * a' * k) by (apply Rmult_le_compat_r; lra).
    rewrite Rmult_assoc in H2. rewrite (Rmult_comm (1 + mu * mu) k) in H2. rewrite Hk in H2. lra.
  - (* middle, top *) fold a. assert (a < 0) by (unfold a; lra). assert (0 <= a') by (unfold a'; lra).
    assert (E : a * a * k + 2 * a * k * (N' - N) + - 2 * mu * a * k * (T' - T) = k * (2 * a * a' - a * a)) by (unfold a, a'; ring).
    rewrite E. assert (2 * a * a' - a * a <= 0) by nra. nra.
  - (* middle, bottom *) fold a.
    assert (E : a * a * k + 2 * a * k * (N' - N) + - 2 * mu * a * k * (T' - T) = k * (2 * a * a' - a * a)) by (unfold a, a'; ring).
    rewrite E.
    assert (H : 2 * a * a' - a * a <= (1 + mu * mu) * (N' * N' + T' * T')).
    { rewrite Id. assert (0 <= (a - a') * (a - a')) by apply Rle_0_sqr.
      assert (0 <= (mu * N' + T') * (mu * N' + T')) by apply Rle_0_sqr. nra. }
    assert (H2 : k * (2 * a * a' - a * a) <= k * ((1 + mu * mu) * (N' * N' + T' * T'))) by (apply Rmult_le_compat_l; lra).
    rewrite <- Rmult_assoc, Hk in H2. lra.
  - (* middle, middle *) fold a a'.
    assert (E : a * a * k + 2 * a * k * (N' - N) + - 2 * mu * a * k * (T' - T) = k * (2 * a * a' - a * a)) by (unfold a, a'; ring).
    rewrite E. assert (0 <= (a - a') * (a - a')) by apply Rle_0_sqr.
    assert (k * (2 * a * a' - a * a) <= k * (a' * a')) by (apply Rmult_le_compat_l; nra). lra.
Qed.

Lemma sq_le_le (x y : R) : 0 <= y -> x * x <= y * y -> x <= y.
Proof. intros Hy H. destruct (Rle_lt_dec x y); [assumption | exfalso; nra]. Qed.

(* Cauchy-Schwarz for list vectors *)
Lemma dotl_CS : forall U V : list R, dotl U V * dotl U V <= ssq U * ssq V.
Proof.
  induction U as [|a U IH]; intros V; [simpl; lra|].
  destruct V as [|b V]; [simpl; pose proof (ssq_nonneg (a :: U)); simpl in *; nra|].
  cbn [dotl ssq]. specialize (IH V).
  set (s := dotl U V) in *. set (A := ssq U) in *. set (B := ssq V) in *.
  assert (HA : 0 <= A) by apply ssq_nonneg. assert (HB : 0 <= B) by apply ssq_nonneg.
  assert (HY : 0 <= a * a * B + b * b * A).
  { assert (0 <= a * a * B) by (apply Rmult_le_pos; [apply Rle_0_sqr | exact HB]).
    assert (0 <= b * b * A) by (apply Rmult_le_pos; [apply Rle_0_sqr | exact HA]). lra. }
  assert (HX : 2 * a * b * s <= a * a * B + b * b * A).
  { apply sq_le_le; [exact HY|].
    assert (H1 : 4 * (a * a) * (b * b) * (s * s) <= 4 * (a * a) * (b * b) * (A * B)).
    { apply Rmult_le_compat_l; [|exact IH].
      assert (0 <= a * a) by apply Rle_0_sqr. assert (0 <= b * b) by apply Rle_0_sqr. nra. }
    pose proof (Rle_0_sqr (a * a * B - b * b * A)) as H2. unfold Rsqr in H2. nra. }
  nra.
Qed.

Lemma dotl_le_norms (U V : list R) : dotl U V <= sqrt (ssq U) * sqrt (ssq V).
Proof.
  apply sq_le_le.
  - apply Rmult_le_pos; apply sqrt_pos.
  - replace (sqrt (ssq U) * sqrt (ssq V) * (sqrt (ssq U) * sqrt (ssq V)))
      with ((sqrt (ssq U) * sqrt (ssq U)) * (sqrt (ssq V) * sqrt (ssq V))) by ring.
    rewrite !sqrt_sqrt by apply ssq_nonneg. apply dotl_CS.
Qed.

(* dot products of the tangential forces with a displacement *)
Lemma dot_middle (a : R) : forall xt yt fr : list R, length yt = length xt ->
  dotl (map2 (fun u f => a * u * f) (map2 Rmult xt fr) fr) (vsub yt xt) =
  a * (dotl (map2 Rmult xt fr) (map2 Rmult yt fr) - ssq (map2 Rmult xt fr)).
Proof.
  induction xt as [|x xt IH]; intros yt fr Hl.
  - destruct yt; [simpl; ring | simpl in Hl; lia].
  - destruct yt as [|y yt]; [simpl in Hl; lia|]. destruct fr as [|f fr]; [simpl; ring|].
    unfold vsub in *. cbn [map2 dotl ssq]. rewrite IH by (simpl in Hl; lia). ring.
Qed.

Lemma dot_bottom (mu D0 : R) : 0 < mu -> forall Dt xt yt fr : list R, rel_ok mu fr D0 Dt -> length Dt = length xt ->
  length yt = length xt -> (length xt <= length fr)%nat ->
  dotl (map2 (fun d x => - d * x) Dt xt) (vsub yt xt) =
  - (D0 / (mu * mu)) * (dotl (map2 Rmult xt fr) (map2 Rmult yt fr) - ssq (map2 Rmult xt fr)).
Proof.
  intros Hmu. induction Dt as [|d Dt IH]; intros xt yt fr Hr Hl Hy Hf.
  - destruct xt; [|simpl in Hl; lia]. destruct yt; [simpl; ring | simpl in Hy; lia].
  - destruct xt as [|x xt]; [simpl in Hl; lia|]. destruct yt as [|y yt]; [simpl in Hy; lia|].
    destruct fr as [|f fr]; [simpl in Hf; lia|].
    apply rel_ok_tail in Hr. destruct Hr as [Hd Hr].
    assert (Ed : d = D0 * (f * f) / (mu * mu)) by (apply (Rmult_eq_reg_r (mu * mu)); [rewrite Hd; field; lra | nra]).
    unfold vsub in *. cbn [map2 dotl ssq]. rewrite (IH xt yt fr) by (simpl in *; auto; lia). rewrite Ed. field. lra.
Qed.

Lemma dotl_zeros (xs v : list R) : dotl (map (fun _ => 0) xs) v = 0.
Proof. revert v. induction xs as [|x xs IH]; intros v; destruct v; simpl; try reflexivity. rewrite IH. ring. Qed.

(* tangent-plane inequality of the elliptic block *)
Lemma ell_tangent flg mu fr D0 Dt (x0 : R) (xt : list R) (y0 : R) (yt : list R) : 0 < mu -> 0 <= D0 ->
  length Dt = length xt -> length yt = length xt -> (length xt <= length fr)%nat -> rel_ok mu fr D0 Dt ->
  e_cost (block_ell flg 0 mu fr (D0 :: Dt) (x0 :: xt)) -
  dotl (e_force (block_ell flg 0 mu fr (D0 :: Dt) (x0 :: xt))) (vsub (y0 :: yt) (x0 :: xt)) <=
  e_cost (block_ell flg 0 mu fr (D0 :: Dt) (y0 :: yt)).
Proof.
  intros Hmu HD Hl Hy Hf Hr.
  assert (Hm2 : 0 < mu * mu) by nra.
  set (q := D0 / (2 * (mu * mu))). assert (Hq : 0 <= q) by (unfold q; apply Rmult_le_pos; [lra | left; apply Rinv_0_lt_compat; lra]).
  (* cost as q * G2 *)
  assert (Hcost : forall z0 zt, length zt = length xt ->
            e_cost (block_ell flg 0 mu fr (D0 :: Dt) (z0 :: zt)) = q * G2 mu (z0 * mu) (Tnorm zt fr)).
  { intros z0 zt Hz. rewrite block_ell_cost by assumption. rewrite Rplus_0_l. unfold G2, Zsel.
    destruct (Rle_dec (mu * Tnorm zt fr) (z0 * mu)); [ring|].
    destruct (Rle_dec (mu * (z0 * mu) + Tnorm zt fr) 0).
    - cbn [quad]. rewrite (quad_rel mu D0 Hmu Dt zt fr) by (auto; lia). rewrite <- (Tnorm_sqr zt fr). unfold q. field. lra.
    - unfold Dmid, q. field. split; nra. }
  rewrite (Hcost x0 xt eq_refl), (Hcost y0 yt Hy).
  set (N := x0 * mu). set (T := Tnorm xt fr). set (N' := y0 * mu). set (T' := Tnorm yt fr).
  assert (HT : 0 <= T) by apply sqrt_pos. assert (HT' : 0 <= T') by apply sqrt_pos.
  pose proof (G2_tangent mu N T N' T' Hmu HT HT') as Htan.
  pose proof (G2T_nonneg mu N T Hmu HT) as HGT.
  set (U := map2 Rmult xt fr). set (V := map2 Rmult yt fr).
  assert (HUV : dotl U V <= T * T') by (unfold T, T', Tnorm; apply dotl_le_norms).
  assert (HTT : T * T = ssq U) by apply Tnorm_sqr.
  (* the dot product with the force, zone by zone *)
  assert (Hdot : - dotl (e_force (block_ell flg 0 mu fr (D0 :: Dt) (x0 :: xt))) (vsub (y0 :: yt) (x0 :: xt)) <=
                 q * (G2N mu N T * (N' - N) + G2T mu N T * (T' - T))).
  { unfold block_ell, e_force. cbv zeta. rewrite mju_norm_R. num_R. fold (Tnorm xt fr). fold T. fold N.
    rewrite top_bool, bot_bool by assumption. unfold G2N, G2T, Zsel.
    destruct (Rle_dec (mu * T) N) as [P1|P1]; [|destruct (Rle_dec (mu * N + T) 0) as [P2|P2]]; cbn [fst snd].
    - rewrite dotl_zeros. lra.
    - unfold vsub. cbn [map2 dotl]. fold (vsub yt xt).
      rewrite (dot_bottom mu D0 Hmu Dt xt yt fr Hr Hl Hy Hf). fold U V. rewrite <- HTT.
      replace (- (- D0 * x0 * (y0 - x0) + - (D0 / (mu * mu)) * (dotl U V - T * T)))
        with (q * (2 * N * (N' - N) + 2 * (dotl U V - T * T))) by (unfold q, N, N'; field; lra).
      apply Rmult_le_compat_l; [exact Hq|]. lra.
    - assert (HTp : 0 < T).
      { destruct (Req_dec T 0) as [E|E]; [|lra]. exfalso. rewrite E in *. destruct (Rle_dec 0 N); nra. }
      unfold vsub. cbn [map2 dotl]. fold (vsub yt xt).
      set (Dm := D0 / (mu * mu * (1 + mu * mu))). set (f0 := - Dm * (N - mu * T) * mu).
      rewrite (dot_middle (- f0 / T) xt yt fr Hy). fold U V. rewrite <- HTT.
      assert (HDm : 0 <= Dm) by (unfold Dm; apply Rmult_le_pos; [lra | left; apply Rinv_0_lt_compat; nra]).
      assert (Hf0 : 0 <= f0) by (unfold f0; assert (0 <= Dm * (mu * T - N)) by (apply Rmult_le_pos; lra); nra).
      assert (E1 : q * (2 * (N - mu * T) / (1 + mu * mu) * (N' - N)) = - (f0 * (y0 - x0))).
      { unfold q, f0, Dm, N, N'. field. split; nra. }
      assert (E2 : q * (- 2 * mu * (N - mu * T) / (1 + mu * mu) * (T' - T)) = f0 * (T' - T)).
      { unfold q, f0, Dm. field. split; nra. }
      rewrite Rmult_plus_distr_l, E1, E2.
      assert (H3 : f0 / T * (dotl U V - T * T) <= f0 / T * (T * T' - T * T)).
      { apply Rmult_le_compat_l; [apply Rmult_le_pos; [exact Hf0 | left; apply Rinv_0_lt_compat; exact HTp] | lra]. }
      replace (f0 / T * (T * T' - T * T)) with (f0 * (T' - T)) in H3 by (field; lra).
      replace (- (f0 * (y0 - x0) + - f0 / T * (dotl U V - T * T))) with (- (f0 * (y0 - x0)) + f0 / T * (dotl U V - T * T)) by (field; lra).
      lra. }
  assert (q * (G2 mu N T + G2N mu N T * (N' - N) + G2T mu N T * (T' - T)) <= q * G2 mu N' T') by (apply Rmult_le_compat_l; assumption).
  lra.
Qed.

(* tangent-line inequalities of the scalar rows *)
Lemma row_eq_tangent D x y : 0 <= D ->
  r_cost (row_eq 0 D x) - r_force (row_eq 0 D x) * (y - x) <= r_cost (row_eq 0 D y).
Proof.
  intros HD. rewrite !row_eq_cost, row_eq_force.
  assert (0 <= D * ((y - x) * (y - x))) by (apply Rmult_le_pos; [lra | apply Rle_0_sqr]). nra.
Qed.

Lemma row_uni_tangent D x y : 0 <= D ->
  r_cost (row_uni 0 D x) - r_force (row_uni 0 D x) * (y - x) <= r_cost (row_uni 0 D y).
Proof.
  intros HD. rewrite !row_uni_cost, row_uni_force.
  assert (0 <= D * (y * y)) by (apply Rmult_le_pos; [lra | apply Rle_0_sqr]).
  assert (0 <= D * (x * x)) by (apply Rmult_le_pos; [lra | apply Rle_0_sqr]).
  assert (0 <= D * ((y - x) * (y - x))) by (apply Rmult_le_pos; [lra | apply Rle_0_sqr]).
  destruct (Rle_dec 0 x), (Rle_dec 0 y); nra.
Qed.

Lemma row_fric_tangent D Rr fl x y : D * Rr = 1 -> 0 < Rr -> 0 <= fl ->
  r_cost (row_fric 0 D Rr fl x) - r_force (row_fric 0 D Rr fl x) * (y - x) <= r_cost (row_fric 0 D Rr fl y).
Proof.
  intros E HR Hf. rewrite !row_fric_cost, row_fric_force by assumption.
  assert (HD : 0 < D) by (destruct (Rlt_or_le 0 D); [assumption | nra]).
  assert (Ha : 0 <= Rr * fl) by (apply Rmult_le_pos; lra).
  pose proof (hub_tangent (Rr * fl) x y Ha). nra.
Qed.

(* list vectors *)
Lemma dotl_app (a b c d : list R) : length a = length c -> dotl (a ++ b) (c ++ d) = dotl a c + dotl b d.
Proof.
  revert c. induction a as [|x a IH]; intros c Hl; destruct c as [|y c]; simpl in Hl; try lia; [simpl; ring|].
  cbn [app dotl]. rewrite IH by lia. ring.
Qed.

Lemma vsub_firstn n (y x : list R) : firstn n (vsub y x) = vsub (firstn n y) (firstn n x).
Proof.
  unfold vsub. revert y x. induction n; intros y x; [reflexivity|].
  destruct y, x; try reflexivity. cbn [map2 firstn]. f_equal. apply IHn.
Qed.
Lemma vsub_skipn n (y x : list R) : length y = length x -> skipn n (vsub y x) = vsub (skipn n y) (skipn n x).
Proof.
  unfold vsub. revert y x. induction n; intros y x Hl; [reflexivity|].
  destruct y, x; simpl in Hl; try lia; try reflexivity. cbn [map2 skipn]. apply IHn. lia.
Qed.
Lemma vsub_length (y x : list R) : length (vsub y x) = Nat.min (length y) (length x).
Proof. unfold vsub. apply map2_length. Qed.

(* tangent-plane inequality of the whole update: cost(y) >= cost(x) - force(x) . (y - x) *)
Lemma cu_loop_tangent : forall fuel flg ne nf con i s rows (x y : list R),
  cu_wf fuel ne nf con i rows -> D_nonneg rows -> length x = length rows -> length y = length rows ->
  cu_cost (cu_loop fuel flg ne nf con i s rows x) -
  dotl (cu_force (cu_loop fuel flg ne nf con i s rows x)) (vsub y x) <=
  cu_cost (cu_loop fuel flg ne nf con i s rows y).
Proof.
  induction fuel as [|fuel IH]; intros flg ne nf con i s rows x y Hwf HD Hx Hy;
    destruct rows as [|[[[[D Rr] fl] tp] id] rows]; destruct x as [|x0 x]; destruct y as [|y0 y];
    try (simpl in Hx, Hy; lia); try (simpl; lra).
  cbn [cu_wf] in Hwf. simpl in Hx, Hy.
  inversion HD as [|? ? HD0 HD']; subst. unfold rD in HD0.
  assert (Scalar : forall (K : R -> R -> R * R * Z),
            (forall s0 t, K s0 t = (s0 + r_cost (K 0 t), r_force (K 0 t), snd (K 0 t))) ->
            (forall a b, r_cost (K 0 a) - r_force (K 0 a) * (b - a) <= r_cost (K 0 b)) ->
            cu_wf fuel ne nf con (i + 1)%Z rows ->
            (forall J : list R, cu_loop (S fuel) flg ne nf con i s (@cons (@rowdesc R) (D, Rr, fl, tp, id) rows) J =
               match J with
               | [] => None
               | z :: J' => let '(s', f, st) := K s z in res_cons f st (cu_loop fuel flg ne nf con (i + 1)%Z s' rows J')
               end) ->
            cu_cost (cu_loop (S fuel) flg ne nf con i s (@cons (@rowdesc R) (D, Rr, fl, tp, id) rows) (x0 :: x)) -
            dotl (cu_force (cu_loop (S fuel) flg ne nf con i s (@cons (@rowdesc R) (D, Rr, fl, tp, id) rows) (x0 :: x))) (vsub (y0 :: y) (x0 :: x)) <=
            cu_cost (cu_loop (S fuel) flg ne nf con i s (@cons (@rowdesc R) (D, Rr, fl, tp, id) rows) (y0 :: y))).
  { intros K Ktuple Ktan Hwf' Hstep.
    rewrite !Hstep. rewrite (Ktuple s x0), (Ktuple s y0). cbv beta iota.
    destruct (cu_loop_ok fuel flg ne nf con (i + 1)%Z 0 rows x Hwf') as [Ax _]; [lia|].
    destruct (cu_loop_ok fuel flg ne nf con (i + 1)%Z 0 rows y Hwf') as [Ay _]; [lia|].
    rewrite !cu_cost_res_cons.
    rewrite (cu_loop_acc fuel flg ne nf con (i + 1)%Z (s + r_cost (K 0 x0))), (cu_loop_acc fuel flg ne nf con (i + 1)%Z (s + r_cost (K 0 y0))).
    rewrite cu_force_res_cons by (apply shift_none_not; exact Ax). rewrite cu_force_shift.
    rewrite !cu_cost_shift by assumption.
    unfold vsub. cbn [map2 dotl]. fold (vsub y x).
    pose proof (IH flg ne nf con (i + 1)%Z 0 rows x y Hwf' HD' ltac:(lia) ltac:(lia)) as IH'.
    pose proof (Ktan x0 y0). lra. }
  destruct (i <? ne)%Z eqn:E1.
  { apply (Scalar (fun s0 t => row_eq s0 D t)); [intros; apply row_eq_tuple | intros; apply row_eq_tangent; exact HD0 | exact Hwf |].
    intros J. destruct J; cbn [cu_loop]; [reflexivity|]. rewrite E1. reflexivity. }
  destruct (i <? ne + nf)%Z eqn:E2.
  { destruct Hwf as [[Hdr [HR Hfl]] Hwf].
    apply (Scalar (fun s0 t => row_fric s0 D Rr fl t)); [intros; apply row_fric_tuple | intros; apply row_fric_tangent; assumption | exact Hwf |].
    intros J. destruct J; cbn [cu_loop]; [reflexivity|]. rewrite E1, E2. reflexivity. }
  destruct (negb (tp =? CT_ELLIPTIC)%Z) eqn:E3.
  { apply (Scalar (fun s0 t => row_uni s0 D t)); [intros; apply row_uni_tuple | intros; apply row_uni_tangent; exact HD0 | exact Hwf |].
    intros J. destruct J; cbn [cu_loop]; [reflexivity|]. rewrite E1, E2, E3. reflexivity. }
  clear Scalar.
  destruct Hwf as [Hid Hwf].
  destruct (nth_error con (Z.to_nat id)) as [[[dim mu] fr]|] eqn:E5; [|contradiction].
  cbv zeta in Hwf. destruct Hwf as [Hdim [Hn [Hmu [Hfr [Hrel Hwf]]]]].
  remember (Z.to_nat dim) as n eqn:En.
  destruct n as [|m]; [exfalso; clear - En Hdim; lia|].
  simpl length in Hn. replace (S m - 1)%nat with m in Hfr, Hrel by (clear; lia).
  set (rows0 := @cons (@rowdesc R) (D, Rr, fl, tp, id) rows) in *.
  set (Dt := map rD (firstn m rows)) in *.
  set (Rst := skipn (S m) rows0) in *.
  assert (HlD : length Dt = m) by (unfold Dt; rewrite map_length, firstn_length; clear - Hn; lia).
  assert (Step : forall J : list R, length J = S (length rows) ->
            cu_loop (S fuel) flg ne nf con i s rows0 J =
            res_app (e_force (block_ell flg 0 mu fr (D :: Dt) (firstn (S m) J)))
                    (repeat (e_state (block_ell flg 0 mu fr (D :: Dt) (firstn (S m) J))) (S m))
                    (snd (block_ell flg 0 mu fr (D :: Dt) (firstn (S m) J)))
                    (shift (s + e_cost (block_ell flg 0 mu fr (D :: Dt) (firstn (S m) J)))
                           (cu_loop fuel flg ne nf con (i + dim)%Z 0 Rst (skipn (S m) J)))).
  { intros J HJ. unfold rows0. rewrite (cu_loop_ell_step fuel flg ne nf con i s D Rr fl tp id rows dim mu fr m J) by (auto; lia).
    reflexivity. }
  assert (HRst : forall J : list R, length J = S (length rows) -> length (skipn (S m) J) = length Rst).
  { intros J HJ. unfold Rst, rows0. rewrite !skipn_length, HJ. reflexivity. }
  destruct (cu_loop_ok fuel flg ne nf con (i + dim)%Z 0 Rst (skipn (S m) (x0 :: x)) Hwf (HRst (x0 :: x) Hx)) as [Ax _].
  destruct (cu_loop_ok fuel flg ne nf con (i + dim)%Z 0 Rst (skipn (S m) (y0 :: y)) Hwf (HRst (y0 :: y) Hy)) as [Ay _].
  rewrite (Step (x0 :: x) Hx), (Step (y0 :: y) Hy).
  rewrite !cu_cost_res_app, !cu_cost_shift by assumption.
  rewrite cu_force_res_app by (apply shift_none_not; exact Ax). rewrite cu_force_shift.
  assert (Hfx : length (firstn m x) = m) by (rewrite firstn_length; clear - Hn Hx; lia).
  assert (Hfy : length (firstn m y) = m) by (rewrite firstn_length; clear - Hn Hy; lia).
  assert (HlenB : length (e_force (block_ell flg 0 mu fr (D :: Dt) (firstn (S m) (x0 :: x)))) = S m).
  { rewrite e_force_length; cbn [firstn length]; rewrite ?HlD, ?Hfx; try reflexivity. clear - Hfr. lia. }
  rewrite <- (firstn_skipn (S m) (vsub (y0 :: y) (x0 :: x))).
  rewrite dotl_app by (rewrite HlenB, firstn_length, vsub_length; simpl length; clear - Hn Hx Hy; lia).
  rewrite vsub_firstn, vsub_skipn by (simpl; lia).
  pose proof (IH flg ne nf con (i + dim)%Z 0 Rst (skipn (S m) (x0 :: x)) (skipn (S m) (y0 :: y)) Hwf
                 (Forall_skipn _ _ _ HD) (HRst (x0 :: x) Hx) (HRst (y0 :: y) Hy)) as IH'.
  cbn [firstn] in *.
  pose proof (ell_tangent flg mu fr D Dt x0 (firstn m x) y0 (firstn m y) Hmu HD0) as Hb.
  rewrite HlD, Hfx, Hfy in Hb. specialize (Hb eq_refl eq_refl Hfr Hrel).
  lra.
Qed.

Lemma lincomb_length lam (a b : list R) : length (lincomb lam a b) = Nat.min (length a) (length b).
Proof. unfold lincomb. apply map2_length. Qed.

Lemma dotl_lincomb_zero (lam : R) : forall F a b : list R,
  lam * dotl F (vsub a (lincomb lam a b)) + (1 - lam) * dotl F (vsub b (lincomb lam a b)) = 0.
Proof.
  unfold vsub, lincomb. induction F as [|f F IH]; intros a b; [simpl; lra|].
  destruct a as [|x a], b as [|y b]; try (simpl; lra).
  cbn [map2 dotl].
  replace (lam * (f * (x - (lam * x + (1 - lam) * y)) + dotl F (map2 Rminus a (map2 (fun x1 y1 : R => lam * x1 + (1 - lam) * y1) a b))) +
           (1 - lam) * (f * (y - (lam * x + (1 - lam) * y)) + dotl F (map2 Rminus b (map2 (fun x1 y1 : R => lam * x1 + (1 - lam) * y1) a b))))
    with (lam * dotl F (map2 Rminus a (map2 (fun x1 y1 : R => lam * x1 + (1 - lam) * y1) a b)) +
          (1 - lam) * dotl F (map2 Rminus b (map2 (fun x1 y1 : R => lam * x1 + (1 - lam) * y1) a b))) by ring.
  apply IH.
Qed.

(* the total constraint cost is a convex function of the residual vector, and lies above its tangent planes *)
Theorem cu_tangent : forall flgH ne nf (con : list (@contact R)) (rows : list (@rowdesc R)) (x y : list R),
  cu_wf (length rows) ne nf con 0 rows -> D_nonneg rows -> length x = length rows -> length y = length rows ->
  cu_cost (constraint_update flgH ne nf con rows x) -
  dotl (cu_force (constraint_update flgH ne nf con rows x)) (vsub y x) <=
  cu_cost (constraint_update flgH ne nf con rows y).
Proof. intros. unfold constraint_update. apply cu_loop_tangent; assumption. Qed.

Theorem cu_convex : forall flgH ne nf (con : list (@contact R)) (rows : list (@rowdesc R)) (a b : list R) (lam : R),
  cu_wf (length rows) ne nf con 0 rows -> D_nonneg rows -> length a = length rows -> length b = length rows ->
  0 <= lam <= 1 ->
  cu_cost (constraint_update flgH ne nf con rows (lincomb lam a b)) <=
  lam * cu_cost (constraint_update flgH ne nf con rows a) + (1 - lam) * cu_cost (constraint_update flgH ne nf con rows b).
Proof.
  intros flgH ne nf con rows a b lam Hwf HD Ha Hb [H0 H1].
  set (z := lincomb lam a b).
  assert (Hz : length z = length rows) by (unfold z; rewrite lincomb_length, Ha, Hb; apply Nat.min_id).
  pose proof (cu_tangent flgH ne nf con rows z a Hwf HD Hz Ha) as Ta.
  pose proof (cu_tangent flgH ne nf con rows z b Hwf HD Hz Hb) as Tb.
  pose proof (dotl_lincomb_zero lam (cu_force (constraint_update flgH ne nf con rows z)) a b) as Z. fold z in Z.
  assert (A : lam * (cu_cost (constraint_update flgH ne nf con rows z) -
                     dotl (cu_force (constraint_update flgH ne nf con rows z)) (vsub a z)) <=
              lam * cu_cost (constraint_update flgH ne nf con rows a)) by (apply Rmult_le_compat_l; lra).
  assert (B : (1 - lam) * (cu_cost (constraint_update flgH ne nf con rows z) -
                     dotl (cu_force (constraint_update flgH ne nf con rows z)) (vsub b z)) <=
              (1 - lam) * cu_cost (constraint_update flgH ne nf con rows b)) by (apply Rmult_le_compat_l; lra).
  lra.
Qed.


(* ------------------------------------------------------------------ per-row projections of the dual solvers *)
Lemma mju_clip_bounds (x lo hi : R) : lo <= hi -> lo <= mju_clip x lo hi <= hi.
Proof.
  intros H. unfold mju_clip. num_R. unfold Rltb.
  destruct (Rlt_dec x lo); [lra|]. destruct (Rlt_dec hi x); lra.
Qed.

Lemma noslip_fric_bound (force res arinv fl : R) : 0 <= fl -> Rabs (noslip_fric_update force res arinv fl) <= fl.
Proof.
  intros H. unfold noslip_fric_update. cbv zeta. num_R. unfold Rltb.
  destruct (Rlt_dec (force - res * arinv) (- fl)); [rewrite Rabs_Ropp, Rabs_pos_eq; lra|].
  destruct (Rlt_dec fl (force - res * arinv)); [rewrite Rabs_pos_eq; lra|].
  apply Rabs_le. lra.
Qed.

Lemma noslip_fric_is_clip (force res arinv fl : R) : 0 <= fl ->
  noslip_fric_update force res arinv fl = mju_clip (force - res * arinv) (- fl) fl.
Proof. intros H. unfold noslip_fric_update, mju_clip. cbv zeta. num_R. reflexivity. Qed.

Lemma noslip_pyr_pair_adm (mid y : R) : 0 <= mid ->
  0 <= fst (noslip_pyr_pair mid y) /\ 0 <= snd (noslip_pyr_pair mid y) /\
  fst (noslip_pyr_pair mid y) + snd (noslip_pyr_pair mid y) = 2 * mid.
Proof.
  intros H. unfold noslip_pyr_pair, ntwo. num_R. unfold Rltb.
  destruct (Rlt_dec y (- mid)); [simpl; lra|]. destruct (Rlt_dec mid y); simpl; lra.
Qed.

Lemma noslip_fric_spec (force res arinv fl : R) : 0 <= fl ->
  Rabs (noslip_fric_update force res arinv fl) <= fl /\
  noslip_fric_update force res arinv fl = mju_clip (force - res * arinv) (- fl) fl.
Proof. intros. split; [apply noslip_fric_bound | apply noslip_fric_is_clip]; assumption. Qed.


(* ------------------------------------------------------------------ efc_address bookkeeping of contacts *)
Lemma contact_addresses_length cs : forall start, length (contact_addresses start cs) = length cs.
Proof. induction cs as [|[ex n] cs IH]; intros start; simpl; [reflexivity|]. destruct (ex =? 0)%Z; simpl; rewrite IH; reflexivity. Qed.

Lemma contact_addresses_spec : forall cs start k, (k < length cs)%nat ->
  (fst (nth k cs (1%Z, 0%Z)) <> 0%Z -> nth k (contact_addresses start cs) (-1)%Z = (-1)%Z) /\
  (fst (nth k cs (1%Z, 0%Z)) = 0%Z ->
     nth k (contact_addresses start cs) (-1)%Z = (start + included_rows (firstn k cs))%Z).
Proof.
  induction cs as [|[ex n] cs IH]; intros start k Hk; [simpl in Hk; lia|].
  destruct k as [|k].
  - cbn [nth fst firstn included_rows contact_addresses]. destruct (ex =? 0)%Z eqn:E.
    + apply Z.eqb_eq in E. split; [intros; congruence | intros; cbn [nth]; lia].
    + apply Z.eqb_neq in E. split; [intros; reflexivity | intros; congruence].
  - simpl in Hk. cbn [nth firstn included_rows contact_addresses].
    destruct (ex =? 0)%Z eqn:E; cbn [nth].
    + destruct (IH (start + n)%Z k ltac:(lia)) as [A B]. split; [exact A|]. intros H0. rewrite (B H0). lia.
    + destruct (IH start k ltac:(lia)) as [A B]. split; [exact A|]. intros H0. rewrite (B H0). lia.
Qed.

Lemma included_rows_nonneg cs : (forall c, In c cs -> (0 <= snd c)%Z) -> (0 <= included_rows cs)%Z.
Proof.
  induction cs as [|[ex n] cs IH]; intros H; simpl; [lia|].
  assert (0 <= n)%Z by (apply (H (ex, n)); left; reflexivity).
  assert (0 <= included_rows cs)%Z by (apply IH; intros c Hc; apply H; right; exact Hc).
  destruct (ex =? 0)%Z; lia.
Qed.

(* a contact has a non-negative address exactly when it is included, and then the address is the first of its own
   rows: start + the rows of the included contacts before it *)
Lemma contact_addresses_sign cs start k : (0 <= start)%Z -> (forall c, In c cs -> (0 <= snd c)%Z) -> (k < length cs)%nat ->
  ((0 <= nth k (contact_addresses start cs) (-1))%Z <-> fst (nth k cs (1%Z, 0%Z)) = 0%Z).
Proof.
  intros Hs Hn Hk. destruct (contact_addresses_spec cs start k Hk) as [A B].
  destruct (Z.eq_dec (fst (nth k cs (1%Z, 0%Z))) 0) as [E|E].
  - rewrite (B E). split; [intros; exact E|]. intros _.
    assert (0 <= included_rows (firstn k cs))%Z.
    { apply included_rows_nonneg. intros c Hc. apply Hn. rewrite <- (firstn_skipn k cs). apply in_or_app. left. exact Hc. }
    lia.
  - rewrite (A E). split; [lia | congruence].
Qed.

Lemma contact_force_rowless (pyramidal : bool) (efc_force fr : list R) (adr dim : Z) (adhesion : R) :
  (adr < 0)%Z -> contact_force_gated pyramidal efc_force adr fr dim adhesion = repeat 0 6.
Proof. intros H. unfold contact_force_gated. replace (adr <? 0)%Z with true by (symmetry; apply Z.ltb_lt; exact H). reflexivity. Qed.

Lemma contact_addresses_full (cs : list (Z * Z)) (start : Z) (k : nat) :
  (0 <= start)%Z -> (forall c, In c cs -> (0 <= snd c)%Z) -> (k < length cs)%nat ->
  ((0 <= nth k (contact_addresses start cs) (-1))%Z <-> fst (nth k cs (1%Z, 0%Z)) = 0%Z) /\
  (fst (nth k cs (1%Z, 0%Z)) <> 0%Z -> nth k (contact_addresses start cs) (-1)%Z = (-1)%Z) /\
  (fst (nth k cs (1%Z, 0%Z)) = 0%Z ->
     nth k (contact_addresses start cs) (-1)%Z = (start + included_rows (firstn k cs))%Z).
Proof.
  intros Hs Hn Hk. split; [apply contact_addresses_sign; assumption|]. apply contact_addresses_spec. exact Hk.
Qed.
