(* Proofs about Model/Chol.v at R: mju_cholSolve solves (L L') x = b. *)
From Coq Require Import ZArith List Bool Arith Lia PrimFloat Reals Lra.
From MJV Require Import Lib.Num Lib.NumR Model.Sparse Model.Chol Proof.LinAlgBase.
Import ListNotations.
Open Scope R_scope.

(* the lower-triangular matrix denoted by the storage L: the strict upper triangle of the C array
   is never read, whatever it contains *)
Definition low (L : list (list R)) (i j : nat) : R := if Nat.leb j i then dget L i j else 0.
(* (low L) (low L)' *)
Definition LLt (n : nat) (L : list (list R)) (i j : nat) : R := bsum n (fun k => low L i k * low L j k).

Lemma nth_firstn_lt : forall (A : Type) (l : list A) (n j : nat) (d : A),
  (j < n)%nat -> nth j (firstn n l) d = nth j l d.
Proof.
  intros A l; induction l as [|x r IH]; intros n j d Hj.
  - rewrite firstn_nil. reflexivity.
  - destruct n as [|n]; [lia|]. destruct j as [|j]; simpl; auto. apply IH; lia.
Qed.

(* ------------------------------------------------------------------ forward substitution *)
Lemma chol_fwd_S : forall (n : nat) (L : list (list R)) (b : list R),
  chol_fwd (S n) L b =
  chol_fwd n L b ++ [(nth n b 0 - dot (firstn n (nth n L [])) (chol_fwd n L b)) / dget L n n].
Proof. intros n L b. unfold chol_fwd. rewrite fold_left_seq_S. num_R. reflexivity. Qed.

Lemma chol_fwd_spec : forall (n : nat) (L : list (list R)) (b : list R),
  (forall i : nat, (i < n)%nat -> dget L i i <> 0) ->
  length (chol_fwd n L b) = n /\
  forall i : nat, (i < n)%nat -> bsum (S i) (fun j => dget L i j * nth j (chol_fwd n L b) 0) = nth i b 0.
Proof.
  intros n L b; induction n as [|n IH]; intros Hd.
  - split; [reflexivity|intros; lia].
  - destruct IH as [Hl Hs]; [intros; apply Hd; lia|].
    rewrite chol_fwd_S. set (y := chol_fwd n L b) in *.
    set (new := (nth n b 0 - dot (firstn n (nth n L [])) y) / dget L n n).
    split; [rewrite app_length, Hl; simpl; lia|].
    intros i Hi. destruct (Nat.eq_dec i n) as [->|Hne].
    + simpl. rewrite app_nth2 by lia. rewrite Hl, Nat.sub_diag. simpl.
      rewrite (bsum_ext n (fun j => dget L n j * nth j (y ++ [new]) 0) (fun j => dget L n j * nth j y 0)).
      2:{ intros j Hj. rewrite app_nth1 by lia. reflexivity. }
      assert (Hdot : dot (firstn n (nth n L [])) y = bsum n (fun j => dget L n j * nth j y 0)).
      { rewrite dot_spec, Hl. apply bsum_ext. intros j Hj. rewrite nth_firstn_lt by auto. reflexivity. }
      unfold new. rewrite Hdot. field. apply Hd; lia.
    + rewrite <- (Hs i) by lia. apply bsum_ext. intros j Hj. rewrite app_nth1 by lia. reflexivity.
Qed.

(* ------------------------------------------------------------------ backward substitution *)
Lemma fold_sub_seq : forall (m k : nat) (s0 : R) (f : nat -> R),
  fold_left (fun (s : R) (j : nat) => s - f j) (seq k m) s0 = s0 - bsum m (fun t => f (k + t)%nat).
Proof.
  induction m as [|m IH]; intros k s0 f.
  - simpl. lra.
  - rewrite bsum_shift. simpl seq. simpl fold_left. rewrite IH.
    rewrite Nat.add_0_r.
    rewrite (bsum_ext m (fun t => f (S k + t)%nat) (fun i => f (k + S i)%nat)).
    2:{ intros t _. f_equal. lia. }
    lra.
Qed.

Definition bwd_from (n : nat) (L : list (list R)) (y : list R) (a m : nat) : list R :=
  fold_right (fun (i : nat) (xt : list R) => chol_bwd_elem n L (nth i y nzero) i xt :: xt) [] (seq a m).

Lemma bwd_from_spec : forall (n : nat) (L : list (list R)) (y : list R),
  (forall i : nat, (i < n)%nat -> dget L i i <> 0) ->
  forall (m a : nat), (a + m = n)%nat ->
  length (bwd_from n L y a m) = m /\
  forall i : nat, (a <= i < n)%nat ->
    bsum (n - i) (fun t => dget L (i + t) i * nth (i + t - a) (bwd_from n L y a m) 0) = nth i y 0.
Proof.
  intros n L y Hd. induction m as [|m IH]; intros a Ha.
  - split; [reflexivity|intros; lia].
  - destruct (IH (S a)) as [Hl Hs]; [lia|].
    unfold bwd_from in *. simpl seq. simpl fold_right.
    set (xt := fold_right _ [] (seq (S a) m)) in *.
    split; [simpl; rewrite Hl; reflexivity|].
    intros i Hi. destruct (Nat.eq_dec i a) as [->|Hne].
    + replace (n - a)%nat with (S (n - (a + 1))) by lia. rewrite bsum_shift.
      rewrite Nat.add_0_r, Nat.sub_diag. simpl nth at 1.
      unfold chol_bwd_elem. num_R.
      rewrite (fold_sub_seq (n - (a + 1)) (a + 1) (nth a y 0) (fun j => dget L j a * nth (j - (a + 1)) xt 0)).
      rewrite (bsum_ext (n - (a + 1))
                 (fun i0 => dget L (a + S i0) a * nth (a + S i0 - a) (_ :: xt) 0)
                 (fun t => dget L (a + 1 + t) a * nth (a + 1 + t - (a + 1)) xt 0)).
      2:{ intros t _. replace (a + S t - a)%nat with (S t) by lia.
          replace (a + 1 + t - (a + 1))%nat with t by lia. replace (a + S t)%nat with (a + 1 + t)%nat by lia.
          reflexivity. }
      field. apply Hd; lia.
    + rewrite <- (Hs i) by lia. apply bsum_ext. intros t _.
      replace (i + t - a)%nat with (S (i + t - S a)) by lia. reflexivity.
Qed.

(* ------------------------------------------------------------------ mju_cholSolve *)
Lemma low_diag : forall (L : list (list R)) (i : nat), low L i i = dget L i i.
Proof. intros L i. unfold low. rewrite Nat.leb_refl. reflexivity. Qed.

Lemma cholSolve_spec : forall (n : nat) (L : list (list R)) (b : list R),
  (forall i : nat, (i < n)%nat -> dget L i i <> 0) ->
  length (cholSolve n L b) = n /\
  forall i : nat, (i < n)%nat ->
    bsum n (fun j => LLt n L i j * nth j (cholSolve n L b) 0) = nth i b 0.
Proof.
  intros n L b Hd.
  destruct (chol_fwd_spec n L b Hd) as [Hly Hy].
  destruct (bwd_from_spec n L (chol_fwd n L b) Hd n 0%nat) as [Hlx Hx]; [lia|].
  unfold cholSolve, chol_bwd. fold (bwd_from n L (chol_fwd n L b) 0 n).
  set (y := chol_fwd n L b) in *. set (x := bwd_from n L y 0 n) in *.
  split; [exact Hlx|]. intros i Hi. unfold LLt.
  rewrite (bsum_ext n (fun j => bsum n (fun k => low L i k * low L j k) * nth j x 0)
                      (fun j => bsum n (fun k => low L i k * (low L j k * nth j x 0)))).
  2:{ intros j _. rewrite <- bsum_scal_r. apply bsum_ext. intros k _. ring. }
  rewrite bsum_swap.
  rewrite (bsum_ext n (fun k => bsum n (fun j => low L i k * (low L j k * nth j x 0)))
                      (fun k => low L i k * nth k y 0)).
  - rewrite (bsum_split (S i) n) by lia.
    rewrite (bsum_zero (n - S i)).
    2:{ intros t _. unfold low. destruct (Nat.leb_spec (S i + t) i); [lia|]. ring. }
    rewrite <- (Hy i Hi). rewrite Rplus_0_r. apply bsum_ext. intros k Hk.
    unfold low. destruct (Nat.leb_spec k i); [reflexivity|lia].
  - intros k Hk. rewrite bsum_scal. f_equal.
    rewrite (bsum_split k n) by lia.
    rewrite (bsum_zero k).
    2:{ intros j Hj. unfold low. destruct (Nat.leb_spec k j); [lia|]. ring. }
    rewrite Rplus_0_l. rewrite <- (Hx k) by lia. apply bsum_ext. intros t _.
    unfold low. destruct (Nat.leb_spec k (k + t)); [|lia]. rewrite Nat.sub_0_r. reflexivity.
Qed.
