(* Proofs about Model/Sparse.v at R: every sparse routine equals its dense definition. *)
From Coq Require Import ZArith List Bool Arith Lia PrimFloat Reals Lra Permutation Sorted.
From MJV Require Import Lib.Num Lib.NumR Model.Sparse Proof.LinAlgBase.
Import ListNotations.
Open Scope R_scope.

Notation entR := (ent R).
Notation csrR := (csr R).

Lemma nth_map_seq0 : forall (A : Type) (f : nat -> A) (n i : nat) (d : A),
  (i < n)%nat -> nth i (map f (seq 0 n)) d = f i.
Proof. intros A f n i d Hi. rewrite nth_map_seq by auto. reflexivity. Qed.

(* well-formed pattern: in every row the column indices are distinct and below nc.
   Nothing is asked of the layout (gaps, order of the rows in memory, even sharing). *)
Definition wf_row (nc : nat) (es : list entR) : Prop :=
  NoDup (cols es) /\ Forall (fun c : nat => (c < nc)%nat) (cols es).
Definition wf_pattern (nr nc : nat) (S : csrR) : Prop :=
  forall r : nat, (r < nr)%nat -> wf_row nc (row S r).

(* ------------------------------------------------------------------ sparse2dense, row level *)
Lemma s2d_fold_length : forall (es : list entR) (rw : list R),
  length (fold_left (fun (rw0 : list R) (e : entR) => upd (fst e) (snd e) rw0) es rw) = length rw.
Proof. induction es as [|e r IH]; intros rw; simpl; auto. rewrite IH, upd_length; auto. Qed.

Lemma s2d_row_length : forall (nc : nat) (es : list entR), length (s2d_row nc es) = nc.
Proof. intros nc es. unfold s2d_row. rewrite s2d_fold_length, repeat_length; auto. Qed.

Lemma s2d_fold_nth : forall (es : list entR) (rw : list R) (c : nat),
  NoDup (cols es) -> Forall (fun c0 : nat => (c0 < length rw)%nat) (cols es) ->
  nth c (fold_left (fun (rw0 : list R) (e : entR) => upd (fst e) (snd e) rw0) es rw) 0
  = if in_dec Nat.eq_dec c (cols es) then lk c es else nth c rw 0.
Proof.
  induction es as [|[c0 x0] r IH]; intros rw c Hnd Hr; simpl.
  - reflexivity.
  - simpl in Hnd, Hr. inversion Hnd as [|a l Hna Hnd']; subst. inversion Hr as [|a l Hc0 Hr']; subst.
    rewrite IH; auto.
    2:{ rewrite upd_length; auto. }
    destruct (in_dec Nat.eq_dec c (cols r)) as [Hi|Hi].
    + destruct (Nat.eqb_spec c0 c) as [->|Hne]; [tauto|].
      destruct (Nat.eq_dec c0 c); [congruence|]. reflexivity.
    + destruct (Nat.eq_dec c0 c) as [->|Hne].
      * rewrite Nat.eqb_refl. apply nth_upd_eq; auto.
      * destruct (Nat.eqb_spec c0 c); [congruence|]. apply nth_upd_neq; auto.
Qed.

Lemma nth_repeat0 : forall (n c : nat), nth c (repeat (0:R) n) 0 = 0.
Proof. induction n as [|n IH]; intros [|c]; simpl; auto. Qed.

Lemma s2d_row_nth : forall (nc : nat) (es : list entR) (c : nat),
  wf_row nc es -> nth c (s2d_row nc es) 0 = lk c es.
Proof.
  intros nc es c [Hnd Hr]. unfold s2d_row. num_R. rewrite s2d_fold_nth; auto.
  - destruct (in_dec Nat.eq_dec c (cols es)) as [Hi|Hi]; auto.
    rewrite nth_repeat0. symmetry; apply lk_notin; auto.
  - rewrite repeat_length; auto.
Qed.

Lemma dget_s2d : forall (nr nc : nat) (S : csrR) (r c : nat),
  wf_pattern nr nc S -> (r < nr)%nat -> dget (sparse2dense nr nc S) r c = lk c (row S r).
Proof.
  intros nr nc S r c Hwf Hr. unfold dget, sparse2dense. num_R.
  rewrite (nth_map_seq0 _ (fun r0 : nat => s2d_row nc (row S r0)) nr r []) by auto. simpl.
  apply s2d_row_nth; auto.
Qed.

(* ------------------------------------------------------------------ mju_mulMatVecSparse *)
Lemma mulMatVecSparse_dense : forall (nr nc : nat) (S : csrR) (v : list R),
  wf_pattern nr nc S -> length v = nc ->
  mulMatVecSparse nr S v = dmulMatVec (sparse2dense nr nc S) v.
Proof.
  intros nr nc S v Hwf Hv. unfold mulMatVecSparse, dmulMatVec, sparse2dense.
  rewrite map_map. apply map_ext_in. intros r Hr. apply in_seq in Hr.
  rewrite dotSparse_spec, ndot_spec, Hv.
  destruct (Hwf r) as [Hnd Hrg]; [lia|].
  rewrite (sdot_lk nc) by auto.
  apply bsum_ext. intros c _. rewrite s2d_row_nth by (split; auto). reflexivity.
Qed.

(* ------------------------------------------------------------------ mju_dense2sparse and the round trip *)
Lemma d2s_row_cols : forall (rw : list R) (k c : nat),
  In c (cols (d2s_row k rw)) -> (k <= c < k + length rw)%nat.
Proof.
  induction rw as [|x r IH]; intros k c Hin; simpl in *; [tauto|].
  destruct (nz x); simpl in Hin.
  - destruct Hin as [<-|Hin]; [lia|]. apply IH in Hin. lia.
  - apply IH in Hin. lia.
Qed.

Lemma d2s_row_nodup : forall (rw : list R) (k : nat), NoDup (cols (d2s_row k rw)).
Proof.
  induction rw as [|x r IH]; intros k; simpl; [constructor|].
  destruct (nz x); simpl; auto.
  constructor; auto. intros Hin. apply d2s_row_cols in Hin. lia.
Qed.

Lemma d2s_row_wf : forall (rw : list R), wf_row (length rw) (d2s_row 0 rw).
Proof.
  intros rw; split; [apply d2s_row_nodup|].
  apply Forall_forall. intros c Hin. apply d2s_row_cols in Hin. lia.
Qed.

Lemma nz_false : forall x : R, nz x = false -> x = 0.
Proof. intros x. unfold nz. num_R. destruct (Reqb x 0) eqn:E; simpl; [|discriminate]. intros _. apply Reqb_true; auto. Qed.

Lemma lk_d2s_row : forall (rw : list R) (k c : nat),
  lk c (d2s_row k rw) = if Nat.leb k c then nth (c - k) rw 0 else 0.
Proof.
  induction rw as [|x r IH]; intros k c; simpl.
  - destruct (Nat.leb k c); destruct (c - k)%nat; reflexivity.
  - destruct (nz x) eqn:Ez; simpl.
    + destruct (Nat.eqb_spec k c) as [->|Hne].
      * rewrite Nat.leb_refl, Nat.sub_diag. reflexivity.
      * rewrite IH. destruct (Nat.leb_spec k c); destruct (Nat.leb_spec (S k) c); try lia; auto.
        replace (c - k)%nat with (S (c - S k)) by lia. reflexivity.
    + apply nz_false in Ez. subst x. rewrite IH.
      destruct (Nat.leb_spec k c); destruct (Nat.leb_spec (S k) c); try lia; auto.
      * replace (c - k)%nat with (S (c - S k)) by lia. reflexivity.
      * replace (c - k)%nat with 0%nat by lia. reflexivity.
Qed.

Lemma s2d_d2s_row : forall (rw : list R), s2d_row (length rw) (d2s_row 0 rw) = rw.
Proof.
  intros rw. apply (nth_ext_len R 0).
  - apply s2d_row_length.
  - intros c Hc. rewrite s2d_row_nth by apply d2s_row_wf.
    rewrite lk_d2s_row. simpl. rewrite Nat.sub_0_r. reflexivity.
Qed.

Lemma row_dense2sparse : forall (M : list (list R)) (r : nat),
  (r < length M)%nat -> row (dense2sparse M) r = d2s_row 0 (nth r M []).
Proof.
  intros M r Hr. unfold row, dense2sparse; simpl.
  pose proof (slice_concat entR (map (d2s_row 0) M) r [] ) as H. simpl in H.
  rewrite H by (rewrite map_length; auto).
  rewrite (nth_indep _ [] (d2s_row 0 [])) by (rewrite map_length; auto).
  apply (map_nth (d2s_row 0) M [] r).
Qed.

Lemma sparse_roundtrip : forall (nc : nat) (M : list (list R)),
  Forall (fun rw : list R => length rw = nc) M ->
  sparse2dense (length M) nc (dense2sparse M) = M /\ wf_pattern (length M) nc (dense2sparse M).
Proof.
  intros nc M HM. split.
  - apply (nth_ext_len (list R) []).
    + unfold sparse2dense. rewrite map_length, seq_length; auto.
    + unfold sparse2dense. rewrite map_length, seq_length. intros r Hr.
      rewrite (nth_map_seq0 _ (fun r0 : nat => s2d_row nc (row (dense2sparse M) r0)) (length M) r []) by auto.
      simpl. rewrite row_dense2sparse by auto.
      assert (Hl : length (nth r M []) = nc).
      { rewrite Forall_forall in HM. apply HM. apply nth_In; auto. }
      rewrite <- Hl. apply s2d_d2s_row.
  - intros r Hr. rewrite row_dense2sparse by auto.
    assert (Hl : length (nth r M []) = nc).
    { rewrite Forall_forall in HM. apply HM. apply nth_In; auto. }
    rewrite <- Hl. apply d2s_row_wf.
Qed.

(* the compressed layout produced by dense2sparse: rowadr are the prefix sums of rownnz *)
Lemma dense2sparse_layout : forall (M : list (list R)),
  c_adr (dense2sparse M) = psums 0 (c_nnz (dense2sparse M)) /\
  length (c_ent (dense2sparse M)) = sumn (c_nnz (dense2sparse M)) /\
  Forall (fun e : entR => snd e <> 0) (c_ent (dense2sparse M)).
Proof.
  intros M. unfold dense2sparse; simpl. split; [reflexivity|]. split.
  - induction M as [|rw M IH]; simpl; auto. rewrite app_length, IH. reflexivity.
  - apply Forall_forall. intros e He. apply in_concat in He. destruct He as [l [Hl He]].
    apply in_map_iff in Hl. destruct Hl as [rw [<- _]].
    clear -He. revert He. generalize 0%nat as k. induction rw as [|x r IH]; intros k He; simpl in He; [tauto|].
    destruct (nz x) eqn:Ez.
    + destruct He as [<-|He]; [|eapply IH; eauto]. simpl. intros ->.
      unfold nz in Ez. num_R. assert (Reqb 0 0 = true) by (apply Reqb_true; auto). rewrite H in Ez. discriminate.
    + eapply IH; eauto.
Qed.

(* ------------------------------------------------------------------ mju_mulMatTVecSparse *)
Lemma addAt_length : forall (c : nat) (x : R) (res : list R), length (addAt c x res) = length res.
Proof. intros; unfold addAt; apply upd_length. Qed.

Lemma addAt_nth : forall (c j : nat) (x : R) (res : list R), (c < length res)%nat ->
  nth j (addAt c x res) 0 = if Nat.eqb c j then nth j res 0 + x else nth j res 0.
Proof.
  intros c j x res Hc. unfold addAt. num_R. rewrite nth_upd by auto.
  destruct (Nat.eqb_spec c j) as [->|]; reflexivity.
Qed.

Lemma scatter_add_fold : forall (es : list entR) (scl : R) (res : list R) (c : nat),
  NoDup (cols es) -> Forall (fun c0 : nat => (c0 < length res)%nat) (cols es) ->
  let res' := fold_left (fun (res0 : list R) (e : entR) => addAt (fst e) (snd e * scl) res0) es res in
  length res' = length res /\ nth c res' 0 = nth c res 0 + lk c es * scl.
Proof.
  induction es as [|[c0 x0] r IH]; intros scl res c Hnd Hr; simpl.
  - split; [reflexivity|lra].
  - simpl in Hnd, Hr. inversion Hnd as [|a l Hna Hnd']; subst. inversion Hr as [|a l Hc0 Hr']; subst.
    destruct (IH scl (addAt c0 (x0 * scl) res) c Hnd') as [Hl Hn].
    { rewrite addAt_length; auto. }
    simpl in Hl, Hn. rewrite Hl, Hn, addAt_length. split; [reflexivity|].
    num_R. rewrite addAt_nth by auto.
    destruct (Nat.eqb_spec c0 c) as [->|Hne]; [|lra].
    rewrite (lk_notin c r) by auto. lra.
Qed.

Lemma mulMatTVec_fold : forall (nc : nat) (S : csrR) (v : list R) (n : nat),
  (forall r : nat, (r < n)%nat -> wf_row nc (row S r)) ->
  let res := fold_left (fun (res0 : list R) (i : nat) =>
                          let scl := nth i v 0 in
                          if nz scl then fold_left (fun (res1 : list R) (e : entR) => addAt (fst e) (snd e * scl) res1) (row S i) res0
                          else res0) (seq 0 n) (repeat 0 nc) in
  length res = nc /\ forall c : nat, nth c res 0 = bsum n (fun r => lk c (row S r) * nth r v 0).
Proof.
  intros nc S v n. induction n as [|n IH]; intros Hwf.
  - simpl. split; [apply repeat_length|]. intros c. apply nth_repeat0.
  - rewrite fold_left_seq_S. cbv zeta in *.
    destruct IH as [Hl Hn]; [intros; apply Hwf; lia|].
    set (res0 := fold_left _ (seq 0 n) (repeat 0 nc)) in *.
    destruct (Hwf n) as [Hnd Hrg]; [lia|].
    destruct (nz (nth n v 0)) eqn:Ez.
    + split.
      * pose proof (scatter_add_fold (row S n) (nth n v 0) res0 0%nat Hnd) as H.
        rewrite Hl in H. destruct (H Hrg) as [H1 _]. exact H1.
      * intros c. pose proof (scatter_add_fold (row S n) (nth n v 0) res0 c Hnd) as H.
        rewrite Hl in H. destruct (H Hrg) as [_ H2]. rewrite H2, Hn. simpl. reflexivity.
    + split; [exact Hl|]. intros c. rewrite Hn. simpl. apply nz_false in Ez. rewrite Ez. lra.
Qed.

Lemma dget_dtranspose : forall (nr nc : nat) (M : list (list R)) (c r : nat),
  (c < nc)%nat -> (r < nr)%nat -> dget (dtranspose nr nc M) c r = dget M r c.
Proof.
  intros nr nc M c r Hc Hr. unfold dtranspose. unfold dget at 1.
  rewrite (nth_map_seq0 _ (fun c0 : nat => map (fun r0 : nat => dget M r0 c0) (seq 0 nr)) nc c []) by auto.
  cbv beta. rewrite (nth_map_seq0 R (fun r0 : nat => dget M r0 c) nr r nzero) by auto. reflexivity.
Qed.

Lemma mulMatTVecSparse_dense : forall (nr nc : nat) (S : csrR) (v : list R),
  wf_pattern nr nc S -> length v = nr ->
  mulMatTVecSparse nr nc S v = dmulMatTVec nr nc (sparse2dense nr nc S) v.
Proof.
  intros nr nc S v Hwf Hv.
  destruct (mulMatTVec_fold nc S v nr Hwf) as [Hl Hn].
  unfold mulMatTVecSparse. num_R. apply (nth_ext_len R 0).
  - rewrite Hl. unfold dmulMatTVec, dmulMatVec, dtranspose. rewrite !map_length, seq_length. reflexivity.
  - rewrite Hl. intros c Hc. rewrite Hn.
    unfold dmulMatTVec, dmulMatVec.
    rewrite (nth_indep _ 0 (ndot [] v)).
    2:{ unfold dtranspose. rewrite !map_length, seq_length; auto. }
    rewrite (map_nth (fun rw : list R => ndot rw v) (dtranspose nr nc (sparse2dense nr nc S)) [] c).
    rewrite ndot_spec, Hv. apply bsum_ext. intros r Hr.
    change (nth r (nth c (dtranspose nr nc (sparse2dense nr nc S)) []) 0) with (dget (dtranspose nr nc (sparse2dense nr nc S)) c r).
    rewrite dget_dtranspose by auto. rewrite (dget_s2d nr nc) by auto. reflexivity.
Qed.

(* ------------------------------------------------------------------ mju_transposeSparse *)
Definition relabel (r : nat) (e : entR) : entR := (r, snd e).
Definition colis (c : nat) (e : entR) : bool := Nat.eqb (fst e) c.

Lemma lk_filter : forall (c : nat) (es : list entR),
  lk c es = match filter (colis c) es with [] => 0 | e :: _ => snd e end.
Proof.
  intros c es; induction es as [|[c' x] r IH]; simpl; auto.
  unfold colis at 1; simpl. destruct (Nat.eqb c' c); simpl; auto.
Qed.

Lemma filter_nodup_le1 : forall (c : nat) (es : list entR),
  NoDup (cols es) -> (length (filter (colis c) es) <= 1)%nat.
Proof.
  intros c es; induction es as [|[c' x] r IH]; intros Hnd; simpl; [lia|].
  inversion Hnd as [|a l Hna Hnd']; subst.
  unfold colis at 1; simpl. destruct (Nat.eqb_spec c' c) as [->|Hne]; [|auto].
  simpl. assert (filter (colis c) r = []) as ->; [|simpl; lia].
  destruct (filter (colis c) r) as [|[c2 y] t] eqn:E; auto.
  exfalso. apply Hna.
  assert (Hin : In (c2, y) (filter (colis c) r)) by (rewrite E; simpl; auto).
  apply filter_In in Hin. destruct Hin as [Hin Hc]. unfold colis in Hc; simpl in Hc.
  apply Nat.eqb_eq in Hc. subst c2. unfold cols. apply in_map_iff. exists (c, y); auto.
Qed.

Definition tblock (S : csrR) (c r : nat) : list entR := map (relabel r) (filter (colis c) (row S r)).

Lemma trow_unfold : forall (nr : nat) (S : csrR) (c : nat), trow nr S c = flat_map (tblock S c) (seq 0 nr).
Proof. intros. reflexivity. Qed.

Lemma tblock_cols : forall (S : csrR) (c r k : nat), In k (cols (tblock S c r)) -> k = r.
Proof.
  intros S c r k Hin. unfold cols, tblock in Hin. rewrite map_map in Hin. simpl in Hin.
  apply in_map_iff in Hin. destruct Hin as [e [<- _]]. reflexivity.
Qed.

Lemma flat_tblock_cols : forall (S : csrR) (c a n k : nat),
  In k (cols (flat_map (tblock S c) (seq a n))) -> (a <= k < a + n)%nat.
Proof.
  intros S c a n; revert a; induction n as [|n IH]; intros a k Hin; simpl in Hin; [tauto|].
  unfold cols in Hin. rewrite map_app in Hin. apply in_app_or in Hin. destruct Hin as [Hin|Hin].
  - apply tblock_cols in Hin. lia.
  - apply IH in Hin. lia.
Qed.

Lemma lk_trow_gen : forall (S : csrR) (c a n r : nat),
  (a <= r < a + n)%nat -> NoDup (cols (row S r)) ->
  lk r (flat_map (tblock S c) (seq a n)) = lk c (row S r).
Proof.
  intros S c a n; revert a; induction n as [|n IH]; intros a r Hr Hnd; [lia|].
  simpl. destruct (Nat.eq_dec a r) as [->|Hne].
  - rewrite (lk_filter c (row S r)). unfold tblock at 1.
    destruct (filter (colis c) (row S r)) as [|e t] eqn:E; simpl.
    + apply lk_notin. intros Hin. apply flat_tblock_cols in Hin. lia.
    + rewrite Nat.eqb_refl. reflexivity.
  - rewrite lk_app_notin.
    + apply IH; auto; lia.
    + intros Hin. apply tblock_cols in Hin. lia.
Qed.

Lemma trow_sorted : forall (Sp : csrR) (c a n : nat),
  (forall r : nat, (a <= r < a + n)%nat -> NoDup (cols (row Sp r))) ->
  StronglySorted lt (cols (flat_map (tblock Sp c) (seq a n))).
Proof.
  intros Sp c a n; revert a; induction n as [|n IH]; intros a Hnd; simpl; [constructor|].
  unfold cols. rewrite map_app.
  assert (Hb : (length (tblock Sp c a) <= 1)%nat).
  { unfold tblock. rewrite map_length. apply filter_nodup_le1. apply Hnd; lia. }
  assert (Hrest : StronglySorted lt (map fst (flat_map (tblock Sp c) (seq (S a) n)))).
  { apply IH. intros r Hr. apply Hnd; lia. }
  destruct (tblock Sp c a) as [|e [|e2 t]] eqn:E; simpl in *; auto; [|lia].
  constructor; auto. apply Forall_forall. intros k Hk.
  assert (Hk' : (S a <= k < S a + n)%nat) by (apply (flat_tblock_cols Sp c); exact Hk).
  assert (fst e = a).
  { apply (tblock_cols Sp c a). rewrite E. simpl. auto. }
  lia.
Qed.

Lemma sorted_lt_nodup : forall l : list nat, StronglySorted lt l -> NoDup l.
Proof.
  induction l as [|x r IH]; intros Hs; [constructor|]. inversion Hs as [|a l Hs' Hf]; subst.
  constructor; auto. intros Hin. rewrite Forall_forall in Hf. apply Hf in Hin. lia.
Qed.

Lemma row_transposeSparse : forall (nr nc : nat) (S : csrR) (c : nat),
  (c < nc)%nat -> row (transposeSparse nr nc S) c = trow nr S c.
Proof.
  intros nr nc S c Hc. unfold row, transposeSparse; simpl.
  pose proof (slice_concat entR (map (trow nr S) (seq 0 nc)) c []) as H. simpl in H.
  rewrite H by (rewrite map_length, seq_length; auto).
  apply (nth_map_seq0 _ (trow nr S) nc c []); auto.
Qed.

Lemma transposeSparse_dense : forall (nr nc : nat) (S : csrR),
  wf_pattern nr nc S ->
  sparse2dense nc nr (transposeSparse nr nc S) = dtranspose nr nc (sparse2dense nr nc S) /\
  wf_pattern nc nr (transposeSparse nr nc S) /\
  (forall c : nat, (c < nc)%nat -> StronglySorted lt (cols (row (transposeSparse nr nc S) c))) /\
  c_adr (transposeSparse nr nc S) = psums 0 (c_nnz (transposeSparse nr nc S)).
Proof.
  intros nr nc S Hwf.
  assert (Hsort : forall c : nat, (c < nc)%nat -> StronglySorted lt (cols (row (transposeSparse nr nc S) c))).
  { intros c Hc. rewrite row_transposeSparse by auto. rewrite trow_unfold. apply trow_sorted.
    intros r Hr. apply Hwf. lia. }
  assert (Hwf' : wf_pattern nc nr (transposeSparse nr nc S)).
  { intros c Hc. split; [apply sorted_lt_nodup; auto|].
    rewrite row_transposeSparse by auto. rewrite trow_unfold. apply Forall_forall. intros k Hk.
    apply flat_tblock_cols in Hk. lia. }
  split; [|split; [exact Hwf'|split; [exact Hsort|reflexivity]]].
  apply (nth_ext_len (list R) []).
  - unfold sparse2dense, dtranspose. rewrite !map_length, !seq_length. reflexivity.
  - unfold sparse2dense at 1. rewrite map_length, seq_length. intros c Hc.
    apply (nth_ext_len R 0).
    + unfold sparse2dense at 1. rewrite (nth_map_seq0 _ (fun r0 : nat => s2d_row nr (row (transposeSparse nr nc S) r0)) nc c []) by auto.
      rewrite s2d_row_length. unfold dtranspose.
      rewrite (nth_map_seq0 _ (fun c0 : nat => map (fun r0 : nat => dget (sparse2dense nr nc S) r0 c0) (seq 0 nr)) nc c []) by auto.
      rewrite map_length, seq_length. reflexivity.
    + unfold sparse2dense at 1 2. rewrite (nth_map_seq0 _ (fun r0 : nat => s2d_row nr (row (transposeSparse nr nc S) r0)) nc c []) by auto.
      rewrite s2d_row_length. intros r Hr. simpl.
      rewrite s2d_row_nth by (apply Hwf'; auto).
      rewrite row_transposeSparse by auto. rewrite trow_unfold.
      rewrite lk_trow_gen by (try lia; apply Hwf; auto).
      change (nth r (nth c (dtranspose nr nc (sparse2dense nr nc S)) []) 0) with (dget (dtranspose nr nc (sparse2dense nr nc S)) c r).
      rewrite dget_dtranspose by auto. rewrite (dget_s2d nr nc) by auto. reflexivity.
Qed.

(* ------------------------------------------------------------------ gather / scatter *)
Lemma scatter_length : forall (ind : list nat) (vec res : list R), length (scatter res vec ind) = length res.
Proof.
  unfold scatter. induction ind as [|i ind IH]; intros vec res; simpl; auto.
  destruct vec as [|x vec]; simpl; auto. rewrite IH, upd_length. reflexivity.
Qed.

Lemma scatter_nth_notin : forall (ind : list nat) (vec res : list R) (j : nat),
  ~ In j ind -> nth j (scatter res vec ind) 0 = nth j res 0.
Proof.
  unfold scatter. induction ind as [|i ind IH]; intros vec res j Hn; simpl; auto.
  destruct vec as [|x vec]; simpl; auto. rewrite IH by (intros H; apply Hn; simpl; auto).
  apply nth_upd_neq. intros ->. apply Hn; simpl; auto.
Qed.

Lemma gather_scatter : forall (ind : list nat) (vec res : list R),
  NoDup ind -> Forall (fun i : nat => (i < length res)%nat) ind -> length vec = length ind ->
  gather (scatter res vec ind) ind = vec /\
  (forall j : nat, ~ In j ind -> nth j (scatter res vec ind) 0 = nth j res 0) /\
  length (scatter res vec ind) = length res.
Proof.
  intros ind vec res Hnd Hr Hl. split; [|split; [intros; apply scatter_nth_notin; auto|apply scatter_length]].
  revert vec res Hnd Hr Hl. induction ind as [|i ind IH]; intros vec res Hnd Hr Hl.
  - destruct vec; simpl in *; [reflexivity|discriminate].
  - destruct vec as [|x vec]; simpl in Hl; [discriminate|].
    inversion Hnd as [|a l Hna Hnd']; subst. inversion Hr as [|a l Hi Hr']; subst.
    unfold gather. simpl. f_equal.
    + change (scatter res (x :: vec) (i :: ind)) with (scatter (upd i x res) vec ind).
      rewrite scatter_nth_notin by auto. apply nth_upd_eq; auto.
    + change (scatter res (x :: vec) (i :: ind)) with (scatter (upd i x res) vec ind).
      apply IH; auto; try lia.
      rewrite upd_length; auto.
Qed.

Lemma scatter_gather : forall (ind : list nat) (vec : list R),
  Forall (fun i : nat => (i < length vec)%nat) ind -> scatter vec (gather vec ind) ind = vec.
Proof.
  intros ind vec Hr.
  assert (G : forall (l : list nat) (res : list R),
             Forall (fun i : nat => (i < length res)%nat) l ->
             (forall i : nat, In i l -> True) ->
             fold_left (fun (res0 : list R) (p : nat * R) => upd (fst p) (snd p) res0)
                       (combine l (map (fun i : nat => nth i res 0) l)) res = res).
  { induction l as [|i l IHl]; intros res Hf _; simpl; auto.
    inversion Hf as [|a l' Hi Hf']; subst.
    assert (E : upd i (nth i res 0) res = res).
    { apply (nth_ext_len R 0); [apply upd_length|]. rewrite upd_length. intros j Hj.
      rewrite nth_upd by auto. destruct (Nat.eqb_spec i j) as [->|]; reflexivity. }
    rewrite E. apply IHl; auto. }
  unfold scatter, gather. num_R. apply G; auto.
Qed.
