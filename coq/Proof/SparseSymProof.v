(* Proofs about the symmetric (lower-triangle, diagonal-last) CSR routines of Model/Sparse.v at R:
   mju_sym2dense builds the full symmetric matrix and mju_mulSymVecSparse multiplies by it
   (these are mj_fullM and mj_mulM). *)
From Coq Require Import ZArith List Bool Arith Lia PrimFloat Reals Lra Permutation.
From MJV Require Import Lib.Num Lib.NumR Model.Sparse Proof.LinAlgBase Proof.SparseProof Proof.SparseMergeProof.
Import ListNotations.
Open Scope R_scope.

(* row i = strictly-lower entries (distinct columns < i, any order) followed by the diagonal *)
Definition wf_lower_row (i : nat) (rw : list entR) : Prop :=
  exists (es : list entR) (d : R),
    rw = es ++ [(i, d)] /\ NoDup (cols es) /\ Forall (fun c : nat => (c < i)%nat) (cols es).
Definition wf_lower (n : nat) (Sp : csrR) : Prop :=
  forall i : nat, (i < n)%nat -> wf_lower_row i (row Sp i).

(* the full symmetric matrix denoted by the lower-triangular storage *)
Definition Full (Sp : csrR) (i j : nat) : R :=
  if Nat.leb j i then lk j (row Sp i) else lk i (row Sp j).

Lemma Full_sym : forall (Sp : csrR) (i j : nat), Full Sp i j = Full Sp j i.
Proof.
  intros Sp i j. unfold Full.
  destruct (Nat.leb_spec j i); destruct (Nat.leb_spec i j); try reflexivity; try lia.
  assert (i = j) by lia. subst. reflexivity.
Qed.

Lemma nodup_snoc : forall (A : Type) (l : list A) (x : A), NoDup l -> ~ In x l -> NoDup (l ++ [x]).
Proof.
  intros A l x Hnd Hn. apply (Permutation_NoDup (l := x :: l)); [apply Permutation_cons_append|].
  constructor; auto.
Qed.

Lemma wf_lower_row_full : forall (i : nat) (rw : list entR),
  wf_lower_row i rw -> NoDup (cols rw) /\ Forall (fun c : nat => (c < S i)%nat) (cols rw).
Proof.
  intros i rw [es [d [-> [Hnd Hr]]]]. unfold cols. rewrite map_app. simpl. split.
  - apply nodup_snoc; auto.
    intros Hin. rewrite Forall_forall in Hr. apply Hr in Hin. lia.
  - apply Forall_app. split.
    + eapply Forall_impl; [|exact Hr]. intros c Hc. cbv beta in *. lia.
    + constructor; [lia|constructor].
Qed.

(* ------------------------------------------------------------------ mju_mulSymVecSparse *)
Definition sym_inner (i : nat) (v : list R) (res : list R) (e : entR) : list R :=
  addAt (fst e) (snd e * nth i v 0) (addAt i (snd e * nth (fst e) v 0) res).

Lemma sym_inner_fold : forall (l : list entR) (i : nat) (v res : list R),
  NoDup (cols l) -> Forall (fun c : nat => (c < i)%nat) (cols l) -> (i < length res)%nat ->
  length (fold_left (sym_inner i v) l res) = length res /\
  forall c : nat, nth c (fold_left (sym_inner i v) l res) 0 =
    if Nat.eqb c i then nth i res 0 + sdot l v else nth c res 0 + lk c l * nth i v 0.
Proof.
  induction l as [|[c0 x0] l IH]; intros i v res Hnd Hr Hi.
  - simpl. split; [reflexivity|]. intros c. unfold sdot; simpl.
    destruct (Nat.eqb_spec c i) as [->|]; lra.
  - simpl in Hnd, Hr. inversion Hnd as [|a l' Hna Hnd']; subst. inversion Hr as [|a l' Hc0 Hr']; subst.
    simpl fold_left.
    assert (Hl1 : length (sym_inner i v res (c0, x0)) = length res).
    { unfold sym_inner. rewrite !addAt_length. reflexivity. }
    destruct (IH i v (sym_inner i v res (c0, x0)) Hnd' Hr') as [Hl Hn]; [rewrite Hl1; auto|].
    split; [rewrite Hl, Hl1; reflexivity|].
    intros c. rewrite Hn. unfold sym_inner. simpl fst. simpl snd.
    rewrite !addAt_nth by (rewrite ?addAt_length; lia).
    unfold sdot. simpl.
    destruct (Nat.eqb_spec c i) as [->|Hci].
    + destruct (Nat.eqb_spec c0 i); [lia|]. rewrite Nat.eqb_refl. fold (sdot l v). lra.
    + destruct (Nat.eqb_spec c0 c) as [->|Hc0c].
      * destruct (Nat.eqb_spec i c); [lia|]. rewrite (lk_notin c l) by auto. lra.
      * destruct (Nat.eqb_spec i c); [lia|]. lra.
Qed.

Definition sym_outer (Sp : csrR) (v : list R) (res : list R) (i : nat) : list R :=
  let es := row Sp i in
  let d := snd (last es (0%nat, 0)) in
  let res1 := upd i (d * nth i v 0) res in
  fold_left (sym_inner i v) (rev (removelast es)) res1.

Lemma mulSymVecSparse_unfold : forall (n : nat) (Sp : csrR) (v : list R),
  mulSymVecSparse n Sp v = fold_left (sym_outer Sp v) (seq 0 n) (repeat 0 n).
Proof. intros. reflexivity. Qed.

Lemma lk_lower_row : forall (i c : nat) (es : list entR) (d : R),
  NoDup (cols es) -> Forall (fun c0 : nat => (c0 < i)%nat) (cols es) ->
  lk c (es ++ [(i, d)]) = if Nat.eqb c i then d else lk c es.
Proof.
  intros i c es d Hnd Hr. rewrite Forall_forall in Hr.
  destruct (in_dec Nat.eq_dec c (cols es)) as [Hin|Hin].
  - rewrite lk_app_in by auto. destruct (Nat.eqb_spec c i) as [->|]; [|reflexivity].
    apply Hr in Hin. lia.
  - rewrite lk_app_notin by auto. simpl. rewrite (lk_notin c es) by auto.
    rewrite Nat.eqb_sym. destruct (Nat.eqb c i); reflexivity.
Qed.

Lemma mulSymVec_inv : forall (n : nat) (Sp : csrR) (v : list R), wf_lower n Sp ->
  forall k : nat, (k <= n)%nat ->
  length (fold_left (sym_outer Sp v) (seq 0 k) (repeat 0 n)) = n /\
  forall c : nat, nth c (fold_left (sym_outer Sp v) (seq 0 k) (repeat 0 n)) 0 =
    if Nat.ltb c k then bsum k (fun j => Full Sp c j * nth j v 0) else 0.
Proof.
  intros n Sp v Hwf. induction k as [|k IH]; intros Hk.
  - simpl. split; [apply repeat_length|]. intros c. apply nth_repeat0.
  - destruct IH as [Hl Hn]; [lia|]. rewrite fold_left_seq_S.
    set (res := fold_left (sym_outer Sp v) (seq 0 k) (repeat 0 n)) in *.
    destruct (Hwf k) as [es [d [Hrow [Hnd Hr]]]]; [lia|].
    unfold sym_outer. rewrite Hrow. rewrite last_last, removelast_last. simpl snd.
    assert (Hnd' : NoDup (cols (rev es))).
    { rewrite cols_rev. apply NoDup_rev. exact Hnd. }
    assert (Hr' : Forall (fun c : nat => (c < k)%nat) (cols (rev es))).
    { rewrite cols_rev. apply Forall_rev. exact Hr. }
    destruct (sym_inner_fold (rev es) k v (upd k (d * nth k v 0) res) Hnd' Hr') as [Hl2 Hn2].
    { rewrite upd_length, Hl. lia. }
    split; [rewrite Hl2, upd_length; exact Hl|].
    intros c. rewrite Hn2. rewrite sdot_rev, lk_rev by auto.
    rewrite !nth_upd by (rewrite Hl; lia).
    destruct (Nat.eqb_spec c k) as [->|Hck].
    + rewrite Nat.eqb_refl. destruct (Nat.ltb_spec k (S k)); [|lia].
      (* diagonal row: d v_k + sdot es v = sum_{j <= k} Full k j v_j *)
      assert (Hfull : NoDup (cols (row Sp k)) /\ Forall (fun c0 : nat => (c0 < S k)%nat) (cols (row Sp k))).
      { apply wf_lower_row_full. exists es, d. auto. }
      destruct Hfull as [Hnd3 Hr3].
      rewrite (bsum_ext (S k) (fun j => Full Sp k j * nth j v 0) (fun j => lk j (row Sp k) * nth j v 0)).
      2:{ intros j Hj. unfold Full. destruct (Nat.leb_spec j k); [reflexivity|lia]. }
      rewrite <- (sdot_lk (S k)) by auto. rewrite Hrow, sdot_app. unfold sdot. simpl. lra.
    + destruct (Nat.eqb_spec k c); [lia|]. rewrite Hn.
      destruct (Nat.ltb_spec c k) as [Hlt|Hge].
      * destruct (Nat.ltb_spec c (S k)); [|lia]. simpl bsum. f_equal. f_equal.
        unfold Full. destruct (Nat.leb_spec k c); [lia|].
        rewrite Hrow, lk_lower_row by auto. destruct (Nat.eqb_spec c k); [lia|]. reflexivity.
      * destruct (Nat.ltb_spec c (S k)); [lia|].
        rewrite (lk_notin c es); [lra|]. intros Hin. rewrite Forall_forall in Hr. apply Hr in Hin. lia.
Qed.

(* ------------------------------------------------------------------ mju_sym2dense *)
Definition mat_dims (n : nat) (M : list (list R)) : Prop :=
  length M = n /\ forall i : nat, (i < n)%nat -> length (nth i M []) = n.

Lemma dset_dims : forall (n : nat) (M : list (list R)) (r c : nat) (x : R),
  mat_dims n M -> (r < n)%nat -> mat_dims n (dset M r c x).
Proof.
  intros n M r c x [Hl Hrows] Hr. unfold dset. split; [rewrite upd_length; auto|].
  intros i Hi. rewrite nth_upd by lia. destruct (Nat.eqb_spec r i) as [->|]; auto.
  rewrite upd_length. auto.
Qed.

Lemma dget_dset : forall (n : nat) (M : list (list R)) (r c i j : nat) (x : R),
  mat_dims n M -> (r < n)%nat -> (c < n)%nat ->
  dget (dset M r c x) i j = if Nat.eqb r i && Nat.eqb c j then x else dget M i j.
Proof.
  intros n M r c i j x [Hl Hrows] Hr Hc. unfold dget, dset.
  rewrite nth_upd by lia. destruct (Nat.eqb_spec r i) as [->|]; simpl; [|reflexivity].
  rewrite nth_upd by (rewrite Hrows; lia). reflexivity.
Qed.

Definition s2d_inner (i : nat) (M : list (list R)) (e : entR) : list (list R) :=
  if Nat.leb (fst e) i then dset (dset M i (fst e) (snd e)) (fst e) i (snd e) else M.

Lemma s2d_inner_fold : forall (n i : nat) (l : list entR) (M : list (list R)),
  NoDup (cols l) -> Forall (fun c : nat => (c <= i)%nat) (cols l) -> (i < n)%nat -> mat_dims n M ->
  mat_dims n (fold_left (s2d_inner i) l M) /\
  forall a b : nat, dget (fold_left (s2d_inner i) l M) a b =
    if Nat.eqb a i && existsb (Nat.eqb b) (cols l) then lk b l
    else if Nat.eqb b i && existsb (Nat.eqb a) (cols l) then lk a l
    else dget M a b.
Proof.
  intros n i l; induction l as [|[c0 x0] l IH]; intros M Hnd Hr Hi Hdim.
  - simpl. split; [exact Hdim|]. intros a b. rewrite !andb_false_r. reflexivity.
  - simpl in Hnd, Hr. inversion Hnd as [|a0 l' Hna Hnd']; subst. inversion Hr as [|a0 l' Hc0 Hr']; subst.
    simpl fold_left.
    assert (Hhead : s2d_inner i M (c0, x0) = dset (dset M i c0 x0) c0 i x0).
    { unfold s2d_inner. simpl fst. simpl snd. destruct (Nat.leb_spec c0 i); [reflexivity|lia]. }
    rewrite Hhead.
    assert (Hd1 : mat_dims n (dset M i c0 x0)) by (apply dset_dims; auto).
    assert (Hd2 : mat_dims n (dset (dset M i c0 x0) c0 i x0)) by (apply dset_dims; auto; lia).
    destruct (IH (dset (dset M i c0 x0) c0 i x0) Hnd' Hr' Hi Hd2) as [Hdim' Hget].
    split; [exact Hdim'|]. intros a b. rewrite Hget.
    rewrite (dget_dset n) by (auto; lia). rewrite (dget_dset n) by (auto; lia).
    cbn [cols map fst existsb lk].
    assert (Hx : forall z : nat, existsb (Nat.eqb z) (cols l) = true -> z <> c0).
    { intros z Hz Heq. subst z. apply existsb_exists in Hz. destruct Hz as [y [Hy Hy2]].
      apply Nat.eqb_eq in Hy2. subst y. auto. }
    destruct (existsb (Nat.eqb a) (cols l)) eqn:Ea; destruct (existsb (Nat.eqb b) (cols l)) eqn:Eb;
      repeat match goal with
             | |- context [Nat.eqb ?x ?y] => destruct (Nat.eqb_spec x y); subst
             end; simpl; try reflexivity; try congruence; try lia;
      try (exfalso; eapply Hx; eauto; fail);
      unfold cols in *; rewrite ?Ea, ?Eb; try reflexivity;
      try (exfalso; apply (Hx _ Ea); reflexivity); try (exfalso; apply (Hx _ Eb); reflexivity).
Qed.

Definition s2d_outer (Sp : csrR) (M : list (list R)) (i : nat) : list (list R) :=
  fold_left (s2d_inner i) (row Sp i) M.

Lemma sym2dense_unfold : forall (n : nat) (Sp : csrR),
  sym2dense n Sp = fold_left (s2d_outer Sp) (seq 0 n) (dzero n n).
Proof. intros. reflexivity. Qed.

Lemma dzero_dims : forall n : nat, mat_dims n (dzero (T := R) n n).
Proof.
  intros n. unfold dzero. split; [apply repeat_length|]. intros i Hi.
  rewrite (nth_indep _ [] (repeat nzero n)) by (rewrite repeat_length; auto).
  rewrite nth_repeat. apply repeat_length.
Qed.

Lemma dzero_get : forall (n a b : nat), dget (dzero (T := R) n n) a b = 0.
Proof.
  intros n a b. unfold dget, dzero. num_R. destruct (Nat.lt_ge_cases a n) as [Ha|Ha].
  - rewrite (nth_indep _ [] (repeat 0 n)) by (rewrite repeat_length; auto).
    rewrite nth_repeat. apply nth_repeat0.
  - rewrite (nth_overflow (repeat (repeat 0 n) n) []) by (rewrite repeat_length; auto). destruct b; reflexivity.
Qed.

Lemma existsb_eqb_in : forall (z : nat) (l : list nat), existsb (Nat.eqb z) l = true <-> In z l.
Proof.
  intros z l. rewrite existsb_exists. split.
  - intros [y [Hy He]]. apply Nat.eqb_eq in He. subst. exact Hy.
  - intros Hin. exists z. split; auto. apply Nat.eqb_refl.
Qed.

Lemma sym2dense_inv : forall (n : nat) (Sp : csrR), wf_lower n Sp ->
  forall k : nat, (k <= n)%nat ->
  mat_dims n (fold_left (s2d_outer Sp) (seq 0 k) (dzero n n)) /\
  forall a b : nat, dget (fold_left (s2d_outer Sp) (seq 0 k) (dzero n n)) a b =
    if Nat.ltb a k && Nat.ltb b k then Full Sp a b else 0.
Proof.
  intros n Sp Hwf. induction k as [|k IH]; intros Hk.
  - simpl. split; [apply dzero_dims|]. intros a b. apply dzero_get.
  - destruct IH as [Hdim Hget]; [lia|]. rewrite fold_left_seq_S.
    set (M := fold_left (s2d_outer Sp) (seq 0 k) (dzero n n)) in *.
    destruct (wf_lower_row_full k (row Sp k)) as [Hnd Hr]; [apply Hwf; lia|].
    assert (Hr' : Forall (fun c : nat => (c <= k)%nat) (cols (row Sp k))).
    { eapply Forall_impl; [|exact Hr]. intros c Hc. cbv beta in *. lia. }
    destruct (s2d_inner_fold n k (row Sp k) M Hnd Hr') as [Hdim' Hget']; [lia|exact Hdim|].
    unfold s2d_outer. split; [exact Hdim'|]. intros a b. rewrite Hget', Hget.
    rewrite Forall_forall in Hr'.
    destruct (Nat.eqb_spec a k) as [->|Hak]; simpl andb.
    + destruct (existsb (Nat.eqb b) (cols (row Sp k))) eqn:Eb.
      * apply existsb_eqb_in in Eb. apply Hr' in Eb.
        destruct (Nat.ltb_spec k (S k)); [|lia]. destruct (Nat.ltb_spec b (S k)); [|lia]. simpl.
        unfold Full. destruct (Nat.leb_spec b k); [reflexivity|lia].
      * assert (Hnb : ~ In b (cols (row Sp k))).
        { intros Hin. apply existsb_eqb_in in Hin. congruence. }
        assert (E2 : (Nat.eqb b k && existsb (Nat.eqb k) (cols (row Sp k))) = false).
        { destruct (Nat.eqb_spec b k) as [->|]; [|reflexivity]. simpl. exact Eb. }
        rewrite E2. destruct (Nat.ltb_spec k k); [lia|]. simpl.
        destruct (Nat.ltb_spec k (S k)); [|lia]. simpl.
        destruct (Nat.ltb_spec b (S k)); [|reflexivity].
        unfold Full. destruct (Nat.leb_spec b k); [|lia]. symmetry. apply lk_notin. exact Hnb.
    + destruct (Nat.eqb_spec b k) as [->|Hbk]; simpl andb.
      * destruct (existsb (Nat.eqb a) (cols (row Sp k))) eqn:Ea.
        -- apply existsb_eqb_in in Ea. apply Hr' in Ea.
           destruct (Nat.ltb_spec a (S k)); [|lia]. destruct (Nat.ltb_spec k (S k)); [|lia]. simpl.
           unfold Full. destruct (Nat.leb_spec k a); [lia|reflexivity].
        -- assert (Hna : ~ In a (cols (row Sp k))).
           { intros Hin. apply existsb_eqb_in in Hin. congruence. }
           destruct (Nat.ltb_spec k k); [lia|]. rewrite andb_false_r.
           destruct (Nat.ltb_spec k (S k)); [|lia]. rewrite andb_true_r.
           destruct (Nat.ltb_spec a (S k)); [|reflexivity].
           unfold Full. destruct (Nat.leb_spec k a); [lia|]. symmetry. apply lk_notin. exact Hna.
      * destruct (Nat.ltb_spec a k); destruct (Nat.ltb_spec a (S k)); try lia;
          destruct (Nat.ltb_spec b k); destruct (Nat.ltb_spec b (S k)); try lia; reflexivity.
Qed.

Lemma mulSymVec_sym2dense : forall (n : nat) (Sp : csrR) (v : list R),
  wf_lower n Sp -> length v = n ->
  mulSymVecSparse n Sp v = dmulMatVec (sym2dense n Sp) v /\
  (forall i j : nat, (i < n)%nat -> (j < n)%nat -> dget (sym2dense n Sp) i j = Full Sp i j) /\
  (forall i j : nat, dget (sym2dense n Sp) i j = dget (sym2dense n Sp) j i).
Proof.
  intros n Sp v Hwf Hv.
  destruct (mulSymVec_inv n Sp v Hwf n (Nat.le_refl n)) as [Hl Hn].
  destruct (sym2dense_inv n Sp Hwf n (Nat.le_refl n)) as [[HlM HrM] Hget].
  rewrite <- mulSymVecSparse_unfold in Hl, Hn. rewrite <- sym2dense_unfold in HlM, HrM, Hget.
  split; [|split].
  - apply (nth_ext_len R 0).
    + rewrite Hl. unfold dmulMatVec. rewrite map_length. auto.
    + rewrite Hl. intros c Hc. rewrite Hn. destruct (Nat.ltb_spec c n); [|lia].
      unfold dmulMatVec. rewrite (nth_indep _ 0 (ndot [] v)) by (rewrite map_length, HlM; auto).
      rewrite (map_nth (fun rw : list R => ndot rw v) (sym2dense n Sp) [] c).
      rewrite ndot_spec, Hv. apply bsum_ext. intros j Hj.
      change (nth j (nth c (sym2dense n Sp) []) 0) with (dget (sym2dense n Sp) c j).
      rewrite Hget. destruct (Nat.ltb_spec c n); [|lia]. destruct (Nat.ltb_spec j n); [|lia]. reflexivity.
  - intros i j Hi Hj. rewrite Hget. destruct (Nat.ltb_spec i n); [|lia]. destruct (Nat.ltb_spec j n); [|lia]. reflexivity.
  - intros i j. rewrite !Hget. rewrite (andb_comm (Nat.ltb j n)). destruct (Nat.ltb i n && Nat.ltb j n); [apply Full_sym|reflexivity].
Qed.
