From Coq Require Import ZArith QArith Qround Qabs Lia Lqa Bool.
From MJV Require Import Model.XmlNumFormat.
Open Scope Q_scope.

Lemma floor_inject : forall n : Z, Qfloor (inject_Z n) = n.
Proof. intro n. unfold Qfloor, inject_Z. simpl. now rewrite Z.div_1_r. Qed.

Lemma ceil_inject : forall n : Z, Qceiling (inject_Z n) = n.
Proof.
  intro n. unfold Qceiling. assert (H : - inject_Z n == inject_Z (- n)) by (unfold Qeq, inject_Z; simpl; lia).
  rewrite (Qfloor_comp _ _ H). rewrite floor_inject. lia.
Qed.

(* integers in the int range are printed exactly, whatever the precision *)
Lemma integers_exact : forall n : Z, (- int_max < n < int_max)%Z ->
  fmt_decision (inject_Z n) = Some n.
Proof.
  intros n Hn. unfold fmt_decision, isint, round, qfloor, qceil.
  rewrite floor_inject, ceil_inject.
  assert (H0 : Qabs (inject_Z n - inject_Z n) == 0).
  { assert (E : inject_Z n - inject_Z n == 0) by ring. rewrite E. reflexivity. }
  destruct (Qlt_le_dec (inject_Z n) (inject_Z int_max)) as [_|H].
  2:{ exfalso. rewrite <- Zle_Qle in H. lia. }
  destruct (Qlt_le_dec (inject_Z (- int_max)) (inject_Z n)) as [_|H].
  2:{ exfalso. rewrite <- Zle_Qle in H. lia. }
  destruct (Qlt_le_dec (Qabs (inject_Z n - inject_Z n)) tol) as [_|H].
  2:{ exfalso. rewrite H0 in H. unfold tol, Qle in H. simpl in H. lia. }
  cbv [orb andb].
  destruct (Qlt_le_dec (Qabs (inject_Z n - inject_Z n)) (Qabs (inject_Z n - inject_Z n))); reflexivity.
Qed.

(* ... but so is every number within 1e-12 of an integer: the text is not the number *)
Lemma near_integer_refuted :
  exists x : Q, fmt_decision x = Some 1%Z /\ ~ x == inject_Z 1.
Proof.
  exists (1 + (1 # 10000000000000)). split.
  - vm_compute. reflexivity.
  - unfold Qeq. simpl. lia.
Qed.
