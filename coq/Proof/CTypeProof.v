(* Proofs about Model/CType.v: parse_type inverts decl on the printable fragment, and every AST
   the parser returns is in the fragment. *)
From Coq Require Import Ascii String List ZArith Bool Lia.
From Coq Require Decimal DecimalString DecimalPos DecimalZ.
From MJV Require Import Model.CType.
Import ListNotations.
Local Open Scope char_scope.
Local Open Scope list_scope.
Arguments Ascii.eqb : simpl never.
Arguments is_space : simpl never.
Arguments is_digit : simpl never.
Arguments is_alpha_ : simpl never.
Arguments is_idchar : simpl never.

(* ------------------------------------------------------------------ basics *)
Lemma str_eqb_refl s : str_eqb s s = true.
Proof. induction s; simpl; auto. now rewrite Ascii.eqb_refl. Qed.

Lemma str_eqb_eq a b : str_eqb a b = true <-> a = b.
Proof.
  split.
  - revert b. induction a; destruct b; simpl; try discriminate; auto.
    intros H. apply andb_true_iff in H. destruct H as [H1 H2].
    apply Ascii.eqb_eq in H1. subst. f_equal. auto.
  - intros ->. apply str_eqb_refl.
Qed.

Lemma str_eqb_neq a b : a <> b -> str_eqb a b = false.
Proof. intros H. destruct (str_eqb a b) eqn:E; auto. apply str_eqb_eq in E. contradiction. Qed.

Lemma has_app c a b : has c (a ++ b) = has c a || has c b.
Proof. unfold has. apply existsb_app. Qed.

Lemma has_false_neq c s : s <> [] -> has c s = false -> forall x r, s = x :: r -> Ascii.eqb c x = false.
Proof. intros _ H x r ->. simpl in H. apply orb_false_iff in H. tauto. Qed.

Lemma firstn_len_app {A} (a b : list A) : firstn (length a) (a ++ b) = a.
Proof. induction a; simpl; auto. now rewrite IHa. Qed.
Lemma skipn_len_app {A} (a b : list A) : skipn (length a) (a ++ b) = b.
Proof. induction a; simpl; auto. Qed.

Lemma find_idx_none c s : has c s = false -> find_idx c s = None.
Proof.
  induction s; simpl; auto. intros H. apply orb_false_iff in H. destruct H as [H1 H2].
  rewrite Ascii.eqb_sym, H1, IHs; auto.
Qed.
Lemma find_idx_app c pre rest : has c pre = false -> find_idx c (pre ++ c :: rest) = Some (length pre).
Proof.
  induction pre; simpl; intros H.
  - now rewrite Ascii.eqb_refl.
  - apply orb_false_iff in H. destruct H as [H1 H2]. rewrite Ascii.eqb_sym, H1, IHpre; auto.
Qed.
Lemma rfind_idx_none c s : has c s = false -> rfind_idx c s = None.
Proof.
  induction s; simpl; auto. intros H. apply orb_false_iff in H. destruct H as [H1 H2].
  rewrite IHs; auto. now rewrite Ascii.eqb_sym, H1.
Qed.
Lemma rfind_idx_app c pre post : has c post = false -> rfind_idx c (pre ++ c :: post) = Some (length pre).
Proof.
  intros H. induction pre; simpl.
  - rewrite rfind_idx_none; auto. now rewrite Ascii.eqb_refl.
  - now rewrite IHpre.
Qed.

(* ------------------------------------------------------------------ white space *)
Lemma lstrip_hd s : hd_nonspace s = true -> lstrip s = s.
Proof. destruct s; simpl; auto. intros H. apply negb_true_iff in H. now rewrite H. Qed.

Lemma strip_id s : hd_nonspace s = true -> last_nonspace s = true -> strip s = s.
Proof.
  intros H1 H2. unfold strip, rstrip. rewrite (lstrip_hd s H1).
  unfold last_nonspace in H2. rewrite (lstrip_hd _ H2). apply rev_involutive.
Qed.

Lemma hd_nonspace_app a b : hd_nonspace a = true -> hd_nonspace (a ++ b) = true.
Proof. destruct a; simpl; auto. discriminate. Qed.
Lemma last_nonspace_app a b : last_nonspace b = true -> last_nonspace (a ++ b) = true.
Proof. unfold last_nonspace. rewrite rev_app_distr. apply hd_nonspace_app. Qed.
Lemma last_nonspace_snoc a c : is_space c = false -> last_nonspace (a ++ [c]) = true.
Proof. intros H. apply last_nonspace_app. unfold last_nonspace. simpl. now rewrite H. Qed.

Lemma strip_app_space h : hd_nonspace h = true -> last_nonspace h = true -> strip (h ++ [" "]) = h.
Proof.
  intros H1 H2. unfold strip, rstrip. rewrite (lstrip_hd _ (hd_nonspace_app _ _ H1)).
  rewrite rev_app_distr. simpl. unfold last_nonspace in H2. rewrite (lstrip_hd _ H2). apply rev_involutive.
Qed.

Definition nospace (w : str) : bool := forallb (fun c => negb (is_space c)) w.

Lemma split_ws_aux_word w : forall cur b rest, nospace w = true -> w <> [] ->
  split_ws_aux cur b (w ++ rest) = split_ws_aux (rev w ++ cur) false rest.
Proof.
  induction w; intros cur b rest H Hne; [congruence|].
  simpl in H. apply andb_true_iff in H. destruct H as [H1 H2]. apply negb_true_iff in H1.
  simpl. rewrite H1. destruct w.
  - simpl. reflexivity.
  - rewrite IHw; auto; try discriminate. simpl. now rewrite <- !app_assoc.
Qed.

Lemma split_ws_aux_inrun rest : hd_nonspace rest = true -> split_ws_aux [] true rest = split_ws_aux [] false rest.
Proof. destruct rest; simpl; try discriminate. intros H. apply negb_true_iff in H. now rewrite H. Qed.

Lemma split_ws_word w rest : nospace w = true -> w <> [] -> hd_nonspace rest = true ->
  split_ws (w ++ " " :: rest) = w :: split_ws rest.
Proof.
  intros H1 H2 H3. unfold split_ws. rewrite split_ws_aux_word; auto.
  cbn [split_ws_aux]. change (is_space " ") with true. cbv iota.
  rewrite app_nil_r, rev_involutive. f_equal. now apply split_ws_aux_inrun.
Qed.

Lemma split_ws_single w : nospace w = true -> split_ws w = [w].
Proof.
  intros H. unfold split_ws. destruct w; [reflexivity|].
  rewrite <- (app_nil_r (a :: w)). rewrite split_ws_aux_word; auto; try discriminate.
  cbn [split_ws_aux]. now rewrite !app_nil_r, rev_involutive.
Qed.

(* ------------------------------------------------------------------ printed integers *)
Definition intchar (c : ascii) : bool := is_digit c || Ascii.eqb c "-".

Lemma ascii_cases (P : ascii -> Prop) :
  (forall b0 b1 b2 b3 b4 b5 b6 b7, P (Ascii b0 b1 b2 b3 b4 b5 b6 b7)) -> forall c, P c.
Proof. intros H []. apply H. Qed.

Ltac all_ascii c := destruct c as [[] [] [] [] [] [] [] []]; vm_compute; try (let H := fresh in intros H; discriminate H); try reflexivity.

Lemma intchar_props c : intchar c = true ->
  is_space c = false /\ Ascii.eqb c "]" = false /\ Ascii.eqb c "[" = false /\ Ascii.eqb c "(" = false
  /\ Ascii.eqb c ")" = false /\ Ascii.eqb "(" c = false /\ Ascii.eqb ")" c = false /\ Ascii.eqb "]" c = false.
Proof. all_ascii c; intros _; repeat split. Qed.

Lemma digit_props c : is_digit c = true -> Ascii.eqb c "_" = false /\ intchar c = true.
Proof. all_ascii c; intros _; repeat split. Qed.

Lemma int_of_str_digit c r : is_digit c = true -> int_of_str (c :: r) = uint_of_str (c :: r).
Proof. all_ascii c. Qed.

Lemma uint_digits d : forallb is_digit (L (DecimalString.NilEmpty.string_of_uint d)) = true.
Proof. induction d; simpl; auto. Qed.

Lemma underscores_ok_digits s : forallb is_digit s = true -> underscores_ok true s = true.
Proof.
  induction s; simpl; auto. intros H. apply andb_true_iff in H. destruct H as [H1 H2].
  destruct (digit_props _ H1) as [E _]. rewrite E. auto.
Qed.
Lemma drop_underscores_digits s : forallb is_digit s = true -> drop_underscores s = s.
Proof.
  induction s; simpl; auto. intros H. apply andb_true_iff in H. destruct H as [H1 H2].
  destruct (digit_props _ H1) as [E _]. rewrite E. simpl. f_equal. auto.
Qed.

Lemma nilzero_nonnil u : u <> Decimal.Nil ->
  DecimalString.NilZero.string_of_uint u = DecimalString.NilEmpty.string_of_uint u.
Proof. destruct u; auto. congruence. Qed.

Lemma uint_of_str_print u : u <> Decimal.Nil ->
  uint_of_str (L (DecimalString.NilZero.string_of_uint u)) = Some (Z.of_uint u).
Proof.
  intros Hu. unfold uint_of_str.
  assert (D : forallb is_digit (L (DecimalString.NilZero.string_of_uint u)) = true).
  { rewrite nilzero_nonnil; auto. apply uint_digits. }
  assert (NE : exists c r, L (DecimalString.NilZero.string_of_uint u) = c :: r).
  { rewrite nilzero_nonnil; auto. destruct u; try congruence; simpl; eauto. }
  destruct NE as (c & r & E).
  assert (U : underscores_ok false (L (DecimalString.NilZero.string_of_uint u)) = true).
  { rewrite E in *. simpl in D. apply andb_true_iff in D. destruct D as [D1 D2]. simpl.
    destruct (digit_props _ D1) as [E1 _]. rewrite E1. now apply underscores_ok_digits. }
  rewrite U, drop_underscores_digits; auto. unfold L. rewrite string_of_list_ascii_of_string.
  now rewrite DecimalString.NilZero.usu.
Qed.

Lemma str_of_Z_chars z : forallb intchar (str_of_Z z) = true /\ str_of_Z z <> [].
Proof.
  assert (G : forall u, forallb intchar (L (DecimalString.NilZero.string_of_uint u)) = true
                        /\ L (DecimalString.NilZero.string_of_uint u) <> []).
  { intros u. destruct (Decimal.uint_eq_dec u Decimal.Nil) as [->|Hu]; [split; [reflexivity|discriminate]|].
    rewrite nilzero_nonnil; auto. split.
    - pose proof (uint_digits u) as D. rewrite forallb_forall in *. intros c Hc. apply digit_props. auto.
    - destruct u; try congruence; discriminate. }
  unfold str_of_Z. destruct (Z.to_int z); simpl.
  - apply G.
  - destruct (G d). split; [simpl; auto | discriminate].
Qed.

Lemma edges_of_chars (P : ascii -> bool) s :
  (forall c, P c = true -> is_space c = false) -> forallb P s = true -> s <> [] ->
  hd_nonspace s = true /\ last_nonspace s = true.
Proof.
  intros HP H Hne. rewrite forallb_forall in H. split.
  - destruct s; [congruence|]. simpl. rewrite (HP a); auto. apply H. now left.
  - unfold last_nonspace. destruct (rev s) eqn:E.
    + apply (f_equal (@rev _)) in E. rewrite rev_involutive in E. simpl in E. congruence.
    + simpl. rewrite (HP a); auto. apply H. apply in_rev. rewrite E. now left.
Qed.

Lemma int_of_str_print z : int_of_str (strip (str_of_Z z)) = Some z.
Proof.
  destruct (str_of_Z_chars z) as [C NE].
  destruct (edges_of_chars intchar _ (fun c H => proj1 (intchar_props c H)) C NE) as [E1 E2].
  rewrite strip_id; auto. clear.
  unfold str_of_Z. destruct z; simpl.
  - reflexivity.
  - pose proof (DecimalPos.Unsigned.to_uint_nonnil p) as Hn.
    pose proof (uint_of_str_print _ Hn) as U.
    assert (D : forallb is_digit (L (DecimalString.NilZero.string_of_uint (Pos.to_uint p))) = true).
    { rewrite nilzero_nonnil; auto. apply uint_digits. }
    destruct (L (DecimalString.NilZero.string_of_uint (Pos.to_uint p))) eqn:E.
    + unfold uint_of_str in U. simpl in U. discriminate.
    + simpl in D. apply andb_true_iff in D. rewrite int_of_str_digit; [|tauto].
      rewrite U. unfold Z.of_uint. now rewrite DecimalPos.Unsigned.of_to.
  - pose proof (DecimalPos.Unsigned.to_uint_nonnil p) as Hn.
    unfold int_of_str. change (L (String "-" ?s)) with ("-" :: L s).
    rewrite (uint_of_str_print _ Hn). simpl. unfold Z.of_uint. now rewrite DecimalPos.Unsigned.of_to.
Qed.

(* ------------------------------------------------------------------ array extents *)
Lemma ext_scan_in w : forall cur acc rest, has "]" w = false ->
  ext_scan (EIn cur) acc (w ++ "]" :: rest) =
  if nonempty (rev w ++ cur) then ext_scan EAfter (rev (rev w ++ cur) :: acc) rest else None.
Proof.
  induction w; intros cur acc rest H.
  - simpl. reflexivity.
  - simpl in H. apply orb_false_iff in H. destruct H as [H1 H2].
    simpl. rewrite Ascii.eqb_sym, H1. rewrite IHw; auto. now rewrite <- !app_assoc.
Qed.

Lemma ext_scan_in0 w acc rest : w <> [] -> has "]" w = false ->
  ext_scan (EIn []) acc (w ++ "]" :: rest) = ext_scan EAfter (w :: acc) rest.
Proof.
  intros Hne H. rewrite ext_scan_in; auto. rewrite app_nil_r, rev_involutive.
  destruct (rev w) eqn:E; auto.
  apply (f_equal (@rev _)) in E. rewrite rev_involutive in E. simpl in E. congruence.
Qed.

Lemma has_of_chars (P : ascii -> bool) c s :
  (forall x, P x = true -> Ascii.eqb c x = false) -> forallb P s = true -> has c s = false.
Proof.
  intros HP. induction s; simpl; auto. intros H. apply andb_true_iff in H. destruct H.
  rewrite HP; auto.
Qed.

Lemma str_of_Z_no c : (forall x, intchar x = true -> Ascii.eqb c x = false) -> forall z, has c (str_of_Z z) = false.
Proof. intros H z. apply (has_of_chars intchar); auto. apply str_of_Z_chars. Qed.

Lemma ext_str_cons z ex : ext_str (z :: ex) = "[" :: str_of_Z z ++ "]" :: ext_str ex.
Proof. unfold ext_str. simpl. now rewrite <- app_assoc. Qed.

Lemma ext_scan_groups ex : forall acc, ext_scan EAfter acc (ext_str ex) = Some (rev acc ++ map str_of_Z ex).
Proof.
  induction ex; intros acc.
  - simpl. now rewrite app_nil_r.
  - rewrite ext_str_cons. simpl. rewrite ext_scan_in0.
    + rewrite IHex. simpl. now rewrite <- app_assoc.
    + apply str_of_Z_chars.
    + apply str_of_Z_no. intros x Hx. apply intchar_props in Hx. tauto.
Qed.

Lemma ext_scan_start ex : ex <> [] -> ext_scan EStart [] (ext_str ex) = Some (map str_of_Z ex).
Proof.
  destruct ex; [congruence|]. intros _. rewrite ext_str_cons. simpl. rewrite ext_scan_in0.
  - now rewrite ext_scan_groups.
  - apply str_of_Z_chars.
  - apply str_of_Z_no. intros x Hx. apply intchar_props in Hx. tauto.
Qed.

Lemma ext_scan_start_other c r : Ascii.eqb c "[" = false -> ext_scan EStart [] (c :: r) = None.
Proof. intros H. simpl. now rewrite H. Qed.

Lemma ext_search_none s : has "[" s = false -> ext_search s = None.
Proof.
  induction s; simpl; auto. intros H. apply orb_false_iff in H. destruct H as [H1 H2].
  rewrite Ascii.eqb_sym in H1. rewrite H1, IHs; auto.
Qed.

Lemma ext_search_hit s g : ext_scan EStart [] s = Some g -> ext_search s = Some ([], g).
Proof. intros H. destruct s; simpl in *; [discriminate|]. now rewrite H. Qed.

Lemma ext_search_app body ex : has "[" body = false -> ex <> [] ->
  ext_search (body ++ ext_str ex) = Some (body, map str_of_Z ex).
Proof.
  intros H Hex. induction body.
  - simpl app. apply ext_search_hit. now apply ext_scan_start.
  - simpl in H. apply orb_false_iff in H. destruct H as [H1 H2]. rewrite Ascii.eqb_sym in H1.
    simpl. rewrite H1, IHbody; auto.
Qed.

Lemma map_opt_ints ex : map_opt (fun g => int_of_str (strip g)) (map str_of_Z ex) = Some ex.
Proof. induction ex; simpl; auto. now rewrite int_of_str_print, IHex. Qed.

(* ------------------------------------------------------------------ pieces of printed declarations *)
Definition star_q (c v r : bool) : str :=
  join sp ([L "*"] ++ opt c "const" ++ opt v "volatile" ++ opt r "restrict").
Definition q_tail (c v r : bool) : str := tl (star_q c v r).
Definition spcat (h d : str) : str := match d with [] => h | _ => h ++ " " :: d end.
Definition cvn (n : str) (c v : bool) : str := join sp (opt c "const" ++ opt v "volatile" ++ [n]).

Record head (h : str) : Prop := mk_head {
  h_hd : hd_nonspace h = true; h_last : last_nonspace h = true;
  h_lp : has "(" h = false; h_rp : has ")" h = false; h_lb : has "[" h = false }.
Definition hparse (h : str) (acc : option ctype) (X : ctype) : Prop :=
  forall g, length h < g -> pmp g h acc = Some X.

Lemma join_ptr c v r d :
  join sp ([L "*"] ++ opt false "nullable" ++ opt c "const" ++ opt v "volatile" ++ opt r "restrict" ++ part d)
  = spcat (star_q c v r) d.
Proof. destruct c, v, r, d; reflexivity. Qed.

Lemma join_val n c v d :
  join sp (opt c "const" ++ opt v "volatile" ++ [n] ++ part d) = spcat (cvn n c v) d.
Proof. destruct c, v, d; unfold cvn, spcat; simpl; rewrite <- ?app_assoc; reflexivity. Qed.

Lemma star_q_eq c v r : star_q c v r = "*" :: q_tail c v r.
Proof. destruct c, v, r; reflexivity. Qed.
Lemma q_tail_nostar c v r : has "*" (q_tail c v r) = false.
Proof. destruct c, v, r; reflexivity. Qed.
Lemma q_tail_quals c v r :
  parse_quals (strip (q_tail c v r)) [CONST; VOLATILE; RESTRICT] = Some ([], (c, v, r)).
Proof. destruct c, v, r; vm_compute; reflexivity. Qed.
Lemma star_q_head c v r : head (star_q c v r).
Proof. destruct c, v, r; constructor; reflexivity. Qed.
Lemma star_q_ne c v r : star_q c v r <> [].
Proof. rewrite star_q_eq. discriminate. Qed.

Lemma spcat_assoc h p d : p <> [] -> spcat h (spcat p d) = spcat (h ++ " " :: p) d.
Proof.
  intros Hp. destruct d; simpl.
  - destruct p; [congruence|]. reflexivity.
  - destruct p; [congruence|]. simpl. now rewrite <- app_assoc.
Qed.

Lemma no_special s : has "(" s = false -> str_eqb s special = false.
Proof.
  intros H. destruct (str_eqb s special) eqn:E; auto. apply str_eqb_eq in E. subst. vm_compute in H. discriminate.
Qed.

Lemma head_ne h : head h -> h <> [].
Proof. intros [H _ _ _ _]. destruct h; discriminate. Qed.
Lemma head_nonempty h : head h -> nonempty h = true.
Proof. intros H. apply head_ne in H. destruct h; [congruence|reflexivity]. Qed.

Lemma head_ptr h c v r : head h -> head (h ++ " " :: star_q c v r).
Proof.
  intros [H1 H2 H3 H4 H5]. destruct (star_q_head c v r) as [S1 S2 S3 S4 S5]. constructor.
  - now apply hd_nonspace_app.
  - change (h ++ " " :: star_q c v r) with (h ++ [" "] ++ star_q c v r).
    rewrite app_assoc. now apply last_nonspace_app.
  - rewrite has_app, H3. simpl. now rewrite S3.
  - rewrite has_app, H4. simpl. now rewrite S4.
  - rewrite has_app, H5. simpl. now rewrite S5.
Qed.

Lemma skipn_S_len_app {A} (a : list A) x b : skipn (S (length a)) (a ++ x :: b) = b.
Proof. induction a; simpl; auto. Qed.

Lemma hparse_ptr h acc X c v r : head h -> hparse h acc X ->
  hparse (h ++ " " :: star_q c v r) acc (TPointer X false c v r).
Proof.
  intros Hh HX g Hg. pose proof (head_ptr h c v r Hh) as Hh'.
  destruct g; [lia|]. cbn [pmp]. rewrite (no_special _ (h_lp _ Hh')).
  rewrite star_q_eq in *.
  replace (h ++ " " :: "*" :: q_tail c v r) with ((h ++ [" "]) ++ "*" :: q_tail c v r)
    by (now rewrite <- app_assoc).
  rewrite rfind_idx_app by apply q_tail_nostar.
  rewrite skipn_S_len_app, firstn_len_app, q_tail_quals. cbn [nonempty].
  destruct Hh as [H1 H2 _ _ _]. rewrite strip_app_space; auto.
  assert (NE : nonempty h = true) by (destruct h; [discriminate|reflexivity]).
  rewrite NE, HX; auto.
  rewrite app_length in Hg. simpl in Hg. lia.
Qed.

Lemma hparse_ptr0 Y c v r : hparse (star_q c v r) (Some Y) (TPointer Y false c v r).
Proof.
  intros g Hg. destruct g; [lia|]. cbn [pmp]. rewrite (no_special _ (h_lp _ (star_q_head c v r))).
  rewrite star_q_eq.
  change ("*" :: q_tail c v r) with ([] ++ "*" :: q_tail c v r).
  rewrite rfind_idx_app by apply q_tail_nostar.
  cbn [length app skipn firstn]. rewrite q_tail_quals. reflexivity.
Qed.

(* ------------------------------------------------------------------ value names *)
Lemma name_char_props c : name_char c = true ->
  Ascii.eqb "(" c = false /\ Ascii.eqb ")" c = false /\ Ascii.eqb "[" c = false /\ Ascii.eqb "*" c = false
  /\ Ascii.eqb "]" c = false.
Proof. all_ascii c; intros _; repeat split. Qed.

Lemma name_no c n : (forall x, name_char x = true -> Ascii.eqb c x = false) -> forallb name_char n = true -> has c n = false.
Proof. apply has_of_chars. Qed.

Lemma str_eqb_sym a b : str_eqb a b = str_eqb b a.
Proof.
  revert b. induction a; destruct b; simpl; auto. now rewrite IHa, Ascii.eqb_sym.
Qed.

Lemma nocv_facts P : forallb (fun p => negb (is_cv p)) P = true ->
  count CONST P = 0 /\ count VOLATILE P = 0 /\ mem CONST P = false /\ mem VOLATILE P = false
  /\ filter (fun p => negb (mem p [CONST; VOLATILE])) P = P.
Proof.
  induction P; intros H; [repeat split; reflexivity|].
  cbn [forallb] in H. apply andb_true_iff in H. destruct H as [H1 H2]. destruct (IHP H2) as (A1 & A2 & A3 & A4 & A5).
  unfold is_cv in H1. apply negb_true_iff in H1. apply orb_false_iff in H1. destruct H1 as [C1 C2].
  unfold count, mem in *. cbn [filter existsb].
  rewrite (str_eqb_sym CONST a), (str_eqb_sym VOLATILE a), C1, C2.
  cbn [orb negb]. repeat split; auto. f_equal. exact A5.
Qed.

Record wfn (n : str) : Prop := mk_wfn {
  n_valid : valid_name n = true; n_chars : forallb name_char n = true;
  n_hd : hd_nonspace n = true; n_last : last_nonspace n = true;
  n_nocv : forallb (fun p => negb (is_cv p)) (split_ws n) = true; n_norm : join sp (split_ws n) = n }.

Lemma wf_name_wfn n : wf_name n = true -> wfn n.
Proof.
  unfold wf_name. intros H. do 5 (apply andb_true_iff in H; destruct H as [H ?]).
  constructor; auto. now apply str_eqb_eq.
Qed.

Lemma split_cvn n c v : hd_nonspace n = true ->
  split_ws (cvn n c v) = opt c "const" ++ opt v "volatile" ++ split_ws n.
Proof.
  intros H. destruct c, v.
  - change (cvn n true true) with (L "const" ++ " " :: (L "volatile" ++ " " :: n)).
    rewrite split_ws_word; try reflexivity; try discriminate.
    rewrite split_ws_word; try reflexivity; try discriminate; auto.
  - change (cvn n true false) with (L "const" ++ " " :: n).
    rewrite split_ws_word; try reflexivity; try discriminate; auto.
  - change (cvn n false true) with (L "volatile" ++ " " :: n).
    rewrite split_ws_word; try reflexivity; try discriminate; auto.
  - reflexivity.
Qed.

Lemma last_nonspace_cons c s : last_nonspace s = true -> last_nonspace (c :: s) = true.
Proof. apply (last_nonspace_app [c]). Qed.

Lemma cvn_head n c v : wfn n -> head (cvn n c v).
Proof.
  intros [_ Hc H1 H2 _ _].
  assert (N1 : has "(" n = false) by (apply name_no; auto; intros x Hx; apply name_char_props in Hx; tauto).
  assert (N2 : has ")" n = false) by (apply name_no; auto; intros x Hx; apply name_char_props in Hx; tauto).
  assert (N3 : has "[" n = false) by (apply name_no; auto; intros x Hx; apply name_char_props in Hx; tauto).
  destruct c, v; unfold cvn; simpl; constructor;
    rewrite ?has_app; simpl; rewrite ?N1, ?N2, ?N3; auto;
    try (repeat apply last_nonspace_cons; assumption).
Qed.

Lemma count_app x a b : count x (a ++ b) = count x a + count x b.
Proof. unfold count. now rewrite filter_app, app_length. Qed.
Lemma mem_app x a b : mem x (a ++ b) = mem x a || mem x b.
Proof. unfold mem. apply existsb_app. Qed.

Lemma cv_opts_facts c v :
  count CONST (opt c "const" ++ opt v "volatile") = (if c then 1 else 0)
  /\ count VOLATILE (opt c "const" ++ opt v "volatile") = (if v then 1 else 0)
  /\ mem CONST (opt c "const" ++ opt v "volatile") = c
  /\ mem VOLATILE (opt c "const" ++ opt v "volatile") = v
  /\ filter (fun p => negb (mem p [CONST; VOLATILE])) (opt c "const" ++ opt v "volatile") = [].
Proof. destruct c, v; vm_compute; repeat split; reflexivity. Qed.

Lemma hparse_val n c v : wfn n -> hparse (cvn n c v) None (TValue n c v false).
Proof.
  intros Hn g Hg. pose proof (cvn_head n c v Hn) as Hh. destruct Hn as [Hv Hc H1 H2 Hcv Hnorm].
  destruct g; [lia|]. cbn [pmp]. rewrite (no_special _ (h_lp _ Hh)).
  assert (NS : has "*" (cvn n c v) = false).
  { assert (N : has "*" n = false) by (apply name_no; auto; intros x Hx; apply name_char_props in Hx; tauto).
    destruct c, v; unfold cvn; simpl; rewrite ?has_app; simpl; rewrite ?N; reflexivity. }
  rewrite rfind_idx_none; auto.
  rewrite strip_id by apply Hh.
  unfold parse_quals. rewrite split_cvn; auto.
  destruct (nocv_facts _ Hcv) as (A1 & A2 & A3 & A4 & A5).
  destruct (cv_opts_facts c v) as (B1 & B2 & B3 & B4 & B5).
  rewrite app_assoc. cbn [existsb]. set (A := opt c "const" ++ opt v "volatile") in *.
  rewrite !(count_app _ A), A1, A2, B1, B2, (filter_app _ A), A5, B5, !(mem_app _ A), A3, A4, B3, B4.
  cbn [app]. rewrite Hnorm.
  change (mem CONST [CONST; VOLATILE]) with true. change (mem VOLATILE [CONST; VOLATILE]) with true.
  destruct c, v; simpl; rewrite Hv; reflexivity.
Qed.

(* ------------------------------------------------------------------ one level of the declaration *)
Lemma head_sp_nolb h : head h -> has "[" (h ++ [" "]) = false.
Proof. intros Hh. rewrite has_app, (h_lb _ Hh). reflexivity. Qed.

Lemma pma_noarr h acc X : head h -> hparse h acc X -> parse_maybe_array h acc = Some X.
Proof.
  intros Hh HX. unfold parse_maybe_array. rewrite ext_search_none by apply Hh.
  unfold parse_maybe_pointer. apply HX. lia.
Qed.

Lemma pma_arr h acc X ex : head h -> ex <> [] -> hparse h acc X ->
  parse_maybe_array (h ++ " " :: ext_str ex) acc = Some (TArray X ex).
Proof.
  intros Hh Hex HX. unfold parse_maybe_array.
  replace (h ++ " " :: ext_str ex) with ((h ++ [" "]) ++ ext_str ex) by (now rewrite <- app_assoc).
  rewrite ext_search_app; auto using head_sp_nolb.
  rewrite map_opt_ints, strip_app_space by apply Hh.
  unfold parse_maybe_pointer. rewrite HX by lia. reflexivity.
Qed.

Lemma ext_str_no c ex : (forall x, intchar x = true -> Ascii.eqb c x = false) ->
  Ascii.eqb c "[" = false -> Ascii.eqb c "]" = false -> has c (ext_str ex) = false.
Proof.
  intros H H1 H2. induction ex; [reflexivity|]. rewrite ext_str_cons. simpl. rewrite H1.
  rewrite has_app, (str_of_Z_no c H). simpl. now rewrite H2, IHex.
Qed.
Lemma ext_str_nolp ex : has "(" (ext_str ex) = false.
Proof. apply ext_str_no; auto. intros x Hx. apply intchar_props in Hx. tauto. Qed.
Lemma ext_str_norp ex : has ")" (ext_str ex) = false.
Proof. apply ext_str_no; auto. intros x Hx. apply intchar_props in Hx. tauto. Qed.
Lemma ext_str_ne ex : ex <> [] -> ext_str ex <> [].
Proof. destruct ex; [congruence|]. rewrite ext_str_cons. discriminate. Qed.
Lemma ext_str_app a b : ext_str (a ++ b) = ext_str a ++ ext_str b.
Proof. unfold ext_str. now rewrite map_app, concat_app. Qed.
Lemma ext_str_last ex : ex <> [] -> last_nonspace (ext_str ex) = true.
Proof.
  intros H. destruct (exists_last H) as (ex' & z & ->). rewrite ext_str_app, ext_str_cons.
  apply last_nonspace_app. change ("[" :: str_of_Z z ++ "]" :: ext_str []) with (("[" :: str_of_Z z) ++ ["]"]).
  now apply last_nonspace_snoc.
Qed.

(* the parser with peeling and the stack loop fused: outermost level first *)
Fixpoint PL (fuel : nat) (s : str) (acc : option ctype) : option ctype :=
  if str_eqb s special then parse_maybe_array s acc else
  match find_idx "(" s, rfind_idx ")" s with
  | None, None => parse_maybe_array s acc
  | Some a, Some b =>
      if (a <? b)%nat then
        match fuel with
        | O => None
        | S f => match parse_maybe_array (firstn a s ++ skipn (S b) s) acc with
                 | Some t => PL f (firstn (b - S a) (skipn (S a) s)) (Some t)
                 | None => None
                 end
        end
      else None
  | _, _ => None
  end.

Lemma run_stack_single s acc : run_stack [s] acc = parse_maybe_array s acc.
Proof. simpl. now destruct (parse_maybe_array s acc). Qed.

Lemma peel_PL f : forall s acc,
  match peel f s with Some st => run_stack (rev st) acc | None => None end = PL f s acc.
Proof.
  induction f; intros s acc; cbn [peel PL].
  - destruct (str_eqb s special); [apply run_stack_single|].
    destruct (find_idx "(" s) as [a|], (rfind_idx ")" s) as [b|]; try reflexivity; try apply run_stack_single.
    destruct (a <? b)%nat; reflexivity.
  - destruct (str_eqb s special); [apply run_stack_single|].
    destruct (find_idx "(" s) as [a|], (rfind_idx ")" s) as [b|]; try reflexivity; try apply run_stack_single.
    destruct (a <? b)%nat; [|reflexivity].
    specialize (IHf (firstn (b - S a) (skipn (S a) s))).
    destruct (peel f (firstn (b - S a) (skipn (S a) s))) as [out|].
    + rewrite rev_app_distr. cbn [rev app run_stack].
      destruct (parse_maybe_array (firstn a s ++ skipn (S b) s) acc); auto.
    + destruct (parse_maybe_array (firstn a s ++ skipn (S b) s) acc); auto.
Qed.

Lemma PL_noparen f s acc : has "(" s = false -> has ")" s = false -> PL f s acc = parse_maybe_array s acc.
Proof.
  intros H1 H2. destruct f; cbn [PL]; rewrite (no_special _ H1), find_idx_none, rfind_idx_none; auto.
Qed.

Lemma paren_not_special h rest : has "(" h = false -> h ++ " " :: "(" :: rest <> special.
Proof.
  intros Hh E. pose proof (f_equal (find_idx "(") E) as F.
  replace (h ++ " " :: "(" :: rest) with ((h ++ [" "]) ++ "(" :: rest) in F by (now rewrite <- app_assoc).
  rewrite find_idx_app in F by (rewrite has_app, Hh; reflexivity).
  change (find_idx "(" special) with (Some 6) in F. injection F as F. rewrite app_length in F. simpl in F.
  destruct h as [|a [|b [|c [|d [|e [|]]]]]]; simpl in F; try lia.
  vm_compute in E. discriminate.
Qed.

Lemma PL_paren f h e post acc : has "(" h = false -> has ")" post = false ->
  length (h ++ " " :: "(" :: e ++ ")" :: post) <= f ->
  PL f (h ++ " " :: "(" :: e ++ ")" :: post) acc =
  match parse_maybe_array (h ++ " " :: post) acc with
  | Some t => PL (pred f) e (Some t)
  | None => None
  end.
Proof.
  intros Hh Hp Hf. set (s := h ++ " " :: "(" :: e ++ ")" :: post) in *.
  assert (NS : str_eqb s special = false) by (apply str_eqb_neq, paren_not_special; auto).
  assert (Fa : find_idx "(" s = Some (length (h ++ [" "]))).
  { unfold s. replace (h ++ " " :: "(" :: e ++ ")" :: post) with ((h ++ [" "]) ++ "(" :: (e ++ ")" :: post))
      by (now rewrite <- app_assoc).
    apply find_idx_app. rewrite has_app, Hh. reflexivity. }
  assert (Fb : rfind_idx ")" s = Some (length (h ++ " " :: "(" :: e))).
  { unfold s. replace (h ++ " " :: "(" :: e ++ ")" :: post) with ((h ++ " " :: "(" :: e) ++ ")" :: post)
      by (rewrite <- app_assoc; reflexivity).
    now apply rfind_idx_app. }
  assert (La : length (h ++ [" "]) = S (length h)) by (rewrite app_length; simpl; lia).
  assert (Lb : length (h ++ " " :: "(" :: e) = length h + 2 + length e) by (rewrite app_length; simpl; lia).
  destruct f.
  { unfold s in Hf. rewrite app_length in Hf. simpl in Hf. lia. }
  cbn [PL pred]. rewrite NS, Fa, Fb.
  assert (LT : (length (h ++ [" "]) <? length (h ++ " " :: "(" :: e))%nat = true) by (apply Nat.ltb_lt; lia).
  rewrite LT.
  assert (E1 : firstn (length (h ++ [" "])) s = h ++ [" "]).
  { unfold s. replace (h ++ " " :: "(" :: e ++ ")" :: post) with ((h ++ [" "]) ++ "(" :: (e ++ ")" :: post))
      by (now rewrite <- app_assoc). apply firstn_len_app. }
  assert (E2 : skipn (S (length (h ++ " " :: "(" :: e))) s = post).
  { unfold s. replace (h ++ " " :: "(" :: e ++ ")" :: post) with ((h ++ " " :: "(" :: e) ++ ")" :: post)
      by (rewrite <- app_assoc; reflexivity). apply skipn_S_len_app. }
  assert (E3 : skipn (S (length (h ++ [" "]))) s = e ++ ")" :: post).
  { unfold s. replace (h ++ " " :: "(" :: e ++ ")" :: post) with ((h ++ [" "]) ++ "(" :: (e ++ ")" :: post))
      by (now rewrite <- app_assoc). apply skipn_S_len_app. }
  rewrite E1, E2, E3.
  replace (length (h ++ " " :: "(" :: e) - S (length (h ++ [" "]))) with (length e) by lia.
  rewrite firstn_len_app. rewrite <- app_assoc. reflexivity.
Qed.

(* ------------------------------------------------------------------ what a declarator means for the parser *)
Definition R (d : str) (K : ctype -> option ctype) : Prop :=
  forall h acc X f, head h -> hparse h acc X -> length (spcat h d) <= f -> PL f (spcat h d) acc = K X.
Definition Rin (e : str) (K : ctype -> option ctype) : Prop :=
  forall Y f, length e <= f -> PL f e (Some Y) = K Y.
Definition Rgen (arr : bool) (d : str) (K : ctype -> option ctype) : Prop :=
  if arr then (d = [] /\ forall X, K X = Some X) \/ (exists e, d = "(" :: e ++ [")"] /\ Rin e K)
  else R d K.

Lemma R_nil : R [] Some.
Proof.
  intros h acc X f Hh HX _. simpl. rewrite PL_noparen by apply Hh. now apply pma_noarr.
Qed.

Lemma R_array d K ex : ex <> [] -> Rgen true d K -> R (d ++ ext_str ex) (fun X => K (TArray X ex)).
Proof.
  intros Hex HR h acc X f Hh HX Hf. pose proof (ext_str_ne ex Hex) as Hne.
  destruct HR as [[-> HK] | (e & -> & HR)].
  - simpl app in *. unfold spcat in *. destruct (ext_str ex) eqn:E; [congruence|]. rewrite <- E in *.
    rewrite PL_noparen.
    + rewrite HK. now apply pma_arr.
    + rewrite has_app, (h_lp _ Hh). simpl. apply ext_str_nolp.
    + rewrite has_app, (h_rp _ Hh). simpl. apply ext_str_norp.
  - assert (E : spcat h (("(" :: e ++ [")"]) ++ ext_str ex) = h ++ " " :: "(" :: e ++ ")" :: ext_str ex).
    { simpl. now rewrite <- app_assoc. }
    rewrite E in *. rewrite PL_paren; auto using ext_str_norp; try apply Hh.
    rewrite (pma_arr h acc X ex); auto. apply HR.
    rewrite app_length in Hf. simpl in Hf. rewrite app_length in Hf. simpl in Hf. lia.
Qed.

Lemma spcat_len h d : length h <= length (spcat h d).
Proof. destruct d; simpl; auto. rewrite app_length. lia. Qed.

Lemma R_pointer d K c v r : R d K -> R (spcat (star_q c v r) d) (fun X => K (TPointer X false c v r)).
Proof.
  intros HR h acc X f Hh HX Hf.
  assert (NE : spcat (star_q c v r) d <> []).
  { pose proof (star_q_ne c v r). destruct d; simpl; auto. destruct (star_q c v r); [congruence|discriminate]. }
  rewrite spcat_assoc in * by apply star_q_ne.
  apply HR; auto using head_ptr, hparse_ptr.
Qed.

Lemma Rin_pointer d K c v r : R d K -> Rin (spcat (star_q c v r) d) (fun X => K (TPointer X false c v r)).
Proof.
  intros HR Y f Hf. apply HR; auto using star_q_head, hparse_ptr0.
Qed.

Lemma wf_value n c v nl : wf (TValue n c v nl) = true -> wfn n /\ nl = false.
Proof. simpl. intros H. apply andb_true_iff in H. destruct H as [H1 H2]. split; [now apply wf_name_wfn|]. now destruct nl. Qed.

Lemma main t : wf t = true -> forall d K, Rgen (is_array t) d K ->
  forall f, length (decl_aux t d) <= f -> PL f (decl_aux t d) None = K t.
Proof.
  induction t as [n c v nl | inner IH ex | inner IH nl c v r]; intros Hwf d K HR f Hf.
  - destruct (wf_value _ _ _ _ Hwf) as [Hn ->]. cbn [decl_aux is_array Rgen] in *.
    rewrite join_val in *. apply HR; auto using cvn_head, hparse_val.
  - cbn [wf] in Hwf. apply andb_true_iff in Hwf. destruct Hwf as [Hwf W3].
    apply andb_true_iff in Hwf. destruct Hwf as [W1 W2]. apply negb_true_iff in W1.
    cbn [decl_aux] in *. apply (IH W3 _ (fun X => K (TArray X ex))); auto.
    rewrite W1. cbn [Rgen]. apply R_array; auto. destruct ex; [discriminate|congruence].
  - cbn [wf] in Hwf. apply andb_true_iff in Hwf. destruct Hwf as [W1 W2]. apply negb_true_iff in W1. subst nl.
    cbn [decl_aux is_array Rgen] in *. rewrite join_ptr in *.
    apply (IH W2 _ (fun X => K (TPointer X false c v r))); auto.
    destruct (is_array inner); cbn [Rgen].
    + right. eexists. split; [reflexivity|]. now apply Rin_pointer.
    + now apply R_pointer.
Qed.

(* ------------------------------------------------------------------ the printed string needs no stripping *)
Lemma spcat_edges h d : hd_nonspace h = true -> last_nonspace h = true -> (d = [] \/ last_nonspace d = true) ->
  hd_nonspace (spcat h d) = true /\ last_nonspace (spcat h d) = true.
Proof.
  intros H1 H2 Hd. destruct d as [|x d]; simpl; auto. split.
  - now apply hd_nonspace_app.
  - destruct Hd as [Hd|Hd]; [discriminate|]. change (h ++ " " :: x :: d) with (h ++ [" "] ++ x :: d).
    rewrite app_assoc. now apply last_nonspace_app.
Qed.

Lemma decl_edges t : wf t = true -> forall d, (d = [] \/ last_nonspace d = true) ->
  hd_nonspace (decl_aux t d) = true /\ last_nonspace (decl_aux t d) = true.
Proof.
  induction t as [n c v nl | inner IH ex | inner IH nl c v r]; intros Hwf d Hd.
  - destruct (wf_value _ _ _ _ Hwf) as [Hn ->]. cbn [decl_aux]. rewrite join_val.
    pose proof (cvn_head n c v Hn) as Hh. apply spcat_edges; auto; apply Hh.
  - cbn [wf] in Hwf. apply andb_true_iff in Hwf. destruct Hwf as [Hwf W3].
    apply andb_true_iff in Hwf. destruct Hwf as [W1 W2].
    cbn [decl_aux]. apply IH; auto. right. apply last_nonspace_app. apply ext_str_last.
    destruct ex; [discriminate|congruence].
  - cbn [wf] in Hwf. apply andb_true_iff in Hwf. destruct Hwf as [W1 W2]. apply negb_true_iff in W1. subst nl.
    cbn [decl_aux]. rewrite join_ptr. apply IH; auto. right.
    pose proof (star_q_head c v r) as Hs.
    destruct (spcat_edges (star_q c v r) d (h_hd _ Hs) (h_last _ Hs) Hd) as [_ E].
    destruct (is_array inner); auto.
    change ("(" :: spcat (star_q c v r) d ++ [")"]) with (("(" :: spcat (star_q c v r) d) ++ [")"]).
    now apply last_nonspace_snoc.
Qed.

(* ------------------------------------------------------------------ the theorems *)
Theorem parse_decl_chars t : wf t = true -> parse_chars (decl_chars t) = Some t.
Proof.
  intros Hwf. unfold parse_chars, decl_chars.
  destruct (decl_edges t Hwf [] (or_introl eq_refl)) as [E1 E2].
  rewrite strip_id; auto. rewrite (peel_PL _ _ None).
  apply (main t Hwf [] Some); auto.
  destruct (is_array t); cbn [Rgen]; [left; auto | apply R_nil].
Qed.

Theorem parse_decl t : wf t = true -> parse_type (decl t) = Some t.
Proof.
  intros Hwf. unfold parse_type, decl, L. rewrite list_ascii_of_string_of_list_ascii.
  now apply parse_decl_chars.
Qed.

Theorem decl_parse_image t s : wf t = true -> s = decl t ->
  exists t', parse_type s = Some t' /\ decl t' = s.
Proof. intros Hwf ->. exists t. split; auto using parse_decl. Qed.

Lemma special_roundtrip :
  parse_type (decl (TValue special false false false)) = Some (TValue special false false false).
Proof. vm_compute. reflexivity. Qed.
