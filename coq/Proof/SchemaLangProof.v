(* Proofs about Model/SchemaLang.v (C41). *)
From Coq Require Import NArith ZArith List Bool Lia.
From MJV Require Import Model.SchemaLang Model.SchemaLangSpec.
Import ListNotations.
Open Scope N_scope.

(* ------------------------------------------------------------------ strings *)

Lemma str_eqb_eq : forall a b, str_eqb a b = true <-> a = b.
Proof.
  induction a as [|x a IH]; destruct b as [|y b]; simpl; split; intro H; try discriminate; auto.
  - apply andb_true_iff in H. destruct H as [H1 H2]. apply N.eqb_eq in H1. apply IH in H2. congruence.
  - inversion H; subst. rewrite N.eqb_refl. simpl. apply IH. reflexivity.
Qed.

Lemma str_eqb_refl : forall a, str_eqb a a = true.
Proof. intro a. apply str_eqb_eq. reflexivity. Qed.

Lemma smem_In : forall x l, smem x l = true <-> In x l.
Proof.
  induction l as [|y l IH]; simpl.
  - split; [discriminate | tauto].
  - rewrite orb_true_iff, IH, str_eqb_eq. split; intros [H|H]; auto.
Qed.

(* ------------------------------------------------------------------ lexer *)

Lemma cnl_app : forall a b, cnl (a ++ b) = cnl a + cnl b.
Proof. induction a; simpl; intros; [reflexivity | rewrite IHa; lia]. Qed.

Lemma span_spec : forall p l a b, span p l = (a, b) -> l = a ++ b /\ Forall (fun c => p c = true) a.
Proof.
  induction l as [|c l IH]; simpl; intros a b H.
  - inversion H; subst. split; [reflexivity | constructor].
  - destruct (p c) eqn:Hp.
    + destruct (span p l) as [a' b'] eqn:Hs. inversion H; subst.
      destruct (IH _ _ eq_refl) as [H1 H2]. split; [simpl; congruence | constructor; assumption].
    + inversion H; subst. split; [reflexivity | constructor].
Qed.

Lemma cnl_forall : forall p a, p 10 = false -> Forall (fun c => p c = true) a -> cnl a = 0.
Proof.
  intros p a Hp H. induction H as [|c a Hc _ IH]; simpl; [reflexivity|].
  destruct (N.eqb_spec c 10); [subst; congruence | lia].
Qed.

Lemma span_cnl : forall p l a b, p 10 = false -> span p l = (a, b) -> l = a ++ b /\ cnl a = 0.
Proof.
  intros p l a b Hp H. apply span_spec in H. destruct H as [H1 H2]. split; [assumption|].
  eapply cnl_forall; eauto.
Qed.

Lemma is_digit_10 : is_digit 10 = false. Proof. reflexivity. Qed.
Lemma is_ws_10 : is_ws 10 = false. Proof. reflexivity. Qed.
Lemma not_nl_10 : not_nl 10 = false. Proof. reflexivity. Qed.
Lemma str_char_10 : str_char 10 = false. Proof. reflexivity. Qed.
Lemma is_alnum_10 : is_alnum_ 10 = false. Proof. reflexivity. Qed.

Lemma match_exp_spec : forall l ex r, match_exp l = (ex, r) -> l = ex ++ r /\ cnl ex = 0.
Proof.
  intros l ex r H. unfold match_exp in H.
  destruct l as [|e l1]; [inversion H; subst; auto|].
  destruct ((e =? 101) || (e =? 69)) eqn:He; [|inversion H; subst; auto].
  assert (He10 : (e =? 10) = false).
  { apply orb_true_iff in He. destruct He as [He|He]; apply N.eqb_eq in He; subst; reflexivity. }
  destruct l1 as [|s l2]; [inversion H; subst; auto|].
  destruct ((s =? 43) || (s =? 45)) eqn:Hs.
  - assert (Hs10 : (s =? 10) = false).
    { apply orb_true_iff in Hs. destruct Hs as [Hs|Hs]; apply N.eqb_eq in Hs; subst; reflexivity. }
    destruct (span is_digit l2) as [ds r''] eqn:Hsp.
    apply (span_cnl _ _ _ _ is_digit_10) in Hsp. destruct Hsp as [Hl Hc].
    destruct ds; inversion H; subst; auto.
    split; [reflexivity|]. simpl in *. rewrite He10, Hs10. lia.
  - destruct (span is_digit (s :: l2)) as [ds r''] eqn:Hsp.
    apply (span_cnl _ _ _ _ is_digit_10) in Hsp. destruct Hsp as [Hl Hc].
    destruct ds; inversion H; subst; auto.
    split; [simpl; rewrite Hl; reflexivity|]. simpl in *. rewrite He10. lia.
Qed.

Lemma eqb_10 : forall c k, (c =? k) = true -> k <> 10 -> (c =? 10) = false.
Proof. intros c k H Hk. apply N.eqb_eq in H. subst. apply N.eqb_neq. assumption. Qed.

Lemma match_number_spec : forall l v r, match_number l = Some (v, r) -> l = v ++ r /\ cnl v = 0 /\ v <> [].
Proof.
  intros l v r H. unfold match_number in H.
  (* sign *)
  assert (Hs : exists sg l1, (match l with c :: r0 => if c =? 45 then ([45], r0) else ([], l) | [] => ([], l) end) = (sg, l1)
                             /\ l = sg ++ l1 /\ cnl sg = 0).
  { destruct l as [|c l0]; [exists [], []; auto|].
    destruct (c =? 45) eqn:Hc.
    - apply N.eqb_eq in Hc; subst. exists [45], l0. auto.
    - exists [], (c :: l0). auto. }
  destruct Hs as (sg & l1 & Hsg & Hl & Hcs). rewrite Hsg in H. clear Hsg.
  destruct (span is_digit l1) as [ds l2] eqn:Hsp.
  apply (span_cnl _ _ _ _ is_digit_10) in Hsp. destruct Hsp as [Hl1 Hcd].
  destruct ds as [|d0 ds].
  - (* .digits *)
    simpl in Hl1. subst l2.
    destruct l1 as [|d r1]; [discriminate|].
    destruct (d =? 46) eqn:Hd; [|discriminate].
    pose proof (eqb_10 _ _ Hd ltac:(lia)) as Hd10. apply N.eqb_eq in Hd; subst d.
    destruct (span is_digit r1) as [fd r'] eqn:Hsp2.
    apply (span_cnl _ _ _ _ is_digit_10) in Hsp2. destruct Hsp2 as [Hr1 Hcf].
    destruct fd as [|f0 fd]; [discriminate|].
    destruct (match_exp r') as [ex l4] eqn:Hex. apply match_exp_spec in Hex. destruct Hex as [Hr' Hce].
    inversion H; subst. split; [|split].
    + rewrite <- !app_assoc. simpl. rewrite <- !app_assoc. reflexivity.
    + rewrite !cnl_app. simpl cnl at 2. rewrite cnl_app. simpl in Hcf. simpl. lia.
    + destruct sg; discriminate.
  - (* digits+ fraction? exponent? *)
    assert (Hf : exists frac l3,
               (match l2 with
                | d :: r0 => if d =? 46 then match r0 with
                                            | d2 :: _ => if d2 =? 46 then ([], l2) else let (fd, r') := span is_digit r0 in (46 :: fd, r')
                                            | [] => ([46], [])
                                            end else ([], l2)
                | [] => ([], l2) end) = (frac, l3) /\ l2 = frac ++ l3 /\ cnl frac = 0).
    { destruct l2 as [|d r0]; [exists [], []; auto|].
      destruct (d =? 46) eqn:Hd; [|exists [], (d :: r0); auto].
      apply N.eqb_eq in Hd; subst d.
      destruct r0 as [|d2 r2]; [exists [46], []; auto|].
      destruct (d2 =? 46) eqn:Hd2; [exists [], (46 :: d2 :: r2); auto|].
      destruct (span is_digit (d2 :: r2)) as [fd r'] eqn:Hsp2.
      apply (span_cnl _ _ _ _ is_digit_10) in Hsp2. destruct Hsp2 as [Hr1 Hcf].
      exists (46 :: fd), r'. split; [reflexivity|]. split; [simpl; rewrite Hr1; reflexivity | simpl; lia]. }
    destruct Hf as (frac & l3 & Hfr & Hl2 & Hcfr). rewrite Hfr in H. clear Hfr.
    destruct (match_exp l3) as [ex l4] eqn:Hex. apply match_exp_spec in Hex. destruct Hex as [Hl3 Hce].
    inversion H; subst. split; [|split].
    + simpl. rewrite <- !app_assoc. simpl. rewrite <- !app_assoc. reflexivity.
    + change (sg ++ d0 :: ds ++ frac ++ ex) with (sg ++ (d0 :: ds) ++ frac ++ ex). rewrite !cnl_app. lia.
    + destruct sg; discriminate.
Qed.

Definition lx_nl (lx : lexeme) : N := match lx with LNewline => 1 | _ => 0 end.

Lemma is_ws_not10 : forall c, is_ws c = true -> (c =? 10) = false.
Proof.
  intros c H. unfold is_ws in H. apply orb_true_iff in H.
  destruct H as [H|H]; apply N.eqb_eq in H; subst; reflexivity.
Qed.
Lemma is_alpha_not10 : forall c, is_alpha_ c = true -> (c =? 10) = false.
Proof. intros c H. destruct (N.eqb_spec c 10); [subst; discriminate | reflexivity]. Qed.
Lemma is_punct_not10 : forall c, is_punct c = true -> (c =? 10) = false.
Proof. intros c H. destruct (N.eqb_spec c 10); [subst; discriminate | reflexivity]. Qed.

Lemma lex1_spec : forall l lx r, lex1 l = Some (lx, r) ->
  exists w, l = w ++ r /\ w <> [] /\ cnl w = lx_nl lx.
Proof.
  intros l lx r H. unfold lex1 in H. destruct l as [|c l0]; [discriminate|].
  destruct (is_ws c) eqn:Hws.
  { destruct (span is_ws l0) as [a r'] eqn:Hsp. apply (span_cnl _ _ _ _ is_ws_10) in Hsp. destruct Hsp as [Hl Hc].
    inversion H; subst. exists (c :: a). split; [reflexivity|]. split; [discriminate|].
    simpl. rewrite (is_ws_not10 _ Hws). lia. }
  destruct (c =? 35) eqn:H35.
  { destruct (span not_nl l0) as [a r'] eqn:Hsp. apply (span_cnl _ _ _ _ not_nl_10) in Hsp. destruct Hsp as [Hl Hc].
    inversion H; subst. exists (c :: a). split; [reflexivity|]. split; [discriminate|].
    simpl. rewrite (eqb_10 _ _ H35 ltac:(lia)). lia. }
  destruct (c =? 10) eqn:H10.
  { inversion H; subst. exists [c]. split; [reflexivity|]. split; [discriminate|]. simpl. rewrite H10. reflexivity. }
  (* string *)
  match type of H with match ?X with _ => _ end = _ => destruct X as [[lx0 r0]|] eqn:Hstr end.
  { inversion H; subst lx0 r0. clear H.
    destruct (c =? 34) eqn:H34; [|discriminate].
    destruct (span str_char l0) as [a r'] eqn:Hsp. apply (span_cnl _ _ _ _ str_char_10) in Hsp. destruct Hsp as [Hl Hc].
    destruct r' as [|q r'']; [discriminate|]. destruct (q =? 34) eqn:Hq; [|discriminate].
    inversion Hstr; subst. apply N.eqb_eq in Hq; subst q.
    exists (c :: a ++ [34]). split; [simpl; rewrite <- app_assoc; reflexivity|]. split; [discriminate|].
    simpl. rewrite H10, cnl_app, Hc. reflexivity. }
  clear Hstr.
  destruct (match_number (c :: l0)) as [[v r']|] eqn:Hnum.
  { inversion H; subst. apply match_number_spec in Hnum. destruct Hnum as (Hl & Hc & Hne).
    exists v. auto. }
  match type of H with match ?X with _ => _ end = _ => destruct X as [[lx0 r0]|] eqn:Hdd end.
  { inversion H; subst lx0 r0. clear H.
    destruct (c =? 46) eqn:H46; [|discriminate]. destruct l0 as [|d r']; [discriminate|].
    destruct (d =? 46) eqn:Hd; [|discriminate]. inversion Hdd; subst.
    exists [c; d]. split; [reflexivity|]. split; [discriminate|]. simpl.
    rewrite H10, (eqb_10 _ _ Hd ltac:(lia)). reflexivity. }
  clear Hdd.
  destruct (is_alpha_ c) eqn:Hal.
  { destruct (span is_alnum_ l0) as [a r'] eqn:Hsp. apply (span_cnl _ _ _ _ is_alnum_10) in Hsp. destruct Hsp as [Hl Hc].
    inversion H; subst. exists (c :: a). split; [reflexivity|]. split; [discriminate|]. simpl. rewrite H10. lia. }
  destruct (is_punct c) eqn:Hpu; [|discriminate].
  inversion H; subst. exists [c]. split; [reflexivity|]. split; [discriminate|]. simpl. rewrite H10. reflexivity.
Qed.

Ltac dmatch H :=
  repeat match type of H with
         | context [match ?X with _ => _ end] => destruct X eqn:?; try discriminate
         | context [if ?X then _ else _] => destruct X eqn:?; try discriminate
         end.

Lemma lex1_noeof : forall l v r, lex1 l = Some (LTok KEof v, r) -> False.
Proof.
  intros l v r H. unfold lex1 in H. dmatch H; try (inversion H; fail).
  - inversion H; subst. match goal with E : _ = Some (LTok KEof _, _) |- _ => dmatch E; inversion E end.
  - inversion H; subst. match goal with E : _ = Some (LTok KEof _, _) |- _ => dmatch E; inversion E end.
Qed.

(* ------------------------------------------------------------------ token lists *)

Definition tok_ok (lo hi : N) (t : token) : Prop := lo <= tln t <= hi.

(* non-empty, exactly one Eof token, at the end; all lines within lo..hi *)
Fixpoint wf (lo hi : N) (ts : list token) : Prop :=
  match ts with
  | [] => False
  | t :: r => tok_ok lo hi t /\ match r with [] => tk t = KEof /\ tv t = [] | _ :: _ => tk t <> KEof /\ wf lo hi r end
  end.

Lemma wf_weaken : forall lo lo' hi hi' ts, lo' <= lo -> hi <= hi' -> wf lo hi ts -> wf lo' hi' ts.
Proof.
  induction ts as [|t r IH]; simpl; intros Hlo Hhi H; [assumption|].
  destruct H as [Ht Hr]. split; [unfold tok_ok in *; lia|].
  destruct r; [assumption|]. destruct Hr as [Hk Hr]. split; [assumption | apply IH; assumption].
Qed.

Lemma lex_loop_S : forall f c l0 line,
  lex_loop (S f) (c :: l0) line =
  match lex1 (c :: l0) with
  | None => SchemaErr line
  | Some (lx, r) =>
    match lx with
    | LWs => lex_loop f r line
    | LNewline => lex_loop f r (line + 1)
    | LComment v => match lex_loop f r line with Ok (ts, cs) => Ok (ts, (line, py_strip v) :: cs) | e => e end
    | LTok k v => match lex_loop f r line with Ok (ts, cs) => Ok (Tok k v line :: ts, cs) | e => e end
    end
  end.
Proof. reflexivity. Qed.

Lemma lex_loop_spec : forall fuel l line,
  (List.length l <= fuel)%nat ->
  match lex_loop fuel l line with
  | Ok (ts, _) => wf line (line + cnl l) ts
  | SchemaErr e => line <= e <= line + cnl l
  | PyExn _ => False
  end.
Proof.
  induction fuel as [|f IH]; intros l line Hlen.
  - destruct l; [|simpl in Hlen; lia]. simpl. unfold tok_ok. simpl. split; [lia | split; reflexivity].
  - destruct l as [|c l0].
    + simpl. unfold tok_ok. simpl. split; [lia | split; reflexivity].
    + rewrite lex_loop_S. remember (c :: l0) as l eqn:El.
      destruct (lex1 l) as [[lx r]|] eqn:H1; [|simpl; lia].
      pose proof (lex1_spec _ _ _ H1) as (w & Hw & Hne & Hc).
      assert (Hr : (List.length r <= f)%nat).
      { rewrite Hw in Hlen. rewrite app_length in Hlen. destruct w; [congruence|]. simpl in Hlen. lia. }
      assert (Hcl : cnl l = lx_nl lx + cnl r) by (rewrite Hw at 1; rewrite cnl_app; lia).
      destruct lx; cbn [lx_nl] in Hcl.
      * specialize (IH r line Hr). destruct (lex_loop f r line) as [[ts cs]|e|e]; [| |assumption].
        -- rewrite Hcl. assumption.
        -- lia.
      * specialize (IH r (line + 1) Hr). destruct (lex_loop f r (line + 1)) as [[ts cs]|e|e]; [| |assumption].
        -- refine (wf_weaken _ _ _ _ _ _ _ IH). all: lia.
        -- lia.
      * specialize (IH r line Hr). destruct (lex_loop f r line) as [[ts cs]|e|e]; [| |assumption].
        -- rewrite Hcl. assumption.
        -- lia.
      * specialize (IH r line Hr). destruct (lex_loop f r line) as [[ts cs]|e|e]; [| |assumption].
        -- rewrite Hcl. simpl. split; [unfold tok_ok; simpl; lia|].
           destruct ts as [|t0 ts0]; [simpl in IH; contradiction|].
           split; [|assumption]. simpl. intro Hk. subst k. eapply lex1_noeof; eauto.
        -- lia.
Qed.

Lemma lex_spec : forall text,
  match lex text with
  | Ok (ts, _) => wf 1 (1 + cnl text) ts
  | SchemaErr e => 1 <= e <= 1 + cnl text
  | PyExn _ => False
  end.
Proof. intro text. unfold lex. apply lex_loop_spec. lia. Qed.

(* ------------------------------------------------------------------ parser: generic specification *)

Section ParserSpec.
Variable L : N.

(* token list invariant used below: lines within 1..L, one Eof token at the end, whose value is empty *)
Fixpoint wfL (ts : list token) : Prop :=
  match ts with
  | [] => False
  | t :: r => lok L (tln t) /\ match r with [] => tk t = KEof /\ tv t = [] | _ :: _ => tk t <> KEof /\ wfL r end
  end.

(* p, run on a well-formed token list of length <= n, never raises a Python exception, reports errors on
   lines 1..L only, leaves a well-formed token list (strictly shorter when [strict]) and returns a value in Q *)
Definition pspec {A} (n : nat) (Q : A -> Prop) (strict : bool) (p : parser A) : Prop :=
  forall ts, wfL ts -> (List.length ts <= n)%nat ->
    match p ts with
    | POk a r => Q a /\ wfL r /\ (if strict then List.length r < List.length ts else List.length r <= List.length ts)%nat
    | PErr l => lok L l
    | PExn _ => False
    end.

Lemma pspec_0 : forall A Q s (p : parser A), pspec 0 Q s p.
Proof. intros A Q s p ts Hw Hl. destruct ts; [contradiction | simpl in Hl; lia]. Qed.

Lemma pspec_ret : forall A n (Q : A -> Prop) a, Q a -> pspec n Q false (ret a).
Proof. intros A n Q a Ha ts Hw Hl. simpl. auto. Qed.

Lemma pspec_perr : forall A n (Q : A -> Prop) s l, lok L l -> pspec n Q s (@perr A l).
Proof. intros A n Q s l Hl ts Hw Hn. simpl. assumption. Qed.

Lemma pspec_weak : forall A n (Q Q' : A -> Prop) s (p : parser A),
  pspec n Q s p -> (forall a, Q a -> Q' a) -> pspec n Q' false p.
Proof.
  intros A n Q Q' s p H HQ ts Hw Hl. specialize (H ts Hw Hl).
  destruct (p ts); auto. destruct H as (H1 & H2 & H3). split; [auto|]. split; [auto|]. destruct s; lia.
Qed.

Lemma pspec_weakQ : forall A n (Q Q' : A -> Prop) s (p : parser A),
  pspec n Q s p -> (forall a, Q a -> Q' a) -> pspec n Q' s p.
Proof.
  intros A n Q Q' s p H HQ ts Hw Hl. specialize (H ts Hw Hl).
  destruct (p ts); auto. destruct H as (H1 & H2 & H3). auto.
Qed.

Lemma pspec_le : forall A n m (Q : A -> Prop) s (p : parser A), (m <= n)%nat -> pspec n Q s p -> pspec m Q s p.
Proof. intros A n m Q s p Hm H ts Hw Hl. apply H; [assumption | lia]. Qed.

(* bind, non-strict conclusion *)
Lemma pspec_bind : forall A B n (Qa : A -> Prop) (Qb : B -> Prop) sa sb (p : parser A) (k : A -> parser B),
  pspec n Qa sa p -> (forall a, Qa a -> pspec n Qb sb (k a)) -> pspec n Qb false (bind p k).
Proof.
  intros A B n Qa Qb sa sb p k Hp Hk ts Hw Hl. unfold bind. specialize (Hp ts Hw Hl).
  destruct (p ts) as [a r|l|e]; auto. destruct Hp as (Ha & Hr & Hlen).
  assert (Hrn : (List.length r <= n)%nat) by (destruct sa; lia).
  specialize (Hk a Ha r Hr Hrn). destruct (k a r) as [b r'|l|e]; auto.
  destruct Hk as (Hb & Hr' & Hlen'). split; [auto|]. split; [auto|]. destruct sa, sb; lia.
Qed.

(* bind after a strict parser: the continuation only sees shorter lists *)
Lemma pspec_bind_s : forall A B n (Qa : A -> Prop) (Qb : B -> Prop) sb (p : parser A) (k : A -> parser B),
  pspec n Qa true p -> (forall a, Qa a -> pspec (pred n) Qb sb (k a)) -> pspec n Qb true (bind p k).
Proof.
  intros A B n Qa Qb sb p k Hp Hk ts Hw Hl. unfold bind. specialize (Hp ts Hw Hl).
  destruct (p ts) as [a r|l|e]; auto. destruct Hp as (Ha & Hr & Hlen).
  assert (Hrn : (List.length r <= pred n)%nat) by lia.
  specialize (Hk a Ha r Hr Hrn). destruct (k a r) as [b r'|l|e]; auto.
  destruct Hk as (Hb & Hr' & Hlen'). split; [auto|]. split; [auto|]. destruct sb; lia.
Qed.

Lemma pspec_strict_any : forall A n (Q : A -> Prop) s (p : parser A), pspec n Q true p -> pspec n Q s p.
Proof.
  intros A n Q s p H ts Hw Hl. specialize (H ts Hw Hl). destruct (p ts); auto.
  destruct H as (H1 & H2 & H3). split; [auto|]. split; [auto|]. destruct s; lia.
Qed.

(* next: the continuation must fail at once when it is handed the Eof token *)
Lemma pspec_next_bind : forall B n (Q : B -> Prop) s (k : token -> parser B),
  (forall t, lok L (tln t) -> tk t <> KEof -> pspec (pred n) Q s (k t)) ->
  (forall t, lok L (tln t) -> tk t = KEof -> tv t = [] -> exists l, k t [] = PErr l /\ lok L l) ->
  pspec n Q true (bind next k).
Proof.
  intros B n Q s k Hk He ts Hw Hl. unfold bind, next. destruct ts as [|t r]; [contradiction|].
  simpl in Hw. destruct Hw as [Ht Hr]. destruct r as [|t' r'].
  - destruct Hr as [Hk1 Hv]. destruct (He t Ht Hk1 Hv) as (l & E & Hlk). rewrite E. assumption.
  - destruct Hr as [Hne Hr]. simpl in Hl.
    assert (Hn : (List.length (t' :: r') <= pred n)%nat) by (simpl; lia).
    specialize (Hk t Ht Hne (t' :: r') Hr Hn). destruct (k t (t' :: r')) as [b r''|l|e]; auto.
    destruct Hk as (Hb & Hr'' & Hlen). split; [auto|]. split; [auto|]. simpl. simpl in Hlen. destruct s; lia.
Qed.

Lemma tkind_eqb_eq : forall a b, tkind_eqb a b = true <-> a = b.
Proof.
  intros a b; destruct a, b; simpl; split; intro H; try discriminate; try reflexivity.
  - apply N.eqb_eq in H. congruence.
  - inversion H. apply N.eqb_refl.
Qed.

Lemma pspec_expect : forall n k, k <> KEof ->
  pspec n (fun t => tk t = k /\ lok L (tln t)) true (expect k).
Proof.
  intros n k Hk. unfold expect. apply pspec_next_bind with (s := false).
  - intros t Ht Hne. destruct (tkind_eqb (tk t) k) eqn:E.
    + apply pspec_ret. apply tkind_eqb_eq in E. auto.
    + apply pspec_perr. assumption.
  - intros t Ht He Hv. destruct (tkind_eqb (tk t) k) eqn:E.
    + apply tkind_eqb_eq in E. congruence.
    + exists (tln t). auto.
Qed.

Lemma pspec_expect_ident : forall n, pspec n (fun _ => True) true expect_ident.
Proof.
  intro n. unfold expect_ident. eapply pspec_bind_s.
  - apply pspec_expect. discriminate.
  - intros t _. apply pspec_ret. exact I.
Qed.

Lemma pspec_peek : forall n, pspec n (fun t => lok L (tln t)) false peek.
Proof.
  intros n ts Hw Hl. unfold peek. destruct ts as [|t r]; [contradiction|].
  split; [|split; [assumption | lia]]. simpl in Hw. tauto.
Qed.

Lemma pspec_accept : forall n k, k <> KEof -> pspec n (fun _ : option token => True) false (accept k).
Proof.
  intros n k Hk ts Hw Hl. unfold accept, bind, peek, next, ret. destruct ts as [|t r]; [contradiction|].
  destruct (tkind_eqb (tk t) k) eqn:E.
  - apply tkind_eqb_eq in E. simpl in Hw. destruct Hw as [Ht Hr]. destruct r as [|t' r'].
    + destruct Hr as [He _]. congruence.
    + destruct Hr as [_ Hr]. split; [exact I|]. split; [assumption | simpl; lia].
  - split; [exact I|]. split; [assumption | lia].
Qed.

Lemma pspec_accept_val : forall n k v, k <> KEof -> pspec n (fun _ : option token => True) false (accept_val k v).
Proof.
  intros n k v Hk ts Hw Hl. unfold accept_val, bind, peek, next, ret. destruct ts as [|t r]; [contradiction|].
  destruct (tkind_eqb (tk t) k && str_eqb (tv t) v) eqn:E.
  - apply andb_true_iff in E. destruct E as [E _].
    apply tkind_eqb_eq in E. simpl in Hw. destruct Hw as [Ht Hr]. destruct r as [|t' r'].
    + destruct Hr as [He _]. congruence.
    + destruct Hr as [_ Hr]. split; [exact I|]. split; [assumption | simpl; lia].
  - split; [exact I|]. split; [assumption | lia].
Qed.


Ltac pb :=
  lazymatch goal with
  | |- pspec _ _ _ (bind (expect _) _) =>
    apply pspec_strict_any; eapply pspec_bind_s with (sb := false); [apply pspec_expect; discriminate | intros ? [? ?]]
  | |- pspec _ _ _ (bind expect_ident _) =>
    apply pspec_strict_any; eapply pspec_bind_s with (sb := false); [apply pspec_expect_ident | intros ? _]
  | |- pspec _ _ false (bind (accept _) _) =>
    eapply pspec_bind with (sb := false); [apply pspec_accept; discriminate | intros ? _]
  | |- pspec _ _ false (bind (accept_val _ _) _) =>
    eapply pspec_bind with (sb := false); [apply pspec_accept_val; discriminate | intros ? _]
  | |- pspec _ _ false (bind peek _) =>
    eapply pspec_bind with (sb := false); [apply pspec_peek | intros ? ?]
  | |- pspec _ _ _ (bind next _) =>
    apply pspec_strict_any; apply pspec_next_bind with (s := false); [intros ? ? ? | intros ? ? ? ?]
  | |- pspec _ _ false (ret _) => apply pspec_ret
  | |- pspec _ _ _ (perr _) => apply pspec_perr
  end.

Lemma pspec_parse_int : forall n t, lok L (tln t) -> pspec n (fun v => (0 <= v)%Z) false (parse_int t).
Proof.
  intros n t Ht. unfold parse_int. destruct (py_int (tv t)) as [v|]; [|pb; assumption].
  destruct (v <? 0)%Z eqn:E; [pb; assumption|]. pb. apply Z.ltb_ge in E. assumption.
Qed.

Lemma pspec_parse_arity : forall n, pspec n arity_ok false parse_arity.
Proof.
  intro n. unfold parse_arity. pb. destruct a as [t0|].
  2:{ pb. unfold arity_ok; simpl; lia. }
  pb. destruct a as [t1|]. { pb. unfold arity_ok; simpl; lia. }
  pb. eapply pspec_bind with (sb := false); [apply pspec_parse_int; assumption|]. intros lo Hlo. cbv beta in Hlo.
  pb. destruct a0 as [t2|].
  2:{ pb. pb. unfold arity_ok; simpl; lia. }
  pb.
  - eapply pspec_bind with (sa := false) (sb := false) (Qa := fun hi => match hi with HiInt h => (lo <= h)%Z | _ => True end).
    + destruct (tk t) eqn:Ek; try (pb; assumption).
      * eapply pspec_bind with (sb := false); [apply pspec_parse_int; assumption|]. intros h Hh. cbv beta in Hh.
        destruct (h <=? lo)%Z eqn:E; [pb; assumption|]. pb. apply Z.leb_gt in E. lia.
      * pb. exact I.
    + intros hi Hhi. pb. pb. unfold arity_ok; simpl. split; [assumption|]. destruct hi; auto.
  - destruct t as [k v l]; simpl in *; subst. exists l. split; [reflexivity | assumption].
Qed.

Lemma target_type_has : forall s ty, target_type_of s = Some ty -> has_target ty = true.
Proof. intros s ty H. unfold target_type_of in H. dmatch H; inversion H; reflexivity. Qed.
Lemma scalar_no_target : forall s ty, scalar_of s = Some ty -> has_target ty = false.
Proof. intros s ty H. unfold scalar_of in H. dmatch H; inversion H; reflexivity. Qed.

Definition type_ok (x : atype * option str * arity) : Prop :=
  let '(ty, target, ar) := x in
  arity_ok ar /\ (if has_target ty then (exists t, target = Some t) /\ ar = Arity 1 (HiInt 1) else target = None).

Lemma pspec_parse_type : forall n, pspec n type_ok false parse_type.
Proof.
  intro n. unfold parse_type. pb.
  destruct (target_type_of (tv a)) as [ty|] eqn:Et.
  - pb. pb. pb. pb. unfold type_ok. rewrite (target_type_has _ _ Et).
    split; [unfold arity_ok; simpl; lia|]. split; [eauto | reflexivity].
  - destruct (scalar_of (tv a)) as [ty|] eqn:Es; [|pb; assumption].
    eapply pspec_bind with (sb := false); [apply pspec_parse_arity|]. intros ar Har.
    pb. unfold type_ok. rewrite (scalar_no_target _ _ Es). auto.
Qed.

Lemma pspec_default_tail : forall fuel n acc, (n < fuel)%nat ->
  pspec n (fun _ : list fl => True) false (default_tail fuel acc).
Proof.
  induction fuel as [|f IH]; intros n acc Hn; [lia|].
  destruct n as [|n']; [apply pspec_0|]. simpl. pb. destruct a as [t|]; [|pb; exact I].
  pb. simpl pred. apply IH. lia.
Qed.

Lemma pspec_parse_default : forall fuel n, (n < fuel)%nat ->
  pspec n (fun _ : dflt => True) false (parse_default fuel).
Proof.
  intros fuel n Hn. unfold parse_default. pb.
  - destruct (tk t) eqn:Ek; try (pb; first [exact I | assumption]).
    destruct (c =? c_lbrace); [|pb; assumption].
    pb. eapply pspec_bind with (sb := false); [apply pspec_default_tail; lia|]. intros vs _.
    pb. pb. exact I.
  - destruct t as [k v l]; simpl in *; subst. exists l. split; [reflexivity | assumption].
Qed.

Lemma fhas_In : forall fs k, fhas fs k = true <-> In k (map fst fs).
Proof.
  unfold fhas. induction fs as [|[k' v] fs IH]; intro k; simpl.
  - split; [discriminate | tauto].
  - destruct (str_eqb k' k) eqn:E.
    + apply str_eqb_eq in E. subst. split; auto.
    + rewrite IH. split; [auto|]. intros [H|H]; [|assumption]. subst. rewrite str_eqb_refl in E. discriminate.
Qed.

Lemma NoDup_snoc : forall (A : Type) (l : list A) x, NoDup l -> ~ In x l -> NoDup (l ++ [x]).
Proof.
  induction l as [|y l IH]; simpl; intros x Hnd Hx.
  - constructor; [tauto | constructor].
  - inversion Hnd; subst. constructor.
    + rewrite in_app_iff. simpl. intros [H|[H|[]]]; [tauto | subst; tauto].
    + apply IH; tauto.
Qed.

Lemma facets_ok_snoc : forall known fs k v,
  facets_ok known fs -> In k known -> ~ In k (map fst fs) -> facets_ok known (fs ++ [(k, v)]).
Proof.
  intros known fs k v [Hnd Hkn] Hk Hnot. split.
  - rewrite map_app. simpl. apply NoDup_snoc; assumption.
  - apply Forall_app. split; [assumption|]. constructor; [assumption | constructor].
Qed.

Lemma pspec_parse_facets : forall fuel n known acc, (n < fuel)%nat -> facets_ok known acc ->
  pspec n (facets_ok known) false (parse_facets fuel known acc).
Proof.
  induction fuel as [|f IH]; intros n known acc Hn Hacc; [lia|].
  destruct n as [|n']; [apply pspec_0|]. simpl. pb. simpl pred.
  destruct (smem (tv a) known) eqn:Ekn; simpl. 2:{ pb; assumption. }
  destruct (fhas acc (tv a)) eqn:Edup; [pb; assumption|].
  assert (Hacc' : forall v, facets_ok known (acc ++ [(tv a, v)])).
  { intro v. apply facets_ok_snoc; [assumption | apply smem_In; assumption|].
    intro Hin. apply fhas_In in Hin. congruence. }
  pb. eapply pspec_bind with (sa := false) (sb := false) (Qa := fun _ => True).
  - destruct a0 as [t0|]; [|pb; exact I]. pb.
    + destruct (tk t) eqn:Ek; try (pb; first [exact I | assumption]).
    + destruct t as [k v l]; simpl in *; subst. exists l. split; [reflexivity | assumption].
  - intros v _. pb. destruct a1 as [t1|]; [pb; apply Hacc'|].
    pb. destruct n' as [|n'']; [apply pspec_0|]. simpl pred. apply IH; [lia | apply Hacc'].
Qed.

Definition attr_q (a : attr) : Prop := lok L (a_line a) /\ attr_syn a.
Definition member_q (ac : bool) (m : member) : Prop := lok L (member_line m) /\ member_syn ac m.

Lemma facets_ok_nil : forall known, facets_ok known [].
Proof. intro known. split; constructor. Qed.

Lemma pspec_parse_attr : forall fuel n cs t, (n < fuel)%nat -> lok L (tln t) ->
  pspec n attr_q false (parse_attr fuel cs t).
Proof.
  intros fuel n cs t Hn Ht. unfold parse_attr. pb.
  eapply pspec_bind with (sb := false); [apply pspec_parse_type|]. intros [[ty target] ar] Hty.
  pb. eapply pspec_bind with (sa := false) (sb := false) (Qa := fun _ => True).
  { destruct a0; [eapply pspec_weak; [apply pspec_parse_default; lia | auto] | pb; exact I]. }
  intros d _. pb.
  eapply pspec_bind with (sa := false) (sb := false) (Qa := facets_ok known_facets).
  { destruct a1; [apply pspec_parse_facets; [lia | apply facets_ok_nil] | pb; apply facets_ok_nil]. }
  intros fs Hfs. pb. unfold attr_q, attr_syn. simpl. unfold type_ok in Hty. tauto.
Qed.

Lemma pspec_bundle_tail : forall fuel n acc, (n < fuel)%nat -> acc <> [] ->
  pspec n (fun b : list str => b <> []) false (bundle_tail fuel acc).
Proof.
  induction fuel as [|f IH]; intros n acc Hn Hacc; [lia|].
  destruct n as [|n']; [apply pspec_0|]. simpl. pb. destruct a as [t|].
  - pb. simpl pred. apply IH; [lia | discriminate].
  - pb. intro E. apply (f_equal (@rev str)) in E. rewrite rev_involutive in E. simpl in E. auto.
Qed.

Lemma pspec_bundles_loop : forall fuel n line acc, (n < fuel)%nat -> Forall (fun b => b <> []) acc ->
  pspec n (fun bs : list (list str) => Forall (fun b => b <> []) bs) false (bundles_loop fuel line acc).
Proof.
  induction fuel as [|f IH]; intros n line acc Hn Hacc; [lia|].
  destruct n as [|n']; [apply pspec_0|]. cbn [bundles_loop]. pb.
  destruct (tkind_eqb (tk a) KIdent && (tln a =? line)).
  - pb. simpl pred. eapply pspec_bind with (sb := false); [apply pspec_bundle_tail; [lia | discriminate]|].
    intros b Hb. apply IH; [lia | constructor; assumption].
  - pb. apply Forall_rev. assumption.
Qed.

Lemma smem_card_nil : smem [] cardinalities = false. Proof. reflexivity. Qed.

Lemma pspec_parse_member_plain : forall fuel n cs ac t, (n < fuel)%nat -> lok L (tln t) ->
  pspec n (member_q ac) false (parse_member_plain fuel cs ac t).
Proof.
  intros fuel n cs ac t Hn Ht. unfold parse_member_plain.
  destruct (str_eqb (tv t) k_set).
  { destruct ac; cbn [negb]; [|pb; assumption]. pb. pb. pb. pb. split; simpl; auto. }
  destruct (str_eqb (tv t) k_child).
  { destruct ac; cbn [negb]; [|pb; assumption]. pb. pb.
    - destruct (smem (tv t0) cardinalities) eqn:E; cbn [negb]; [|pb; assumption].
      pb. split; [simpl; assumption|]. cbn [member_syn]. split; [reflexivity | apply smem_In; assumption].
    - destruct t0 as [k v l]; simpl in *; subst. exists l. split; [reflexivity | assumption]. }
  eapply pspec_bind with (sb := false); [apply pspec_parse_attr; assumption|]. intros a Ha.
  pb. exact Ha.
Qed.

Lemma pspec_parse_member : forall fuel n cs ac, (n < fuel)%nat ->
  pspec n (member_q ac) true (parse_member fuel cs ac).
Proof.
  intros fuel n cs ac Hn. unfold parse_member.
  eapply pspec_bind_s with (sb := false); [apply pspec_expect; discriminate|]. intros t [Hk Ht].
  destruct (str_eqb (tv t) k_use).
  { pb. pb. split; simpl; auto. }
  destruct (verb_of (tv t)) as [kind|]; [|apply pspec_parse_member_plain; [lia | assumption]].
  pb. destruct (tkind_eqb (tk a) KIdent); [|apply pspec_parse_member_plain; [lia | assumption]].
  eapply pspec_bind with (sb := false); [apply pspec_bundles_loop; [lia | constructor]|]. intros bs Hbs.
  destruct (List.length bs <? 2)%nat eqn:E; [pb; assumption|].
  pb. apply Nat.ltb_ge in E. split; simpl; auto.
Qed.

Lemma pspec_members_loop : forall fuel fuel0 n cs ac acc, (n < fuel)%nat -> (n < fuel0)%nat ->
  Forall (member_q ac) acc ->
  pspec n (fun ms => Forall (member_q ac) ms /\ (acc <> [] -> ms <> [])) false (members_loop fuel fuel0 cs ac acc).
Proof.
  induction fuel as [|f IH]; intros fuel0 n cs ac acc Hn Hn0 Hacc; [lia|].
  destruct n as [|n']; [apply pspec_0|]. cbn [members_loop]. pb. destruct a as [t|].
  - pb. split; [apply Forall_rev; assumption|].
    intros Hne E. apply (f_equal (@rev member)) in E. rewrite rev_involutive in E. simpl in E. auto.
  - apply pspec_strict_any. eapply pspec_bind_s with (sb := false); [apply pspec_parse_member; lia|].
    intros m Hm. simpl pred. eapply pspec_weakQ.
    + apply IH; [lia | lia | constructor; assumption].
    + intros ms [H1 H2]. split; [assumption|]. intros _. apply H2. discriminate.
Qed.

Lemma pspec_enum_items : forall fuel n seen acc, (n < fuel)%nat -> seen = map fst acc -> NoDup seen ->
  pspec n (fun items : list (str * str) => NoDup (map fst items)) false (enum_items fuel seen acc).
Proof.
  induction fuel as [|f IH]; intros n seen acc Hn Hseen Hnd; [lia|].
  destruct n as [|n']; [apply pspec_0|]. cbn [enum_items]. pb. destruct a as [t|].
  { pb. rewrite map_rev. apply NoDup_rev. subst seen. assumption. }
  pb.
  2:{ destruct t as [k v l]; simpl in *; subst. exists l. split; [reflexivity | assumption]. }
  simpl pred.
  eapply pspec_bind with (sa := false) (sb := false) (Qa := fun _ => True).
  { destruct (tk t); pb; first [exact I | assumption]. }
  intros key _. destruct (smem key seen) eqn:Es; [pb; assumption|].
  pb. pb.
  2:{ destruct t0 as [k v l]; simpl in *; subst. exists l. split; [reflexivity | assumption]. }
  assert (Hnext : pspec (pred (pred n')) (fun items : list (str * str) => NoDup (map fst items)) false
                        (enum_items f (key :: seen) ((key, tv t0) :: acc))).
  { destruct n' as [|[|n'']]; try apply pspec_0. simpl pred. apply IH; [lia | simpl; congruence|].
    constructor; [|assumption]. intro Hin. apply smem_In in Hin. congruence. }
  destruct (tk t0); try (pb; assumption); exact Hnext.
Qed.

Lemma pspec_opt_ident_after : forall n k, k <> KEof -> pspec n (fun _ : option str => True) false (opt_ident_after k).
Proof.
  intros n k Hk. unfold opt_ident_after.
  eapply pspec_bind with (sb := false); [apply pspec_accept; assumption|]. intros c _.
  destruct c; [|pb; exact I]. pb. pb. exact I.
Qed.

Definition enum_q (e : enum) : Prop := lok L (en_line e) /\ enum_syn e.
Definition group_q (g : group) : Prop :=
  (lok L (g_line g) /\ Forall (fun m => lok L (member_line m)) (g_members g)) /\ group_syn g.
Definition element_q (e : element) : Prop :=
  (lok L (e_line e) /\ Forall (fun m => lok L (member_line m)) (e_members e)) /\ element_syn e.

Lemma pspec_parse_enum : forall fuel n cs line, (n < fuel)%nat -> lok L line ->
  pspec n enum_q false (parse_enum fuel cs line).
Proof.
  intros fuel n cs line Hn Hl. unfold parse_enum. pb.
  eapply pspec_bind with (sb := false); [apply pspec_opt_ident_after; discriminate|]. intros ctype _.
  pb. eapply pspec_bind with (sb := false); [apply pspec_enum_items; [lia | reflexivity | constructor]|].
  intros items Hit. destruct items as [|i0 items]; [pb; assumption|].
  pb. split; [assumption|]. split; [discriminate | assumption].
Qed.

Lemma Forall_member_q_split : forall ac ms, Forall (member_q ac) ms ->
  Forall (fun m => lok L (member_line m)) ms /\ Forall (member_syn ac) ms.
Proof.
  intros ac ms H. induction H as [|m ms [H1 H2] _ [IH1 IH2]]; split; constructor; assumption.
Qed.

Lemma pspec_parse_group : forall fuel n cs line, (n < fuel)%nat -> lok L line ->
  pspec n group_q false (parse_group fuel cs line).
Proof.
  intros fuel n cs line Hn Hl. unfold parse_group. pb. pb. pb.
  eapply pspec_bind with (sb := false); [apply pspec_members_loop; [lia | lia | constructor]|].
  intros ms [Hms _]. apply Forall_member_q_split in Hms. destruct Hms as [H1 H2].
  destruct ms as [|m0 ms]; [pb; assumption|].
  pb. split; [split; assumption|]. split; [discriminate | assumption].
Qed.

Lemma pspec_parse_element : forall fuel n cs line, (n < fuel)%nat -> lok L line ->
  pspec n element_q false (parse_element fuel cs line).
Proof.
  intros fuel n cs line Hn Hl. unfold parse_element. pb.
  eapply pspec_bind with (sb := false); [apply pspec_opt_ident_after; discriminate|]. intros spec _.
  pb. eapply pspec_bind with (sa := false) (sb := false) (Qa := facets_ok element_facets).
  { destruct a0; [apply pspec_parse_facets; [lia | apply facets_ok_nil] | pb; apply facets_ok_nil]. }
  intros fs Hfs. pb.
  eapply pspec_bind with (sb := false); [apply pspec_members_loop; [lia | lia | constructor]|].
  intros ms [Hms _]. apply Forall_member_q_split in Hms. destruct Hms as [H1 H2].
  pb. split; [split; assumption|]. split; assumption.
Qed.

Definition schema_q (s : schema) : Prop := schema_lines L s /\ schema_syn s.

Lemma find_enum_none : forall l n, find_enum l n = None -> ~ In n (map en_name l).
Proof.
  induction l as [|e l IH]; simpl; intros n H; [tauto|].
  destruct (str_eqb (en_name e) n) eqn:E; [discriminate|].
  intros [Hin|Hin]; [subst; rewrite str_eqb_refl in E; discriminate | exact (IH _ H Hin)].
Qed.
Lemma find_group_none : forall l n, find_group l n = None -> ~ In n (map g_name l).
Proof.
  induction l as [|e l IH]; simpl; intros n H; [tauto|].
  destruct (str_eqb (g_name e) n) eqn:E; [discriminate|].
  intros [Hin|Hin]; [subst; rewrite str_eqb_refl in E; discriminate | exact (IH _ H Hin)].
Qed.
Lemma find_element_none : forall l n, find_element l n = None -> ~ In n (map e_name l).
Proof.
  induction l as [|e l IH]; simpl; intros n H; [tauto|].
  destruct (str_eqb (e_name e) n) eqn:E; [discriminate|].
  intros [Hin|Hin]; [subst; rewrite str_eqb_refl in E; discriminate | exact (IH _ H Hin)].
Qed.

Lemma Forall_snoc : forall (A : Type) (P : A -> Prop) l x, Forall P l -> P x -> Forall P (l ++ [x]).
Proof. intros. apply Forall_app. split; [assumption | constructor; [assumption | constructor]]. Qed.

Lemma pspec_parse_loop : forall fuel fuel0 n cs sch, (n < fuel)%nat -> (n < fuel0)%nat -> schema_q sch ->
  pspec n schema_q false (parse_loop fuel fuel0 cs sch).
Proof.
  induction fuel as [|f IH]; intros fuel0 n cs sch Hn Hn0 Hs; [lia|].
  destruct n as [|n']; [apply pspec_0|]. cbn [parse_loop]. pb.
  destruct (tkind_eqb (tk a) KEof); [pb; assumption|].
  pb. simpl pred.
  destruct Hs as [(Hl1 & Hl2 & Hl3) (Hn1 & Hn2 & Hn3 & Hs1 & Hs2 & Hs3)].
  destruct (str_eqb (tv a0) k_enum).
  { eapply pspec_bind with (sb := false); [apply pspec_parse_enum; [lia | assumption]|]. intros e [He1 He2].
    destruct (find_enum (s_enums sch) (en_name e)) eqn:Ef; [pb; assumption|].
    destruct n' as [|n'']; [apply pspec_0|]. apply IH; [lia | lia|].
    split; [split; [|split]; simpl; try assumption; apply Forall_snoc; assumption|].
    repeat split; simpl; try assumption.
    - rewrite map_app. simpl. apply NoDup_snoc; [assumption | apply find_enum_none; assumption].
    - apply Forall_snoc; assumption. }
  destruct (str_eqb (tv a0) k_group).
  { eapply pspec_bind with (sb := false); [apply pspec_parse_group; [lia | assumption]|]. intros g [Hg1 Hg2].
    destruct (find_group (s_groups sch) (g_name g)) eqn:Ef; [pb; assumption|].
    destruct n' as [|n'']; [apply pspec_0|]. apply IH; [lia | lia|].
    split; [split; [|split]; simpl; try assumption; apply Forall_snoc; assumption|].
    repeat split; simpl; try assumption.
    - rewrite map_app. simpl. apply NoDup_snoc; [assumption | apply find_group_none; assumption].
    - apply Forall_snoc; assumption. }
  destruct (str_eqb (tv a0) k_element); [|pb; assumption].
  eapply pspec_bind with (sb := false); [apply pspec_parse_element; [lia | assumption]|]. intros e [He1 He2].
  destruct (find_element (s_elements sch) (e_name e)) eqn:Ef; [pb; assumption|].
  destruct n' as [|n'']; [apply pspec_0|]. apply IH; [lia | lia|].
  split; [split; [|split]; simpl; try assumption; apply Forall_snoc; assumption|].
  repeat split; simpl; try assumption.
  - rewrite map_app. simpl. apply NoDup_snoc; [assumption | apply find_element_none; assumption].
  - apply Forall_snoc; assumption.
Qed.

End ParserSpec.

(* ------------------------------------------------------------------ parse_text *)

Lemma wf_wfL : forall L ts, wf 1 L ts -> wfL L ts.
Proof.
  induction ts as [|t r IH]; simpl; intro H; [assumption|].
  destruct H as [Ht Hr]. split; [exact Ht|]. destruct r; [assumption|].
  destruct Hr as [Hk Hr]. split; [assumption | apply IH; assumption].
Qed.

Lemma schema_q_empty : forall L, schema_q L (Schema [] [] []).
Proof. intro L. split; [repeat split; constructor | repeat split; constructor]. Qed.

Lemma parse_text_spec : forall text,
  match parse_text text with
  | Ok s => schema_lines (cnl text + 1) s /\ schema_syn s
  | SchemaErr l => 1 <= l <= cnl text + 1
  | PyExn _ => False
  end.
Proof.
  intro text. unfold parse_text. pose proof (lex_spec text) as Hlex.
  destruct (lex text) as [[ts cs]|l|e]; [| lia | assumption].
  replace (1 + cnl text) with (cnl text + 1) in Hlex by lia.
  apply wf_wfL in Hlex.
  pose proof (pspec_parse_loop (cnl text + 1) (S (List.length ts)) (S (List.length ts)) (List.length ts) cs (Schema [] [] [])
                               ltac:(lia) ltac:(lia) (schema_q_empty _) ts Hlex ltac:(lia)) as H.
  destruct (parse_loop _ _ cs _ ts) as [s r|l|e]; [|exact H|exact H].
  destruct H as [H _]. exact H.
Qed.

(* ------------------------------------------------------------------ validation: outcome classes *)

Definition vprop (P : N -> Prop) (X : pyexn -> Prop) (r : vres) : Prop :=
  match r with VOk => True | VErr l => P l | VExn e => X e end.

Lemma vprop_then : forall P X a b, vprop P X a -> (a = VOk -> vprop P X b) -> vprop P X (a >>> b).
Proof. intros P X a b Ha Hb. destruct a; simpl in *; auto. Qed.

Lemma vprop_for : forall A P X (f : A -> vres) l, (forall x, In x l -> vprop P X (f x)) -> vprop P X (vfor f l).
Proof.
  induction l as [|x l IH]; simpl; intro H; [exact I|].
  pose proof (H x (or_introl eq_refl)) as Hx. destruct (f x); simpl in *; auto.
Qed.

Lemma vprop_check : forall (P : N -> Prop) X b l, P l -> vprop P X (vcheck b l).
Proof. intros. unfold vcheck. destruct b; simpl; auto. Qed.

Lemma vthen_ok : forall a b, a >>> b = VOk <-> a = VOk /\ b = VOk.
Proof. intros a b. destruct a; simpl; split; intro H; try tauto; try discriminate; destruct H; discriminate. Qed.

Lemma vfor_ok : forall A (f : A -> vres) l, vfor f l = VOk <-> (forall x, In x l -> f x = VOk).
Proof.
  induction l as [|x l IH]; simpl; split; intro H; auto.
  - tauto.
  - destruct (f x) eqn:E; try discriminate. intros y [Hy|Hy]; [subst; assumption | apply IH; assumption].
  - rewrite (H x (or_introl eq_refl)). apply IH. intros y Hy. apply H. auto.
Qed.

Lemma vcheck_ok : forall b l, vcheck b l = VOk <-> b = true.
Proof. intros b l. unfold vcheck. destruct b; split; intro H; auto; discriminate. Qed.

Definition declared (groups : list group) (n : str) : Prop := In n (map g_name groups).

Lemma find_group_some : forall l n g, find_group l n = Some g -> In g l /\ g_name g = n.
Proof.
  induction l as [|e l IH]; simpl; intros n g H; [discriminate|].
  destruct (str_eqb (g_name e) n) eqn:E.
  - inversion H; subst. apply str_eqb_eq in E. auto.
  - destruct (IH _ _ H). auto.
Qed.

Lemma find_group_declared : forall l n, declared l n -> exists g, find_group l n = Some g.
Proof.
  intros l n H. destruct (find_group l n) eqn:E; [eauto|]. apply find_group_none in E. contradiction.
Qed.

Lemma stack_bound : forall groups (stack : list str),
  NoDup stack -> incl stack (map g_name groups) -> (List.length stack <= List.length groups)%nat.
Proof.
  intros groups stack Hnd Hin. rewrite <- (map_length g_name groups). apply NoDup_incl_length; assumption.
Qed.

Section Validate.
Variable L : N.
Variable groups : list group.
Hypothesis Hglines : Forall (fun g => lok L (g_line g) /\ Forall (fun m => lok L (member_line m)) (g_members g)) groups.

Definition ccX (left : nat) (stack : list str) (e : pyexn) : Prop :=
  e = RecursionError /\ (left + List.length stack < List.length groups + 2)%nat.

Lemma check_cycle_spec : forall left name stack line,
  lok L line -> NoDup stack -> incl stack (map g_name groups) ->
  vprop (lok L) (ccX left stack) (check_cycle_rec groups left name stack line).
Proof.
  induction left as [|left' IH]; intros name stack line Hl Hnd Hin.
  - simpl. split; [reflexivity|]. pose proof (stack_bound _ _ Hnd Hin). lia.
  - cbn [check_cycle_rec]. destruct (smem name stack) eqn:Es.
    + destruct left'; simpl; [|assumption]. split; [reflexivity|]. pose proof (stack_bound _ _ Hnd Hin). lia.
    + destruct (find_group groups name) as [g|] eqn:Ef; [|exact I].
      apply find_group_some in Ef. destruct Ef as [Hg Hname].
      assert (Hnd' : NoDup (stack ++ [name])).
      { apply NoDup_snoc; [assumption|]. intro H. apply smem_In in H. congruence. }
      assert (Hin' : incl (stack ++ [name]) (map g_name groups)).
      { intros x Hx. apply in_app_iff in Hx. destruct Hx as [Hx|[Hx|[]]]; [auto|]. subst. apply in_map. assumption. }
      assert (Hml : Forall (fun m => lok L (member_line m)) (g_members g)).
      { rewrite Forall_forall in Hglines. apply (Hglines g Hg). }
      induction (g_members g) as [|m ms IHm]; [exact I|].
      apply Forall_cons_iff in Hml; destruct Hml as [Hm Hms].
      destruct m; try (apply IHm; assumption).
      specialize (IH g0 (stack ++ [name]) line0 Hm Hnd' Hin').
      destruct (check_cycle_rec groups left' g0 (stack ++ [name]) line0) eqn:Ec; simpl in *.
      * apply IHm; assumption.
      * assumption.
      * destruct IH as [H1 H2]. split; [assumption|]. rewrite app_length in H2. simpl in H2. lia.
Qed.

(* all `use` targets are declared groups (established by the third loop of _validate) *)
Definition uses_ok (ms : list member) : Prop := forall g l, In (MUse g l) ms -> declared groups g.
Hypothesis Huses : forall g, In g groups -> uses_ok (g_members g).

Lemma group_attrs_exn : forall left name e,
  declared groups name -> group_attrs_rec groups left name = GExn e -> e = RecursionError.
Proof.
  induction left as [|left' IH]; intros name e Hd H; simpl in H; [congruence|].
  destruct (find_group_declared _ _ Hd) as [g Ef]. rewrite Ef in H.
  apply find_group_some in Ef. destruct Ef as [Hg _]. pose proof (Huses g Hg) as Hu.
  induction (g_members g) as [|m ms IHm]; [discriminate|].
  assert (Hu' : uses_ok ms) by (intros g' l' Hi; apply (Hu g' l'); right; assumption).
  destruct m; try (apply IHm; assumption).
  - match type of H with match ?X with _ => _ end = _ => destruct X eqn:El end; [discriminate|].
    inversion H; subst. apply IHm; assumption.
  - destruct (group_attrs_rec groups left' g0) eqn:Eg.
    + match type of H with match ?X with _ => _ end = _ => destruct X eqn:El end; [discriminate|].
      inversion H; subst. apply IHm; assumption.
    + inversion H; subst. eapply IH; [|eassumption]. apply (Hu g0 line). left. reflexivity.
Qed.

Lemma group_attrs_ok : forall left name stack line,
  check_cycle_rec groups left name stack line = VOk ->
  NoDup stack -> incl stack (map g_name groups) -> declared groups name ->
  forall left2, (List.length groups <= left2 + List.length stack)%nat ->
  exists l, group_attrs_rec groups left2 name = GOk l /\ Forall (fun a => lok L (a_line a)) l.
Proof.
  induction left as [|left' IH]; intros name stack line Hcc Hnd Hin Hd left2 Hb; [discriminate|].
  cbn [check_cycle_rec] in Hcc. destruct (smem name stack) eqn:Es; [destruct left'; discriminate|].
  destruct (find_group_declared _ _ Hd) as [g Ef]. rewrite Ef in Hcc.
  pose proof (find_group_some _ _ _ Ef) as [Hg Hname].
  assert (Hnd' : NoDup (stack ++ [name])).
  { apply NoDup_snoc; [assumption|]. intro H. apply smem_In in H. congruence. }
  assert (Hin' : incl (stack ++ [name]) (map g_name groups)).
  { intros x Hx. apply in_app_iff in Hx. destruct Hx as [Hx|[Hx|[]]]; [auto|]. subst. apply in_map. assumption. }
  pose proof (stack_bound _ _ Hnd' Hin') as Hsb. rewrite app_length in Hsb. simpl in Hsb.
  destruct left2 as [|left2']; [lia|].
  cbn [group_attrs_rec]. rewrite Ef.
  pose proof (Huses g Hg) as Hu.
  assert (Hml : Forall (fun m => lok L (member_line m)) (g_members g)).
  { rewrite Forall_forall in Hglines. apply (Hglines g Hg). }
  induction (g_members g) as [|m ms IHm]; [exists []; split; [reflexivity | constructor]|].
  assert (Hu' : uses_ok ms) by (intros g' l' Hi; apply (Hu g' l'); right; assumption).
  apply Forall_cons_iff in Hml; destruct Hml as [Hm Hms].
  destruct m.
  - destruct (IHm Hcc Hu' Hms) as (l & El & Hl). rewrite El. exists (a :: l). split; [reflexivity|].
    constructor; assumption.
  - destruct (check_cycle_rec groups left' g0 (stack ++ [name]) line0) eqn:Ec; try discriminate.
    assert (Hd0 : declared groups g0) by (apply (Hu g0 line0); left; reflexivity).
    destruct (IH g0 (stack ++ [name]) line0 Ec Hnd' Hin' Hd0 left2') as (l1 & El1 & Hl1).
    { rewrite app_length. simpl. lia. }
    rewrite El1. destruct (IHm Hcc Hu' Hms) as (l2 & El2 & Hl2). rewrite El2.
    exists (l1 ++ l2). split; [reflexivity | apply Forall_app; split; assumption].
  - apply IHm; assumption.
  - apply IHm; assumption.
  - apply IHm; assumption.
Qed.

End Validate.

Lemma vprop_weaken : forall (P : N -> Prop) (X X' : pyexn -> Prop) r,
  vprop P X r -> (forall e, X e -> X' e) -> vprop P X' r.
Proof. intros P X X' r H HX. destruct r; simpl in *; auto. Qed.

Definition noexn (e : pyexn) : Prop := False.

Lemma group_check_spec : forall L X g,
  Forall (fun m => lok L (member_line m)) (g_members g) -> vprop (lok L) X (group_check g).
Proof.
  intros L X g Hml. unfold group_check. rewrite Forall_forall in Hml. apply vprop_then.
  - apply vprop_for. intros m Hm. specialize (Hml m Hm). destruct m; simpl; try exact I.
    apply vprop_check. assumption.
  - intros _. destruct (g_variant g); [|exact I]. apply vprop_for. intros m Hm. specialize (Hml m Hm).
    destruct m; simpl; try exact I; [apply vprop_check|]; assumption.
Qed.

Lemma uses_declared_spec : forall L X groups ms,
  Forall (fun m => lok L (member_line m)) ms -> vprop (lok L) X (uses_declared groups ms).
Proof.
  intros L X groups ms Hml. unfold uses_declared. rewrite Forall_forall in Hml.
  apply vprop_for. intros m Hm. specialize (Hml m Hm). destruct m; simpl; try exact I.
  apply vprop_check. assumption.
Qed.

Lemma uses_declared_ok : forall groups ms, uses_declared groups ms = VOk -> uses_ok groups ms.
Proof.
  intros groups ms H g l Hin. unfold uses_declared in H. rewrite vfor_ok in H. specialize (H _ Hin). simpl in H.
  apply vcheck_ok in H. destruct (find_group groups g) eqn:E; [|discriminate].
  apply find_group_some in E. destruct E as [E1 E2]. subst. apply in_map. assumption.
Qed.

Lemma children_check_spec : forall L X elements ms seen,
  Forall (fun m => lok L (member_line m)) ms -> vprop (lok L) X (children_check elements seen ms).
Proof.
  intros L X elements ms. induction ms as [|m ms IH]; intros seen Hml; [exact I|].
  apply Forall_cons_iff in Hml. destruct Hml as [Hm Hms]. destruct m; simpl; try (apply IH; assumption).
  destruct (find_element elements name); [|assumption]. destruct (smem name seen); [assumption|]. apply IH. assumption.
Qed.

Lemma dup_check_spec : forall L eline attrs seen,
  lok L eline -> Forall (fun a => lok L (a_line a)) attrs ->
  match dup_check eline seen attrs with Ok _ => True | SchemaErr l => lok L l | PyExn _ => False end.
Proof.
  intros L eline attrs. induction attrs as [|a r IH]; intros seen He Ha; simpl; [exact I|].
  apply Forall_cons_iff in Ha. destruct Ha as [Ha Hr].
  destruct (seen_get seen (a_name a)); [|apply IH; assumption].
  destruct (n <? a_line a); assumption.
Qed.

Lemma constraints_check_spec : forall L X names ms,
  Forall (fun m => lok L (member_line m)) ms -> vprop (lok L) X (constraints_check names ms).
Proof.
  intros L X names ms Hml. unfold constraints_check. rewrite Forall_forall in Hml.
  apply vprop_for. intros m Hm. specialize (Hml m Hm). destruct m; simpl; try exact I.
  apply vprop_then; [apply vprop_check; assumption|]. intros _.
  destruct kind; try exact I. apply vprop_check. assumption.
Qed.

Lemma find_element_some : forall l n e, find_element l n = Some e -> In e l /\ e_name e = n.
Proof.
  induction l as [|x l IH]; simpl; intros n e H; [discriminate|].
  destruct (str_eqb (e_name x) n) eqn:E.
  - inversion H; subst. apply str_eqb_eq in E. auto.
  - destruct (IH _ _ H). auto.
Qed.

Lemma children_check_ok : forall elements ms seen, children_check elements seen ms = VOk ->
  NoDup seen ->
  (forall n c d l, In (MChild n c d l) ms -> exists e, find_element elements n = Some e) /\
  NoDup (child_names ms) /\ (forall n, In n (child_names ms) -> ~ In n seen).
Proof.
  intros elements ms. induction ms as [|m ms IH]; intros seen H Hnd; simpl in H.
  - split; [intros ? ? ? ? []|]. split; [constructor | intros ? []].
  - destruct m; try (destruct (IH _ H Hnd) as (H1 & H2 & H3); split; [|split; assumption];
                     intros n0 c0 d0 l0 [Hin|Hin]; [discriminate | eauto]).
    destruct (find_element elements name) as [e|] eqn:Ef; [|discriminate].
    destruct (smem name seen) eqn:Es; [discriminate|].
    assert (Hns : ~ In name seen) by (intro Hin; apply smem_In in Hin; congruence).
    destruct (IH _ H (NoDup_cons _ Hns Hnd)) as (H1 & H2 & H3). split; [|split].
    + intros n0 c0 d0 l0 [Hin|Hin]; [inversion Hin; subst; eauto | eauto].
    + simpl. constructor; [|assumption]. intro Hin. apply (H3 _ Hin). left. reflexivity.
    + simpl. intros n [Hn|Hn]; [subst; assumption|]. intro Hin. apply (H3 _ Hn). right. assumption.
Qed.

(* ---- the shared depth-first search never raises anything but SchemaError *)

Definition cres_ok (L : N) (r : cres) : Prop :=
  match r with COk _ => True | CErr l => lok L l | CExn _ => False end.

Section Dfs.
Variable L : N.
Variable succ : str -> sres.
Variable U : list str.
Definition edge_ok (nl : str * N) : Prop := lok L (snd nl) /\ succ (fst nl) <> SKeyError.
Hypothesis Hsucc : forall n es, succ n = SEdges es -> In n U /\ Forall edge_ok es.

Lemma dfs_spec : forall fuel es path done,
  NoDup path -> incl path U -> (List.length U < fuel + List.length path)%nat -> Forall edge_ok es ->
  cres_ok L (dfs fuel succ es path done).
Proof.
  induction fuel as [|f IH]; intros es path done Hnd Hin Hf Hes.
  - exfalso. pose proof (NoDup_incl_length Hnd Hin) as Hl. lia.
  - cbn [dfs]. revert done. induction es as [|[n line] r IHr]; intro done; [exact I|].
    apply Forall_cons_iff in Hes. destruct Hes as [[Hline Hk] Hr]. simpl in Hline, Hk.
    destruct (smem n path) eqn:Ep; [exact Hline|].
    destruct (smem n done); [apply IHr; assumption|].
    destruct (succ n) as [| |es'] eqn:Es; [apply IHr; assumption | congruence|].
    destruct (Hsucc n es' Es) as [HnU Hes'].
    assert (Hnd' : NoDup (path ++ [n])).
    { apply NoDup_snoc; [assumption|]. intro H. apply smem_In in H. congruence. }
    assert (Hin' : incl (path ++ [n]) U).
    { intros x Hx. apply in_app_iff in Hx. destruct Hx as [Hx|[Hx|[]]]; [auto | subst x; assumption]. }
    assert (Hf' : (List.length U < f + List.length (path ++ [n]))%nat) by (rewrite app_length; simpl; lia).
    specialize (IH es' (path ++ [n]) done Hnd' Hin' Hf' Hes').
    destruct (dfs f succ es' (path ++ [n]) done); simpl in IH; [apply IHr; assumption | assumption | contradiction].
Qed.

End Dfs.

Section ChildCycles.
Variable L : N.
Variable els : list element.
Hypothesis Hchildren : forall e, In e els -> forall n c d l, In (MChild n c d l) (e_members e) ->
                                 exists t, find_element els n = Some t.
Hypothesis Hlines : forall e, In e els -> lok L (e_line e) /\ Forall (fun m => lok L (member_line m)) (e_members e).

Lemma edges_of_some : forall ename ms,
  (forall n c d l, In (MChild n c d l) ms -> exists t, find_element els n = Some t) ->
  Forall (fun m => lok L (member_line m)) ms ->
  exists es, edges_of els ename ms = Some es /\
             Forall (fun nl => (exists t, find_element els (fst nl) = Some t) /\ lok L (snd nl)) es.
Proof.
  intros ename ms. induction ms as [|m ms IH]; intros Hc Hl; [exists []; split; [reflexivity | constructor]|].
  apply Forall_cons_iff in Hl. destruct Hl as [Hm Hl].
  assert (Hc' : forall n c d l, In (MChild n c d l) ms -> exists t, find_element els n = Some t)
    by (intros; eapply Hc; right; eassumption).
  destruct (IH Hc' Hl) as (es & Ees & Hes).
  destruct m; simpl; try (exists es; split; assumption).
  destruct (str_eqb name ename); [exists es; split; assumption|].
  destruct (Hc name card doc line (or_introl eq_refl)) as (t & Et). rewrite Et, Ees.
  destruct (fhas (e_facets t) f_alias); [exists es; split; [reflexivity | assumption]|].
  exists ((name, line) :: es). split; [reflexivity|]. constructor; [|assumption]. simpl. split; [eauto | exact Hm].
Qed.

Lemma succ_child_declared : forall n t, find_element els n = Some t -> succ_child els n <> SKeyError.
Proof.
  intros n t Et. unfold succ_child. rewrite Et. pose proof (find_element_some _ _ _ Et) as [Ht _].
  destruct (edges_of_some (e_name t) (e_members t) (Hchildren t Ht) (proj2 (Hlines t Ht))) as (es & Ees & _).
  rewrite Ees. discriminate.
Qed.

Lemma succ_child_ok : forall n es, succ_child els n = SEdges es ->
  In n (map e_name els) /\ Forall (edge_ok L (succ_child els)) es.
Proof.
  intros n es H. unfold succ_child in H. destruct (find_element els n) as [t|] eqn:Et; [|discriminate].
  pose proof (find_element_some _ _ _ Et) as [Ht Hn]. split; [rewrite <- Hn; apply in_map; assumption|].
  destruct (edges_of_some (e_name t) (e_members t) (Hchildren t Ht) (proj2 (Hlines t Ht))) as (es0 & Ees & Hes).
  rewrite Ees in H. inversion H; subst es0. eapply Forall_impl; [|exact Hes].
  intros [b l] [[tb Eb] Hl]. split; [exact Hl | simpl; eapply succ_child_declared; eassumption].
Qed.

Lemma child_dfs_spec :
  cres_ok L (dfs (S (List.length els)) (succ_child els) (map (fun e => (e_name e, e_line e)) els) [] []).
Proof.
  apply dfs_spec with (U := map e_name els).
  - exact succ_child_ok.
  - constructor.
  - intros x [].
  - rewrite map_length. simpl. lia.
  - apply Forall_forall. intros [n l] Hin. apply in_map_iff in Hin. destruct Hin as (e & He & Hin). inversion He; subst.
    split; [simpl; apply (Hlines e Hin)|]. simpl.
    assert (Hd : exists t, find_element els (e_name e) = Some t).
    { destruct (find_element els (e_name e)) eqn:E; [eauto|]. apply find_element_none in E. exfalso. apply E. apply in_map. assumption. }
    destruct Hd as (t & Et). eapply succ_child_declared; eassumption.
Qed.

End ChildCycles.

Lemma vprop_vres_of : forall L X r, cres_ok L r -> vprop (lok L) X (vres_of r).
Proof. intros L X r H. destruct r; simpl in *; auto; contradiction. Qed.

Definition exnX (rl : nat) (groups : list group) (e : pyexn) : Prop :=
  e = RecursionError /\ (rl < List.length groups + 2)%nat.

Lemma declared_group_in : forall groups n, declared groups n -> exists g, In g groups /\ g_name g = n.
Proof. intros groups n H. apply in_map_iff in H. destruct H as (g & H1 & H2). eauto. Qed.

Lemma group_attrs_lines : forall L groups,
  Forall (fun g => lok L (g_line g) /\ Forall (fun m => lok L (member_line m)) (g_members g)) groups ->
  forall left name l, group_attrs_rec groups left name = GOk l -> Forall (fun a => lok L (a_line a)) l.
Proof.
  intros L groups Hgl. induction left as [|left' IH]; intros name l H; simpl in H; [discriminate|].
  destruct (find_group groups name) as [g|] eqn:Ef; [|discriminate].
  apply find_group_some in Ef. destruct Ef as [Hg _].
  assert (Hml : Forall (fun m => lok L (member_line m)) (g_members g)).
  { rewrite Forall_forall in Hgl. apply (Hgl g Hg). }
  revert l H. induction (g_members g) as [|m ms IHm]; intros l H; [inversion H; constructor|].
  apply Forall_cons_iff in Hml. destruct Hml as [Hm Hms]. specialize (IHm Hms).
  destruct m; try (apply IHm; assumption).
  - match type of H with match ?X with _ => _ end = _ => destruct X eqn:El end; [|discriminate].
    inversion H; subst. constructor; [assumption | apply IHm; reflexivity].
  - destruct (group_attrs_rec groups left' g0) eqn:Eg; [|discriminate].
    match type of H with match ?X with _ => _ end = _ => destruct X eqn:El end; [|discriminate].
    inversion H; subst. apply Forall_app. split; [eapply IH; eassumption | apply IHm; reflexivity].
Qed.

Lemma expanded_attrs_spec : forall L groups rl ms,
  Forall (fun g => lok L (g_line g) /\ Forall (fun m => lok L (member_line m)) (g_members g)) groups ->
  (forall g, In g groups -> uses_ok groups (g_members g)) ->
  (forall g, In g groups -> check_cycle_rec groups rl (g_name g) [] (g_line g) = VOk) ->
  uses_ok groups ms -> Forall (fun m => lok L (member_line m)) ms ->
  match expanded_attrs_rec groups rl ms with
  | GOk l => Forall (fun a => lok L (a_line a)) l
  | GExn e => exnX rl groups e
  end.
Proof.
  intros L groups rl ms Hgl Hgu Hcc Hu Hml. unfold expanded_attrs_rec.
  destruct rl as [|left']; [split; [reflexivity | lia]|].
  induction ms as [|m ms IHm]; [constructor|].
  assert (Hu' : uses_ok groups ms) by (intros g' l' Hi; apply (Hu g' l'); right; assumption).
  apply Forall_cons_iff in Hml. destruct Hml as [Hm Hms]. specialize (IHm Hu' Hms).
  destruct m; try exact IHm.
  - match goal with |- match (match ?X with _ => _ end) with _ => _ end => destruct X end; [|assumption].
    constructor; assumption.
  - assert (Hd : declared groups g) by (apply (Hu g line); left; reflexivity).
    destruct (group_attrs_rec groups left' g) as [l1|e] eqn:Eg.
    + match goal with |- match (match ?X with _ => _ end) with _ => _ end => destruct X end; [|assumption].
      apply Forall_app. split; [|assumption]. eapply group_attrs_lines; eassumption.
    + split; [eapply group_attrs_exn; eauto|].
      destruct (Nat.le_gt_cases (List.length groups) left') as [Hle|Hgt]; [|lia].
      destruct (declared_group_in _ _ Hd) as (g0 & Hg0 & Hn0).
      pose proof (Hcc g0 Hg0) as Hc0. rewrite Hn0 in Hc0.
      destruct (group_attrs_ok L groups Hgl Hgu _ _ _ _ Hc0 (NoDup_nil _) (incl_nil_l _) Hd left') as (l' & El' & Hl').
      { simpl. lia. }
      congruence.
Qed.
Lemma validate_attr_spec : forall L sch ns a, lok L (a_line a) -> vprop (lok L) noexn (validate_attr sch ns a).
Proof.
  intros L sch ns a Hl. unfold validate_attr.
  repeat (apply vprop_then; [ try (apply vprop_check; assumption) | intro ]).
  - apply vprop_for. intros k _. destruct (fget (a_facets a) k); [apply vprop_check; assumption | exact I].
  - match goal with Hv : vfor _ [f_min; f_max] = VOk |- _ => rewrite vfor_ok in Hv; rename Hv into Hmm end.
    pose proof (Hmm f_min (or_introl eq_refl)) as Hmin. pose proof (Hmm f_max (or_intror (or_introl eq_refl))) as Hmax.
    cbv beta in Hmin, Hmax.
    destruct (fget (a_facets a) f_min) as [vmin|]; [|exact I].
    destruct (fget (a_facets a) f_max) as [vmax|]; [|exact I].
    apply vcheck_ok in Hmin. apply vcheck_ok in Hmax. apply andb_true_iff in Hmin. apply andb_true_iff in Hmax.
    destruct (fnum_of vmin); [|destruct Hmin; discriminate].
    destruct (fnum_of vmax); [|destruct Hmax; discriminate].
    apply vprop_check. assumption.
  - rename H into Hc1. apply vcheck_ok in Hc1.
    destruct (a_default a); [exact I| | |]; destruct (a_type a) eqn:Ety; simpl; try assumption; try exact I;
      try (repeat (apply vprop_then; [ try (apply vprop_check; assumption) | intro ]); apply vprop_check; assumption).
    all: simpl in Hc1; destruct (a_target a) as [t|]; [|discriminate];
      destruct (find_enum (s_enums sch) t); [apply vprop_check; assumption | discriminate].
Qed.

Lemma element_check_spec : forall L sch rl e,
  Forall (fun g => lok L (g_line g) /\ Forall (fun m => lok L (member_line m)) (g_members g)) (s_groups sch) ->
  (forall g, In g (s_groups sch) -> uses_ok (s_groups sch) (g_members g)) ->
  (forall g, In g (s_groups sch) -> check_cycle_rec (s_groups sch) rl (g_name g) [] (g_line g) = VOk) ->
  uses_ok (s_groups sch) (e_members e) ->
  lok L (e_line e) -> Forall (fun m => lok L (member_line m)) (e_members e) ->
  vprop (lok L) (exnX rl (s_groups sch)) (element_check_rec sch rl e).
Proof.
  intros L sch rl e Hgl Hgu Hcc Hu Hel Hml. unfold element_check_rec.
  apply vprop_then.
  { apply vprop_for. intros k _. destruct (fget (e_facets e) k); [apply vprop_check; assumption | exact I]. }
  intro Hf. apply vprop_then.
  { rewrite vfor_ok in Hf. pose proof (Hf f_alias (or_intror (or_introl eq_refl))) as Ha. cbv beta in Ha.
    destruct (fget (e_facets e) f_alias) as [v|]; [|exact I].
    apply vcheck_ok in Ha. destruct v; try discriminate. apply vprop_check. assumption. }
  intros _. apply vprop_then; [apply children_check_spec; assumption|]. intros _.
  pose proof (expanded_attrs_spec L (s_groups sch) rl (e_members e) Hgl Hgu Hcc Hu Hml) as Hx.
  destruct (expanded_attrs_rec (s_groups sch) rl (e_members e)) as [attrs|x]; [|exact Hx].
  pose proof (dup_check_spec L (e_line e) attrs [] Hel Hx) as Hd.
  destruct (dup_check (e_line e) [] attrs) as [names|l|x]; [|exact Hd|contradiction].
  apply constraints_check_spec. assumption.
Qed.

Lemma element_check_children : forall sch rl e, element_check_rec sch rl e = VOk ->
  forall n c d l, In (MChild n c d l) (e_members e) -> exists t, find_element (s_elements sch) n = Some t.
Proof.
  intros sch rl e H. unfold element_check_rec in H.
  apply vthen_ok in H. destruct H as [_ H]. apply vthen_ok in H. destruct H as [_ H].
  apply vthen_ok in H. destruct H as [H _].
  destruct (children_check_ok _ _ _ H (NoDup_nil _)) as (Hc & _ & _). exact Hc.
Qed.

Lemma in_member_attrs : forall ms a, In a (member_attrs ms) -> In (MAttr a) ms.
Proof.
  intros ms a H. unfold member_attrs in H. apply in_flat_map in H. destruct H as (m & Hm & Ha).
  destruct m; simpl in Ha; try contradiction. destruct Ha as [Ha|[]]. subst. assumption.
Qed.

Lemma validate_spec : forall L rl sch, schema_lines L sch ->
  vprop (lok L) (exnX rl (s_groups sch)) (validate_rec rl sch).
Proof.
  intros L rl sch (Hl1 & Hl2 & Hl3). unfold validate_rec.
  pose proof Hl2 as Hl2f. rewrite Forall_forall in Hl2f. pose proof Hl3 as Hl3f. rewrite Forall_forall in Hl3f.
  apply vprop_then.
  { apply vprop_for. intros g Hg. destruct (Hl2f g Hg) as [Hgl _].
    eapply vprop_weaken; [apply (check_cycle_spec L (s_groups sch) Hl2 rl (g_name g) [] (g_line g) Hgl (NoDup_nil _) (incl_nil_l _))|].
    intros e [H1 H2]. split; [assumption | simpl in H2; lia]. }
  intro Hcc. rewrite vfor_ok in Hcc. apply vprop_then.
  { apply vprop_for. intros g Hg. destruct (Hl2f g Hg) as [_ Hml].
    apply group_check_spec. assumption. }
  intros _. apply vprop_then.
  { apply vprop_for. intros ms Hms. apply uses_declared_spec.
    apply in_app_iff in Hms. destruct Hms as [Hms|Hms]; apply in_map_iff in Hms; destruct Hms as (c & Hc & Hin); subst ms.
    - apply (Hl2f c Hin).
    - apply (Hl3f c Hin). }
  intro Hud. rewrite vfor_ok in Hud.
  assert (Hgu : forall g, In g (s_groups sch) -> uses_ok (s_groups sch) (g_members g)).
  { intros g Hg. apply uses_declared_ok. apply Hud. apply in_app_iff. left. apply in_map. assumption. }
  assert (Heu : forall e, In e (s_elements sch) -> uses_ok (s_groups sch) (e_members e)).
  { intros e He. apply uses_declared_ok. apply Hud. apply in_app_iff. right. apply in_map. assumption. }
  apply vprop_then.
  { apply vprop_for. intros e He. destruct (Hl3f e He) as [Hel Hml].
    apply element_check_spec; auto. }
  intro Hec. rewrite vfor_ok in Hec. apply vprop_then.
  { unfold child_cycles. apply vprop_vres_of. apply child_dfs_spec.
    - intros e He. eapply element_check_children. apply Hec. assumption.
    - intros e He. apply (Hl3f e He). }
  intros _. apply vprop_for. intros ms Hms. apply vprop_for. intros a Ha.
  eapply vprop_weaken; [apply validate_attr_spec | intros e []].
  apply in_member_attrs in Ha.
  apply in_app_iff in Hms. destruct Hms as [Hms|Hms]; apply in_map_iff in Hms; destruct Hms as (c & Hc & Hin); subst ms.
  - destruct (Hl2f c Hin) as [_ Hml]. rewrite Forall_forall in Hml. apply (Hml _ Ha).
  - destruct (Hl3f c Hin) as [_ Hml]. rewrite Forall_forall in Hml. apply (Hml _ Ha).
Qed.

(* ------------------------------------------------------------------ parse_string_rec: totality *)

Lemma parse_string_total : forall rl text,
  match parse_string_rec rl text with
  | Ok s => True
  | SchemaErr l => 1 <= l <= cnl text + 1
  | PyExn e => e = RecursionError /\ (rl < groups_of text + 2)%nat
  end.
Proof.
  intros rl text. unfold parse_string_rec, groups_of. pose proof (parse_text_spec text) as Hp.
  destruct (parse_text text) as [s|l|e]; [|exact Hp|contradiction].
  destruct Hp as [Hl _]. pose proof (validate_spec _ rl s Hl) as Hv.
  destruct (validate_rec rl s); simpl in Hv; auto.
Qed.

Lemma parse_string_within_limit : forall rl text, (groups_of text + 2 <= rl)%nat ->
  (exists s, parse_string_rec rl text = Ok s) \/ (exists l, parse_string_rec rl text = SchemaErr l /\ 1 <= l <= cnl text + 1).
Proof.
  intros rl text Hrl. pose proof (parse_string_total rl text) as H.
  destruct (parse_string_rec rl text) as [s|l|e]; [left; eauto | right; eauto | destruct H; lia].
Qed.

Lemma parse_string_ok_parse : forall rl text s, parse_string_rec rl text = Ok s ->
  parse_text text = Ok s /\ validate_rec rl s = VOk.
Proof.
  intros rl text s H. unfold parse_string_rec in H. destruct (parse_text text) as [s'|l|e]; try discriminate.
  destruct (validate_rec rl s') eqn:Ev; inversion H; subst. auto.
Qed.

Lemma parse_string_syn : forall rl text s, parse_string_rec rl text = Ok s ->
  schema_syn s /\ schema_lines (cnl text + 1) s.
Proof.
  intros rl text s H. apply parse_string_ok_parse in H. destruct H as [H _].
  pose proof (parse_text_spec text) as Hp. rewrite H in Hp. tauto.
Qed.

Lemma recursion_refuted :
  parse_string_rec 1000 (chain_text 1001) = PyExn RecursionError /\
  parse_string_rec 994 (chain_text 1001) = PyExn RecursionError /\
  groups_of (chain_text 1001) = 1001%nat /\
  parse_string_rec 100 (chain_text 101) = PyExn RecursionError /\
  is_ok (parse_string_rec 101 (chain_text 101)) = true.
Proof. vm_compute. repeat split; reflexivity. Qed.
