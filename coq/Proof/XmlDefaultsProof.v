(* Proofs about Model/XmlDefaults.v: the diff/patch round trip of default classes and elements. *)
From Coq Require Import List Bool Arith Lia ZArith.
From MJV Require Import Model.XmlDefaults.
Import ListNotations.

Section P.
Context {T : Type}.
Variable defined : T -> bool.
Variable close : T -> T -> bool.
Variable eqb : T -> T -> bool.
Variable zero : T.
Hypothesis Heqb : forall a b : T, eqb a b = true <-> a = b.

Notation vec := (list T).
Notation same := (same close).
Notation keep_len := (keep_len eqb).
Notation write_attr := (write_attr defined close eqb).
Notation write_one := (write_one defined close eqb zero).
Notation write_rec := (write_rec defined close eqb zero).
Notation write_defs := (write_defs defined close eqb zero).
Notation write_elem := (write_elem defined close eqb zero).
Notation roundtrip_tree := (roundtrip_tree defined close eqb zero).
Notation roundtrip_elem := (roundtrip_elem defined close eqb zero).

Lemma keep_len_le : forall (x d : vec), keep_len x d <= length x.
Proof.
  induction x as [|a x IH]; intros [|b d]; simpl; try lia.
  specialize (IH d). destruct (keep_len x d); [destruct (eqb a b); simpl; lia | lia].
Qed.

Lemma keep_len_tail : forall (x d : vec), length x = length d ->
  skipn (keep_len x d) x = skipn (keep_len x d) d.
Proof.
  induction x as [|a x IH]; intros [|b d] Hl; simpl in *; try discriminate; auto.
  injection Hl as Hl. specialize (IH d Hl).
  destruct (keep_len x d) eqn:E.
  - destruct (eqb a b) eqn:Eab; simpl.
    + apply Heqb in Eab. subst. simpl in IH. now rewrite IH.
    + simpl in IH. exact IH.
  - exact IH.
Qed.

Lemma nonempty_read : forall (d p : vec),
  read_attr d (nonempty p) = p ++ skipn (length p) d.
Proof. intros d [|a p]; reflexivity. Qed.

Lemma skipn_all_len : forall (x d : vec), length x = length d -> skipn (length x) d = [].
Proof. intros x d H. rewrite H. apply skipn_all. Qed.

(* what is read back when the attribute is (or is not) written *)
Lemma read_write_raw : forall (x d : vec), length x = length d -> all_defined defined x = true ->
  read_attr d (write_raw defined x) = x.
Proof.
  intros x d Hl Hd. unfold write_raw. rewrite Hd. simpl.
  rewrite nonempty_read. rewrite (skipn_all_len x d Hl). apply app_nil_r.
Qed.

Lemma read_write_attr_written : forall (t : bool) (x d : vec), length x = length d ->
  read_attr d (nonempty (if t then firstn (keep_len x d) x else x)) = x.
Proof.
  intros t x d Hl. destruct t.
  - remember (keep_len x d) as k.
    assert (Hk : k <= length x) by (subst; apply keep_len_le).
    assert (Htail : skipn k x = skipn k d) by (subst; now apply keep_len_tail).
    destruct (firstn k x) as [|a p] eqn:Ef.
    + simpl. assert (k = 0 \/ x = []) as [H0|H0].
      { destruct k; auto. destruct x; auto. simpl in Ef. discriminate. }
      * subst k. rewrite H0 in Htail. simpl in Htail. now symmetry.
      * subst x. destruct d; [reflexivity | discriminate].
    + rewrite <- Ef. rewrite nonempty_read.
      rewrite firstn_length_le by exact Hk. rewrite <- Htail. apply firstn_skipn.
  - rewrite nonempty_read. rewrite (skipn_all_len x d Hl). apply app_nil_r.
Qed.

(* -------- any comparison [close]: the result is componentwise equal or close (one attribute) -------- *)
Lemma same_forall2 : forall (x d : vec), length x = length d -> same x d = true ->
  Forall2 (fun a b => close a b = true) x d.
Proof.
  induction x as [|a x IH]; intros [|b d] Hl H; simpl in *; try discriminate; constructor.
  - apply andb_true_iff in H. tauto.
  - apply andb_true_iff in H. apply IH; [lia | tauto].
Qed.

Lemma forall2_or : forall (x d : vec), Forall2 (fun a b => close a b = true) x d ->
  Forall2 (fun a b => a = b \/ close a b = true) x d.
Proof. intros x d H. induction H; constructor; auto. Qed.

Lemma attr_roundtrip_close : forall (t : bool) (x d : vec), length x = length d ->
  all_defined defined x = true ->
  Forall2 (fun a b => a = b \/ close a b = true) x (read_attr d (write_attr t x d)).
Proof.
  intros t x d Hl Hd. unfold XmlDefaults.write_attr. rewrite Hd. simpl.
  destruct (same x d) eqn:Es.
  - simpl. apply forall2_or. apply same_forall2; assumption.
  - rewrite read_write_attr_written by exact Hl.
    clear. induction x; constructor; auto.
Qed.

(* -------- exact comparison: the hypothesis of the full round trip -------- *)
Hypothesis Hclose : forall a b : T, close a b = true -> a = b.

Lemma same_eq : forall (x d : vec), length x = length d -> same x d = true -> x = d.
Proof.
  induction x as [|a x IH]; intros [|b d] Hl H; simpl in *; try discriminate; auto.
  apply andb_true_iff in H. destruct H as [H1 H2]. apply Hclose in H1. subst.
  f_equal. apply IH; [lia | exact H2].
Qed.

Lemma read_write_attr : forall (t : bool) (x d : vec), length x = length d ->
  all_defined defined x = true -> read_attr d (write_attr t x d) = x.
Proof.
  intros t x d Hl Hd. unfold XmlDefaults.write_attr. rewrite Hd. simpl.
  destruct (same x d) eqn:Es.
  - simpl. symmetry. now apply same_eq.
  - now apply read_write_attr_written.
Qed.

Lemma differs_false : forall (x d : vec), length x = length d -> differs eqb x d = false -> x = d.
Proof.
  induction x as [|a x IH]; intros [|b d] Hl H; simpl in *; try discriminate; auto.
  apply orb_false_iff in H. destruct H as [H1 H2].
  apply negb_false_iff in H1. apply Heqb in H1. subst. f_equal. apply IH; [lia | exact H2].
Qed.

(* side conditions under which the two special policies round trip *)
Definition attr_ok (indef : bool) (p : policy) (x d : vec) : Prop :=
  match p with
  | PParent _ => True
  | PZeroDef => if indef then existsb (fun a => negb (eqb a zero)) x = false -> d = x else True
  | PConst c => if indef then True else same x c = true -> d = x
  | PExact => True
  end.

Lemma read_write_one : forall (indef : bool) (p : policy) (x d : vec),
  length x = length d -> all_defined defined x = true -> attr_ok indef p x d ->
  read_attr d (write_one indef p x d) = x.
Proof.
  intros indef p x d Hl Hd Hok. destruct p as [t| |c|]; simpl in *.
  - now apply read_write_attr.
  - destruct indef.
    + destruct (existsb _ x) eqn:E; [now apply read_write_raw | simpl; now apply Hok].
    + destruct (differs eqb x d) eqn:E; [now apply read_write_raw | simpl; symmetry; now apply differs_false].
  - destruct indef; [now apply read_write_attr|].
    unfold XmlDefaults.write_attr. rewrite Hd. simpl.
    destruct (same x c) eqn:Es; [simpl; now apply Hok|].
    rewrite nonempty_read. rewrite (skipn_all_len x d Hl). apply app_nil_r.
  - destruct (differs eqb x d) eqn:E; [now apply read_write_raw | simpl; symmetry; now apply differs_false].
Qed.

Inductive rec_ok (indef : bool) : list policy -> list vec -> list vec -> Prop :=
| rok_nil : rec_ok indef [] [] []
| rok_cons : forall (p : policy) (pol : list policy) (x : vec) (xs : list vec) (d : vec) (ds : list vec),
    length x = length d -> all_defined defined x = true -> attr_ok indef p x d ->
    rec_ok indef pol xs ds -> rec_ok indef (p :: pol) (x :: xs) (d :: ds).

Lemma read_write_rec : forall (indef : bool) (pol : list policy) (x d : list vec),
  rec_ok indef pol x d -> read_rec d (write_rec indef pol x d) = x.
Proof.
  intros indef pol x d H. induction H; simpl; auto.
  rewrite read_write_one by assumption. now rewrite IHrec_ok.
Qed.

Inductive tree_ok (pol : list policy) : list vec -> ctree -> Prop :=
| tok : forall (n : nat) (v : list vec) (ch : list ctree) (par : list vec),
    rec_ok true pol v par -> Forall (tree_ok pol v) ch -> tree_ok pol par (CNode n v ch).

Fixpoint ctree_ind2 (P : @ctree T -> Prop)
  (H : forall (n : nat) (v : list vec) (ch : list ctree), Forall P ch -> P (CNode n v ch)) (t : ctree) : P t :=
  match t with
  | CNode n v ch =>
      H n v ch ((fix go (l : list ctree) : Forall P l :=
                   match l with
                   | [] => Forall_nil P
                   | x :: r => Forall_cons x (ctree_ind2 P H x) (go r)
                   end) ch)
  end.

Theorem tree_roundtrip : forall (pol : list policy) (t : ctree) (par : list vec),
  tree_ok pol par t -> roundtrip_tree pol par t = t.
Proof.
  intros pol t. unfold XmlDefaults.roundtrip_tree.
  induction t as [n v ch IH] using ctree_ind2. intros par Hok.
  inversion Hok as [n' v' ch' par' Hrec Hch]; subst. simpl.
  rewrite read_write_rec by exact Hrec. f_equal.
  rewrite map_map.
  induction ch as [|c ch IHch]; simpl; auto.
  inversion IH as [|? ? Hc Hrest]; subst. inversion Hch as [|? ? Hc' Hrest']; subst.
  rewrite Hc by exact Hc'. f_equal. apply IHch; auto.
  constructor; auto.
Qed.

Theorem elem_roundtrip : forall (pol : list policy) (t : ctree) (base : list vec) (c : nat) (cv x : list vec),
  tree_ok pol base t -> lookup c t = Some cv -> rec_ok false pol x cv ->
  roundtrip_elem pol base t c x = Some x.
Proof.
  intros pol t base c cv x Ht Hl Hx. unfold XmlDefaults.roundtrip_elem.
  rewrite tree_roundtrip by exact Ht. rewrite Hl.
  unfold read_elem, XmlDefaults.write_elem. now rewrite read_write_rec.
Qed.

End P.

(* ---------------- witnesses on Z ---------------- *)
Open Scope Z_scope.
Definition zdef (_ : Z) : bool := true.
Definition zclose1 (a b : Z) : bool := Z.abs (a - b) <=? 1.    (* a comparison with a tolerance, like SameVector *)

(* tolerance in the comparison: a value within the tolerance of its parent's is dropped *)
Lemma eps_refuted :
  exists (t : @ctree Z) (base : list (list Z)),
    tree_ok zdef zclose1 Z.eqb 0 [PParent false] base t /\
    roundtrip_tree zdef zclose1 Z.eqb 0 [PParent false] base t <> t.
Proof.
  exists (CNode 0%nat [[1]] []), [[0]]. split.
  - repeat constructor.
  - vm_compute. discriminate.
Qed.

(* ... and the error accumulates along the class tree: two levels give twice the tolerance *)
Lemma drift_refuted :
  exists (t : @ctree Z) (base : list (list Z)),
    tree_ok zdef zclose1 Z.eqb 0 [PParent false] base t /\
    roundtrip_tree zdef zclose1 Z.eqb 0 [PParent false] base t =
      CNode 0%nat [[0]] [CNode 1%nat [[0]] []] /\
    t = CNode 0%nat [[1]] [CNode 1%nat [[2]] []].
Proof.
  exists (CNode 0%nat [[1]] [CNode 1%nat [[2]] []]), [[0]]. split; [|split].
  - repeat constructor.
  - vm_compute. reflexivity.
  - reflexivity.
Qed.

(* userdata in default mode is compared with zero, not with the parent class (exact comparison) *)
Lemma user_refuted :
  exists (t : @ctree Z) (base : list (list Z)),
    roundtrip_tree zdef Z.eqb Z.eqb 0 [PZeroDef] base t <> t.
Proof.
  exists (CNode 0%nat [[5]] [CNode 1%nat [[0]] []]), [[0]]. vm_compute. discriminate.
Qed.

(* an element attribute compared with a constant instead of its class value (actdim) *)
Lemma const_refuted :
  exists (t : @ctree Z) (base : list (list Z)) (x : list (list Z)),
    roundtrip_elem zdef Z.eqb Z.eqb 0 [PConst [0]] base t 0%nat x <> Some x.
Proof.
  exists (CNode 0%nat [[1]] []), [[7]], [[0]]. vm_compute. discriminate.
Qed.

(* the hypotheses of the positive theorems are satisfiable by a non-trivial tree *)
Lemma example_tree_ok :
  tree_ok zdef Z.eqb Z.eqb 0 [PParent true; PParent false; PZeroDef] [[0; 0; 0]; [1]; [0; 0]]
    (CNode 0%nat [[3; 0; 0]; [1]; [4; 0]] [CNode 1%nat [[3; 5; 0]; [2]; [4; 1]] []; CNode 2%nat [[0; 0; 0]; [1]; [0; 9]] []]).
Proof.
  repeat (constructor; simpl; auto); try discriminate.
Qed.
