(* C38 — proofs about Model/Cache.v *)
From Coq Require Import ZArith List Bool Lia Permutation Sorted.
From MJV Require Import Model.Cache.
Import ListNotations.
Open Scope Z_scope.

(* ------------------------------------------------------------------ small facts *)
Lemma upd_same {A} (f : Z -> A) k v : upd f k v k = v.
Proof. unfold upd. now rewrite Z.eqb_refl. Qed.
Lemma upd_other {A} (f : Z -> A) k v j : j <> k -> upd f k v j = f j.
Proof. unfold upd. intros H. apply Z.eqb_neq in H. now rewrite H. Qed.
Lemma upd_cases {A} (f : Z -> A) k v j : (j = k /\ upd f k v j = v) \/ (j <> k /\ upd f k v j = f j).
Proof. destruct (Z.eq_dec j k); [left|right]; split; auto; subst; auto using upd_same, upd_other. Qed.

Lemma set_mem_In x l : set_mem x l = true <-> In x l.
Proof.
  unfold set_mem. rewrite existsb_exists. split.
  - intros [y [Hy He]]. apply Z.eqb_eq in He. now subst.
  - intros H. exists x. split; auto. apply Z.eqb_refl.
Qed.
Lemma set_mem_false x l : set_mem x l = false <-> ~ In x l.
Proof. rewrite <- set_mem_In. destruct (set_mem x l); intuition congruence. Qed.

Lemma ins_sorted_perm x l : Permutation (x :: l) (ins_sorted x l).
Proof.
  induction l as [|y r IH]; simpl; auto.
  destruct (x <? y); auto.
  eapply perm_trans; [apply perm_swap|]. now constructor.
Qed.
Lemma set_add_In x l y : In y (set_add x l) <-> y = x \/ In y l.
Proof.
  unfold set_add. destruct (set_mem x l) eqn:E.
  - apply set_mem_In in E. intuition (subst; auto).
  - split; intros H.
    + apply (Permutation_in _ (Permutation_sym (ins_sorted_perm x l))) in H. simpl in H. intuition.
    + apply (Permutation_in _ (ins_sorted_perm x l)). simpl. intuition.
Qed.
Lemma set_add_NoDup x l : NoDup l -> NoDup (set_add x l).
Proof.
  unfold set_add. destruct (set_mem x l) eqn:E; auto.
  intros H. apply set_mem_false in E.
  eapply Permutation_NoDup; [apply ins_sorted_perm|]. now constructor.
Qed.
Lemma set_del_In x l y : In y (set_del x l) <-> In y l /\ y <> x.
Proof.
  unfold set_del. rewrite filter_In. rewrite negb_true_iff, Z.eqb_neq. tauto.
Qed.
Lemma set_del_NoDup x l : NoDup l -> NoDup (set_del x l).
Proof. apply NoDup_filter. Qed.
Lemma set_del_notin x l : ~ In x l -> set_del x l = l.
Proof.
  induction l as [|y r IH]; simpl; auto. intros H.
  destruct (Z.eqb_spec y x); simpl.
  - subst. tauto.
  - f_equal. apply IH. tauto.
Qed.
Lemma set_del_idem x l : set_del x (set_del x l) = set_del x l.
Proof. apply set_del_notin. rewrite set_del_In. tauto. Qed.
Lemma set_del_nil_iff m l : set_del m l = [] <-> (forall x, In x l -> x = m).
Proof.
  split.
  - intros H x Hx. destruct (Z.eq_dec x m); auto.
    assert (In x (set_del m l)) by (apply set_del_In; auto). rewrite H in H0. destruct H0.
  - intros H. destruct (set_del m l) as [|y r] eqn:E; auto.
    assert (In y (set_del m l)) by (rewrite E; simpl; auto).
    apply set_del_In in H0. destruct H0 as [H0 H1]. apply H in H0. tauto.
Qed.

(* ------------------------------------------------------------------ the comparator *)
Lemma asset_lt_spec a b :
  asset_lt a b = true <-> (a_acc a < a_acc b \/ (a_acc a = a_acc b /\ a_ins a < a_ins b)).
Proof.
  unfold asset_lt. destruct (Z.eqb_spec (a_acc a) (a_acc b)); simpl.
  - rewrite Z.ltb_lt. lia.
  - rewrite Z.ltb_lt. lia.
Qed.
Lemma asset_lt_false a b :
  asset_lt a b = false <-> ~ (a_acc a < a_acc b \/ (a_acc a = a_acc b /\ a_ins a < a_ins b)).
Proof. rewrite <- asset_lt_spec. destruct (asset_lt a b); intuition congruence. Qed.

Definition plt (look : Z -> option asset) (x y : Z) : Prop := ptr_lt look x y = true.

Lemma ptr_lt_ext look look' x y :
  (forall a, look x = Some a -> exists a', look' x = Some a' /\ a_acc a' = a_acc a /\ a_ins a' = a_ins a) ->
  (forall a, look y = Some a -> exists a', look' y = Some a' /\ a_acc a' = a_acc a /\ a_ins a' = a_ins a) ->
  ptr_lt look x y = true -> ptr_lt look' x y = true.
Proof.
  unfold ptr_lt. intros Hx Hy.
  destruct (look x) as [a|]; [|discriminate]. destruct (look y) as [b|]; [|discriminate].
  destruct (Hx a eq_refl) as [a' [-> [? ?]]]. destruct (Hy b eq_refl) as [b' [-> [? ?]]].
  rewrite !asset_lt_spec. lia.
Qed.

Lemma sorted_ext look look' l :
  (forall x a, In x l -> look x = Some a -> exists a', look' x = Some a' /\ a_acc a' = a_acc a /\ a_ins a' = a_ins a) ->
  StronglySorted (plt look) l -> StronglySorted (plt look') l.
Proof.
  intros H S. induction S as [|x l S IH F]; constructor.
  - apply IH. intros; eapply H; simpl; eauto.
  - rewrite Forall_forall in *. intros y Hy. unfold plt in *.
    eapply ptr_lt_ext; [| |apply F; auto]; intros; eapply H; simpl; eauto.
Qed.

Lemma sorted_filter look f l : StronglySorted (plt look) l -> StronglySorted (plt look) (filter f l).
Proof.
  induction 1 as [|x l S IH F]; simpl; [constructor|].
  destruct (f x); auto. constructor; auto.
  rewrite Forall_forall in *. intros y Hy. apply filter_In in Hy. apply F. tauto.
Qed.

Lemma plt_irrefl look x : ~ plt look x x.
Proof.
  unfold plt, ptr_lt. destruct (look x); [|discriminate]. rewrite asset_lt_spec. lia.
Qed.
Lemma sorted_NoDup look l : StronglySorted (plt look) l -> NoDup l.
Proof.
  induction 1 as [|x l S IH F]; constructor; auto.
  intros Hin. rewrite Forall_forall in F. apply (plt_irrefl look x). auto.
Qed.

(* ------------------------------------------------------------------ byte sums *)
Definition bytes_of (look : Z -> option asset) (id : Z) : Z :=
  match look id with Some a => a_bytes a | None => 0 end.
Definition sumb (look : Z -> option asset) (l : list Z) : Z :=
  fold_right (fun id acc => bytes_of look id + acc) 0 l.

Lemma sumb_ext look look' l :
  (forall x, In x l -> bytes_of look x = bytes_of look' x) -> sumb look l = sumb look' l.
Proof.
  induction l as [|x r IH]; simpl; auto. intros H.
  rewrite (H x), IH; auto.
Qed.
Lemma sumb_perm look l l' : Permutation l l' -> sumb look l = sumb look l'.
Proof. induction 1; simpl; lia. Qed.
Lemma sumb_app look l l' : sumb look (l ++ l') = sumb look l + sumb look l'.
Proof. induction l; simpl; lia. Qed.
Lemma sumb_set_del look x l :
  NoDup l -> In x l -> sumb look (set_del x l) = sumb look l - bytes_of look x.
Proof.
  induction 1 as [|y r Hn Hd IH]; simpl; [tauto|].
  intros [->|Hin].
  - rewrite Z.eqb_refl. simpl. fold (set_del x r). rewrite set_del_notin; auto. lia.
  - destruct (Z.eqb_spec y x); simpl.
    + subst. tauto.
    + fold (set_del x r). rewrite IH; auto. lia.
Qed.
Lemma sumb_nonneg look l : (forall x a, look x = Some a -> 0 <= a_bytes a) -> 0 <= sumb look l.
Proof.
  intros H. induction l as [|x r IH]; simpl; [lia|].
  unfold bytes_of at 1. destruct (look x) eqn:E; [apply H in E|]; lia.
Qed.

(* ------------------------------------------------------------------ std::set operations *)
Lemma plt_trans look x y z : plt look x y -> plt look y z -> plt look x z.
Proof.
  unfold plt, ptr_lt. destruct (look x), (look y), (look z); try discriminate.
  rewrite !asset_lt_spec. lia.
Qed.

Lemma ent_erase_eq look id l a :
  look id = Some a ->
  (forall x, In x l -> look x <> None) ->
  (forall i j a b, look i = Some a -> look j = Some b -> a_ins a = a_ins b -> i = j) ->
  ent_erase look id l = set_del id l.
Proof.
  intros Ha Hl Hinj. unfold ent_erase, set_del. apply filter_ext_in. intros y Hy. f_equal.
  unfold ptr_equiv, ptr_lt. rewrite Ha.
  destruct (look y) as [b|] eqn:Eb; [|now apply Hl in Hy].
  destruct (Z.eqb_spec y id) as [->|Hne].
  - rewrite Ha in Eb. inversion Eb; subst b.
    assert (asset_lt a a = false) as -> by (apply asset_lt_false; lia). reflexivity.
  - assert (a_ins a <> a_ins b) by (intros E; apply Hne; symmetry; eapply Hinj; eauto).
    destruct (asset_lt a b) eqn:E1; simpl; auto.
    destruct (asset_lt b a) eqn:E2; simpl; auto.
    apply asset_lt_false in E1. apply asset_lt_false in E2. lia.
Qed.

Lemma ent_insert_perm look x l a :
  look x = Some a ->
  (forall y, In y l -> exists b, look y = Some b /\ a_ins b <> a_ins a) ->
  Permutation (x :: l) (ent_insert look x l).
Proof.
  intros Ha. induction l as [|y r IH]; simpl; intros H; auto.
  destruct (H y (or_introl eq_refl)) as [b [Hb Hne]].
  unfold ptr_lt. rewrite Ha, Hb.
  destruct (asset_lt a b) eqn:E1; auto.
  destruct (asset_lt b a) eqn:E2.
  - eapply perm_trans; [apply perm_swap|]. constructor. apply IH. intros; apply H; simpl; auto.
  - apply asset_lt_false in E1. apply asset_lt_false in E2. lia.
Qed.

Lemma ent_insert_sorted look x l a :
  look x = Some a ->
  (forall y, In y l -> exists b, look y = Some b /\ a_ins b <> a_ins a) ->
  StronglySorted (plt look) l -> StronglySorted (plt look) (ent_insert look x l).
Proof.
  intros Ha H S. induction S as [|y r S IH F]; simpl.
  - repeat constructor.
  - destruct (H y (or_introl eq_refl)) as [b [Hb Hne]].
    destruct (ptr_lt look x y) eqn:E1.
    + constructor; [constructor; auto|]. constructor; auto.
      rewrite Forall_forall in *. intros z Hz. eapply plt_trans; [exact E1|]. auto.
    + assert (ptr_lt look y x = true) as E2.
      { unfold ptr_lt in *. rewrite Ha, Hb in *. apply asset_lt_false in E1. apply asset_lt_spec. lia. }
      rewrite E2. constructor.
      * apply IH. intros; apply H; simpl; auto.
      * rewrite Forall_forall in *. intros z Hz.
        apply (Permutation_in _ (Permutation_sym (ent_insert_perm look x r a Ha (fun y0 Hy0 => H y0 (or_intror Hy0))))) in Hz.
        destruct Hz as [<-|Hz]; auto.
Qed.

(* ------------------------------------------------------------------ the invariant *)
Record inv0 (s : cache) : Prop := {
  i_ent : forall id, In id (c_ent s) <-> c_look s id <> None;
  i_sorted : StronglySorted (plt (c_look s)) (c_ent s);
  i_size : c_size s = sumb (c_look s) (c_ent s);
  i_bytes : forall id a, c_look s id = Some a -> 0 <= a_bytes a;
  i_ins : forall id a, c_look s id = Some a -> a_ins a < c_ins s;
  i_inj : forall i j a b, c_look s i = Some a -> c_look s j = Some b -> a_ins a = a_ins b -> i = j;
  i_nodup : forall m, NoDup (c_mod s m)
}.
Definition refs_ok (s : cache) (m : Z) : Prop :=
  forall id, In id (c_mod s m) <-> exists a, c_look s id = Some a /\ In m (a_refs a).
Definition inv (s : cache) : Prop := inv0 s /\ c_size s <= c_cap s /\ forall m, refs_ok s m.

Lemma inv_init c : 0 <= c -> inv (init c).
Proof.
  intros Hc. split; [|split]; simpl; auto.
  - constructor; simpl; try (intros; discriminate).
    + intros x. split; [tauto|congruence].
    + constructor.
    + lia.
    + intros; constructor.
  - intros m x. unfold refs_ok; simpl. split; [tauto|]. intros [a [H _]]. discriminate.
Qed.

Lemma inv0_NoDup s : inv0 s -> NoDup (c_ent s).
Proof. intros H. eapply sorted_NoDup, i_sorted, H. Qed.
Lemma inv0_live s id : inv0 s -> In id (c_ent s) -> exists a, c_look s id = Some a.
Proof. intros H Hin. apply (i_ent s H) in Hin. destruct (c_look s id); [eauto|congruence]. Qed.

(* ------------------------------------------------------------------ Delete *)
Lemma fold_del_spec skip id refs : forall md m',
  fold_left (fun md r => if skip_is skip r then md else upd md r (set_del id (md r))) refs md m' =
  if set_mem m' refs && negb (skip_is skip m') then set_del id (md m') else md m'.
Proof.
  unfold set_mem. induction refs as [|r rs IH]; intros md m'; simpl; auto.
  rewrite IH. destruct (Z.eqb_spec m' r) as [->|Hne]; simpl.
  - destruct (skip_is skip r) eqn:Es; simpl.
    + rewrite andb_false_r. reflexivity.
    + rewrite !andb_true_r, upd_same, set_del_idem. destruct (existsb (Z.eqb r) rs); reflexivity.
  - destruct (skip_is skip r); auto. rewrite upd_other; auto.
Qed.

Lemma upd_none_some look id x (b : asset) : upd look id None x = Some b -> x <> id /\ look x = Some b.
Proof. destruct (upd_cases look id None x) as [[-> ->]|[Hne ->]]; [discriminate|auto]. Qed.

Lemma delete_inv0 skip id s a :
  inv0 s -> c_look s id = Some a ->
  exists s', delete skip id s = Some s' /\ inv0 s' /\
    c_cap s' = c_cap s /\ c_ins s' = c_ins s /\ c_size s' = c_size s - a_bytes a /\
    c_look s' = upd (c_look s) id None /\ c_ent s' = set_del id (c_ent s) /\
    (forall m', c_mod s' m' = if set_mem m' (a_refs a) && negb (skip_is skip m')
                              then set_del id (c_mod s m') else c_mod s m').
Proof.
  intros I Ha. unfold delete. rewrite Ha. eexists. split; [reflexivity|].
  assert (Hent : ent_erase (c_look s) id (c_ent s) = set_del id (c_ent s)).
  { eapply ent_erase_eq; eauto. intros x Hx. now apply (i_ent s I). apply (i_inj s I). }
  assert (Hin : In id (c_ent s)) by (apply (i_ent s I); congruence).
  simpl. rewrite Hent. repeat split; auto using fold_del_spec; simpl.
  - intros Hx. apply set_del_In in Hx. destruct Hx as [Hx Hne]. rewrite upd_other; auto. now apply (i_ent s I).
  - intros Hx. destruct (upd_cases (c_look s) id (@None asset) id0) as [[-> E]|[Hne E]]; rewrite E in Hx; [congruence|].
    apply set_del_In. split; auto. now apply (i_ent s I).
  - eapply sorted_ext; [|apply sorted_filter, (i_sorted s I)].
    intros x b Hx Hb. apply set_del_In in Hx. exists b. rewrite upd_other; tauto.
  - rewrite (sumb_ext _ (c_look s)).
    + rewrite sumb_set_del; auto using inv0_NoDup. unfold bytes_of. rewrite Ha, (i_size s I). reflexivity.
    + intros x Hx. apply set_del_In in Hx. unfold bytes_of. rewrite upd_other; tauto.
  - intros x b Hb. apply upd_none_some in Hb. eapply (i_bytes s I); apply Hb.
  - intros x b Hb. apply upd_none_some in Hb. eapply (i_ins s I); apply Hb.
  - intros i j b c Hb Hc. apply upd_none_some in Hb. apply upd_none_some in Hc. eapply (i_inj s I); [apply Hb|apply Hc].
  - intros m. rewrite fold_del_spec.
    destruct (_ && _); auto using set_del_NoDup, (i_nodup s I).
Qed.

Lemma delete_refs_ok skip id s a s' m' :
  inv0 s -> c_look s id = Some a -> delete skip id s = Some s' ->
  skip_is skip m' = false -> refs_ok s m' -> refs_ok s' m'.
Proof.
  intros I Ha Hd Hs R.
  destruct (delete_inv0 skip id s a I Ha) as [s2 [E [_ [_ [_ [_ [Hl [_ Hm]]]]]]]].
  rewrite E in Hd. inversion Hd; subst s2. clear Hd E.
  intros x. rewrite Hm, Hs, Hl, andb_true_r. split.
  - intros Hx. destruct (set_mem m' (a_refs a)) eqn:Em.
    + apply set_del_In in Hx. destruct Hx as [Hx Hne]. rewrite upd_other; auto. now apply R.
    + apply R in Hx. destruct Hx as [b [Hb Hin]].
      assert (x <> id). { intros ->. assert (b = a) by congruence. subst b. apply set_mem_false in Em. tauto. }
      rewrite upd_other; eauto.
  - intros [b [Hb Hin]]. apply upd_none_some in Hb. destruct Hb as [Hne Hb].
    assert (In x (c_mod s m')) by (apply R; eauto).
    destruct (set_mem m' (a_refs a)); auto. apply set_del_In; auto.
Qed.

(* ------------------------------------------------------------------ Trim *)
Lemma set_del_head x r : ~ In x r -> set_del x (x :: r) = r.
Proof. intros H. simpl. rewrite Z.eqb_refl. simpl. now apply set_del_notin. Qed.

Lemma trim_spec : forall fuel s,
  inv0 s -> (forall m, refs_ok s m) -> 0 <= c_cap s -> (length (c_ent s) < fuel)%nat ->
  exists k s', trim fuel s = Some s' /\ inv s' /\
    c_cap s' = c_cap s /\ c_ins s' = c_ins s /\
    c_ent s' = skipn k (c_ent s) /\
    (forall id, c_look s' id = if set_mem id (firstn k (c_ent s)) then None else c_look s id) /\
    (forall j, (j < k)%nat -> sumb (c_look s) (skipn j (c_ent s)) > c_cap s).
Proof.
  induction fuel as [|f IH]; intros s I R Hc Hf; [lia|].
  simpl. destruct (c_size s >? c_cap s) eqn:Eg.
  - apply Z.gtb_lt in Eg.
    destruct (c_ent s) as [|id r] eqn:Ee.
    + exfalso. rewrite (i_size s I), Ee in Eg. simpl in Eg. lia.
    + assert (Hin : In id (c_ent s)) by (rewrite Ee; simpl; auto).
      destruct (inv0_live s id I Hin) as [a Ha].
      destruct (delete_inv0 None id s a I Ha) as [s1 [E [I1 [Hcap [Hins [Hsz [Hl [He Hm]]]]]]]].
      rewrite E.
      assert (Hnd : NoDup (id :: r)) by (rewrite <- Ee; now apply inv0_NoDup).
      inversion Hnd as [|? ? Hni Hnd']; subst.
      rewrite Ee, set_del_head in He; auto.
      destruct (IH s1) as [k [s' [Ht [I' [Hc' [Hi' [He' [Hl' Hgt]]]]]]]]; auto.
      { intros m. apply (delete_refs_ok None id s a s1 m I Ha E eq_refl (R m)). }
      { lia. }
      { rewrite He. simpl in Hf. lia. }
      exists (S k), s'. rewrite Ht.
      split; [reflexivity|]. split; [exact I'|]. split; [lia|]. split; [lia|].
      split; [|split].
      * rewrite He', He. reflexivity.
      * intros x. rewrite Hl', He, Hl. simpl.
        destruct (Z.eqb_spec x id) as [->|Hne]; simpl.
        -- rewrite upd_same. destruct (set_mem _ _); auto.
        -- rewrite upd_other; auto.
      * intros j Hj. destruct j as [|j]; simpl.
        -- change (sumb (c_look s) (id :: r) > c_cap s). rewrite <- Ee, <- (i_size s I). lia.
        -- assert (Hj' : (j < k)%nat) by lia. specialize (Hgt j Hj'). rewrite He, Hcap in Hgt.
           rewrite (sumb_ext _ (c_look s1)); auto.
           intros x Hx. unfold bytes_of. rewrite Hl, upd_other; auto.
           intros ->. apply Hni. rewrite <- (firstn_skipn j r). apply in_or_app. auto.
  - exists 0%nat, s. rewrite Z.gtb_ltb in Eg. apply Z.ltb_ge in Eg.
    split; [reflexivity|]. split; [split; auto|]. split; [lia|]. split; [lia|].
    split; [reflexivity|]. split; [intros; reflexivity|]. intros; lia.
Qed.

Lemma inv0_set_cap c s : inv0 s -> inv0 (mkC c (c_ins s) (c_size s) (c_look s) (c_ent s) (c_mod s)).
Proof. intros I. destruct I. constructor; simpl; auto. Qed.

Lemma set_capacity_spec c s :
  inv s -> 0 <= c ->
  exists k s', set_capacity c s = Some s' /\ inv s' /\
    c_cap s' = c /\ c_ins s' = c_ins s /\
    c_ent s' = skipn k (c_ent s) /\
    (forall id, c_look s' id = if set_mem id (firstn k (c_ent s)) then None else c_look s id) /\
    (forall j, (j < k)%nat -> sumb (c_look s) (skipn j (c_ent s)) > c).
Proof.
  intros [I [_ R]] Hc. unfold set_capacity.
  destruct (trim_spec (S (length (c_ent s))) (mkC c (c_ins s) (c_size s) (c_look s) (c_ent s) (c_mod s)))
    as [k [s' H]]; simpl; auto using inv0_set_cap.
  exists k, s'. exact H.
Qed.

(* in-place update of one asset that keeps its priority key *)
Lemma inv0_upd_inplace s id a0 a' md' :
  inv0 s -> c_look s id = Some a0 ->
  a_ins a' = a_ins a0 -> a_acc a' = a_acc a0 -> 0 <= a_bytes a' ->
  (forall m, NoDup (md' m)) ->
  inv0 (mkC (c_cap s) (c_ins s) (c_size s - a_bytes a0 + a_bytes a') (upd (c_look s) id (Some a')) (c_ent s) md').
Proof.
  intros I Ha Hi Hacc Hb Hnd.
  assert (Hin : In id (c_ent s)) by (apply (i_ent s I); congruence).
  constructor; simpl; auto.
  - intros x. rewrite (i_ent s I). destruct (upd_cases (c_look s) id (Some a') x) as [[-> ->]|[Hne ->]]; [|tauto].
    split; congruence.
  - eapply sorted_ext; [|apply (i_sorted s I)]. intros x b Hx Hb'.
    destruct (upd_cases (c_look s) id (Some a') x) as [[-> ->]|[Hne ->]]; eauto.
    assert (b = a0) by congruence. subst b. eauto.
  - rewrite (i_size s I).
    pose proof (sumb_set_del (c_look s) id (c_ent s) (inv0_NoDup s I) Hin) as H1.
    pose proof (sumb_set_del (upd (c_look s) id (Some a')) id (c_ent s) (inv0_NoDup s I) Hin) as H2.
    rewrite (sumb_ext (upd (c_look s) id (Some a')) (c_look s)) in H2.
    + unfold bytes_of in H1, H2. rewrite Ha in H1. rewrite upd_same in H2. lia.
    + intros x Hx. apply set_del_In in Hx. unfold bytes_of. rewrite upd_other; tauto.
  - intros x b. destruct (upd_cases (c_look s) id (Some a') x) as [[-> ->]|[Hne ->]].
    + intros E. inversion E; subst; auto.
    + apply (i_bytes s I).
  - intros x b. destruct (upd_cases (c_look s) id (Some a') x) as [[-> ->]|[Hne ->]].
    + intros E. inversion E; subst. rewrite Hi. eapply (i_ins s I); eauto.
    + apply (i_ins s I).
  - intros i j b c.
    destruct (upd_cases (c_look s) id (Some a') i) as [[-> ->]|[Hni ->]];
    destruct (upd_cases (c_look s) id (Some a') j) as [[-> ->]|[Hnj ->]]; auto.
    + intros E1 E2 E3. inversion E1; subst. rewrite Hi in E3. eapply (i_inj s I); eauto.
    + intros E1 E2 E3. inversion E2; subst. rewrite Hi in E3. eapply (i_inj s I); eauto.
    + apply (i_inj s I).
Qed.

(* ------------------------------------------------------------------ Insert *)
Lemma refs_ok_add s m id a' md look' :
  (forall m0, refs_ok s m0) ->
  md = upd (c_mod s) m (set_add id (c_mod s m)) ->
  look' = upd (c_look s) id (Some a') ->
  (forall m0, In m0 (a_refs a') <-> m0 = m \/ exists a0, c_look s id = Some a0 /\ In m0 (a_refs a0)) ->
  forall s', c_look s' = look' -> c_mod s' = md -> forall m0, refs_ok s' m0.
Proof.
  intros R -> -> Hr s' Hl Hm m0 x. rewrite Hl, Hm.
  destruct (upd_cases (c_mod s) m (set_add id (c_mod s m)) m0) as [[-> ->]|[Hne ->]].
  - rewrite set_add_In.
    destruct (upd_cases (c_look s) id (Some a') x) as [[-> ->]|[Hnx ->]].
    + split; [|auto]. intros _. exists a'. split; auto. apply Hr. auto.
    + rewrite (R m x). intuition.
  - destruct (upd_cases (c_look s) id (Some a') x) as [[-> ->]|[Hnx ->]]; [|apply R].
    rewrite (R m0 id). split.
    + intros [a0 [H1 H2]]. exists a'. split; auto. apply Hr. eauto.
    + intros [b [H1 H2]]. inversion H1; subst b. apply Hr in H2. destruct H2 as [->|H2]; [tauto|exact H2].
Qed.

Lemma insert_inv m id ts data sz s :
  inv s -> 0 <= sz -> inv (fst (insert m id ts data sz s)).
Proof.
  intros [I [Hc R]] Hsz. unfold insert.
  destruct (c_look s id) as [a0|] eqn:Ha.
  - (* existing asset *)
    destruct (c_size s - a_bytes a0 + sz >? c_cap s) eqn:Eg; simpl; [split; auto|].
    rewrite Z.gtb_ltb in Eg. apply Z.ltb_ge in Eg.
    assert (Hnd : forall m0, NoDup (upd (c_mod s) m (set_add id (c_mod s m)) m0)).
    { intros m0. destruct (upd_cases (c_mod s) m (set_add id (c_mod s m)) m0) as [[-> ->]|[Hne ->]];
        auto using set_add_NoDup, (i_nodup s I). }
    destruct (a_ts a0 =? ts) eqn:Et; simpl.
    + split; [|split]; simpl; auto.
      * replace (c_size s) with (c_size s - a_bytes a0 + a_bytes a0) at 1 by lia.
        apply (inv0_upd_inplace s id a0 (mkA (a_ts a0) (a_bytes a0) (a_data a0) (a_ins a0) (a_acc a0) (set_add m (a_refs a0)))); auto.
        simpl. eapply (i_bytes s I); eauto.
      * eapply refs_ok_add; eauto; try reflexivity. simpl. intros m0. rewrite set_add_In. split.
        -- intros [->|H]; eauto.
        -- intros [->|[a1 [H1 H2]]]; auto. assert (a1 = a0) by congruence. subst; auto.
    + split; [|split]; simpl; auto.
      * apply (inv0_upd_inplace s id a0 (mkA ts sz data (a_ins a0) (a_acc a0) (set_add m (a_refs a0)))); auto.
      * eapply refs_ok_add; eauto; try reflexivity. simpl. intros m0. rewrite set_add_In. split.
        -- intros [->|H]; eauto.
        -- intros [->|[a1 [H1 H2]]]; auto. assert (a1 = a0) by congruence. subst; auto.
  - (* new asset *)
    destruct (c_size s + sz >? c_cap s) eqn:Eg; simpl; [split; auto|].
    rewrite Z.gtb_ltb in Eg. apply Z.ltb_ge in Eg.
    set (a := mkA ts sz data (c_ins s) 0 [m]).
    set (look' := upd (c_look s) id (Some a)).
    assert (Hnotin : ~ In id (c_ent s)) by (rewrite (i_ent s I); congruence).
    assert (Hold : forall y, In y (c_ent s) -> y <> id /\ exists b, c_look s y = Some b /\ look' y = Some b).
    { intros y Hy. assert (y <> id) by congruence. split; auto.
      destruct (inv0_live s y I Hy) as [b Hb]. exists b. split; auto. unfold look'. rewrite upd_other; auto. }
    assert (Hy : forall y, In y (c_ent s) -> exists b, look' y = Some b /\ a_ins b <> a_ins a).
    { intros y Hy. destruct (Hold y Hy) as [_ [b [H1 H2]]]. exists b. split; auto.
      apply (i_ins s I) in H1. simpl. lia. }
    assert (Hla : look' id = Some a) by apply upd_same.
    pose proof (ent_insert_perm look' id (c_ent s) a Hla Hy) as Hp.
    split; [|split]; simpl; auto.
    + constructor; simpl.
      * intros x. split.
        -- intros Hx. apply (Permutation_in _ (Permutation_sym Hp)) in Hx. destruct Hx as [<-|Hx]; [congruence|].
           destruct (Hold x Hx) as [_ [b [_ H2]]]. congruence.
        -- intros Hx. apply (Permutation_in _ Hp). unfold look' in Hx.
           destruct (upd_cases (c_look s) id (Some a) x) as [[-> _]|[Hne E]]; simpl; auto.
           rewrite E in Hx. right. now apply (i_ent s I).
      * apply (ent_insert_sorted look' id (c_ent s) a Hla Hy).
        eapply sorted_ext; [|apply (i_sorted s I)]. intros x b Hx Hb.
        destruct (Hold x Hx) as [_ [b' [H1 H2]]]. assert (b' = b) by congruence. subst. eauto.
      * rewrite <- (sumb_perm look' _ _ Hp). simpl. unfold bytes_of at 1. rewrite Hla. simpl.
        rewrite (sumb_ext look' (c_look s)); [rewrite (i_size s I); lia|].
        intros x Hx. destruct (Hold x Hx) as [_ [b [H1 H2]]]. unfold bytes_of. now rewrite H1, H2.
      * intros x b. unfold look'. destruct (upd_cases (c_look s) id (Some a) x) as [[-> ->]|[Hne ->]].
        -- intros E. inversion E; subst b. simpl. lia.
        -- apply (i_bytes s I).
      * intros x b. unfold look'. destruct (upd_cases (c_look s) id (Some a) x) as [[-> ->]|[Hne ->]].
        -- intros E. inversion E; subst b. simpl. lia.
        -- intros E. apply (i_ins s I) in E. lia.
      * intros i j b c. unfold look'.
        destruct (upd_cases (c_look s) id (Some a) i) as [[-> ->]|[Hni ->]];
        destruct (upd_cases (c_look s) id (Some a) j) as [[-> ->]|[Hnj ->]]; auto.
        -- intros E1 E2 E3. inversion E1; subst b. apply (i_ins s I) in E2. simpl in E3. lia.
        -- intros E1 E2 E3. inversion E2; subst c. apply (i_ins s I) in E1. simpl in E3. lia.
        -- apply (i_inj s I).
      * intros m0. destruct (upd_cases (c_mod s) m (set_add id (c_mod s m)) m0) as [[-> ->]|[Hne ->]];
          auto using set_add_NoDup, (i_nodup s I).
    + eapply (refs_ok_add s m id a); eauto; try reflexivity. simpl. intros m0. split.
      * intros [<-|[]]. auto.
      * intros [->|[a1 [H1 _]]]; auto. congruence.
Qed.

(* ------------------------------------------------------------------ PopulateData *)
Lemma populate_inv id rts fr s : inv s -> inv (fst (populate id rts fr s)).
Proof.
  intros [I [Hc R]]. unfold populate.
  destruct (c_look s id) as [a|] eqn:Ha; simpl; [|split; auto].
  destruct (is_modified rts (a_ts a)); simpl; [split; auto|].
  set (a' := mkA (a_ts a) (a_bytes a) (a_data a) (a_ins a) (a_acc a + 1) (a_refs a)).
  set (look' := upd (c_look s) id (Some a')).
  assert (Hent : ent_erase (c_look s) id (c_ent s) = set_del id (c_ent s)).
  { eapply ent_erase_eq; eauto. intros x Hx. now apply (i_ent s I). apply (i_inj s I). }
  rewrite Hent.
  assert (Hin : In id (c_ent s)) by (apply (i_ent s I); congruence).
  assert (Hold : forall y, In y (set_del id (c_ent s)) -> y <> id /\ exists b, c_look s y = Some b /\ look' y = Some b).
  { intros y Hy. apply set_del_In in Hy. destruct Hy as [Hy Hne]. split; auto.
    destruct (inv0_live s y I Hy) as [b Hb]. exists b. split; auto. unfold look'. rewrite upd_other; auto. }
  assert (Hy : forall y, In y (set_del id (c_ent s)) -> exists b, look' y = Some b /\ a_ins b <> a_ins a').
  { intros y Hy. destruct (Hold y Hy) as [Hne [b [H1 H2]]]. exists b. split; auto.
    simpl. intros E. apply Hne. eapply (i_inj s I); eauto. }
  assert (Hla : look' id = Some a') by apply upd_same.
  pose proof (ent_insert_perm look' id _ a' Hla Hy) as Hp.
  split; [|split]; simpl; auto.
  - constructor; simpl.
    + intros x. split.
      * intros Hx. apply (Permutation_in _ (Permutation_sym Hp)) in Hx. destruct Hx as [<-|Hx]; [congruence|].
        destruct (Hold x Hx) as [_ [b [_ H2]]]. congruence.
      * intros Hx. apply (Permutation_in _ Hp). unfold look' in Hx.
        destruct (upd_cases (c_look s) id (Some a') x) as [[-> _]|[Hne E]]; simpl; auto.
        rewrite E in Hx. right. apply set_del_In. split; auto. now apply (i_ent s I).
    + apply (ent_insert_sorted look' id _ a' Hla Hy).
      eapply sorted_ext; [|apply sorted_filter, (i_sorted s I)]. intros x b Hx Hb.
      destruct (Hold x Hx) as [_ [b' [H1 H2]]]. assert (b' = b) by congruence. subst. eauto.
    + rewrite <- (sumb_perm look' _ _ Hp). simpl. unfold bytes_of at 1. rewrite Hla. simpl.
      rewrite (sumb_ext look' (c_look s)).
      * rewrite sumb_set_del; auto using inv0_NoDup. unfold bytes_of. rewrite Ha, (i_size s I). lia.
      * intros x Hx. destruct (Hold x Hx) as [_ [b [H1 H2]]]. unfold bytes_of. now rewrite H1, H2.
    + intros x b. unfold look'. destruct (upd_cases (c_look s) id (Some a') x) as [[-> ->]|[Hne ->]].
      * intros E. inversion E; subst b. simpl. eapply (i_bytes s I); eauto.
      * apply (i_bytes s I).
    + intros x b. unfold look'. destruct (upd_cases (c_look s) id (Some a') x) as [[-> ->]|[Hne ->]].
      * intros E. inversion E; subst b. simpl. eapply (i_ins s I); eauto.
      * apply (i_ins s I).
    + intros i j b c. unfold look'.
      destruct (upd_cases (c_look s) id (Some a') i) as [[-> ->]|[Hni ->]];
      destruct (upd_cases (c_look s) id (Some a') j) as [[-> ->]|[Hnj ->]]; auto.
      * intros E1 E2 E3. inversion E1; subst b. simpl in E3. eapply (i_inj s I); eauto.
      * intros E1 E2 E3. inversion E2; subst c. simpl in E3. eapply (i_inj s I); eauto.
      * apply (i_inj s I).
    + apply (i_nodup s I).
  - intros m x. unfold refs_ok in R. simpl. rewrite (R m x). fold look'.
    destruct (upd_cases (c_look s) id (Some a') x) as [[-> E]|[Hne E]]; fold look' in E; rewrite E; [|tauto].
    split.
    + intros [b [H1 H2]]. assert (b = a) by congruence. subst. eauto.
    + intros [b [H1 H2]]. inversion H1; subst b. eauto.
Qed.

(* ------------------------------------------------------------------ DeleteAsset, Reset *)
Lemma delete_inv id s a :
  inv s -> c_look s id = Some a -> exists s', delete None id s = Some s' /\ inv s'.
Proof.
  intros [I [Hc R]] Ha.
  destruct (delete_inv0 None id s a I Ha) as [s' [E [I' [Hcap [_ [Hsz _]]]]]].
  exists s'. split; auto. split; [auto|split].
  - pose proof (i_bytes s I id a Ha). lia.
  - intros m. apply (delete_refs_ok None id s a s' m I Ha E eq_refl (R m)).
Qed.

Lemma delete_asset_inv id s : inv s -> exists s', delete_asset id s = Some s' /\ inv s'.
Proof.
  intros H. unfold delete_asset. destruct (c_look s id) as [a|] eqn:Ha; eauto using delete_inv.
Qed.

Lemma reset_inv s : 0 <= c_cap s -> inv (reset s).
Proof. intros H. apply (inv_init (c_cap s) H). Qed.

Lemma inv_cap_nonneg s : inv s -> 0 <= c_cap s.
Proof.
  intros [I [Hc _]]. rewrite (i_size s I) in Hc.
  pose proof (sumb_nonneg (c_look s) (c_ent s) (i_bytes s I)). lia.
Qed.

(* ------------------------------------------------------------------ RemoveModel / Reset(model) *)
Definition inv_loop (m : Z) (todo : list Z) (s : cache) : Prop :=
  inv0 s /\ (forall m', m' <> m -> refs_ok s m') /\ NoDup todo /\
  (forall id, In id todo -> c_look s id <> None) /\
  (forall id a, c_look s id = Some a -> In m (a_refs a) -> In id todo).

(* what RemoveModel m does to one asset that is in models_[m] *)
Definition rm_asset (m : Z) (a : asset) : option asset :=
  match set_del m (a_refs a) with
  | [] => None
  | _ :: _ => Some (mkA (a_ts a) (a_bytes a) (a_data a) (a_ins a) (a_acc a) (set_del m (a_refs a)))
  end.

Lemma skip_is_ne m m' : m' <> m -> skip_is (Some m) m' = false.
Proof. intros H. simpl. now apply Z.eqb_neq. Qed.

Lemma inv_loop_start m order s :
  inv s -> NoDup order -> (forall id, In id order <-> In id (c_mod s m)) -> inv_loop m order s.
Proof.
  intros [I [_ R]] Hnd Ho. split; [auto|]. split; [auto|]. split; [auto|]. split.
  - intros id Hid. apply Ho, R in Hid. destruct Hid as [a [Ha _]]. congruence.
  - intros id a Ha Hm. apply Ho, R. eauto.
Qed.

Lemma inv_loop_end m s s0 :
  inv_loop m [] s -> c_size s <= c_size s0 -> c_cap s = c_cap s0 -> c_size s0 <= c_cap s0 ->
  inv (erase_model m s).
Proof.
  intros [I [R [_ [_ Hm]]]] H1 H2 H3. split; [|split]; simpl.
  - destruct I. constructor; simpl; auto.
    intros m0. destruct (upd_cases (c_mod s) m (@nil Z) m0) as [[-> ->]|[Hne ->]]; auto. constructor.
  - lia.
  - intros m0 x. simpl.
    destruct (upd_cases (c_mod s) m (@nil Z) m0) as [[-> ->]|[Hne ->]].
    + split; [intros []|]. intros [a [Ha Hin]]. apply (Hm x a Ha Hin).
    + apply R; auto.
Qed.

Lemma rm_step_spec m x r s a :
  inv_loop m (x :: r) s -> c_look s x = Some a ->
  exists s1, remove_model_step m (Some s) x = Some s1 /\ inv_loop m r s1 /\
    (forall id, c_look s1 id = upd (c_look s) x (rm_asset m a) id) /\
    c_cap s1 = c_cap s /\ c_ins s1 = c_ins s /\ c_size s1 <= c_size s /\
    c_mod s1 m = c_mod s m.
Proof.
  intros [I [R [Hnd [Hlive Hm]]]] Ha. inversion Hnd as [|? ? Hni Hnd']; subst.
  unfold remove_model_step. rewrite Ha.
  set (a' := mkA (a_ts a) (a_bytes a) (a_data a) (a_ins a) (a_acc a) (set_del m (a_refs a))).
  set (s1 := mkC (c_cap s) (c_ins s) (c_size s) (upd (c_look s) x (Some a')) (c_ent s) (c_mod s)).
  assert (I1 : inv0 s1).
  { unfold s1. replace (c_size s) with (c_size s - a_bytes a + a_bytes a') at 1 by (simpl; lia).
    apply inv0_upd_inplace; auto. simpl. eapply (i_bytes s I); eauto. apply (i_nodup s I). }
  assert (R1 : forall m', m' <> m -> refs_ok s1 m').
  { intros m' Hne y. simpl. rewrite (R m' Hne y).
    destruct (upd_cases (c_look s) x (Some a') y) as [[-> ->]|[Hny ->]]; [|tauto].
    split.
    - intros [b [H1 H2]]. assert (b = a) by congruence. subst. exists a'. split; auto. simpl. apply set_del_In. auto.
    - intros [b [H1 H2]]. inversion H1; subst b. simpl in H2. apply set_del_In in H2. exists a. tauto. }
  assert (Hrest : forall id, In id r -> id <> x) by (intros id Hid ->; tauto).
  simpl (a_refs _). unfold rm_asset. fold a'.
  destruct (set_del m (a_refs a)) as [|r0 rs] eqn:Er.
  - (* last reference: Delete(asset, m) *)
    assert (Ha1 : c_look s1 x = Some a') by apply upd_same.
    destruct (delete_inv0 (Some m) x s1 a' I1 Ha1) as [s2 [E [I2 [Hcap [Hins [Hsz [Hl [He Hmd]]]]]]]].
    exists s2. split; [exact E|]. split; [|split; [|split; [|split; [|split]]]]; auto.
    + split; [auto|]. split; [|split; [auto|split]].
      * intros m' Hne. apply (delete_refs_ok (Some m) x s1 a' s2 m' I1 Ha1 E (skip_is_ne m m' Hne) (R1 m' Hne)).
      * intros id Hid. rewrite Hl. simpl. rewrite !upd_other; auto. apply Hlive; simpl; auto.
      * intros id b. rewrite Hl. simpl. intros Hb Hin. apply upd_none_some in Hb. destruct Hb as [Hne Hb].
        rewrite upd_other in Hb; auto. destruct (Hm id b Hb Hin) as [->|]; tauto.
    + intros id. rewrite Hl. simpl.
      destruct (upd_cases (c_look s) x (@None asset) id) as [[-> ->]|[Hne ->]].
      * apply upd_same.
      * rewrite !upd_other; auto.
    + rewrite Hsz. simpl. pose proof (i_bytes s I x a Ha). lia.
    + rewrite Hmd. simpl. reflexivity.
  - exists s1. split; [reflexivity|]. split; [|split; [|split; [|split; [|split]]]]; simpl; auto; try lia.
    split; [auto|]. split; [auto|]. split; [auto|]. split.
    + intros id Hid. simpl. rewrite upd_other; auto. apply Hlive; simpl; auto.
    + intros id b. simpl. destruct (upd_cases (c_look s) x (Some a') id) as [[-> ->]|[Hne ->]].
      * intros Hb Hin. inversion Hb; subst b. change (In m (r0 :: rs)) in Hin. rewrite <- Er in Hin. apply set_del_In in Hin. tauto.
      * intros Hb Hin. destruct (Hm id b Hb Hin) as [->|]; tauto.
Qed.

Definition app_opt (f : asset -> option asset) (o : option asset) : option asset :=
  match o with Some a => f a | None => None end.

Lemma rm_loop_spec m : forall todo s,
  inv_loop m todo s ->
  exists s', fold_left (remove_model_step m) todo (Some s) = Some s' /\ inv_loop m [] s' /\
    (forall id, c_look s' id = if set_mem id todo then app_opt (rm_asset m) (c_look s id) else c_look s id) /\
    c_cap s' = c_cap s /\ c_ins s' = c_ins s /\ c_size s' <= c_size s /\ c_mod s' m = c_mod s m.
Proof.
  induction todo as [|x r IH]; intros s L.
  - exists s. simpl. repeat (split; auto); lia.
  - assert (Hx : c_look s x <> None) by (apply L; simpl; auto).
    destruct (c_look s x) as [a|] eqn:Ha; [|congruence].
    assert (Hni : ~ In x r) by (destruct L as [_ [_ [Hnd _]]]; now inversion Hnd).
    destruct (rm_step_spec m x r s a L Ha) as [s1 [E [L1 [Hl [Hc [Hi [Hs Hmm]]]]]]].
    destruct (IH s1 L1) as [s' [E' [L' [Hl' [Hc' [Hi' [Hs' Hmm']]]]]]].
    exists s'. change (fold_left (remove_model_step m) (x :: r) (Some s)) with (fold_left (remove_model_step m) r (remove_model_step m (Some s) x)).
    rewrite E. split; [exact E'|]. split; [exact L'|].
    split; [|repeat split; try congruence; lia].
    intros id. rewrite Hl', !Hl. unfold set_mem. simpl.
    destruct (Z.eqb_spec id x) as [->|Hne]; simpl.
    + apply set_mem_false in Hni. unfold set_mem in Hni. rewrite Hni, upd_same, Ha. reflexivity.
    + rewrite upd_other; auto.
Qed.

Lemma remove_model_over_spec order m s :
  inv s -> NoDup order -> (forall id, In id order <-> In id (c_mod s m)) ->
  exists s', remove_model_over order m s = Some s' /\ inv s' /\
    c_cap s' = c_cap s /\ c_ins s' = c_ins s /\
    (forall id, c_look s' id =
       match c_look s id with
       | Some a => if set_mem m (a_refs a) then rm_asset m a else Some a
       | None => None
       end).
Proof.
  intros Hinv Hnd Ho.
  destruct (rm_loop_spec m order s (inv_loop_start m order s Hinv Hnd Ho)) as [s' [E [L [Hl [Hc [Hi [Hs Hm]]]]]]].
  exists (erase_model m s'). unfold remove_model_over. rewrite E. split; [reflexivity|].
  destruct Hinv as [I [Hcap R]].
  split; [eapply inv_loop_end; eauto|]. simpl. split; [auto|]. split; [auto|].
  intros id. rewrite Hl. destruct (c_look s id) as [a|] eqn:Ha; simpl.
  - destruct (set_mem id order) eqn:E1; destruct (set_mem m (a_refs a)) eqn:E2; auto.
    + apply set_mem_In, Ho, R in E1. destruct E1 as [b [Hb Hin]]. apply set_mem_false in E2.
      assert (b = a) by congruence. subst. tauto.
    + apply set_mem_false in E1. apply set_mem_In in E2. exfalso. apply E1, Ho, R. eauto.
  - destruct (set_mem id order); reflexivity.
Qed.

Lemma remove_model_inv m s : inv s -> exists s', remove_model m s = Some s' /\ inv s'.
Proof.
  intros H. destruct (remove_model_over_spec (c_mod s m) m s H) as [s' [E [I' _]]].
  - destruct H as [I _]. apply (i_nodup s I).
  - tauto.
  - eauto.
Qed.

(* Reset(model) *)
Lemma rs_step_spec m x r s a :
  inv_loop m (x :: r) s -> c_look s x = Some a ->
  exists s1, reset_model_step m (Some s) x = Some s1 /\ inv_loop m r s1 /\
    (forall id, c_look s1 id = upd (c_look s) x None id) /\
    c_cap s1 = c_cap s /\ c_ins s1 = c_ins s /\ c_size s1 <= c_size s /\
    c_mod s1 m = c_mod s m.
Proof.
  intros [I [R [Hnd [Hlive Hm]]]] Ha. inversion Hnd as [|? ? Hni Hnd']; subst.
  unfold reset_model_step.
  destruct (delete_inv0 (Some m) x s a I Ha) as [s2 [E [I2 [Hcap [Hins [Hsz [Hl [He Hmd]]]]]]]].
  assert (Hrest : forall id, In id r -> id <> x) by (intros id Hid ->; tauto).
  exists s2. split; [exact E|]. split; [|split; [|split; [|split; [|split]]]]; auto.
  - split; [auto|]. split; [|split; [auto|split]].
    + intros m' Hne. apply (delete_refs_ok (Some m) x s a s2 m' I Ha E (skip_is_ne m m' Hne) (R m' Hne)).
    + intros id Hid. rewrite Hl. rewrite upd_other; auto. apply Hlive; simpl; auto.
    + intros id b. rewrite Hl. intros Hb Hin. apply upd_none_some in Hb. destruct Hb as [Hne Hb].
      destruct (Hm id b Hb Hin) as [->|]; tauto.
  - intros id. rewrite Hl. reflexivity.
  - rewrite Hsz. pose proof (i_bytes s I x a Ha). lia.
  - rewrite Hmd. simpl. rewrite Z.eqb_refl, andb_false_r. reflexivity.
Qed.

Lemma rs_loop_spec m : forall todo s,
  inv_loop m todo s ->
  exists s', fold_left (reset_model_step m) todo (Some s) = Some s' /\ inv_loop m [] s' /\
    (forall id, c_look s' id = if set_mem id todo then None else c_look s id) /\
    c_cap s' = c_cap s /\ c_ins s' = c_ins s /\ c_size s' <= c_size s /\ c_mod s' m = c_mod s m.
Proof.
  induction todo as [|x r IH]; intros s L.
  - exists s. simpl. repeat (split; auto); lia.
  - assert (Hx : c_look s x <> None) by (apply L; simpl; auto).
    destruct (c_look s x) as [a|] eqn:Ha; [|congruence].
    destruct (rs_step_spec m x r s a L Ha) as [s1 [E [L1 [Hl [Hc [Hi [Hs Hmm]]]]]]].
    destruct (IH s1 L1) as [s' [E' [L' [Hl' [Hc' [Hi' [Hs' Hmm']]]]]]].
    exists s'. change (fold_left (reset_model_step m) (x :: r) (Some s)) with (fold_left (reset_model_step m) r (reset_model_step m (Some s) x)).
    rewrite E. split; [exact E'|]. split; [exact L'|].
    split; [|repeat split; try congruence; lia].
    intros id. rewrite Hl', !Hl. unfold set_mem. simpl.
    destruct (Z.eqb_spec id x) as [->|Hne]; simpl.
    + rewrite upd_same. destruct (existsb _ _); reflexivity.
    + rewrite upd_other; auto.
Qed.

Lemma reset_model_over_spec order m s :
  inv s -> NoDup order -> (forall id, In id order <-> In id (c_mod s m)) ->
  exists s', reset_model_over order m s = Some s' /\ inv s' /\
    c_cap s' = c_cap s /\ c_ins s' = c_ins s /\
    (forall id, c_look s' id =
       match c_look s id with
       | Some a => if set_mem m (a_refs a) then None else Some a
       | None => None
       end).
Proof.
  intros Hinv Hnd Ho.
  destruct (rs_loop_spec m order s (inv_loop_start m order s Hinv Hnd Ho)) as [s' [E [L [Hl [Hc [Hi [Hs Hm]]]]]]].
  exists (erase_model m s'). unfold reset_model_over. rewrite E. split; [reflexivity|].
  destruct Hinv as [I [Hcap R]].
  split; [eapply inv_loop_end; eauto|]. simpl. split; [auto|]. split; [auto|].
  intros id. rewrite Hl. destruct (c_look s id) as [a|] eqn:Ha; simpl.
  - destruct (set_mem id order) eqn:E1; destruct (set_mem m (a_refs a)) eqn:E2; auto.
    + apply set_mem_In, Ho, R in E1. destruct E1 as [b [Hb Hin]]. apply set_mem_false in E2.
      assert (b = a) by congruence. subst. tauto.
    + apply set_mem_false in E1. apply set_mem_In in E2. exfalso. apply E1, Ho, R. eauto.
  - destruct (set_mem id order); reflexivity.
Qed.

Lemma reset_model_inv m s : inv s -> exists s', reset_model m s = Some s' /\ inv s'.
Proof.
  intros H. destruct (reset_model_over_spec (c_mod s m) m s H) as [s' [E [I' _]]].
  - destruct H as [I _]. apply (i_nodup s I).
  - tauto.
  - eauto.
Qed.

(* ------------------------------------------------------------------ histories *)
Definition op_ok (o : op) : Prop :=
  match o with OInsert _ _ _ _ sz => 0 <= sz | OSetCap c => 0 <= c | _ => True end.

Lemma step_inv o s : inv s -> op_ok o -> exists s' r, step o s = Some (s', r) /\ inv s'.
Proof.
  intros I Hok. destruct o; simpl in *.
  - pose proof (insert_inv m id ts data sz s I Hok) as H. destruct (insert m id ts data sz s) as [s' b]. eauto.
  - pose proof (populate_inv id rts fr s I) as H. destruct (populate id rts fr s) as [s' [b d]]. eauto.
  - eauto.
  - destruct (delete_asset_inv id s I) as [s' [E I']]. rewrite E. simpl. eauto.
  - destruct (remove_model_inv m s I) as [s' [E I']]. rewrite E. simpl. eauto.
  - destruct (reset_model_inv m s I) as [s' [E I']]. rewrite E. simpl. eauto.
  - exists (reset s), RUnit. split; auto. apply reset_inv. now apply inv_cap_nonneg.
  - destruct (set_capacity_spec c s I Hok) as [k [s' [E [I' _]]]]. rewrite E. simpl. eauto.
  - eauto.
  - eauto.
Qed.

Lemma run_inv : forall h s, inv s -> Forall op_ok h -> exists s' rs, run h s = Some (s', rs) /\ inv s'.
Proof.
  induction h as [|o r IH]; intros s I F; simpl.
  - eauto.
  - inversion F; subst. destruct (step_inv o s I H1) as [s1 [x [E I1]]]. rewrite E.
    destruct (IH s1 I1 H2) as [s' [rs [E' I']]]. rewrite E'. eauto.
Qed.

Lemma run_app : forall h1 h2 s s' rs,
  run (h1 ++ h2) s = Some (s', rs) ->
  exists s1 r1 r2, run h1 s = Some (s1, r1) /\ run h2 s1 = Some (s', r2) /\ rs = r1 ++ r2.
Proof.
  induction h1 as [|o r IH]; intros h2 s s' rs H; simpl in *.
  - exists s, [], rs. auto.
  - destruct (step o s) as [[s1 x]|]; [|discriminate].
    destruct (run (r ++ h2) s1) as [[s2 xs]|] eqn:E; [|discriminate].
    inversion H; subst. destruct (IH h2 s1 s' xs E) as [s3 [r1 [r2 [E1 [E2 ->]]]]].
    rewrite E1. exists s3, (x :: r1), r2. auto.
Qed.

Lemma inv_size_sum s :
  inv s ->
  exists held, NoDup held /\ (forall id, In id held <-> c_look s id <> None) /\
               c_size s = sumb (c_look s) held /\ c_size s <= c_cap s.
Proof.
  intros [I [Hc _]]. exists (c_ent s). split; [now apply inv0_NoDup|]. split; [apply (i_ent s I)|].
  split; [apply (i_size s I)|exact Hc].
Qed.

(* ------------------------------------------------------------------ eviction order *)
Lemma sorted_app_lt look l1 l2 :
  StronglySorted (plt look) (l1 ++ l2) -> forall x y, In x l1 -> In y l2 -> plt look x y.
Proof.
  induction l1 as [|z r IH]; simpl; intros S x y Hx Hy; [tauto|].
  inversion S; subst. destruct Hx as [->|Hx]; [|eauto].
  rewrite Forall_forall in H2. apply H2. apply in_or_app. auto.
Qed.

Lemma NoDup_app_disjoint {A} (l1 l2 : list A) x : NoDup (l1 ++ l2) -> In x l1 -> In x l2 -> False.
Proof.
  induction l1 as [|z r IH]; simpl; [tauto|]. intros Hnd [->|Hin] Hx.
  - inversion Hnd; subst. apply H1. apply in_or_app. auto.
  - inversion Hnd; subst. auto.
Qed.

Lemma set_capacity_order c s :
  inv s -> 0 <= c ->
  exists k s', set_capacity c s = Some s' /\ inv s' /\ c_cap s' = c /\
    c_ent s' = skipn k (c_ent s) /\
    (forall id, c_look s' id = if set_mem id (firstn k (c_ent s)) then None else c_look s id) /\
    (forall e y, In e (firstn k (c_ent s)) -> In y (skipn k (c_ent s)) -> ptr_lt (c_look s) e y = true) /\
    (forall j, (j < k)%nat -> sumb (c_look s) (skipn j (c_ent s)) > c) /\
    sumb (c_look s) (skipn k (c_ent s)) <= c.
Proof.
  intros Hinv Hc. destruct (set_capacity_spec c s Hinv Hc) as [k [s' [E [I' [Hcap [_ [He [Hl Hgt]]]]]]]].
  exists k, s'. split; [auto|]. split; [auto|]. split; [auto|]. split; [auto|]. split; [auto|]. split; [|split; auto].
  - destruct Hinv as [I _]. apply sorted_app_lt. rewrite firstn_skipn. apply (i_sorted s I).
  - destruct I' as [I0 [Hle _]]. rewrite (i_size s' I0), He, Hcap in Hle.
    rewrite <- (sumb_ext (c_look s')); auto.
    intros x Hx. unfold bytes_of. rewrite Hl.
    destruct (set_mem x (firstn k (c_ent s))) eqn:Em; auto.
    apply set_mem_In in Em. exfalso.
    destruct Hinv as [I _]. pose proof (inv0_NoDup s I) as Hnd. rewrite <- (firstn_skipn k (c_ent s)) in Hnd.
    eapply NoDup_app_disjoint; eauto.
Qed.

(* ------------------------------------------------------------------ lookups *)
(* the operation (re)defines the data of asset id: an Insert that succeeded and either created the
   asset or found it with a different timestamp *)
Definition defines (o : op) (s : cache) : option (Z * Z) :=
  match o with
  | OInsert m id ts data sz =>
      match c_look s id with
      | None => if c_size s + sz >? c_cap s then None else Some (id, data)
      | Some a => if c_size s - a_bytes a + sz >? c_cap s then None
                  else if a_ts a =? ts then None else Some (id, data)
      end
  | _ => None
  end.

Lemma defines_spec o s i d :
  defines o s = Some (i, d) <->
  exists m ts sz, o = OInsert m i ts d sz /\ snd (insert m i ts d sz s) = true /\
    (c_look s i = None \/ exists a, c_look s i = Some a /\ a_ts a <> ts).
Proof.
  split.
  - destruct o; simpl; try discriminate.
    destruct (c_look s id) as [a|] eqn:Ha.
    + destruct (c_size s - a_bytes a + sz >? c_cap s) eqn:Eg; [discriminate|].
      destruct (a_ts a =? ts) eqn:Et; [discriminate|]. intros H; inversion H; subst.
      exists m, ts, sz. unfold insert. rewrite Ha, Eg. simpl. rewrite Et. simpl.
      split; auto. split; auto. right. exists a. split; auto. now apply Z.eqb_neq.
    + destruct (c_size s + sz >? c_cap s) eqn:Eg; [discriminate|]. intros H; inversion H; subst.
      exists m, ts, sz. unfold insert. rewrite Ha, Eg. auto.
  - intros [m [ts [sz [-> [Hb Hc]]]]]. simpl. unfold insert in Hb.
    destruct (c_look s i) as [a|] eqn:Ha.
    + destruct (c_size s - a_bytes a + sz >? c_cap s); [discriminate|].
      destruct Hc as [Hc|[a' [Ha' Hne]]]; [discriminate|]. inversion Ha'; subst a'.
      apply Z.eqb_neq in Hne. now rewrite Hne.
    + destruct (c_size s + sz >? c_cap s); [discriminate|]. reflexivity.
Qed.

(* data of the most recent defining operation, per asset id, along a history *)
Fixpoint last_def (h : list op) (s : cache) (g : Z -> option Z) : Z -> option Z :=
  match h with
  | [] => g
  | o :: r => match step o s with
              | None => g
              | Some (s', _) =>
                  last_def r s' (match defines o s with Some (id, d) => upd g id (Some d) | None => g end)
              end
  end.

Lemma step_data o s s1 r :
  inv s -> op_ok o -> step o s = Some (s1, r) ->
  forall id a1, c_look s1 id = Some a1 ->
    (defines o s = Some (id, a_data a1)) \/
    (exists a, c_look s id = Some a /\ a_data a1 = a_data a /\ (forall i d, defines o s = Some (i, d) -> i <> id)).
Proof.
  intros I Hok Hs id a1 H1. destruct o; simpl in Hs.
  - (* insert *)
    simpl. unfold insert in *. destruct (c_look s id0) as [a0|] eqn:Ha.
    + destruct (c_size s - a_bytes a0 + sz >? c_cap s).
      * inversion Hs; subst. simpl. right. exists a1. repeat split; auto. discriminate.
      * simpl in Hs. destruct (a_ts a0 =? ts) eqn:Et; simpl; inversion Hs; subst; simpl in H1.
        -- right. destruct (upd_cases (c_look s) id0 (Some (mkA (a_ts a0) (a_bytes a0) (a_data a0) (a_ins a0) (a_acc a0) (set_add m (a_refs a0)))) id) as [[-> E]|[Hne E]];
             rewrite E in H1.
           ++ inversion H1; subst; simpl. exists a0. repeat split; auto. discriminate.
           ++ exists a1. repeat split; auto. discriminate.
        -- destruct (upd_cases (c_look s) id0 (Some (mkA ts sz data (a_ins a0) (a_acc a0) (set_add m (a_refs a0)))) id) as [[-> E]|[Hne E]];
             rewrite E in H1.
           ++ inversion H1; subst; simpl. left. reflexivity.
           ++ right. exists a1. repeat split; auto. intros i d Hd. inversion Hd; subst. auto.
    + destruct (c_size s + sz >? c_cap s).
      * inversion Hs; subst. simpl. right. exists a1. repeat split; auto. discriminate.
      * simpl in Hs. inversion Hs; subst. simpl in H1. simpl.
        destruct (upd_cases (c_look s) id0 (Some (mkA ts sz data (c_ins s) 0 [m])) id) as [[-> E]|[Hne E]];
          rewrite E in H1.
        -- inversion H1; subst; simpl. left. reflexivity.
        -- right. exists a1. repeat split; auto. intros i d Hd. inversion Hd; subst. auto.
  - (* populate *)
    right. unfold populate in Hs. destruct (c_look s id0) as [a|] eqn:Ha.
    + destruct (is_modified rts (a_ts a)).
      * inversion Hs; subst. exists a1. repeat split; auto. discriminate.
      * inversion Hs; subst. simpl in H1.
        destruct (upd_cases (c_look s) id0 (Some (mkA (a_ts a) (a_bytes a) (a_data a) (a_ins a) (a_acc a + 1) (a_refs a))) id) as [[-> E]|[Hne E]];
          rewrite E in H1.
        -- inversion H1; subst; simpl. exists a. repeat split; auto. discriminate.
        -- exists a1. repeat split; auto. discriminate.
    + inversion Hs; subst. exists a1. repeat split; auto. discriminate.
  - inversion Hs; subst. right. exists a1. repeat split; auto. discriminate.
  - (* delete *)
    right. unfold delete_asset in Hs. destruct (c_look s id0) as [a|] eqn:Ha.
    + destruct I as [I0 _]. destruct (delete_inv0 None id0 s a I0 Ha) as [s2 [E [_ [_ [_ [_ [Hl _]]]]]]].
      rewrite E in Hs. inversion Hs; subst. rewrite Hl in H1. apply upd_none_some in H1.
      exists a1. repeat split; try tauto. discriminate.
    + inversion Hs; subst. exists a1. repeat split; auto. discriminate.
  - (* remove model *)
    right. destruct (remove_model_over_spec (c_mod s m) m s I) as [s2 [E [_ [_ [_ Hl]]]]].
    { destruct I as [I0 _]. apply (i_nodup s I0). } { tauto. }
    unfold remove_model in Hs. rewrite E in Hs. inversion Hs; subst. rewrite Hl in H1.
    destruct (c_look s id) as [a|]; [|discriminate]. exists a. split; auto. split; [|discriminate].
    destruct (set_mem m (a_refs a)); [|congruence].
    unfold rm_asset in H1. destruct (set_del m (a_refs a)); [discriminate|]. inversion H1; reflexivity.
  - (* reset model *)
    right. destruct (reset_model_over_spec (c_mod s m) m s I) as [s2 [E [_ [_ [_ Hl]]]]].
    { destruct I as [I0 _]. apply (i_nodup s I0). } { tauto. }
    unfold reset_model in Hs. rewrite E in Hs. inversion Hs; subst. rewrite Hl in H1.
    destruct (c_look s id) as [a|]; [|discriminate]. exists a. split; auto. split; [|discriminate].
    destruct (set_mem m (a_refs a)); congruence.
  - inversion Hs; subst. discriminate.
  - (* set capacity *)
    right. destruct (set_capacity_spec c s I Hok) as [k [s2 [E [_ [_ [_ [_ [Hl _]]]]]]]].
    rewrite E in Hs. inversion Hs; subst. rewrite Hl in H1.
    destruct (set_mem id (firstn k (c_ent s))); [discriminate|]. exists a1. repeat split; auto. discriminate.
  - inversion Hs; subst. right. exists a1. repeat split; auto. discriminate.
  - inversion Hs; subst. right. exists a1. repeat split; auto. discriminate.
Qed.

Lemma last_def_inv : forall h s g s' rs,
  inv s -> Forall op_ok h ->
  (forall id a, c_look s id = Some a -> g id = Some (a_data a)) ->
  run h s = Some (s', rs) ->
  forall id a, c_look s' id = Some a -> last_def h s g id = Some (a_data a).
Proof.
  induction h as [|o r IH]; intros s g s' rs I F G Hr id a Ha; simpl in *.
  - inversion Hr; subst. auto.
  - inversion F; subst.
    destruct (step o s) as [[s1 x]|] eqn:Es; [|discriminate].
    destruct (run r s1) as [[s2 xs]|] eqn:Er; [|discriminate]. inversion Hr; subst.
    destruct (step_inv o s I H1) as [s1' [x' [Es' I1]]]. rewrite Es in Es'. inversion Es'; subst s1' x'.
    eapply (IH s1); eauto.
    intros id1 a1 Ha1. destruct (step_data o s s1 x I H1 Es id1 a1 Ha1) as [Hd|[a0 [H0 [Hdat Hnd]]]].
    + rewrite Hd. apply upd_same.
    + destruct (defines o s) as [[i d]|] eqn:Ed.
      * rewrite upd_other; [rewrite Hdat; auto|]. intros ->. eapply Hnd; eauto.
      * rewrite Hdat; auto.
Qed.

Lemma populate_result id rts fr s s' b d :
  populate id rts fr s = (s', (b, d)) ->
  match d with
  | Some x => exists a, c_look s id = Some a /\ rts = Some (a_ts a) /\ x = a_data a /\ b = fr
  | None => b = false /\ s' = s /\ (c_look s id = None \/ exists a, c_look s id = Some a /\ rts <> Some (a_ts a))
  end.
Proof.
  unfold populate. destruct (c_look s id) as [a|] eqn:Ha.
  - destruct (is_modified rts (a_ts a)) eqn:Em; intros H; inversion H; subst.
    + repeat split; auto. right. exists a. split; auto. intros ->. simpl in Em. now rewrite Z.eqb_refl in Em.
    + exists a. repeat split; auto. destruct rts as [t|]; simpl in Em; [|discriminate].
      apply negb_false_iff, Z.eqb_eq in Em. now subst.
  - intros H; inversion H; subst. auto.
Qed.

(* ------------------------------------------------------------------ lock-step concurrency *)
(* A concurrent execution in which every public method runs atomically (it holds mutex_ for its
   whole body): at each step some thread with a non-empty program performs its next operation on
   the shared cache.  log = (thread index, operation, result) in lock-acquisition order. *)
Inductive cexec : cache -> list (list op) -> list (nat * op * res) -> cache -> Prop :=
| cexec_done s ts : Forall (fun p => p = []) ts -> cexec s ts [] s
| cexec_step s ts t o p s1 x log s' :
    nth_error ts t = Some (o :: p) ->
    step o s = Some (s1, x) ->
    cexec s1 (firstn t ts ++ p :: skipn (S t) ts) log s' ->
    cexec s ts ((t, o, x) :: log) s'.

Definition log_ops (log : list (nat * op * res)) : list op := map (fun e => snd (fst e)) log.
Definition log_res (log : list (nat * op * res)) : list res := map snd log.
Definition log_of_thread (t : nat) (log : list (nat * op * res)) : list op :=
  map (fun e => snd (fst e)) (filter (fun e => Nat.eqb (fst (fst e)) t) log).

Lemma cexec_sequential s ts log s' :
  cexec s ts log s' -> run (log_ops log) s = Some (s', log_res log).
Proof.
  induction 1; simpl; auto. rewrite H0, IHcexec. reflexivity.
Qed.

Lemma nth_error_replace {A} (l : list A) t x y :
  nth_error l t = Some x ->
  forall u, nth_error (firstn t l ++ y :: skipn (S t) l) u = if Nat.eqb u t then Some y else nth_error l u.
Proof.
  revert t. induction l as [|z r IH]; intros t H u; [destruct t; discriminate|].
  destruct t as [|t]; simpl in *.
  - destruct u; reflexivity.
  - destruct u; simpl; auto.
Qed.

Lemma cexec_threads s ts log s' :
  cexec s ts log s' -> forall t p, nth_error ts t = Some p -> log_of_thread t log = p.
Proof.
  induction 1; intros u q Hq.
  - rewrite Forall_forall in H. symmetry. apply H. eapply nth_error_In; eauto.
  - unfold log_of_thread in *. simpl.
    specialize (IHcexec u). rewrite (nth_error_replace ts t (o :: p) p H) in IHcexec.
    destruct (Nat.eqb_spec t u) as [->|Hne].
    + rewrite Nat.eqb_refl in IHcexec. simpl. rewrite (IHcexec p eq_refl). congruence.
    + destruct (Nat.eqb_spec u t); [congruence|]. auto.
Qed.

(* ------------------------------------------------------------------ packaged statements *)
Definition reachable (s : cache) : Prop :=
  exists c h rs, 0 <= c /\ Forall op_ok h /\ run h (init c) = Some (s, rs).

Lemma reachable_inv s : reachable s -> inv s.
Proof.
  intros [c [h [rs [Hc [F E]]]]].
  destruct (run_inv h (init c) (inv_init c Hc) F) as [s' [rs' [E' I]]]. congruence.
Qed.

Lemma no_ub c h : 0 <= c -> Forall op_ok h -> exists s rs, run h (init c) = Some (s, rs) /\ inv s.
Proof. intros Hc F. apply run_inv; auto using inv_init. Qed.

Lemma size_theorem s :
  reachable s ->
  (exists held, NoDup held /\ (forall id, In id held <-> c_look s id <> None) /\
                c_size s = sumb (c_look s) held) /\
  c_size s <= c_cap s /\
  step OSize s = Some (s, RNum (c_size s)).
Proof.
  intros H. apply reachable_inv in H. destruct (inv_size_sum s H) as [held [H1 [H2 [H3 H4]]]].
  split; [exists held; auto|]. split; auto.
Qed.

Lemma structure_theorem s :
  reachable s ->
  (forall m id, In id (c_mod s m) <-> exists a, c_look s id = Some a /\ In m (a_refs a)) /\
  (forall id, In id (c_ent s) <-> c_look s id <> None) /\
  StronglySorted (fun x y => ptr_lt (c_look s) x y = true) (c_ent s) /\
  NoDup (c_ent s) /\
  (forall i j a b, c_look s i = Some a -> c_look s j = Some b -> a_ins a = a_ins b -> i = j).
Proof.
  intros H. apply reachable_inv in H. destruct H as [I [_ R]].
  split; [intros m id; apply R|]. split; [apply (i_ent s I)|]. split; [apply (i_sorted s I)|].
  split; [now apply inv0_NoDup|apply (i_inj s I)].
Qed.

Lemma trim_theorem c s :
  reachable s -> 0 <= c ->
  exists k s', set_capacity c s = Some s' /\ c_cap s' = c /\
    c_ent s' = skipn k (c_ent s) /\
    (forall id, c_look s' id = if set_mem id (firstn k (c_ent s)) then None else c_look s id) /\
    (forall e y, In e (firstn k (c_ent s)) -> In y (skipn k (c_ent s)) -> ptr_lt (c_look s) e y = true) /\
    (forall j, (j < k)%nat -> sumb (c_look s) (skipn j (c_ent s)) > c) /\
    sumb (c_look s) (skipn k (c_ent s)) <= c.
Proof.
  intros H Hc. apply reachable_inv in H.
  destruct (set_capacity_order c s H Hc) as [k [s' [E [_ [H1 [H2 [H3 [H4 [H5 H6]]]]]]]]].
  exists k, s'. auto 10.
Qed.

Lemma lookup_theorem c h s rs id rts fr s' b d :
  0 <= c -> Forall op_ok h -> run h (init c) = Some (s, rs) ->
  populate id rts fr s = (s', (b, Some d)) ->
  last_def h (init c) (fun _ => None) id = Some d /\ b = fr /\
  exists a, c_look s id = Some a /\ rts = Some (a_ts a) /\ a_data a = d.
Proof.
  intros Hc F E Hp. pose proof (populate_result id rts fr s s' b (Some d) Hp) as [a [Ha [Hr [Hd Hb]]]].
  split; [|split; auto; exists a; auto].
  subst d. eapply last_def_inv; eauto using inv_init. simpl. discriminate.
Qed.

Lemma lookup_unmodified s id a fr :
  c_look s id = Some a ->
  snd (populate id (Some (a_ts a)) fr s) = (fr, Some (a_data a)).
Proof. intros Ha. unfold populate. rewrite Ha. simpl. rewrite Z.eqb_refl. reflexivity. Qed.

Lemma remove_model_theorem order m s :
  reachable s -> NoDup order -> (forall id, In id order <-> In id (c_mod s m)) ->
  exists s', remove_model_over order m s = Some s' /\ inv s' /\
    c_cap s' = c_cap s /\ c_ins s' = c_ins s /\
    (forall id, c_look s' id =
       match c_look s id with
       | Some a => if set_mem m (a_refs a) then rm_asset m a else Some a
       | None => None
       end).
Proof. intros H. apply remove_model_over_spec. now apply reachable_inv. Qed.

Lemma rm_asset_spec m a :
  (rm_asset m a = None <-> forall x, In x (a_refs a) -> x = m) /\
  (forall a', rm_asset m a = Some a' ->
     a_ts a' = a_ts a /\ a_bytes a' = a_bytes a /\ a_data a' = a_data a /\ a_ins a' = a_ins a /\
     a_acc a' = a_acc a /\ (forall x, In x (a_refs a') <-> In x (a_refs a) /\ x <> m)).
Proof.
  unfold rm_asset. split.
  - rewrite <- set_del_nil_iff. destruct (set_del m (a_refs a)); split; congruence.
  - intros a'. destruct (set_del m (a_refs a)) eqn:E; [discriminate|]. intros H. rewrite <- E in H.
    inversion H; subst; simpl.
    split; [reflexivity|]. split; [reflexivity|]. split; [reflexivity|]. split; [reflexivity|].
    split; [reflexivity|]. intros x. apply set_del_In.
Qed.

Lemma linearizable c ts log s' :
  0 <= c -> Forall (Forall op_ok) ts -> cexec (init c) ts log s' ->
  run (log_ops log) (init c) = Some (s', log_res log) /\
  (forall t p, nth_error ts t = Some p -> log_of_thread t log = p) /\
  inv s'.
Proof.
  intros Hc F H. split; [now apply (cexec_sequential _ ts)|]. split; [now apply (cexec_threads _ _ _ _ H)|].
  assert (G : forall s ts log s', cexec s ts log s' -> inv s -> Forall (Forall op_ok) ts -> inv s').
  { clear. intros s ts0 log0 s0 H. induction H; intros I F; auto. apply IHcexec.
    - assert (Hok : op_ok o).
      { rewrite Forall_forall in F. apply nth_error_In in H. apply F in H. now inversion H. }
      destruct (step_inv o s I Hok) as [s2 [x2 [E I2]]]. congruence.
    - rewrite Forall_forall in *. intros q Hq. apply in_app_or in Hq. destruct Hq as [Hq|[<-|Hq]].
      + apply F. rewrite <- (firstn_skipn t ts). apply in_or_app. auto.
      + apply nth_error_In in H. apply F in H. now inversion H.
      + apply F. rewrite <- (firstn_skipn (S t) ts). apply in_or_app. auto. }
  eapply G; eauto using inv_init.
Qed.

(* ------------------------------------------------------------------ abstract specification *)
(* The abstract cache forgets size_, entries_ and models_: a capacity, the insertion counter and a
   finite map from asset id to asset.  Its operations are described declaratively. *)
Record astate := mkAS { as_cap : Z; as_cnt : Z; as_map : Z -> option asset }.
Definition abs (s : cache) : astate := mkAS (c_cap s) (c_ins s) (c_look s).
Definition aeq (A B : astate) : Prop :=
  as_cap A = as_cap B /\ as_cnt A = as_cnt B /\ forall id, as_map A id = as_map B id.
Definition total (A : astate) (n : Z) : Prop :=
  exists l, NoDup l /\ (forall id, In id l <-> as_map A id <> None) /\ n = sumb (as_map A) l.

Definition bump (a : asset) : asset := mkA (a_ts a) (a_bytes a) (a_data a) (a_ins a) (a_acc a + 1) (a_refs a).
Definition add_ref (m : Z) (a : asset) : asset :=
  mkA (a_ts a) (a_bytes a) (a_data a) (a_ins a) (a_acc a) (set_add m (a_refs a)).

Definition aspec (o : op) (A A' : astate) (r : res) : Prop :=
  match o with
  | OInsert m id ts data sz =>
      exists n, total A n /\
      match as_map A id with
      | None =>
          if n + sz >? as_cap A then aeq A' A /\ r = RBool false
          else r = RBool true /\
               aeq A' (mkAS (as_cap A) (as_cnt A + 1) (upd (as_map A) id (Some (mkA ts sz data (as_cnt A) 0 [m]))))
      | Some a0 =>
          if n - a_bytes a0 + sz >? as_cap A then aeq A' A /\ r = RBool false
          else r = RBool true /\
               aeq A' (mkAS (as_cap A) (as_cnt A)
                            (upd (as_map A) id (Some (if a_ts a0 =? ts then add_ref m a0
                                                      else mkA ts sz data (a_ins a0) (a_acc a0) (set_add m (a_refs a0))))))
      end
  | OPop id rts fr =>
      match as_map A id with
      | Some a => if is_modified rts (a_ts a) then aeq A' A /\ r = RPop false None
                  else r = RPop fr (Some (a_data a)) /\
                       aeq A' (mkAS (as_cap A) (as_cnt A) (upd (as_map A) id (Some (bump a))))
      | None => aeq A' A /\ r = RPop false None
      end
  | OHas id => aeq A' A /\ r = RTs (option_map a_ts (as_map A id))
  | ODelete id => r = RUnit /\ aeq A' (mkAS (as_cap A) (as_cnt A) (upd (as_map A) id None))
  | ORemoveModel m =>
      r = RUnit /\
      aeq A' (mkAS (as_cap A) (as_cnt A)
                   (fun id => match as_map A id with
                              | Some a => if set_mem m (a_refs a) then rm_asset m a else Some a
                              | None => None
                              end))
  | OResetModel m =>
      r = RUnit /\
      aeq A' (mkAS (as_cap A) (as_cnt A)
                   (fun id => match as_map A id with
                              | Some a => if set_mem m (a_refs a) then None else Some a
                              | None => None
                              end))
  | OReset => r = RUnit /\ aeq A' (mkAS (as_cap A) 0 (fun _ => None))
  | OSetCap c =>
      r = RUnit /\ as_cap A' = c /\ as_cnt A' = as_cnt A /\
      exists l k, StronglySorted (plt (as_map A)) l /\ (forall id, In id l <-> as_map A id <> None) /\
        (forall id, as_map A' id = if set_mem id (firstn k l) then None else as_map A id) /\
        (forall j, (j < k)%nat -> sumb (as_map A) (skipn j l) > c) /\
        sumb (as_map A) (skipn k l) <= c
  | OSize => aeq A' A /\ exists n, total A n /\ r = RNum n
  | OCap => aeq A' A /\ r = RNum (as_cap A)
  end.

Lemma aeq_refl A : aeq A A.
Proof. repeat split; auto. Qed.

Lemma total_unique A n n' : total A n -> total A n' -> n = n'.
Proof.
  intros [l [H1 [H2 ->]]] [l' [H1' [H2' ->]]]. apply sumb_perm. apply NoDup_Permutation; auto.
  intros x. rewrite H2, H2'. tauto.
Qed.

Lemma inv_total s : inv s -> total (abs s) (c_size s).
Proof.
  intros [I _]. exists (c_ent s). split; [now apply inv0_NoDup|]. split; [apply (i_ent s I)|apply (i_size s I)].
Qed.

Lemma refines o s s' r :
  inv s -> op_ok o -> step o s = Some (s', r) -> aspec o (abs s) (abs s') r.
Proof.
  intros I Hok Hs. pose proof (inv_total s I) as Ht. destruct o; simpl in Hs |- *.
  - exists (c_size s). split; auto. unfold insert in Hs.
    destruct (c_look s id) as [a0|] eqn:Ha.
    + destruct (c_size s - a_bytes a0 + sz >? c_cap s); simpl in Hs.
      * inversion Hs; subst. split; auto using aeq_refl.
      * destruct (a_ts a0 =? ts); simpl in Hs; inversion Hs; subst; split; auto; apply aeq_refl.
    + destruct (c_size s + sz >? c_cap s); simpl in Hs; inversion Hs; subst; split; auto using aeq_refl; try apply aeq_refl.
  - unfold populate in Hs. destruct (c_look s id) as [a|] eqn:Ha.
    + destruct (is_modified rts (a_ts a)); inversion Hs; subst; split; auto using aeq_refl; try apply aeq_refl.
    + inversion Hs; subst; split; auto using aeq_refl.
  - inversion Hs; subst. split; auto using aeq_refl.
  - unfold delete_asset in Hs. destruct (c_look s id) as [a|] eqn:Ha.
    + destruct I as [I0 _]. destruct (delete_inv0 None id s a I0 Ha) as [s2 [E [_ [Hc [Hi [_ [Hl _]]]]]]].
      rewrite E in Hs. inversion Hs; subst. split; auto. repeat split; simpl; auto. now rewrite Hl.
    + inversion Hs; subst. split; auto. repeat split; simpl; auto. intros x.
      destruct (upd_cases (c_look s') id (@None asset) x) as [[-> ->]|[_ ->]]; auto.
  - destruct (remove_model_over_spec (c_mod s m) m s I) as [s2 [E [_ [Hc [Hi Hl]]]]].
    { destruct I as [I0 _]. apply (i_nodup s I0). } { tauto. }
    unfold remove_model in Hs. rewrite E in Hs. inversion Hs; subst. split; auto. repeat split; auto.
  - destruct (reset_model_over_spec (c_mod s m) m s I) as [s2 [E [_ [Hc [Hi Hl]]]]].
    { destruct I as [I0 _]. apply (i_nodup s I0). } { tauto. }
    unfold reset_model in Hs. rewrite E in Hs. inversion Hs; subst. split; auto. repeat split; auto.
  - inversion Hs; subst. split; auto; try apply aeq_refl.
  - destruct (set_capacity_order c s I Hok) as [k [s2 [E [_ [Hc [_ [Hl [_ [Hgt Hle]]]]]]]]].
    rewrite E in Hs. inversion Hs; subst. split; auto. split; auto.
    destruct (set_capacity_spec (c_cap s') s I Hok) as [k2 [s3 [E3 [_ [_ [Hi _]]]]]].
    assert (s3 = s') by congruence. subst s3. split; auto.
    exists (c_ent s), k. destruct I as [I0 _]. split; [apply (i_sorted s I0)|]. split; [apply (i_ent s I0)|]. auto.
  - inversion Hs; subst. split; auto using aeq_refl. eauto.
  - inversion Hs; subst. split; auto using aeq_refl.
Qed.
