From Coq Require Import String List Bool Arith Lia.
From MJV Require Import Model.Pipeline.
Import ListNotations.
Open Scope string_scope.
Open Scope list_scope.

(* induction principle for the nested type [item] *)
Section ItemInd.
Variable P : item -> Prop.
Hypothesis Hcall : forall f a, P (ICall f a).
Hypothesis Hassign : forall l r, P (IAssign l r).
Hypothesis Herr : P IErr.
Hypothesis Huser : P IUser.
Hypothesis Hif : forall c a b, Forall P a -> Forall P b -> P (IIf c a b).
Fixpoint item_ind2 (i : item) : P i :=
  match i with
  | ICall f a => Hcall f a
  | IAssign l r => Hassign l r
  | IErr => Herr
  | IUser => Huser
  | IIf c a b =>
      Hif c a b
        ((fix go (l : list item) : Forall P l :=
            match l with [] => Forall_nil _ | x :: r => Forall_cons x (item_ind2 x) (go r) end) a)
        ((fix go (l : list item) : Forall P l :=
            match l with [] => Forall_nil _ | x :: r => Forall_cons x (item_ind2 x) (go r) end) b)
  end.
End ItemInd.

Section SemFacts.
Variable data : Type.
Variable call : string -> list string -> data -> data.
Variable assign : string -> string -> data -> data.
Variable user : data -> data.
Variable atom : string -> data -> bool.
Variable integ : data -> string.

Notation ceval := (ceval data atom integ).
Notation exec_item := (exec_item data call assign user atom integ).
Notation exec_list := (exec_list data call assign user atom integ).

Lemma exec_if c a b d :
  exec_item (IIf c a b) d = if ceval c d then exec_list a d else exec_list b d.
Proof.
  assert (G : forall l d,
    (fix go (l : list item) (d : data) {struct l} : option data :=
       match l with
       | [] => Some d
       | x :: r => match exec_item x d with Some d' => go r d' | None => None end
       end) l d = exec_list l d).
  { induction l as [|x r IH]; intro d0; simpl; [reflexivity|].
    destruct (exec_item x d0); [apply IH|reflexivity]. }
  simpl. rewrite !G. reflexivity.
Qed.

Lemma exec_app a b d :
  exec_list (a ++ b) d = match exec_list a d with Some d' => exec_list b d' | None => None end.
Proof.
  revert d. induction a as [|x r IH]; intro d; simpl; [reflexivity|].
  destruct (exec_item x d); [apply IH|reflexivity].
Qed.

(* ---- simplification *)
Section SimpOk.
Variable asm : list (string * bool).
Variable iv : option string.
Hypothesis asm_ok : forall s b, lookup s asm = Some b -> forall d, atom s d = b.
Hypothesis iv_ok : forall v, iv = Some v -> forall d, integ d = v.

Lemma csimp_ok c d : ceval (csimp asm iv c) d = ceval c d.
Proof.
  induction c as [| |s|s|p|s|a IH|a IHa b IHb|a IHa b IHb]; simpl; try reflexivity.
  - destruct (lookup s asm) as [[|]|] eqn:E; simpl; try reflexivity;
      symmetry; eapply asm_ok; exact E.
  - destruct iv as [v|] eqn:E; [|reflexivity].
    rewrite (iv_ok v eq_refl d). destruct (String.eqb v s); reflexivity.
  - rewrite <- IH. destruct (csimp asm iv a); simpl; reflexivity.
  - rewrite <- IHa, <- IHb.
    destruct (csimp asm iv a), (csimp asm iv b); simpl;
      rewrite ?andb_true_r, ?andb_false_r; reflexivity.
  - rewrite <- IHa, <- IHb.
    destruct (csimp asm iv a), (csimp asm iv b); simpl;
      rewrite ?orb_true_r, ?orb_false_r; reflexivity.
Qed.

Lemma isimp_go l :
  (fix go (l : list item) : list item :=
     match l with [] => [] | x :: r => isimp asm iv x ++ go r end) l = lsimp asm iv l.
Proof. induction l as [|x r IH]; simpl; [reflexivity| rewrite IH; reflexivity]. Qed.

Lemma isimp_if c a b :
  isimp asm iv (IIf c a b) =
  match csimp asm iv c with
  | CTrue => lsimp asm iv a
  | CFalse => lsimp asm iv b
  | c' => [IIf c' (lsimp asm iv a) (lsimp asm iv b)]
  end.
Proof. simpl. rewrite !isimp_go. reflexivity. Qed.

Lemma exec_single i d : exec_list [i] d = exec_item i d.
Proof. simpl. destruct (exec_item i d); reflexivity. Qed.

Lemma lsimp_ok_gen l : Forall (fun i => forall d, exec_list (isimp asm iv i) d = exec_item i d) l ->
  forall d, exec_list (lsimp asm iv l) d = exec_list l d.
Proof.
  induction 1 as [|x r Hx _ IH]; intro d; simpl; [reflexivity|].
  rewrite exec_app, Hx. destruct (exec_item x d); [apply IH|reflexivity].
Qed.

Lemma isimp_ok i : forall d, exec_list (isimp asm iv i) d = exec_item i d.
Proof.
  induction i as [f a|l r| | |c a b IHa IHb] using item_ind2; intro d.
  - reflexivity.
  - reflexivity.
  - reflexivity.
  - reflexivity.
  - rewrite isimp_if, exec_if. rewrite <- (csimp_ok c d).
    pose proof (lsimp_ok_gen a IHa) as Ha. pose proof (lsimp_ok_gen b IHb) as Hb.
    destruct (csimp asm iv c) eqn:E;
      try (cbn [Pipeline.ceval]; first [apply Ha | apply Hb]);
      (rewrite exec_single, exec_if, Ha, Hb; reflexivity).
Qed.

Lemma lsimp_ok l d : exec_list (lsimp asm iv l) d = exec_list l d.
Proof. apply lsimp_ok_gen. apply Forall_forall. intros i _. apply isimp_ok. Qed.
End SimpOk.

(* ---- commutation with the user update *)
Fixpoint commutes_item (i : item) : Prop :=
  let fix go (l : list item) : Prop := match l with [] => True | x :: r => commutes_item x /\ go r end in
  match i with
  | ICall f a => forall d, call f a (user d) = user (call f a d)
  | IAssign l r => forall d, assign l r (user d) = user (assign l r d)
  | IErr => True
  | IUser => True
  | IIf c a b => (forall d, ceval c (user d) = ceval c d) /\ go a /\ go b
  end.
Fixpoint commutes_list (l : list item) : Prop :=
  match l with [] => True | x :: r => commutes_item x /\ commutes_list r end.

Lemma commutes_go l :
  (fix go (l : list item) : Prop := match l with [] => True | x :: r => commutes_item x /\ go r end) l
  = commutes_list l.
Proof. induction l as [|x r IH]; simpl; [reflexivity| rewrite IH; reflexivity]. Qed.

Lemma commutes_list_ok_gen l :
  Forall (fun i => commutes_item i -> forall d, exec_item i (user d) = option_map user (exec_item i d)) l ->
  commutes_list l -> forall d, exec_list l (user d) = option_map user (exec_list l d).
Proof.
  induction 1 as [|x r Hx _ IH]; intros C d; simpl; [reflexivity|].
  destruct C as [Cx Cr]. rewrite (Hx Cx). destruct (exec_item x d); simpl; [apply IH; exact Cr|reflexivity].
Qed.

Lemma commutes_item_ok i : commutes_item i ->
  forall d, exec_item i (user d) = option_map user (exec_item i d).
Proof.
  induction i as [f a|l r| | |c a b IHa IHb] using item_ind2; intros C d.
  - simpl in *. rewrite C. reflexivity.
  - simpl in *. rewrite C. reflexivity.
  - reflexivity.
  - reflexivity.
  - simpl in C. rewrite !commutes_go in C. destruct C as (Cc & Ca & Cb).
    rewrite !exec_if, Cc. destruct (ceval c d).
    + apply commutes_list_ok_gen; assumption.
    + apply commutes_list_ok_gen; assumption.
Qed.

Lemma commutes_list_ok l : commutes_list l ->
  forall d, exec_list l (user d) = option_map user (exec_list l d).
Proof.
  apply commutes_list_ok_gen. apply Forall_forall. intros i _. apply commutes_item_ok.
Qed.
End SemFacts.

(* ---- syntactic equality is equality *)
Lemma cond_eqb_ok a : forall b, cond_eqb a b = true -> a = b.
Proof.
  induction a; destruct b; simpl; intro H; try discriminate; try reflexivity;
    try (apply String.eqb_eq in H; subst; reflexivity).
  - f_equal; auto.
  - apply andb_true_iff in H. destruct H. f_equal; auto.
  - apply andb_true_iff in H. destruct H. f_equal; auto.
Qed.

Lemma strs_eqb_ok a : forall b, strs_eqb a b = true -> a = b.
Proof.
  induction a as [|x r IH]; destruct b; simpl; intro H; try discriminate; [reflexivity|].
  apply andb_true_iff in H. destruct H as [H1 H2]. apply String.eqb_eq in H1. subst. f_equal; auto.
Qed.

Lemma item_eqb_go l1 l2 :
  (fix go (l1 l2 : list item) {struct l1} : bool :=
     match l1, l2 with
     | [], [] => true
     | x :: r, y :: s => item_eqb x y && go r s
     | _, _ => false
     end) l1 l2 = items_eqb l1 l2.
Proof. revert l2. induction l1 as [|x r IH]; destruct l2; try reflexivity. Qed.

Lemma items_eqb_ok_gen l1 : Forall (fun a => forall b, item_eqb a b = true -> a = b) l1 ->
  forall l2, items_eqb l1 l2 = true -> l1 = l2.
Proof.
  induction 1 as [|x r Hx _ IH]; destruct l2; simpl; intro H; try discriminate; [reflexivity|].
  apply andb_true_iff in H. destruct H. f_equal; auto.
Qed.

Lemma item_eqb_ok a : forall b, item_eqb a b = true -> a = b.
Proof.
  induction a as [f x|l r| | |c a1 b1 IHa IHb] using item_ind2; destruct b; simpl; intro H;
    try discriminate; try reflexivity.
  - apply andb_true_iff in H. destruct H as [H1 H2]. apply String.eqb_eq in H1.
    apply strs_eqb_ok in H2. subst. reflexivity.
  - apply andb_true_iff in H. destruct H as [H1 H2]. apply String.eqb_eq in H1, H2. subst. reflexivity.
  - rewrite !item_eqb_go in H. apply andb_true_iff in H. destruct H as [H H3].
    apply andb_true_iff in H. destruct H as [H1 H2].
    apply cond_eqb_ok in H1. apply (items_eqb_ok_gen _ IHa) in H2. apply (items_eqb_ok_gen _ IHb) in H3.
    subst. reflexivity.
Qed.

Lemma items_eqb_ok l1 l2 : items_eqb l1 l2 = true -> l1 = l2.
Proof. apply items_eqb_ok_gen. apply Forall_forall. intros a _. apply item_eqb_ok. Qed.

Lemma split_user_ok l : forall a b, split_user l = Some (a, b) -> l = a ++ IUser :: b.
Proof.
  induction l as [|x r IH]; intros a b H; simpl in H; [discriminate|].
  destruct x; try (destruct (split_user r) as [[a' b']|] eqn:E; [|discriminate];
                   inversion H; subst; simpl; f_equal; apply IH; reflexivity).
  inversion H; subst. reflexivity.
Qed.

(* ---- the split theorem: if [check_split A B = Some pre] and the user update commutes with
        [pre], then running A (= user; monolithic) and B (= first; user; second) coincide *)
Theorem check_split_sound data call assign user atom integ A B pre :
  check_split A B = Some pre ->
  commutes_list data call assign user atom integ pre ->
  forall d, exec_list data call assign user atom integ B d = exec_list data call assign user atom integ A d.
Proof.
  unfold check_split. intros H C d.
  destruct (split_user A) as [[[|x a] rest]|] eqn:EA; try discriminate.
  destruct (split_user B) as [[pre' post]|] eqn:EB; try discriminate.
  destruct (items_eqb rest (pre' ++ post)) eqn:E; try discriminate.
  inversion H; subst pre'. clear H.
  apply split_user_ok in EA, EB. apply items_eqb_ok in E. subst A B rest.
  simpl app. rewrite exec_app. cbn [exec_list exec_item].
  rewrite exec_app. rewrite (commutes_list_ok _ _ _ _ _ _ pre C d).
  destruct (exec_list data call assign user atom integ pre d); simpl; reflexivity.
Qed.
