(* Proofs about Model/Memory.v (engine_memory.c): single-step specifications with the size_t
   wrap-around made explicit, the allocator invariant over histories, mark/free restoration for
   well-nested sequences, exhaustion, and disjointness of concurrent thread-lock reservations. *)
From Coq Require Import ZArith List Bool Lia.
From MJV Require Import Model.Memory.
Import ListNotations.
Open Scope Z_scope.

(* ------------------------------------------------------------------ arithmetic mod 2^64 *)
Lemma W_val : W = 18446744073709551616. Proof. reflexivity. Qed.
Lemma W_pow : W = 2 ^ 64. Proof. reflexivity. Qed.

Lemma wrap_small : forall x, 0 <= x < W -> wrap x = x.
Proof. intros. unfold wrap. apply Z.mod_small. assumption. Qed.

Lemma wrap_neg : forall x, - W <= x < 0 -> wrap x = x + W.
Proof.
  intros. unfold wrap. symmetry. apply Z.mod_unique with (q := -1).
  - left. rewrite W_val in *. lia.
  - lia.
Qed.

Lemma wrap_over : forall x, W <= x < 2 * W -> wrap x = x - W.
Proof.
  intros. unfold wrap. symmetry. apply Z.mod_unique with (q := 1).
  - left. rewrite W_val in *. lia.
  - lia.
Qed.

Lemma wrap_range : forall x, 0 <= wrap x < W.
Proof. intros. unfold wrap. apply Z.mod_pos_bound. rewrite W_val. lia. Qed.

Definition pow2 (al : Z) : Prop := exists k, 0 <= k < 64 /\ al = 2 ^ k.

Lemma pow2_bounds : forall al, pow2 al -> 0 < al /\ 2 * al <= W.
Proof.
  intros al [k [Hk ->]]. split.
  - apply Z.pow_pos_nonneg; lia.
  - rewrite W_pow. replace 64 with (Z.succ 63) by lia. rewrite Z.pow_succ_r by lia.
    apply Z.mul_le_mono_nonneg_l; [lia|]. apply Z.pow_le_mono_r; lia.
Qed.

Lemma fastmod_pow2 : forall a al, pow2 al -> fastmod a al = a mod al.
Proof.
  intros a al H. pose proof (pow2_bounds al H) as [Hp Hb].
  destruct H as [k [Hk ->]]. unfold fastmod.
  rewrite wrap_small by (rewrite W_val in *; lia).
  replace (2 ^ k - 1) with (Z.ones k) by (rewrite Z.ones_equiv; lia).
  rewrite !Z.land_ones by lia. rewrite Z.mod_same by lia. reflexivity.
Qed.

Lemma mod_bounds : forall a al, 0 < al -> 0 <= a mod al < al.
Proof. intros. apply Z.mod_pos_bound. assumption. Qed.

Lemma align_down_mod : forall a al, 0 < al -> (a - a mod al) mod al = 0.
Proof.
  intros. rewrite Zminus_mod_idemp_r. rewrite Z.sub_diag. apply Z.mod_0_l. lia.
Qed.

Lemma mod_le' : forall a al, 0 <= a -> 0 < al -> a mod al <= a.
Proof. intros. apply Z.mod_le; assumption. Qed.

(* ------------------------------------------------------------------ well-formed states *)
Record wf (s : st) : Prop := {
  wf_base : 0 < base s;
  wf_narena : 0 <= narena s;
  wf_fit : base s + narena s < W;
  wf_parena : 0 <= parena s;
  wf_pstack : 0 <= pstack s;
  wf_sum : parena s + pstack s <= narena s }.

(* the integer values of the stack-info fields *)
Definition Bot (s : st) : Z := base s + narena s.
Definition Top (s : st) : Z := base s + narena s - pstack s.
Definition Lim (s : st) : Z := base s + parena s.
Definition Avail (s : st) : Z := narena s - parena s - pstack s.

Lemma info_vals : forall s, wf s -> bottom s = Bot s /\ top s = Top s /\ limit s = Lim s.
Proof.
  intros s [H1 H2 H3 H4 H5 H6]. unfold top, limit, bottom, Bot, Top, Lim.
  assert (E : wrap (base s + narena s) = base s + narena s) by (apply wrap_small; lia).
  rewrite E. repeat split; apply wrap_small; lia.
Qed.

(* ------------------------------------------------------------------ stackallocinternal *)
Definition adown (x al : Z) : Z := x - x mod al.

(* no wrap in top - size: complete description of the outcome *)
Lemma AI_fit : forall gs s size al,
  wf s -> pow2 al -> 0 < size -> size <= Top s ->
  Lim s <= adown (Top s - size) al ->
  alloc_internal gs s (top s) size al =
    IOk (adown (Top s - size) al) (adown (Top s - size) al)
        (Z.max (maxs s) (Bot s - adown (Top s - size) al))
        (Z.max (maxa s) (Bot s - adown (Top s - size) al + parena s)).
Proof.
  intros gs s size al Hwf Hal Hsz Hle Hfit.
  destruct (info_vals s Hwf) as [Eb [Et El]]. pose proof (pow2_bounds al Hal) as [Hap Hab].
  destruct Hwf as [H1 H2 H3 H4 H5 H6]. unfold Top, Bot, Lim, adown in *.
  unfold alloc_internal. rewrite Eb, Et, El. unfold Top, Bot, Lim.
  set (T := base s + narena s - pstack s) in *.
  assert (E0 : wrap (T - size) = T - size) by (apply wrap_small; unfold T; lia).
  rewrite E0. rewrite fastmod_pow2 by assumption.
  pose proof (mod_bounds (T - size) al Hap) as Hf.
  pose proof (mod_le' (T - size) al ltac:(lia) Hap) as Hf2.
  set (f := (T - size) mod al) in *.
  assert (E1 : wrap (T - size - f) = T - size - f) by (apply wrap_small; unfold T; lia).
  rewrite E1.
  assert (E2 : wrap (T - (T - size - f)) = size + f) by (rewrite wrap_small; unfold T in *; lia).
  rewrite E2.
  assert (E3 : wrap (base s + narena s - T) = pstack s) by (rewrite wrap_small; unfold T; lia).
  rewrite E3.
  assert (E4 : wrap (size + f + pstack s) = size + f + pstack s) by (apply wrap_small; unfold T in *; lia).
  rewrite E4.
  assert (E5 : wrap (T - (base s + parena s)) = T - (base s + parena s)) by (apply wrap_small; unfold T; lia).
  rewrite E5.
  assert (E6 : wrap (size + f + pstack s + parena s) = size + f + pstack s + parena s)
    by (apply wrap_small; unfold T in *; lia).
  rewrite E6.
  replace (size =? 0) with false by (symmetry; apply Z.eqb_neq; lia).
  replace (size >? T - (base s + parena s)) with false
    by (symmetry; rewrite Z.gtb_ltb; apply Z.ltb_ge; unfold T in *; lia).
  replace (size + f >? T - (base s + parena s)) with false
    by (symmetry; rewrite Z.gtb_ltb; apply Z.ltb_ge; unfold T in *; lia).
  rewrite andb_false_r. simpl.
  f_equal; f_equal; unfold T; lia.
Qed.

Lemma AI_nofit : forall gs s size al,
  wf s -> pow2 al -> 0 < size -> size <= Top s ->
  adown (Top s - size) al < Lim s ->
  alloc_internal gs s (top s) size al = IErr.
Proof.
  intros gs s size al Hwf Hal Hsz Hle Hfit.
  destruct (info_vals s Hwf) as [Eb [Et El]]. pose proof (pow2_bounds al Hal) as [Hap Hab].
  destruct Hwf as [H1 H2 H3 H4 H5 H6]. unfold Top, Bot, Lim, adown in *.
  unfold alloc_internal. rewrite Eb, Et, El. unfold Top, Bot, Lim.
  set (T := base s + narena s - pstack s) in *.
  assert (E0 : wrap (T - size) = T - size) by (apply wrap_small; unfold T; lia).
  rewrite E0. rewrite fastmod_pow2 by assumption.
  pose proof (mod_bounds (T - size) al Hap) as Hf.
  pose proof (mod_le' (T - size) al ltac:(lia) Hap) as Hf2.
  set (f := (T - size) mod al) in *.
  assert (E1 : wrap (T - size - f) = T - size - f) by (apply wrap_small; unfold T; lia).
  rewrite E1.
  assert (E2 : wrap (T - (T - size - f)) = size + f) by (rewrite wrap_small; unfold T in *; lia).
  rewrite E2.
  assert (E5 : wrap (T - (base s + parena s)) = T - (base s + parena s)) by (apply wrap_small; unfold T; lia).
  rewrite E5.
  replace (size =? 0) with false by (symmetry; apply Z.eqb_neq; lia).
  replace (size + f >? T - (base s + parena s)) with true
    by (symmetry; rewrite Z.gtb_ltb; apply Z.ltb_lt; unfold T in *; lia).
  rewrite orb_true_r. reflexivity.
Qed.

(* top - size wraps, but size + alignment <= 2^64: the wrapped start is above the top and the
   required-bytes test fails as it should *)
Lemma AI_wrap_ok : forall gs s size al,
  wf s -> pow2 al -> Top s < size -> size + al <= W ->
  alloc_internal gs s (top s) size al = IErr.
Proof.
  intros gs s size al Hwf Hal Hgt Hnw.
  destruct (info_vals s Hwf) as [Eb [Et El]]. pose proof (pow2_bounds al Hal) as [Hap Hab].
  destruct Hwf as [H1 H2 H3 H4 H5 H6]. unfold Top, Bot, Lim in *.
  unfold alloc_internal. rewrite Eb, Et, El. unfold Top, Bot, Lim.
  set (T := base s + narena s - pstack s) in *.
  assert (E0 : wrap (T - size) = T - size + W) by (apply wrap_neg; unfold T in *; lia).
  rewrite E0. rewrite fastmod_pow2 by assumption.
  pose proof (mod_bounds (T - size + W) al Hap) as Hf.
  set (f := (T - size + W) mod al) in *.
  assert (E1 : wrap (T - size + W - f) = T - size + W - f) by (apply wrap_small; unfold T in *; lia).
  rewrite E1.
  assert (E2 : wrap (T - (T - size + W - f)) = size + f) by (rewrite wrap_neg; unfold T in *; lia).
  rewrite E2.
  assert (E5 : wrap (T - (base s + parena s)) = T - (base s + parena s)) by (apply wrap_small; unfold T; lia).
  rewrite E5.
  replace (size =? 0) with false by (symmetry; apply Z.eqb_neq; unfold T in *; lia).
  replace (size + f >? T - (base s + parena s)) with true
    by (symmetry; rewrite Z.gtb_ltb; apply Z.ltb_lt; unfold T in *; lia).
  rewrite orb_true_r. reflexivity.
Qed.

(* with the size guard no side condition on the size is needed *)
Lemma AI_wrap_guarded : forall s size al,
  wf s -> Top s < size -> size < W ->
  alloc_internal true s (top s) size al = IErr.
Proof.
  intros s size al Hwf Hgt Hlt.
  destruct (info_vals s Hwf) as [Eb [Et El]].
  destruct Hwf as [H1 H2 H3 H4 H5 H6]. unfold Top, Bot, Lim in *.
  unfold alloc_internal. rewrite Eb, Et, El. unfold Top, Bot, Lim.
  set (T := base s + narena s - pstack s) in *.
  assert (E5 : wrap (T - (base s + parena s)) = T - (base s + parena s)) by (apply wrap_small; unfold T; lia).
  rewrite E5.
  replace (size =? 0) with false by (symmetry; apply Z.eqb_neq; unfold T in *; lia).
  replace (size >? T - (base s + parena s)) with true
    by (symmetry; rewrite Z.gtb_ltb; apply Z.ltb_lt; unfold T in *; lia).
  reflexivity.
Qed.

(* the side condition under which stackallocinternal is correct *)
Definition size_ok (gd : bool) (size al : Z) : Prop := gd = true \/ size + al <= W.

(* summary: the outcome of stackallocinternal for every size in (0, 2^64) *)
Lemma AI_spec : forall gs s size al,
  wf s -> pow2 al -> 0 < size < W -> size_ok gs size al ->
  (size <= Top s /\ Lim s <= adown (Top s - size) al /\
   alloc_internal gs s (top s) size al =
    IOk (adown (Top s - size) al) (adown (Top s - size) al)
        (Z.max (maxs s) (Bot s - adown (Top s - size) al))
        (Z.max (maxa s) (Bot s - adown (Top s - size) al + parena s)))
  \/ ((Top s < size \/ adown (Top s - size) al < Lim s) /\ alloc_internal gs s (top s) size al = IErr).
Proof.
  intros gs s size al Hwf Hal Hsz Hok.
  destruct (Z_le_gt_dec size (Top s)) as [Hle|Hgt].
  - destruct (Z_le_gt_dec (Lim s) (adown (Top s - size) al)) as [Hf|Hn].
    + left. split; [assumption|]. split; [assumption|]. apply AI_fit; try assumption; lia.
    + right. split; [right; lia|]. apply AI_nofit; try assumption; lia.
  - right. split; [left; lia|]. destruct Hok as [->|Hnw].
    + apply AI_wrap_guarded; try assumption; lia.
    + apply AI_wrap_ok; try assumption; lia.
Qed.

(* ------------------------------------------------------------------ mj_arenaAllocByte *)
Definition apad (p al : Z) : Z := if p mod al =? 0 then 0 else al - p mod al.

Lemma apad_bounds : forall p al, 0 < al -> 0 <= apad p al < al /\ (p + apad p al) mod al = 0.
Proof.
  intros p al Hal. unfold apad. pose proof (mod_bounds p al Hal) as Hm.
  destruct (p mod al =? 0) eqn:E.
  - apply Z.eqb_eq in E. split; [lia|]. rewrite Z.add_0_r. assumption.
  - apply Z.eqb_neq in E. split; [lia|].
    replace (p + (al - p mod al)) with (p - p mod al + 1 * al) by lia.
    rewrite Z.mod_add by lia. apply align_down_mod. assumption.
Qed.

Definition arena_ok (ga : bool) (s : st) (bytes al : Z) : Prop :=
  bytes + al + parena s <= W \/ (ga = true /\ al + narena s <= W).

Lemma AA_spec : forall ga s bytes al,
  wf s -> pow2 al -> 0 <= bytes < W -> arena_ok ga s bytes al ->
  arena_alloc ga s bytes al =
    if parena s + apad (parena s) al + bytes >? narena s - pstack s then (RNull, s)
    else (RPtr (base s + parena s + apad (parena s) al),
          mkst (base s) (narena s) (parena s + apad (parena s) al + bytes) (pstack s) (pbase s) (maxs s)
               (Z.max (maxa s) (pstack s + (parena s + apad (parena s) al + bytes))) (tlock s) (mem s)).
Proof.
  intros ga s bytes al Hwf Hal Hb Hok. pose proof (pow2_bounds al Hal) as [Hap Hab].
  destruct (apad_bounds (parena s) al Hap) as [Hpad _].
  destruct Hwf as [H1 H2 H3 H4 H5 H6].
  unfold arena_alloc. rewrite fastmod_pow2 by assumption.
  assert (Epad : (if parena s mod al =? 0 then 0 else wrap (al - parena s mod al)) = apad (parena s) al).
  { unfold apad. destruct (parena s mod al =? 0); [reflexivity|].
    pose proof (mod_bounds (parena s) al Hap). apply wrap_small. lia. }
  rewrite Epad. set (pad := apad (parena s) al) in *.
  assert (Eav : wrap (narena s - pstack s) = narena s - pstack s) by (apply wrap_small; lia).
  rewrite Eav.
  assert (Epp : wrap (parena s + pad) = parena s + pad).
  { apply wrap_small. destruct Hok as [Hok|[_ Hok]]; lia. }
  rewrite Epp.
  destruct (parena s + pad + bytes >? narena s - pstack s) eqn:Ec.
  - (* does not fit *)
    rewrite Z.gtb_ltb in Ec. apply Z.ltb_lt in Ec.
    destruct ga.
    + destruct (bytes >? narena s - pstack s) eqn:Eb; [reflexivity|].
      rewrite Z.gtb_ltb in Eb. apply Z.ltb_ge in Eb.
      rewrite (wrap_small (narena s - pstack s - bytes)) by lia.
      replace (parena s + pad >? narena s - pstack s - bytes) with true
        by (symmetry; rewrite Z.gtb_ltb; apply Z.ltb_lt; lia).
      reflexivity.
    + destruct Hok as [Hok|[Hok _]]; [|discriminate].
      rewrite (wrap_small (parena s + pad + bytes)) by lia.
      replace (parena s + pad + bytes >? narena s - pstack s) with true
        by (symmetry; rewrite Z.gtb_ltb; apply Z.ltb_lt; lia).
      reflexivity.
  - rewrite Z.gtb_ltb in Ec. apply Z.ltb_ge in Ec.
    assert (Ecd : (if ga then (bytes >? narena s - pstack s) || (parena s + pad >? wrap (narena s - pstack s - bytes))
                   else wrap (parena s + pad + bytes) >? narena s - pstack s) = false).
    { destruct ga.
      - rewrite (wrap_small (narena s - pstack s - bytes)) by lia.
        replace (bytes >? narena s - pstack s) with false by (symmetry; rewrite Z.gtb_ltb; apply Z.ltb_ge; lia).
        simpl. rewrite Z.gtb_ltb. apply Z.ltb_ge. lia.
      - rewrite (wrap_small (parena s + pad + bytes)) by lia.
        rewrite Z.gtb_ltb. apply Z.ltb_ge. lia. }
    rewrite Ecd.
    rewrite (wrap_small (pad + bytes)) by lia.
    rewrite (wrap_small (parena s + (pad + bytes))) by lia.
    rewrite (wrap_small (base s + parena s)) by lia.
    rewrite (wrap_small (base s + parena s + pad)) by lia.
    rewrite (wrap_small (pstack s + (parena s + (pad + bytes)))) by lia.
    f_equal. f_equal; lia.
Qed.

(* ------------------------------------------------------------------ ghost state and invariant *)
(* live regions of the stack, newest first: blocks handed to callers and mark frames
   (address, saved pbase, saved top) *)
Inductive gitem := GB (a n : Z) | GF (fa spb t : Z).
Definition g_lo (i : gitem) : Z := match i with GB a _ => a | GF fa _ _ => fa end.
Definition g_hi (i : gitem) : Z := match i with GB a n => a + n | GF fa _ _ => fa + FRAME end.

(* [stk m g pb tp bot]: the regions of g are laid out in [tp, bot) in increasing address order,
   the frames form the chain that starts at pb, and memory m holds their contents *)
Fixpoint stk (m : list mev) (g : list gitem) (pb tp bot : Z) : Prop :=
  match g with
  | [] => pb = 0 /\ tp <= bot
  | GB a n :: r => tp <= a /\ 0 < n /\ stk m r pb (a + n) bot
  | GF fa spb t :: r =>
      pb = fa /\ tp <= fa /\ fa + FRAME <= t /\ rd m fa = spb /\ rd m (fa + 8) = t /\ stk m r spb t bot
  end.

(* live arena blocks, newest first (decreasing addresses), inside [lo, hi) *)
Fixpoint arn (ab : list (Z * Z)) (lo hi : Z) : Prop :=
  match ab with
  | [] => lo <= hi
  | (a, n) :: r => 0 <= n /\ a + n <= hi /\ arn r lo a
  end.

Record Inv (s : st) (g : list gitem) (ab : list (Z * Z)) : Prop := {
  inv_wf : wf s;
  inv_lock : tlock s = false;
  inv_stk : stk (mem s) g (pbase s) (Top s) (Bot s);
  inv_arn : arn ab (base s) (Lim s);
  inv_maxs : pstack s <= maxs s;
  inv_maxa : pstack s + parena s <= maxa s }.

Lemma stk_le : forall m g pb tp bot, stk m g pb tp bot -> tp <= bot.
Proof.
  intros m g. induction g as [|[a n|fa spb t] r IH]; simpl; intros pb tp bot H.
  - lia.
  - destruct H as [H1 [H2 H3]]. apply IH in H3. lia.
  - destruct H as [_ [H1 [H2 [_ [_ H3]]]]]. apply IH in H3. unfold FRAME in *. lia.
Qed.

Lemma stk_lower : forall m g pb tp tp' bot, stk m g pb tp bot -> tp' <= tp -> stk m g pb tp' bot.
Proof.
  intros m g pb tp tp' bot H Hle. destruct g as [|[a n|fa spb t] r]; simpl in *.
  - lia.
  - destruct H as [H1 [H2 H3]]. repeat split; try assumption; lia.
  - destruct H as [H0 [H1 H2]]. repeat split; try tauto; lia.
Qed.

(* every live stack region lies in [tp, bot) *)
Lemma stk_items : forall m g pb tp bot i, stk m g pb tp bot -> In i g -> tp <= g_lo i /\ g_hi i <= bot.
Proof.
  intros m g. induction g as [|[a n|fa spb t] r IH]; simpl; intros pb tp bot i H Hin.
  - contradiction.
  - destruct H as [H1 [H2 H3]]. destruct Hin as [<-|Hin].
    + simpl. apply stk_le in H3. lia.
    + destruct (IH _ _ _ _ H3 Hin). lia.
  - destruct H as [_ [H1 [H2 [_ [_ H3]]]]]. destruct Hin as [<-|Hin].
    + simpl. apply stk_le in H3. lia.
    + destruct (IH _ _ _ _ H3 Hin). unfold FRAME in *. lia.
Qed.

Lemma arn_le : forall ab lo hi, arn ab lo hi -> lo <= hi.
Proof.
  induction ab as [|[a n] r IH]; simpl; intros lo hi H; [lia|].
  destruct H as [H1 [H2 H3]]. apply IH in H3. lia.
Qed.

Lemma arn_items : forall ab lo hi a n, arn ab lo hi -> In (a, n) ab -> lo <= a /\ a + n <= hi /\ 0 <= n.
Proof.
  induction ab as [|[a0 n0] r IH]; simpl; intros lo hi a n H Hin; [contradiction|].
  destruct H as [H1 [H2 H3]]. destruct Hin as [E|Hin].
  - inversion E; subst. apply arn_le in H3. lia.
  - destruct (IH _ _ _ _ H3 Hin) as [? [? ?]]. lia.
Qed.

Lemma arn_raise : forall ab lo hi hi', arn ab lo hi -> hi <= hi' -> arn ab lo hi'.
Proof.
  intros [|[a n] r] lo hi hi' H Hle; simpl in *; [lia|]. destruct H as [? [? ?]]. repeat split; try assumption; lia.
Qed.

(* memory: a write that does not touch [x, x+8) leaves the word at x *)
Lemma rd_cons_other : forall e m x, (ev_hi e <= x \/ x + 8 <= ev_lo e) -> rd (e :: m) x = rd m x.
Proof.
  intros e m x H. simpl.
  destruct (ev_lo e <? x + 8) eqn:E1; [|reflexivity].
  destruct (x <? ev_hi e) eqn:E2; [|reflexivity].
  apply Z.ltb_lt in E1. apply Z.ltb_lt in E2. lia.
Qed.

Lemma rd_cons_same : forall a v m, rd (MW a v :: m) a = v.
Proof.
  intros. simpl. replace (a <? a + 8) with true by (symmetry; apply Z.ltb_lt; lia). reflexivity.
Qed.

(* a write entirely below tp does not disturb the frames of a layout that starts at tp *)
Lemma stk_write_below : forall e m g pb tp bot,
  stk m g pb tp bot -> ev_hi e <= tp -> stk (e :: m) g pb tp bot.
Proof.
  intros e m g. induction g as [|[a n|fa spb t] r IH]; cbn [stk]; intros pb tp bot H Hlo.
  - assumption.
  - destruct H as [H1 [H2 H3]]. repeat split; try assumption. apply IH; [assumption|lia].
  - destruct H as [H0 [H1 [H2 [H3 [H4 H5]]]]]. unfold FRAME in *.
    repeat split; try assumption.
    + rewrite rd_cons_other by lia. assumption.
    + rewrite rd_cons_other by lia. assumption.
    + apply IH; [assumption|lia].
Qed.

(* a write inside a live block does not disturb the frames *)
Lemma stk_write_block : forall e m g pb tp bot a n,
  stk m g pb tp bot -> In (GB a n) g -> a <= ev_lo e -> ev_hi e <= a + n -> ev_lo e <= ev_hi e ->
  stk (e :: m) g pb tp bot.
Proof.
  intros e m g. induction g as [|[a0 n0|fa spb t] r IH]; cbn [stk In]; intros pb tp bot a n H Hin Hl Hh Hlh.
  - contradiction.
  - destruct H as [H1 [H2 H3]]. repeat split; try assumption.
    destruct Hin as [E|Hin].
    + inversion E; subst. apply stk_write_below; [assumption|lia].
    + eapply IH; eassumption.
  - destruct H as [H0 [H1 [H2 [H3 [H4 H5]]]]]. destruct Hin as [E|Hin]; [discriminate|].
    pose proof (stk_items _ _ _ _ _ _ H5 Hin) as [Hlo _]. simpl in Hlo. unfold FRAME in *.
    repeat split; try assumption.
    + rewrite rd_cons_other by lia. assumption.
    + rewrite rd_cons_other by lia. assumption.
    + eapply IH; eassumption.
Qed.

(* the frame chain: the newest frame, if any, is the one d->pbase points to *)
Fixpoint gpop (g : list gitem) : option (Z * Z * Z * list gitem) :=
  match g with
  | [] => None
  | GB _ _ :: r => gpop r
  | GF fa spb t :: r => Some (fa, spb, t, r)
  end.

Lemma stk_gpop_none : forall m g pb tp bot, stk m g pb tp bot -> gpop g = None -> pb = 0.
Proof.
  intros m g. induction g as [|[a n|fa spb t] r IH]; simpl; intros pb tp bot H Hg.
  - tauto.
  - destruct H as [_ [_ H]]. eapply IH; eassumption.
  - discriminate.
Qed.

Lemma stk_gpop_some : forall m g pb tp bot fa spb t r,
  stk m g pb tp bot -> gpop g = Some (fa, spb, t, r) ->
  pb = fa /\ tp <= fa /\ fa + FRAME <= t /\ rd m fa = spb /\ rd m (fa + 8) = t /\ stk m r spb t bot.
Proof.
  intros m g. induction g as [|[a n|fa0 spb0 t0] r0 IH]; simpl; intros pb tp bot fa spb t r H Hg.
  - discriminate.
  - destruct H as [H1 [H2 H3]]. destruct (IH _ _ _ _ _ _ _ H3 Hg) as [? [? ?]]. repeat split; try tauto. lia.
  - inversion Hg; subst. tauto.
Qed.

(* ------------------------------------------------------------------ single steps under the invariant *)
Lemma pow2_8 : pow2 8. Proof. exists 3. split; [lia|reflexivity]. Qed.
Lemma pow2_4 : pow2 4. Proof. exists 2. split; [lia|reflexivity]. Qed.

Lemma adown_props : forall x al, 0 < al -> adown x al <= x /\ x - al < adown x al /\ adown x al mod al = 0.
Proof.
  intros x al H. unfold adown. pose proof (mod_bounds x al H). split; [lia|]. split; [lia|].
  apply align_down_mod. assumption.
Qed.

(* the state after a successful stack allocation whose block starts at p *)
Definition sa_state (s : st) (p : Z) : st :=
  set_stack s (Bot s - p) (pbase s) (Z.max (maxs s) (Bot s - p)) (Z.max (maxa s) (Bot s - p + parena s)) (mem s).

Lemma SA_step : forall gs gt s g ab size al,
  Inv s g ab -> pow2 al -> 0 < size < W -> size_ok gs size al ->
  (let p := adown (Top s - size) al in
   stack_alloc gs gt s size al = (RPtr p, sa_state s p) /\
   p mod al = 0 /\ Lim s <= p /\ p + size <= Top s /\ Top (sa_state s p) = p /\
   Inv (sa_state s p) (GB p size :: g) ab)
  \/ (stack_alloc gs gt s size al = (RErr, s) /\ Avail s < size + al - 1).
Proof.
  intros gs gt s g ab size al HI Hal Hsz Hok.
  destruct HI as [Hwf Hlk Hstk Harn Hms Hma].
  pose proof (pow2_bounds al Hal) as [Hap Hab].
  destruct (info_vals s Hwf) as [Eb [Et El]].
  unfold stack_alloc. replace (size =? 0) with false by (symmetry; apply Z.eqb_neq; lia).
  rewrite Hlk.
  destruct (AI_spec gs s size al Hwf Hal Hsz Hok) as [[Hle [Hfit E]]|[Hno E]]; rewrite E.
  - left. cbv zeta. set (p := adown (Top s - size) al) in *.
    destruct (adown_props (Top s - size) al Hap) as [Hp1 [Hp2 Hp3]]. fold p in Hp1, Hp2, Hp3.
    pose proof Hwf as Hwf'. destruct Hwf' as [H1 H2 H3 H4 H5 H6].
    assert (Ew : wrap (bottom s - p) = Bot s - p).
    { rewrite Eb. apply wrap_small. unfold Bot, Top, Lim in *. lia. }
    split. { unfold sa_state. rewrite Ew. reflexivity. }
    split; [assumption|]. split; [assumption|]. split; [lia|].
    split. { unfold Top, sa_state, set_stack, Bot. simpl. lia. }
    constructor; unfold sa_state, set_stack; simpl.
    + constructor; simpl; unfold Bot, Top, Lim in *; lia.
    + assumption.
    + unfold Top, Bot. simpl. split; [unfold Top, Bot in *; lia|]. split; [lia|].
      eapply stk_lower; [exact Hstk|]. unfold Top, Bot in *. lia.
    + exact Harn.
    + lia.
    + lia.
  - right. split; [reflexivity|].
    destruct (adown_props (Top s - size) al Hap) as [Hp1 [Hp2 Hp3]].
    destruct Hwf as [H1 H2 H3 H4 H5 H6]. unfold Avail, Top, Lim in *. lia.
Qed.

Lemma SA_zero : forall gs gt s al, stack_alloc gs gt s 0 al = (RNull, s).
Proof. reflexivity. Qed.

(* exhaustion: a request larger than the free bytes between arena and stack raises the error *)
Lemma SA_exhaust : forall gs gt s g ab size al,
  Inv s g ab -> pow2 al -> 0 < size < W -> size_ok gs size al -> Avail s < size ->
  stack_alloc gs gt s size al = (RErr, s).
Proof.
  intros gs gt s g ab size al HI Hal Hsz Hok Hex.
  destruct (SA_step gs gt s g ab size al HI Hal Hsz Hok) as [H|[H _]]; [|assumption].
  cbv zeta in H. destruct H as [_ [_ [H1 [H2 _]]]].
  unfold Avail, Lim, Top in *. lia.
Qed.

(* mj_markStack *)
Definition mark_state (s : st) (fa : Z) : st :=
  set_stack s (Bot s - fa) fa (Z.max (maxs s) (Bot s - fa)) (Z.max (maxa s) (Bot s - fa + parena s))
            (MW (fa + 8) (Top s) :: MW fa (pbase s) :: mem s).

Lemma size_ok_frame : forall gs, size_ok gs FRAME FALIGN.
Proof. intros. right. unfold FRAME, FALIGN. rewrite W_val. lia. Qed.

Lemma M_step : forall gs s g ab,
  Inv s g ab ->
  (let fa := adown (Top s - FRAME) FALIGN in
   mark gs s = (RUnit, mark_state s fa) /\ Lim s <= fa /\ fa + FRAME <= Top s /\ fa mod FALIGN = 0 /\
   Inv (mark_state s fa) (GF fa (pbase s) (Top s) :: g) ab)
  \/ (mark gs s = (RErr, s) /\ Avail s < FRAME + FALIGN - 1).
Proof.
  intros gs s g ab HI.
  destruct HI as [Hwf Hlk Hstk Harn Hms Hma].
  assert (Hal : pow2 FALIGN) by exact pow2_8.
  assert (Hsz : 0 < FRAME < W) by (unfold FRAME; rewrite W_val; lia).
  pose proof (pow2_bounds FALIGN Hal) as [Hap Hab].
  destruct (info_vals s Hwf) as [Eb [Et El]].
  unfold mark. rewrite Hlk.
  destruct (AI_spec gs s FRAME FALIGN Hwf Hal Hsz (size_ok_frame gs)) as [[Hle [Hfit E]]|[Hno E]]; rewrite E.
  - left. cbv zeta. set (fa := adown (Top s - FRAME) FALIGN) in *.
    destruct (adown_props (Top s - FRAME) FALIGN Hap) as [Hp1 [Hp2 Hp3]]. fold fa in Hp1, Hp2, Hp3.
    pose proof Hwf as Hwf'. destruct Hwf' as [H1 H2 H3 H4 H5 H6].
    assert (Ew : wrap (bottom s - fa) = Bot s - fa).
    { rewrite Eb. apply wrap_small. unfold Bot, Top, Lim in *. lia. }
    assert (E8 : wrap (fa + 8) = fa + 8).
    { apply wrap_small. unfold Bot, Top, Lim, FRAME in *. lia. }
    split. { unfold mark_state. rewrite Ew, E8, Et. reflexivity. }
    split; [assumption|]. split; [lia|]. split; [assumption|].
    constructor; unfold mark_state, set_stack; cbn [base narena parena pstack pbase maxs maxa tlock mem stk].
    + constructor; simpl; unfold Bot, Top, Lim in *; lia.
    + assumption.
    + unfold Top at 1. unfold Bot at 1 2. cbn [base narena parena pstack pbase maxs maxa tlock mem stk].
      split; [reflexivity|]. split; [unfold Bot; lia|]. split; [lia|].
      split. { rewrite rd_cons_other by (simpl; lia). apply rd_cons_same. }
      split. { apply rd_cons_same. }
      apply stk_write_below; [|simpl; unfold FRAME in *; lia].
      apply stk_write_below; [|simpl; unfold FRAME in *; lia].
      exact Hstk.
    + exact Harn.
    + unfold Bot. lia.
    + unfold Bot. lia.
  - right. split; [reflexivity|].
    destruct (adown_props (Top s - FRAME) FALIGN Hap) as [Hp1 [Hp2 Hp3]].
    destruct Hwf as [H1 H2 H3 H4 H5 H6]. unfold Avail, Top, Lim in *. lia.
Qed.

(* mj_freeStack *)
Lemma st_eta : forall s, set_stack s (pstack s) (pbase s) (maxs s) (maxa s) (mem s) = s.
Proof. destruct s. reflexivity. Qed.

Definition free_state (s : st) (spb t : Z) : st :=
  set_stack s (Bot s - t) spb (maxs s) (maxa s) (mem s).

Lemma F_step : forall s g ab,
  Inv s g ab ->
  match gpop g with
  | None => free s = (RUnit, s)
  | Some (fa, spb, t, r) => free s = (RUnit, free_state s spb t) /\ Top (free_state s spb t) = t /\
                            Inv (free_state s spb t) r ab
  end.
Proof.
  intros s g ab HI. destruct HI as [Hwf Hlk Hstk Harn Hms Hma].
  destruct (info_vals s Hwf) as [Eb [Et El]].
  pose proof Hwf as Hwf'. destruct Hwf' as [H1 H2 H3 H4 H5 H6].
  unfold free. rewrite Hlk.
  destruct (gpop g) as [[[[fa spb] t] r]|] eqn:Eg.
  - destruct (stk_gpop_some _ _ _ _ _ _ _ _ _ Hstk Eg) as [Epb [Hfa [Ht [Erd1 [Erd2 Hr]]]]].
    pose proof (stk_le _ _ _ _ _ Hr) as Htb. unfold FRAME in *.
    replace (pbase s =? 0) with false by (symmetry; apply Z.eqb_neq; unfold Top in *; lia).
    rewrite Epb. rewrite (wrap_small (fa + 8)) by (unfold Bot, Top in *; lia).
    rewrite Erd1, Erd2. rewrite Eb.
    rewrite (wrap_small (Bot s - t)) by (unfold Bot, Top in *; lia).
    split; [reflexivity|].
    split. { unfold Top, free_state, set_stack, Bot. simpl. lia. }
    constructor; unfold free_state, set_stack; simpl.
    + constructor; simpl; unfold Bot, Top, Lim in *; lia.
    + assumption.
    + unfold Top at 1. unfold Bot at 1 2. simpl.
      replace (base s + narena s - (Bot s - t)) with t by (unfold Bot; lia). exact Hr.
    + exact Harn.
    + unfold Bot, Top in *. lia.
    + unfold Bot, Top in *. lia.
  - rewrite (stk_gpop_none _ _ _ _ _ Hstk Eg). simpl.
    rewrite Eb, Et. rewrite (wrap_small (Bot s - Top s)) by (unfold Bot, Top; lia).
    replace (Bot s - Top s) with (pstack s) by (unfold Bot, Top; lia).
    rewrite <- (stk_gpop_none _ _ _ _ _ Hstk Eg). rewrite st_eta. reflexivity.
Qed.

(* mj_arenaAllocByte *)
Definition aa_state (s : st) (p bytes : Z) : st :=
  mkst (base s) (narena s) (p + bytes - base s) (pstack s) (pbase s) (maxs s)
       (Z.max (maxa s) (pstack s + (p + bytes - base s))) (tlock s) (mem s).

Lemma AA_step : forall ga s g ab bytes al,
  Inv s g ab -> pow2 al -> 0 <= bytes < W -> arena_ok ga s bytes al ->
  (let p := Lim s + apad (parena s) al in
   arena_alloc ga s bytes al = (RPtr p, aa_state s p bytes) /\
   (base s mod al = 0 -> p mod al = 0) /\ Lim s <= p /\ p + bytes <= Top s /\
   Lim (aa_state s p bytes) = p + bytes /\
   Inv (aa_state s p bytes) g ((p, bytes) :: ab))
  \/ (arena_alloc ga s bytes al = (RNull, s) /\ Avail s < bytes + al - 1).
Proof.
  intros ga s g ab bytes al HI Hal Hb Hok.
  destruct HI as [Hwf Hlk Hstk Harn Hms Hma].
  pose proof (pow2_bounds al Hal) as [Hap Hab].
  destruct (apad_bounds (parena s) al Hap) as [Hpad Hpm].
  rewrite (AA_spec ga s bytes al Hwf Hal Hb Hok).
  pose proof Hwf as Hwf'. destruct Hwf' as [H1 H2 H3 H4 H5 H6].
  destruct (parena s + apad (parena s) al + bytes >? narena s - pstack s) eqn:Ec.
  - right. rewrite Z.gtb_ltb in Ec. apply Z.ltb_lt in Ec. split; [reflexivity|]. unfold Avail. lia.
  - left. rewrite Z.gtb_ltb in Ec. apply Z.ltb_ge in Ec. cbv zeta.
    set (pad := apad (parena s) al) in *.
    split. { unfold aa_state, Lim. f_equal. f_equal; lia. }
    split. { intros Hbm. unfold Lim. replace (base s + parena s + pad) with (base s + (parena s + pad)) by lia.
             rewrite Z.add_mod by lia. rewrite Hbm, Hpm. reflexivity. }
    split; [lia|]. split; [unfold Lim, Top; lia|].
    split. { unfold Lim, aa_state. simpl. lia. }
    constructor; unfold aa_state; simpl.
    + constructor; simpl; unfold Lim in *; lia.
    + assumption.
    + exact Hstk.
    + split; [lia|]. split; [unfold Lim; simpl; lia|]. eapply arn_raise; [exact Harn|]. lia.
    + assumption.
    + unfold Lim. lia.
Qed.

Lemma AA_exhaust : forall ga s g ab bytes al,
  Inv s g ab -> pow2 al -> 0 <= bytes < W -> arena_ok ga s bytes al -> Avail s < bytes ->
  arena_alloc ga s bytes al = (RNull, s).
Proof.
  intros ga s g ab bytes al HI Hal Hb Hok Hex.
  destruct (AA_step ga s g ab bytes al HI Hal Hb Hok) as [H|[H _]]; [|assumption].
  cbv zeta in H. destruct H as [_ [_ [H1 [H2 _]]]]. unfold Avail, Lim, Top in *. lia.
Qed.

(* user writes confined to a live block *)
Definition wr_ok (g : list gitem) (ab : list (Z * Z)) (a len : Z) : Prop :=
  (exists b n, In (GB b n) g /\ b <= a /\ a + len <= b + n) \/
  (exists b n, In (b, n) ab /\ b <= a /\ a + len <= b + n).

Definition write_state (s : st) (a len v : Z) : st :=
  set_stack s (pstack s) (pbase s) (maxs s) (maxa s) (MC a len v :: mem s).

Lemma W_step : forall s g ab a len v,
  Inv s g ab -> 0 <= len -> wr_ok g ab a len -> Inv (write_state s a len v) g ab.
Proof.
  intros s g ab a len v HI Hlen Hw. destruct HI as [Hwf Hlk Hstk Harn Hms Hma].
  pose proof Hwf as Hwf'. destruct Hwf' as [H1 H2 H3 H4 H5 H6].
  constructor; unfold write_state, set_stack; simpl; try assumption.
  - constructor; simpl; assumption.
  - unfold Top, Bot in *. simpl.
    destruct Hw as [[b [n [Hin [Hl Hh]]]]|[b [n [Hin [Hl Hh]]]]].
    + eapply stk_write_block; try eassumption; simpl; lia.
    + destruct (arn_items _ _ _ _ _ Harn Hin) as [Ha [Hb Hc]].
      apply stk_write_below; [assumption|]. simpl. unfold Lim in *. lia.
Qed.

(* ------------------------------------------------------------------ histories *)
(* what a caller must respect for the step to be covered *)
Definition op_pre (gs ga : bool) (s : st) (g : list gitem) (ab : list (Z * Z)) (o : op) : Prop :=
  match o with
  | OMark | OFree => True
  | OSAlloc size al => 0 <= size < W /\ pow2 al /\ size_ok gs size al
  | OAAlloc bytes al => 0 <= bytes < W /\ pow2 al /\ arena_ok ga s bytes al
  | ONum n | OInt n => 0 <= n < W
  | OWrite a len v => 0 <= len /\ wr_ok g ab a len
  | OLock b => b = false
  end.

(* ghost bookkeeping of live regions *)
Definition gnext (s : st) (g : list gitem) (ab : list (Z * Z)) (o : op) (r : res) (s' : st)
  : list gitem * list (Z * Z) :=
  match o, r with
  | OMark, RUnit => (GF (pbase s') (pbase s) (Top s) :: g, ab)
  | OFree, _ => (match gpop g with Some (_, _, _, g') => g' | None => g end, ab)
  | OSAlloc size _, RPtr p => (GB p size :: g, ab)
  | ONum n, RPtr p => (GB p (n * 8) :: g, ab)
  | OInt n, RPtr p => (GB p (n * 4) :: g, ab)
  | OAAlloc bytes _, RPtr p => (g, (p, bytes) :: ab)
  | _, _ => (g, ab)
  end.

Lemma size_max_8 : SIZE_MAX / 8 = 2305843009213693951. Proof. reflexivity. Qed.
Lemma size_max_4 : SIZE_MAX / 4 = 4611686018427387903. Proof. reflexivity. Qed.

Lemma step_inv : forall gs gt ga s g ab o r s',
  Inv s g ab -> op_pre gs ga s g ab o -> step gs gt ga s o = (r, s') ->
  Inv s' (fst (gnext s g ab o r s')) (snd (gnext s g ab o r s')) /\ (r = RErr -> s' = s).
Proof.
  intros gs gt ga s g ab o r s' HI Hpre Hst.
  destruct o as [| |size al|bytes al|n|n|a len v|b]; cbn [step] in Hst; cbn [op_pre] in Hpre.
  - (* mark *)
    destruct (M_step gs s g ab HI) as [H|[H _]]; cbv zeta in H.
    + destruct H as [E [_ [_ [_ HI']]]]. rewrite E in Hst. inversion Hst; subst.
      cbn [gnext fst snd]. split; [|discriminate].
      unfold mark_state at 1. unfold set_stack at 1. cbn [pbase]. exact HI'.
    + rewrite H in Hst. inversion Hst; subst. cbn [gnext fst snd]. split; [assumption|reflexivity].
  - (* free *)
    pose proof (F_step s g ab HI) as H. cbn [gnext fst snd].
    destruct (gpop g) as [[[[fa spb] t] r0]|].
    + destruct H as [E [_ HI']]. rewrite E in Hst. inversion Hst; subst. split; [assumption|discriminate].
    + rewrite H in Hst. inversion Hst; subst. split; [assumption|discriminate].
  - (* stack alloc *)
    destruct Hpre as [Hsz [Hal Hok]].
    destruct (Z.eq_dec size 0) as [->|Hnz].
    + rewrite SA_zero in Hst. inversion Hst; subst. cbn [gnext fst snd]. split; [assumption|discriminate].
    + destruct (SA_step gs gt s g ab size al HI Hal ltac:(lia) Hok) as [H|[H _]]; cbv zeta in H.
      * destruct H as [E [_ [_ [_ [_ HI']]]]]. rewrite E in Hst. inversion Hst; subst.
        cbn [gnext fst snd]. split; [assumption|discriminate].
      * rewrite H in Hst. inversion Hst; subst. cbn [gnext fst snd]. split; [assumption|reflexivity].
  - (* arena alloc *)
    destruct Hpre as [Hsz [Hal Hok]].
    destruct (AA_step ga s g ab bytes al HI Hal Hsz Hok) as [H|[H _]]; cbv zeta in H.
    + destruct H as [E [_ [_ [_ [_ HI']]]]]. rewrite E in Hst. inversion Hst; subst.
      cbn [gnext fst snd]. split; [assumption|discriminate].
    + rewrite H in Hst. inversion Hst; subst. cbn [gnext fst snd]. split; [assumption|discriminate].
  - (* mj_stackAllocNum *)
    rewrite size_max_8 in Hst.
    destruct (n >=? 2305843009213693951) eqn:En.
    + inversion Hst; subst. cbn [gnext fst snd]. split; [assumption|reflexivity].
    + rewrite Z.geb_leb in En. apply Z.leb_gt in En.
      rewrite (wrap_small (n * 8)) in Hst by (rewrite W_val; lia).
      destruct (Z.eq_dec n 0) as [->|Hnz].
      * simpl in Hst. inversion Hst; subst. cbn [gnext fst snd]. split; [assumption|discriminate].
      * destruct (SA_step gs gt s g ab (n * 8) 8 HI pow2_8 ltac:(rewrite W_val; lia)
                   ltac:(right; rewrite W_val; lia)) as [H|[H _]]; cbv zeta in H.
        -- destruct H as [E [_ [_ [_ [_ HI']]]]]. rewrite E in Hst. inversion Hst; subst.
           cbn [gnext fst snd]. split; [assumption|discriminate].
        -- rewrite H in Hst. inversion Hst; subst. cbn [gnext fst snd]. split; [assumption|reflexivity].
  - (* mj_stackAllocInt *)
    rewrite size_max_4 in Hst.
    destruct (n >=? 4611686018427387903) eqn:En.
    + inversion Hst; subst. cbn [gnext fst snd]. split; [assumption|reflexivity].
    + rewrite Z.geb_leb in En. apply Z.leb_gt in En.
      rewrite (wrap_small (n * 4)) in Hst by (rewrite W_val; lia).
      destruct (Z.eq_dec n 0) as [->|Hnz].
      * simpl in Hst. inversion Hst; subst. cbn [gnext fst snd]. split; [assumption|discriminate].
      * destruct (SA_step gs gt s g ab (n * 4) 4 HI pow2_4 ltac:(rewrite W_val; lia)
                   ltac:(right; rewrite W_val; lia)) as [H|[H _]]; cbv zeta in H.
        -- destruct H as [E [_ [_ [_ [_ HI']]]]]. rewrite E in Hst. inversion Hst; subst.
           cbn [gnext fst snd]. split; [assumption|discriminate].
        -- rewrite H in Hst. inversion Hst; subst. cbn [gnext fst snd]. split; [assumption|reflexivity].
  - (* user write *)
    destruct Hpre as [Hlen Hw]. inversion Hst; subst. cbn [gnext fst snd]. split; [|discriminate].
    apply (W_step s g ab a len v HI Hlen Hw).
  - (* threadlock := false *)
    subst b. inversion Hst; subst. cbn [gnext fst snd]. split; [|discriminate].
    destruct HI as [Hwf Hlk Hstk Harn Hms Hma]. destruct Hwf.
    constructor; simpl; try assumption; try reflexivity. constructor; simpl; assumption.
Qed.

(* executions that run to completion: no operation takes the error exit *)
Inductive Exec (gs gt ga : bool) : st -> list gitem -> list (Z * Z) -> list op ->
                                   st -> list gitem -> list (Z * Z) -> Prop :=
| Ex_nil : forall s g ab, Exec gs gt ga s g ab [] s g ab
| Ex_cons : forall s g ab o ops r s1 s2 g2 ab2,
    op_pre gs ga s g ab o -> step gs gt ga s o = (r, s1) -> r <> RErr ->
    Exec gs gt ga s1 (fst (gnext s g ab o r s1)) (snd (gnext s g ab o r s1)) ops s2 g2 ab2 ->
    Exec gs gt ga s g ab (o :: ops) s2 g2 ab2.

Lemma Exec_inv : forall gs gt ga s g ab ops s' g' ab',
  Inv s g ab -> Exec gs gt ga s g ab ops s' g' ab' -> Inv s' g' ab'.
Proof.
  intros gs gt ga s g ab ops s' g' ab' HI HE. induction HE; [assumption|].
  apply IHHE. eapply step_inv; eassumption.
Qed.

Lemma Exec_cons_inv : forall gs gt ga s g ab o ops s2 g2 ab2,
  Exec gs gt ga s g ab (o :: ops) s2 g2 ab2 ->
  exists r s1, op_pre gs ga s g ab o /\ step gs gt ga s o = (r, s1) /\ r <> RErr /\
    Exec gs gt ga s1 (fst (gnext s g ab o r s1)) (snd (gnext s g ab o r s1)) ops s2 g2 ab2.
Proof. intros. inversion H; subst. exists r, s1. tauto. Qed.

Lemma Exec_nil_inv : forall gs gt ga s g ab s2 g2 ab2,
  Exec gs gt ga s g ab [] s2 g2 ab2 -> s2 = s /\ g2 = g /\ ab2 = ab.
Proof. intros. inversion H; subst. tauto. Qed.

Lemma Exec_app_inv : forall gs gt ga l1 l2 s g ab s' g' ab',
  Exec gs gt ga s g ab (l1 ++ l2) s' g' ab' ->
  exists s1 g1 ab1, Exec gs gt ga s g ab l1 s1 g1 ab1 /\ Exec gs gt ga s1 g1 ab1 l2 s' g' ab'.
Proof.
  intros gs gt ga l1. induction l1 as [|o l1 IH]; intros l2 s g ab s' g' ab' HE.
  - exists s, g, ab. split; [constructor|assumption].
  - simpl in HE. destruct (Exec_cons_inv _ _ _ _ _ _ _ _ _ _ _ HE) as [r [s1 [Hp [Hs [Hn HE']]]]].
    destruct (IH _ _ _ _ _ _ _ HE') as [sa [ga' [aba [E1 E2]]]].
    exists sa, ga', aba. split; [|assumption]. econstructor; eassumption.
Qed.

Lemma step_base : forall gs gt ga s o r s', step gs gt ga s o = (r, s') -> base s' = base s /\ narena s' = narena s.
Proof.
  intros gs gt ga s o r s' H.
  destruct o; cbn [step] in H; unfold mark, free, stack_alloc, arena_alloc, tl_reserve in H;
    repeat match goal with
    | H : context [if ?c then _ else _] |- _ => destruct c
    | H : context [match alloc_internal ?a ?b ?c ?d ?e with _ => _ end] |- _ => destruct (alloc_internal a b c d e)
    end; inversion H; subst; split; reflexivity.
Qed.

Lemma Exec_base : forall gs gt ga s g ab ops s' g' ab',
  Exec gs gt ga s g ab ops s' g' ab' -> base s' = base s /\ narena s' = narena s.
Proof.
  intros. induction H; [split; reflexivity|].
  destruct IHExec as [-> ->]. eapply step_base; eassumption.
Qed.

(* well-nested sequences: allocations, writes and properly bracketed mark ... free *)
Definition plain (o : op) : Prop :=
  match o with OMark | OFree | OLock _ => False | _ => True end.

Inductive wn : list op -> Prop :=
| wn_nil : wn []
| wn_plain : forall o l, plain o -> wn l -> wn (o :: l)
| wn_frame : forall l1 l2, wn l1 -> wn l2 -> wn (OMark :: l1 ++ OFree :: l2).

Definition allGB (l : list gitem) : Prop := Forall (fun i => match i with GB _ _ => True | _ => False end) l.

Lemma gpop_skip : forall bl g, allGB bl -> gpop (bl ++ g) = gpop g.
Proof.
  induction bl as [|[a n|fa spb t] r IH]; intros g H; [reflexivity| |].
  - inversion H; subst. simpl. apply IH. assumption.
  - inversion H; subst. contradiction.
Qed.

(* a plain step keeps pbase and only adds blocks to the ghost stack *)
Lemma plain_step : forall gs gt ga s g ab o r s',
  Inv s g ab -> op_pre gs ga s g ab o -> plain o -> step gs gt ga s o = (r, s') ->
  pbase s' = pbase s /\ exists bl, allGB bl /\ fst (gnext s g ab o r s') = bl ++ g.
Proof.
  intros gs gt ga s g ab o r s' HI Hpre Hpl Hst.
  assert (Hnil : exists bl, allGB bl /\ g = bl ++ g) by (exists []; split; [constructor|reflexivity]).
  assert (Hone : forall p n, exists bl, allGB bl /\ GB p n :: g = bl ++ g)
    by (intros p n; exists [GB p n]; split; [repeat constructor|reflexivity]).
  destruct o as [| |size al|bytes al|n|n|a len v|b]; cbn [plain] in Hpl; try contradiction;
    cbn [step] in Hst; cbn [op_pre] in Hpre.
  - destruct Hpre as [Hsz [Hal Hok]].
    destruct (Z.eq_dec size 0) as [->|Hnz].
    + rewrite SA_zero in Hst. inversion Hst; subst. cbn [gnext fst]. split; [reflexivity|exact Hnil].
    + destruct (SA_step gs gt s g ab size al HI Hal ltac:(lia) Hok) as [H|[H _]]; cbv zeta in H.
      * destruct H as [E _]. rewrite E in Hst. inversion Hst; subst. cbn [gnext fst].
        split; [reflexivity|apply Hone].
      * rewrite H in Hst. inversion Hst; subst. cbn [gnext fst]. split; [reflexivity|exact Hnil].
  - destruct Hpre as [Hsz [Hal Hok]].
    destruct (AA_step ga s g ab bytes al HI Hal Hsz Hok) as [H|[H _]]; cbv zeta in H.
    + destruct H as [E _]. rewrite E in Hst. inversion Hst; subst. cbn [gnext fst].
      split; [reflexivity|exact Hnil].
    + rewrite H in Hst. inversion Hst; subst. cbn [gnext fst]. split; [reflexivity|exact Hnil].
  - rewrite size_max_8 in Hst.
    destruct (n >=? 2305843009213693951) eqn:En.
    + inversion Hst; subst. cbn [gnext fst]. split; [reflexivity|exact Hnil].
    + rewrite Z.geb_leb in En. apply Z.leb_gt in En.
      rewrite (wrap_small (n * 8)) in Hst by (rewrite W_val; lia).
      destruct (Z.eq_dec n 0) as [->|Hnz].
      * simpl in Hst. inversion Hst; subst. cbn [gnext fst]. split; [reflexivity|exact Hnil].
      * destruct (SA_step gs gt s g ab (n * 8) 8 HI pow2_8 ltac:(rewrite W_val; lia)
                   ltac:(right; rewrite W_val; lia)) as [H|[H _]]; cbv zeta in H.
        -- destruct H as [E _]. rewrite E in Hst. inversion Hst; subst. cbn [gnext fst].
           split; [reflexivity|apply Hone].
        -- rewrite H in Hst. inversion Hst; subst. cbn [gnext fst]. split; [reflexivity|exact Hnil].
  - rewrite size_max_4 in Hst.
    destruct (n >=? 4611686018427387903) eqn:En.
    + inversion Hst; subst. cbn [gnext fst]. split; [reflexivity|exact Hnil].
    + rewrite Z.geb_leb in En. apply Z.leb_gt in En.
      rewrite (wrap_small (n * 4)) in Hst by (rewrite W_val; lia).
      destruct (Z.eq_dec n 0) as [->|Hnz].
      * simpl in Hst. inversion Hst; subst. cbn [gnext fst]. split; [reflexivity|exact Hnil].
      * destruct (SA_step gs gt s g ab (n * 4) 4 HI pow2_4 ltac:(rewrite W_val; lia)
                   ltac:(right; rewrite W_val; lia)) as [H|[H _]]; cbv zeta in H.
        -- destruct H as [E _]. rewrite E in Hst. inversion Hst; subst. cbn [gnext fst].
           split; [reflexivity|apply Hone].
        -- rewrite H in Hst. inversion Hst; subst. cbn [gnext fst]. split; [reflexivity|exact Hnil].
  - inversion Hst; subst. cbn [gnext fst]. split; [reflexivity|exact Hnil].
Qed.

(* a framed segment  mark; l1; free  restores pstack, pbase and the set of live regions, provided
   l1 only adds blocks on top of the frame (which well-nested sequences do, see wn_exec) *)
Definition adds_blocks (gs gt ga : bool) (l : list op) : Prop :=
  forall s g ab s' g' ab', Inv s g ab -> Exec gs gt ga s g ab l s' g' ab' ->
    pbase s' = pbase s /\ exists bl, allGB bl /\ g' = bl ++ g.

Lemma frame_restores : forall gs gt ga l1 s g ab s' g' ab',
  adds_blocks gs gt ga l1 ->
  Inv s g ab -> Exec gs gt ga s g ab (OMark :: l1 ++ [OFree]) s' g' ab' ->
  pstack s' = pstack s /\ pbase s' = pbase s /\ g' = g /\ Inv s' g' ab'.
Proof.
  intros gs gt ga l1 s g ab s' g' ab' Hadd HI HE.
  destruct (Exec_cons_inv _ _ _ _ _ _ _ _ _ _ _ HE) as [r [s1 [_ [Hst [Hne HE1]]]]]. clear HE.
  cbn [step] in Hst.
  destruct (M_step gs s g ab HI) as [H|[H _]]; cbv zeta in H;
    [|rewrite H in Hst; inversion Hst; subst; contradiction].
  destruct H as [E [_ [_ [_ HI1]]]]. rewrite E in Hst. inversion Hst; subst. clear Hst.
  cbn [gnext fst snd] in HE1. unfold mark_state at 2 in HE1. unfold set_stack at 1 in HE1. cbn [pbase] in HE1.
  set (fa := adown (Top s - FRAME) FALIGN) in *.
  destruct (Exec_app_inv _ _ _ _ _ _ _ _ _ _ _ HE1) as [s2 [g2 [ab2 [E1 E2]]]].
  destruct (Hadd _ _ _ _ _ _ HI1 E1) as [Hpb [bl [Hbl Hg2]]]. subst g2.
  pose proof (Exec_inv _ _ _ _ _ _ _ _ _ _ HI1 E1) as HI2.
  destruct (Exec_base _ _ _ _ _ _ _ _ _ _ E1) as [Hb2 Hn2].
  destruct (Exec_cons_inv _ _ _ _ _ _ _ _ _ _ _ E2) as [r3 [s3 [_ [Hst3 [_ HE3]]]]].
  destruct (Exec_nil_inv _ _ _ _ _ _ _ _ _ HE3) as [-> [-> ->]].
  cbn [step] in Hst3. cbn [gnext fst snd].
  pose proof (F_step s2 (bl ++ GF fa (pbase s) (Top s) :: g) ab2 HI2) as HF.
  rewrite gpop_skip in * by assumption. cbn [gpop] in *.
  destruct HF as [EF [HT HI3]]. rewrite EF in Hst3. inversion Hst3; subst.
  split. { unfold free_state, set_stack. cbn [pstack]. unfold Bot, Top. rewrite Hb2, Hn2.
           unfold mark_state, set_stack. cbn [base narena]. lia. }
  split; [reflexivity|]. split; [reflexivity|]. exact HI3.
Qed.

Lemma allGB_app : forall a b, allGB a -> allGB b -> allGB (a ++ b).
Proof. intros. apply Forall_app. split; assumption. Qed.

Lemma wn_adds : forall gs gt ga l, wn l -> adds_blocks gs gt ga l.
Proof.
  intros gs gt ga l H. induction H as [|o l Hpl Hwn IH|l1 l2 H1 IH1 H2 IH2];
    intros s g ab s' g' ab' HI HE.
  - destruct (Exec_nil_inv _ _ _ _ _ _ _ _ _ HE) as [-> [-> ->]].
    split; [reflexivity|]. exists []. split; [constructor|reflexivity].
  - destruct (Exec_cons_inv _ _ _ _ _ _ _ _ _ _ _ HE) as [r [s1 [Hp [Hst [Hne HE1]]]]].
    destruct (plain_step _ _ _ _ _ _ _ _ _ HI Hp Hpl Hst) as [Hpb [bl1 [Hbl1 Hg1]]].
    destruct (step_inv _ _ _ _ _ _ _ _ _ HI Hp Hst) as [HI1 _].
    destruct (IH _ _ _ _ _ _ HI1 HE1) as [Hpb' [bl [Hbl Hg']]].
    split; [congruence|]. exists (bl ++ bl1). split; [apply allGB_app; assumption|].
    rewrite Hg', Hg1. rewrite app_assoc. reflexivity.
  - replace (OMark :: l1 ++ OFree :: l2) with ((OMark :: l1 ++ [OFree]) ++ l2) in HE
      by (simpl; rewrite <- app_assoc; reflexivity).
    destruct (Exec_app_inv _ _ _ _ _ _ _ _ _ _ _ HE) as [s1 [g1 [ab1 [E1 E2]]]].
    destruct (frame_restores _ _ _ _ _ _ _ _ _ _ IH1 HI E1) as [_ [Hpb [-> HI1]]].
    destruct (IH2 _ _ _ _ _ _ HI1 E2) as [Hpb' [bl [Hbl Hg']]].
    split; [congruence|]. exists bl. split; assumption.
Qed.

(* sequences that do not allocate on the stack outside a mark ... free bracket: what an engine
   function that brackets its own stack use looks like to its caller *)
Inductive bal : list op -> Prop :=
| bal_nil : bal []
| bal_arena : forall bytes al l, bal l -> bal (OAAlloc bytes al :: l)
| bal_write : forall a len v l, bal l -> bal (OWrite a len v :: l)
| bal_frame : forall l1 l2, wn l1 -> bal l2 -> bal (OMark :: l1 ++ OFree :: l2).

Lemma bal_restores : forall gs gt ga l, bal l ->
  forall s g ab s' g' ab', Inv s g ab -> Exec gs gt ga s g ab l s' g' ab' ->
  pstack s' = pstack s /\ pbase s' = pbase s /\ g' = g /\ Inv s' g' ab'.
Proof.
  intros gs gt ga l H. induction H as [|bytes al l Hb IH|a len v l Hb IH|l1 l2 H1 H2 IH2];
    intros s g ab s' g' ab' HI HE.
  - destruct (Exec_nil_inv _ _ _ _ _ _ _ _ _ HE) as [-> [-> ->]]. tauto.
  - destruct (Exec_cons_inv _ _ _ _ _ _ _ _ _ _ _ HE) as [r [s1 [Hp [Hst [Hne HE1]]]]].
    destruct (step_inv _ _ _ _ _ _ _ _ _ HI Hp Hst) as [HI1 _].
    cbn [step] in Hst. cbn [op_pre] in Hp. destruct Hp as [Hsz [Hal Hok]].
    destruct (AA_step ga s g ab bytes al HI Hal Hsz Hok) as [Hs|[Hs _]]; cbv zeta in Hs.
    + destruct Hs as [E _]. rewrite E in Hst. inversion Hst; subst.
      cbn [gnext fst snd] in *. destruct (IH _ _ _ _ _ _ HI1 HE1) as [A [B [C D]]].
      unfold aa_state in A, B. cbn [pstack pbase] in A, B. tauto.
    + rewrite Hs in Hst. inversion Hst; subst. cbn [gnext fst snd] in *. apply (IH _ _ _ _ _ _ HI1 HE1).
  - destruct (Exec_cons_inv _ _ _ _ _ _ _ _ _ _ _ HE) as [r [s1 [Hp [Hst [Hne HE1]]]]].
    destruct (step_inv _ _ _ _ _ _ _ _ _ HI Hp Hst) as [HI1 _].
    cbn [step] in Hst. inversion Hst; subst. cbn [gnext fst snd] in *.
    destruct (IH _ _ _ _ _ _ HI1 HE1) as [A [B [C D]]].
    unfold set_stack in A, B. cbn [pstack pbase] in A, B. tauto.
  - replace (OMark :: l1 ++ OFree :: l2) with ((OMark :: l1 ++ [OFree]) ++ l2) in HE
      by (simpl; rewrite <- app_assoc; reflexivity).
    destruct (Exec_app_inv _ _ _ _ _ _ _ _ _ _ _ HE) as [s1 [g1 [ab1 [E1 E2]]]].
    destruct (frame_restores _ _ _ _ _ _ _ _ _ _ (wn_adds gs gt ga l1 H1) HI E1) as [A [B [-> HI1]]].
    destruct (IH2 _ _ _ _ _ _ HI1 E2) as [A' [B' [C' D']]].
    split; [congruence|]. split; [congruence|]. tauto.
Qed.

(* the initial state of a freshly made / reset mjData satisfies the invariant *)
Lemma init_inv : forall b n, 0 < b -> 0 <= n -> b + n < W -> Inv (init b n 0 0) [] [].
Proof.
  intros. constructor; simpl; try reflexivity; try lia.
  - constructor; simpl; lia.
  - unfold Top, Bot. simpl. lia.
  - unfold Lim. simpl. lia.
Qed.

(* ------------------------------------------------------------------ thread-lock branch *)
Lemma tl_alloc_nowrap : forall size al,
  0 < size < W -> pow2 al -> (size + al <= W \/ size <= tl_alloc_size size al) ->
  tl_alloc_size size al = size + al - 1.
Proof.
  intros size al Hs Hal H. pose proof (pow2_bounds al Hal) as [Hap Hab]. unfold tl_alloc_size in *.
  destruct (Z_lt_ge_dec (size + al) W) as [Hlt|Hge].
  - rewrite (wrap_small (size + al)) by lia. apply wrap_small. lia.
  - destruct (Z.eq_dec (size + al) W) as [He|Hne].
    + rewrite He. replace (wrap W) with 0 by reflexivity. rewrite wrap_neg by (rewrite W_val; lia). lia.
    + destruct H as [H|H]; [lia|].
      rewrite (wrap_over (size + al)) in H by lia.
      rewrite (wrap_small (size + al - W - 1)) in H by lia. lia.
Qed.

Lemma TL_finish_spec : forall gt b na pa old size al,
  0 < b -> 0 <= pa <= na -> b + na < W -> pow2 al -> 0 < size -> size + al - 1 < W ->
  tl_alloc_size size al = size + al - 1 ->
  0 <= old -> old + (size + al - 1) < W -> (gt = true -> size + al - 1 <= na - pa) ->
  (tl_finish gt b na pa old size al = RErr /\ na - pa < old + (size + al - 1))
  \/ (exists p, tl_finish gt b na pa old size al = RPtr p /\ p mod al = 0 /\
        b + na - old - (size + al - 1) <= p /\ p + size <= b + na - old /\ b + pa <= p).
Proof.
  intros gt b na pa old size al Hb Hpa Hfit Hal Hsz Hnw Eal Hold Hnw2 Hgt.
  pose proof (pow2_bounds al Hal) as [Hap Hab].
  unfold tl_finish. rewrite Eal.
  rewrite (wrap_small (na - pa)) by lia.
  assert (Ec : (if gt then old >? wrap (na - pa - (size + al - 1)) else wrap (old + (size + al - 1)) >? na - pa)
               = (old + (size + al - 1) >? na - pa)).
  { destruct gt.
    - rewrite (wrap_small (na - pa - (size + al - 1))) by (specialize (Hgt eq_refl); lia).
      rewrite !Z.gtb_ltb. destruct (na - pa - (size + al - 1) <? old) eqn:E1; destruct (na - pa <? old + (size + al - 1)) eqn:E2;
        try reflexivity; rewrite ?Z.ltb_lt, ?Z.ltb_ge in *; lia.
    - rewrite (wrap_small (old + (size + al - 1))) by lia. reflexivity. }
  rewrite Ec.
  destruct (old + (size + al - 1) >? na - pa) eqn:E.
  - left. rewrite Z.gtb_ltb in E. apply Z.ltb_lt in E. split; [reflexivity|lia].
  - right. rewrite Z.gtb_ltb in E. apply Z.ltb_ge in E.
    rewrite (wrap_small (b + na)) by lia.
    rewrite (wrap_small (b + na - old)) by lia.
    rewrite (wrap_small (b + na - old - size)) by lia.
    rewrite fastmod_pow2 by assumption.
    destruct (adown_props (b + na - old - size) al Hap) as [H1 [H2 H3]]. unfold adown in *.
    rewrite wrap_small by lia.
    eexists. split; [reflexivity|]. split; [assumption|]. lia.
Qed.

(* sequential use of the thread-lock branch agrees with reserve-then-finish *)
Lemma stack_alloc_tl : forall gs gt s size al, tlock s = true -> size <> 0 ->
  tl_pre_error gt (narena s) (parena s) size al = false ->
  stack_alloc gs gt s size al =
    (tl_finish gt (base s) (narena s) (parena s) (fst (tl_reserve s size al)) size al, snd (tl_reserve s size al)).
Proof.
  intros. unfold stack_alloc. replace (size =? 0) with false by (symmetry; apply Z.eqb_neq; assumption).
  rewrite H, H1. reflexivity.
Qed.

(* ------------------------------------------------------------------ concurrent reservations *)
Lemma pend_get_in : forall l t x, pend_get l t = Some x -> In (t, x) l.
Proof.
  induction l as [|[t' y] r IH]; simpl; intros t x H; [discriminate|].
  destruct (t' =? t) eqn:E.
  - apply Z.eqb_eq in E. inversion H; subst. left. reflexivity.
  - right. apply IH. assumption.
Qed.

Lemma pend_del_in : forall l t e, In e (pend_del l t) -> In e l /\ fst e <> t.
Proof.
  induction l as [|[t' y] r IH]; simpl; intros t e H; [contradiction|].
  destruct (t' =? t) eqn:E.
  - destruct (IH _ _ H). tauto.
  - destruct H as [<-|H].
    + apply Z.eqb_neq in E. simpl. tauto.
    + destruct (IH _ _ H). tauto.
Qed.

Lemma FOP_pend_del : forall (R : _ -> _ -> Prop) l t, ForallOrdPairs R l -> ForallOrdPairs R (pend_del l t).
Proof.
  intros R l t H. induction H as [|[t' y] r Hf Hr IH]; simpl; [constructor|].
  destruct (t' =? t); [assumption|]. constructor; [|assumption].
  apply Forall_forall. intros e He. apply pend_del_in in He. destruct He as [He _].
  rewrite Forall_forall in Hf. apply Hf. assumption.
Qed.

Section Concurrent.
  Variables (gd : bool) (b na pa P0 : Z).
  Hypothesis Hb : 0 < b.
  Hypothesis Hpa : 0 <= pa <= na.
  Hypothesis Hfit : b + na < W.
  Hypothesis HP0 : 0 <= P0.

  Definition iv := (Z * Z)%type.
  Definition disj (x y : iv) : Prop := snd x <= fst y \/ snd y <= fst x.
  Definition sub (x y : iv) : Prop := fst y <= fst x /\ snd x <= snd y.

  Definition pend_iv (e : Z * (Z * Z * Z)) : iv :=
    match e with (_, (old, size, al)) => (b + na - old - (size + al - 1), b + na - old) end.
  Definition done_blk (d : Z * Z * res) : option iv :=
    match d with (size, _, RPtr p) => Some (p, p + size) | _ => None end.
  Definition opt_disj (x : iv) (o : option iv) : Prop := match o with Some y => disj x y | None => True end.
  Definition blocks_disj (d1 d2 : Z * Z * res) : Prop :=
    match done_blk d1 with Some x => opt_disj x (done_blk d2) | None => True end.

  Definition pend_ok (ps : Z) (e : Z * (Z * Z * Z)) : Prop :=
    match e with (_, (old, size, al)) =>
      P0 <= old /\ old + (size + al - 1) <= ps /\ 0 < size /\ pow2 al /\ size + al - 1 < W /\
      tl_alloc_size size al = size + al - 1 /\ (gd = true -> size + al - 1 <= na - pa) end.
  Definition done_ok (ps : Z) (d : Z * Z * res) : Prop :=
    match d with (size, al, RPtr p) =>
      b + na - ps <= p /\ p + size <= b + na - P0 /\ b + pa <= p /\ p mod al = 0 | _ => True end.

  Record CI (c : cst) : Prop := {
    ci_ps : P0 <= c_pstack c;
    ci_pend : forall e, In e (c_pend c) -> pend_ok (c_pstack c) e;
    ci_done : forall d, In d (c_done c) -> done_ok (c_pstack c) d;
    ci_pp : ForallOrdPairs (fun e1 e2 => disj (pend_iv e1) (pend_iv e2)) (c_pend c);
    ci_pd : forall e d, In e (c_pend c) -> In d (c_done c) -> opt_disj (pend_iv e) (done_blk d);
    ci_dd : ForallOrdPairs blocks_disj (c_done c) }.

  Definition req_ok (a : cact) : Prop :=
    match a with
    | CReserve _ size al => 0 <= size < W /\ pow2 al /\ size_ok gd size al
    | CFinish _ => True
    end.
  Definition act_cost (a : cact) : Z :=
    match a with CReserve _ size al => tl_alloc_size size al | CFinish _ => 0 end.
  Definition total (l : list cact) : Z := fold_right (fun a x => act_cost a + x) 0 l.

  Lemma act_cost_nonneg : forall a, 0 <= act_cost a.
  Proof. intros [t size al|t]; simpl; [|lia]. unfold tl_alloc_size. apply wrap_range. Qed.

  Lemma total_nonneg : forall l, 0 <= total l.
  Proof. induction l; simpl; [lia|]. pose proof (act_cost_nonneg a). lia. Qed.

  Lemma cstep_CI : forall c a, CI c -> req_ok a -> c_pstack c + act_cost a < W -> CI (cstep gd b na pa c a).
  Proof.
    intros c a HC Hreq Hnw. destruct HC as [Hps Hpend Hdone Hpp Hpd Hdd].
    destruct a as [t size al|t]; cbn [cstep].
    - (* fetch-add *)
      destruct (pend_get (c_pend c) t); [constructor; assumption|].
      destruct (size =? 0) eqn:Ez; [constructor; assumption|]. apply Z.eqb_neq in Ez.
      destruct Hreq as [Hsz [Hal Hok]]. pose proof (pow2_bounds al Hal) as [Hap Hab].
      destruct (tl_pre_error gd na pa size al) eqn:Epre.
      + (* guarded variant: rejected before the fetch-add *)
        constructor; cbn [c_pstack c_pend c_done]; try assumption.
        * intros d [<-|Hd]; [exact I|apply Hdone; assumption].
        * intros e d He [<-|Hd]; [exact I|apply Hpd; assumption].
        * constructor; [|assumption]. apply Forall_forall. intros d _. exact I.
      + assert (Eal : tl_alloc_size size al = size + al - 1).
        { apply tl_alloc_nowrap; [lia|assumption|].
          destruct Hok as [->|Hok]; [|left; assumption].
          right. unfold tl_pre_error in Epre. simpl in Epre. apply orb_false_iff in Epre.
          destruct Epre as [E1 _]. apply Z.ltb_ge in E1. assumption. }
        assert (Hg : gd = true -> size + al - 1 <= na - pa).
        { intros ->. unfold tl_pre_error in Epre. simpl in Epre. apply orb_false_iff in Epre.
          destruct Epre as [_ E2]. rewrite Z.gtb_ltb in E2. apply Z.ltb_ge in E2.
          rewrite Eal in E2. rewrite wrap_small in E2 by lia. assumption. }
        cbn [act_cost] in Hnw. rewrite Eal in *.
        assert (Ew : wrap (c_pstack c + (size + al - 1)) = c_pstack c + (size + al - 1)) by (apply wrap_small; lia).
        rewrite Ew.
        constructor; cbn [c_pstack c_pend c_done].
        * lia.
        * intros e [<-|He].
          -- cbn [pend_ok]. repeat split; try assumption; lia.
          -- specialize (Hpend e He). destruct e as [t' [[o' s'] a']]. cbn [pend_ok] in *.
             repeat split; try tauto; lia.
        * intros d Hd. specialize (Hdone d Hd). destruct d as [[s' a'] [| p | |]]; cbn [done_ok] in *; try exact I.
          repeat split; try tauto; lia.
        * constructor; [|assumption]. apply Forall_forall. intros e He. specialize (Hpend e He).
          destruct e as [t' [[o' s'] a']]. cbn [pend_ok pend_iv] in *. unfold disj. simpl. left. lia.
        * intros e d [<-|He] Hd; [|apply Hpd; assumption].
          specialize (Hdone d Hd). destruct d as [[s' a'] [| p | |]]; cbn [done_ok done_blk opt_disj pend_iv] in *; try exact I.
          unfold disj. simpl. left. lia.
        * assumption.
    - (* the rest of the call *)
      destruct (pend_get (c_pend c) t) as [[[old size] al]|] eqn:Eg; [|constructor; assumption].
      apply pend_get_in in Eg. pose proof (Hpend _ Eg) as Hok. cbn [pend_ok] in Hok.
      destruct Hok as [Ho1 [Ho2 [Hs [Hal [Hnw1 [Eal Hg]]]]]].
      cbn [act_cost] in Hnw.
      assert (Hfin := TL_finish_spec gd b na pa old size al Hb Hpa Hfit Hal Hs Hnw1 Eal ltac:(lia) ltac:(lia) Hg).
      constructor; cbn [c_pstack c_pend c_done].
      + assumption.
      + intros e He. apply pend_del_in in He. apply Hpend. tauto.
      + intros d [<-|Hd]; [|apply Hdone; assumption].
        destruct Hfin as [[-> _]|[p [-> [Hm [Hlo [Hhi Hin]]]]]]; cbn [done_ok]; [exact I|].
        repeat split; try assumption; lia.
      + apply FOP_pend_del. assumption.
      + intros e d He [<-|Hd].
        * apply pend_del_in in He. destruct He as [He Hne].
          destruct Hfin as [[-> _]|[p [-> [Hm [Hlo [Hhi Hin]]]]]]; cbn [done_blk opt_disj]; [exact I|].
          destruct (ForallOrdPairs_In Hpp _ _ He Eg) as [Heq|[Hd|Hd]].
          -- subst e. simpl in Hne. contradiction.
          -- destruct e as [t' [[o' s'] a']]. unfold disj in *. cbn [pend_iv fst snd] in *. lia.
          -- destruct e as [t' [[o' s'] a']]. unfold disj in *. cbn [pend_iv fst snd] in *. lia.
        * apply pend_del_in in He. apply Hpd; tauto.
      + constructor; [|assumption]. apply Forall_forall. intros d Hd.
        unfold blocks_disj.
        destruct Hfin as [[-> _]|[p [-> [Hm [Hlo [Hhi Hin]]]]]]; cbn [done_blk]; [exact I|].
        pose proof (Hpd _ _ Eg Hd) as Hx. destruct (done_blk d) as [[lo hi]|]; cbn [opt_disj] in *; [|exact I].
        unfold disj in *. cbn [pend_iv fst snd] in *. lia.
  Qed.

  Lemma crun_CI : forall sched c, CI c -> Forall req_ok sched -> c_pstack c + total sched < W ->
    CI (crun gd b na pa c sched).
  Proof.
    induction sched as [|a r IH]; intros c HC Hreq Hnw; [assumption|].
    unfold crun in *. cbn [fold_left]. inversion Hreq; subst. cbn [total fold_right] in Hnw.
    pose proof (total_nonneg r). pose proof (act_cost_nonneg a).
    apply IH; [apply cstep_CI; try assumption; fold (total r) in Hnw; lia|assumption|].
    fold (total r) in Hnw.
    (* pstack grows by at most the cost of the action *)
    destruct a as [t size al|t]; cbn [cstep act_cost] in *.
    - destruct (pend_get (c_pend c) t); [lia|]. destruct (size =? 0); [lia|].
      destruct (tl_pre_error gd na pa size al); cbn [c_pstack]; [lia|].
      rewrite wrap_small; [lia|]. destruct HC. lia.
    - destruct (pend_get (c_pend c) t) as [[[? ?] ?]|]; cbn [c_pstack]; lia.
  Qed.

  Lemma CI_init : CI (mkcst P0 [] []).
  Proof. constructor; simpl; try contradiction; try constructor; lia. Qed.

  Theorem concurrent_safe : forall sched,
    Forall req_ok sched -> P0 + total sched < W ->
    let c := crun gd b na pa (mkcst P0 [] []) sched in
    ForallOrdPairs blocks_disj (c_done c) /\
    (forall size al p, In (size, al, RPtr p) (c_done c) ->
       p mod al = 0 /\ b + pa <= p /\ p + size <= b + na - P0).
  Proof.
    intros sched Hreq Hnw c.
    assert (HC : CI c) by (apply crun_CI; [apply CI_init|assumption|simpl; assumption]).
    destruct HC as [_ _ Hdone _ _ Hdd]. split; [assumption|].
    intros size al p Hin. specialize (Hdone _ Hin). cbn [done_ok] in Hdone. tauto.
  Qed.
End Concurrent.

(* ------------------------------------------------------------------ statements used by Props/C19.v *)
Theorem stack_block_thm : forall gs gt s g ab size al r s',
  Inv s g ab -> pow2 al -> 0 < size < W -> size_ok gs size al ->
  stack_alloc gs gt s size al = (r, s') ->
  (r = RErr /\ s' = s /\ Avail s < size + al - 1)
  \/ (exists p, r = RPtr p /\ p mod al = 0 /\ Lim s <= p /\ p + size <= Top s /\
        (forall i, In i g -> p + size <= g_lo i) /\
        (forall a n, In (a, n) ab -> a + n <= p) /\
        Top s' = p /\ pbase s' = pbase s /\ parena s' = parena s /\
        Inv s' (GB p size :: g) ab).
Proof.
  intros gs gt s g ab size al r s' HI Hal Hsz Hok Hst.
  destruct (SA_step gs gt s g ab size al HI Hal Hsz Hok) as [H|[H Hav]]; cbv zeta in H.
  - right. destruct H as [E [Hm [Hl [Hh [Ht HI']]]]]. rewrite E in Hst. inversion Hst; subst.
    eexists. split; [reflexivity|]. split; [assumption|]. split; [assumption|]. split; [assumption|].
    destruct HI as [Hwf Hlk Hstk Harn Hms Hma].
    split. { intros i Hi. destruct (stk_items _ _ _ _ _ _ Hstk Hi). lia. }
    split. { intros a n Hi. destruct (arn_items _ _ _ _ _ Harn Hi) as [? [? ?]]. lia. }
    split; [assumption|]. split; [reflexivity|]. split; [reflexivity|]. assumption.
  - left. rewrite H in Hst. inversion Hst; subst. tauto.
Qed.

Theorem arena_block_thm : forall ga s g ab bytes al r s',
  Inv s g ab -> pow2 al -> 0 <= bytes < W -> arena_ok ga s bytes al ->
  arena_alloc ga s bytes al = (r, s') ->
  (r = RNull /\ s' = s /\ Avail s < bytes + al - 1)
  \/ (exists p, r = RPtr p /\ (base s mod al = 0 -> p mod al = 0) /\ Lim s <= p /\ p + bytes <= Top s /\
        (forall i, In i g -> p + bytes <= g_lo i) /\
        (forall a n, In (a, n) ab -> a + n <= p) /\
        Lim s' = p + bytes /\ pstack s' = pstack s /\ pbase s' = pbase s /\
        Inv s' g ((p, bytes) :: ab)).
Proof.
  intros ga s g ab bytes al r s' HI Hal Hsz Hok Hst.
  destruct (AA_step ga s g ab bytes al HI Hal Hsz Hok) as [H|[H Hav]]; cbv zeta in H.
  - right. destruct H as [E [Hm [Hl [Hh [Ht HI']]]]]. rewrite E in Hst. inversion Hst; subst.
    eexists. split; [reflexivity|]. split; [assumption|]. split; [assumption|]. split; [assumption|].
    destruct HI as [Hwf Hlk Hstk Harn Hms Hma].
    split. { intros i Hi. destruct (stk_items _ _ _ _ _ _ Hstk Hi). lia. }
    split. { intros a n Hi. destruct (arn_items _ _ _ _ _ Harn Hi) as [? [? ?]]. lia. }
    split; [assumption|]. split; [reflexivity|]. split; [reflexivity|]. assumption.
  - left. rewrite H in Hst. inversion Hst; subst. tauto.
Qed.

Theorem mark_thm : forall gs s g ab r s',
  Inv s g ab -> mark gs s = (r, s') ->
  (r = RErr /\ s' = s /\ Avail s < FRAME + FALIGN - 1)
  \/ (r = RUnit /\ pbase s' mod FALIGN = 0 /\ Lim s <= pbase s' /\ pbase s' + FRAME <= Top s /\
      (forall i, In i g -> pbase s' + FRAME <= g_lo i) /\
      (forall a n, In (a, n) ab -> a + n <= pbase s') /\
      Inv s' (GF (pbase s') (pbase s) (Top s) :: g) ab).
Proof.
  intros gs s g ab r s' HI Hst.
  destruct (M_step gs s g ab HI) as [H|[H Hav]]; cbv zeta in H.
  - right. destruct H as [E [Hl [Hh [Hm HI']]]]. rewrite E in Hst. inversion Hst; subst.
    unfold mark_state at 1 2 3 4 5 6. unfold set_stack. cbn [pbase].
    split; [reflexivity|]. split; [assumption|]. split; [assumption|]. split; [assumption|].
    destruct HI as [Hwf Hlk Hstk Harn Hms Hma].
    split. { intros i Hi. destruct (stk_items _ _ _ _ _ _ Hstk Hi). lia. }
    split. { intros a n Hi. destruct (arn_items _ _ _ _ _ Harn Hi) as [? [? ?]]. lia. }
    assumption.
  - left. rewrite H in Hst. inversion Hst; subst. tauto.
Qed.

Theorem mark_free_thm : forall gs gt ga l1 s g ab s' g' ab',
  wn l1 -> Inv s g ab -> Exec gs gt ga s g ab (OMark :: l1 ++ [OFree]) s' g' ab' ->
  pstack s' = pstack s /\ pbase s' = pbase s /\ g' = g /\ Inv s' g' ab'.
Proof. intros. eapply frame_restores; try eassumption. apply wn_adds. assumption. Qed.

Theorem stats_thm : forall gs gt ga s g ab ops s' g' ab',
  Inv s g ab -> Exec gs gt ga s g ab ops s' g' ab' ->
  pstack s' <= maxs s' /\ pstack s' + parena s' <= maxa s'.
Proof. intros. destruct (Exec_inv _ _ _ _ _ _ _ _ _ _ H H0). tauto. Qed.

(* ---- the refutation witnesses (the state after mj_markStack on a fresh 256-byte arena at 4096) *)
Definition wit_s : st := mark_state (init 4096 256 0 0) 4328.
Definition wit_g : list gitem := [GF 4328 0 4352].

Lemma wit_inv : Inv wit_s wit_g [].
Proof.
  destruct (M_step false (init 4096 256 0 0) [] [] (init_inv 4096 256 ltac:(lia) ltac:(lia) ltac:(rewrite W_val; lia)))
    as [H|[H _]]; cbv zeta in H.
  - destruct H as [_ [_ [_ [_ H]]]]. exact H.
  - vm_compute in H. discriminate.
Qed.

Lemma wrap_refuted :
  exists s g ab size al p s',
    Inv s g ab /\ pow2 al /\ 0 < size < W /\ Avail s < size /\
    stack_alloc false false s size al = (RPtr p, s') /\
    Bot s < p + size /\ (exists spb t, In (GF p spb t) g) /\ s' = s.
Proof.
  exists wit_s, wit_g, [], (W - 1), 8. eexists. eexists.
  split; [exact wit_inv|]. split; [exact pow2_8|].
  split; [rewrite W_val; lia|]. split; [vm_compute; reflexivity|].
  split; [vm_compute; reflexivity|]. split; [vm_compute; reflexivity|].
  split; [|reflexivity]. exists 0, 4352. left. reflexivity.
Qed.

(* arena: after one honest 16-byte block, a request of 2^64-8 bytes succeeds and moves parena
   backwards, so that the next honest request overlaps the live block *)
Definition wit_a : st := aa_state (init 4096 256 0 0) 4096 16.

Lemma wit_a_inv : Inv wit_a [] [(4096, 16)].
Proof.
  destruct (AA_step false (init 4096 256 0 0) [] [] 16 1
              (init_inv 4096 256 ltac:(lia) ltac:(lia) ltac:(rewrite W_val; lia))
              ltac:(exists 0; split; [lia|reflexivity]) ltac:(rewrite W_val; lia)
              ltac:(left; vm_compute; discriminate)) as [H|[H _]]; cbv zeta in H.
  - destruct H as [_ [_ [_ [_ [_ H]]]]]. exact H.
  - vm_compute in H. discriminate.
Qed.

Lemma arena_wrap_refuted :
  exists s g ab bytes p s' p2 s'',
    Inv s g ab /\ 0 <= bytes < W /\ Avail s < bytes /\
    arena_alloc false s bytes 1 = (RPtr p, s') /\ parena s' < parena s /\
    arena_alloc false s' 8 1 = (RPtr p2, s'') /\
    (exists a n, In (a, n) ab /\ a <= p2 < a + n).
Proof.
  exists wit_a, [], [(4096, 16)], (W - 8). eexists. eexists. eexists. eexists.
  split; [exact wit_a_inv|]. split; [rewrite W_val; lia|]. split; [vm_compute; reflexivity|].
  split; [vm_compute; reflexivity|]. split; [vm_compute; reflexivity|].
  split; [vm_compute; reflexivity|]. exists 4096, 16. split; [left; reflexivity|lia].
Qed.

(* thread-lock branch: with a live 16-byte block at the top, a request of 2^64-1 bytes returns the
   address of that block *)
Definition wit_t : st := sa_state (init 4096 256 0 0) 4336.
Definition lock (s : st) : st :=
  mkst (base s) (narena s) (parena s) (pstack s) (pbase s) (maxs s) (maxa s) true (mem s).

Lemma wit_t_inv : Inv wit_t [GB 4336 16] [].
Proof.
  destruct (SA_step false false (init 4096 256 0 0) [] [] 16 8
              (init_inv 4096 256 ltac:(lia) ltac:(lia) ltac:(rewrite W_val; lia))
              pow2_8 ltac:(rewrite W_val; lia) ltac:(right; rewrite W_val; lia)) as [H|[H _]]; cbv zeta in H.
  - destruct H as [_ [_ [_ [_ [_ H]]]]]. exact H.
  - vm_compute in H. discriminate.
Qed.

Lemma tl_wrap_refuted :
  exists s g ab size p s',
    Inv s g ab /\ 0 < size < W /\ Avail s < size /\
    stack_alloc false false (lock s) size 8 = (RPtr p, s') /\
    (exists n, In (GB p n) g) /\ Bot s < p + size.
Proof.
  exists wit_t, [GB 4336 16], [], (W - 1). eexists. eexists.
  split; [exact wit_t_inv|]. split; [rewrite W_val; lia|]. split; [vm_compute; reflexivity|].
  split; [vm_compute; reflexivity|]. split; [exists 16; left; reflexivity|vm_compute; reflexivity].
Qed.

(* ---- instances stated in Props/C19.v *)
Lemma c19_stack_block_partial_lem :
  forall gt s g ab size al r s',
    Inv s g ab -> pow2 al -> 0 < size < W -> size + al <= W ->
    stack_alloc false gt s size al = (r, s') ->
    (r = RErr /\ s' = s /\ Avail s < size + al - 1)
    \/ (exists p, r = RPtr p /\ p mod al = 0 /\ Lim s <= p /\ p + size <= Top s /\
          (forall i, In i g -> p + size <= g_lo i) /\
          (forall a n, In (a, n) ab -> a + n <= p) /\
          Top s' = p /\ pbase s' = pbase s /\ parena s' = parena s /\
          Inv s' (GB p size :: g) ab).
Proof. intros. eapply stack_block_thm; try eassumption. right. assumption. Qed.

Lemma c19_stack_block_guarded_lem :
  forall gt s g ab size al r s',
    Inv s g ab -> pow2 al -> 0 < size < W ->
    stack_alloc true gt s size al = (r, s') ->
    (r = RErr /\ s' = s /\ Avail s < size + al - 1)
    \/ (exists p, r = RPtr p /\ p mod al = 0 /\ Lim s <= p /\ p + size <= Top s /\
          (forall i, In i g -> p + size <= g_lo i) /\
          (forall a n, In (a, n) ab -> a + n <= p) /\
          Top s' = p /\ pbase s' = pbase s /\ parena s' = parena s /\
          Inv s' (GB p size :: g) ab).
Proof. intros. eapply stack_block_thm; try eassumption. left. reflexivity. Qed.

Lemma c19_arena_block_partial_lem :
  forall s g ab bytes al r s',
    Inv s g ab -> pow2 al -> 0 <= bytes < W -> bytes + al + parena s <= W ->
    arena_alloc false s bytes al = (r, s') ->
    (r = RNull /\ s' = s /\ Avail s < bytes + al - 1)
    \/ (exists p, r = RPtr p /\ (base s mod al = 0 -> p mod al = 0) /\ Lim s <= p /\ p + bytes <= Top s /\
          (forall i, In i g -> p + bytes <= g_lo i) /\
          (forall a n, In (a, n) ab -> a + n <= p) /\
          Lim s' = p + bytes /\ pstack s' = pstack s /\ pbase s' = pbase s /\
          Inv s' g ((p, bytes) :: ab)).
Proof. intros. eapply arena_block_thm; try eassumption. left. assumption. Qed.

Lemma c19_arena_block_guarded_lem :
  forall s g ab bytes al r s',
    Inv s g ab -> pow2 al -> 0 <= bytes < W -> al + narena s <= W ->
    arena_alloc true s bytes al = (r, s') ->
    (r = RNull /\ s' = s /\ Avail s < bytes + al - 1)
    \/ (exists p, r = RPtr p /\ (base s mod al = 0 -> p mod al = 0) /\ Lim s <= p /\ p + bytes <= Top s /\
          (forall i, In i g -> p + bytes <= g_lo i) /\
          (forall a n, In (a, n) ab -> a + n <= p) /\
          Lim s' = p + bytes /\ pstack s' = pstack s /\ pbase s' = pbase s /\
          Inv s' g ((p, bytes) :: ab)).
Proof. intros. eapply arena_block_thm; try eassumption. right. split; [reflexivity|assumption]. Qed.

Lemma c19_exhaust_stack_partial_lem :
  forall gt s g ab size al,
    Inv s g ab -> pow2 al -> 0 < size < W -> size + al <= W -> Avail s < size ->
    stack_alloc false gt s size al = (RErr, s).
Proof. intros. eapply SA_exhaust; try eassumption. right. assumption. Qed.

Lemma c19_exhaust_stack_guarded_lem :
  forall gt s g ab size al,
    Inv s g ab -> pow2 al -> 0 < size < W -> Avail s < size ->
    stack_alloc true gt s size al = (RErr, s).
Proof. intros. eapply SA_exhaust; try eassumption. left. reflexivity. Qed.

Lemma c19_exhaust_arena_partial_lem :
  forall s g ab bytes al,
    Inv s g ab -> pow2 al -> 0 <= bytes < W -> bytes + al + parena s <= W -> Avail s < bytes ->
    arena_alloc false s bytes al = (RNull, s).
Proof. intros. eapply AA_exhaust; try eassumption. left. assumption. Qed.

Lemma c19_exhaust_arena_guarded_lem :
  forall s g ab bytes al,
    Inv s g ab -> pow2 al -> 0 <= bytes < W -> al + narena s <= W -> Avail s < bytes ->
    arena_alloc true s bytes al = (RNull, s).
Proof. intros. eapply AA_exhaust; try eassumption. right. split; [reflexivity|assumption]. Qed.

Lemma c19_concurrent_lem :
  forall gd b na pa P0, 0 < b -> 0 <= pa <= na -> b + na < W -> 0 <= P0 ->
  forall sched,
    Forall (req_ok gd) sched -> P0 + total sched < W ->
    let c := crun gd b na pa (mkcst P0 [] []) sched in
    ForallOrdPairs (blocks_disj) (c_done c) /\
    (forall size al p, In (size, al, RPtr p) (c_done c) ->
       p mod al = 0 /\ b + pa <= p /\ p + size <= b + na - P0).
Proof. intros. apply concurrent_safe; assumption. Qed.
