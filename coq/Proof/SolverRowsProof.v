(* Bridge between the row loop of the C12 model (constraint_update of Model/ConstraintUpdate.v) and the
   separable cost of Proof/SolverProof.v: for row compositions without elliptic blocks the cost returned by
   constraint_update is the sum of the row-kernel costs and its force vector is the list of row-kernel forces.
   Consequence: first-order optimality for the cost function of the model itself (Props/C10.v). *)
From Coq Require Import ZArith List Bool Reals Lra Lia.
From Coquelicot Require Import Coquelicot.
From MJV Require Import Lib.Num Lib.NumR Model.ConstraintUpdate Model.ConstraintUpdateSpec
                        Proof.ConstraintUpdateProof Model.Solver Model.SolverSpec Proof.SolverProof.
Import ListNotations.
Open Scope R_scope.

Fixpoint rows_cost (ne nf : Z) (i : Z) (rows : list (@rowdesc R)) (jar : list R) : R :=
  match rows, jar with
  | row :: rows', x :: jar' => rk_cost (kind_at ne nf i row) x + rows_cost ne nf (i + 1)%Z rows' jar'
  | _, _ => 0
  end.
Fixpoint rows_force (ne nf : Z) (i : Z) (rows : list (@rowdesc R)) (jar : list R) : list R :=
  match rows, jar with
  | row :: rows', x :: jar' => rk_force (kind_at ne nf i row) x :: rows_force ne nf (i + 1)%Z rows' jar'
  | _, _ => []
  end.

Lemma cu_loop_scalar : forall (fuel : nat) (flg : bool) (ne nf : Z) (con : list (@contact R)) (i : Z)
                              (rows : list (@rowdesc R)) (jar : list R),
  (length rows <= fuel)%nat -> length jar = length rows ->
  (forall row : @rowdesc R, In row rows -> row_not_elliptic row) ->
  exists (sts : list Z) (hs : list (list R)),
    cu_loop fuel flg ne nf con i 0 rows jar = Some (rows_cost ne nf i rows jar, rows_force ne nf i rows jar, sts, hs).
Proof.
  induction fuel as [|fuel IH]; intros flg ne nf con i rows jar Hf Hl Hne.
  - destruct rows; [|simpl in Hf; lia]. destruct jar; [|discriminate]. exists [], []. reflexivity.
  - destruct rows as [|[[[[D Rr] fl] tp] id] rows]; destruct jar as [|x jar]; try discriminate.
    { exists [], []. reflexivity. }
    simpl in Hf, Hl.
    assert (Hne' : forall row : @rowdesc R, In row rows -> row_not_elliptic row) by (intros; apply Hne; right; assumption).
    assert (Ht : (tp =? CT_ELLIPTIC)%Z = false) by (apply (Hne (D, Rr, fl, tp, id)); left; reflexivity).
    cbn [cu_loop rows_cost rows_force kind_at].
    destruct (i <? ne)%Z.
    { rewrite (row_eq_tuple 0). rewrite cu_loop_acc.
      destruct (IH flg ne nf con (i + 1)%Z rows jar ltac:(lia) ltac:(lia) Hne') as (sts & hs & E). rewrite E.
      exists (snd (row_eq 0 D x) :: sts), hs. cbn [shift res_cons rk_cost rk_force]. unfold r_cost, r_force. rewrite Rplus_0_l. reflexivity. }
    destruct (i <? ne + nf)%Z.
    { rewrite (row_fric_tuple 0). rewrite cu_loop_acc.
      destruct (IH flg ne nf con (i + 1)%Z rows jar ltac:(lia) ltac:(lia) Hne') as (sts & hs & E). rewrite E.
      exists (snd (row_fric 0 D Rr fl x) :: sts), hs. cbn [shift res_cons rk_cost rk_force]. unfold r_cost, r_force. rewrite Rplus_0_l. reflexivity. }
    rewrite Ht. cbn [negb].
    rewrite (row_uni_tuple 0). rewrite cu_loop_acc.
    destruct (IH flg ne nf con (i + 1)%Z rows jar ltac:(lia) ltac:(lia) Hne') as (sts & hs & E). rewrite E.
    exists (snd (row_uni 0 D x) :: sts), hs. cbn [shift res_cons rk_cost rk_force]. unfold r_cost, r_force. rewrite Rplus_0_l. reflexivity.
Qed.

Lemma scalar_rows_not_elliptic (ne nf : Z) : forall (rows : list (@rowdesc R)) (i : Z),
  scalar_rows_ok ne nf i rows -> forall row : @rowdesc R, In row rows -> row_not_elliptic row.
Proof.
  induction rows as [|r rows IH]; intros i H row Hin; [contradiction|].
  destruct H as (H1 & _ & H3). destruct Hin as [<-|Hin]; [assumption|]. apply (IH (i + 1)%Z H3 row Hin).
Qed.

Lemma sumn_shift (n : nat) (g : nat -> R) : sumn (S n) g = g 0%nat + sumn n (fun r => g (S r)).
Proof.
  induction n as [|n IH]; [simpl; ring|].
  change (sumn (S (S n)) g) with (sumn (S n) g + g (S n)). rewrite IH. simpl. ring.
Qed.

Definition dflt_row : @rowdesc R := (0, 0, 0, 0%Z, 0%Z).

Lemma rows_cost_sum (ne nf : Z) (x : vec) : forall (rows : list (@rowdesc R)) (i : Z) (k : nat),
  rows_cost ne nf i rows (map x (seq k (length rows))) =
  sumn (length rows) (fun r => rk_cost (kind_at ne nf (i + Z.of_nat r)%Z (nth r rows dflt_row)) (x (k + r)%nat)).
Proof.
  induction rows as [|row rows IH]; intros i k; [reflexivity|].
  cbn [length seq map rows_cost]. rewrite sumn_shift. rewrite (IH (i + 1)%Z (S k)).
  f_equal.
  - simpl. rewrite Z.add_0_r, Nat.add_0_r. reflexivity.
  - apply sumn_ext. intros r _. cbn [nth].
    replace (i + 1 + Z.of_nat r)%Z with (i + Z.of_nat (S r))%Z by lia.
    replace (S k + r)%nat with (k + S r)%nat by lia. reflexivity.
Qed.

Lemma rows_force_nth (ne nf : Z) (x : vec) : forall (rows : list (@rowdesc R)) (i : Z) (k r : nat),
  (r < length rows)%nat ->
  nth r (rows_force ne nf i rows (map x (seq k (length rows)))) 0 =
  rk_force (kind_at ne nf (i + Z.of_nat r)%Z (nth r rows dflt_row)) (x (k + r)%nat).
Proof.
  induction rows as [|row rows IH]; intros i k r Hr; [simpl in Hr; lia|].
  cbn [length seq map rows_force]. destruct r as [|r].
  - simpl. rewrite Z.add_0_r, Nat.add_0_r. reflexivity.
  - cbn [nth]. simpl in Hr. rewrite (IH (i + 1)%Z (S k) r ltac:(lia)).
    replace (i + 1 + Z.of_nat r)%Z with (i + Z.of_nat (S r))%Z by lia.
    replace (S k + r)%nat with (k + S r)%nat by lia. reflexivity.
Qed.

Lemma scalar_rows_ok_nth (ne nf : Z) : forall (rows : list (@rowdesc R)) (i : Z) (r : nat),
  scalar_rows_ok ne nf i rows -> (r < length rows)%nat ->
  rk_ok (kind_at ne nf (i + Z.of_nat r)%Z (nth r rows dflt_row)).
Proof.
  induction rows as [|row rows IH]; intros i r H Hr; [simpl in Hr; lia|].
  destruct H as (_ & H2 & H3). destruct r as [|r].
  - simpl. rewrite Z.add_0_r. assumption.
  - cbn [nth]. simpl in Hr. replace (i + Z.of_nat (S r))%Z with ((i + 1) + Z.of_nat r)%Z by lia.
    apply IH; [assumption|lia].
Qed.

Lemma mulMTV_ext (m : nat) (J : mat) (y z : vec) : eqn m y z -> forall j : nat, mulMTV m J y j = mulMTV m J z j.
Proof. intros E j. unfold mulMTV. apply sumn_ext. intros i Hi. rewrite (E i Hi). reflexivity. Qed.

(* first-order optimality for the cost and force functions of the model of mj_constraintUpdate_impl itself *)
Lemma constraint_update_optimal (n : nat) (M J : mat) (a0 aref : vec) (ne nf : Z) (con : list (@contact R))
                                (rows : list (@rowdesc R)) :
  symmetric n M -> posdef n M -> scalar_rows_ok ne nf 0 rows ->
  forall a : vec,
    eqn n (mulMV n M (vsub a a0))
          (mulMTV (length rows) J (cu_force_fn ne nf con rows (vsub (mulMV n J a) aref))) ->
    forall b : vec,
      objective n (length rows) M J a0 aref (cu_cost_fn ne nf con rows) a <=
      objective n (length rows) M J a0 aref (cu_cost_fn ne nf con rows) b /\
      (objective n (length rows) M J a0 aref (cu_cost_fn ne nf con rows) b <=
       objective n (length rows) M J a0 aref (cu_cost_fn ne nf con rows) a -> eqn n b a).
Proof.
  intros Msym Mpd Hok a Hst b.
  set (m := length rows) in *.
  set (kinds := fun r : nat => kind_at ne nf (Z.of_nat r) (nth r rows dflt_row)).
  assert (Hcost : forall x : vec, cu_cost_fn ne nf con rows x = sep_cost m (fun r => rk_cost (kinds r)) x).
  { intros x. unfold cu_cost_fn, constraint_update. num_R.
    destruct (cu_loop_scalar (length rows) false ne nf con 0 rows (map x (seq 0 (length rows))) (le_n _)
                             ltac:(rewrite map_length, seq_length; reflexivity)
                             (scalar_rows_not_elliptic ne nf rows 0 Hok)) as (sts & hs & E).
    rewrite E. rewrite (rows_cost_sum ne nf x rows 0 0). unfold sep_cost, m, kinds. apply sumn_ext. intros r _.
    repeat f_equal. }
  assert (Hforce : forall (x : vec) (r : nat), (r < m)%nat ->
                     cu_force_fn ne nf con rows x r = sep_force (fun r => rk_force (kinds r)) x r).
  { intros x r Hr. unfold cu_force_fn, constraint_update. num_R.
    destruct (cu_loop_scalar (length rows) false ne nf con 0 rows (map x (seq 0 (length rows))) (le_n _)
                             ltac:(rewrite map_length, seq_length; reflexivity)
                             (scalar_rows_not_elliptic ne nf rows 0 Hok)) as (sts & hs & E).
    rewrite E. rewrite (rows_force_nth ne nf x rows 0 0 r Hr). unfold sep_force, kinds. repeat f_equal. }
  unfold objective. rewrite !Hcost.
  apply (scalar_rows_optimal n m M J a0 aref kinds Msym Mpd).
  - intros r Hr. unfold kinds. replace (Z.of_nat r) with (0 + Z.of_nat r)%Z by lia.
    apply scalar_rows_ok_nth; assumption.
  - intros i Hi. rewrite (Hst i Hi). apply mulMTV_ext. intros r Hr. apply Hforce. assumption.
Qed.
