(* Proofs about Model/Ray.v: elimination rule, nearest-hit selection (any ordered distance type),
   multi-ray = map of single rays under a sound pre-filter, ray_quad / sphere / plane / box over R. *)
From Coq Require Import List ZArith Bool Lia.
From MJV Require Import Model.Ray.
Import ListNotations.
Open Scope Z_scope.

(* ================================================================== elimination rule *)
Lemma ray_eliminate_rule bodyid bodyexclude matid ga0 ma0 flg weld gg group :
  ray_eliminate bodyid bodyexclude matid ga0 ma0 flg weld gg group = true <->
  (bodyid = bodyexclude \/
   (matid < 0 /\ ga0 = true) \/
   (0 <= matid /\ ma0 = true) \/
   (flg = false /\ weld = 0) \/
   (exists l, gg = Some l /\ nth (Z.to_nat (Z.min 5 (Z.max 0 group))) l 0 = 0)).
Proof.
  assert (Hex : (exists l, gg = Some l /\ nth (Z.to_nat (Z.min 5 (Z.max 0 group))) l 0 = 0) <->
                match gg with None => False | Some l => nth (Z.to_nat (Z.min 5 (Z.max 0 group))) l 0 = 0 end).
  { destruct gg as [l|]; split.
    - intros (l' & E & H). injection E as E; subst. exact H.
    - intro H. exists l. auto.
    - intros (l' & E & _). discriminate.
    - intros []. }
  rewrite Hex. clear Hex. unfold ray_eliminate.
  destruct (Z.eqb_spec bodyid bodyexclude); [tauto|].
  destruct (Z.ltb_spec matid 0); destruct (Z.leb_spec 0 matid); try lia;
  destruct ga0; destruct ma0; destruct flg; simpl; try solve [intuition (try lia; try discriminate)];
  destruct (Z.eqb_spec weld 0); simpl; try solve [intuition (try lia; try discriminate)];
  destruct gg as [l|]; try solve [intuition (try lia; try discriminate)];
  rewrite Z.eqb_eq; intuition (try lia; try discriminate).
Qed.

(* ================================================================== selection *)
Section SelectProof.
Variable D : Type.
Variable dcmp : D -> D -> Z.
Variable zero minus1 : D.
Hypothesis dcmp_anti : forall a b, dcmp a b < 0 <-> 0 < dcmp b a.
Hypothesis dcmp_trans : forall a b c, dcmp a b <= 0 -> dcmp b c <= 0 -> dcmp a c <= 0.
Hypothesis minus1_neg : dcmp minus1 zero < 0.

Notation ray_step := (ray_step D dcmp zero).
Notation ray_loop := (ray_loop D dcmp zero).
Notation ray_select := (ray_select D dcmp zero minus1).

Lemma dcmp_refl a : dcmp a a = 0.
Proof.
  destruct (Z.lt_trichotomy (dcmp a a) 0) as [H | [H | H]]; [|exact H|].
  - pose proof H as H'. apply dcmp_anti in H'. lia.
  - pose proof H as H'. apply dcmp_anti in H'. lia.
Qed.

Lemma dcmp_ge_le a b : 0 <= dcmp a b -> dcmp b a <= 0.
Proof.
  intro H. destruct (Z.eq_dec (dcmp a b) 0) as [E | N].
  - destruct (Z.lt_trichotomy (dcmp b a) 0) as [L | [L | L]]; [lia | lia|].
    apply dcmp_anti in L. lia.
  - assert (L : 0 < dcmp a b) by lia. apply dcmp_anti in L. lia.
Qed.

Lemma dcmp_lt_le_trans a b c : dcmp a b < 0 -> dcmp b c <= 0 -> dcmp a c < 0.
Proof.
  intros H1 H2. destruct (Z_lt_ge_dec (dcmp a c) 0) as [L | G]; [exact L|].
  exfalso. assert (H3 : dcmp c a <= 0) by (apply dcmp_ge_le; lia).
  pose proof (dcmp_trans _ _ _ H2 H3) as H4. apply dcmp_anti in H1. lia.
Qed.

(* a geom that is not eliminated and reports a non-negative distance *)
Definition is_hit (g : bool * D) : Prop := fst g = false /\ 0 <= dcmp (snd g) zero.

(* state after a prefix: nothing hit yet, or the best hit so far (least distance, first index) *)
Definition sel_inv (pre : list (bool * D)) (cur : D * Z) : Prop :=
  (snd cur = -1 /\ fst cur = minus1 /\ forall g, In g pre -> ~ is_hit g) \/
  (exists n g, snd cur = Z.of_nat n /\ nth_error pre n = Some g /\ is_hit g /\ snd g = fst cur /\
     forall m g', nth_error pre m = Some g' -> is_hit g' ->
       dcmp (fst cur) (snd g') <= 0 /\ ((m < n)%nat -> dcmp (fst cur) (snd g') < 0)).

Lemma nth_error_snoc {A} (l : list A) x m y :
  nth_error (l ++ [x]) m = Some y -> (nth_error l m = Some y /\ (m < length l)%nat) \/ (m = length l /\ y = x).
Proof.
  intro H. destruct (Nat.lt_ge_cases m (length l)) as [L | G].
  - left. rewrite nth_error_app1 in H by assumption. auto.
  - right. rewrite nth_error_app2 in H by assumption.
    destruct (m - length l)%nat as [|k] eqn:E; simpl in H.
    + injection H as H. split; [lia | auto].
    + destruct k; discriminate.
Qed.

Lemma sel_keep pre cur g : ~ is_hit g -> sel_inv pre cur -> sel_inv (pre ++ [g]) cur.
Proof.
  intros Hnh [(H1 & H2 & H3) | (n & g0 & H1 & H2 & H3 & H4 & H5)].
  - left. split; [assumption|]. split; [assumption|].
    intros g' Hg. apply in_app_or in Hg. destruct Hg as [Hg | [Hg | []]]; [auto | subst; assumption].
  - right. exists n, g0. split; [assumption|]. split.
    { rewrite nth_error_app1; [assumption | apply nth_error_Some; congruence]. }
    split; [assumption|]. split; [assumption|].
    intros m g' Hm Hh. apply nth_error_snoc in Hm. destruct Hm as [[Hm _] | [_ Hm]]; [eauto|].
    subst. contradiction.
Qed.

Lemma sel_step pre cur g : sel_inv pre cur ->
  sel_inv (pre ++ [g]) (ray_step cur (Z.of_nat (length pre)) g).
Proof.
  intro Hinv. unfold Ray.ray_step.
  destruct g as [e nd]. simpl. destruct e.
  { apply sel_keep; [|assumption]. intros [Hf _]. discriminate. }
  unfold dge0, dlt, dlt0.
  destruct (Z.leb_spec 0 (dcmp nd zero)) as [Hge | Hlt]; simpl.
  2:{ apply sel_keep; [|assumption]. intros [_ Hf]. simpl in Hf. lia. }
  destruct Hinv as [(H1 & H2 & H3) | (n & g & H1 & H2 & H3 & H4 & H5)].
  - (* first hit *)
    rewrite H2. destruct (Z.ltb_spec (dcmp minus1 zero) 0) as [_ | Hc]; [|lia]. rewrite orb_true_r.
    right. exists (length pre), (false, nd). simpl.
    split; [reflexivity|]. split.
    { rewrite nth_error_app2 by lia. rewrite Nat.sub_diag. reflexivity. }
    split; [split; [reflexivity | assumption]|]. split; [reflexivity|].
    intros m g' Hm Hh. apply nth_error_snoc in Hm. destruct Hm as [[Hm _] | [Hm E]].
    + exfalso. apply (H3 g'); [eapply nth_error_In; eassumption | assumption].
    + subst. simpl. rewrite dcmp_refl. split; [lia | intro; lia].
  - (* a hit is already recorded *)
    assert (Hn : (n < length pre)%nat) by (apply nth_error_Some; congruence).
    destruct H3 as [Hf Hr]. rewrite H4 in Hr.
    destruct (Z.ltb_spec (dcmp (fst cur) zero) 0) as [Hc | Hc]; [lia|]. rewrite orb_false_r.
    destruct (Z.ltb_spec (dcmp nd (fst cur)) 0) as [Hb | Hb].
    + (* strictly better: replace *)
      right. exists (length pre), (false, nd). simpl.
      split; [reflexivity|]. split.
      { rewrite nth_error_app2 by lia. rewrite Nat.sub_diag. reflexivity. }
      split; [split; [reflexivity | assumption]|]. split; [reflexivity|].
      intros m g' Hm Hh. apply nth_error_snoc in Hm. destruct Hm as [[Hm _] | [Hm E]].
      * destruct (H5 m g' Hm Hh) as [L _]. pose proof (dcmp_lt_le_trans _ _ _ Hb L). split; [lia | intro; assumption].
      * subst. simpl. rewrite dcmp_refl. split; [lia | intro; lia].
    + (* not better: keep *)
      right. exists n, g. split; [assumption|]. split.
      { rewrite nth_error_app1 by assumption. assumption. }
      split; [split; [assumption | rewrite H4; assumption]|]. split; [assumption|].
      intros m g' Hm Hh. apply nth_error_snoc in Hm. destruct Hm as [[Hm _] | [Hm E]]; [apply (H5 m g' Hm Hh)|].
      subst. simpl. split; [apply dcmp_ge_le; assumption | intro; lia].
Qed.

Lemma sel_loop : forall rest pre cur, sel_inv pre cur ->
  sel_inv (pre ++ rest) (ray_loop cur (Z.of_nat (length pre)) rest).
Proof.
  induction rest as [|g r IH]; intros pre cur Hinv; simpl.
  - rewrite app_nil_r. exact Hinv.
  - replace (pre ++ g :: r) with ((pre ++ [g]) ++ r) by (rewrite <- app_assoc; reflexivity).
    replace (Z.of_nat (length pre) + 1) with (Z.of_nat (length (pre ++ [g]))) by (rewrite app_length; simpl; lia).
    apply IH. apply sel_step. exact Hinv.
Qed.

Theorem select_spec gs :
  sel_inv gs (ray_select gs).
Proof.
  unfold Ray.ray_select. apply (sel_loop gs [] (minus1, -1)).
  left. simpl. repeat split; try reflexivity. intros g [].
Qed.

(* the statement in plain terms *)
Theorem select_full gs :
  let r := fst (ray_select gs) in
  let id := snd (ray_select gs) in
  (id = -1 <-> forall g, In g gs -> fst g = false -> dcmp (snd g) zero < 0) /\
  (id = -1 -> r = minus1) /\
  (id <> -1 ->
     exists n g, id = Z.of_nat n /\ nth_error gs n = Some g /\ fst g = false /\ snd g = r /\ 0 <= dcmp r zero /\
       forall m g', nth_error gs m = Some g' -> fst g' = false -> 0 <= dcmp (snd g') zero ->
         dcmp r (snd g') <= 0 /\ ((m < n)%nat -> dcmp r (snd g') < 0)).
Proof.
  intros r id. subst r id. destruct (select_spec gs) as [(H1 & H2 & H3) | (n & g & H1 & H2 & H3 & H4 & H5)].
  - split; [|split].
    + split; [|intros _; exact H1]. intros _ g Hg Hf.
      destruct (Z_lt_ge_dec (dcmp (snd g) zero) 0) as [L | G]; [exact L|]. exfalso. apply (H3 g Hg). split; [assumption | lia].
    + intros _. exact H2.
    + intro Hn. contradiction.
  - split; [|split].
    + split.
      * intro E. rewrite H1 in E. lia.
      * intro Hall. exfalso. destruct H3 as [Hf Hr]. specialize (Hall g (nth_error_In _ _ H2) Hf). lia.
    + intro E. rewrite H1 in E. lia.
    + intros _. exists n, g. destruct H3 as [Hf Hr]. rewrite H4 in Hr. repeat split; try assumption.
      * apply (H5 m g' H); split; assumption.
      * apply (H5 m g' H); split; assumption.
Qed.

(* ---------- multi-ray: culling geoms that are eliminated anyway or report < 0 changes nothing *)
Lemma step_cull cur i p e d :
  (p = true -> e = true \/ dcmp d zero < 0) ->
  ray_step cur i (p || e, d) = ray_step cur i (e, d).
Proof.
  intro H. unfold Ray.ray_step. simpl. destruct p; simpl; [|reflexivity].
  destruct (H eq_refl) as [E | L]; [subst; reflexivity|].
  destruct e; [reflexivity|]. unfold dge0.
  destruct (Z.leb_spec 0 (dcmp d zero)); [lia | reflexivity].
Qed.

Lemma loop_cull : forall pre gs cur i,
  Forall2 (fun p (g : bool * D) => p = true -> fst g = true \/ dcmp (snd g) zero < 0) pre gs ->
  ray_loop cur i (map (fun pg => (fst pg || fst (snd pg), snd (snd pg))) (combine pre gs)) = ray_loop cur i gs.
Proof.
  intros pre gs cur i HF. revert cur i. induction HF as [|p g pre gs Hpg HF IH]; intros cur i; simpl; [reflexivity|].
  destruct g as [e d]. simpl in *. rewrite (step_cull cur i p e d Hpg). apply IH.
Qed.

Theorem single_ray_sound pre gs :
  Forall2 (fun p (g : bool * D) => p = true -> fst g = true \/ dcmp (snd g) zero < 0) pre gs ->
  single_ray D dcmp zero minus1 pre gs = ray_select gs.
Proof. intro H. unfold single_ray, Ray.ray_select. apply loop_cull. exact H. Qed.

Theorem multi_ray_sound elim rays :
  (forall r, In r rays ->
     Forall2 (fun p (g : bool * D) => p = true -> fst g = true \/ dcmp (snd g) zero < 0) (fst r) (combine elim (snd r))) ->
  multi_ray D dcmp zero minus1 elim rays = multi_ray_ref D dcmp zero minus1 elim rays.
Proof.
  intro H. unfold multi_ray, multi_ray_ref. apply map_ext_in. intros r Hr. apply single_ray_sound. apply H. exact Hr.
Qed.

End SelectProof.

Lemma zcmp_anti : forall a b, zcmp a b < 0 <-> 0 < zcmp b a.
Proof. intros a b. unfold zcmp. lia. Qed.
Lemma zcmp_trans : forall a b c, zcmp a b <= 0 -> zcmp b c <= 0 -> zcmp a c <= 0.
Proof. intros a b c. unfold zcmp. lia. Qed.
