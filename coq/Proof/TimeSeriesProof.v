(* C48 — proofs about Model/TimeSeries.v. *)
From Coq Require Import ZArith List Bool PrimFloat Reals Lra Lia Psatz.
From MJV Require Import Lib.Num Lib.NumR Model.TimeSeries.
Import ListNotations.
Open Scope R_scope.

(* ---------------------------------------------------------------- linear interpolation (R) *)
Lemma lerp_between xlo ylo xhi yhi t :
  xlo < xhi -> xlo <= t <= xhi ->
  Rmin ylo yhi <= lerp xlo ylo xhi yhi t <= Rmax ylo yhi.
Proof.
  intros Hx (Hl & Hh). unfold lerp. num_R.
  set (w := (t - xlo) / (xhi - xlo)).
  assert (W : (xhi - t) / (xhi - xlo) = 1 - w) by (unfold w; field; lra).
  rewrite W.
  assert (w0 : 0 <= w) by (unfold w; apply Rmult_le_pos; [lra | left; apply Rinv_0_lt_compat; lra]).
  assert (w1 : w <= 1).
  { unfold w. apply (Rmult_le_reg_r (xhi - xlo)); [lra|]. unfold Rdiv. rewrite Rmult_assoc, Rinv_l by lra. lra. }
  unfold Rmin, Rmax. destruct (Rle_dec ylo yhi); split; nra.
Qed.

Lemma lerp_at_lo xlo ylo xhi yhi : xlo < xhi -> lerp xlo ylo xhi yhi xlo = ylo.
Proof. intros. unfold lerp. num_R. field. lra. Qed.
Lemma lerp_at_hi xlo ylo xhi yhi : xlo < xhi -> lerp xlo ylo xhi yhi xhi = yhi.
Proof. intros. unfold lerp. num_R. field. lra. Qed.

(* strictly increasing abscissae *)
Fixpoint incr (x0 : R) (rest : list (R * R)) : Prop :=
  match rest with [] => True | (x1, _) :: r => x0 < x1 /\ incr x1 r end.
Definition incr_knots (k : list (R * R)) : Prop := match k with [] => True | (x0, _) :: r => incr x0 r end.

Lemma incr_lt x0 rest : incr x0 rest -> forall x y, In (x, y) rest -> x0 < x.
Proof.
  revert x0. induction rest as [| (x1, y1) r IH]; intros x0 Hi x y Hin; [inversion Hin|].
  destruct Hi as (H01 & Hr). destruct Hin as [E | Hin]; [inversion E; subst; assumption|].
  specialize (IH x1 Hr x y Hin). lra.
Qed.

Lemma last_indep {A} (l : list A) : l <> [] -> forall d d', last l d = last l d'.
Proof.
  induction l as [| a l IH]; intros Hne d d'; [congruence|].
  destruct l as [| b l]; [reflexivity|]. change (last (b :: l) d = last (b :: l) d'). apply IH. discriminate.
Qed.
Lemma last_cons_ne {A} (a : A) (l : list A) d : l <> [] -> last (a :: l) d = last l d.
Proof. destruct l; [congruence | reflexivity]. Qed.

Lemma walk_between rest : forall x0 y0 t,
  incr x0 rest -> rest <> [] -> x0 <= t -> t <= fst (last rest (x0, y0)) ->
  exists l1 l2 a b, (x0, y0) :: rest = l1 ++ a :: b :: l2 /\ fst a <= t <= fst b /\
    Rmin (snd a) (snd b) <= interp_walk x0 y0 rest t <= Rmax (snd a) (snd b).
Proof.
  induction rest as [| (x1, y1) r IH]; intros x0 y0 t Hi Hne H0 Hl; [congruence|].
  destruct Hi as (H01 & Hr). cbn [interp_walk]. num_R.
  destruct (Rleb t x1) eqn:E.
  - apply Rleb_true in E. exists [], r, (x0, y0), (x1, y1). cbn. split; [reflexivity|]. split; [lra|].
    apply lerp_between; lra.
  - apply Rleb_false in E.
    assert (Hr0 : r <> []).
    { intros ->. cbn in Hl. lra. }
    assert (Hl' : t <= fst (last r (x1, y1))).
    { rewrite last_cons_ne in Hl by assumption. rewrite (last_indep r Hr0 (x1, y1) (x0, y0)). exact Hl. }
    destruct (IH x1 y1 t Hr Hr0 (Rlt_le _ _ E) Hl') as (l1 & l2 & a & b & Eq & Hab & Hres).
    exists ((x0, y0) :: l1), l2, a, b. split; [cbn; rewrite Eq; reflexivity|]. split; assumption.
Qed.

(* linear interpolation stays within the range of the two neighbouring samples *)
Lemma interp_between knots t :
  incr_knots knots -> (2 <= length knots)%nat ->
  fst (hd (0, 0) knots) <= t <= fst (last knots (0, 0)) ->
  exists l1 l2 a b, knots = l1 ++ a :: b :: l2 /\ fst a <= t <= fst b /\
    Rmin (snd a) (snd b) <= interp knots t <= Rmax (snd a) (snd b).
Proof.
  destruct knots as [| (x0, y0) rest]; cbn [length]; intros Hi Hn (H0 & Hl); [lia|].
  destruct rest as [| p r]; [cbn in Hn; lia|].
  cbn [hd fst] in H0. unfold interp. num_R.
  destruct (Rltb t x0) eqn:E; [apply Rltb_true in E; lra|].
  apply walk_between; try assumption; try discriminate.
  rewrite last_cons_ne in Hl by discriminate.
  rewrite (last_indep (p :: r) ltac:(discriminate) (x0, y0) (0, 0)). exact Hl.
Qed.

(* outside the range: the first / the last sample *)
Lemma interp_below x0 y0 rest t : t < x0 -> interp ((x0, y0) :: rest) t = y0.
Proof. intros Ht. unfold interp. num_R. destruct (Rltb t x0) eqn:E; [reflexivity | apply Rltb_false in E; lra]. Qed.

Lemma incr_last_ge rest : forall x0 y0, incr x0 rest -> x0 <= fst (last rest (x0, y0)).
Proof.
  induction rest as [| (x1, y1) r IH]; intros x0 y0 Hi; [cbn; lra|].
  destruct Hi as (H01 & Hr). destruct r as [| p r'].
  - cbn. lra.
  - rewrite last_cons_ne by discriminate. rewrite (last_indep (p :: r') ltac:(discriminate) (x0, y0) (x1, y1)).
    specialize (IH x1 y1 Hr). lra.
Qed.

Lemma walk_above rest : forall x0 y0 t, incr x0 rest -> fst (last rest (x0, y0)) < t ->
  interp_walk x0 y0 rest t = snd (last rest (x0, y0)).
Proof.
  induction rest as [| (x1, y1) r IH]; intros x0 y0 t Hi Hl; [reflexivity|].
  destruct Hi as (H01 & Hr). cbn [interp_walk]. num_R.
  destruct r as [| p r'].
  - cbn in Hl |- *. destruct (Rleb t x1) eqn:E; [apply Rleb_true in E; lra | reflexivity].
  - rewrite last_cons_ne in Hl |- * by discriminate.
    rewrite (last_indep (p :: r') ltac:(discriminate) (x0, y0) (x1, y1)) in Hl |- *.
    pose proof (incr_last_ge (p :: r') x1 y1 Hr) as G.
    destruct (Rleb t x1) eqn:E; [apply Rleb_true in E; lra|].
    apply IH; assumption.
Qed.

(* ---------------------------------------------------------------- identity at the knots *)
Lemma walk_at_knots rest : forall x0 y0, incr x0 rest ->
  interp_walk x0 y0 rest x0 = y0 /\ forall x y, In (x, y) rest -> interp_walk x0 y0 rest x = y.
Proof.
  induction rest as [| (x1, y1) r IH]; intros x0 y0 Hi; [split; [reflexivity | intros ? ? []]|].
  destruct Hi as (H01 & Hr). destruct (IH x1 y1 Hr) as (IH1 & IH2). split.
  - cbn [interp_walk]. num_R. destruct (Rleb x0 x1) eqn:E; [apply lerp_at_lo; assumption | apply Rleb_false in E; lra].
  - intros x y [E | Hin].
    + inversion E; subst. cbn [interp_walk]. num_R.
      destruct (Rleb x x) eqn:E2; [apply lerp_at_hi; assumption | apply Rleb_false in E2; lra].
    + pose proof (incr_lt x1 r Hr x y Hin) as Hlt. cbn [interp_walk]. num_R.
      destruct (Rleb x x1) eqn:E2; [apply Rleb_true in E2; lra|]. apply IH2. assumption.
Qed.

Lemma interp_at_knots knots : incr_knots knots -> forall x y, In (x, y) knots -> interp knots x = y.
Proof.
  destruct knots as [| (x0, y0) rest]; intros Hi x y Hin; [inversion Hin|].
  cbn in Hi. destruct (walk_at_knots rest x0 y0 Hi) as (W0 & W1).
  unfold interp. num_R. destruct Hin as [E | Hin].
  - inversion E; subst. destruct (Rltb x x) eqn:E2; [apply Rltb_true in E2; lra | assumption].
  - pose proof (incr_lt x0 rest Hi x y Hin). destruct (Rltb x x0) eqn:E2; [apply Rltb_true in E2; lra | apply W1; assumption].
Qed.

Fixpoint incr_list (x0 : R) (r : list R) : Prop := match r with [] => True | x1 :: r' => x0 < x1 /\ incr_list x1 r' end.
Definition increasing (l : list R) : Prop := match l with [] => True | x0 :: r => incr_list x0 r end.

Lemma incr_combine : forall r c x0, incr_list x0 r -> incr x0 (combine r c).
Proof. induction r as [| x1 r IH]; intros [| y1 c] x0 Hi; cbn in *; auto. destruct Hi; split; auto. Qed.

(* resampling at the original timestamps returns the original data *)
Lemma resample_col_identity times col :
  increasing times -> length col = length times -> resample_col times col times = col.
Proof.
  intros Hi L. unfold resample_col.
  assert (K : incr_knots (combine times col)).
  { destruct times as [| x0 r]; [exact I|]. destruct col as [| y0 c]; [exact I|]. cbn. apply incr_combine. exact Hi. }
  set (knots := combine times col) in *.
  assert (Et : times = map fst knots) by (unfold knots; clear - L; revert col L; induction times; intros [| y c] L; cbn in *; try discriminate; auto; f_equal; auto).
  assert (Ec : col = map snd knots) by (unfold knots; clear - L; revert col L; induction times; intros [| y c] L; cbn in *; try discriminate; auto; f_equal; auto).
  assert (G : map (interp knots) (map fst knots) = map snd knots).
  { rewrite map_map. apply map_ext_in. intros (x, y) Hin. cbn. apply interp_at_knots; assumption. }
  rewrite <- Et, <- Ec in G. exact G.
Qed.

Lemma resample_identity times cols :
  increasing times -> Forall (fun c => length c = length times) cols -> resample times cols times = cols.
Proof.
  intros Hi Hl. unfold resample. induction Hl as [| c cols Hc _ IH]; cbn; [reflexivity|].
  rewrite resample_col_identity by assumption. f_equal. exact IH.
Qed.

(* ---------------------------------------------------------------- grouped = column by column *)
Section GroupLaw.
Context {K C R' : Type}.
Variable keq : K -> K -> bool.
Variable F : K -> C -> R'.
Variable dflt : R'.
Hypothesis keq_eq : forall a b, keq a b = true -> a = b.

Lemma upd_length {A} (l : list A) : forall i v, length (upd l i v) = length l.
Proof. induction l as [| a l IH]; intros [| i] v; cbn; auto. Qed.
Lemma nth_upd_same {A} (l : list A) : forall i v d, (i < length l)%nat -> nth i (upd l i v) d = v.
Proof. induction l as [| a l IH]; intros [| i] v d Hl; cbn in *; try lia; auto. apply IH. lia. Qed.
Lemma nth_upd_other {A} (l : list A) : forall i j v d, i <> j -> nth j (upd l i v) d = nth j l d.
Proof. induction l as [| a l IH]; intros [| i] [| j] v d Hn; cbn; auto; try congruence. Qed.

(* membership facts about insert_group *)
Lemma insert_group_old g : forall d i k cols c, In (k, cols) g -> In c cols ->
  exists cols', In (k, cols') (insert_group keq g d i) /\ In c cols'.
Proof.
  induction g as [| (k0, cols0) g IH]; intros d i k cols c Hin Hc; [inversion Hin|]. cbn.
  destruct Hin as [E | Hin].
  - inversion E; subst. destruct (keq k d); [exists (cols ++ [i]) | exists cols]; split; try (left; reflexivity); auto.
    apply in_or_app; left; assumption.
  - destruct (keq k0 d).
    + exists cols. split; [right; assumption | assumption].
    + destruct (IH d i k cols c Hin Hc) as (cols' & A & B). exists cols'. split; [right; assumption | assumption].
Qed.

Lemma insert_group_new g : forall d i, exists k cols, In (k, cols) (insert_group keq g d i) /\ In i cols /\ k = d.
Proof.
  induction g as [| (k0, cols0) g IH]; intros d i; cbn.
  - exists d, [i]. repeat split; [left; reflexivity | left; reflexivity].
  - destruct (keq k0 d) eqn:E.
    + exists k0, (cols0 ++ [i]). split; [left; reflexivity|]. split; [apply in_or_app; right; left; reflexivity | apply keq_eq; assumption].
    + destruct (IH d i) as (k & cols & A & B & Ek). exists k, cols. split; [right; assumption | split; assumption].
Qed.

Lemma insert_group_inv g : forall d i k cols c, In (k, cols) (insert_group keq g d i) -> In c cols ->
  (exists cols0, In (k, cols0) g /\ In c cols0) \/ (c = i /\ k = d).
Proof.
  induction g as [| (k0, cols0) g IH]; intros d i k cols c Hin Hc; cbn in Hin.
  - destruct Hin as [E | []]. inversion E; subst. destruct Hc as [-> | []]. right; auto.
  - destruct (keq k0 d) eqn:E.
    + destruct Hin as [E2 | Hin].
      * inversion E2; subst. apply in_app_or in Hc. destruct Hc as [Hc | [-> | []]].
        -- left. exists cols0. split; [left; reflexivity | assumption].
        -- right. split; [reflexivity | apply keq_eq; assumption].
      * left. exists cols. split; [right; assumption | assumption].
    + destruct Hin as [E2 | Hin].
      * inversion E2; subst. left. exists cols. split; [left; reflexivity | assumption].
      * destruct (IH d i k cols c Hin Hc) as [(cols1 & A & B) | (A & B)].
        -- left. exists cols1. split; [right; assumption | assumption].
        -- right. auto.
Qed.

(* invariant of build_groups: every member c of a group (k, cols) has delays[c] = k, and every processed
   column is a member of some group *)
Definition sound (delays : list K) (g : list (K * list nat)) : Prop :=
  forall k cols c, In (k, cols) g -> In c cols -> nth_error delays c = Some k.
Definition complete (n : nat) (g : list (K * list nat)) : Prop :=
  forall c, (c < n)%nat -> exists k cols, In (k, cols) g /\ In c cols.

Lemma build_groups_inv delays : forall suf pre g,
  delays = pre ++ suf -> sound delays g -> complete (length pre) g ->
  sound delays (build_groups keq suf (length pre) g) /\ complete (length delays) (build_groups keq suf (length pre) g).
Proof.
  induction suf as [| d suf IH]; intros pre g E Snd Cm; cbn [build_groups].
  - subst. rewrite app_nil_r in *. split; assumption.
  - replace (S (length pre)) with (length (pre ++ [d])) by (rewrite app_length; cbn; lia).
    apply IH.
    + rewrite <- app_assoc. exact E.
    + intros k cols c Hin Hc. destruct (insert_group_inv g d (length pre) k cols c Hin Hc) as [(cols0 & A & B) | (A & B)].
      * eapply Snd; eassumption.
      * subst. rewrite nth_error_app2 by lia. rewrite Nat.sub_diag. reflexivity.
    + intros c Hc. rewrite app_length in Hc. cbn in Hc.
      destruct (Nat.eq_dec c (length pre)) as [-> | Hne].
      * destruct (insert_group_new g d (length pre)) as (k & cols & A & B & _). exists k, cols. split; assumption.
      * destruct (Cm c ltac:(lia)) as (k & cols & A & B).
        destruct (insert_group_old g d (length pre) k cols c A B) as (cols' & A' & B'). exists k, cols'. split; assumption.
Qed.

(* scatter: after all groups have been written, a column that belongs to some group holds the value
   written by a group that contains it, the others are untouched *)
Lemma mem_nat_In c l : mem_nat c l = true <-> In c l.
Proof.
  induction l as [| j l IH]; cbn; [split; [discriminate | intros []]|].
  rewrite orb_true_iff, Nat.eqb_eq, IH. split; intros [A | A]; auto.
Qed.
Definition memg (c : nat) (g : list (K * list nat)) : bool := existsb (fun grp => mem_nat c (snd grp)) g.

Section Scatter.
Variable columns : list C.
Variable cdflt : C.
Variable V : nat -> R'.          (* the intended value of column c *)

Lemma scatter_cols k cols : forall out,
  (forall c, In c cols -> (c < length out)%nat /\ F k (nth c columns cdflt) = V c) ->
  let out' := fold_left (fun o c => upd o c (F k (nth c columns cdflt))) cols out in
  length out' = length out /\
  forall c d, nth c out' d = if mem_nat c cols then V c else nth c out d.
Proof.
  induction cols as [| c0 cols IH]; intros out Hc; cbn [fold_left].
  - split; [reflexivity|]. intros c d. reflexivity.
  - destruct (Hc c0 (or_introl eq_refl)) as (L0 & V0).
    specialize (IH (upd out c0 (F k (nth c0 columns cdflt)))).
    assert (Hc' : forall c, In c cols -> (c < length (upd out c0 (F k (nth c0 columns cdflt))))%nat /\ F k (nth c columns cdflt) = V c).
    { intros c Hin. rewrite upd_length. apply Hc. right; assumption. }
    destruct (IH Hc') as (L & N). cbv zeta in *. rewrite upd_length in L. split; [exact L|].
    intros c d. rewrite N. cbn [mem_nat].
    destruct (mem_nat c cols) eqn:M; [rewrite orb_true_r; reflexivity|]. rewrite orb_false_r.
    destruct (Nat.eqb c c0) eqn:E.
    + apply Nat.eqb_eq in E. subst c0. rewrite nth_upd_same by assumption. exact V0.
    + apply Nat.eqb_neq in E. apply nth_upd_other. auto.
Qed.

Lemma scatter_groups g : forall out,
  (forall k cols c, In (k, cols) g -> In c cols -> (c < length out)%nat /\ F k (nth c columns cdflt) = V c) ->
  let out' := fold_left (scatter_group F columns cdflt) g out in
  length out' = length out /\
  forall c d, nth c out' d = if memg c g then V c else nth c out d.
Proof.
  induction g as [| (k, cols) g IH]; intros out Hg; cbn [fold_left].
  - split; [reflexivity|]. intros c d. reflexivity.
  - unfold scatter_group at 2. cbn [fst snd].
    destruct (scatter_cols k cols out (fun c Hc => Hg k cols c (or_introl eq_refl) Hc)) as (L1 & N1). cbv zeta in *.
    set (out1 := fold_left (fun o c => upd o c (F k (nth c columns cdflt))) cols out) in *.
    assert (Hg' : forall k' cols' c, In (k', cols') g -> In c cols' -> (c < length out1)%nat /\ F k' (nth c columns cdflt) = V c).
    { intros k' cols' c A B. rewrite L1. apply (Hg k' cols' c); [right; assumption | assumption]. }
    destruct (IH out1 Hg') as (L2 & N2). cbv zeta in *. split; [rewrite L2; exact L1|].
    intros c d. rewrite N2, N1. unfold memg. cbn [existsb snd].
    destruct (mem_nat c cols); destruct (existsb _ g); reflexivity.
Qed.
End Scatter.

Lemma memg_complete n g : complete n g -> forall c, (c < n)%nat -> memg c g = true.
Proof.
  intros Cm c Hc. destruct (Cm c Hc) as (k & cols & A & B). unfold memg. apply existsb_exists.
  exists (k, cols). split; [assumption | apply mem_nat_In; assumption].
Qed.

Lemma map2g_nth {A B D} (f : A -> B -> D) : forall (a : list A) (b : list B) i da db dd,
  (i < length a)%nat -> (i < length b)%nat -> nth i (map2g f a b) dd = f (nth i a da) (nth i b db).
Proof.
  induction a as [| x a IH]; intros [| y b] i da db dd La Lb; cbn in *; try lia.
  destruct i as [| i]; [reflexivity|]. apply IH; lia.
Qed.
Lemma map2g_length {A B D} (f : A -> B -> D) : forall (a : list A) (b : list B), length a = length b -> length (map2g f a b) = length a.
Proof. induction a as [| x a IH]; intros [| y b] L; cbn in *; try discriminate; auto. Qed.

(* grouped resampling = column-by-column resampling *)
Lemma grouped_eq_columnwise columns cdflt delays :
  length delays = length columns ->
  resample_grouped keq F dflt columns cdflt delays = resample_columnwise F columns delays.
Proof.
  intros L. unfold resample_grouped, resample_columnwise.
  destruct (build_groups_inv delays delays [] [] eq_refl) as (Snd & Cm).
  { intros k cols c []. }
  { intros c Hc. cbn in Hc. lia. }
  cbn [length] in Snd, Cm.
  set (g := build_groups keq delays 0 []) in *.
  set (out0 := map (fun _ => dflt) columns).
  assert (L0 : length out0 = length columns) by (unfold out0; apply map_length).
  destruct delays as [| d0 dl].
  { destruct columns; [reflexivity | discriminate]. }
  set (delays := d0 :: dl) in *.
  set (V := fun c => F (nth c delays d0) (nth c columns cdflt)).
  destruct (scatter_groups columns cdflt V g out0) as (Lg & Ng).
  { intros k cols c A B. pose proof (Snd k cols c A B) as E.
    assert (Hc : (c < length delays)%nat) by (apply nth_error_Some; congruence).
    split; [rewrite L0, <- L; exact Hc|]. unfold V. f_equal.
    symmetry. apply nth_error_nth with (d := d0) in E. exact E. }
  cbv zeta in *.
  apply nth_ext with (d := dflt) (d' := dflt).
  - rewrite Lg, L0, map2g_length by assumption. symmetry; exact L.
  - intros c Hc. rewrite Lg, L0 in Hc. rewrite Ng.
    rewrite (memg_complete (length delays) g Cm c) by (rewrite L; exact Hc).
    unfold V. symmetry. apply map2g_nth; [rewrite L; exact Hc | exact Hc].
Qed.
End GroupLaw.

(* at the real numbers, with the delay equality of the model *)
Lemma apply_resample_and_delay_law (times : list R) (cols : list (list R)) (new_times delays : list R) :
  length delays = length cols ->
  apply_resample_and_delay times cols new_times delays = apply_resample_and_delay_columnwise times cols new_times delays.
Proof.
  intros L. unfold apply_resample_and_delay, apply_resample_and_delay_columnwise.
  apply grouped_eq_columnwise; [| exact L]. intros a b E. num_R. apply Reqb_true in E. exact E.
Qed.

Lemma interp_above knots t :
  incr_knots knots -> knots <> [] -> fst (last knots (0, 0)) < t -> interp knots t = snd (last knots (0, 0)).
Proof.
  destruct knots as [| (x0, y0) rest]; intros Hi Hne Hl; [congruence|]. cbn in Hi.
  pose proof (incr_last_ge rest x0 y0 Hi) as G.
  assert (E : last ((x0, y0) :: rest) (0, 0) = last rest (x0, y0)).
  { destruct rest as [| p r]; [reflexivity|]. rewrite last_cons_ne by discriminate. apply last_indep. discriminate. }
  rewrite E in *. unfold interp. num_R.
  destruct (Rltb t x0) eqn:E2; [apply Rltb_true in E2; lra|]. apply walk_above; assumption.
Qed.

Lemma interp_outside knots t :
  incr_knots knots -> knots <> [] ->
  (t < fst (hd (0, 0) knots) -> interp knots t = snd (hd (0, 0) knots)) /\
  (fst (last knots (0, 0)) < t -> interp knots t = snd (last knots (0, 0))).
Proof.
  intros Hi Hne. split; [| apply interp_above; assumption].
  destruct knots as [| (x0, y0) rest]; [congruence|]. cbn. apply interp_below.
Qed.
