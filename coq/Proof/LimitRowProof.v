(* Proofs about Model/LimitRow.v (C07, constraint rows): which columns of the dense row carry the axis. *)
From Coq Require Import ZArith List Bool Lia PrimFloat Reals.
From MJV Require Import Lib.Num Lib.NumR Model.Spatial Model.LimitRow.
Open Scope R_scope.

Lemma scatterRow_length (nv adr : nat) (v : list R) : length (scatterRow nv adr v) = nv.
Proof. unfold scatterRow. rewrite map_length, seq_length. reflexivity. Qed.

Lemma scatterRow_nth (nv adr k : nat) (v : list R) : (k < nv)%nat ->
  nth k (scatterRow nv adr v) 0 =
    if Nat.leb adr k && Nat.ltb k (adr + length v) then nth (k - adr) v 0 else 0.
Proof.
  intros L. unfold scatterRow.
  set (f := fun k0 : nat => if Nat.leb adr k0 && Nat.ltb k0 (adr + length v) then nth (k0 - adr) v 0 else 0).
  rewrite (nth_indep (map f (seq 0 nv)) 0 (f O)) by (rewrite map_length, seq_length; exact L).
  rewrite (map_nth f), seq_nth by exact L. reflexivity.
Qed.

(* the dense limit row of a ball joint: column jnt_dofadr + i (i = 0, 1, 2) holds minus the i-th axis component, every other
   column is zero -- the columns are those of the joint's DOFS (not of its qpos entries) *)
Lemma ballLimitRow_columns (nv dofadr : nat) (q : quat R) (r0 r1 : R) (k : nat) :
  (dofadr + 3 <= nv)%nat -> (k < nv)%nat ->
  nth k (ballLimitRow nv dofadr q r0 r1) 0 =
    if Nat.leb dofadr k && Nat.ltb k (dofadr + 3)
    then - nth (k - dofadr) (v2l (snd (ballLimit q r0 r1))) 0 else 0.
Proof.
  intros _ L. unfold ballLimitRow. rewrite scatterRow_nth by exact L.
  destruct (snd (ballLimit q r0 r1)) as [[a b] c]. cbn [v2l map length].
  destruct (Nat.leb dofadr k && Nat.ltb k (dofadr + 3)) eqn:E; [|reflexivity].
  apply andb_true_iff in E. destruct E as [E1 E2]. apply Nat.leb_le in E1. apply Nat.ltb_lt in E2.
  destruct (k - dofadr)%nat as [|[|[|n]]] eqn:EK; cbn [nth]; num_R; try reflexivity. lia.
Qed.
