(* Proofs at R about Model/CollidePrim.v (C13). *)
From Coq Require Import ZArith List PrimFloat Reals Lra Lia Psatz Bool.
From MJV Require Import Lib.Num Lib.NumR Model.Spatial Model.CollidePrim.
Import ListNotations.
Open Scope R_scope.

Ltac dv v := let a := fresh v "0" in let b := fresh v "1" in let c := fresh v "2" in
  destruct v as [[a b] c].
Ltac dm m := destruct m as [[[[[[[[?m0 ?m1] ?m2] ?m3] ?m4] ?m5] ?m6] ?m7] ?m8].
Ltac nR := unfold ntwo, nhalf in *; num_R.

Lemma vec_ext (a b c a' b' c' : R) : a = a' -> b = b' -> c = c' -> (a, b, c) = (a', b', c').
Proof. intros; subst; reflexivity. Qed.

(* ---- constants *)
Lemma cp_half : Rdec 5 (-1) = / 2.
Proof. unfold Rdec; simpl. lra. Qed.
Lemma cp_quarter : Rdec 25 (-2) = / 4.
Proof. unfold Rdec; simpl. lra. Qed.
Lemma cp_minval : mjMINVAL (T:=R) = / 1000000000000000.
Proof. unfold mjMINVAL; num_R; unfold Rdec. replace (10 ^ 15)%Z with 1000000000000000%Z by reflexivity. lra. Qed.
Lemma cp_minval_pos : 0 < mjMINVAL (T:=R).
Proof. rewrite cp_minval. lra. Qed.
Lemma cp_minval_small : mjMINVAL (T:=R) < / 4.
Proof. rewrite cp_minval. lra. Qed.

(* ---- elementary vector algebra on R^3 (tuples of Model/Spatial.v) *)
Lemma dot3_comm (a b : vec3 R) : dot3 a b = dot3 b a.
Proof. dv a; dv b. unfold dot3. nR. ring. Qed.
Lemma dot3_self_nonneg (a : vec3 R) : 0 <= dot3 a a.
Proof. dv a. unfold dot3. nR. nra. Qed.
Lemma norm3_nonneg (a : vec3 R) : 0 <= norm3 a.
Proof. unfold norm3. nR. apply sqrt_pos. Qed.
Lemma norm3_sq (a : vec3 R) : norm3 a * norm3 a = dot3 a a.
Proof. unfold norm3. nR. apply sqrt_sqrt. apply dot3_self_nonneg. Qed.
Lemma sq_le (u s : R) : 0 <= s -> u * u <= s * s -> u <= s.
Proof. intros. nra. Qed.
Lemma sq_lt (u s : R) : 0 <= s -> u * u < s * s -> u < s.
Proof. intros. nra. Qed.
Lemma norm3_eq (a : vec3 R) (s : R) : 0 <= s -> dot3 a a = s * s -> norm3 a = s.
Proof.
  intros S E. pose proof (norm3_sq a) as Q. pose proof (norm3_nonneg a) as P. rewrite E in Q. nra.
Qed.
Lemma norm3_unit (a : vec3 R) : dot3 a a = 1 -> norm3 a = 1.
Proof. intros E. apply norm3_eq; lra. Qed.

Lemma dot3_sub_l (a b c : vec3 R) : dot3 (sub3 a b) c = dot3 a c - dot3 b c.
Proof. dv a; dv b; dv c. unfold dot3, sub3. nR. ring. Qed.
Lemma dot3_add_l (a b c : vec3 R) : dot3 (add3 a b) c = dot3 a c + dot3 b c.
Proof. dv a; dv b; dv c. unfold dot3, add3. nR. ring. Qed.
Lemma dot3_scl_l (a c : vec3 R) (s : R) : dot3 (scl3 a s) c = s * dot3 a c.
Proof. dv a; dv c. unfold dot3, scl3. nR. ring. Qed.
Lemma dot3_scl_r (a c : vec3 R) (s : R) : dot3 c (scl3 a s) = s * dot3 c a.
Proof. rewrite dot3_comm, dot3_scl_l, dot3_comm. reflexivity. Qed.
Lemma dot3_sub_r (a b c : vec3 R) : dot3 c (sub3 a b) = dot3 c a - dot3 c b.
Proof. rewrite dot3_comm, dot3_sub_l, !(dot3_comm c). reflexivity. Qed.
Lemma dot3_add_r (a b c : vec3 R) : dot3 c (add3 a b) = dot3 c a + dot3 c b.
Proof. rewrite dot3_comm, dot3_add_l, !(dot3_comm c). reflexivity. Qed.

(* Cauchy-Schwarz through Lagrange's identity *)
Lemma cauchy_schwarz_sq (a b : vec3 R) : dot3 a b * dot3 a b <= dot3 a a * dot3 b b.
Proof.
  dv a; dv b. unfold dot3. nR.
  assert (L : (a0*a0 + a1*a1 + a2*a2) * (b0*b0 + b1*b1 + b2*b2) - (a0*b0 + a1*b1 + a2*b2) * (a0*b0 + a1*b1 + a2*b2)
              = (a1*b2 - a2*b1) * (a1*b2 - a2*b1) + (a2*b0 - a0*b2) * (a2*b0 - a0*b2) + (a0*b1 - a1*b0) * (a0*b1 - a1*b0)) by ring.
  pose proof (Rle_0_sqr (a1*b2 - a2*b1)) as S1. pose proof (Rle_0_sqr (a2*b0 - a0*b2)) as S2.
  pose proof (Rle_0_sqr (a0*b1 - a1*b0)) as S3. unfold Rsqr in *. lra.
Qed.
Lemma cauchy_schwarz (a b : vec3 R) : dot3 a b <= norm3 a * norm3 b.
Proof.
  pose proof (cauchy_schwarz_sq a b) as C. rewrite <- (norm3_sq a), <- (norm3_sq b) in C.
  pose proof (norm3_nonneg a). pose proof (norm3_nonneg b).
  apply sq_le; nra.
Qed.
Lemma norm3_triangle (a b : vec3 R) : norm3 (add3 a b) <= norm3 a + norm3 b.
Proof.
  pose proof (norm3_nonneg a). pose proof (norm3_nonneg b).
  apply sq_le; [lra|]. rewrite norm3_sq, dot3_add_l, !dot3_add_r.
  pose proof (cauchy_schwarz a b). rewrite (dot3_comm b a).
  rewrite <- (norm3_sq a), <- (norm3_sq b). nra.
Qed.
Lemma norm3_sub_sym (a b : vec3 R) : norm3 (sub3 a b) = norm3 (sub3 b a).
Proof. unfold norm3. f_equal. dv a; dv b. unfold dot3, sub3. nR. ring. Qed.
(* |a - c| <= |a - b| + |b - c| *)
Lemma dist3_triangle (a b c : vec3 R) : norm3 (sub3 a c) <= norm3 (sub3 a b) + norm3 (sub3 b c).
Proof.
  replace (sub3 a c) with (add3 (sub3 a b) (sub3 b c)). apply norm3_triangle.
  dv a; dv b; dv c. unfold add3, sub3. nR. apply vec_ext; ring.
Qed.
Lemma norm3_scl (a : vec3 R) (s : R) : norm3 (scl3 a s) = Rabs s * norm3 a.
Proof.
  apply norm3_eq. pose proof (Rabs_pos s). pose proof (norm3_nonneg a). nra.
  rewrite dot3_scl_l, dot3_scl_r. pose proof (norm3_sq a).
  replace (Rabs s * norm3 a * (Rabs s * norm3 a)) with ((Rabs s * Rabs s) * (norm3 a * norm3 a)) by ring.
  rewrite H. replace (Rabs s * Rabs s) with (s * s). ring.
  unfold Rabs. destruct (Rcase_abs s); ring.
Qed.

(* ---- mju_normalize3 *)
Lemma normalize3_snd (v : vec3 R) : snd (normalize3 v) = norm3 v.
Proof. dv v. unfold normalize3, norm3, dot3. nR. destruct (Rltb _ _); reflexivity. Qed.
Lemma normalize3_small (v : vec3 R) : norm3 v < mjMINVAL -> fst (normalize3 v) = (1, 0, 0).
Proof. dv v. unfold normalize3, norm3, dot3. nR. intros L. apply Rltb_true in L. rewrite L. reflexivity. Qed.
Lemma normalize3_big (v : vec3 R) : mjMINVAL <= norm3 v -> fst (normalize3 v) = scl3 v (1 / norm3 v).
Proof. dv v. unfold normalize3, norm3, dot3, scl3. nR. intros L. apply Rltb_false in L. rewrite L. reflexivity. Qed.
Lemma normalize3_pair (v : vec3 R) : normalize3 v = (fst (normalize3 v), norm3 v).
Proof. rewrite <- normalize3_snd. apply surjective_pairing. Qed.
Lemma scl_inv_unit (v : vec3 R) : 0 < norm3 v -> dot3 (scl3 v (1 / norm3 v)) (scl3 v (1 / norm3 v)) = 1.
Proof.
  intros P. rewrite dot3_scl_l, dot3_scl_r, <- norm3_sq. field. lra.
Qed.
(* the result of mju_normalize3 is always a unit vector *)
Lemma normalize3_unit (v : vec3 R) : dot3 (fst (normalize3 v)) (fst (normalize3 v)) = 1.
Proof.
  destruct (Rlt_dec (norm3 v) mjMINVAL) as [L|L].
  - rewrite normalize3_small by assumption. unfold dot3. nR. ring.
  - apply Rnot_lt_le in L. rewrite normalize3_big by assumption. apply scl_inv_unit.
    pose proof cp_minval_pos. lra.
Qed.

(* ============================================================================================ *)
(* mju_makeFrame                                                                                  *)
Definition det_rows (x y z : vec3 R) : R := dot3 x (cross y z).
Definition orthoframe (x y z : vec3 R) : Prop :=
  dot3 x x = 1 /\ dot3 y y = 1 /\ dot3 z z = 1 /\ dot3 x y = 0 /\ dot3 x z = 0 /\ dot3 y z = 0 /\
  z = cross x y /\ det_rows x y z = 1.

Lemma cross_frame (x y : vec3 R) : dot3 x x = 1 -> dot3 y y = 1 -> dot3 x y = 0 -> orthoframe x y (cross x y).
Proof.
  dv x; dv y. unfold orthoframe, det_rows, dot3, cross. nR. intros X Y O.
  assert (Z : (x1 * y2 - x2 * y1) * (x1 * y2 - x2 * y1) + (x2 * y0 - x0 * y2) * (x2 * y0 - x0 * y2) +
              (x0 * y1 - x1 * y0) * (x0 * y1 - x1 * y0) = 1).
  { transitivity ((x0*x0 + x1*x1 + x2*x2) * (y0*y0 + y1*y1 + y2*y2) - (x0*y0 + x1*y1 + x2*y2) * (x0*y0 + x1*y1 + x2*y2)).
    ring. rewrite X, Y, O. ring. }
  repeat split; try assumption; try ring.
  transitivity ((x1 * y2 - x2 * y1) * (x1 * y2 - x2 * y1) + (x2 * y0 - x0 * y2) * (x2 * y0 - x0 * y2) +
              (x0 * y1 - x1 * y0) * (x0 * y1 - x1 * y0)). ring. exact Z.
Qed.

Lemma reject_orth (x y : vec3 R) : dot3 x x = 1 -> dot3 x (reject x y) = 0.
Proof. intros X. unfold reject. rewrite dot3_sub_r, dot3_scl_r, X. ring. Qed.
Lemma reject_norm_sq (x y : vec3 R) : dot3 x x = 1 ->
  dot3 (reject x y) (reject x y) = dot3 y y - dot3 x y * dot3 x y.
Proof.
  intros X. unfold reject. rewrite dot3_sub_l, !dot3_sub_r, !dot3_scl_l, !dot3_scl_r, X, (dot3_comm y x). ring.
Qed.

(* normalising a vector orthogonal to x (and not tiny) keeps it orthogonal *)
Lemma normalize_orth (x w : vec3 R) : mjMINVAL <= norm3 w -> dot3 x w = 0 ->
  dot3 x (fst (normalize3 w)) = 0 /\ dot3 (fst (normalize3 w)) (fst (normalize3 w)) = 1.
Proof.
  intros B O. split; [|apply normalize3_unit]. rewrite normalize3_big by assumption.
  rewrite dot3_scl_r, O. ring.
Qed.

Definition second (x : vec3 R) : R := let '(_, b, _) := x in b.
Lemma defaultY_cases (x : vec3 R) :
  (Rabs (second x) < / 2 /\ defaultY x = (0, 1, 0)) \/ (/ 2 <= Rabs (second x) /\ defaultY x = (0, 0, 1)).
Proof.
  dv x. unfold defaultY, second. nR. rewrite cp_half.
  destruct (Rltb x1 (/ 2)) eqn:A; destruct (Rltb (- / 2) x1) eqn:B; cbn [andb];
    try apply Rltb_true in A; try apply Rltb_true in B; try apply Rltb_false in A; try apply Rltb_false in B;
    unfold Rabs; destruct (Rcase_abs x1); first [left; split; [lra|reflexivity] | right; split; [lra|reflexivity]].
Qed.
(* the rejection of the default y-axis is never short: |.|^2 >= 1/4 *)
Lemma defaultY_reject_big (x : vec3 R) : dot3 x x = 1 -> mjMINVAL <= norm3 (reject x (defaultY x)).
Proof.
  intros X. pose proof cp_minval_small as S. pose proof cp_minval_pos as P.
  assert (Q : / 4 <= dot3 (reject x (defaultY x)) (reject x (defaultY x))).
  { rewrite reject_norm_sq by assumption.
    destruct (defaultY_cases x) as [[A E]|[A E]]; rewrite E; dv x; unfold dot3, second in *; nR.
    - assert (x1 * x1 < / 4) by (unfold Rabs in A; destruct (Rcase_abs x1); nra). nra.
    - assert (/ 4 <= x1 * x1) by (unfold Rabs in A; destruct (Rcase_abs x1); nra). nra. }
  pose proof (norm3_sq (reject x (defaultY x))) as N. pose proof (norm3_nonneg (reject x (defaultY x))).
  apply Rnot_lt_le. intros L. nra.
Qed.

Lemma makeFrame_none (xin yin : vec3 R) : norm3 xin < / 2 -> makeFrame xin yin = None.
Proof.
  intros L. unfold makeFrame. rewrite normalize3_pair. nR. rewrite cp_half.
  apply Rltb_true in L. rewrite L. reflexivity.
Qed.

(* the y-axis candidate handed to the orthogonalisation: the given tangent unless it is short *)
Definition yCandidate (x yin : vec3 R) : vec3 R := if Rlt_dec (dot3 yin yin) (/ 4) then defaultY x else yin.
(* the y-axis chosen by mju_makeFrame for the unit x-axis x *)
Definition yAxis (x yin : vec3 R) : vec3 R :=
  let r := reject x (yCandidate x yin) in
  if Rlt_dec (norm3 r) mjMINVAL then scl3 (reject x (defaultY x)) (1 / norm3 (reject x (defaultY x)))
  else scl3 r (1 / norm3 r).

Lemma makeFrame_some (xin yin : vec3 R) : / 2 <= norm3 xin ->
  let x := scl3 xin (1 / norm3 xin) in
  makeFrame xin yin = Some (x, yAxis x yin, cross x (yAxis x yin)) /\ orthoframe x (yAxis x yin) (cross x (yAxis x yin)).
Proof.
  intros L x. pose proof cp_minval_small as S. pose proof cp_minval_pos as P.
  assert (B : mjMINVAL <= norm3 xin) by lra.
  assert (X : dot3 x x = 1) by (apply scl_inv_unit; lra).
  assert (F : makeFrame xin yin = Some (x, yAxis x yin, cross x (yAxis x yin))).
  { unfold makeFrame. rewrite normalize3_pair, normalize3_big by assumption. fold x. nR. rewrite cp_half, cp_quarter.
    apply Rltb_false in L. rewrite L.
    unfold yAxis, yCandidate.
    destruct (Rlt_dec (dot3 yin yin) (/ 4)) as [Y|Y].
    - apply Rltb_true in Y. rewrite Y. rewrite normalize3_pair.
      destruct (Rlt_dec (norm3 (reject x (defaultY x))) mjMINVAL) as [Z|Z].
      + exfalso. pose proof (defaultY_reject_big x X). lra.
      + apply Rnot_lt_le in Z. pose proof Z as Z'. apply Rltb_false in Z'. rewrite Z'.
        rewrite normalize3_big by assumption. reflexivity.
    - apply Rnot_lt_le in Y. apply Rltb_false in Y. rewrite Y. rewrite normalize3_pair.
      destruct (Rlt_dec (norm3 (reject x yin)) mjMINVAL) as [Z|Z].
      + pose proof Z as Z'. apply Rltb_true in Z'. rewrite Z'.
        rewrite normalize3_big by (apply defaultY_reject_big; assumption). reflexivity.
      + apply Rnot_lt_le in Z. pose proof Z as Z'. apply Rltb_false in Z'. rewrite Z'.
        rewrite normalize3_big by assumption. reflexivity. }
  split; [exact F|].
  assert (Y : dot3 x (yAxis x yin) = 0 /\ dot3 (yAxis x yin) (yAxis x yin) = 1).
  { unfold yAxis. destruct (Rlt_dec (norm3 (reject x (yCandidate x yin))) mjMINVAL) as [Z|Z].
    - pose proof (defaultY_reject_big x X) as D.
      rewrite <- normalize3_big by assumption. apply normalize_orth; [assumption|apply reject_orth; assumption].
    - apply Rnot_lt_le in Z. rewrite <- normalize3_big by assumption.
      apply normalize_orth; [assumption|apply reject_orth; assumption]. }
  destruct Y as [Y1 Y2]. apply cross_frame; assumption.
Qed.

(* first row = the normal itself when the normal is already unit *)
Lemma scl_unit_id (x : vec3 R) : dot3 x x = 1 -> scl3 x (1 / norm3 x) = x.
Proof. intros X. rewrite norm3_unit by assumption. dv x. unfold scl3. nR. apply vec_ext; field. Qed.

Lemma makeFrame_spec (xin yin : vec3 R) :
  (norm3 xin < / 2 -> makeFrame xin yin = None) /\
  (/ 2 <= norm3 xin ->
     exists x y z : vec3 R, makeFrame xin yin = Some (x, y, z) /\ x = scl3 xin (1 / norm3 xin) /\
       orthoframe x y z /\ y = yAxis x yin).
Proof.
  split. apply makeFrame_none.
  intros L. destruct (makeFrame_some xin yin L) as [F O].
  eexists _, _, _. split; [exact F|]. split; [reflexivity|]. split; [exact O|reflexivity].
Qed.

(* ============================================================================================ *)
(* sphere : sphere                                                                                *)
Definition ssNormal (c1 : vec3 R) (m1 : mat3 R) (c2 : vec3 R) (m2 : mat3 R) : vec3 R :=
  if Rlt_dec (norm3 (sub3 c2 c1)) mjMINVAL then fst (normalize3 (cross (zaxis m1) (zaxis m2)))
  else scl3 (sub3 c2 c1) (1 / norm3 (sub3 c2 c1)).
Definition ssDist (c1 : vec3 R) (r1 : R) (c2 : vec3 R) (r2 : R) : R := norm3 (sub3 c2 c1) - r1 - r2.
Definition ssContact (c1 : vec3 R) (m1 : mat3 R) (r1 : R) (c2 : vec3 R) (m2 : mat3 R) (r2 : R) : precon R :=
  let d := ssDist c1 r1 c2 r2 in
  let n := ssNormal c1 m1 c2 m2 in
  (d, add3 (scl3 n (r1 + d / 2)) c1, n, zero3).

Lemma rawSS_eq (margin : R) (c1 : vec3 R) (m1 : mat3 R) (r1 : R) (c2 : vec3 R) (m2 : mat3 R) (r2 : R) :
  0 <= margin + r1 + r2 ->
  rawSphereSphere margin c1 m1 r1 c2 m2 r2 =
  if Rle_dec (ssDist c1 r1 c2 r2) margin then [ssContact c1 m1 r1 c2 m2 r2] else [].
Proof.
  intros M. unfold rawSphereSphere, ssContact, ssDist, ssNormal. nR.
  change (sqrt (dot3 (sub3 c1 c2) (sub3 c1 c2))) with (norm3 (sub3 c1 c2)).
  rewrite <- (norm3_sq (sub3 c1 c2)), (norm3_sub_sym c1 c2).
  set (D := norm3 (sub3 c2 c1)). pose proof (norm3_nonneg (sub3 c2 c1)) as P. fold D in P.
  destruct (Rle_dec (D - r1 - r2) margin) as [L|L].
  - assert (F : Rltb ((margin + r1 + r2) * (margin + r1 + r2)) (D * D) = false) by (apply Rltb_false; nra).
    rewrite F. rewrite normalize3_pair. fold D.
    destruct (Rlt_dec D mjMINVAL) as [Z|Z].
    + pose proof Z as Z'. apply Rltb_true in Z'. rewrite Z'. reflexivity.
    + apply Rnot_lt_le in Z. pose proof Z as Z'. apply Rltb_false in Z'. rewrite Z'.
      rewrite normalize3_big by assumption. reflexivity.
  - assert (F : Rltb ((margin + r1 + r2) * (margin + r1 + r2)) (D * D) = true) by (apply Rltb_true; nra).
    rewrite F. reflexivity.
Qed.

Lemma ssNormal_unit (c1 : vec3 R) (m1 : mat3 R) (c2 : vec3 R) (m2 : mat3 R) :
  dot3 (ssNormal c1 m1 c2 m2) (ssNormal c1 m1 c2 m2) = 1.
Proof.
  unfold ssNormal. destruct (Rlt_dec _ _) as [Z|Z]. apply normalize3_unit.
  apply Rnot_lt_le in Z. apply scl_inv_unit. pose proof cp_minval_pos. lra.
Qed.

(* the two surface points and the midpoint / gap facts, for centres that are not (nearly) coincident *)
Lemma ss_geometry (c1 : vec3 R) (m1 : mat3 R) (r1 : R) (c2 : vec3 R) (m2 : mat3 R) (r2 : R) :
  mjMINVAL <= norm3 (sub3 c2 c1) ->
  let n := ssNormal c1 m1 c2 m2 in
  let d := ssDist c1 r1 c2 r2 in
  let p1 := add3 c1 (scl3 n r1) in
  let p2 := sub3 c2 (scl3 n r2) in
  n = scl3 (sub3 c2 c1) (1 / norm3 (sub3 c2 c1)) /\
  pc_pos (ssContact c1 m1 r1 c2 m2 r2) = scl3 (add3 p1 p2) (/ 2) /\
  sub3 p2 p1 = scl3 n d.
Proof.
  intros B n d p1 p2. pose proof cp_minval_pos as P.
  assert (N : n = scl3 (sub3 c2 c1) (1 / norm3 (sub3 c2 c1))).
  { unfold n, ssNormal. destruct (Rlt_dec _ _); [lra|reflexivity]. }
  split; [exact N|].
  unfold pc_pos, ssContact. fold n. fold d. unfold p1, p2, d, ssDist. rewrite N.
  set (D := norm3 (sub3 c2 c1)) in *. assert (D <> 0) by lra.
  dv c1; dv c2. unfold add3, sub3, scl3. nR. split; apply vec_ext; field; assumption.
Qed.

(* true distance: lower bound for every pair of points of the two balls ... *)
Lemma ss_lower_bound (c1 : vec3 R) (r1 : R) (c2 : vec3 R) (r2 : R) (x y : vec3 R) :
  norm3 (sub3 x c1) <= r1 -> norm3 (sub3 y c2) <= r2 -> ssDist c1 r1 c2 r2 <= norm3 (sub3 y x).
Proof.
  intros X Y. unfold ssDist.
  pose proof (dist3_triangle c2 y c1) as T1. pose proof (dist3_triangle y x c1) as T2.
  rewrite (norm3_sub_sym c2 y) in T1. lra.
Qed.
(* ... attained by the two surface points when the balls are separated or touching *)
Lemma ss_attained (c1 : vec3 R) (m1 : mat3 R) (r1 : R) (c2 : vec3 R) (m2 : mat3 R) (r2 : R) :
  0 <= r1 -> 0 <= r2 -> mjMINVAL <= norm3 (sub3 c2 c1) -> 0 <= ssDist c1 r1 c2 r2 ->
  let n := ssNormal c1 m1 c2 m2 in
  let p1 := add3 c1 (scl3 n r1) in
  let p2 := sub3 c2 (scl3 n r2) in
  norm3 (sub3 p1 c1) <= r1 /\ norm3 (sub3 p2 c2) <= r2 /\ norm3 (sub3 p2 p1) = ssDist c1 r1 c2 r2.
Proof.
  intros R1 R2 B S n p1 p2.
  destruct (ss_geometry c1 m1 r1 c2 m2 r2 B) as [N [_ G]]. fold n p1 p2 in N, G.
  pose proof (ssNormal_unit c1 m1 c2 m2) as U. fold n in U. apply norm3_unit in U.
  assert (E1 : sub3 p1 c1 = scl3 n r1) by (unfold p1; dv c1; dv n; unfold add3, sub3, scl3; nR; apply vec_ext; ring).
  assert (E2 : sub3 p2 c2 = scl3 n (- r2)) by (unfold p2; dv c2; dv n; unfold sub3, scl3; nR; apply vec_ext; ring).
  rewrite E1, E2, G, !norm3_scl, U, !Rabs_Ropp, !Rabs_pos_eq by lra. lra.
Qed.

(* every contact of mjraw_SphereSphere is within the margin *)
Lemma rawSS_margin (margin : R) (c1 : vec3 R) (m1 : mat3 R) (r1 : R) (c2 : vec3 R) (m2 : mat3 R) (r2 : R) (c : precon R) :
  0 <= margin + r1 + r2 -> In c (rawSphereSphere margin c1 m1 r1 c2 m2 r2) -> pc_dist c <= margin.
Proof.
  intros M I. rewrite rawSS_eq in I by assumption. destruct (Rle_dec _ _) as [L|L]; [|contradiction].
  destruct I as [<-|[]]. exact L.
Qed.

(* ============================================================================================ *)
(* plane : sphere                                                                                 *)
Definition psDist (c1 n c2 : vec3 R) (r : R) : R := dot3 (sub3 c2 c1) n - r.
Definition psContact (c1 n c2 : vec3 R) (r : R) : precon R :=
  let d := psDist c1 n c2 r in (d, add3 c2 (scl3 n (- d / 2 - r)), n, zero3).
Lemma rawPS_eq (margin : R) (c1 : vec3 R) (m1 : mat3 R) (c2 : vec3 R) (r : R) :
  rawPlaneSphere margin c1 m1 c2 r =
  if Rle_dec (psDist c1 (zaxis m1) c2 r) margin then [psContact c1 (zaxis m1) c2 r] else [].
Proof.
  unfold rawPlaneSphere, psContact, psDist. nR.
  destruct (Rle_dec _ _) as [L|L].
  - assert (F : Rltb (margin + r) (dot3 (sub3 c2 c1) (zaxis m1)) = false) by (apply Rltb_false; lra).
    rewrite F. reflexivity.
  - assert (F : Rltb (margin + r) (dot3 (sub3 c2 c1) (zaxis m1)) = true) by (apply Rltb_true; lra).
    rewrite F. reflexivity.
Qed.
Lemma ps_geometry (c1 n c2 : vec3 R) (r : R) :
  let d := psDist c1 n c2 r in
  let p1 := sub3 c2 (scl3 n (dot3 (sub3 c2 c1) n)) in      (* foot of the centre on the plane *)
  let p2 := sub3 c2 (scl3 n r) in                          (* lowest point of the sphere *)
  pc_pos (psContact c1 n c2 r) = scl3 (add3 p1 p2) (/ 2) /\ sub3 p2 p1 = scl3 n d /\
  (dot3 n n = 1 -> dot3 (sub3 p1 c1) n = 0).
Proof.
  intros d p1 p2. unfold pc_pos, psContact. fold d. unfold p1, p2, d, psDist.
  split; [|split].
  - dv c1; dv c2; dv n. unfold add3, sub3, scl3, dot3. nR. apply vec_ext; field.
  - dv c1; dv c2; dv n. unfold add3, sub3, scl3, dot3. nR. apply vec_ext; ring.
  - intros U. rewrite !dot3_sub_l, dot3_scl_l, U. ring.
Qed.
Lemma ps_lower_bound (c1 n c2 : vec3 R) (r : R) (x y : vec3 R) :
  dot3 n n = 1 -> dot3 (sub3 x c1) n <= 0 -> norm3 (sub3 y c2) <= r -> psDist c1 n c2 r <= norm3 (sub3 y x).
Proof.
  intros U X Y. unfold psDist. apply norm3_unit in U.
  pose proof (cauchy_schwarz (sub3 y x) n) as C1. pose proof (cauchy_schwarz (sub3 c2 y) n) as C2.
  rewrite U in C1, C2. rewrite (norm3_sub_sym c2 y) in C2.
  rewrite !dot3_sub_l in *. lra.
Qed.
Lemma ps_attained (c1 n c2 : vec3 R) (r : R) :
  dot3 n n = 1 -> 0 <= r -> 0 <= psDist c1 n c2 r ->
  let p1 := sub3 c2 (scl3 n (dot3 (sub3 c2 c1) n)) in
  let p2 := sub3 c2 (scl3 n r) in
  dot3 (sub3 p1 c1) n <= 0 /\ norm3 (sub3 p2 c2) <= r /\ norm3 (sub3 p2 p1) = psDist c1 n c2 r.
Proof.
  intros U R0 S p1 p2. destruct (ps_geometry c1 n c2 r) as [_ [G Z]]. fold p1 p2 in G, Z.
  split; [rewrite (Z U); lra|]. pose proof (norm3_unit n U) as U1.
  assert (E2 : sub3 p2 c2 = scl3 n (- r)) by (unfold p2; dv c2; dv n; unfold sub3, scl3; nR; apply vec_ext; ring).
  rewrite E2, G, !norm3_scl, U1, Rabs_Ropp, !Rabs_pos_eq by lra. lra.
Qed.
Lemma rawPS_margin (margin : R) (c1 : vec3 R) (m1 : mat3 R) (c2 : vec3 R) (r : R) (c : precon R) :
  In c (rawPlaneSphere margin c1 m1 c2 r) -> pc_dist c <= margin.
Proof.
  intros I. rewrite rawPS_eq in I. destruct (Rle_dec _ _) as [L|L]; [|contradiction].
  destruct I as [<-|[]]. exact L.
Qed.

(* ============================================================================================ *)
(* plane : capsule                                                                                *)
Definition capEndP (c2 a : vec3 R) (len : R) : vec3 R := add3 c2 (scl3 a len).
Definition capEndM (c2 a : vec3 R) (len : R) : vec3 R := sub3 c2 (scl3 a len).
Lemma planeCapsule_eq (margin : R) (c1 : vec3 R) (m1 : mat3 R) (c2 : vec3 R) (m2 : mat3 R) (r len : R) :
  let n := zaxis m1 in let a := zaxis m2 in
  planeCapsule margin c1 m1 c2 m2 r len =
  map (setTangent a)
      ((if Rle_dec (psDist c1 n (capEndP c2 a len) r) margin then [psContact c1 n (capEndP c2 a len) r] else []) ++
       (if Rle_dec (psDist c1 n (capEndM c2 a len) r) margin then [psContact c1 n (capEndM c2 a len) r] else [])).
Proof. intros n a. unfold planeCapsule. rewrite !rawPS_eq. reflexivity. Qed.

Lemma pc_lower_bound (c1 n c2 a : vec3 R) (r len s : R) (x y : vec3 R) :
  dot3 n n = 1 -> - len <= s <= len ->
  dot3 (sub3 x c1) n <= 0 -> norm3 (sub3 y (add3 c2 (scl3 a s))) <= r ->
  Rmin (psDist c1 n (capEndP c2 a len) r) (psDist c1 n (capEndM c2 a len) r) <= norm3 (sub3 y x).
Proof.
  intros U S X Y. pose proof (ps_lower_bound c1 n (add3 c2 (scl3 a s)) r x y U X Y) as B.
  unfold psDist, capEndP, capEndM in *. rewrite !dot3_sub_l, ?dot3_add_l, ?dot3_scl_l in *.
  set (k := dot3 a n) in *. clearbody k. destruct S as [S1 S2].
  assert (K : s * k >= - len * k \/ s * k >= len * k).
  { destruct (Rle_dec 0 k) as [K|K].
    - left. assert (0 <= (s + len) * k) by (apply Rmult_le_pos; lra). lra.
    - right. assert (0 <= (len - s) * (- k)) by (apply Rmult_le_pos; lra). lra. }
  unfold Rmin. destruct (Rle_dec _ _); lra.
Qed.
Lemma planeCapsule_margin (margin : R) (c1 : vec3 R) (m1 : mat3 R) (c2 : vec3 R) (m2 : mat3 R) (r len : R) (c : precon R) :
  In c (planeCapsule margin c1 m1 c2 m2 r len) -> pc_dist c <= margin /\ pc_tangent c = zaxis m2 /\ pc_normal c = zaxis m1.
Proof.
  intros I. unfold planeCapsule in I. apply in_map_iff in I. destruct I as [c0 [E I]]. subst c.
  apply in_app_or in I.
  assert (G : forall cc : precon R, pc_dist cc <= margin -> pc_normal cc = zaxis m1 ->
              pc_dist (setTangent (zaxis m2) cc) <= margin /\ pc_tangent (setTangent (zaxis m2) cc) = zaxis m2 /\
              pc_normal (setTangent (zaxis m2) cc) = zaxis m1).
  { intros [[[d p] nn] t]. cbn. auto. }
  destruct I as [I|I]; pose proof (rawPS_margin _ _ _ _ _ _ I) as M; rewrite rawPS_eq in I;
    destruct (Rle_dec _ _); try contradiction; destruct I as [<-|[]]; apply G; auto.
Qed.

(* ============================================================================================ *)
(* sphere : capsule                                                                               *)
Lemma clip_spec (x lo hi : R) : lo <= hi ->
  lo <= clip x lo hi <= hi /\ (lo <= x <= hi -> clip x lo hi = x) /\ (x < lo -> clip x lo hi = lo) /\ (hi < x -> clip x lo hi = hi).
Proof.
  intros L. unfold clip. nR. destruct (Rltb x lo) eqn:A; [apply Rltb_true in A|apply Rltb_false in A].
  - repeat split; intros; lra.
  - destruct (Rltb hi x) eqn:B; [apply Rltb_true in B|apply Rltb_false in B]; repeat split; intros; lra.
Qed.
Definition scPoint (c1 c2 a : vec3 R) (len : R) : vec3 R :=
  add3 (scl3 a (clip (dot3 a (sub3 c1 c2)) (- len) len)) c2.
Lemma sphereCapsule_eq (margin : R) (c1 : vec3 R) (m1 : mat3 R) (r1 : R) (c2 : vec3 R) (m2 : mat3 R) (r2 len : R) :
  sphereCapsule margin c1 m1 r1 c2 m2 r2 len = rawSphereSphere margin c1 m1 r1 (scPoint c1 c2 (zaxis m2) len) m2 r2.
Proof. reflexivity. Qed.
Lemma seg_dist_sq (c1 c2 a : vec3 R) (t : R) :
  dot3 (sub3 (add3 (scl3 a t) c2) c1) (sub3 (add3 (scl3 a t) c2) c1) =
  dot3 (sub3 c1 c2) (sub3 c1 c2) - 2 * t * dot3 a (sub3 c1 c2) + t * t * dot3 a a.
Proof. dv c1; dv c2; dv a. unfold dot3, sub3, add3, scl3. nR. ring. Qed.
(* the clipped projection is the nearest point of the segment *)
Lemma sc_nearest (c1 c2 a : vec3 R) (len s : R) :
  dot3 a a = 1 -> 0 <= len -> - len <= s <= len ->
  norm3 (sub3 (scPoint c1 c2 a len) c1) <= norm3 (sub3 (add3 (scl3 a s) c2) c1).
Proof.
  intros U L S. apply sq_le. apply norm3_nonneg. rewrite !norm3_sq. unfold scPoint. rewrite !seg_dist_sq, U.
  set (k := dot3 a (sub3 c1 c2)). destruct (clip_spec k (- len) len) as [R1 [R2 [R3 R4]]]; [lra|].
  destruct (Rlt_dec k (- len)) as [A|A]; [rewrite (R3 A); nra|].
  destruct (Rlt_dec len k) as [B|B]; [rewrite (R4 B); nra|].
  rewrite R2 by lra. pose proof (Rle_0_sqr (s - k)) as Q. unfold Rsqr in Q. clearbody k. lra.
Qed.
Lemma sc_on_segment (c1 c2 a : vec3 R) (len : R) : 0 <= len ->
  exists s : R, - len <= s <= len /\ scPoint c1 c2 a len = add3 (scl3 a s) c2.
Proof.
  intros L. exists (clip (dot3 a (sub3 c1 c2)) (- len) len). split; [|reflexivity].
  apply clip_spec. lra.
Qed.
Lemma sc_lower_bound (c1 : vec3 R) (r1 : R) (c2 a : vec3 R) (r2 len s : R) (x y : vec3 R) :
  dot3 a a = 1 -> 0 <= len -> - len <= s <= len ->
  norm3 (sub3 x c1) <= r1 -> norm3 (sub3 y (add3 (scl3 a s) c2)) <= r2 ->
  ssDist c1 r1 (scPoint c1 c2 a len) r2 <= norm3 (sub3 y x).
Proof.
  intros U L S X Y. pose proof (ss_lower_bound c1 r1 (add3 (scl3 a s) c2) r2 x y X Y) as B.
  pose proof (sc_nearest c1 c2 a len s U L S). unfold ssDist in *. lra.
Qed.

(* ============================================================================================ *)
(* capsule : capsule (general arm only)                                                           *)
Lemma capsuleParams_range (ma mb mc u v det : R) :
  -1 <= fst (capsuleParams ma mb mc u v det) <= 1 /\ -1 <= snd (capsuleParams ma mb mc u v det) <= 1.
Proof.
  unfold capsuleParams. nR.
  set (x1 := (mc * u - mb * v) / det). set (x2 := (ma * v - mb * u) / det).
  pose proof (clip_spec ((u - mb) / ma) (-1) 1) as [C1 _]; [lra|].
  pose proof (clip_spec ((u + mb) / ma) (-1) 1) as [C2 _]; [lra|].
  replace (- (1)) with (-1) in * by lra.
  destruct (Rltb 1 x1) eqn:A; [|destruct (Rltb x1 (-1)) eqn:A'];
    try apply Rltb_true in A; try apply Rltb_false in A; try apply Rltb_true in A'; try apply Rltb_false in A'.
  - destruct (Rltb 1 ((v - mb) / mc)) eqn:B; [|destruct (Rltb ((v - mb) / mc) (-1)) eqn:B'];
      try apply Rltb_true in B; try apply Rltb_false in B; try apply Rltb_true in B'; try apply Rltb_false in B';
      cbn [fst snd]; lra.
  - destruct (Rltb 1 ((v + mb) / mc)) eqn:B; [|destruct (Rltb ((v + mb) / mc) (-1)) eqn:B'];
      try apply Rltb_true in B; try apply Rltb_false in B; try apply Rltb_true in B'; try apply Rltb_false in B';
      cbn [fst snd]; lra.
  - destruct (Rltb 1 x2) eqn:B; [|destruct (Rltb x2 (-1)) eqn:B'];
      try apply Rltb_true in B; try apply Rltb_false in B; try apply Rltb_true in B'; try apply Rltb_false in B';
      cbn [fst snd]; lra.
Qed.

Definition ccCoef (c1 : vec3 R) (m1 : mat3 R) (len1 : R) (c2 : vec3 R) (m2 : mat3 R) (len2 : R) : R * R * R * R * R * R :=
  let axis1 := scl3 (zaxis m1) len1 in let axis2 := scl3 (zaxis m2) len2 in let dif := sub3 c1 c2 in
  let ma := dot3 axis1 axis1 in let mb := - dot3 axis1 axis2 in let mc := dot3 axis2 axis2 in
  let u := - dot3 axis1 dif in let v := dot3 axis2 dif in
  (ma, mb, mc, u, v, ma * mc - mb * mb).
Lemma capsuleCapsule_general (margin : R) (c1 : vec3 R) (m1 : mat3 R) (r1 len1 : R) (c2 : vec3 R) (m2 : mat3 R) (r2 len2 : R) :
  let '(ma, mb, mc, u, v, det) := ccCoef c1 m1 len1 c2 m2 len2 in
  mjMINVAL <= Rabs det ->
  exists x1 x2 : R, -1 <= x1 <= 1 /\ -1 <= x2 <= 1 /\ (x1, x2) = capsuleParams ma mb mc u v det /\
    capsuleCapsule margin c1 m1 r1 len1 c2 m2 r2 len2 =
    rawSphereSphere margin (add3 (scl3 (scl3 (zaxis m1) len1) x1) c1) m1 r1 (add3 (scl3 (scl3 (zaxis m2) len2) x2) c2) m2 r2.
Proof.
  unfold ccCoef. intros D. unfold capsuleCapsule. nR.
  apply Rleb_true in D. rewrite D.
  set (P := capsuleParams _ _ _ _ _ _).
  pose proof (capsuleParams_range (dot3 (scl3 (zaxis m1) len1) (scl3 (zaxis m1) len1))
               (- dot3 (scl3 (zaxis m1) len1) (scl3 (zaxis m2) len2)) (dot3 (scl3 (zaxis m2) len2) (scl3 (zaxis m2) len2))
               (- dot3 (scl3 (zaxis m1) len1) (sub3 c1 c2)) (dot3 (scl3 (zaxis m2) len2) (sub3 c1 c2))
               (dot3 (scl3 (zaxis m1) len1) (scl3 (zaxis m1) len1) * dot3 (scl3 (zaxis m2) len2) (scl3 (zaxis m2) len2) -
                - dot3 (scl3 (zaxis m1) len1) (scl3 (zaxis m2) len2) * - dot3 (scl3 (zaxis m1) len1) (scl3 (zaxis m2) len2))) as Rg.
  fold P in Rg. destruct P as [x1 x2]. cbn [fst snd] in Rg. exists x1, x2. repeat split; try lra.
Qed.

Lemma capsuleCapsule_margin (margin : R) (c1 : vec3 R) (m1 : mat3 R) (r1 len1 : R) (c2 : vec3 R) (m2 : mat3 R) (r2 len2 : R) (c : precon R) :
  0 <= margin + r1 + r2 -> In c (capsuleCapsule margin c1 m1 r1 len1 c2 m2 r2 len2) ->
  pc_dist c <= margin /\ dot3 (pc_normal c) (pc_normal c) = 1.
Proof.
  intros M I.
  assert (G : forall p1 p2 : vec3 R, In c (rawSphereSphere margin p1 m1 r1 p2 m2 r2) ->
              pc_dist c <= margin /\ dot3 (pc_normal c) (pc_normal c) = 1).
  { intros p1 p2 J. split. eapply rawSS_margin; eauto.
    rewrite rawSS_eq in J by assumption. destruct (Rle_dec _ _); [|contradiction]. destruct J as [<-|[]].
    cbn. apply ssNormal_unit. }
  unfold capsuleCapsule in I.
  repeat match type of I with
         | In _ (if ?b then _ else _) => destruct b
         | In _ (let '(_, _) := ?p in _) => destruct p
         | In _ (_ ++ _) => apply in_app_or in I; destruct I as [I|I]
         end; eapply G; eauto.
Qed.

(* ============================================================================================ *)
(* analytic arm of mj_geomDistance                                                                *)
Lemma smallest_spec (cons : list (precon R)) : forall (best : R) (arg : option (precon R)),
  let r := smallest cons best arg in
  fst r <= best /\ (forall c : precon R, In c cons -> fst r <= pc_dist c) /\
  ((fst r = best /\ snd r = arg) \/ (exists c : precon R, In c cons /\ snd r = Some c /\ fst r = pc_dist c /\ fst r < best)).
Proof.
  induction cons as [|c0 rest IH]; intros best arg; cbn [smallest].
  - cbn. repeat split; try lra. intros c []. left; auto.
  - nR. destruct (Rltb (pc_dist c0) best) eqn:A; [apply Rltb_true in A|apply Rltb_false in A].
    + destruct (IH (pc_dist c0) (Some c0)) as [B1 [B2 B3]]. cbv zeta. repeat split.
      * lra.
      * intros c [<-|J]; [exact B1|apply B2; exact J].
      * right. destruct B3 as [[E1 E2]|[c [J [E1 [E2 E3]]]]].
        -- exists c0. repeat split; auto with datatypes. lra.
        -- exists c. repeat split; auto with datatypes. lra.
    + destruct (IH best arg) as [B1 [B2 B3]]. cbv zeta. repeat split.
      * exact B1.
      * intros c [<-|J]; [lra|apply B2; exact J].
      * destruct B3 as [B3|[c [J [E1 [E2 E3]]]]]; [left; exact B3|right].
        exists c. repeat split; auto with datatypes.
Qed.

Definition gdDist (r : R * vec3 R * vec3 R) : R := let '(d, _, _) := r in d.
Definition gdFrom (r : R * vec3 R * vec3 R) : vec3 R := let '(_, f, _) := r in f.
Definition gdTo (r : R * vec3 R * vec3 R) : vec3 R := let '(_, _, t) := r in t.

Lemma geomDistance_spec (flip : bool) (cons : list (precon R)) (distmax : R) :
  let r := geomDistance flip cons distmax in
  gdDist r <= distmax /\ (forall c : precon R, In c cons -> gdDist r <= pc_dist c) /\
  ((gdDist r = distmax /\ gdFrom r = zero3 /\ gdTo r = zero3) \/
   (exists c : precon R, In c cons /\ gdDist r = pc_dist c /\ pc_dist c < distmax /\
      let s := if flip then -1 else 1 in
      gdFrom r = sub3 (pc_pos c) (scl3 (pc_normal c) (s * pc_dist c / 2)) /\
      gdTo r = add3 (pc_pos c) (scl3 (pc_normal c) (s * pc_dist c / 2)))).
Proof.
  unfold geomDistance. pose proof (smallest_spec cons distmax None) as S. cbv zeta in S.
  destruct (smallest cons distmax None) as [d [c|]]; cbn [fst snd] in S; destruct S as [S1 [S2 S3]].
  - destruct S3 as [[_ E]|[c' [J [E1 [E2 E3]]]]]; [discriminate|]. inversion E1; subst c'.
    cbn [gdDist gdFrom gdTo]. repeat split; auto. right. exists c. repeat split; auto; try lra.
    + destruct flip; destruct c as [[[dd p] nn] t]; cbn [pc_pos pc_normal pc_dist] in *; subst d; dv p; dv nn; unfold add3, sub3, scl3; nR;
        rewrite cp_half; apply vec_ext; field.
    + destruct flip; destruct c as [[[dd p] nn] t]; cbn [pc_pos pc_normal pc_dist] in *; subst d; dv p; dv nn; unfold add3, sub3, scl3; nR;
        rewrite cp_half; apply vec_ext; field.
  - destruct S3 as [[E _]|[c' [J [E1 _]]]]; [|discriminate]. cbn [gdDist gdFrom gdTo].
    split; [exact S1|]. split; [exact S2|]. left. repeat split; auto.
Qed.

(* swapping the two geoms (flip) returns the same distance with the witness points exchanged *)
Lemma geomDistance_flip (cons : list (precon R)) (distmax : R) :
  gdDist (geomDistance true cons distmax) = gdDist (geomDistance false cons distmax) /\
  gdFrom (geomDistance true cons distmax) = gdTo (geomDistance false cons distmax) /\
  gdTo (geomDistance true cons distmax) = gdFrom (geomDistance false cons distmax).
Proof.
  unfold geomDistance. destruct (smallest cons distmax None) as [d [c|]]; cbn [gdDist gdFrom gdTo]; [|auto].
  destruct c as [[[dd p] nn] t]. cbn [pc_pos pc_normal pc_dist gdDist gdFrom gdTo]. dv p; dv nn. unfold add3, scl3. nR. rewrite cp_half.
  repeat split; apply vec_ext; field.
Qed.

(* ============================================================================================ *)
(* frame completion of a pre-contact (mj_narrowphase + mj_setContact)                            *)
Lemma contactFrame_spec (c : precon R) :
  dot3 (pc_normal c) (pc_normal c) = 1 ->
  exists y z : vec3 R, contactFrame c = Some (pc_normal c, y, z) /\ orthoframe (pc_normal c) y z.
Proof.
  intros U. unfold contactFrame. pose proof (norm3_unit _ U) as N.
  destruct (makeFrame_some (pc_normal c) (pc_tangent c)) as [F O]; [lra|].
  rewrite scl_unit_id in F, O by assumption. eexists _, _. split; [exact F|exact O].
Qed.

(* ============================================================================================ *)
(* capsule : capsule, parallel arm: when both end points of capsule 1 give a contact the function
   returns exactly those two contacts                                                            *)
Lemma capsuleCapsule_parallel_two (margin : R) (c1 : vec3 R) (m1 : mat3 R) (r1 len1 : R) (c2 : vec3 R) (m2 : mat3 R) (r2 len2 : R) :
  let '(ma, mb, mc, u, v, det) := ccCoef c1 m1 len1 c2 m2 len2 in
  let axis1 := scl3 (zaxis m1) len1 in
  let axis2 := scl3 (zaxis m2) len2 in
  let q2a := add3 (scl3 axis2 (clip ((v - mb) / mc) (- (1)) 1)) c2 in
  let q2b := add3 (scl3 axis2 (clip ((v + mb) / mc) (- (1)) 1)) c2 in
  Rabs det < mjMINVAL -> 0 <= margin + r1 + r2 ->
  ssDist (add3 c1 axis1) r1 q2a r2 <= margin -> ssDist (sub3 c1 axis1) r1 q2b r2 <= margin ->
  capsuleCapsule margin c1 m1 r1 len1 c2 m2 r2 len2 =
  [ssContact (add3 c1 axis1) m1 r1 q2a m2 r2; ssContact (sub3 c1 axis1) m1 r1 q2b m2 r2].
Proof.
  unfold ccCoef. cbv zeta. intros D M A B. unfold capsuleCapsule. nR.
  apply Rleb_false in D. rewrite D. rewrite !rawSS_eq by assumption.
  destruct (Rle_dec _ _) as [_|N]; [|contradiction].
  destruct (Rle_dec _ _) as [_|N]; [|contradiction].
  reflexivity.
Qed.

Definition I3 : mat3 R := (1, 0, 0, 0, 1, 0, 0, 0, 1).
Lemma capsule_parallel_witness :
  let margin := 10 in let c1 : vec3 R := (0, 0, 0) in let c2 : vec3 R := (3, 0, 0) in
  capsuleCapsule margin c1 I3 1 5 c2 I3 1 1 =
  [ssContact (0, 0, 5) I3 1 (3, 0, 1) I3 1; ssContact (0, 0, -5) I3 1 (3, 0, -1) I3 1] /\
  ssDist (0, 0, 5) 1 (3, 0, 1) 1 = 3 /\ ssDist (0, 0, -5) 1 (3, 0, -1) 1 = 3.
Proof.
  cbv zeta.
  assert (N1 : norm3 (sub3 (3, 0, 1) (0, 0, 5)) = 5) by (apply norm3_eq; [lra|unfold dot3, sub3; nR; ring]).
  assert (N2 : norm3 (sub3 (3, 0, -1) (0, 0, -5)) = 5) by (apply norm3_eq; [lra|unfold dot3, sub3; nR; ring]).
  assert (D1 : ssDist (0, 0, 5) 1 (3, 0, 1) 1 = 3) by (unfold ssDist; rewrite N1; lra).
  assert (D2 : ssDist (0, 0, -5) 1 (3, 0, -1) 1 = 3) by (unfold ssDist; rewrite N2; lra).
  split; [|split; assumption].
  pose proof (capsuleCapsule_parallel_two 10 (0, 0, 0) I3 1 5 (3, 0, 0) I3 1 1) as P.
  unfold ccCoef in P. cbv zeta in P.
  (* evaluate the concrete coefficients *)
  assert (Ea : add3 (0, 0, 0) (scl3 (zaxis I3) 5) = (0, 0, 5)) by (unfold I3, zaxis, add3, scl3; nR; apply vec_ext; ring).
  assert (Eb : sub3 (0, 0, 0) (scl3 (zaxis I3) 5) = (0, 0, -5)) by (unfold I3, zaxis, sub3, scl3; nR; apply vec_ext; ring).
  set (A1 := scl3 (zaxis I3) 5) in *. set (A2 := scl3 (zaxis I3) 1) in *.
  assert (V1 : (dot3 A2 (sub3 (0, 0, 0) (3, 0, 0)) - - dot3 A1 A2) / dot3 A2 A2 = 5)
    by (unfold A1, A2, I3, zaxis, dot3, sub3, scl3; nR; field).
  assert (V2 : (dot3 A2 (sub3 (0, 0, 0) (3, 0, 0)) + - dot3 A1 A2) / dot3 A2 A2 = -5)
    by (unfold A1, A2, I3, zaxis, dot3, sub3, scl3; nR; field).
  rewrite V1, V2 in P.
  destruct (clip_spec 5 (- (1)) 1) as [_ [_ [_ C1]]]; [lra|]. rewrite C1 in P by lra.
  destruct (clip_spec (-5) (- (1)) 1) as [_ [_ [C2 _]]]; [lra|]. rewrite C2 in P by lra.
  assert (Q1 : add3 (scl3 A2 1) (3, 0, 0) = (3, 0, 1)) by (unfold A2, I3, zaxis, add3, scl3; nR; apply vec_ext; ring).
  assert (Q2 : add3 (scl3 A2 (- (1))) (3, 0, 0) = (3, 0, -1)) by (unfold A2, I3, zaxis, add3, scl3; nR; apply vec_ext; ring).
  rewrite Ea, Eb, Q1, Q2 in P. apply P.
  - replace (dot3 A1 A1 * dot3 A2 A2 - - dot3 A1 A2 * - dot3 A1 A2) with 0
      by (unfold A1, A2, I3, zaxis, dot3, scl3; nR; ring).
    rewrite Rabs_R0. apply cp_minval_pos.
  - lra.
  - rewrite D1. lra.
  - rewrite D2. lra.
Qed.

(* the parallel arm can report a distance larger than the true one: capsule 1 (half-length 5)
   overhangs capsule 2 (half-length 1) on both sides; both contacts report 3, the centres are at
   distance 3 - 1 - 1 = 1 *)
Lemma capsule_parallel_refuted :
  exists (margin : R) (c1 : vec3 R) (m1 : mat3 R) (r1 len1 : R) (c2 : vec3 R) (m2 : mat3 R) (r2 len2 : R),
    dot3 (zaxis m1) (zaxis m1) = 1 /\ dot3 (zaxis m2) (zaxis m2) = 1 /\
    0 < r1 /\ 0 < r2 /\ 0 < len1 /\ 0 < len2 /\ 0 <= margin /\
    capsuleCapsule margin c1 m1 r1 len1 c2 m2 r2 len2 <> [] /\
    (forall c : precon R, In c (capsuleCapsule margin c1 m1 r1 len1 c2 m2 r2 len2) -> pc_dist c = 3) /\
    (exists s t : R, - len1 <= s <= len1 /\ - len2 <= t <= len2 /\
       norm3 (sub3 (add3 c2 (scl3 (zaxis m2) t)) (add3 c1 (scl3 (zaxis m1) s))) - r1 - r2 = 1).
Proof.
  destruct capsule_parallel_witness as [W [D1 D2]]. cbv zeta in W.
  exists 10, (0, 0, 0), I3, 1, 5, (3, 0, 0), I3, 1, 1.
  assert (U : dot3 (zaxis I3) (zaxis I3) = 1) by (unfold I3, zaxis, dot3; nR; ring).
  repeat split; try lra; try exact U.
  - rewrite W. discriminate.
  - intros c I. rewrite W in I. destruct I as [<-|[<-|[]]]; cbn; assumption.
  - exists 0, 0. repeat split; try lra.
    replace (norm3 _) with 3; [lra|]. symmetry. apply norm3_eq; [lra|].
    unfold I3, zaxis, dot3, sub3, add3, scl3. nR. ring.
Qed.

(* ============================================================================================ *)
(* sphere : cylinder, deep arm (sphere centre inside the cylinder)                                *)
Lemma sphereCylinder_deep (margin : R) (c1 : vec3 R) (m1 : mat3 R) (r : R) (c2 : vec3 R) (m2 : mat3 R) (Rc h : R) :
  let a := zaxis m2 in
  let x := dot3 a (sub3 c1 c2) in
  let rho := norm3 (sub3 (sub3 c1 c2) (scl3 a x)) in
  dot3 a a = 1 -> Rabs x < h -> rho < Rc -> 0 <= margin + r + Rc ->
  let d := - Rmin (h - Rabs x) (Rc - rho) - r in
  (margin < d -> sphereCylinder margin c1 m1 r c2 m2 Rc h = []) /\
  (d <= margin -> exists (pos n : vec3 R), sphereCylinder margin c1 m1 r c2 m2 Rc h = [(d, pos, n, zero3)]).
Proof.
  intros a x rho U X RH M d.
  pose proof (norm3_nonneg (sub3 (sub3 c1 c2) (scl3 a x))) as RP. fold rho in RP.
  pose proof (norm3_sq (sub3 (sub3 c1 c2) (scl3 a x))) as RS. fold rho in RS.
  unfold sphereCylinder. fold a. fold x. nR.
  change (sqrt (dot3 (sub3 (sub3 c1 c2) (scl3 a x)) (sub3 (sub3 c1 c2) (scl3 a x)))) with rho.
  rewrite <- RS.
  assert (S0 : Rltb (Rabs x) h = true) by (apply Rltb_true; exact X).
  assert (C0 : Rltb (rho * rho) (Rc * Rc) = true) by (apply Rltb_true; nra).
  rewrite S0, C0. cbn [andb].
  destruct (Rltb (h - Rabs x) (Rc - rho)) eqn:CN; [apply Rltb_true in CN|apply Rltb_false in CN]; cbn [negb].
  - (* cap arm *)
    assert (Dm : d = - (h - Rabs x) - r) by (unfold d, Rmin; destruct (Rle_dec _ _); lra).
    destruct m2 as [[[[[[[[m20 m21] m22] m23] m24] m25] m26] m27] m28].
    destruct (Rltb 0 x) eqn:TX; [apply Rltb_true in TX|apply Rltb_false in TX]; rewrite rawPS_eq; unfold psDist.
    + assert (E : dot3 (sub3 c1 (add3 c2 (scl3 a h))) (zaxis (m20, m21, m22, m23, m24, m25, m26, m27, m28)) - r = d).
      { change (zaxis (m20, m21, m22, m23, m24, m25, m26, m27, m28)) with a.
        rewrite Dm, Rabs_pos_eq by lra.
        assert (Q : dot3 (sub3 c1 (add3 c2 (scl3 a h))) a = x - h * dot3 a a).
        { unfold x. dv c1; dv c2; dv a. unfold dot3, sub3, add3, scl3. nR. ring. }
        rewrite Q, U. ring. }
      rewrite E. split; intros L; destruct (Rle_dec d margin); try lra; [reflexivity|].
      cbn [map flipNormal psContact]. unfold psContact, psDist. rewrite E. cbn [map flipNormal]. eexists _, _. reflexivity.
    + assert (E : dot3 (sub3 c1 (add3 c2 (scl3 a (- h)))) (zaxis (- m20, m21, - m22, - m23, m24, - m25, - m26, m27, - m28)) - r = d).
      { rewrite Dm, Rabs_left1 by lra.
        assert (Q : dot3 (sub3 c1 (add3 c2 (scl3 a (- h)))) (zaxis (- m20, m21, - m22, - m23, m24, - m25, - m26, m27, - m28)) = - x - h * dot3 a a).
        { unfold x, a, zaxis. dv c1; dv c2. unfold dot3, sub3, add3, scl3. nR. ring. }
        rewrite Q, U. ring. }
      rewrite E. split; intros L; destruct (Rle_dec d margin); try lra; [reflexivity|].
      unfold psContact, psDist. rewrite E. cbn [map flipNormal]. eexists _, _. reflexivity.
  - (* side arm *)
    assert (Dm : d = - (Rc - rho) - r) by (unfold d, Rmin; destruct (Rle_dec _ _); lra).
    rewrite rawSS_eq by assumption. unfold ssDist.
    assert (E : norm3 (sub3 (add3 (scl3 a x) c2) c1) = rho).
    { unfold rho. rewrite norm3_sub_sym. f_equal. dv c1; dv c2; dv a. unfold sub3, add3, scl3. nR. apply vec_ext; ring. }
    rewrite E. replace (rho - r - Rc) with d by lra.
    split; intros L; destruct (Rle_dec d margin); try lra; [reflexivity|].
    unfold ssContact, ssDist. rewrite E. replace (rho - r - Rc) with d by lra. eexists _, _. reflexivity.
Qed.

(* ============================================================================================ *)
(* final statements, restated verbatim in Props/C13.v *)
Lemma C13_frame_l :
forall xin yin : vec3 R,
  (norm3 xin < / 2 -> makeFrame xin yin = None) /\
  (/ 2 <= norm3 xin ->
     exists x y z : vec3 R,
       makeFrame xin yin = Some (x, y, z) /\ x = scl3 xin (1 / norm3 xin) /\
       (dot3 x x = 1 /\ dot3 y y = 1 /\ dot3 z z = 1 /\ dot3 x y = 0 /\ dot3 x z = 0 /\ dot3 y z = 0 /\
       z = cross x y /\ dot3 x (cross y z) = 1) /\
       (let dflt := if Rlt_dec (Rabs (let '(_, b, _) := x in b)) (/ 2) then (0, 1, 0) else (0, 0, 1) in
        let cand := if Rlt_dec (dot3 yin yin) (/ 4) then dflt else yin in
        let rej := fun w : vec3 R => sub3 w (scl3 x (dot3 x w)) in
        y = if Rlt_dec (norm3 (rej cand)) mjMINVAL then scl3 (rej dflt) (1 / norm3 (rej dflt))
            else scl3 (rej cand) (1 / norm3 (rej cand)))).
Proof.
  intros xin yin. split. apply makeFrame_none.
  intros L. destruct (makeFrame_some xin yin L) as [F O]. cbv zeta in F, O.
  set (x := scl3 xin (1 / norm3 xin)) in *.
  eexists x, _, _. split; [exact F|]. split; [reflexivity|]. split; [exact O|].
  cbv zeta. unfold yAxis, yCandidate, reject.
  destruct (defaultY_cases x) as [[A E]|[A E]]; unfold second in A; rewrite E;
    match goal with |- context [Rlt_dec (Rabs ?t) (/ 2)] => destruct (Rlt_dec (Rabs t) (/ 2)) end; try lra; reflexivity.
Qed.

Lemma C13_contact_frame_l :
forall c : precon R,
  dot3 (pc_normal c) (pc_normal c) = 1 ->
  exists y z : vec3 R,
    contactFrame c = Some (pc_normal c, y, z) /\
    (let x := pc_normal c in dot3 x x = 1 /\ dot3 y y = 1 /\ dot3 z z = 1 /\ dot3 x y = 0 /\ dot3 x z = 0 /\ dot3 y z = 0 /\
       z = cross x y /\ dot3 x (cross y z) = 1).
Proof.
  intros c U. destruct (contactFrame_spec c U) as [y [z [F O]]]. exists y, z. split; [exact F|exact O].
Qed.

Lemma C13_sphere_sphere_l :
forall (margin : R) (c1 : vec3 R) (m1 : mat3 R) (r1 : R) (c2 : vec3 R) (m2 : mat3 R) (r2 : R),
  0 <= margin + r1 + r2 ->
  let D := norm3 (sub3 c2 c1) in
  let d := D - r1 - r2 in
  (margin < d -> rawSphereSphere margin c1 m1 r1 c2 m2 r2 = []) /\
  (d <= margin ->
     exists (pos n : vec3 R),
       rawSphereSphere margin c1 m1 r1 c2 m2 r2 = [(d, pos, n, zero3)] /\ dot3 n n = 1 /\
       pos = add3 (scl3 n (r1 + d / 2)) c1 /\
       (D < mjMINVAL -> n = fst (normalize3 (cross (zaxis m1) (zaxis m2)))) /\
       (mjMINVAL <= D ->
          n = scl3 (sub3 c2 c1) (1 / D) /\
          let p1 := add3 c1 (scl3 n r1) in
          let p2 := sub3 c2 (scl3 n r2) in
          pos = scl3 (add3 p1 p2) (/ 2) /\ sub3 p2 p1 = scl3 n d)).
Proof.
  intros margin c1 m1 r1 c2 m2 r2 M D d. rewrite rawSS_eq by assumption. unfold ssDist. fold D. fold d. split.
  - intros L. destruct (Rle_dec d margin); [lra|reflexivity].
  - intros L. destruct (Rle_dec d margin); [|lra].
    exists (add3 (scl3 (ssNormal c1 m1 c2 m2) (r1 + d / 2)) c1), (ssNormal c1 m1 c2 m2).
    split; [reflexivity|]. split; [apply ssNormal_unit|]. split; [reflexivity|]. split.
    + intros Z. unfold ssNormal. fold D. destruct (Rlt_dec D mjMINVAL); [reflexivity|lra].
    + intros B. destruct (ss_geometry c1 m1 r1 c2 m2 r2 B) as [N [G1 G2]]. split; [exact N|].
      cbv zeta. split; [exact G1|exact G2].
Qed.

Lemma C13_sphere_sphere_distance_l :
forall (c1 : vec3 R) (r1 : R) (c2 : vec3 R) (r2 : R),
  let d := norm3 (sub3 c2 c1) - r1 - r2 in
  (forall x y : vec3 R, norm3 (sub3 x c1) <= r1 -> norm3 (sub3 y c2) <= r2 -> d <= norm3 (sub3 y x)) /\
  (0 <= r1 -> 0 <= r2 -> mjMINVAL <= norm3 (sub3 c2 c1) -> 0 <= d ->
     let n := scl3 (sub3 c2 c1) (1 / norm3 (sub3 c2 c1)) in
     let p1 := add3 c1 (scl3 n r1) in
     let p2 := sub3 c2 (scl3 n r2) in
     norm3 (sub3 p1 c1) <= r1 /\ norm3 (sub3 p2 c2) <= r2 /\ norm3 (sub3 p2 p1) = d).
Proof.
  intros c1 r1 c2 r2 d. split.
  - intros x y X Y. apply (ss_lower_bound c1 r1 c2 r2 x y X Y).
  - intros R1 R2 B S. pose proof (ss_attained c1 I3 r1 c2 I3 r2 R1 R2 B S) as A. cbv zeta in A.
    destruct (ss_geometry c1 I3 r1 c2 I3 r2 B) as [N _]. rewrite N in A. exact A.
Qed.

Lemma C13_plane_sphere_l :
forall (margin : R) (c1 : vec3 R) (m1 : mat3 R) (c2 : vec3 R) (r : R),
  let n := zaxis m1 in
  let d := dot3 (sub3 c2 c1) n - r in
  (margin < d -> rawPlaneSphere margin c1 m1 c2 r = []) /\
  (d <= margin ->
     exists pos : vec3 R,
       rawPlaneSphere margin c1 m1 c2 r = [(d, pos, n, zero3)] /\
       let p1 := sub3 c2 (scl3 n (dot3 (sub3 c2 c1) n)) in
       let p2 := sub3 c2 (scl3 n r) in
       pos = scl3 (add3 p1 p2) (/ 2) /\ sub3 p2 p1 = scl3 n d /\ (dot3 n n = 1 -> dot3 (sub3 p1 c1) n = 0)).
Proof.
  intros margin c1 m1 c2 r n d. rewrite rawPS_eq. unfold psDist. fold n. fold d. split.
  - intros L. destruct (Rle_dec d margin); [lra|reflexivity].
  - intros L. destruct (Rle_dec d margin); [|lra].
    exists (pc_pos (psContact c1 n c2 r)). split; [reflexivity|]. apply (ps_geometry c1 n c2 r).
Qed.

Lemma C13_plane_sphere_distance_l :
forall (c1 n c2 : vec3 R) (r : R),
  dot3 n n = 1 ->
  let d := dot3 (sub3 c2 c1) n - r in
  (forall x y : vec3 R, dot3 (sub3 x c1) n <= 0 -> norm3 (sub3 y c2) <= r -> d <= norm3 (sub3 y x)) /\
  (0 <= r -> 0 <= d ->
     let p1 := sub3 c2 (scl3 n (dot3 (sub3 c2 c1) n)) in
     let p2 := sub3 c2 (scl3 n r) in
     dot3 (sub3 p1 c1) n <= 0 /\ norm3 (sub3 p2 c2) <= r /\ norm3 (sub3 p2 p1) = d).
Proof.
  intros c1 n c2 r U d. split.
  - intros x y X Y. apply (ps_lower_bound c1 n c2 r x y U X Y).
  - intros R0 S. apply (ps_attained c1 n c2 r U R0 S).
Qed.

Lemma C13_plane_capsule_l :
forall (margin : R) (c1 : vec3 R) (m1 : mat3 R) (c2 : vec3 R) (m2 : mat3 R) (r len : R),
  let n := zaxis m1 in
  let a := zaxis m2 in
  let eP := add3 c2 (scl3 a len) in
  let eM := sub3 c2 (scl3 a len) in
  let dP := dot3 (sub3 eP c1) n - r in
  let dM := dot3 (sub3 eM c1) n - r in
  let con := fun (e : vec3 R) (d : R) => (d, add3 e (scl3 n (- d / 2 - r)), n, a) in
  planeCapsule margin c1 m1 c2 m2 r len =
    (if Rle_dec dP margin then [con eP dP] else []) ++ (if Rle_dec dM margin then [con eM dM] else []) /\
  (dot3 n n = 1 -> 0 <= len ->
   forall (x y : vec3 R) (s : R), - len <= s <= len -> dot3 (sub3 x c1) n <= 0 ->
     norm3 (sub3 y (add3 c2 (scl3 a s))) <= r -> Rmin dP dM <= norm3 (sub3 y x)).
Proof.
  intros margin c1 m1 c2 m2 r len n a eP eM dP dM con. split.
  - pose proof (planeCapsule_eq margin c1 m1 c2 m2 r len) as E. cbv zeta in E. rewrite E.
    unfold capEndP, capEndM, psDist. fold n a eP eM dP dM.
    destruct (Rle_dec dP margin); destruct (Rle_dec dM margin); reflexivity.
  - intros U L x y s S X Y. apply (pc_lower_bound c1 n c2 a r len s x y U S X Y).
Qed.

Lemma C13_sphere_capsule_l :
forall (margin : R) (c1 : vec3 R) (m1 : mat3 R) (r1 : R) (c2 : vec3 R) (m2 : mat3 R) (r2 len : R),
  let a := zaxis m2 in
  let q := add3 (scl3 a (clip (dot3 a (sub3 c1 c2)) (- len) len)) c2 in
  sphereCapsule margin c1 m1 r1 c2 m2 r2 len = rawSphereSphere margin c1 m1 r1 q m2 r2 /\
  (dot3 a a = 1 -> 0 <= len ->
     (exists s : R, - len <= s <= len /\ q = add3 (scl3 a s) c2) /\
     (forall s : R, - len <= s <= len -> norm3 (sub3 q c1) <= norm3 (sub3 (add3 (scl3 a s) c2) c1)) /\
     (forall (x y : vec3 R) (s : R), - len <= s <= len -> norm3 (sub3 x c1) <= r1 ->
        norm3 (sub3 y (add3 (scl3 a s) c2)) <= r2 -> norm3 (sub3 q c1) - r1 - r2 <= norm3 (sub3 y x))).
Proof.
  intros margin c1 m1 r1 c2 m2 r2 len a q. split; [reflexivity|]. intros U L. split; [|split].
  - apply (sc_on_segment c1 c2 a len L).
  - intros s S. apply (sc_nearest c1 c2 a len s U L S).
  - intros x y s S X Y. apply (sc_lower_bound c1 r1 c2 a r2 len s x y U L S X Y).
Qed.

Lemma C13_sphere_cylinder_deep_l :
forall (margin : R) (c1 : vec3 R) (m1 : mat3 R) (r : R) (c2 : vec3 R) (m2 : mat3 R) (Rc h : R),
  let a := zaxis m2 in
  let x := dot3 a (sub3 c1 c2) in
  let rho := norm3 (sub3 (sub3 c1 c2) (scl3 a x)) in
  dot3 a a = 1 -> Rabs x < h -> rho < Rc -> 0 <= margin + r + Rc ->
  let d := - Rmin (h - Rabs x) (Rc - rho) - r in
  (margin < d -> sphereCylinder margin c1 m1 r c2 m2 Rc h = []) /\
  (d <= margin -> exists (pos n : vec3 R), sphereCylinder margin c1 m1 r c2 m2 Rc h = [(d, pos, n, zero3)]).
Proof.
  exact sphereCylinder_deep.
Qed.

Lemma C13_capsule_capsule_partial_l :
forall (margin : R) (c1 : vec3 R) (m1 : mat3 R) (r1 len1 : R) (c2 : vec3 R) (m2 : mat3 R) (r2 len2 : R),
  let axis1 := scl3 (zaxis m1) len1 in
  let axis2 := scl3 (zaxis m2) len2 in
  let dif := sub3 c1 c2 in
  let ma := dot3 axis1 axis1 in
  let mb := - dot3 axis1 axis2 in
  let mc := dot3 axis2 axis2 in
  let u := - dot3 axis1 dif in
  let v := dot3 axis2 dif in
  let det := ma * mc - mb * mb in
  mjMINVAL <= Rabs det ->
  exists x1 x2 : R,
    -1 <= x1 <= 1 /\ -1 <= x2 <= 1 /\ (x1, x2) = capsuleParams ma mb mc u v det /\
    capsuleCapsule margin c1 m1 r1 len1 c2 m2 r2 len2 =
      rawSphereSphere margin (add3 (scl3 axis1 x1) c1) m1 r1 (add3 (scl3 axis2 x2) c2) m2 r2.
Proof.
  intros margin c1 m1 r1 len1 c2 m2 r2 len2.
  pose proof (capsuleCapsule_general margin c1 m1 r1 len1 c2 m2 r2 len2) as G. unfold ccCoef in G. exact G.
Qed.

Lemma C13_capsule_parallel_refuted_l :
exists (margin : R) (c1 : vec3 R) (m1 : mat3 R) (r1 len1 : R) (c2 : vec3 R) (m2 : mat3 R) (r2 len2 : R),
    dot3 (zaxis m1) (zaxis m1) = 1 /\ dot3 (zaxis m2) (zaxis m2) = 1 /\
    0 < r1 /\ 0 < r2 /\ 0 < len1 /\ 0 < len2 /\ 0 <= margin /\
    capsuleCapsule margin c1 m1 r1 len1 c2 m2 r2 len2 <> [] /\
    (forall c : precon R, In c (capsuleCapsule margin c1 m1 r1 len1 c2 m2 r2 len2) -> pc_dist c = 3) /\
    (exists s t : R, - len1 <= s <= len1 /\ - len2 <= t <= len2 /\
       norm3 (sub3 (add3 c2 (scl3 (zaxis m2) t)) (add3 c1 (scl3 (zaxis m1) s))) - r1 - r2 = 1).
Proof.
  exact capsule_parallel_refuted.
Qed.

Lemma C13_margin_l :
forall (margin : R) (c1 : vec3 R) (m1 : mat3 R) (s1 l1 : R) (c2 : vec3 R) (m2 : mat3 R) (s2 l2 : R) (c : precon R),
  (In c (rawPlaneSphere margin c1 m1 c2 s2) \/ In c (planeCapsule margin c1 m1 c2 m2 s2 l2) ->
     pc_dist c <= margin /\ pc_normal c = zaxis m1) /\
  (0 <= margin + s1 + s2 ->
   In c (rawSphereSphere margin c1 m1 s1 c2 m2 s2) \/ In c (sphereCapsule margin c1 m1 s1 c2 m2 s2 l2) \/
   In c (capsuleCapsule margin c1 m1 s1 l1 c2 m2 s2 l2) ->
     pc_dist c <= margin /\ dot3 (pc_normal c) (pc_normal c) = 1).
Proof.
  intros margin c1 m1 s1 l1 c2 m2 s2 l2 c. split.
  - intros [I|I].
    + split; [apply (rawPS_margin _ _ _ _ _ _ I)|]. rewrite rawPS_eq in I. destruct (Rle_dec _ _); [|contradiction].
      destruct I as [<-|[]]. reflexivity.
    + destruct (planeCapsule_margin _ _ _ _ _ _ _ _ I) as [A [_ B]]. split; assumption.
  - intros M [I|[I|I]].
    + split; [apply (rawSS_margin _ _ _ _ _ _ _ _ M I)|]. rewrite rawSS_eq in I by assumption.
      destruct (Rle_dec _ _); [|contradiction]. destruct I as [<-|[]]. apply ssNormal_unit.
    + rewrite sphereCapsule_eq in I. split; [apply (rawSS_margin _ _ _ _ _ _ _ _ M I)|]. rewrite rawSS_eq in I by assumption.
      destruct (Rle_dec _ _); [|contradiction]. destruct I as [<-|[]]. apply ssNormal_unit.
    + apply (capsuleCapsule_margin _ _ _ _ _ _ _ _ _ _ M I).
Qed.

Lemma C13_geomDistance_l :
forall (cons : list (precon R)) (distmax : R),
  let r := geomDistance false cons distmax in
  let d := let '(d, _, _) := r in d in
  let from := let '(_, f, _) := r in f in
  let to := let '(_, _, t) := r in t in
  d <= distmax /\ (forall c : precon R, In c cons -> d <= pc_dist c) /\
  ((d = distmax /\ from = zero3 /\ to = zero3) \/
   (exists c : precon R, In c cons /\ d = pc_dist c /\ pc_dist c < distmax /\
      from = sub3 (pc_pos c) (scl3 (pc_normal c) (1 * pc_dist c / 2)) /\
      to = add3 (pc_pos c) (scl3 (pc_normal c) (1 * pc_dist c / 2)))) /\
  geomDistance true cons distmax = (d, to, from).
Proof.
  intros cons distmax r d from to.
  pose proof (geomDistance_spec false cons distmax) as S. cbv zeta in S. fold r in S.
  pose proof (geomDistance_flip cons distmax) as F. fold r in F.
  change d with (gdDist r). change from with (gdFrom r). change to with (gdTo r).
  destruct S as [S1 [S2 S3]]. split; [exact S1|]. split; [exact S2|]. split; [exact S3|].
  destruct F as [F1 [F2 F3]]. destruct (geomDistance true cons distmax) as [[d' f'] t']. cbn in F1, F2, F3. subst. reflexivity.
Qed.

Lemma C13_example_l :
exists (pos n : vec3 R),
  rawSphereSphere 2 (0, 0, 0) I3 1 (3, 0, 0) I3 1 = [(1, pos, n, zero3)] /\ n = (1, 0, 0) /\ pos = (3 / 2, 0, 0) /\
  rawSphereSphere (/ 2) (0, 0, 0) I3 1 (3, 0, 0) I3 1 = [].
Proof.
  assert (N : norm3 (sub3 (3, 0, 0) (0, 0, 0)) = 3) by (apply norm3_eq; [lra|unfold dot3, sub3; nR; ring]).
  destruct (C13_sphere_sphere_l 2 (0, 0, 0) I3 1 (3, 0, 0) I3 1) as [_ A]; [lra|]. cbv zeta in A. rewrite N in A.
  destruct A as [pos [n [E [_ [Ep [_ G]]]]]]; [lra|]. destruct G as [En _]; [pose proof cp_minval_small; lra|].
  assert (En' : n = (1, 0, 0)) by (rewrite En; unfold scl3, sub3; nR; apply vec_ext; field).
  exists pos, n. replace (3 - 1 - 1) with 1 in E by lra. split; [exact E|]. split; [exact En'|]. split.
  - rewrite Ep, En'. unfold add3, scl3. nR. apply vec_ext; field.
  - destruct (C13_sphere_sphere_l (/ 2) (0, 0, 0) I3 1 (3, 0, 0) I3 1) as [B _]; [lra|]. cbv zeta in B. rewrite N in B. apply B. lra.
Qed.
