(* C43 — proofs over R: the MJX formulation of the kernels of Model/MjxKernels.v equals the C formulation of
   Model/ConstraintUpdate.v / Model/CollidePrim.v on the domain mj_makeImpedance / the colliders establish. *)
From Coq Require Import ZArith List Bool Reals Lra Lia Psatz.
From MJV Require Import Lib.Num Lib.NumR Model.Spatial Model.ConstraintUpdate Model.CollidePrim Model.MjxKernels.
Import ListNotations.
Open Scope R_scope.

Lemma Rdec_half : Rdec 5 (-1) = / 2.
Proof. unfold Rdec. simpl. lra. Qed.

Lemma Rdec_minval_pos : 0 < Rdec 1 (-15).
Proof. unfold Rdec. apply Rdiv_lt_0_compat; [lra|]. apply IZR_lt. reflexivity. Qed.

Ltac booleans :=
  repeat match goal with
         | H : Rleb _ _ = true |- _ => apply Rleb_true in H
         | H : Rleb _ _ = false |- _ => apply Rleb_false in H
         | H : Rltb _ _ = true |- _ => apply Rltb_true in H
         | H : Rltb _ _ = false |- _ => apply Rltb_false in H
         | H : Reqb _ _ = true |- _ => apply Reqb_true in H
         | H : Reqb _ _ = false |- _ => apply Reqb_false in H
         end.

(* ---------------------------------------------------------------- friction-loss row *)
Lemma mjx_fric_row_eq : forall (D Rr f x : R),
    D * Rr = 1 -> 0 < Rr -> 0 < f ->
    mjx_fric_row D f x =
    (let '(c, _, _) := row_fric (T:=R) 0 D Rr f x in c, let '(_, frc, _) := row_fric (T:=R) 0 D Rr f x in frc).
Proof.
  intros D Rr f x HDR HR Hf.
  assert (HD : D <> 0) by (intro E; rewrite E in HDR; lra).
  assert (Hr : 1 / (D + 0 * Rdec 1 (-15)) = Rr).
  { replace (D + 0 * Rdec 1 (-15)) with D by ring. apply (Rmult_eq_reg_l D); [|exact HD]. field_simplify; [lra | exact HD]. }
  unfold mjx_fric_row, row_fric, b2n, xMINVAL, xhalf, ConstraintUpdate.half. num_R.
  assert (E0 : Reqb D 0 = false) by (apply Reqb_false; exact HD).
  rewrite E0. rewrite Hr. rewrite Rdec_half.
  assert (Ef : Rltb 0 f = true) by (apply Rltb_true; exact Hf).
  rewrite Ef.
  destruct (Rleb x (- Rr * f)) eqn:E1; destruct (Rleb (Rr * f) x) eqn:E2; booleans; simpl.
  - exfalso. assert (0 < Rr * f) by (apply Rmult_lt_0_compat; assumption). lra.
  - f_equal; ring.
  - assert (E3 : Rleb x (- Rr * f) = false) by (apply Rleb_false; exact E1).
    f_equal; ring.
  - f_equal; ring.
Qed.

(* ---------------------------------------------------------------- zones *)
Lemma mjx_zone_eq : forall (mu N Tn : R), 0 < mu -> 0 <= Tn -> mjx_zone mu N Tn = c_zone mu N Tn.
Proof.
  intros mu N Tn Hmu HT.
  unfold mjx_zone, c_zone, mjx_bottom, mjx_middle. num_R.
  destruct (Rleb (mu * Tn) N) eqn:A; destruct (Rleb Tn 0) eqn:B; destruct (Rleb 0 N) eqn:C;
    destruct (Rleb (mu * N + Tn) 0) eqn:D; destruct (Rltb N 0) eqn:E; destruct (Rltb 0 Tn) eqn:G;
    destruct (Rltb N (mu * Tn)) eqn:I; destruct (Rltb 0 (mu * N + Tn)) eqn:J; booleans; simpl; try reflexivity; exfalso; nra.
Qed.

(* the state block_ell reports is the zone *)
Lemma block_ell_state : forall (flg : bool) (s mu : R) (fr : list R) (D0 : R) (Dt : list R) (x0 : R) (xt : list R),
    (let '(_, _, st, _) := block_ell flg s mu fr (D0 :: Dt) (x0 :: xt) in st) =
    match c_zone mu (x0 * mu) (mju_norm (map2 nmul xt fr)) with
    | 0%Z => ST_SATISFIED | 1%Z => ST_QUADRATIC | _ => ST_CONE end.
Proof.
  intros. unfold block_ell, c_zone. num_R.
  destruct (Rleb (mu * mju_norm (map2 Rmult xt fr)) (x0 * mu) || Rleb (mju_norm (map2 Rmult xt fr)) 0 && Rleb 0 (x0 * mu)); [reflexivity|].
  destruct (Rleb (mu * (x0 * mu) + mju_norm (map2 Rmult xt fr)) 0 || Rleb (mju_norm (map2 Rmult xt fr)) 0 && Rltb (x0 * mu) 0); reflexivity.
Qed.

(* ---------------------------------------------------------------- dim-3 elliptic block *)
Lemma norm2 : forall a b : R, mju_norm (T:=R) [a; b] = sqrt (a * a + b * b).
Proof. intros. unfold mju_norm, mju_sumsq, sumsq4. num_R. f_equal. ring. Qed.

Lemma pair_eq : forall (a b : R) (l m : list R), a = b -> l = m -> (a, l) = (b, m).
Proof. intros; subst; reflexivity. Qed.
Lemma list3_eq : forall (a b c a' b' c' : R), a = a' -> b = b' -> c = c' -> [a; b; c] = [a'; b'; c'].
Proof. intros; subst; reflexivity. Qed.

Lemma mjx_block3_eq : forall (mu f1 f2 D0 D1 D2 x0 x1 x2 : R) (frest : list R),
    0 < mu -> Rdec 1 (-15) <= mu * mu * (1 + mu * mu) ->
    mjx_block3 mu f1 f2 D0 D1 D2 x0 x1 x2 =
    (let '(c, _, _, _) := block_ell (T:=R) false 0 mu (f1 :: f2 :: frest) [D0; D1; D2] [x0; x1; x2] in c,
     let '(_, fs, _, _) := block_ell (T:=R) false 0 mu (f1 :: f2 :: frest) [D0; D1; D2] [x0; x1; x2] in fs).
Proof.
  intros mu f1 f2 D0 D1 D2 x0 x1 x2 frest Hmu Hg.
  pose proof (mjx_zone_eq mu (x0 * mu) (sqrt (x1 * f1 * (x1 * f1) + x2 * f2 * (x2 * f2))) Hmu (sqrt_pos _)) as Z.
  unfold mjx_block3, block_ell. unfold map2 at 1. fold (map2 (T:=R)).
  change (map2 nmul [x1; x2] (f1 :: f2 :: frest)) with [x1 * f1; x2 * f2]%num.
  rewrite norm2. unfold b2n, xMINVAL, xhalf, ConstraintUpdate.half, nmax. num_R. rewrite Rdec_half.
  set (Tn := sqrt (x1 * f1 * (x1 * f1) + x2 * f2 * (x2 * f2))) in *.
  assert (Hmax : Rltb (mu * mu * (1 + mu * mu)) (Rdec 1 (-15)) = false) by (apply Rltb_false; exact Hg).
  rewrite Hmax.
  unfold mjx_zone, c_zone in Z. num_R.
  destruct (Rleb (mu * Tn) (x0 * mu) || Rleb Tn 0 && Rleb 0 (x0 * mu)) eqn:TOP.
  - (* top zone *)
    destruct (mjx_bottom mu (x0 * mu) Tn) eqn:B; [discriminate|].
    destruct (mjx_middle mu (x0 * mu) Tn) eqn:Mi; [discriminate|].
    simpl. apply pair_eq; [unfold Rdiv; ring | apply list3_eq; unfold Rdiv; ring].
  - destruct (Rleb (mu * (x0 * mu) + Tn) 0 || Rleb Tn 0 && Rltb (x0 * mu) 0) eqn:BOT.
    + (* bottom zone *)
      destruct (mjx_bottom mu (x0 * mu) Tn) eqn:B; [|destruct (mjx_middle mu (x0 * mu) Tn); discriminate].
      assert (Mi : mjx_middle mu (x0 * mu) Tn = false).
      { unfold mjx_middle, mjx_bottom in *. num_R.
        destruct (Rltb 0 Tn) eqn:G; destruct (Rltb (x0 * mu) (mu * Tn)) eqn:I; destruct (Rltb 0 (mu * (x0 * mu) + Tn)) eqn:J;
          destruct (Rleb Tn 0) eqn:K; destruct (Rltb (x0 * mu) 0) eqn:L; destruct (Rleb (mu * (x0 * mu) + Tn) 0) eqn:Mm;
          simpl in *; try reflexivity; try discriminate; booleans; exfalso; lra. }
      rewrite Mi. simpl. apply pair_eq; [unfold Rdiv; ring | apply list3_eq; unfold Rdiv; ring].
    + (* middle zone *)
      destruct (mjx_bottom mu (x0 * mu) Tn) eqn:B; [discriminate|].
      destruct (mjx_middle mu (x0 * mu) Tn) eqn:Mi; [|discriminate].
      assert (HT : 0 < Tn).
      { unfold mjx_middle in Mi. num_R. destruct (Rltb 0 Tn) eqn:G; [booleans; exact G | simpl in Mi; discriminate]. }
      assert (Hq : mu * mu * (1 + mu * mu) <> 0) by (apply Rgt_not_eq; nra).
      assert (H1 : 1 + mu * mu <> 0) by nra.
      assert (H2 : mu <> 0) by lra.
      assert (H3 : Tn <> 0) by lra.
      assert (H4 : Tn + 0 * Rdec 1 (-15) <> 0) by (replace (Tn + 0 * Rdec 1 (-15)) with Tn by ring; exact H3).
      simpl. apply pair_eq; [field; auto | apply list3_eq; field; repeat split; auto].
Qed.

(* ---------------------------------------------------------------- plane - sphere *)
Lemma mjx_plane_sphere_eq : forall (margin : R) (c1 : vec3 R) (m1 : mat3 R) (c2 : vec3 R) (r : R),
    dot3 (sub3 c2 c1) (zaxis m1) - r <= margin ->
    rawPlaneSphere margin c1 m1 c2 r =
    [(fst (mjx_plane_sphere (zaxis m1) c1 c2 r), snd (mjx_plane_sphere (zaxis m1) c1 c2 r), zaxis m1, zero3)].
Proof.
  intros margin c1 m1 c2 r H.
  unfold rawPlaneSphere, mjx_plane_sphere. cbn [fst snd].
  set (n := zaxis m1) in *.
  assert (E : (margin + r <? dot3 (sub3 c2 c1) n)%num = false).
  { num_R. apply Rltb_false. lra. }
  rewrite E. f_equal. f_equal. f_equal. f_equal.
  destruct c1 as [[a0 a1] a2]. destruct c2 as [[b0 b1] b2]. destruct n as [[n0 n1] n2].
  unfold add3, sub3, scl3, dot3, xhalf, ntwo. num_R. rewrite Rdec_half.
  f_equal; [f_equal|]; field.
Qed.

(* ---------------------------------------------------------------- K and B of the reference acceleration *)
Lemma minimp_pos : 0 < Rdec 1 (-4).
Proof. unfold Rdec. apply Rdiv_lt_0_compat; [lra|]. apply IZR_lt. reflexivity. Qed.

(* MJX's formulation equals the C formulation for a solref of one sign, dmax inside the clamp and no mjMINVAL guard firing *)
Lemma mjx_kb_eq : forall (refsafe : bool) (h s0 s1 dmax : R),
    (0 < s0 /\ 0 < s1) \/ (s0 < 0 /\ s1 < 0) ->
    0 < h -> Rdec 1 (-4) <= dmax <= Rdec 9999 (-4) ->
    (forall tc : R, s0 <= tc -> Rdec 1 (-15) < dmax * dmax * tc * tc * s1 * s1 /\ Rdec 1 (-15) < dmax * tc) ->
    Rdec 1 (-15) < dmax * dmax -> Rdec 1 (-15) < dmax ->
    mjx_kb refsafe h s0 s1 dmax = c_kb refsafe h s0 s1 dmax.
Proof.
  intros refsafe h s0 s1 dmax Hs Hh [Hlo Hhi] Hg Hg2 Hg1.
  pose proof minimp_pos as P4.
  unfold mjx_kb, c_kb, xMINIMP, xMAXIMP, xMINVAL, nmax, nmin, ntwo. num_R.
  (* the clamp of dmax is the identity *)
  assert (C1 : (if Rltb (Rdec 1 (-4)) dmax then dmax else Rdec 1 (-4)) = dmax).
  { destruct (Rltb (Rdec 1 (-4)) dmax) eqn:E; [reflexivity|]. apply Rltb_false in E. lra. }
  assert (C2 : (if Rltb dmax (Rdec 1 (-4)) then Rdec 1 (-4) else dmax) = dmax).
  { destruct (Rltb dmax (Rdec 1 (-4))) eqn:E; [|reflexivity]. apply Rltb_true in E. lra. }
  rewrite C1, C2.
  assert (C3 : (if Rltb (Rdec 9999 (-4)) dmax then Rdec 9999 (-4) else dmax) = dmax).
  { destruct (Rltb (Rdec 9999 (-4)) dmax) eqn:E; [|reflexivity]. apply Rltb_true in E. lra. }
  assert (C4 : (if Rltb dmax (Rdec 9999 (-4)) then dmax else Rdec 9999 (-4)) = dmax).
  { destruct (Rltb dmax (Rdec 9999 (-4))) eqn:E; [reflexivity|]. apply Rltb_false in E. lra. }
  rewrite C3, C4.
  destruct Hs as [[H0 H1] | [H0 H1]].
  - (* standard form *)
    rewrite (proj2 (Rltb_true 0 s0) H0), (proj2 (Rltb_true 0 s1) H1).
    rewrite (proj2 (Rleb_false s0 0) H0), (proj2 (Rleb_false s1 0) H1).
    rewrite andb_true_r.
    set (tc := if refsafe then (if Rltb s0 (IZR 2 * h) then IZR 2 * h else s0) else s0).
    assert (Htc : s0 <= tc).
    { unfold tc. destruct refsafe; [|lra]. destruct (Rltb s0 (IZR 2 * h)) eqn:E; [apply Rltb_true in E; lra | lra]. }
    destruct (Hg tc Htc) as [G1 G2].
    rewrite (proj2 (Rltb_true 0 tc)) by lra.
    rewrite (proj2 (Rltb_true (Rdec 1 (-15)) (dmax * dmax * tc * tc * s1 * s1)) G1).
    rewrite (proj2 (Rltb_true (Rdec 1 (-15)) (dmax * tc)) G2).
    reflexivity.
  - (* direct form *)
    rewrite (proj2 (Rltb_false 0 s0)) by lra. rewrite (proj2 (Rltb_false 0 s1)) by lra.
    rewrite (proj2 (Rleb_true s0 0)) by lra. rewrite (proj2 (Rleb_true s1 0)) by lra.
    rewrite andb_false_r.
    rewrite (proj2 (Rltb_false 0 s0)) by lra.
    rewrite (proj2 (Rltb_true (Rdec 1 (-15)) (dmax * dmax)) Hg2).
    rewrite (proj2 (Rltb_true (Rdec 1 (-15)) dmax) Hg1).
    reflexivity.
Qed.

(* what the two forms mean: standard form = reference dynamics with damping ratio solref[1] (B^2 = 4 K dampratio^2) and time constant
   dmax * timeconst; direct form = the given stiffness and damping divided by dmax^2 resp. dmax *)
Lemma c_kb_standard : forall (h tc dr dmax : R),
    0 < tc -> 0 < dr -> Rdec 1 (-4) <= dmax <= Rdec 9999 (-4) ->
    Rdec 1 (-15) < dmax * dmax * tc * tc * dr * dr -> Rdec 1 (-15) < dmax * tc ->
    let '(K, B) := c_kb false h tc dr dmax in
    K = 1 / (dmax * dmax * tc * tc * dr * dr) /\ B = 2 / (dmax * tc) /\ B * B = 4 * K * (dr * dr).
Proof.
  intros h tc dr dmax H0 H1 [Hlo Hhi] G1 G2. pose proof minimp_pos as P4.
  unfold c_kb, xMINIMP, xMAXIMP, xMINVAL, nmax, nmin, ntwo. num_R.
  assert (C2 : (if Rltb (Rdec 1 (-4)) dmax then dmax else Rdec 1 (-4)) = dmax).
  { destruct (Rltb (Rdec 1 (-4)) dmax) eqn:E; [reflexivity|]. apply Rltb_false in E. lra. }
  rewrite C2.
  assert (C3 : (if Rltb (Rdec 9999 (-4)) dmax then Rdec 9999 (-4) else dmax) = dmax).
  { destruct (Rltb (Rdec 9999 (-4)) dmax) eqn:E; [|reflexivity]. apply Rltb_true in E. lra. }
  rewrite C3. cbn [andb].
  rewrite (proj2 (Rltb_true 0 tc) H0), (proj2 (Rltb_true 0 dr) H1).
  rewrite (proj2 (Rltb_true (Rdec 1 (-15)) (dmax * dmax * tc * tc * dr * dr)) G1).
  rewrite (proj2 (Rltb_true (Rdec 1 (-15)) (dmax * tc)) G2).
  split; [reflexivity|]. split; [reflexivity|].
  assert (dmax <> 0) by lra. assert (tc <> 0) by lra. assert (dr <> 0) by lra.
  field. repeat split; assumption.
Qed.

Lemma c_kb_direct : forall (refsafe : bool) (h k b dmax : R),
    0 < k -> 0 < b -> Rdec 1 (-4) <= dmax <= Rdec 9999 (-4) -> Rdec 1 (-15) < dmax * dmax -> Rdec 1 (-15) < dmax ->
    let '(K, B) := c_kb refsafe h (- k) (- b) dmax in
    K * (dmax * dmax) = k /\ B * dmax = b.
Proof.
  intros refsafe h k b dmax H0 H1 [Hlo Hhi] G2 G1. pose proof minimp_pos as P4.
  unfold c_kb, xMINIMP, xMAXIMP, xMINVAL, nmax, nmin, ntwo. num_R.
  assert (C2 : (if Rltb (Rdec 1 (-4)) dmax then dmax else Rdec 1 (-4)) = dmax).
  { destruct (Rltb (Rdec 1 (-4)) dmax) eqn:E; [reflexivity|]. apply Rltb_false in E. lra. }
  rewrite C2.
  assert (C3 : (if Rltb (Rdec 9999 (-4)) dmax then Rdec 9999 (-4) else dmax) = dmax).
  { destruct (Rltb (Rdec 9999 (-4)) dmax) eqn:E; [|reflexivity]. apply Rltb_true in E. lra. }
  rewrite C3.
  rewrite (proj2 (Rltb_false 0 (- k))) by lra. rewrite andb_false_r.
  rewrite (proj2 (Rltb_false 0 (- k))) by lra. rewrite (proj2 (Rltb_false 0 (- b))) by lra.
  rewrite (proj2 (Rltb_true (Rdec 1 (-15)) (dmax * dmax)) G2).
  rewrite (proj2 (Rltb_true (Rdec 1 (-15)) dmax) G1).
  assert (dmax <> 0) by lra.
  split; field; assumption.
Qed.

(* ---------------------------------------------------------------- tail of the actuation stage *)
Lemma act_tail_in_range : forall (frc gc : R) (g : bool) (lo hi : R), lo <= hi -> lo <= act_tail frc gc g true lo hi <= hi.
Proof.
  intros frc gc g lo hi H. unfold act_tail, clipT. num_R.
  set (t := if g then frc + gc else frc).
  destruct (Rltb t lo) eqn:A; [lra|]. destruct (Rltb hi t) eqn:B; [lra|]. booleans. lra.
Qed.

Lemma act_tail_swapped_leaves_range : exists (frc gc lo hi : R), lo <= hi /\ hi < act_tail_swapped frc gc true true lo hi.
Proof.
  exists 2, 1, (-1), 1. split; [lra|]. unfold act_tail_swapped, clipT. num_R.
  rewrite (proj2 (Rltb_false 2 (-1))) by lra. rewrite (proj2 (Rltb_true 1 2)) by lra. lra.
Qed.
