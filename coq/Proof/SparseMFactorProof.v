(* Proofs about mj_factorI (Model/SparseM.v) at R: on a triangular structure in which the row of
   every off-diagonal column is a prefix of the row (true of every forest structure), the
   in-place reverse-order elimination returns L, D with L' D L = M, provided the pivots it meets
   are non-zero. *)
From Coq Require Import ZArith List Bool Arith Lia PrimFloat Reals Lra Sorted Permutation.
From MJV Require Import Lib.Num Lib.NumR Model.Sparse Model.SparseM
  Proof.LinAlgBase Proof.SparseProof Proof.SparseMergeProof Proof.SparseSymProof Proof.SparseCompressProof
  Proof.BandProof Proof.SparseMProof Proof.SparseMSolveProof.
Import ListNotations.
Open Scope R_scope.

(* entry (i, j), j <= i, of the lower-triangular storage *)
Definition Ent (cs : list (list nat)) (rows : list (list R)) (i j : nat) : R :=
  lk j (combine (nth i cs []) (nth i rows [])).

(* the row of every off-diagonal column i of row p is the prefix of row p of the same length *)
Definition pref (n : nat) (cs : list (list nat)) : Prop :=
  forall p i : nat, (p < n)%nat -> In i (removelast (nth p cs [])) ->
    nth i cs [] = firstn (length (nth i cs [])) (nth p cs []).

(* ------------------------------------------------------------------ lookups in zipped rows *)
Lemma in_cols_combine : forall (c : list nat) (v : list R) (s : nat), In s (cols (combine c v)) -> In s c.
Proof.
  induction c as [|x c IH]; intros v s Hin; simpl in *; [tauto|].
  destruct v as [|y v]; simpl in *; [tauto|]. destruct Hin as [H|H]; [left; exact H|right; eapply IH; eauto].
Qed.

Lemma lk_combine_notin : forall (c : list nat) (v : list R) (s : nat), ~ In s c -> lk s (combine c v) = 0.
Proof. intros c v s Hn. apply lk_notin. intros Hin. apply Hn. eapply in_cols_combine; eauto. Qed.

Lemma lk_combine_nth : forall (c : list nat) (v : list R) (t : nat),
  NoDup c -> (t < length c)%nat -> (length c <= length v)%nat -> lk (nth t c 0%nat) (combine c v) = nth t v 0.
Proof.
  induction c as [|x c IH]; intros v t Hnd Ht Hl; simpl in Ht; [lia|].
  destruct v as [|y v]; simpl in Hl; [lia|]. inversion Hnd as [|a l Hna Hnd']; subst.
  destruct t as [|t]; simpl.
  - rewrite Nat.eqb_refl. reflexivity.
  - destruct (Nat.eqb_spec x (nth t c 0%nat)) as [He|Hne].
    + exfalso. apply Hna. rewrite He. apply nth_In. lia.
    + apply IH; auto; lia.
Qed.

Lemma lk_combine_firstn : forall (c : list nat) (v : list R) (m s : nat),
  In s (firstn m c) -> lk s (combine (firstn m c) v) = lk s (combine c v).
Proof.
  induction c as [|x c IH]; intros v m s Hin.
  - rewrite firstn_nil in Hin. simpl in Hin. tauto.
  - destruct m as [|m]; [simpl in Hin; tauto|]. simpl firstn in *.
    destruct v as [|y v]; [reflexivity|]. simpl.
    destruct (Nat.eqb_spec x s); [reflexivity|]. apply IH. simpl in Hin. destruct Hin; [congruence|auto].
Qed.

Lemma lk_combine_addscl : forall (c : list nat) (v w : list R) (scl : R) (s : nat),
  length v = length c -> (length c <= length w)%nat ->
  lk s (combine c (map (fun p : R * R => fst p + snd p * scl) (combine v w))) =
  lk s (combine c v) + lk s (combine c w) * scl.
Proof.
  induction c as [|x c IH]; intros v w scl s Hv Hw.
  - simpl. lra.
  - destruct v as [|a v]; [simpl in Hv; lia|]. destruct w as [|b w]; [simpl in Hw; lia|].
    simpl. destruct (Nat.eqb_spec x s); [reflexivity|]. apply IH; simpl in *; lia.
Qed.

Lemma lk_combine_scale : forall (c : list nat) (u : list R) (k : R) (s : nat),
  lk s (combine c (map (fun x : R => x * k) u)) = lk s (combine c u) * k.
Proof.
  induction c as [|x c IH]; intros u k s; [simpl; lra|].
  destruct u as [|a u]; [simpl; lra|]. simpl. destruct (Nat.eqb_spec x s); [reflexivity|]. apply IH.
Qed.

Lemma combine_app_eq : forall (a b : list nat) (u v : list R), length u = length a ->
  combine (a ++ b) (u ++ v) = combine a u ++ combine b v.
Proof.
  induction a as [|x a IH]; intros b u v Hl.
  - destruct u; [reflexivity|simpl in Hl; lia].
  - destruct u as [|y u]; [simpl in Hl; lia|]. simpl. f_equal. apply IH. simpl in Hl. lia.
Qed.

Lemma lk_snoc : forall (a : list nat) (u : list R) (p s : nat) (d : R), length u = length a -> ~ In p a ->
  lk s (combine (a ++ [p]) (u ++ [d])) = if Nat.eqb s p then d else lk s (combine a u).
Proof.
  intros a u p s d Hl Hp. rewrite combine_app_eq by auto.
  assert (Hc : cols (combine a u) = a) by (apply cols_combine; auto).
  destruct (in_dec Nat.eq_dec s a) as [Hin|Hin].
  - rewrite lk_app_in by (rewrite Hc; auto). destruct (Nat.eqb_spec s p) as [->|]; [tauto|reflexivity].
  - rewrite lk_app_notin by (rewrite Hc; auto). simpl. rewrite (lk_combine_notin a u s Hin).
    rewrite Nat.eqb_sym. destruct (Nat.eqb s p); reflexivity.
Qed.

(* ------------------------------------------------------------------ the inner loop of mj_factorI *)
Definition fru_fun (cols_k : list nat) (rk : list R) (invD : R) (rows : list (list R)) (adr : nat) : list (list R) :=
  let i := nth adr cols_k O in
  let scl := (- nth adr rk 0) * invD in
  upd i (addToScl_prefix (nth i rows []) rk scl) rows.

Lemma factor_row_update_unfold : forall (cols_k : list nat) (rk : list R) (invD : R) (rows : list (list R)),
  factor_row_update cols_k rk invD rows = fold_left (fru_fun cols_k rk invD) (rev (seq 0 (length rk - 1))) rows.
Proof. intros. reflexivity. Qed.

Lemma fru_spec : forall (a : list nat) (p : nat) (rk : list R) (invD : R) (l : list nat) (rows : list (list R)),
  NoDup a -> NoDup l -> Forall (fun t : nat => (t < length a)%nat) l ->
  Forall (fun i : nat => (i < length rows)%nat) a ->
  let rows' := fold_left (fru_fun (a ++ [p]) rk invD) l rows in
  length rows' = length rows /\
  (forall t : nat, In t l ->
     nth (nth t a 0%nat) rows' [] = addToScl_prefix (nth (nth t a 0%nat) rows []) rk ((- nth t rk 0) * invD)) /\
  (forall i : nat, (forall t : nat, In t l -> nth t a 0%nat <> i) -> nth i rows' [] = nth i rows []).
Proof.
  intros a p rk invD l. induction l as [|t0 l IH]; intros rows Hnda Hndl Hl Ha.
  - simpl. split; [reflexivity|]. split; [intros t Ht; tauto|reflexivity].
  - inversion Hndl as [|x y Hnin Hndl']; subst. inversion Hl as [|x y Ht0 Hl']; subst.
    simpl fold_left.
    assert (Hi0 : nth t0 (a ++ [p]) 0%nat = nth t0 a 0%nat) by (apply app_nth1; auto).
    set (i0 := nth t0 a 0%nat) in *.
    assert (Hi0r : (i0 < length rows)%nat).
    { rewrite Forall_forall in Ha. apply Ha. apply nth_In. auto. }
    set (rows1 := fru_fun (a ++ [p]) rk invD rows t0).
    assert (Hr1 : rows1 = upd i0 (addToScl_prefix (nth i0 rows []) rk ((- nth t0 rk 0) * invD)) rows).
    { unfold rows1, fru_fun. cbv zeta. rewrite Hi0. reflexivity. }
    assert (Hlen1 : length rows1 = length rows) by (rewrite Hr1, upd_length; reflexivity).
    destruct (IH rows1 Hnda Hndl' Hl') as [H1 [H2 H3]].
    { rewrite Hlen1. exact Ha. }
    cbv zeta in *. split; [rewrite H1; exact Hlen1|]. split.
    + intros t [Ht|Ht].
      * subst t. fold i0. rewrite H3.
        -- rewrite Hr1. apply nth_upd_eq. auto.
        -- intros t' Ht' Heq. assert (t' = t0).
           { rewrite Forall_forall in Hl'. apply (proj1 (NoDup_nth a 0%nat) Hnda); auto. }
           subst. tauto.
      * rewrite H2 by auto. f_equal. rewrite Hr1. apply nth_upd_neq.
        intros Heq. assert (t0 = t).
        { rewrite Forall_forall in Hl'. apply (proj1 (NoDup_nth a 0%nat) Hnda); auto. }
        subst. tauto.
    + intros i Hi. rewrite H3 by (intros t Ht; apply Hi; right; auto).
      rewrite Hr1. apply nth_upd_neq. apply Hi. left. reflexivity.
Qed.

(* ------------------------------------------------------------------ shape of a row *)
Lemma row_shape : forall (n : nat) (cs : list (list nat)) (rows : list (list R)) (p : nat),
  tri n cs -> fits cs rows -> (p < n)%nat ->
  exists (a : list nat) (u : list R) (dd : R),
    nth p cs [] = a ++ [p] /\ nth p rows [] = u ++ [dd] /\ length u = length a /\
    NoDup a /\ Forall (fun c : nat => (c < p)%nat) a.
Proof.
  intros n cs rows p [Hl Ht] [Hfl Hfr] Hp. destruct (Ht p Hp) as [a [Ha [Hnd Hb]]].
  specialize (Hfr p ltac:(lia)). rewrite Ha, app_length in Hfr. simpl in Hfr.
  destruct (nth p rows []) as [|w v] using rev_ind; [simpl in Hfr; lia|].
  exists a, v, w. rewrite app_length in Hfr. simpl in Hfr. repeat split; auto. lia.
Qed.

Lemma Ent_split : forall (n : nat) (cs : list (list nat)) (rows : list (list R)) (i c : nat),
  tri n cs -> fits cs rows -> (i < n)%nat ->
  Ent cs rows i c = if Nat.eqb c i then Dof rows i else Lmat cs rows i c.
Proof.
  intros n cs rows i c Ht Hf Hi.
  destruct (row_shape n cs rows i Ht Hf Hi) as [a [u [dd [Ha [Hu [Hl [Hnd Hb]]]]]]].
  unfold Ent, Dof, Lmat, off. rewrite Ha, Hu, !removelast_last, last_last.
  apply lk_snoc; auto. intros Hin. rewrite Forall_forall in Hb. apply Hb in Hin. lia.
Qed.

Lemma Ent_out : forall (n : nat) (cs : list (list nat)) (rows : list (list R)) (i c : nat),
  tri n cs -> (i < n)%nat -> ~ In c (nth i cs []) -> Ent cs rows i c = 0.
Proof. intros. unfold Ent. apply lk_combine_notin. auto. Qed.

Lemma in_firstn_le : forall (A : Type) (l : list A) (m1 m2 : nat) (x : A),
  (m1 <= m2)%nat -> In x (firstn m1 l) -> In x (firstn m2 l).
Proof.
  intros A l; induction l as [|y l IH]; intros m1 m2 x Hle Hin.
  - rewrite firstn_nil in Hin. simpl in Hin. tauto.
  - destruct m1 as [|m1]; [simpl in Hin; tauto|]. destruct m2 as [|m2]; [lia|].
    simpl in *. destruct Hin as [H|H]; [left; exact H|right; eapply IH; [|exact H]; lia].
Qed.

(* two off-diagonal columns s < r of row p: s is a column of row r *)
Lemma pref_lt_in : forall (n : nat) (cs : list (list nat)) (p r s : nat),
  tri n cs -> pref n cs -> (p < n)%nat ->
  In r (removelast (nth p cs [])) -> In s (removelast (nth p cs [])) -> (s < r)%nat -> In s (nth r cs []).
Proof.
  intros n cs p r s Ht Hp Hpn Hr Hs Hlt.
  pose proof (Hp p r Hpn Hr) as Er. pose proof (Hp p s Hpn Hs) as Es.
  destruct Ht as [Hl Ht].
  assert (Hrn : (r < n)%nat).
  { destruct (Ht p Hpn) as [a [Ha [_ Hb]]]. rewrite Ha, removelast_last in Hr. rewrite Forall_forall in Hb. apply Hb in Hr. lia. }
  assert (Hsn : (s < n)%nat) by lia.
  destruct (Ht r Hrn) as [ar [Har [_ Hbr]]]. destruct (Ht s Hsn) as [as_ [Has [_ Hbs]]].
  destruct (Nat.le_gt_cases (length (nth s cs [])) (length (nth r cs []))) as [Hle|Hgt].
  - rewrite Er. apply (in_firstn_le nat _ (length (nth s cs []))); auto.
    rewrite <- Es. rewrite Has. apply in_or_app. right. simpl. auto.
  - exfalso. assert (Hin : In r (nth s cs [])).
    { rewrite Es. apply (in_firstn_le nat _ (length (nth r cs []))); [lia|].
      rewrite <- Er. rewrite Har. apply in_or_app. right. simpl. auto. }
    rewrite Has in Hin. apply in_app_or in Hin. destruct Hin as [Hin|Hin].
    + rewrite Forall_forall in Hbs. apply Hbs in Hin. lia.
    + simpl in Hin. lia.
Qed.

(* ------------------------------------------------------------------ one step of mj_factorI on the rows *)
Lemma factor_step_rows : forall (n : nat) (cs : list (list nat)) (rows : list (list R)) (dinv : list R) (p : nat)
  (a : list nat) (u : list R) (dd : R),
  tri n cs -> fits cs rows -> (p < n)%nat ->
  nth p cs [] = a ++ [p] -> nth p rows [] = u ++ [dd] -> length u = length a ->
  NoDup a -> Forall (fun c : nat => (c < p)%nat) a ->
  let invD := 1 / dd in
  let st := factor_step cs (rows, dinv) p in
  length (fst st) = length rows /\
  nth p (fst st) [] = map (fun x : R => x * invD) u ++ [dd] /\
  (forall t : nat, (t < length a)%nat ->
     nth (nth t a 0%nat) (fst st) [] = addToScl_prefix (nth (nth t a 0%nat) rows []) (u ++ [dd]) ((- nth t u 0) * invD)) /\
  (forall i : nat, i <> p -> ~ In i a -> nth i (fst st) [] = nth i rows []) /\
  snd st = upd p invD dinv.
Proof.
  intros n cs rows dinv p a u dd Ht Hf Hp Ha Hu Hl Hnd Hb invD st.
  assert (Hrl : length rows = n) by (destruct Hf as [H1 _]; destruct Ht as [H2 _]; lia).
  unfold st, factor_step. rewrite Hu, Ha.
  assert (Hlen : (length (u ++ [dd]) - 1 = length a)%nat) by (rewrite app_length; simpl; lia).
  rewrite Hlen.
  assert (Hn1 : nth (length a) (u ++ [dd]) 0 = dd).
  { rewrite app_nth2 by lia. replace (length a - length u)%nat with 0%nat by lia. reflexivity. }
  assert (Hf1 : firstn (length a) (u ++ [dd]) = u) by (apply firstn_app_exact; auto).
  num_R. rewrite Hn1, Hf1. fold invD.
  rewrite factor_row_update_unfold, Hlen.
  assert (Hal : Forall (fun i : nat => (i < length rows)%nat) a).
  { eapply Forall_impl; [|exact Hb]. intros c Hc. cbv beta in *. lia. }
  destruct (fru_spec a p (u ++ [dd]) invD (rev (seq 0 (length a))) rows Hnd) as [H1 [H2 H3]]; auto.
  { apply NoDup_rev. apply seq_NoDup. }
  { apply Forall_rev. apply Forall_forall. intros t Ht'. apply in_seq in Ht'. lia. }
  cbv zeta in *. cbn [fst snd].
  set (rows1 := fold_left (fru_fun (a ++ [p]) (u ++ [dd]) invD) (rev (seq 0 (length a))) rows) in *.
  split; [rewrite upd_length; exact H1|]. split; [apply nth_upd_eq; lia|]. split.
  - intros t Htl. rewrite nth_upd_neq.
    + rewrite H2 by (apply -> in_rev; apply in_seq; lia).
      rewrite (app_nth1 u [dd]) by lia. reflexivity.
    + intros Heq. rewrite Forall_forall in Hb. assert (In (nth t a 0%nat) a) by (apply nth_In; auto).
      apply Hb in H. lia.
  - split; [|reflexivity]. intros i Hip Hia. rewrite nth_upd_neq by auto. apply H3.
    intros t Ht' Heq. apply Hia. rewrite <- Heq. apply nth_In. apply in_rev in Ht'. apply in_seq in Ht'. lia.
Qed.

(* ------------------------------------------------------------------ effect of one step on the entries *)
Lemma addToScl_prefix_length : forall (dst src : list R) (scl : R),
  length (addToScl_prefix dst src scl) = Nat.min (length dst) (length src).
Proof. intros. unfold addToScl_prefix. rewrite map_length, combine_length. reflexivity. Qed.

Lemma pref_len : forall (n : nat) (cs : list (list nat)) (p i : nat), pref n cs -> (p < n)%nat ->
  In i (removelast (nth p cs [])) -> (length (nth i cs []) <= length (nth p cs []))%nat.
Proof.
  intros n cs p i Hpf Hp Hin. pose proof (Hpf p i Hp Hin) as E.
  assert (H : length (nth i cs []) = length (firstn (length (nth i cs [])) (nth p cs []))) by (rewrite <- E; reflexivity).
  rewrite firstn_length in H. lia.
Qed.

Lemma Ent_step : forall (n : nat) (cs : list (list nat)) (rows : list (list R)) (dinv : list R) (p : nat)
  (a : list nat) (u : list R) (dd : R),
  tri n cs -> pref n cs -> fits cs rows -> (p < n)%nat ->
  nth p cs [] = a ++ [p] -> nth p rows [] = u ++ [dd] -> length u = length a ->
  NoDup a -> Forall (fun c : nat => (c < p)%nat) a ->
  let invD := 1 / dd in
  let rows2 := fst (factor_step cs (rows, dinv) p) in
  fits cs rows2 /\
  (forall i : nat, i <> p -> ~ In i a -> nth i rows2 [] = nth i rows []) /\
  (forall s : nat, Ent cs rows2 p s = if Nat.eqb s p then dd else Ent cs rows p s * invD) /\
  (forall r s : nat, In r a ->
     Ent cs rows2 r s = Ent cs rows r s -
       (if in_dec Nat.eq_dec s (nth r cs []) then Ent cs rows p s * Ent cs rows p r * invD else 0)).
Proof.
  intros n cs rows dinv p a u dd Ht Hpf Hf Hp Ha Hu Hl Hnd Hb invD rows2.
  destruct (factor_step_rows n cs rows dinv p a u dd Ht Hf Hp Ha Hu Hl Hnd Hb) as [H1 [H2 [H3 [H4 _]]]].
  cbv zeta in *. fold invD in H2, H3. fold rows2 in H1, H2, H3, H4.
  assert (Hpa : ~ In p a) by (intros Hin; rewrite Forall_forall in Hb; apply Hb in Hin; lia).
  assert (Hndp : NoDup (a ++ [p])) by (apply nodup_snoc; auto).
  destruct Hf as [Hfl Hfr].
  assert (Hcsl : length cs = n) by (destruct Ht; auto).
  assert (Hra : forall r : nat, In r a -> In r (removelast (nth p cs []))) by (intros r Hr; rewrite Ha, removelast_last; exact Hr).
  split; [|split; [exact H4|split]].
  - (* fits *)
    split; [lia|]. intros i Hi. destruct (Nat.eq_dec i p) as [->|Hip].
    + rewrite H2, Ha, !app_length, map_length. simpl. lia.
    + destruct (in_dec Nat.eq_dec i a) as [Hia|Hia].
      * destruct (In_nth a i 0%nat Hia) as [t [Htl Hti]]. rewrite <- Hti, H3 by auto. rewrite Hti.
        rewrite addToScl_prefix_length, Hfr by lia.
        pose proof (pref_len n cs p i Hpf Hp (Hra i Hia)) as Hle. rewrite Ha in Hle.
        rewrite !app_length in *. simpl in *. lia.
      * rewrite H4 by auto. apply Hfr. lia.
  - (* row p *)
    intros s. unfold Ent. rewrite H2, Ha, Hu.
    rewrite lk_snoc by (rewrite ?map_length; auto). rewrite lk_snoc by auto.
    destruct (Nat.eqb s p); [reflexivity|]. apply lk_combine_scale.
  - (* ancestor rows *)
    intros r s Hr. destruct (In_nth a r 0%nat Hr) as [t [Htl Hti]].
    assert (Hrn : (r < n)%nat) by (rewrite Forall_forall in Hb; apply Hb in Hr; lia).
    unfold Ent at 1. rewrite <- Hti at 2. rewrite H3 by auto. rewrite Hti.
    unfold addToScl_prefix.
    pose proof (pref_len n cs p r Hpf Hp (Hra r Hr)) as Hle. rewrite Ha in Hle.
    rewrite lk_combine_addscl.
    2:{ apply Hfr. lia. }
    2:{ rewrite Ha in *. rewrite !app_length in *. simpl in *. lia. }
    fold (Ent cs rows r s).
    assert (Hut : nth t u 0 = Ent cs rows p r).
    { unfold Ent. rewrite Ha, Hu. rewrite <- Hti.
      rewrite <- (app_nth1 a [p] 0%nat Htl). rewrite lk_combine_nth; auto.
      - symmetry. apply app_nth1. lia.
      - rewrite app_length. simpl. lia.
      - rewrite !app_length. simpl. lia. }
    rewrite Hut.
    destruct (in_dec Nat.eq_dec s (nth r cs [])) as [Hs|Hs].
    + assert (E : lk s (combine (nth r cs []) (u ++ [dd])) = Ent cs rows p s).
      { unfold Ent. rewrite Hu. rewrite (Hpf p r Hp (Hra r Hr)) at 1.
        apply lk_combine_firstn. rewrite <- (Hpf p r Hp (Hra r Hr)). exact Hs. }
      rewrite E. unfold invD. lra.
    + rewrite lk_combine_notin by auto. lra.
Qed.

(* ------------------------------------------------------------------ invariant of the elimination *)
Definition bsum_from (k n : nat) (f : nat -> R) : R := bsum (n - k) (fun t => f (k + t)%nat).

Lemma bsum_from_S : forall (k n : nat) (f : nat -> R), (k < n)%nat -> bsum_from k n f = f k + bsum_from (S k) n f.
Proof.
  intros k n f Hk. unfold bsum_from. replace (n - k)%nat with (S (n - S k)) by lia.
  rewrite bsum_shift. rewrite Nat.add_0_r. f_equal. apply bsum_ext. intros t _. f_equal. lia.
Qed.

Lemma bsum_from_ext : forall (k n : nat) (f g : nat -> R),
  (forall i : nat, (k <= i < n)%nat -> f i = g i) -> bsum_from k n f = bsum_from k n g.
Proof. intros k n f g H. unfold bsum_from. apply bsum_ext. intros t Ht. apply H. lia. Qed.

Definition FInv (n : nat) (cs : list (list nat)) (A0 : nat -> nat -> R) (k : nat) (st : list (list R) * list R) : Prop :=
  fits cs (fst st) /\ length (snd st) = n /\
  (forall i : nat, (k <= i < n)%nat -> Dof (fst st) i * nth i (snd st) 0 = 1) /\
  (forall r s : nat, (s <= r)%nat -> (r < n)%nat ->
     A0 r s = bsum_from k n (fun i => Lfull cs (fst st) i r * Dof (fst st) i * Lfull cs (fst st) i s)
              + (if Nat.ltb r k then Ent cs (fst st) r s else 0)).

Lemma Lfull_Ent : forall (n : nat) (cs : list (list nat)) (rows : list (list R)) (i c : nat),
  tri n cs -> fits cs rows -> (i < n)%nat ->
  Lfull cs rows i c = if Nat.eqb c i then 1 else Ent cs rows i c.
Proof.
  intros n cs rows i c Ht Hf Hi. unfold Lfull. rewrite (Ent_split n) by auto.
  destruct (Nat.eqb c i); reflexivity.
Qed.

Lemma Lfull_row_eq : forall (cs : list (list nat)) (rows1 rows2 : list (list R)) (i c : nat),
  nth i rows1 [] = nth i rows2 [] -> Lfull cs rows1 i c = Lfull cs rows2 i c /\ Dof rows1 i = Dof rows2 i.
Proof. intros cs rows1 rows2 i c E. unfold Lfull, Lmat, off, Dof. rewrite E. split; reflexivity. Qed.

Lemma FInv_step : forall (n : nat) (cs : list (list nat)) (A0 : nat -> nat -> R) (p : nat) (st : list (list R) * list R),
  tri n cs -> pref n cs -> (p < n)%nat -> FInv n cs A0 (S p) st -> Dof (fst st) p <> 0 ->
  FInv n cs A0 p (factor_step cs st p).
Proof.
  intros n cs A0 p [rows dinv] Ht Hpf Hp [Hf [Hdl [HD HA]]] Hpiv. cbn [fst snd] in *.
  destruct (row_shape n cs rows p Ht Hf Hp) as [a [u [dd [Ha [Hu [Hl [Hnd Hb]]]]]]].
  assert (Hdd : Dof rows p = dd) by (unfold Dof; rewrite Hu, last_last; reflexivity).
  rewrite Hdd in Hpiv.
  destruct (Ent_step n cs rows dinv p a u dd Ht Hpf Hf Hp Ha Hu Hl Hnd Hb) as [Hf2 [Hkeep [Hrowp Hanc]]].
  destruct (factor_step_rows n cs rows dinv p a u dd Ht Hf Hp Ha Hu Hl Hnd Hb) as [_ [H2 [_ [_ Hdinv]]]].
  unfold FInv. cbv zeta in *. set (invD := 1 / dd) in *.
  set (rows2 := fst (factor_step cs (rows, dinv) p)) in *.
  assert (Hgt : forall i : nat, (p < i)%nat -> nth i rows2 [] = nth i rows []).
  { intros i Hi. apply Hkeep; [lia|]. intros Hin. rewrite Forall_forall in Hb. apply Hb in Hin. lia. }
  assert (Hdof2 : Dof rows2 p = dd) by (unfold Dof; rewrite H2, last_last; reflexivity).
  assert (Hcsp : forall c : nat, ~ In c a -> c <> p -> Ent cs rows p c = 0).
  { intros c Hc Hcp. apply (Ent_out n); auto. rewrite Ha. intros Hin. apply in_app_or in Hin. destruct Hin as [H|[H|[]]]; [tauto|congruence]. }
  split; [exact Hf2|]. split; [rewrite Hdinv, upd_length; exact Hdl|]. split.
  - intros i Hi. rewrite Hdinv. destruct (Nat.eq_dec i p) as [->|Hne].
    + rewrite Hdof2, nth_upd_eq by lia. unfold invD. field. exact Hpiv.
    + rewrite nth_upd_neq by auto. destruct (Lfull_row_eq cs rows2 rows i 0%nat (Hgt i ltac:(lia))) as [_ Ed].
      rewrite Ed. apply HD. lia.
  - intros r s Hsr Hr. rewrite (HA r s Hsr Hr). rewrite (bsum_from_S p n) by auto.
    rewrite (bsum_from_ext (S p) n
               (fun i => Lfull cs rows2 i r * Dof rows2 i * Lfull cs rows2 i s)
               (fun i => Lfull cs rows i r * Dof rows i * Lfull cs rows i s)).
    2:{ intros i Hi. destruct (Lfull_row_eq cs rows2 rows i r (Hgt i ltac:(lia))) as [E1 E2].
        destruct (Lfull_row_eq cs rows2 rows i s (Hgt i ltac:(lia))) as [E3 _]. rewrite E1, E2, E3. reflexivity. }
    rewrite !(Lfull_Ent n cs rows2 p) by auto. rewrite Hdof2, !Hrowp.
    assert (Hpp : Ent cs rows p p = dd).
    { rewrite (Ent_split n) by auto. rewrite Nat.eqb_refl. exact Hdd. }
    destruct (Nat.lt_trichotomy r p) as [Hlt|[Heq|Hgt2]].
    + (* r < p *)
      destruct (Nat.ltb_spec r p); [|lia]. destruct (Nat.ltb_spec r (S p)); [|lia].
      destruct (Nat.eqb_spec r p); [lia|]. destruct (Nat.eqb_spec s p); [lia|].
      destruct (in_dec Nat.eq_dec r a) as [Hra|Hra].
      * rewrite (Hanc r s Hra). destruct (in_dec Nat.eq_dec s (nth r cs [])) as [Hs|Hs].
        -- unfold invD. field. exact Hpiv.
        -- assert (Hps : Ent cs rows p s = 0).
           { apply Hcsp; [|lia]. intros Hsa. apply Hs.
             destruct (Nat.eq_dec s r) as [->|Hne].
             - destruct Ht as [_ Ht']. destruct (Ht' r ltac:(lia)) as [ar [Har _]]. rewrite Har. apply in_or_app. right. simpl. auto.
             - apply (pref_lt_in n cs p r s); auto; try lia; rewrite Ha, removelast_last; auto. }
           rewrite Hps. unfold invD. field. exact Hpiv.
      * assert (Er : Ent cs rows2 r s = Ent cs rows r s) by (unfold Ent; rewrite Hkeep by (auto; lia); reflexivity).
        rewrite Er. rewrite (Hcsp r Hra) by lia. unfold invD. field. exact Hpiv.
    + (* r = p *)
      subst r. rewrite Nat.eqb_refl. destruct (Nat.ltb_spec p p); [lia|]. destruct (Nat.ltb_spec p (S p)); [|lia].
      destruct (Nat.eqb_spec s p) as [->|Hne].
      * rewrite Hpp. lra.
      * unfold invD. field. exact Hpiv.
    + (* r > p *)
      destruct (Nat.ltb_spec r p); [lia|]. destruct (Nat.ltb_spec r (S p)); [lia|].
      destruct (Nat.eqb_spec r p); [lia|].
      assert (Hpr : Ent cs rows p r = 0).
      { apply Hcsp; [|lia]. intros Hin. rewrite Forall_forall in Hb. apply Hb in Hin. lia. }
      rewrite Hpr. lra.
Qed.

(* ------------------------------------------------------------------ the whole elimination *)
Lemma step_keep : forall (n : nat) (cs : list (list nat)) (st : list (list R) * list R) (p : nat),
  tri n cs -> pref n cs -> fits cs (fst st) -> (p < n)%nat ->
  fits cs (fst (factor_step cs st p)) /\
  (forall i : nat, (p < i)%nat -> nth i (fst (factor_step cs st p)) [] = nth i (fst st) []) /\
  Dof (fst (factor_step cs st p)) p = Dof (fst st) p.
Proof.
  intros n cs [rows dinv] p Ht Hpf Hf Hp. cbn [fst snd] in *.
  destruct (row_shape n cs rows p Ht Hf Hp) as [a [u [dd [Ha [Hu [Hl [Hnd Hb]]]]]]].
  destruct (Ent_step n cs rows dinv p a u dd Ht Hpf Hf Hp Ha Hu Hl Hnd Hb) as [Hf2 [Hkeep _]].
  destruct (factor_step_rows n cs rows dinv p a u dd Ht Hf Hp Ha Hu Hl Hnd Hb) as [_ [H2 _]].
  cbv zeta in *. split; [exact Hf2|]. split.
  - intros i Hi. apply Hkeep; [lia|]. intros Hin. rewrite Forall_forall in Hb. apply Hb in Hin. lia.
  - unfold Dof. rewrite H2, Hu, !last_last. reflexivity.
Qed.

Definition frun (cs : list (list nat)) (m : nat) (st : list (list R) * list R) : list (list R) * list R :=
  fold_left (factor_step cs) (rev (seq 0 m)) st.

Lemma frun_S : forall (cs : list (list nat)) (m : nat) (st : list (list R) * list R),
  frun cs (S m) st = frun cs m (factor_step cs st m).
Proof. intros. unfold frun. rewrite seq_S, rev_app_distr. reflexivity. Qed.

Lemma frun_keep : forall (n : nat) (cs : list (list nat)), tri n cs -> pref n cs ->
  forall (m : nat) (st : list (list R) * list R), (m <= n)%nat -> fits cs (fst st) ->
  fits cs (fst (frun cs m st)) /\
  forall i : nat, (m <= i)%nat -> nth i (fst (frun cs m st)) [] = nth i (fst st) [].
Proof.
  intros n cs Ht Hpf. induction m as [|m IH]; intros st Hm Hf.
  - split; [exact Hf|reflexivity].
  - rewrite frun_S. destruct (step_keep n cs st m Ht Hpf Hf) as [Hf2 [Hk _]]; [lia|].
    destruct (IH (factor_step cs st m)) as [Hf3 Hk3]; [lia|exact Hf2|].
    split; [exact Hf3|]. intros i Hi. rewrite Hk3 by lia. apply Hk. lia.
Qed.

Lemma frun_inv : forall (n : nat) (cs : list (list nat)) (A0 : nat -> nat -> R), tri n cs -> pref n cs ->
  forall (m : nat) (st : list (list R) * list R), (m <= n)%nat -> FInv n cs A0 m st ->
  (forall i : nat, (i < m)%nat -> Dof (fst (frun cs m st)) i <> 0) ->
  FInv n cs A0 0 (frun cs m st).
Proof.
  intros n cs A0 Ht Hpf. induction m as [|m IH]; intros st Hm Hinv Hpiv.
  - exact Hinv.
  - rewrite frun_S in *.
    assert (Hf : fits cs (fst st)) by (destruct Hinv; auto).
    destruct (step_keep n cs st m Ht Hpf Hf) as [Hf2 [_ Hd]]; [lia|].
    destruct (frun_keep n cs Ht Hpf m (factor_step cs st m)) as [_ Hk]; [lia|exact Hf2|].
    assert (Hpm : Dof (fst st) m <> 0).
    { rewrite <- Hd. specialize (Hpiv m ltac:(lia)). unfold Dof in *. rewrite Hk in Hpiv by lia. exact Hpiv. }
    apply IH; [lia| |intros i Hi; apply Hpiv; lia].
    apply FInv_step; auto.
Qed.

Lemma LDL_sym : forall (n : nat) (cs : list (list nat)) (rows : list (list R)) (r s : nat),
  LDL n cs rows r s = LDL n cs rows s r.
Proof. intros. unfold LDL. apply bsum_ext. intros i _. ring. Qed.

(* the symmetric matrix denoted by the lower-triangular storage *)
Definition Msym (cs : list (list nat)) (rows : list (list R)) (r s : nat) : R :=
  if Nat.leb s r then Ent cs rows r s else Ent cs rows s r.

Lemma factorI_spec : forall (n : nat) (cs : list (list nat)) (rows0 : list (list R)),
  tri n cs -> pref n cs -> fits cs rows0 ->
  let st := factorI n cs rows0 in
  (forall i : nat, (i < n)%nat -> Dof (fst st) i <> 0) ->
  fits cs (fst st) /\ length (snd st) = n /\
  (forall i : nat, (i < n)%nat -> Dof (fst st) i * nth i (snd st) 0 = 1) /\
  (forall r s : nat, (r < n)%nat -> (s < n)%nat -> LDL n cs (fst st) r s = Msym cs rows0 r s).
Proof.
  intros n cs rows0 Ht Hpf Hf st Hpiv.
  assert (Hinit : FInv n cs (Ent cs rows0) n (rows0, repeat 0 n)).
  { split; [exact Hf|]. split; [apply repeat_length|]. split; [intros i Hi; lia|].
    intros r s Hsr Hr. cbn [fst]. unfold bsum_from. rewrite Nat.sub_diag. simpl bsum.
    destruct (Nat.ltb_spec r n); [lra|lia]. }
  pose proof (frun_inv n cs (Ent cs rows0) Ht Hpf n (rows0, repeat 0 n) (Nat.le_refl n) Hinit) as H.
  unfold frun in H. change (fold_left (factor_step cs) (rev (seq 0 n)) (rows0, repeat 0 n)) with st in H.
  destruct (H Hpiv) as [Hf2 [Hdl [HD HA]]].
  split; [exact Hf2|]. split; [exact Hdl|]. split; [intros i Hi; apply HD; lia|].
  assert (Hlow : forall r s : nat, (s <= r)%nat -> (r < n)%nat -> LDL n cs (fst st) r s = Ent cs rows0 r s).
  { intros r s Hsr Hr. rewrite (HA r s Hsr Hr). unfold LDL, bsum_from. rewrite Nat.sub_0_r. simpl. lra. }
  intros r s Hr Hs. unfold Msym. destruct (Nat.leb_spec s r).
  - apply Hlow; auto.
  - rewrite LDL_sym. apply Hlow; lia.
Qed.

(* solve o factor solves M w = x *)
Lemma factor_solve : forall (n : nat) (cs : list (list nat)) (rows0 : list (list R)) (x : list R),
  tri n cs -> pref n cs -> fits cs rows0 -> length x = n ->
  let st := factorI n cs rows0 in
  (forall i : nat, (i < n)%nat -> Dof (fst st) i <> 0) ->
  let w := solveLD n cs (fst st) (snd st) x in
  length w = n /\
  forall r : nat, (r < n)%nat -> bsum n (fun s => Msym cs rows0 r s * nth s w 0) = nth r x 0.
Proof.
  intros n cs rows0 x Ht Hpf Hf Hx st Hpiv w.
  destruct (factorI_spec n cs rows0 Ht Hpf Hf Hpiv) as [Hf2 [Hdl [HD HA]]]. fold st in Hf2, Hdl, HD, HA.
  destruct (solveLD_spec n cs (fst st) (snd st) x Ht Hf2 Hdl Hx HD) as [Hlw Hw]. fold w in Hlw, Hw.
  split; [exact Hlw|]. intros r Hr. rewrite <- (Hw r Hr). apply bsum_ext. intros s Hs.
  rewrite HA by auto. reflexivity.
Qed.

(* every forest structure has the prefix property, provided non-simple dofs have no simple ancestors
   when rows of simple dofs are reduced (the compiler only marks childless bodies hanging from the
   world as simple) *)
Lemma forest_pref : forall (nv : nat) (par simple : list Z) (reduced : bool), forest nv par ->
  (forall i j : nat, (i < nv)%nat -> diagOnly simple reduced i = false -> In j (ancestors nv par i) ->
     diagOnly simple reduced j = false) ->
  pref nv (dofdof_rows nv par simple reduced false).
Proof.
  intros nv par simple reduced Hf Hcl p i Hp Hin.
  rewrite dofdof_rows_lower in *. rewrite (nth_map_seq0 _ (lowrow nv par simple reduced) nv p []) in Hin |- * by auto.
  unfold lowrow in Hin. destruct (diagOnly simple reduced p) eqn:Edp; [simpl in Hin; tauto|].
  rewrite removelast_last in Hin. apply in_rev in Hin.
  destruct (ancestors_spec nv par p Hf Hp) as [_ [_ Hb]].
  assert (Hi : (i < nv)%nat) by (rewrite Forall_forall in Hb; apply Hb in Hin; lia).
  rewrite (nth_map_seq0 _ (lowrow nv par simple reduced) nv i []) by auto.
  assert (Edi : diagOnly simple reduced i = false) by (apply (Hcl p i); auto).
  unfold lowrow. rewrite Edp, Edi.
  destruct (fullrow_prefix nv par p i Hf Hp Hin) as [rest Hrest].
  rewrite Hrest. symmetry. apply firstn_app_exact. reflexivity.
Qed.

(* ------------------------------------------------------------------ in terms of mj_fullM / mj_mulM *)
Lemma Msym_Full : forall (cs : list (list nat)) (rows : list (list R)) (r s : nat),
  fits cs rows -> (r < length cs)%nat -> (s < length cs)%nat ->
  Msym cs rows r s = Full (csr_of cs rows) r s.
Proof.
  intros cs rows r s Hf Hr Hs. unfold Msym, Full, Ent. rewrite !row_csr_of by auto. reflexivity.
Qed.

Lemma factor_solve_forest : forall (nv : nat) (par simple : list Z) (reduced : bool) (rows0 : list (list R)) (x : list R),
  forest nv par ->
  (forall i j : nat, (i < nv)%nat -> diagOnly simple reduced i = false -> In j (ancestors nv par i) ->
     diagOnly simple reduced j = false) ->
  let cs := dofdof_rows nv par simple reduced false in
  fits cs rows0 -> length x = nv ->
  let st := factorI nv cs rows0 in
  (forall i : nat, (i < nv)%nat -> Dof (fst st) i <> 0) ->
  let w := solveLD nv cs (fst st) (snd st) x in
  let M := csr_of cs rows0 in
  length w = nv /\ dmulMatVec (sym2dense nv M) w = x /\ mulSymVecSparse nv M w = x.
Proof.
  intros nv par simple reduced rows0 x Hf Hcl cs Hfit Hx st Hpiv w M.
  pose proof (forest_tri nv par simple reduced Hf) as Ht. fold cs in Ht.
  pose proof (forest_pref nv par simple reduced Hf Hcl) as Hpf. fold cs in Hpf.
  destruct (factor_solve nv cs rows0 x Ht Hpf Hfit Hx Hpiv) as [Hlw Hw]. fold st in Hlw, Hw. fold w in Hlw, Hw.
  pose proof (wf_lower_structure nv par simple reduced rows0 Hf Hfit) as Hwf. fold cs in Hwf. fold M in Hwf.
  destruct (mulSymVec_sym2dense nv M w Hwf Hlw) as [Hmul [Hget _]].
  destruct (sym2dense_inv nv M Hwf nv (Nat.le_refl nv)) as [[HlM _] _]. rewrite <- sym2dense_unfold in HlM.
  assert (Hcsl : length cs = nv) by (destruct Ht; auto).
  assert (Hd : dmulMatVec (sym2dense nv M) w = x).
  { apply (nth_ext_len R 0).
    - unfold dmulMatVec. rewrite map_length, HlM. auto.
    - unfold dmulMatVec. rewrite map_length, HlM. intros r Hr.
      rewrite (nth_indep _ 0 (ndot [] w)) by (rewrite map_length, HlM; auto).
      rewrite (map_nth (fun rw : list R => ndot rw w) (sym2dense nv M) [] r).
      rewrite ndot_spec, Hlw. rewrite <- (Hw r Hr). apply bsum_ext. intros s Hs.
      change (nth s (nth r (sym2dense nv M) []) 0) with (dget (sym2dense nv M) r s).
      rewrite Hget by auto. unfold M. rewrite <- Msym_Full by (auto; lia). reflexivity. }
  split; [exact Hlw|]. split; [exact Hd|]. rewrite Hmul. exact Hd.
Qed.
