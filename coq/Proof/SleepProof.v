(* Proofs about Model/Sleep.v (C18). *)
From Coq Require Import ZArith List Bool Lia Sorted Permutation Arith.
From MJV Require Import Model.Sleep.
Import ListNotations.
Open Scope Z_scope.

(* ------------------------------------------------------------------ arrays *)
Lemma length_set_nat : forall l n v, length (set_nat l n v) = length l.
Proof. induction l; destruct n; simpl; intros; auto. Qed.

Lemma lenZ_setZ : forall l i v, lenZ (setZ l i v) = lenZ l.
Proof. intros. unfold lenZ, setZ. destruct (i <? 0); auto. rewrite length_set_nat. auto. Qed.

Lemma nth_set_nat_same : forall l n v d, (n < length l)%nat -> nth n (set_nat l n v) d = v.
Proof. induction l; destruct n; simpl; intros; try lia; auto. apply IHl. lia. Qed.

Lemma nth_set_nat_other : forall l n m v d, n <> m -> nth m (set_nat l n v) d = nth m l d.
Proof. induction l; destruct n; destruct m; simpl; intros; try congruence; auto. Qed.

Lemma get_set_same : forall l i v, 0 <= i < lenZ l -> getZ (setZ l i v) i = v.
Proof.
  intros. unfold getZ, setZ, lenZ in *. destruct (i <? 0) eqn:E; [lia|].
  apply nth_set_nat_same. lia.
Qed.

Lemma get_set_other : forall l i j v, 0 <= i -> 0 <= j -> i <> j -> getZ (setZ l i v) j = getZ l j.
Proof.
  intros. unfold getZ, setZ. destruct (i <? 0) eqn:E; [lia|].
  apply nth_set_nat_other. intro. apply H1. apply Z2Nat.inj; auto.
Qed.

Lemma get_set : forall l i j v, 0 <= i < lenZ l -> 0 <= j ->
  getZ (setZ l i v) j = if j =? i then v else getZ l j.
Proof.
  intros. destruct (j =? i) eqn:E.
  - apply Z.eqb_eq in E. subst. apply get_set_same; auto.
  - apply Z.eqb_neq in E. apply get_set_other; lia.
Qed.

Lemma lenZ_nonneg : forall A (l : list A), 0 <= lenZ l.
Proof. intros. unfold lenZ. lia. Qed.

Lemma bad_index_false : forall n x, bad_index n x = false <-> 0 <= x < n.
Proof. intros. unfold bad_index. rewrite orb_false_iff, Z.ltb_ge, Z.leb_gt. lia. Qed.

Lemma In_zseq : forall n x, In x (zseq n) <-> 0 <= x < n.
Proof.
  intros. unfold zseq. rewrite in_map_iff. split.
  - intros [k [E I]]. apply in_seq in I. lia.
  - intros. exists (Z.to_nat x). split; [lia|]. apply in_seq. lia.
Qed.

Lemma NoDup_zseq : forall n, NoDup (zseq n).
Proof.
  intros. unfold zseq. apply FinFun.Injective_map_NoDup.
  - intros a b E. lia.
  - apply seq_NoDup.
Qed.

(* ------------------------------------------------------------------ orbits under Inv *)
Lemma iter_add : forall ta a b i, iter ta (a + b) i = iter ta a (iter ta b i).
Proof. induction a; simpl; intros; auto. rewrite IHa. auto. Qed.

Lemma iter_S' : forall ta k i, iter ta (S k) i = iter ta k (getZ ta i).
Proof. intros. replace (S k) with (k + 1)%nat by lia. rewrite iter_add. reflexivity. Qed.

Lemma iter_asleep : forall ta i, Inv ta -> 0 <= i < lenZ ta -> 0 <= getZ ta i ->
  forall k, 0 <= iter ta k i < lenZ ta /\ 0 <= getZ ta (iter ta k i).
Proof.
  intros ta i [H1 H2] Hi Hs. induction k; simpl; auto.
  destruct IHk as [A B]. destruct (H1 _ A B). auto.
Qed.

Lemma iter_inj : forall ta, Inv ta -> forall k i j,
  0 <= i < lenZ ta -> 0 <= getZ ta i -> 0 <= j < lenZ ta -> 0 <= getZ ta j ->
  iter ta k i = iter ta k j -> i = j.
Proof.
  intros ta HI. induction k; simpl; intros; auto.
  destruct (iter_asleep ta i HI H H0 k). destruct (iter_asleep ta j HI H1 H2 k).
  apply IHk; auto. destruct HI as [_ Hinj]. apply Hinj; auto.
Qed.

Lemma dup_or_nodup : forall (f : nat -> Z) m,
  (exists a b, (a < b < m)%nat /\ f a = f b) \/ NoDup (map f (seq 0 m)).
Proof.
  induction m.
  - right. constructor.
  - destruct IHm as [[a [b [H E]]] | ND].
    + left. exists a, b. split; [lia | auto].
    + rewrite seq_S, map_app. simpl.
      destruct (In_dec Z.eq_dec (f m) (map f (seq 0 m))) as [I | NI].
      * left. apply in_map_iff in I. destruct I as [a [E I]]. apply in_seq in I.
        exists a, m. split; [lia | auto].
      * right. eapply Permutation_NoDup; [apply Permutation_cons_append|]. constructor; auto.
Qed.

Lemma exists_period : forall ta i, Inv ta -> 0 <= i < lenZ ta -> 0 <= getZ ta i ->
  exists p, (0 < p <= length ta)%nat /\ iter ta p i = i.
Proof.
  intros ta i HI Hi Hs.
  destruct (dup_or_nodup (fun k => iter ta k i) (S (length ta))) as [[a [b [H E]]] | ND].
  - exists (b - a)%nat. split; [lia|].
    replace b with (a + (b - a))%nat in E by lia. rewrite iter_add in E.
    destruct (iter_asleep ta i HI Hi Hs (b - a)).
    symmetry. eapply iter_inj; eauto.
  - exfalso.
    assert (incl (map (fun k => iter ta k i) (seq 0 (S (length ta)))) (zseq (lenZ ta))).
    { intros x I. apply in_map_iff in I. destruct I as [k [E _]]. subst.
      apply In_zseq. apply (iter_asleep ta i HI Hi Hs k). }
    apply NoDup_incl_length in H; auto.
    rewrite map_length, seq_length in H. unfold zseq in H. rewrite map_length, seq_length in H.
    unfold lenZ in H. lia.
Qed.

Lemma least_period : forall ta i, Inv ta -> 0 <= i < lenZ ta -> 0 <= getZ ta i ->
  exists p, (0 < p <= length ta)%nat /\ iter ta p i = i /\
            (forall m, (0 < m < p)%nat -> iter ta m i <> i).
Proof.
  intros ta i HI Hi Hs. destruct (exists_period ta i HI Hi Hs) as [p0 [Hp0 E0]].
  revert Hp0 E0. induction p0 as [p0 IH] using lt_wf_ind. intros.
  assert (D : (exists m, (0 < m < p0)%nat /\ iter ta m i = i) \/
              (forall m, (0 < m < p0)%nat -> iter ta m i <> i)).
  { clear. induction p0.
    - right. intros. lia.
    - destruct IHp0 as [[m [H E]] | N].
      + left. exists m. split; [lia | auto].
      + destruct (Z.eq_dec (iter ta p0 i) i).
        * destruct p0. { right. intros. lia. }
          left. exists (S p0). split; [lia | auto].
        * right. intros m H. destruct (Nat.eq_dec m p0); [subst; auto | apply N; lia]. }
  destruct D as [[m [H E]] | N].
  - apply (IH m); auto; lia.
  - exists p0. auto.
Qed.

Lemma orbit_distinct : forall ta i p, Inv ta -> 0 <= i < lenZ ta -> 0 <= getZ ta i ->
  (forall m, (0 < m < p)%nat -> iter ta m i <> i) ->
  forall a b, (a < p)%nat -> (b < p)%nat -> iter ta a i = iter ta b i -> a = b.
Proof.
  intros ta i p HI Hi Hs Hmin.
  assert (W : forall a b, (a < b)%nat -> (b < p)%nat -> iter ta a i <> iter ta b i).
  { intros a b Hab Hb E. replace b with (a + (b - a))%nat in E by lia. rewrite iter_add in E.
    destruct (iter_asleep ta i HI Hi Hs (b - a)).
    apply (Hmin (b - a)%nat); [lia|]. symmetry. eapply iter_inj; eauto. }
  intros a b Ha Hb E. destruct (Nat.lt_trichotomy a b) as [L | [L | L]]; auto.
  - exfalso. eapply W; eauto.
  - exfalso. eapply W; eauto.
Qed.

Lemma iter_periodic : forall ta i p, iter ta p i = i -> forall q r, iter ta (q * p + r) i = iter ta r i.
Proof.
  intros ta i p E. induction q; simpl; intros; auto.
  replace (p + q * p + r)%nat with ((q * p + r) + p)%nat by lia.
  rewrite iter_add, E. auto.
Qed.

Lemma on_cycle_lt : forall ta i p j, (0 < p)%nat -> iter ta p i = i -> OnCycle ta i j ->
  exists m, (m < p)%nat /\ iter ta m i = j.
Proof.
  intros ta i p j Hp E [m Hm]. exists (m mod p)%nat. split.
  - apply Nat.mod_upper_bound. lia.
  - rewrite <- Hm. rewrite (Nat.div_mod m p) at 2 by lia.
    rewrite (Nat.mul_comm p). symmetry. apply iter_periodic. auto.
Qed.

(* C18_inv_cycles: under Inv every sleeping tree lies on a closed cycle of sleeping trees *)
Lemma inv_cycles : forall ta i, Inv ta -> 0 <= i < lenZ ta -> 0 <= getZ ta i ->
  exists p, (0 < p <= length ta)%nat /\ iter ta p i = i /\
            (forall k, 0 <= iter ta k i < lenZ ta /\ 0 <= getZ ta (iter ta k i)).
Proof.
  intros. destruct (exists_period ta i H H0 H1) as [p [A B]].
  exists p. split; auto. split; auto. apply iter_asleep; auto.
Qed.

(* ------------------------------------------------------------------ mj_wakeIsland *)
Definition Woken (ta0 : list Z) (i : Z) (k : nat) (w : Z) (ta : list Z) : Prop :=
  lenZ ta = lenZ ta0 /\
  (forall m, (m < k)%nat -> getZ ta (iter ta0 m i) = w) /\
  (forall j, 0 <= j -> (forall m, (m < k)%nat -> iter ta0 m i <> j) -> getZ ta j = getZ ta0 j).

Lemma wake_loop_spec : forall ta0 i w p, Inv ta0 -> 0 <= i < lenZ ta0 -> 0 <= getZ ta0 i ->
  (0 < p <= length ta0)%nat -> iter ta0 p i = i -> (forall m, (0 < m < p)%nat -> iter ta0 m i <> i) ->
  forall d k ta fuel, (k + S d = p)%nat -> Woken ta0 i k w ta -> (S d <= fuel)%nat ->
  exists ta', wake_loop fuel ta (lenZ ta0) i w (iter ta0 k i) (Z.of_nat k) = (ta', Z.of_nat p, 0) /\
              Woken ta0 i p w ta'.
Proof.
  intros ta0 i w p HI Hi Hs Hp Eper Hmin.
  induction d; intros k ta fuel Hk [WL [W1 W2]] Hf.
  - destruct fuel; [lia|]. simpl.
    destruct (iter_asleep ta0 i HI Hi Hs k) as [R1 R2].
    assert (N : getZ ta (iter ta0 k i) = iter ta0 (S k) i).
    { simpl. apply W2; [lia|]. intros m Hm E.
      assert (m = k) by (apply (orbit_distinct ta0 i p HI Hi Hs Hmin m k); [lia | lia | exact E]). lia. }
    rewrite N.
    destruct (iter_asleep ta0 i HI Hi Hs (S k)) as [R3 R4].
    replace (bad_index (lenZ ta0) (iter ta0 (S k) i)) with false
      by (symmetry; apply bad_index_false; auto).
    replace (S k) with p by lia. rewrite Eper, Z.eqb_refl.
    eexists. split. { f_equal. f_equal. lia. }
    split; [rewrite lenZ_setZ; auto|]. split.
    + intros m Hm. destruct (Nat.eq_dec m k).
      * subst m. apply get_set_same. rewrite WL. auto.
      * rewrite get_set_other.
        -- apply W1. lia.
        -- lia.
        -- apply (iter_asleep ta0 i HI Hi Hs m).
        -- intro E. apply n. symmetry. apply (orbit_distinct ta0 i p HI Hi Hs Hmin k m); [lia | lia | exact E].
    + intros j Hj Hn. rewrite get_set_other;
        [apply W2; auto; intros m Hm; apply Hn; lia | lia | lia | apply Hn; lia].
  - destruct fuel; [lia|]. simpl.
    destruct (iter_asleep ta0 i HI Hi Hs k) as [R1 R2].
    assert (N : getZ ta (iter ta0 k i) = iter ta0 (S k) i).
    { simpl. apply W2; [lia|]. intros m Hm E.
      assert (m = k) by (apply (orbit_distinct ta0 i p HI Hi Hs Hmin m k); [lia | lia | exact E]). lia. }
    rewrite N.
    destruct (iter_asleep ta0 i HI Hi Hs (S k)) as [R3 R4].
    replace (bad_index (lenZ ta0) (iter ta0 (S k) i)) with false
      by (symmetry; apply bad_index_false; auto).
    assert (NE : iter ta0 (S k) i <> i) by (apply Hmin; lia).
    apply Z.eqb_neq in NE. rewrite NE.
    replace (Z.of_nat k + 1) with (Z.of_nat (S k)) by lia.
    apply IHd; try lia.
    split; [rewrite lenZ_setZ; auto|]. split.
    + intros m Hm. destruct (Nat.eq_dec m k).
      * subst m. apply get_set_same. rewrite WL. auto.
      * rewrite get_set_other.
        -- apply W1. lia.
        -- lia.
        -- apply (iter_asleep ta0 i HI Hi Hs m).
        -- intro E. apply n. symmetry. apply (orbit_distinct ta0 i p HI Hi Hs Hmin k m); [lia | lia | exact E].
    + intros j Hj Hn. rewrite get_set_other;
        [apply W2; auto; intros m Hm; apply Hn; lia | lia | lia | apply Hn; lia].
Qed.

(* waking a sleeping tree: exactly its cycle is set to wakeval, the cycle length is returned *)
Lemma wakeIsland_asleep : forall ta i w, Inv ta -> 0 <= i < lenZ ta -> 0 <= getZ ta i ->
  exists ta' p, wakeIsland ta (lenZ ta) i w = (ta', Z.of_nat p, 0) /\
    (0 < p <= length ta)%nat /\ iter ta p i = i /\ (forall m, (0 < m < p)%nat -> iter ta m i <> i) /\
    lenZ ta' = lenZ ta /\
    (forall j, OnCycle ta i j -> getZ ta' j = w) /\
    (forall j, 0 <= j -> ~ OnCycle ta i j -> getZ ta' j = getZ ta j).
Proof.
  intros ta i w HI Hi Hs.
  destruct (least_period ta i HI Hi Hs) as [p [Hp [Eper Hmin]]].
  unfold wakeIsland.
  replace (bad_index (lenZ ta) i) with false by (symmetry; apply bad_index_false; auto).
  destruct (getZ ta i <? 0) eqn:E; [apply Z.ltb_lt in E; lia|].
  destruct (wake_loop_spec ta i w p HI Hi Hs Hp Eper Hmin (p - 1)%nat 0%nat ta (Z.to_nat (lenZ ta)))
    as [ta' [EQ [WL [W1 W2]]]].
  - lia.
  - split; auto. split; intros; [lia|auto].
  - unfold lenZ. lia.
  - simpl in EQ. exists ta', p. split; auto. split; auto. split; auto. split; auto. split; auto.
    split.
    + intros j OC. destruct (on_cycle_lt ta i p j) as [m [Hm Em]]; auto; try lia.
      subst j. apply W1. auto.
    + intros j Hj NOC. apply W2; auto. intros m Hm Em. apply NOC. exists m. auto.
Qed.

(* on an awake tree only that tree's counter is lowered *)
Lemma wakeIsland_awake : forall ta i w, 0 <= i < lenZ ta -> getZ ta i < 0 ->
  wakeIsland ta (lenZ ta) i w = (setZ ta i (Z.min w (getZ ta i)), 0, 0).
Proof.
  intros. unfold wakeIsland.
  replace (bad_index (lenZ ta) i) with false by (symmetry; apply bad_index_false; auto).
  apply Z.ltb_lt in H0. rewrite H0. auto.
Qed.

Lemma on_cycle_pred : forall ta i j, Inv ta -> 0 <= i < lenZ ta -> 0 <= getZ ta i ->
  0 <= j < lenZ ta -> 0 <= getZ ta j -> OnCycle ta i (getZ ta j) -> OnCycle ta i j.
Proof.
  intros ta i j HI Hi Hs Hj Hsj OC.
  destruct (exists_period ta i HI Hi Hs) as [p [Hp Ep]].
  destruct (on_cycle_lt ta i p _ ltac:(lia) Ep OC) as [m [Hm Em]].
  destruct m.
  - (* successor of j is i = iter p i *)
    simpl in Em. destruct p; [lia|]. exists p.
    destruct (iter_asleep ta i HI Hi Hs p). destruct HI as [_ Hinj].
    apply Hinj; auto. simpl in Ep. congruence.
  - exists m. destruct (iter_asleep ta i HI Hi Hs m). destruct HI as [_ Hinj].
    apply Hinj; auto.
Qed.

Lemma wakeIsland_inv : forall ta i w, Inv ta -> 0 <= i < lenZ ta -> w < 0 ->
  exists ta' n, wakeIsland ta (lenZ ta) i w = (ta', n, 0) /\ Inv ta' /\ lenZ ta' = lenZ ta /\
    (forall j, 0 <= j -> getZ ta j < 0 -> getZ ta' j <= getZ ta j) /\
    (forall j, 0 <= j < lenZ ta -> 0 <= getZ ta' j -> getZ ta' j = getZ ta j).
Proof.
  intros ta i w HI Hi Hw. destruct (Z_lt_ge_dec (getZ ta i) 0) as [A | S].
  - rewrite wakeIsland_awake; auto. do 2 eexists. split; [reflexivity|].
    assert (G : forall j, 0 <= j -> getZ (setZ ta i (Z.min w (getZ ta i))) j =
                                    if j =? i then Z.min w (getZ ta i) else getZ ta j).
    { intros. apply get_set; auto. }
    split; [|split; [apply lenZ_setZ|split]].
    + destruct HI as [H1 H2]. split.
      * intros j Hj Hs. rewrite lenZ_setZ in *. rewrite G in Hs |- * by lia.
        destruct (j =? i) eqn:E; [lia|]. destruct (H1 j Hj Hs) as [B C]. split; auto.
        rewrite G by lia. destruct (getZ ta j =? i) eqn:E2; auto.
        apply Z.eqb_eq in E2. rewrite E2 in C. lia.
      * intros a b Ha Hb Hsa Eab. rewrite lenZ_setZ in *. rewrite !G in * by lia.
        destruct (a =? i) eqn:E1; [lia|]. destruct (b =? i) eqn:E2; [lia|].
        apply H2; auto.
    + intros j Hj Hn. rewrite G by auto. destruct (j =? i) eqn:E; [|lia].
      apply Z.eqb_eq in E. subst. lia.
    + intros j Hj Hs. rewrite G in * by lia. destruct (j =? i); [lia|auto].
  - destruct (wakeIsland_asleep ta i w HI Hi ltac:(lia)) as [ta' [p [EQ [Hp [Ep [Hmin [L [W1 W2]]]]]]]].
    exists ta', (Z.of_nat p). split; auto.
    assert (DEC : forall j, OnCycle ta i j \/ ~ OnCycle ta i j).
    { intros j.
      assert (D : forall q, (exists m, (m < q)%nat /\ iter ta m i = j) \/ (forall m, (m < q)%nat -> iter ta m i <> j)).
      { induction q. { right. intros. lia. }
        destruct IHq as [[m [A B]] | N]. { left. exists m. split; [lia|auto]. }
        destruct (Z.eq_dec (iter ta q i) j). { left. exists q. split; [lia|auto]. }
        right. intros m Hm. destruct (Nat.eq_dec m q); [subst; auto | apply N; lia]. }
      destruct (D p) as [[m [A B]] | N]. { left. exists m. auto. }
      right. intro OC. destruct (on_cycle_lt ta i p j ltac:(lia) Ep OC) as [m [A B]]. eapply N; eauto. }
    split; [|split; [auto|split]].
    + pose proof HI as HI'. destruct HI as [H1 H2]. split.
      * intros j Hj Hs. rewrite L in *.
        destruct (DEC j) as [OC | NOC]. { rewrite W1 in Hs by auto. lia. }
        assert (Ej : getZ ta' j = getZ ta j) by (apply W2; auto; lia).
        rewrite Ej in *. destruct (H1 j Hj Hs) as [B C]. split; auto.
        destruct (DEC (getZ ta j)) as [OC2 | NOC2].
        -- exfalso. apply NOC. apply (on_cycle_pred ta i j HI' Hi ltac:(lia) Hj Hs OC2).
        -- rewrite W2; auto; lia.
      * intros a b Ha Hb Hsa Eab. rewrite L in *.
        destruct (DEC a) as [OC | NOC]. { rewrite W1 in Hsa by auto. lia. }
        assert (Ea : getZ ta' a = getZ ta a) by (apply W2; auto; lia).
        rewrite Ea in *.
        destruct (DEC b) as [OC2 | NOC2]. { rewrite (W1 b) in Eab by auto. lia. }
        assert (Eb : getZ ta' b = getZ ta b) by (apply W2; auto; lia).
        rewrite Eb in *. apply H2; auto.
    + intros j Hj Hn. destruct (DEC j) as [OC | NOC].
      * exfalso. destruct OC as [m Em]. subst j.
        destruct (iter_asleep ta i HI Hi ltac:(lia) m). lia.
      * rewrite W2; auto. lia.
    + intros j Hj Hs. destruct (DEC j) as [OC | NOC]. { rewrite W1 in Hs by auto. lia. }
      apply W2; auto. lia.
Qed.

(* ------------------------------------------------------------------ mj_sleepTrees *)
Lemma sleepTrees_loop_spec : forall l ta first, NoDup l ->
  (forall t, In t l -> 0 <= t < lenZ ta /\ getZ ta t = -1) ->
  exists ta', sleepTrees_loop ta first l = (ta', 0) /\ lenZ ta' = lenZ ta /\
    (forall k, (k < length l)%nat ->
       getZ ta' (nth k l 0) = if (S k <? length l)%nat then nth (S k) l 0 else first) /\
    (forall j, 0 <= j -> ~ In j l -> getZ ta' j = getZ ta j).
Proof.
  induction l as [|cur rest IH]; intros ta first ND H.
  - exists ta. simpl. repeat split; auto. intros. lia.
  - inversion ND as [|? ? NI ND']; subst.
    destruct (H cur (or_introl eq_refl)) as [R V].
    simpl. rewrite V. simpl.
    set (next := match rest with [] => first | nx :: _ => nx end).
    destruct (IH (setZ ta cur next) first ND') as [ta' [EQ [L [A B]]]].
    { intros t It. rewrite lenZ_setZ. destruct (H t (or_intror It)) as [Rt Vt]. split; auto.
      rewrite get_set_other; auto; try lia. intro; subst; auto. }
    exists ta'. split; auto. split; [rewrite L; apply lenZ_setZ|]. split.
    + intros k Hk. destruct k.
      * simpl nth at 1. rewrite B; [|lia|auto]. rewrite get_set_same by auto.
        unfold next. destruct rest; simpl; auto.
      * simpl in Hk. simpl nth at 1. rewrite A by lia.
        change (S (S k) <? length (cur :: rest))%nat with (S k <? length rest)%nat.
        reflexivity.
    + intros j Hj NIj. assert (cur <> j) by (intro; subst; apply NIj; left; auto).
      assert (~ In j rest) by (intro; apply NIj; right; auto).
      rewrite B by auto. apply get_set_other; lia.
Qed.

Lemma sleepTrees_spec : forall l ta, NoDup l ->
  (forall t, In t l -> 0 <= t < lenZ ta /\ getZ ta t = -1) ->
  exists ta', sleepTrees ta l = (ta', 0) /\ lenZ ta' = lenZ ta /\
    (forall k, (k < length l)%nat -> getZ ta' (nth k l 0) = nth (S k mod length l) l 0) /\
    (forall j, 0 <= j -> ~ In j l -> getZ ta' j = getZ ta j).
Proof.
  intros l ta ND H. destruct l as [|f r].
  - exists ta. simpl. repeat split; auto. intros. lia.
  - unfold sleepTrees.
    destruct (sleepTrees_loop_spec (f :: r) ta f ND H) as [ta' [EQ [L [A B]]]].
    exists ta'. split; auto. split; auto. split; auto.
    intros k Hk. rewrite A by auto.
    destruct (S k <? length (f :: r))%nat eqn:E.
    + apply Nat.ltb_lt in E. rewrite Nat.mod_small by auto. auto.
    + apply Nat.ltb_ge in E. replace (S k) with (length (f :: r)) by lia.
      rewrite Nat.mod_same by (simpl; lia). reflexivity.
Qed.

(* ------------------------------------------------------------------ making ready blocks into cycles *)
Definition Cycled (ta ta' : list Z) (R : list (list Z)) : Prop :=
  lenZ ta' = lenZ ta /\
  (forall b, In b R -> forall k, (k < length b)%nat -> getZ ta' (nth k b 0) = nth (S k mod length b) b 0) /\
  (forall j, 0 <= j -> (forall b, In b R -> ~ In j b) -> getZ ta' j = getZ ta j).

Definition readyb (ta : list Z) (b : list Z) : bool := forallb (fun t => getZ ta t =? -1) b.

Lemma readyb_true : forall ta b, readyb ta b = true <-> (forall t, In t b -> getZ ta t = -1).
Proof.
  intros. unfold readyb. rewrite forallb_forall. split; intros H t I.
  - apply Z.eqb_eq. auto.
  - apply Z.eqb_eq. auto.
Qed.

Lemma readyb_ext : forall ta ta' b, (forall t, In t b -> getZ ta' t = getZ ta t) -> readyb ta' b = readyb ta b.
Proof.
  intros ta ta' b. unfold readyb. induction b; simpl; intros H; auto.
  rewrite H by (left; auto). rewrite IHb; auto.
Qed.

Lemma island_ready_spec : forall ta l, (forall t, In t l -> getZ ta t < 0) ->
  island_ready ta l = if readyb ta l then 1 else 0.
Proof.
  induction l; intros H; simpl; auto.
  assert (getZ ta a < 0) by (apply H; left; auto).
  destruct (getZ ta a <? -1) eqn:E1.
  - apply Z.ltb_lt in E1. replace (getZ ta a =? -1) with false by (symmetry; apply Z.eqb_neq; lia). auto.
  - apply Z.ltb_ge in E1. replace (0 <=? getZ ta a) with false by (symmetry; apply Z.leb_gt; lia).
    replace (getZ ta a =? -1) with true by (symmetry; apply Z.eqb_eq; lia). simpl.
    apply IHl. intros. apply H. right. auto.
Qed.

Lemma NoDup_app_inv : forall (l l' : list Z), NoDup (l ++ l') ->
  NoDup l /\ NoDup l' /\ (forall x, In x l -> ~ In x l').
Proof.
  induction l; simpl; intros l' H.
  - split; [constructor|]. split; auto.
  - inversion H as [|? ? NI ND]; subst. destruct (IHl l' ND) as [A [B C]].
    split; [constructor; auto; intro; apply NI; apply in_or_app; auto|].
    split; auto. intros x [E | I]; auto. subst. intro. apply NI. apply in_or_app. auto.
Qed.

Lemma NoDup_app_intro : forall (l l' : list Z), NoDup l -> NoDup l' ->
  (forall x, In x l -> ~ In x l') -> NoDup (l ++ l').
Proof.
  induction l; simpl; intros l' A B C; auto.
  inversion A; subst. constructor.
  - intro I. apply in_app_or in I. destruct I; auto. apply (C a); auto.
  - apply IHl; auto.
Qed.

Lemma NoDup_concat_cons : forall (b : list Z) bs, NoDup (concat (b :: bs)) ->
  NoDup b /\ NoDup (concat bs) /\ (forall x, In x b -> forall c, In c bs -> ~ In x c).
Proof.
  intros b bs H. simpl in H. destruct (NoDup_app_inv _ _ H) as [A [B C]].
  split; auto. split; auto. intros x Ix c Ic Ixc. apply (C x Ix). apply in_concat. exists c. auto.
Qed.

Lemma sleep_islands_spec : forall islands ta n0, NoDup (concat islands) ->
  (forall t, In t (concat islands) -> 0 <= t < lenZ ta /\ getZ ta t < 0) ->
  exists ta' n', sleep_islands ta islands n0 = (ta', n', 0) /\
                 Cycled ta ta' (filter (readyb ta) islands).
Proof.
  induction islands as [|isl r IH]; intros ta n0 ND H.
  - exists ta, n0. simpl. split; auto. split; auto. split; intros; auto. contradiction.
  - destruct (NoDup_concat_cons _ _ ND) as [NDi [NDr DISJ]].
    assert (Hi : forall t, In t isl -> 0 <= t < lenZ ta /\ getZ ta t < 0).
    { intros. apply H. simpl. apply in_or_app. auto. }
    assert (Hr : forall t, In t (concat r) -> 0 <= t < lenZ ta /\ getZ ta t < 0).
    { intros. apply H. simpl. apply in_or_app. auto. }
    simpl. rewrite island_ready_spec by (intros; apply Hi; auto).
    destruct (readyb ta isl) eqn:RD.
    + simpl. assert (RDY := proj1 (readyb_true ta isl) RD).
      destruct (sleepTrees_spec isl ta NDi) as [ta1 [EQ [L1 [A1 B1]]]].
      { intros. split; [apply Hi; auto | apply RDY; auto]. }
      rewrite EQ. simpl.
      assert (SAME : forall t, In t (concat r) -> getZ ta1 t = getZ ta t).
      { intros t It. apply B1. { apply Hr in It. lia. }
        intro Ii. apply in_concat in It. destruct It as [c [Ic Itc]]. eapply DISJ; eauto. }
      destruct (IH ta1 (n0 + lenZ isl) NDr) as [ta' [n' [EQ2 [L2 [A2 B2]]]]].
      { intros t It. rewrite L1, SAME by auto. apply Hr; auto. }
      exists ta', n'. split; auto.
      assert (FE : filter (readyb ta1) r = filter (readyb ta) r).
      { apply filter_ext_in. intros c Ic. apply readyb_ext. intros. apply SAME.
        apply in_concat. exists c. auto. }
      rewrite FE in *.
      split; [lia|]. split.
      * intros b [Eb | Ib] k Hk.
        -- subst b. rewrite B2.
           ++ apply A1; auto.
           ++ destruct (Hi (nth k isl 0)); [apply nth_In; auto | lia].
           ++ intros c Ic. apply filter_In in Ic. apply DISJ; [apply nth_In; auto | tauto].
        -- apply A2; auto.
      * intros j Hj NIj. rewrite B2; auto.
        -- apply B1; auto. apply NIj. left. auto.
        -- intros. apply NIj. right. auto.
    + simpl. destruct (IH ta n0 NDr Hr) as [ta' [n' [EQ2 C]]].
      exists ta', n'. auto.
Qed.

Lemma sleep_uncon_spec : forall tail ta n0, NoDup tail ->
  (forall t, In t tail -> 0 <= t < lenZ ta) ->
  exists ta' n', sleep_uncon ta tail n0 = (ta', n') /\
                 Cycled ta ta' (filter (readyb ta) (map (fun t => [t]) tail)).
Proof.
  induction tail as [|t r IH]; intros ta n0 ND H.
  - exists ta, n0. simpl. split; auto. split; auto. split; intros; auto. contradiction.
  - inversion ND as [|? ? NI ND']; subst. simpl.
    replace (readyb ta [t]) with (getZ ta t =? -1) by (unfold readyb; simpl; rewrite andb_true_r; auto).
    assert (Ht : 0 <= t < lenZ ta) by (apply H; left; auto).
    destruct (getZ ta t =? -1) eqn:E.
    + destruct (IH (setZ ta t t) (n0 + 1) ND') as [ta' [n' [EQ [L [A B]]]]].
      { intros. rewrite lenZ_setZ. apply H. right. auto. }
      exists ta', n'. split; auto.
      assert (FE : filter (readyb (setZ ta t t)) (map (fun t => [t]) r) = filter (readyb ta) (map (fun t => [t]) r)).
      { apply filter_ext_in. intros c Ic. apply in_map_iff in Ic. destruct Ic as [u [Eu Iu]]. subst c.
        apply readyb_ext. intros x [Ex | []]. subst x. apply get_set_other; try lia.
        { assert (0 <= u < lenZ ta) by (apply H; right; auto). lia. }
        intro; subst; auto. }
      rewrite FE in *. split; [rewrite L; apply lenZ_setZ|]. split.
      * intros b [Eb | Ib] k Hk.
        -- subst b. simpl in Hk. assert (k = 0)%nat by lia. subst k. simpl.
           rewrite B; [apply get_set_same; auto | lia |].
           intros c Ic Itc. apply filter_In in Ic. destruct Ic as [Ic _].
           apply in_map_iff in Ic. destruct Ic as [u [Eu Iu]]. subst c. destruct Itc as [Eq | []].
           subst. auto.
        -- apply A; auto.
      * intros j Hj NIj. rewrite B; auto.
        -- apply get_set_other; try lia. intro; subst. apply (NIj [j]); simpl; auto.
        -- intros. apply NIj. right. auto.
    + destruct (IH ta n0 ND') as [ta' [n' [EQ C]]].
      { intros. apply H. right. auto. }
      exists ta', n'. auto.
Qed.

Lemma NoDup_concat_in : forall (R : list (list Z)) b, NoDup (concat R) -> In b R -> NoDup b.
Proof.
  induction R; intros b ND I; [contradiction|].
  destruct (NoDup_concat_cons _ _ ND) as [A [B C]]. destruct I; subst; auto.
Qed.

Lemma NoDup_concat_unique : forall (R : list (list Z)) b1 b2 x, NoDup (concat R) ->
  In b1 R -> In b2 R -> In x b1 -> In x b2 -> b1 = b2.
Proof.
  induction R; intros b1 b2 x ND I1 I2 X1 X2; [contradiction|].
  destruct (NoDup_concat_cons _ _ ND) as [A [B C]].
  destruct I1 as [E1 | I1], I2 as [E2 | I2]; subst; auto.
  - exfalso. eapply C; eauto.
  - exfalso. eapply C; eauto.
  - eapply IHR; eauto.
Qed.

Lemma succ_mod_lt : forall k n, (0 < n)%nat -> (S k mod n < n)%nat.
Proof. intros. apply Nat.mod_upper_bound. lia. Qed.

Lemma succ_mod_inj : forall n ka kb, (ka < n)%nat -> (kb < n)%nat -> (S ka mod n = S kb mod n)%nat -> ka = kb.
Proof.
  intros n ka kb A B E.
  destruct (Nat.eq_dec (S ka) n) as [Ea | Na]; destruct (Nat.eq_dec (S kb) n) as [Eb | Nb]; try lia.
  - rewrite Ea, Nat.mod_same in E by lia. rewrite Nat.mod_small in E by lia. lia.
  - rewrite Eb, Nat.mod_same in E by lia. rewrite Nat.mod_small in E by lia. lia.
  - rewrite !Nat.mod_small in E by lia. lia.
Qed.

Section CycledFacts.
  Variables (ta ta' : list Z) (R : list (list Z)).
  Hypothesis HI : Inv ta.
  Hypothesis HC : Cycled ta ta' R.
  Hypothesis HND : NoDup (concat R).
  Hypothesis HR : forall t, In t (concat R) -> 0 <= t < lenZ ta /\ getZ ta t = -1.

  Lemma cyc_block : forall j, In j (concat R) ->
    exists b k, In b R /\ (k < length b)%nat /\ nth k b 0 = j /\ NoDup b /\
                getZ ta' j = nth (S k mod length b) b 0 /\ In (nth (S k mod length b) b 0) b.
  Proof.
    intros j Ij. apply in_concat in Ij. destruct Ij as [b [Ib Ijb]].
    destruct (In_nth b j 0 Ijb) as [k [Hk Ek]]. exists b, k.
    destruct HC as [L [A B]]. repeat split; auto.
    - eapply NoDup_concat_in; eauto.
    - rewrite <- Ek. apply A; auto.
    - apply nth_In. apply succ_mod_lt. lia.
  Qed.

  Lemma cyc_in_range : forall b t, In b R -> In t b -> 0 <= t < lenZ ta /\ getZ ta t = -1.
  Proof. intros. apply HR. apply in_concat. exists b. auto. Qed.

  Lemma cyc_other : forall j, 0 <= j -> ~ In j (concat R) -> getZ ta' j = getZ ta j.
  Proof.
    intros j Hj NI. destruct HC as [L [A B]]. apply B; auto.
    intros b Ib Ijb. apply NI. apply in_concat. exists b. auto.
  Qed.

  Lemma cycled_inv : Inv ta'.
  Proof.
    destruct HC as [L [A B]]. pose proof HI as [H1 H2]. split.
    - intros j Hj Hs. rewrite L in *.
      destruct (In_dec Z.eq_dec j (concat R)) as [Ij | NIj].
      + destruct (cyc_block j Ij) as [b [k [Ib [Hk [Ek [NDb [Es Is]]]]]]].
        rewrite Es. destruct (cyc_in_range b _ Ib Is) as [Rs Vs]. split; auto.
        destruct (cyc_block (nth (S k mod length b) b 0)) as [b2 [k2 [Ib2 [Hk2 [Ek2 [_ [Es2 Is2]]]]]]].
        { apply in_concat. exists b. auto. }
        rewrite Es2. destruct (cyc_in_range b2 _ Ib2 Is2). lia.
      + rewrite cyc_other in * by (auto; lia).
        destruct (H1 j Hj Hs) as [Rs Vs]. split; auto.
        rewrite cyc_other; auto; try lia.
        intro I. apply HR in I. lia.
    - intros a b Ha Hb Hsa Eab. rewrite L in *.
      destruct (In_dec Z.eq_dec a (concat R)) as [Ia | NIa];
        destruct (In_dec Z.eq_dec b (concat R)) as [Ib | NIb].
      + destruct (cyc_block a Ia) as [ba [ka [Iba [Hka [Eka [NDa [Esa Isa]]]]]]].
        destruct (cyc_block b Ib) as [bb [kb [Ibb [Hkb [Ekb [NDb [Esb Isb]]]]]]].
        rewrite Esa, Esb in Eab.
        assert (ba = bb). { eapply NoDup_concat_unique; eauto. rewrite Eab. auto. }
        subst bb. rewrite NoDup_nth in NDa.
        apply NDa in Eab; try (apply succ_mod_lt; lia).
        apply succ_mod_inj in Eab; auto. subst kb. congruence.
      + exfalso. destruct (cyc_block a Ia) as [ba [ka [Iba [Hka [Eka [NDa [Esa Isa]]]]]]].
        rewrite (cyc_other b) in Eab by (auto; lia). rewrite Esa in Eab, Hsa.
        assert (Hsb : 0 <= getZ ta b) by lia.
        destruct (H1 b Hb Hsb) as [_ V]. rewrite <- Eab in V.
        destruct (cyc_in_range ba _ Iba Isa). lia.
      + exfalso. destruct (cyc_block b Ib) as [bb [kb [Ibb [Hkb [Ekb [NDb [Esb Isb]]]]]]].
        rewrite (cyc_other a) in Eab, Hsa by (auto; lia). rewrite Esb in Eab.
        destruct (H1 a Ha Hsa) as [_ V]. rewrite Eab in V.
        destruct (cyc_in_range bb _ Ibb Isb). lia.
      + rewrite !cyc_other in * by (auto; lia). apply H2; auto.
  Qed.

  (* the cycle of a tree of a slept block is exactly that block *)
  Lemma cycled_iter : forall b k m, In b R -> (k < length b)%nat ->
    iter ta' m (nth k b 0) = nth ((k + m) mod length b) b 0.
  Proof.
    intros b k m Ib Hk. destruct HC as [L [A B]]. induction m.
    - simpl. rewrite Nat.add_0_r, Nat.mod_small; auto.
    - simpl. rewrite IHm. rewrite A; auto; [|apply Nat.mod_upper_bound; lia].
      f_equal. replace (k + S m)%nat with ((k + m) + 1)%nat by lia.
      replace (S ((k + m) mod length b)) with ((k + m) mod length b + 1)%nat by lia.
      apply Nat.add_mod_idemp_l. lia.
  Qed.

  Lemma cycled_cycle : forall b t, In b R -> In t b -> forall u, OnCycle ta' t u <-> In u b.
  Proof.
    intros b t Ib It u. destruct (In_nth b t 0 It) as [k [Hk Ek]]. split.
    - intros [m Em]. rewrite <- Ek, cycled_iter in Em by auto. subst u.
      apply nth_In. apply Nat.mod_upper_bound. lia.
    - intros Iu. destruct (In_nth b u 0 Iu) as [k2 [Hk2 Ek2]].
      exists (k2 + length b - k)%nat. rewrite <- Ek, cycled_iter by auto. rewrite <- Ek2. f_equal.
      replace (k + (k2 + length b - k))%nat with (k2 + 1 * length b)%nat by lia.
      rewrite Nat.mod_add by lia. apply Nat.mod_small. auto.
  Qed.
End CycledFacts.

(* ------------------------------------------------------------------ mj_sleep *)
Lemma cycled_app : forall ta ta1 ta2 R1 R2, Cycled ta ta1 R1 -> Cycled ta1 ta2 R2 ->
  (forall b1 b2 x, In b1 R1 -> In b2 R2 -> In x b1 -> ~ In x b2) ->
  (forall b t, In b R1 -> In t b -> 0 <= t) ->
  Cycled ta ta2 (R1 ++ R2).
Proof.
  intros ta ta1 ta2 R1 R2 [L1 [A1 B1]] [L2 [A2 B2]] DISJ NN.
  split; [lia|]. split.
  - intros b Ib k Hk. apply in_app_or in Ib. destruct Ib as [Ib | Ib].
    + rewrite B2.
      * apply A1; auto.
      * eapply NN; eauto. apply nth_In; auto.
      * intros b2 Ib2. eapply DISJ; eauto. apply nth_In; auto.
    + apply A2; auto.
  - intros j Hj NI. rewrite B2; auto.
    + apply B1; auto. intros. apply NI. apply in_or_app. auto.
    + intros. apply NI. apply in_or_app. auto.
Qed.

Lemma countdown_neg : forall v c, v < 0 -> countdown v c < 0.
Proof.
  intros. unfold countdown, kAwake, mjMINAWAKE. destruct c; [|lia].
  destruct (v <? -1) eqn:E; [apply Z.ltb_lt in E|]; lia.
Qed.

Lemma countdown_all_length : forall ta can, length (countdown_all ta can) = length ta.
Proof. induction ta; destruct can; simpl; auto. Qed.

Lemma countdown_all_nth : forall ta can k, length can = length ta -> (k < length ta)%nat ->
  nth k (countdown_all ta can) (-1) =
  (if 0 <=? nth k ta (-1) then nth k ta (-1) else countdown (nth k ta (-1)) (nth k can false)).
Proof.
  induction ta; destruct can; simpl; intros k E Hk; try lia.
  destruct k; auto. apply IHta; lia.
Qed.

Lemma countdown_all_get : forall ta can t, length can = length ta -> 0 <= t < lenZ ta ->
  getZ (countdown_all ta can) t =
  (if 0 <=? getZ ta t then getZ ta t else countdown (getZ ta t) (canZ can t)).
Proof.
  intros. unfold getZ, canZ. apply countdown_all_nth; auto. unfold lenZ in *. lia.
Qed.

Lemma countdown_all_lenZ : forall ta can, lenZ (countdown_all ta can) = lenZ ta.
Proof. intros. unfold lenZ. rewrite countdown_all_length. auto. Qed.

Lemma countdown_all_sign : forall ta can t, length can = length ta -> 0 <= t < lenZ ta ->
  (0 <= getZ ta t -> getZ (countdown_all ta can) t = getZ ta t) /\
  (getZ ta t < 0 -> getZ (countdown_all ta can) t = countdown (getZ ta t) (canZ can t) /\
                    getZ (countdown_all ta can) t < 0).
Proof.
  intros. rewrite countdown_all_get by auto. split; intros.
  - apply Z.leb_le in H1. rewrite H1. auto.
  - replace (0 <=? getZ ta t) with false by (symmetry; apply Z.leb_gt; auto).
    split; auto. apply countdown_neg. auto.
Qed.

Lemma countdown_inv : forall ta can, length can = length ta -> Inv ta -> Inv (countdown_all ta can).
Proof.
  intros ta can E [H1 H2].
  assert (S := countdown_all_sign ta can).
  assert (EQ : forall t, 0 <= t < lenZ ta -> 0 <= getZ (countdown_all ta can) t ->
                         0 <= getZ ta t /\ getZ (countdown_all ta can) t = getZ ta t).
  { intros t Ht Hs. destruct (S t E Ht) as [A B]. destruct (Z_lt_ge_dec (getZ ta t) 0).
    - apply B in l. lia.
    - split; [lia|]. apply A. lia. }
  split.
  - intros i Hi Hs. rewrite countdown_all_lenZ in *. destruct (EQ i Hi Hs) as [P Q].
    rewrite Q. destruct (H1 i Hi P) as [X Y]. split; auto.
    destruct (S (getZ ta i) E X) as [A _]. rewrite A; auto.
  - intros i j Hi Hj Hs Eij. rewrite countdown_all_lenZ in *. destruct (EQ i Hi Hs) as [P Q].
    assert (Hsj : 0 <= getZ (countdown_all ta can) j) by lia.
    destruct (EQ j Hj Hsj) as [P2 Q2]. apply H2; auto. lia.
Qed.

Lemma concat_map_single : forall (l : list Z), concat (map (fun t => [t]) l) = l.
Proof. induction l; simpl; auto. f_equal. auto. Qed.

Lemma NoDup_concat_filter : forall (f : list Z -> bool) R, NoDup (concat R) -> NoDup (concat (filter f R)).
Proof.
  induction R; simpl; intros ND; auto.
  destruct (NoDup_app_inv _ _ ND) as [A [B C]].
  destruct (f a); simpl; auto.
  apply NoDup_app_intro; auto. intros x Ix Ic. apply (C x Ix).
  apply in_concat in Ic. destruct Ic as [c [Ic Ixc]]. apply filter_In in Ic.
  apply in_concat. exists c. tauto.
Qed.

Lemma in_concat_filter : forall (f : list Z -> bool) R x, In x (concat (filter f R)) ->
  exists b, In b R /\ f b = true /\ In x b.
Proof.
  intros f R x I. apply in_concat in I. destruct I as [b [Ib Ix]]. apply filter_In in Ib.
  exists b. tauto.
Qed.

Definition blocks_of (islands : list (list Z)) (tl : list Z) := islands ++ map (fun t => [t]) tl.

Lemma mj_sleep_spec : forall ta can nefc islands tail,
  length can = length ta ->
  let tl := if lenZ islands =? 0 then zseq (lenZ ta) else tail in
  NoDup (concat islands ++ tl) ->
  (forall t, In t (concat islands ++ tl) -> 0 <= t < lenZ ta) ->
  (forall t, In t (concat islands) -> getZ ta t < 0) ->
  negb (nefc =? 0) && (lenZ islands =? 0) = false ->
  exists ta' n, mj_sleep ta can nefc islands tail = (ta', n, 0) /\
    Cycled (countdown_all ta can) ta'
           (filter (readyb (countdown_all ta can)) (blocks_of islands tl)).
Proof.
  intros ta can nefc islands tail EL tl ND RNG AW NS.
  unfold mj_sleep. rewrite NS. set (ta1 := countdown_all ta can).
  destruct (NoDup_app_inv _ _ ND) as [NDi [NDt DISJ]].
  destruct (sleep_islands_spec islands ta1 0 NDi) as [ta2 [n2 [EQ C1]]].
  { intros t It. unfold ta1. rewrite countdown_all_lenZ.
    assert (R : 0 <= t < lenZ ta) by (apply RNG; apply in_or_app; auto).
    split; auto. apply (countdown_all_sign ta can t EL R). auto. }
  rewrite EQ. simpl. fold tl.
  destruct (sleep_uncon_spec tl ta2 n2 NDt) as [ta3 [n3 [EQ2 C2]]].
  { intros t It. destruct C1 as [L _]. rewrite L. unfold ta1. rewrite countdown_all_lenZ.
    apply RNG. apply in_or_app. auto. }
  rewrite EQ2. exists ta3, n3. split; auto.
  assert (FE : filter (readyb ta2) (map (fun t => [t]) tl) = filter (readyb ta1) (map (fun t => [t]) tl)).
  { apply filter_ext_in. intros c Ic. apply in_map_iff in Ic. destruct Ic as [u [Eu Iu]]. subst c.
    apply readyb_ext. intros x [Ex | []]. subst x. destruct C1 as [_ [_ B]]. apply B.
    - assert (0 <= u < lenZ ta) by (apply RNG; apply in_or_app; auto). lia.
    - intros b Ib Iub. apply filter_In in Ib. destruct Ib as [Ib _].
      apply (DISJ u); auto. apply in_concat. exists b. auto. }
  rewrite FE in C2. unfold blocks_of. rewrite filter_app. eapply cycled_app; eauto.
  - intros b1 b2 x I1 I2 X1 X2. apply filter_In in I1, I2. destruct I1 as [I1 _], I2 as [I2 _].
    apply in_map_iff in I2. destruct I2 as [u [Eu Iu]]. subst b2. destruct X2 as [E | []]. subst x.
    apply (DISJ u); auto. apply in_concat. exists b1. auto.
  - intros b t Ib It. apply filter_In in Ib. destruct Ib as [Ib _].
    assert (0 <= t < lenZ ta); [|lia]. apply RNG. apply in_or_app. left. apply in_concat. exists b. auto.
Qed.

(* ------------------------------------------------------------------ the island partition *)
Lemma in_island_trees : forall ti k t, In t (island_trees ti k) <-> 0 <= t < lenZ ti /\ getZ ti t = k.
Proof.
  intros. unfold island_trees. rewrite filter_In, In_zseq, Z.eqb_eq. tauto.
Qed.

Lemma in_tail_of : forall ti t, In t (tail_of ti) <-> 0 <= t < lenZ ti /\ getZ ti t < 0.
Proof.
  intros. unfold tail_of. rewrite filter_In, In_zseq, Z.ltb_lt. tauto.
Qed.

Lemma in_islands_of : forall ti n b, In b (islands_of ti n) <-> exists k, 0 <= k < n /\ b = island_trees ti k.
Proof.
  intros. unfold islands_of. rewrite in_map_iff. split.
  - intros [k [E I]]. apply In_zseq in I. exists k. auto.
  - intros [k [R E]]. exists k. split; auto. apply In_zseq. auto.
Qed.

Lemma NoDup_island_blocks : forall ti ks, NoDup ks -> NoDup (concat (map (island_trees ti) ks)).
Proof.
  induction ks; simpl; intros ND; [constructor|].
  inversion ND; subst. apply NoDup_app_intro; auto.
  - unfold island_trees. apply NoDup_filter. apply NoDup_zseq.
  - intros x Ix Ic. apply in_concat in Ic. destruct Ic as [c [Ic Ixc]].
    apply in_map_iff in Ic. destruct Ic as [k [E Ik]]. subst c.
    apply in_island_trees in Ix, Ixc. destruct Ix as [_ E1], Ixc as [_ E2]. congruence.
Qed.

Lemma lenZ_islands_of : forall ti n, lenZ (islands_of ti n) = Z.max 0 n.
Proof.
  intros. unfold lenZ, islands_of, zseq. rewrite !map_length, seq_length. lia.
Qed.

Definition tl_of (ta ti : list Z) (nisland : Z) : list Z :=
  if lenZ (islands_of ti nisland) =? 0 then zseq (lenZ ta) else tail_of ti.

Lemma partition_valid : forall ta ti nisland, lenZ ti = lenZ ta ->
  NoDup (concat (islands_of ti nisland) ++ tl_of ta ti nisland) /\
  (forall t, In t (concat (islands_of ti nisland) ++ tl_of ta ti nisland) -> 0 <= t < lenZ ta).
Proof.
  intros ta ti n EL. unfold tl_of. rewrite lenZ_islands_of.
  destruct (Z.max 0 n =? 0) eqn:E.
  - apply Z.eqb_eq in E. assert (islands_of ti n = []).
    { unfold islands_of, zseq. replace (Z.to_nat n) with 0%nat by lia. auto. }
    rewrite H. simpl. split; [apply NoDup_zseq | intros; apply In_zseq; auto].
  - split.
    + apply NoDup_app_intro.
      * apply NoDup_island_blocks. apply NoDup_zseq.
      * unfold tail_of. apply NoDup_filter. apply NoDup_zseq.
      * intros x Ix It. apply in_concat in Ix. destruct Ix as [c [Ic Ixc]].
        apply in_islands_of in Ic. destruct Ic as [k [Rk Ek]]. subst c.
        apply in_island_trees in Ixc. apply in_tail_of in It. lia.
    + intros t It. apply in_app_or in It. destruct It as [It | It].
      * apply in_concat in It. destruct It as [c [Ic Itc]].
        apply in_islands_of in Ic. destruct Ic as [k [Rk Ek]]. subst c.
        apply in_island_trees in Itc. lia.
      * apply in_tail_of in It. lia.
Qed.

(* the block of the partition that contains a tree of some block *)
Lemma block_members : forall ta ti nisland b t, lenZ ti = lenZ ta ->
  In b (blocks_of (islands_of ti nisland) (tl_of ta ti nisland)) -> In t b ->
  forall u, In u b <-> (0 <= u < lenZ ta /\ same_block ti nisland t u).
Proof.
  intros ta ti n b t EL Ib It u. unfold blocks_of in Ib. apply in_app_or in Ib.
  unfold same_block. destruct Ib as [Ib | Ib].
  - apply in_islands_of in Ib. destruct Ib as [k [Rk Ek]]. subst b.
    apply in_island_trees in It. destruct It as [Rt Et].
    replace ((0 <=? getZ ti t) && (getZ ti t <? n)) with true
      by (symmetry; apply andb_true_iff; rewrite Z.leb_le, Z.ltb_lt; lia).
    rewrite in_island_trees. rewrite EL. intuition congruence.
  - apply in_map_iff in Ib. destruct Ib as [t' [E It']]. subst b. destruct It as [E | []]. subst t'.
    assert (F : (0 <=? getZ ti t) && (getZ ti t <? n) = false /\ 0 <= t < lenZ ta).
    { unfold tl_of in It'. rewrite lenZ_islands_of in It'.
      destruct (Z.max 0 n =? 0) eqn:E.
      - apply Z.eqb_eq in E. apply In_zseq in It'. split; auto.
        apply andb_false_iff. rewrite Z.leb_gt, Z.ltb_ge. lia.
      - apply in_tail_of in It'. split; [|lia].
        apply andb_false_iff. rewrite Z.leb_gt, Z.ltb_ge. lia. }
    destruct F as [F R]. rewrite F. simpl. split.
    + intros [E | []]. subst. auto.
    + intros [_ E]. auto.
Qed.

(* C18_sleep_island_atomic *)
Lemma mj_sleep_part_spec : forall ta can nefc nisland ti,
  Inv ta -> length can = length ta -> lenZ ti = lenZ ta ->
  (forall t, 0 <= t < lenZ ta -> 0 <= getZ ti t -> getZ ta t < 0) ->
  exists ta' n, mj_sleep_part ta can nefc nisland ti = (ta', n, 0) /\
    Inv ta' /\ lenZ ta' = lenZ ta /\
    (* trees already asleep are untouched *)
    (forall t, 0 <= t < lenZ ta -> 0 <= getZ ta t -> getZ ta' t = getZ ta t) /\
    (* early exit (constraints but no islands): nothing changes; otherwise awake trees count down *)
    (negb (nefc =? 0) && (lenZ (islands_of ti nisland) =? 0) = true -> ta' = ta) /\
    (negb (nefc =? 0) && (lenZ (islands_of ti nisland) =? 0) = false ->
       forall t, 0 <= t < lenZ ta -> getZ ta t < 0 -> getZ ta' t < 0 ->
                 getZ ta' t = countdown (getZ ta t) (canZ can t)) /\
    (* a tree falls asleep only together with its whole block, all of it ready, as one cycle *)
    (forall t, 0 <= t < lenZ ta -> getZ ta t < 0 -> 0 <= getZ ta' t ->
       (forall u, 0 <= u < lenZ ta -> same_block ti nisland t u ->
                  getZ ta u < 0 /\ countdown (getZ ta u) (canZ can u) = -1 /\ 0 <= getZ ta' u) /\
       (forall u, OnCycle ta' t u <-> (0 <= u < lenZ ta /\ same_block ti nisland t u))).
Proof.
  intros ta can nefc n ti HI EL ELt AW.
  destruct (negb (nefc =? 0) && (lenZ (islands_of ti n) =? 0)) eqn:NS.
  - exists ta, 0. unfold mj_sleep_part, mj_sleep. rewrite NS.
    split; auto. split; auto. split; auto. split; auto. split; auto.
    split; [discriminate|]. intros; lia.
  - destruct (partition_valid ta ti n ELt) as [ND RNG].
    destruct (mj_sleep_spec ta can nefc (islands_of ti n) (tail_of ti) EL ND RNG) as [ta' [ns [EQ CY]]]; auto.
    { intros t It. apply in_concat in It. destruct It as [c [Ic Itc]].
      apply in_islands_of in Ic. destruct Ic as [k [Rk Ek]]. subst c.
      apply in_island_trees in Itc. apply AW; lia. }
    fold (tl_of ta ti n) in CY. set (ta1 := countdown_all ta can) in *.
    set (R := filter (readyb ta1) (blocks_of (islands_of ti n) (tl_of ta ti n))) in *.
    assert (CB : concat (blocks_of (islands_of ti n) (tl_of ta ti n)) = concat (islands_of ti n) ++ tl_of ta ti n).
    { unfold blocks_of. rewrite concat_app, concat_map_single. auto. }
    assert (NDR : NoDup (concat R)).
    { unfold R. apply NoDup_concat_filter. rewrite CB. auto. }
    assert (HR : forall t, In t (concat R) -> 0 <= t < lenZ ta1 /\ getZ ta1 t = -1).
    { intros t It. unfold R in It. apply in_concat_filter in It. destruct It as [b [Ib [Fb Itb]]].
      unfold ta1 at 1. rewrite countdown_all_lenZ. split.
      - apply RNG. rewrite <- CB. apply in_concat. exists b. auto.
      - apply (proj1 (readyb_true ta1 b) Fb). auto. }
    assert (HI1 : Inv ta1) by (apply countdown_inv; auto).
    assert (L : lenZ ta' = lenZ ta) by (destruct CY as [L _]; rewrite L; apply countdown_all_lenZ).
    assert (SG := fun t => countdown_all_sign ta can t EL). fold ta1 in SG.
    assert (OTHER := cyc_other ta1 ta' R CY).
    assert (NEW : forall t, 0 <= t < lenZ ta -> getZ ta t < 0 -> 0 <= getZ ta' t ->
                  exists b, In b R /\ In t b /\ readyb ta1 b = true /\
                            In b (blocks_of (islands_of ti n) (tl_of ta ti n))).
    { intros t Rt At St. destruct (In_dec Z.eq_dec t (concat R)) as [I | NI].
      - apply in_concat in I. destruct I as [b [Ib Itb]]. exists b. split; auto. split; auto.
        unfold R in Ib. apply filter_In in Ib. tauto.
      - rewrite OTHER in St by (auto; lia). destruct (SG t Rt) as [_ B]. apply B in At. lia. }
    exists ta', ns. split; [exact EQ|]. split; [eapply cycled_inv; eauto|]. split; auto.
    split; [|split; [discriminate|split]].
    + intros t Rt St. rewrite OTHER; try lia.
      * apply (SG t Rt). auto.
      * intro I. apply HR in I. destruct (SG t Rt) as [A _]. rewrite A in I by auto. lia.
    + intros _ t Rt At At'. destruct (In_dec Z.eq_dec t (concat R)) as [I | NI].
      * exfalso. destruct (cyc_block ta1 ta' R CY NDR t I) as [b [k [Ib [Hk [Ek [NDb [Es Is]]]]]]].
        assert (X : In (nth (S k mod length b) b 0) (concat R)) by (apply in_concat; exists b; auto).
        apply HR in X. lia.
      * rewrite OTHER by (auto; lia). apply (SG t Rt). auto.
    + intros t Rt At St. destruct (NEW t Rt At St) as [b [IbR [Itb [RD IbB]]]].
      assert (MEM := block_members ta ti n b t ELt IbB Itb).
      split.
      * intros u Ru SB. assert (Iub : In u b) by (apply MEM; auto).
        assert (V : getZ ta1 u = -1) by (apply (proj1 (readyb_true ta1 b) RD); auto).
        destruct (SG u Ru) as [A B].
        assert (Au : getZ ta u < 0). { destruct (Z_lt_ge_dec (getZ ta u) 0); auto. rewrite A in V; lia. }
        split; auto. split; [destruct (B Au); congruence|].
        destruct (cyc_block ta1 ta' R CY NDR u) as [b2 [k [Ib2 [Hk [Ek [NDb [Es Is]]]]]]].
        { apply in_concat. exists b. auto. }
        rewrite Es. assert (X : In (nth (S k mod length b2) b2 0) (concat R)) by (apply in_concat; exists b2; auto).
        apply HR in X. lia.
      * intros u. rewrite (cycled_cycle ta1 ta' R CY b t IbR Itb u). apply MEM.
Qed.

(* ------------------------------------------------------------------ reset, sleepTrees, mj_wake, histories *)
Lemma all_awake_inv : forall ta, (forall i, 0 <= i < lenZ ta -> getZ ta i < 0) -> Inv ta.
Proof.
  intros ta H. split.
  - intros i Hi Hs. apply H in Hi. lia.
  - intros i j Hi Hj Hs. apply H in Hi. lia.
Qed.

Lemma reset_inv : forall n, Inv (repeat kAwake n).
Proof.
  intros. apply all_awake_inv. intros i Hi. unfold getZ.
  assert (In (nth (Z.to_nat i) (repeat kAwake n) (-1)) (repeat kAwake n)).
  { apply nth_In. unfold lenZ in Hi. lia. }
  apply repeat_spec in H. rewrite H. unfold kAwake, mjMINAWAKE. lia.
Qed.

Lemma sleepTrees_inv : forall ta l, Inv ta -> NoDup l ->
  (forall t, In t l -> 0 <= t < lenZ ta /\ getZ ta t = -1) ->
  exists ta', sleepTrees ta l = (ta', 0) /\ Inv ta' /\ lenZ ta' = lenZ ta /\
    (forall t, In t l -> 0 <= getZ ta' t /\ forall u, OnCycle ta' t u <-> In u l) /\
    (forall j, 0 <= j -> ~ In j l -> getZ ta' j = getZ ta j).
Proof.
  intros ta l HI ND H. destruct (sleepTrees_spec l ta ND H) as [ta' [EQ [L [A B]]]].
  assert (CY : Cycled ta ta' [l]).
  { split; auto. split.
    - intros b [E | []] k Hk. subst. auto.
    - intros j Hj NI. apply B; auto. apply NI. left. auto. }
  assert (ND1 : NoDup (concat [l])) by (simpl; rewrite app_nil_r; auto).
  assert (HR : forall t, In t (concat [l]) -> 0 <= t < lenZ ta /\ getZ ta t = -1).
  { simpl. intros t. rewrite app_nil_r. auto. }
  exists ta'. split; auto. split; [eapply cycled_inv; eauto|]. split; auto. split; auto.
  intros t It. split.
  - destruct (In_nth l t 0 It) as [k [Hk Ek]]. rewrite <- Ek, A by auto.
    assert (X : In (nth (S k mod length l) l 0) l) by (apply nth_In; apply succ_mod_lt; lia).
    apply H in X. lia.
  - apply (cycled_cycle ta ta' [l] CY l t); simpl; auto.
Qed.

Lemma wakeIsland_wakes : forall ta i w, Inv ta -> 0 <= i < lenZ ta -> w < 0 ->
  getZ (fst (fst (wakeIsland ta (lenZ ta) i w))) i < 0.
Proof.
  intros ta i w HI Hi Hw. destruct (Z_lt_ge_dec (getZ ta i) 0) as [A | S].
  - rewrite wakeIsland_awake by auto. simpl. rewrite get_set_same by auto. lia.
  - destruct (wakeIsland_asleep ta i w HI Hi ltac:(lia)) as [ta' [p [EQ [_ [_ [_ [_ [W1 _]]]]]]]].
    rewrite EQ. simpl. rewrite W1; auto. exists 0%nat. auto.
Qed.

Lemma wake_sweep_spec : forall flags can0 ids ta nw, Inv ta -> (forall i, In i ids -> 0 <= i < lenZ ta) ->
  exists ta' n, wake_sweep ids ta flags can0 (lenZ ta) nw = (ta', n, 0) /\ Inv ta' /\ lenZ ta' = lenZ ta /\
    (forall j, 0 <= j < lenZ ta -> getZ ta j < 0 -> getZ ta' j < 0) /\
    (forall j, 0 <= j < lenZ ta -> 0 <= getZ ta' j -> getZ ta' j = getZ ta j) /\
    (forall i, In i ids -> negb (getZ flags i =? 0) || negb (nth (Z.to_nat i) can0 false) = true -> getZ ta' i < 0).
Proof.
  intros flags can0. induction ids as [|i r IH]; intros ta nw HI Hids.
  - exists ta, nw. simpl. split; [reflexivity|]. split; [exact HI|]. split; [reflexivity|].
    split; [auto|]. split; [auto|]. intros; contradiction.
  - assert (Hi : 0 <= i < lenZ ta) by (apply Hids; left; auto).
    assert (Hr : forall j, In j r -> 0 <= j < lenZ ta) by (intros; apply Hids; right; auto).
    simpl. destruct (getZ ta i <? 0) eqn:E.
    + apply Z.ltb_lt in E. destruct (IH ta nw HI Hr) as [ta' [n [EQ [I' [L [K1 [K2 K3]]]]]]].
      exists ta', n. split; auto. split; auto. split; auto. split; auto. split; auto.
      intros j [Ej | Ij] F; auto. subst j. auto.
    + destruct (negb (getZ flags i =? 0) || negb (nth (Z.to_nat i) can0 false)) eqn:F.
      * destruct (wakeIsland_inv ta i kAwake HI Hi) as [ta1 [n1 [EQ1 [I1 [L1 [M1 M2]]]]]].
        { unfold kAwake, mjMINAWAKE. lia. }
        assert (WK := wakeIsland_wakes ta i kAwake HI Hi ltac:(unfold kAwake, mjMINAWAKE; lia)).
        rewrite EQ1 in *. simpl in WK. simpl.
        rewrite <- L1 in Hr |- *.
        destruct (IH ta1 (nw + n1) I1 Hr) as [ta' [n [EQ [I' [L [K1 [K2 K3]]]]]]].
        exists ta', n. rewrite L1 in *. split; auto. split; auto. split; auto. split; [|split].
        -- intros j Hj Aj. apply K1; auto. assert (getZ ta1 j <= getZ ta j) by (apply M1; auto; lia). lia.
        -- intros j Hj Sj. rewrite K2 by auto. apply M2; auto. rewrite <- K2; auto.
        -- intros j [Ej | Ij] Fj; auto. subst j. apply K1; auto.
      * destruct (IH ta nw HI Hr) as [ta' [n [EQ [I' [L [K1 [K2 K3]]]]]]].
        exists ta', n. split; auto. split; auto. split; auto. split; auto. split; auto.
        intros j [Ej | Ij] Fj; auto. subst j. congruence.
Qed.

Lemma mj_wake_spec : forall ta flags can0, Inv ta ->
  exists ta' n, mj_wake ta flags can0 = (ta', n, 0) /\ Inv ta' /\ lenZ ta' = lenZ ta /\
    (forall j, 0 <= j < lenZ ta -> getZ ta j < 0 -> getZ ta' j < 0) /\
    (forall j, 0 <= j < lenZ ta -> 0 <= getZ ta' j -> getZ ta' j = getZ ta j) /\
    (forall i, 0 <= i < lenZ ta -> negb (getZ flags i =? 0) || negb (nth (Z.to_nat i) can0 false) = true -> getZ ta' i < 0).
Proof.
  intros ta flags can0 HI. unfold mj_wake.
  destruct (wake_sweep_spec flags can0 (zseq (lenZ ta)) ta 0 HI) as [ta' [n [EQ [I' [L [K1 [K2 K3]]]]]]].
  { intros. apply In_zseq. auto. }
  exists ta', n. split; auto. split; auto. split; auto. split; auto. split; auto.
  intros. apply K3; auto. apply In_zseq. auto.
Qed.

Lemma apply_op_inv : forall ta o, Inv ta -> op_ok ta o -> Inv (apply_op ta o) /\ lenZ (apply_op ta o) = lenZ ta.
Proof.
  intros ta o HI OK. destruct o as [can nefc nisl ti | i w]; simpl in *.
  - destruct OK as [EL [ELt AW]].
    destruct (mj_sleep_part_spec ta can nefc nisl ti HI EL ELt AW) as [ta' [n [EQ [I' [L _]]]]].
    rewrite EQ. simpl. auto.
  - destruct OK as [Hi Hw].
    destruct (wakeIsland_inv ta i w HI Hi Hw) as [ta' [n [EQ [I' [L _]]]]].
    rewrite EQ. simpl. auto.
Qed.

Lemma history_inv : forall ops ta, Inv ta -> ops_ok ops ta -> Inv (run ops ta) /\ lenZ (run ops ta) = lenZ ta.
Proof.
  induction ops as [|o r IH]; intros ta HI OK; simpl in *; auto.
  destruct OK as [O1 O2]. destruct (apply_op_inv ta o HI O1) as [I' L].
  destruct (IH _ I' O2). split; auto. unfold run in *. lia.
Qed.

Lemma run_app : forall a b ta, run (a ++ b) ta = run b (run a ta).
Proof. intros. unfold run. apply fold_left_app. Qed.

Lemma ops_ok_app : forall a b ta, ops_ok (a ++ b) ta <-> ops_ok a ta /\ ops_ok b (run a ta).
Proof.
  induction a; simpl; intros; [tauto|]. rewrite IHa. unfold run. simpl. tauto.
Qed.

Lemma awake_through_app : forall a o ta i,
  awake_through (a ++ [o]) ta i <-> awake_through a ta i /\ getZ (run (a ++ [o]) ta) i < 0.
Proof.
  induction a; simpl; intros.
  - unfold run. simpl. tauto.
  - rewrite IHa. unfold run. simpl. tauto.
Qed.

Lemma awake_through_last : forall a ta i, awake_through a ta i -> getZ (run a ta) i < 0.
Proof.
  induction a; simpl; intros; auto. destruct H. unfold run in *. simpl. auto.
Qed.

Lemma same_block_refl : forall ti n t, same_block ti n t t.
Proof. intros. unfold same_block. destruct ((0 <=? getZ ti t) && (getZ ti t <? n)); auto. Qed.

(* one call seen from a tree that is awake before it *)
Lemma apply_op_awake : forall ta o i, Inv ta -> op_ok ta o -> 0 <= i < lenZ ta -> getZ ta i < 0 ->
  (getZ (apply_op ta o) i < 0 ->
     match can_bit o i with
     | None => getZ (apply_op ta o) i <= getZ ta i
     | Some c => getZ (apply_op ta o) i = countdown (getZ ta i) c
     end) /\
  (0 <= getZ (apply_op ta o) i ->
     can_bit o i = Some true /\ -2 <= getZ ta i).
Proof.
  intros ta o i HI OK Hi Ai. destruct o as [can nefc nisl ti | j w]; simpl in *.
  - destruct OK as [EL [ELt AW]].
    destruct (mj_sleep_part_spec ta can nefc nisl ti HI EL ELt AW) as [ta' [n [EQ [I' [L [K1 [K2 [K3 K4]]]]]]]].
    rewrite EQ. simpl.
    destruct (negb (nefc =? 0) && (lenZ (islands_of ti nisl) =? 0)) eqn:NS.
    + rewrite K2 by auto. split; intros; lia.
    + split.
      * intros. apply K3; auto.
      * intros S. destruct (K4 i Hi Ai S) as [Q _].
        destruct (Q i Hi (same_block_refl ti nisl i)) as [_ [C _]].
        unfold countdown in C. destruct (canZ can i).
        -- split; auto. destruct (getZ ta i <? -1) eqn:E; [apply Z.ltb_lt in E|apply Z.ltb_ge in E]; lia.
        -- unfold kAwake, mjMINAWAKE in C. lia.
  - destruct OK as [Hj Hw].
    destruct (wakeIsland_inv ta j w HI Hj Hw) as [ta' [n [EQ [I' [L [M1 M2]]]]]].
    rewrite EQ. simpl. split.
    + intros. apply M1; auto. lia.
    + intros S. assert (getZ ta' i <= getZ ta i) by (apply M1; auto; lia). lia.
Qed.

Lemma countdown_need : forall ops ta0 i, Inv ta0 -> ops_ok ops ta0 -> 0 <= i < lenZ ta0 ->
  getZ ta0 i = kAwake -> awake_through ops ta0 i ->
  mjMINAWAKE - trailing_can (rev ops) i <= -1 - getZ (run ops ta0) i.
Proof.
  induction ops as [|o ops IH] using rev_ind; intros ta0 i HI OK Hi K AT.
  - change (rev (@nil op)) with (@nil op). change (run [] ta0) with ta0.
    change (trailing_can [] i) with 0. rewrite K. unfold kAwake, mjMINAWAKE. lia.
  - apply ops_ok_app in OK. destruct OK as [OK1 [OK2 _]].
    apply awake_through_app in AT. destruct AT as [AT1 AT2].
    specialize (IH ta0 i HI OK1 Hi K AT1).
    destruct (history_inv ops ta0 HI OK1) as [I1 L1].
    assert (A1 := awake_through_last ops ta0 i AT1).
    rewrite run_app in *. change (run [o] (run ops ta0)) with (apply_op (run ops ta0) o) in *.
    rewrite rev_app_distr. change (rev [o] ++ rev ops) with (o :: rev ops). cbn [trailing_can].
    destruct (apply_op_awake (run ops ta0) o i I1 OK2 ltac:(lia) A1) as [P _].
    specialize (P AT2). destruct (can_bit o i) as [[|]|].
    + rewrite P. unfold countdown. destruct (getZ (run ops ta0) i <? -1); lia.
    + rewrite P. unfold countdown, kAwake, mjMINAWAKE in *. lia.
    + lia.
Qed.

(* C18_countdown *)
Lemma countdown_thm : forall ops o ta0 i, Inv ta0 -> ops_ok (ops ++ [o]) ta0 -> 0 <= i < lenZ ta0 ->
  getZ ta0 i = kAwake -> awake_through ops ta0 i -> 0 <= getZ (run (ops ++ [o]) ta0) i ->
  can_bit o i = Some true /\ mjMINAWAKE <= trailing_can (rev (ops ++ [o])) i.
Proof.
  intros ops o ta0 i HI OK Hi K AT S.
  apply ops_ok_app in OK. destruct OK as [OK1 [OK2 _]].
  destruct (history_inv ops ta0 HI OK1) as [I1 L1].
  assert (A1 := awake_through_last ops ta0 i AT).
  assert (N := countdown_need ops ta0 i HI OK1 Hi K AT).
  rewrite run_app in S. change (run [o] (run ops ta0)) with (apply_op (run ops ta0) o) in S.
  destruct (apply_op_awake (run ops ta0) o i I1 OK2 ltac:(lia) A1) as [_ Q].
  destruct (Q S) as [CB G]. split; auto.
  rewrite rev_app_distr. change (rev [o] ++ rev ops) with (o :: rev ops). cbn [trailing_can].
  rewrite CB. lia.
Qed.

(* ------------------------------------------------------------------ mj_updateSleepInit *)
Definition zseq_from (s len : nat) : list Z := map Z.of_nat (seq s len).

Lemma zseq_zseq_from : forall n, zseq n = zseq_from 0 (Z.to_nat n).
Proof. reflexivity. Qed.

Lemma In_zseq_from : forall s len x, In x (zseq_from s len) <-> Z.of_nat s <= x < Z.of_nat (s + len).
Proof.
  intros. unfold zseq_from. rewrite in_map_iff. split.
  - intros [k [E I]]. apply in_seq in I. lia.
  - intros. exists (Z.to_nat x). split; [lia|]. apply in_seq. lia.
Qed.

Lemma sorted_zseq_from : forall len s, StronglySorted Z.lt (zseq_from s len).
Proof.
  induction len; intros; simpl; constructor.
  - apply IHlen.
  - apply Forall_forall. intros x I. apply (In_zseq_from (S s) len) in I. lia.
Qed.

Lemma sorted_filter : forall (f : Z -> bool) l, StronglySorted Z.lt l -> StronglySorted Z.lt (filter f l).
Proof.
  induction l; simpl; intros H; [constructor|]. inversion H; subst.
  destruct (f a); auto. constructor; auto.
  apply Forall_forall. intros x I. apply filter_In in I. destruct I as [I _].
  rewrite Forall_forall in H3. auto.
Qed.

Section UpdateSleep.
  Variables (tw treeid parentid rootid mocapid : list Z) (flg : bool).
  Let st := body_state tw treeid rootid mocapid flg.
  Let fb := fun i => negb (st i =? 0).
  Let fp := fun i => negb (i =? 0) && negb (st (getZ parentid i) =? 0).

  Lemma body_loop_spec : forall len s ba bind pind,
    (s + len <= length ba)%nat ->
    (forall j, (j < s)%nat -> getZ ba (Z.of_nat j) = st (Z.of_nat j)) ->
    exists ba' b' p',
      body_loop (zseq_from s len) tw treeid parentid rootid mocapid flg ba bind pind = (ba', b', p') /\
      length ba' = length ba /\
      (forall j, (j < s + len)%nat -> getZ ba' (Z.of_nat j) = st (Z.of_nat j)) /\
      b' = rev bind ++ filter fb (zseq_from s len) /\
      ((forall j, (s <= j < s + len)%nat -> j <> 0%nat -> 0 <= getZ parentid (Z.of_nat j) < Z.of_nat j) ->
       p' = rev pind ++ filter fp (zseq_from s len)).
  Proof.
    induction len; intros s ba bind pind Hl Hs.
    - exists ba, (rev bind), (rev pind). simpl. rewrite !app_nil_r.
      split; auto. split; auto. split; auto. intros. apply Hs. lia.
    - unfold zseq_from. simpl seq. simpl map. fold (zseq_from (S s) len). simpl body_loop.
      fold st. set (i := Z.of_nat s). set (v := st i). set (ba1 := setZ ba i v).
      assert (Ri : 0 <= i < lenZ ba) by (unfold i, lenZ; lia).
      destruct (IHlen (S s) ba1 (if v =? 0 then bind else i :: bind)
                      (if negb (i =? 0) && negb (getZ ba1 (getZ parentid i) =? 0) then i :: pind else pind))
        as [ba' [b' [p' [EQ [L [G [B P]]]]]]].
      + unfold ba1, setZ. destruct (i <? 0); [lia|]. rewrite length_set_nat. lia.
      + intros j Hj. destruct (Nat.eq_dec j s).
        * subst j. unfold ba1. fold i. rewrite get_set_same; auto.
        * unfold ba1. rewrite get_set_other; try lia. apply Hs. lia.
      + exists ba', b', p'. split; [exact EQ|]. split.
        { rewrite L. unfold ba1, setZ. destruct (i <? 0); auto. apply length_set_nat. }
        split. { intros j Hj. apply G. lia. }
        split.
        * rewrite B. simpl filter. unfold fb at 2. fold v.
          destruct (v =? 0); simpl; auto. rewrite <- app_assoc. auto.
        * intros PAR. rewrite P by (intros; apply PAR; lia).
          simpl filter. unfold fp at 2.
          destruct (i =? 0) eqn:E0; simpl; auto.
          assert (getZ ba1 (getZ parentid i) = st (getZ parentid i)).
          { apply Z.eqb_neq in E0. destruct (PAR s ltac:(lia) ltac:(lia)) as [P0 P1]. fold i in P0, P1.
            unfold ba1. rewrite get_set_other; try lia.
            replace (getZ parentid i) with (Z.of_nat (Z.to_nat (getZ parentid i))) by lia.
            apply Hs. lia. }
          rewrite H. destruct (st (getZ parentid i) =? 0); simpl; auto. rewrite <- app_assoc. auto.
  Qed.

  Lemma dof_loop_spec : forall treeid' dofbody ba ids acc,
    dof_loop ids treeid' dofbody ba acc =
    rev acc ++ filter (fun i => (0 <=? getZ treeid' (getZ dofbody i)) && (getZ ba (getZ dofbody i) =? 1)) ids.
  Proof.
    induction ids; intros acc; simpl; [rewrite app_nil_r; auto|].
    rewrite IHids. destruct ((0 <=? getZ treeid' (getZ dofbody a)) && (getZ ba (getZ dofbody a) =? 1)); simpl; auto.
    rewrite <- app_assoc. auto.
  Qed.
End UpdateSleep.

Lemma tree_awake_of_get : forall ta t, 0 <= t < lenZ ta ->
  getZ (tree_awake_of ta) t = if getZ ta t <? 0 then 1 else 0.
Proof.
  intros. unfold getZ, tree_awake_of. set (f := fun v : Z => if v <? 0 then 1 else 0).
  rewrite nth_indep with (d' := f (-1)) by (rewrite map_length; unfold lenZ in H; lia).
  rewrite map_nth. reflexivity.
Qed.

Lemma sum_tree_awake : forall ta, sumZ (tree_awake_of ta) = lenZ (filter (fun v => v <? 0) ta).
Proof.
  induction ta; simpl; auto. unfold lenZ in *. destruct (a <? 0); simpl length; lia.
Qed.

(* C18_indices *)
Lemma updateSleepInit_spec : forall ta treeid parentid rootid mocapid dofbody ba0 flg,
  length ba0 = length treeid ->
  (forall d, 0 <= d < lenZ dofbody -> 0 <= getZ dofbody d < lenZ treeid) ->
  let st := body_state (tree_awake_of ta) treeid rootid mocapid flg in
  exists ba bind pind dind,
    updateSleepInit ta treeid parentid rootid mocapid dofbody ba0 flg =
      (tree_awake_of ta, lenZ (filter (fun v => v <? 0) ta), ba, bind, pind, dind) /\
    length ba = length treeid /\
    (forall b, 0 <= b < lenZ treeid -> getZ ba b = st b) /\
    StronglySorted Z.lt bind /\
    (forall b, In b bind <-> 0 <= b < lenZ treeid /\ st b <> 0) /\
    StronglySorted Z.lt dind /\
    (forall d, In d dind <-> 0 <= d < lenZ dofbody /\ 0 <= getZ treeid (getZ dofbody d) /\ st (getZ dofbody d) = 1) /\
    ((forall b, 0 < b < lenZ treeid -> 0 <= getZ parentid b < b) ->
       StronglySorted Z.lt pind /\
       (forall b, In b pind <-> 0 < b < lenZ treeid /\ st (getZ parentid b) <> 0)).
Proof.
  intros ta treeid parentid rootid mocapid dofbody ba0 flg EL DB st.
  unfold updateSleepInit. rewrite zseq_zseq_from.
  destruct (body_loop_spec (tree_awake_of ta) treeid parentid rootid mocapid flg
              (Z.to_nat (lenZ treeid)) 0 ba0 [] []) as [ba [bind [pind [EQ [L [G [B P]]]]]]].
  - unfold lenZ. lia.
  - intros. lia.
  - rewrite EQ. rewrite dof_loop_spec. rewrite sum_tree_awake. simpl rev. simpl app in *.
    do 4 eexists. split; [reflexivity|]. fold st in G, B, P.
    assert (NB : (0 + Z.to_nat (lenZ treeid))%nat = length treeid) by (unfold lenZ; lia).
    split; [lia|]. split.
    { intros b Hb. replace b with (Z.of_nat (Z.to_nat b)) by lia. apply G. unfold lenZ in Hb. lia. }
    split. { rewrite B. apply sorted_filter. apply sorted_zseq_from. }
    split. { intros b. rewrite B, filter_In, In_zseq_from, NB. unfold lenZ.
             rewrite negb_true_iff, Z.eqb_neq. simpl. tauto. }
    split. { apply sorted_filter. rewrite zseq_zseq_from. apply sorted_zseq_from. }
    split.
    { intros d. rewrite filter_In, In_zseq, andb_true_iff, Z.leb_le, Z.eqb_eq. split.
      - intros [R [T V]]. split; auto. split; auto. rewrite <- V. symmetry.
        replace (getZ dofbody d) with (Z.of_nat (Z.to_nat (getZ dofbody d))) by (destruct (DB d R); lia).
        apply G. destruct (DB d R). unfold lenZ in *. lia.
      - intros [R [T V]]. split; auto. split; auto. rewrite <- V.
        replace (getZ dofbody d) with (Z.of_nat (Z.to_nat (getZ dofbody d))) by (destruct (DB d R); lia).
        apply G. destruct (DB d R). unfold lenZ in *. lia. }
    intros PAR. rewrite P.
    + split; [apply sorted_filter; apply sorted_zseq_from|].
      intros b. rewrite filter_In, In_zseq_from, NB. unfold lenZ.
      rewrite andb_true_iff, !negb_true_iff, !Z.eqb_neq. simpl. intuition lia.
    + intros j Hj Nj. apply PAR. unfold lenZ. lia.
Qed.

(* non-vacuity of Inv (used by Props/C18.v) *)
Lemma example_inv : Inv [1; 0; -1; 4; 5; 3; -1].
Proof.
  split.
  - intros i Hi Hs. unfold lenZ in *. simpl in Hi.
    assert (i = 0 \/ i = 1 \/ i = 2 \/ i = 3 \/ i = 4 \/ i = 5 \/ i = 6) by lia.
    destruct H as [E|[E|[E|[E|[E|[E|E]]]]]]; subst; vm_compute in Hs |- *; intuition congruence.
  - intros i j Hi Hj Hs E. unfold lenZ in *. simpl in Hi, Hj.
    assert (Ci : i = 0 \/ i = 1 \/ i = 2 \/ i = 3 \/ i = 4 \/ i = 5 \/ i = 6) by lia.
    assert (Cj : j = 0 \/ j = 1 \/ j = 2 \/ j = 3 \/ j = 4 \/ j = 5 \/ j = 6) by lia.
    destruct Ci as [A|[A|[A|[A|[A|[A|A]]]]]]; destruct Cj as [B|[B|[B|[B|[B|[B|B]]]]]]; subst;
      vm_compute in Hs, E; try reflexivity; try discriminate; exfalso; apply Hs; reflexivity.
Qed.

(* converse of the sleep rule: a block whose trees are all awake and ready does fall asleep *)
Lemma mj_sleep_part_live : forall ta can nefc nisland ti,
  Inv ta -> length can = length ta -> lenZ ti = lenZ ta ->
  (forall t, 0 <= t < lenZ ta -> 0 <= getZ ti t -> getZ ta t < 0) ->
  negb (nefc =? 0) && (lenZ (islands_of ti nisland) =? 0) = false ->
  forall t, 0 <= t < lenZ ta -> (getZ ti t < nisland \/ nisland <= 0) ->
    (forall u, 0 <= u < lenZ ta -> same_block ti nisland t u ->
               getZ ta u < 0 /\ countdown (getZ ta u) (canZ can u) = -1) ->
    0 <= getZ (fst (fst (mj_sleep_part ta can nefc nisland ti))) t.
Proof.
  intros ta can nefc n ti HI EL ELt AW NS t Rt BLK RDY.
  destruct (partition_valid ta ti n ELt) as [ND RNG].
  destruct (mj_sleep_spec ta can nefc (islands_of ti n) (tail_of ti) EL ND RNG) as [ta' [ns [EQ CY]]]; auto.
  { intros x It. apply in_concat in It. destruct It as [c [Ic Itc]].
    apply in_islands_of in Ic. destruct Ic as [k [Rk Ek]]. subst c.
    apply in_island_trees in Itc. apply AW; lia. }
  fold (tl_of ta ti n) in CY. unfold mj_sleep_part. rewrite EQ. simpl.
  set (ta1 := countdown_all ta can) in *.
  (* the block of t *)
  assert (EB : exists b, In b (blocks_of (islands_of ti n) (tl_of ta ti n)) /\ In t b).
  { unfold blocks_of. destruct (Z_lt_ge_dec (getZ ti t) 0) as [NEG | POS].
    - exists [t]. split; [|left; auto]. apply in_or_app. right. apply in_map_iff. exists t. split; auto. unfold tl_of.
      destruct (lenZ (islands_of ti n) =? 0); [apply In_zseq; auto | apply in_tail_of; lia].
    - destruct (Z_le_gt_dec n 0) as [N0 | NP].
      + exists [t]. split; [|left; auto]. apply in_or_app. right. apply in_map_iff. exists t. split; auto. unfold tl_of.
        rewrite lenZ_islands_of. replace (Z.max 0 n =? 0) with true by (symmetry; apply Z.eqb_eq; lia).
        apply In_zseq; auto.
      + exists (island_trees ti (getZ ti t)). split.
        * apply in_or_app. left. apply in_islands_of. exists (getZ ti t). split; auto. lia.
        * apply in_island_trees. split; auto. lia. }
  destruct EB as [b [Ib Itb]].
  assert (MEM := block_members ta ti n b t ELt Ib Itb).
  assert (RB : readyb ta1 b = true).
  { apply readyb_true. intros u Iu. apply MEM in Iu. destruct Iu as [Ru SB].
    destruct (RDY u Ru SB) as [Au Cu].
    destruct (countdown_all_sign ta can u EL Ru) as [_ B]. destruct (B Au) as [E _].
    unfold ta1. congruence. }
  assert (IR : In b (filter (readyb ta1) (blocks_of (islands_of ti n) (tl_of ta ti n)))).
  { apply filter_In. auto. }
  destruct CY as [L [A B]].
  destruct (In_nth b t 0 Itb) as [k [Hk Ek]]. rewrite <- Ek, (A b IR k Hk).
  assert (X : In (nth (S k mod length b) b 0) b) by (apply nth_In; apply succ_mod_lt; lia).
  apply MEM in X. lia.
Qed.
