(* Proofs about mj_solveLD (Model/SparseM.v) at R: given a unit-lower-triangular factor L stored in
   the strict lower entries of the rows, the pivots D on the diagonals and their inverses, the
   three passes (L^-T, D^-1, L^-1) return the solution of (L' D L) w = x. *)
From Coq Require Import ZArith List Bool Arith Lia PrimFloat Reals Lra Sorted Permutation.
From MJV Require Import Lib.Num Lib.NumR Model.Sparse Model.SparseM
  Proof.LinAlgBase Proof.SparseProof Proof.SparseMergeProof Proof.SparseSymProof Proof.SparseCompressProof
  Proof.SparseMProof.
Import ListNotations.
Open Scope R_scope.

(* lower-triangular structure with the diagonal last: row i = distinct columns < i, then i *)
Definition tri (n : nat) (cs : list (list nat)) : Prop :=
  length cs = n /\
  forall i : nat, (i < n)%nat ->
    exists a : list nat, nth i cs [] = a ++ [i] /\ NoDup a /\ Forall (fun c : nat => (c < i)%nat) a.

(* strict-lower entries of row i *)
Definition off (cs : list (list nat)) (rows : list (list R)) (i : nat) : list entR :=
  combine (removelast (nth i cs [])) (removelast (nth i rows [])).
Definition Lmat (cs : list (list nat)) (rows : list (list R)) (i c : nat) : R := lk c (off cs rows i).
Definition Lfull (cs : list (list nat)) (rows : list (list R)) (i c : nat) : R :=
  if Nat.eqb c i then 1 else Lmat cs rows i c.
Definition Dof (rows : list (list R)) (i : nat) : R := last (nth i rows []) 0.
(* (L' D L)(r, s) *)
Definition LDL (n : nat) (cs : list (list nat)) (rows : list (list R)) (r s : nat) : R :=
  bsum n (fun i => Lfull cs rows i r * Dof rows i * Lfull cs rows i s).

Lemma cols_combine : forall (a : list nat) (u : list R), length u = length a -> cols (combine a u) = a.
Proof.
  induction a as [|x a IH]; intros u Hl; [reflexivity|].
  destruct u as [|w u]; [simpl in Hl; lia|]. unfold cols in *. simpl. f_equal. apply IH. simpl in Hl. lia.
Qed.

Lemma off_shape : forall (n : nat) (cs : list (list nat)) (rows : list (list R)) (i : nat),
  tri n cs -> fits cs rows -> (i < n)%nat ->
  NoDup (cols (off cs rows i)) /\ Forall (fun c : nat => (c < i)%nat) (cols (off cs rows i)) /\
  (length (nth i rows []) = S (length (off cs rows i))).
Proof.
  intros n cs0 rows i [Hl Ht] [Hfl Hfr] Hi.
  destruct (Ht i Hi) as [a [Ha [Hnd Hb]]].
  specialize (Hfr i ltac:(lia)). rewrite Ha, app_length in Hfr. simpl in Hfr.
  unfold off. rewrite Ha, removelast_last.
  assert (Hlr : length (removelast (nth i rows [])) = length a).
  { destruct (nth i rows []) as [|w v] using rev_ind; [simpl in Hfr; lia|]. rewrite removelast_last.
    rewrite app_length in Hfr. simpl in Hfr. lia. }
  rewrite cols_combine by auto. split; [exact Hnd|]. split; [exact Hb|].
  unfold ent in *. rewrite combine_length, Hlr. lia.
Qed.

Lemma Lmat_upper : forall (n : nat) (cs : list (list nat)) (rows : list (list R)) (i c : nat),
  tri n cs -> fits cs rows -> (i < n)%nat -> (i <= c)%nat -> Lmat cs rows i c = 0.
Proof.
  intros n cs0 rows i c Ht Hf Hi Hc. unfold Lmat. apply lk_notin.
  destruct (off_shape n cs0 rows i Ht Hf Hi) as [_ [Hb _]]. rewrite Forall_forall in Hb.
  intros Hin. apply Hb in Hin. lia.
Qed.

(* ------------------------------------------------------------------ pass 1: x <- L^-T x *)
Lemma sub_fold : forall (es : list entR) (xi : R) (x : list R) (c : nat),
  NoDup (cols es) -> Forall (fun c0 : nat => (c0 < length x)%nat) (cols es) ->
  let x' := fold_left (fun (x0 : list R) (p : nat * R) => upd (fst p) (nth (fst p) x0 0 - snd p * xi) x0) es x in
  length x' = length x /\ nth c x' 0 = nth c x 0 - lk c es * xi.
Proof.
  induction es as [|[c0 v0] es IH]; intros xi x c Hnd Hr; simpl.
  - split; [reflexivity|lra].
  - simpl in Hnd, Hr. inversion Hnd as [|a l Hna Hnd']; subst. inversion Hr as [|a l Hc0 Hr']; subst.
    destruct (IH xi (upd c0 (nth c0 x 0 - v0 * xi) x) c Hnd') as [Hl Hn].
    { rewrite upd_length; auto. }
    simpl in Hl, Hn. rewrite Hl, Hn, upd_length. split; [reflexivity|].
    rewrite nth_upd by auto. destruct (Nat.eqb_spec c0 c) as [->|Hne]; [|lra].
    rewrite (lk_notin c es) by auto. lra.
Qed.

Definition LT_step (cs : list (list nat)) (rows : list (list R)) (x : list R) (i : nat) : list R :=
  let ri := nth i rows [] in
  if Nat.eqb (length ri) 1 then x
  else
    let xi := nth i x 0 in
    if nz xi then
      fold_left (fun (x0 : list R) (p : nat * R) => upd (fst p) (nth (fst p) x0 0 - snd p * xi) x0)
                (combine (removelast (nth i cs [])) (removelast ri)) x
    else x.

Lemma solve_LT_unfold : forall (n : nat) (cs : list (list nat)) (rows : list (list R)) (x : list R),
  solve_LT n cs rows x = fold_left (LT_step cs rows) (rev (seq 0 n)) x.
Proof. intros. reflexivity. Qed.

Lemma LT_step_spec : forall (n : nat) (cs : list (list nat)) (rows : list (list R)) (x : list R) (i c : nat),
  tri n cs -> fits cs rows -> (i < n)%nat -> length x = n ->
  length (LT_step cs rows x i) = n /\
  nth c (LT_step cs rows x i) 0 = nth c x 0 - Lmat cs rows i c * nth i x 0.
Proof.
  intros n cs0 rows x i c Ht Hf Hi Hx.
  destruct (off_shape n cs0 rows i Ht Hf Hi) as [Hnd [Hb Hlen]].
  unfold LT_step, Lmat. fold (off cs0 rows i).
  destruct (Nat.eqb_spec (length (nth i rows [])) 1) as [H1|H1].
  - split; [exact Hx|]. assert (off cs0 rows i = []) as -> by (destruct (off cs0 rows i); [reflexivity|simpl in Hlen; lia]).
    simpl. lra.
  - destruct (nz (nth i x 0)) eqn:Ez.
    + assert (Hr : Forall (fun c0 : nat => (c0 < length x)%nat) (cols (off cs0 rows i))).
      { eapply Forall_impl; [|exact Hb]. intros c0 Hc0. cbv beta in *. lia. }
      destruct (sub_fold (off cs0 rows i) (nth i x 0) x c Hnd Hr) as [Hl Hn]. split; [lia|exact Hn].
    + apply nz_false in Ez. split; [exact Hx|]. rewrite Ez. lra.
Qed.

Lemma solve_LT_spec : forall (n : nat) (cs : list (list nat)) (rows : list (list R)),
  tri n cs -> fits cs rows ->
  forall (m : nat) (x : list R), (m <= n)%nat -> length x = n ->
  let y := fold_left (LT_step cs rows) (rev (seq 0 m)) x in
  length y = n /\
  forall c : nat, nth c y 0 = nth c x 0 - bsum m (fun i => Lmat cs rows i c * nth i y 0).
Proof.
  intros n cs0 rows Ht Hf. induction m as [|m IH]; intros x Hm Hx.
  - simpl. split; [exact Hx|]. intros c. lra.
  - rewrite seq_S, rev_app_distr. simpl rev. simpl app. simpl fold_left.
    destruct (LT_step_spec n cs0 rows x m 0%nat Ht Hf) as [Hl1 _]; [lia|exact Hx|].
    destruct (IH (LT_step cs0 rows x m)) as [Hly Hy]; [lia|exact Hl1|].
    cbv zeta in *. set (y := fold_left (LT_step cs0 rows) (rev (seq 0 m)) (LT_step cs0 rows x m)) in *.
    split; [exact Hly|]. intros c.
    assert (Hym : nth m y 0 = nth m x 0).
    { rewrite Hy. rewrite bsum_zero.
      - destruct (LT_step_spec n cs0 rows x m m Ht Hf) as [_ Hn]; [lia|exact Hx|].
        rewrite Hn. rewrite (Lmat_upper n) by (auto; lia). lra.
      - intros i Hi. rewrite (Lmat_upper n) by (auto; lia). lra. }
    rewrite Hy. destruct (LT_step_spec n cs0 rows x m c Ht Hf) as [_ Hn]; [lia|exact Hx|].
    rewrite Hn. simpl bsum. rewrite Hym. lra.
Qed.

(* ------------------------------------------------------------------ pass 3: x <- L^-1 x *)
Definition L_step (cs : list (list nat)) (rows : list (list R)) (x : list R) (i : nat) : list R :=
  let ri := nth i rows [] in
  if Nat.leb (length ri) 1 then x
  else upd i (nth i x 0 - dotSparse (combine (removelast (nth i cs [])) (removelast ri)) x) x.

Lemma solve_L_unfold : forall (n : nat) (cs : list (list nat)) (rows : list (list R)) (x : list R),
  solve_L n cs rows x = fold_left (L_step cs rows) (seq 0 n) x.
Proof. intros. reflexivity. Qed.

Lemma L_step_spec : forall (n : nat) (cs : list (list nat)) (rows : list (list R)) (x : list R) (i c : nat),
  tri n cs -> fits cs rows -> (i < n)%nat -> length x = n ->
  length (L_step cs rows x i) = n /\
  nth c (L_step cs rows x i) 0 =
    if Nat.eqb i c then nth i x 0 - bsum i (fun s => Lmat cs rows i s * nth s x 0) else nth c x 0.
Proof.
  intros n cs0 rows x i c Ht Hf Hi Hx.
  destruct (off_shape n cs0 rows i Ht Hf Hi) as [Hnd [Hb Hlen]].
  unfold L_step. fold (off cs0 rows i).
  assert (Hsd : sdot (off cs0 rows i) x = bsum i (fun s => Lmat cs0 rows i s * nth s x 0)).
  { unfold Lmat. apply sdot_lk; auto. }
  destruct (Nat.leb_spec (length (nth i rows [])) 1) as [H1|H1].
  - split; [exact Hx|].
    assert (Hoff : off cs0 rows i = []) by (destruct (off cs0 rows i); [reflexivity|simpl in Hlen; lia]).
    destruct (Nat.eqb_spec i c) as [->|]; [|reflexivity].
    rewrite <- Hsd, Hoff. unfold sdot. simpl. lra.
  - split; [rewrite upd_length; exact Hx|].
    rewrite nth_upd by lia. rewrite dotSparse_spec, Hsd. destruct (Nat.eqb i c); reflexivity.
Qed.

Lemma solve_L_spec : forall (n : nat) (cs : list (list nat)) (rows : list (list R)),
  tri n cs -> fits cs rows ->
  forall (k : nat) (z : list R), (k <= n)%nat -> length z = n ->
  let w := fold_left (L_step cs rows) (seq 0 k) z in
  length w = n /\
  (forall i : nat, (i < k)%nat -> nth i w 0 = nth i z 0 - bsum i (fun s => Lmat cs rows i s * nth s w 0)) /\
  (forall i : nat, (k <= i)%nat -> nth i w 0 = nth i z 0).
Proof.
  intros n cs0 rows Ht Hf. induction k as [|k IH]; intros z Hk Hz.
  - simpl. split; [exact Hz|]. split; [intros; lia|reflexivity].
  - rewrite fold_left_seq_S. destruct (IH z) as [Hl [Hlo Hhi]]; [lia|exact Hz|]. cbv zeta in *.
    set (w := fold_left (L_step cs0 rows) (seq 0 k) z) in *.
    destruct (L_step_spec n cs0 rows w k 0%nat Ht Hf) as [Hl' _]; [lia|exact Hl|].
    split; [exact Hl'|]. split.
    + intros i Hi. destruct (L_step_spec n cs0 rows w k i Ht Hf) as [_ Hn]; [lia|exact Hl|].
      rewrite Hn. destruct (Nat.eqb_spec k i) as [<-|Hne].
      * rewrite Hhi by lia. f_equal. apply bsum_ext. intros s Hs.
        destruct (L_step_spec n cs0 rows w k s Ht Hf) as [_ Hn2]; [lia|exact Hl|].
        rewrite Hn2. destruct (Nat.eqb_spec k s); [lia|reflexivity].
      * rewrite Hlo by lia. f_equal. apply bsum_ext. intros s Hs.
        destruct (L_step_spec n cs0 rows w k s Ht Hf) as [_ Hn2]; [lia|exact Hl|].
        rewrite Hn2. destruct (Nat.eqb_spec k s); [lia|reflexivity].
    + intros i Hi. destruct (L_step_spec n cs0 rows w k i Ht Hf) as [_ Hn]; [lia|exact Hl|].
      rewrite Hn. destruct (Nat.eqb_spec k i); [lia|]. apply Hhi. lia.
Qed.

(* ------------------------------------------------------------------ mj_solveLD *)
Lemma solve_D_spec : forall (dinv x : list R) (i : nat), length dinv = length x ->
  length (solve_D dinv x) = length x /\ nth i (solve_D dinv x) 0 = nth i x 0 * nth i dinv 0.
Proof.
  intros dinv x; revert dinv. induction x as [|a x IH]; intros dinv i Hl.
  - destruct dinv; simpl in *; [|lia]. split; [reflexivity|]. destruct i; lra.
  - destruct dinv as [|b dinv]; simpl in Hl; [lia|].
    unfold solve_D in *. num_R. simpl. destruct (IH dinv (pred i)) as [H1 H2]; [lia|].
    split; [rewrite H1; reflexivity|]. destruct i as [|i]; [reflexivity|]. simpl in H2. exact H2.
Qed.

Lemma bsum_Lfull : forall (n : nat) (cs : list (list nat)) (rows : list (list R)) (i : nat) (w : list R),
  tri n cs -> fits cs rows -> (i < n)%nat ->
  bsum n (fun s => Lfull cs rows i s * nth s w 0) = nth i w 0 + bsum i (fun s => Lmat cs rows i s * nth s w 0).
Proof.
  intros n cs0 rows i w Ht Hf Hi.
  rewrite (bsum_ext n (fun s => Lfull cs0 rows i s * nth s w 0)
                      (fun s => (if Nat.eqb i s then nth s w 0 else 0) + Lmat cs0 rows i s * nth s w 0)).
  2:{ intros s Hs. unfold Lfull. rewrite (Nat.eqb_sym s i). destruct (Nat.eqb_spec i s) as [->|]; [|lra].
      rewrite (Lmat_upper n) by (auto; lia). lra. }
  rewrite bsum_plus, (bsum_delta n i (fun s => nth s w 0)) by auto. f_equal.
  rewrite (bsum_split i n) by lia. rewrite (bsum_zero (n - i)); [lra|].
  intros t _. rewrite (Lmat_upper n) by (auto; lia). lra.
Qed.

Lemma solveLD_spec : forall (n : nat) (cs : list (list nat)) (rows : list (list R)) (dinv x : list R),
  tri n cs -> fits cs rows -> length dinv = n -> length x = n ->
  (forall i : nat, (i < n)%nat -> Dof rows i * nth i dinv 0 = 1) ->
  length (solveLD n cs rows dinv x) = n /\
  forall r : nat, (r < n)%nat ->
    bsum n (fun s => LDL n cs rows r s * nth s (solveLD n cs rows dinv x) 0) = nth r x 0.
Proof.
  intros n cs0 rows dinv x Ht Hf Hdl Hx HD. unfold solveLD.
  rewrite solve_LT_unfold, solve_L_unfold.
  destruct (solve_LT_spec n cs0 rows Ht Hf n x (Nat.le_refl n) Hx) as [Hly Hy]. cbv zeta in *.
  set (y := fold_left (LT_step cs0 rows) (rev (seq 0 n)) x) in *.
  assert (Hlz : length (solve_D dinv y) = n) by (destruct (solve_D_spec dinv y 0%nat) as [H1 _]; lia).
  destruct (solve_L_spec n cs0 rows Ht Hf n (solve_D dinv y) (Nat.le_refl n) Hlz) as [Hlw [Hw _]]. cbv zeta in *.
  set (w := fold_left (L_step cs0 rows) (seq 0 n) (solve_D dinv y)) in *.
  split; [exact Hlw|]. intros r Hr. unfold LDL.
  rewrite (bsum_ext n (fun s => bsum n (fun i => Lfull cs0 rows i r * Dof rows i * Lfull cs0 rows i s) * nth s w 0)
                      (fun s => bsum n (fun i => Lfull cs0 rows i r * Dof rows i * (Lfull cs0 rows i s * nth s w 0)))).
  2:{ intros s _. rewrite <- bsum_scal_r. apply bsum_ext. intros i _. ring. }
  rewrite bsum_swap.
  rewrite (bsum_ext n (fun i => bsum n (fun s => Lfull cs0 rows i r * Dof rows i * (Lfull cs0 rows i s * nth s w 0)))
                      (fun i => Lfull cs0 rows i r * nth i y 0)).
  - (* sum_i Lfull i r * y_i = x_r *)
    rewrite (bsum_ext n (fun i => Lfull cs0 rows i r * nth i y 0)
                        (fun i => (if Nat.eqb r i then nth i y 0 else 0) + Lmat cs0 rows i r * nth i y 0)).
    2:{ intros i Hi. unfold Lfull. destruct (Nat.eqb_spec r i) as [->|]; [|lra].
        rewrite (Lmat_upper n) by (auto; lia). lra. }
    rewrite bsum_plus, (bsum_delta n r (fun i => nth i y 0)) by auto.
    rewrite (Hy r). lra.
  - intros i Hi. rewrite bsum_scal. rewrite (bsum_Lfull n) by auto.
    rewrite <- (Rplus_comm (bsum i _)).
    assert (Hz : nth i w 0 + bsum i (fun s => Lmat cs0 rows i s * nth s w 0) = nth i (solve_D dinv y) 0).
    { rewrite (Hw i Hi). lra. }
    rewrite Rplus_comm, Hz. destruct (solve_D_spec dinv y i) as [_ Hd]; [lia|]. rewrite Hd.
    rewrite Rmult_assoc. rewrite <- (Rmult_assoc (Dof rows i)). rewrite (Rmult_comm (Dof rows i)).
    rewrite Rmult_assoc. rewrite (HD i Hi). ring.
Qed.

(* every forest structure is triangular with the diagonal last *)
Lemma forest_tri : forall (nv : nat) (par simple : list Z) (reduced : bool), forest nv par ->
  tri nv (dofdof_rows nv par simple reduced false).
Proof.
  intros nv par simple reduced Hf. rewrite dofdof_rows_lower. split; [rewrite map_length, seq_length; reflexivity|].
  intros i Hi. rewrite nth_map_seq0 by auto. unfold lowrow. destruct (diagOnly simple reduced i).
  - exists []. split; [reflexivity|]. split; constructor.
  - exists (rev (ancestors nv par i)). destruct (ancestors_spec nv par i Hf Hi) as [_ [Hs Hb]].
    split; [reflexivity|]. split.
    + apply sorted_lt_nodup. apply (ss_rev nat gt). exact Hs.
    + apply Forall_rev. exact Hb.
Qed.
