(* Proofs about Model/Sensor.v (C28). *)
From Coq Require Import ZArith List PrimFloat Reals Lra Lia Psatz Bool.
From MJV Require Import Lib.Num Lib.NumR Model.Spatial Model.Sensor Proof.SpatialProof.
Import ListNotations.

(* ================================================================== 1. layout *)
Open Scope Z_scope.

Definition zsum (l : list Z) : Z := fold_right Z.add 0 l.
Definition nonneg (l : list Z) : Prop := forall d : Z, In d l -> 0 <= d.

Lemma fold_add_shift (l : list Z) : forall a : Z, fold_left Z.add l a = a + zsum l.
Proof. induction l as [|d r IH]; intros a; simpl; [lia|]. rewrite IH. lia. Qed.

Lemma nsensordata_zsum (dims : list Z) : nsensordata dims = zsum dims.
Proof. unfold nsensordata. rewrite fold_add_shift. lia. Qed.

Lemma zsum_nonneg (l : list Z) : nonneg l -> 0 <= zsum l.
Proof.
  induction l as [|d r IH]; intros N; simpl; [lia|].
  assert (0 <= d) by (apply N; left; reflexivity).
  assert (0 <= zsum r) by (apply IH; intros x Hx; apply N; right; exact Hx). lia.
Qed.

Lemma nonneg_tl (d : Z) (r : list Z) : nonneg (d :: r) -> 0 <= d /\ nonneg r.
Proof. intros N; split; [apply N; left; reflexivity | intros x Hx; apply N; right; exact Hx]. Qed.

Lemma layout_from_length (dims : list Z) : forall a : Z, length (layout_from a dims) = length dims.
Proof. induction dims as [|d r IH]; intros a; simpl; [reflexivity | rewrite IH; reflexivity]. Qed.

(* every slice lies inside [a, a + sum) *)
Lemma layout_bounds (dims : list Z) : forall (a : Z) (i : nat), nonneg dims -> (i < length dims)%nat ->
  a <= nth i (layout_from a dims) 0 /\ nth i (layout_from a dims) 0 + nth i dims 0 <= a + zsum dims.
Proof.
  induction dims as [|d r IH]; intros a i N L; simpl in L; [lia|].
  destruct (nonneg_tl _ _ N) as [D Nr]. pose proof (zsum_nonneg _ Nr) as Z0.
  destruct i as [|i]; simpl.
  - lia.
  - assert (Li : (i < length r)%nat) by lia. destruct (IH (a + d) i Nr Li). lia.
Qed.

(* slices are laid out one after the other *)
Lemma layout_ordered (dims : list Z) : forall (a : Z) (i j : nat), nonneg dims ->
  (i < j)%nat -> (j < length dims)%nat ->
  nth i (layout_from a dims) 0 + nth i dims 0 <= nth j (layout_from a dims) 0.
Proof.
  induction dims as [|d r IH]; intros a i j N Lij L; simpl in L; [lia|].
  destruct (nonneg_tl _ _ N) as [D Nr].
  destruct j as [|j]; [lia|]. assert (Lj : (j < length r)%nat) by lia.
  destruct i as [|i]; simpl.
  - destruct (layout_bounds r (a + d) j Nr Lj). lia.
  - apply IH; [exact Nr | lia | exact Lj].
Qed.

Lemma layout_cover (dims : list Z) : forall (a k : Z), nonneg dims -> a <= k < a + zsum dims ->
  exists i : nat, (i < length dims)%nat /\ in_slice (nth i (layout_from a dims) 0) (nth i dims 0) k.
Proof.
  induction dims as [|d r IH]; intros a k N K; simpl in K; [lia|].
  destruct (nonneg_tl _ _ N) as [D Nr].
  destruct (Z_lt_ge_dec k (a + d)) as [Lt|Ge].
  - exists 0%nat. simpl. split; [lia | unfold in_slice; lia].
  - destruct (IH (a + d) k Nr) as [i [Li Sl]]; [lia|]. exists (S i). simpl. split; [lia | exact Sl].
Qed.

Lemma slices_spec (dims : list Z) : nonneg dims ->
  let adrs := layout dims in
  length adrs = length dims /\
  (forall i : nat, (i < length dims)%nat ->
     0 <= nth i adrs 0 /\ nth i adrs 0 + nth i dims 0 <= nsensordata dims) /\
  (forall (i j : nat) (k : Z), (i < length dims)%nat -> (j < length dims)%nat -> i <> j ->
     in_slice (nth i adrs 0) (nth i dims 0) k -> ~ in_slice (nth j adrs 0) (nth j dims 0) k) /\
  (forall k : Z, 0 <= k < nsensordata dims ->
     exists i : nat, (i < length dims)%nat /\ in_slice (nth i adrs 0) (nth i dims 0) k).
Proof.
  intros N adrs. unfold adrs, layout. rewrite nsensordata_zsum. repeat split.
  - apply layout_from_length.
  - destruct (layout_bounds dims 0 i N H); lia.
  - destruct (layout_bounds dims 0 i N H); lia.
  - intros i j k Li Lj Ne Si Sj. unfold in_slice in *.
    destruct (Nat.lt_trichotomy i j) as [Lt|[E|Gt]]; [|contradiction|].
    + pose proof (layout_ordered dims 0 i j N Lt Lj). lia.
    + pose proof (layout_ordered dims 0 j i N Gt Li). lia.
  - intros k K. apply layout_cover; [exact N | lia].
Qed.

(* ================================================================== 2. writes and stages *)
Lemma nth_firstn_lt (A : Type) (l : list A) : forall (n k : nat) (d : A), (k < n)%nat ->
  nth k (firstn n l) d = nth k l d.
Proof.
  induction l as [|x r IH]; intros n k d L.
  - rewrite firstn_nil. reflexivity.
  - destruct n as [|n]; [lia|]. destruct k as [|k]; simpl; [reflexivity|]. apply IH. lia.
Qed.

Lemma nth_skipn_add (A : Type) (l : list A) : forall (n k : nat) (d : A),
  nth k (skipn n l) d = nth (n + k) l d.
Proof.
  induction l as [|x r IH]; intros n k d.
  - rewrite skipn_nil. destruct k, n; reflexivity.
  - destruct n as [|n]; simpl; [reflexivity|]. apply IH.
Qed.

Lemma write_length (A : Type) (data vals : list A) (adr : Z) :
  0 <= adr -> (Z.to_nat adr + length vals <= length data)%nat ->
  length (write data adr vals) = length data.
Proof.
  intros A0 L. unfold write. rewrite !app_length, firstn_length, skipn_length. lia.
Qed.

Lemma write_nth_out (A : Type) (data vals : list A) (adr : Z) (k : nat) (d : A) :
  0 <= adr -> (Z.to_nat adr + length vals <= length data)%nat ->
  (k < Z.to_nat adr \/ Z.to_nat adr + length vals <= k)%nat ->
  nth k (write data adr vals) d = nth k data d.
Proof.
  intros A0 L K. unfold write.
  assert (Lf : length (firstn (Z.to_nat adr) data) = Z.to_nat adr) by (rewrite firstn_length; lia).
  destruct K as [K|K].
  - rewrite app_nth1 by lia. apply nth_firstn_lt. exact K.
  - rewrite app_nth2 by lia. rewrite app_nth2 by lia. rewrite nth_skipn_add. f_equal. lia.
Qed.

Lemma write_nth_in (A : Type) (data vals : list A) (adr : Z) (k : nat) (d : A) :
  0 <= adr -> (Z.to_nat adr + length vals <= length data)%nat ->
  (Z.to_nat adr <= k < Z.to_nat adr + length vals)%nat ->
  nth k (write data adr vals) d = nth (k - Z.to_nat adr) vals d.
Proof.
  intros A0 L K. unfold write.
  assert (Lf : length (firstn (Z.to_nat adr) data) = Z.to_nat adr) by (rewrite firstn_length; lia).
  rewrite app_nth2 by lia. rewrite app_nth1 by lia. f_equal. lia.
Qed.

(* generalised invariant of a stage over the sensors i0, i0+1, ... laid out from address a *)
Lemma stage_frame_gen (A : Type) (sel : nat -> bool) (compute : nat -> list A -> list A) (dflt : A)
      (dims : list Z) :
  forall (a : Z) (i0 : nat) (data : list A),
    nonneg dims -> 0 <= a -> a + zsum dims <= Z.of_nat (length data) ->
    (forall (i : nat) (dat : list A), length (compute (i0 + i)%nat dat) = Z.to_nat (nth i dims 0)) ->
    let out := stage sel compute (layout_from a dims) i0 data in
    length out = length data /\
    forall k : nat,
      (Z.of_nat k < a \/ a + zsum dims <= Z.of_nat k \/
       exists j : nat, (j < length dims)%nat /\ sel (i0 + j)%nat = false /\
                       in_slice (nth j (layout_from a dims) 0) (nth j dims 0) (Z.of_nat k)) ->
      nth k out dflt = nth k data dflt.
Proof.
  induction dims as [|d r IH]; intros a i0 data N A0 Fit C out.
  - simpl in out. split; [reflexivity | intros; reflexivity].
  - destruct (nonneg_tl _ _ N) as [D Nr]. pose proof (zsum_nonneg _ Nr) as Z0.
    simpl in Fit. simpl in out.
    set (data1 := if sel i0 then write data a (compute i0 data) else data) in *.
    assert (Lc : length (compute i0 data) = Z.to_nat d).
    { specialize (C 0%nat data). rewrite Nat.add_0_r in C. exact C. }
    assert (Fw : (Z.to_nat a + length (compute i0 data) <= length data)%nat) by lia.
    assert (L1 : length data1 = length data).
    { unfold data1. destruct (sel i0); [apply write_length; assumption | reflexivity]. }
    assert (C1 : forall (i : nat) (dat : list A), length (compute (S i0 + i)%nat dat) = Z.to_nat (nth i r 0)).
    { intros i dat. specialize (C (S i) dat). simpl in C. rewrite Nat.add_succ_r in C. exact C. }
    destruct (IH (a + d) (S i0) data1 Nr ltac:(lia) ltac:(lia) C1) as [Lo Fr].
    fold out in Lo, Fr. split; [lia|].
    intros k K.
    assert (Out1 : forall kk : nat, (Z.of_nat kk < a \/ a + d <= Z.of_nat kk) -> nth kk data1 dflt = nth kk data dflt).
    { intros kk Hk. unfold data1. destruct (sel i0); [|reflexivity].
      apply write_nth_out; [assumption | assumption | lia]. }
    destruct K as [K|[K|[j [Lj [Sj Sl]]]]].
    + rewrite Fr by (left; lia). apply Out1. left; exact K.
    + simpl in K. rewrite Fr by (right; left; lia). apply Out1. right; lia.
    + destruct j as [|j].
      * rewrite Nat.add_0_r in Sj. simpl in Sl. unfold in_slice in Sl.
        rewrite Fr by (left; lia). unfold data1. rewrite Sj. reflexivity.
      * simpl in Sl. simpl in Lj. assert (Lj' : (j < length r)%nat) by lia.
        destruct (layout_bounds r (a + d) j Nr Lj') as [B1 B2]. unfold in_slice in Sl.
        rewrite Fr.
        -- apply Out1. right; lia.
        -- right; right. exists j. split; [exact Lj'|]. split; [|exact Sl].
           rewrite <- Sj. f_equal. lia.
Qed.

(* what a selected sensor wrote is still in its slice at the end of the stage *)
Lemma stage_own_gen (A : Type) (sel : nat -> bool) (compute : nat -> list A -> list A) (dflt : A)
      (dims : list Z) :
  forall (a : Z) (i0 : nat) (data : list A),
    nonneg dims -> 0 <= a -> a + zsum dims <= Z.of_nat (length data) ->
    (forall (i : nat) (dat : list A), length (compute (i0 + i)%nat dat) = Z.to_nat (nth i dims 0)) ->
    forall j : nat, (j < length dims)%nat -> sel (i0 + j)%nat = true ->
      exists dat : list A, length dat = length data /\
        forall k : nat, in_slice (nth j (layout_from a dims) 0) (nth j dims 0) (Z.of_nat k) ->
          nth k (stage sel compute (layout_from a dims) i0 data) dflt =
          nth (k - Z.to_nat (nth j (layout_from a dims) 0)) (compute (i0 + j)%nat dat) dflt.
Proof.
  induction dims as [|d r IH]; intros a i0 data N A0 Fit C j Lj Sj; [simpl in Lj; lia|].
  destruct (nonneg_tl _ _ N) as [D Nr]. pose proof (zsum_nonneg _ Nr) as Z0.
  simpl in Fit.
  assert (Lc : length (compute i0 data) = Z.to_nat d).
  { specialize (C 0%nat data). rewrite Nat.add_0_r in C. exact C. }
  assert (Fw : (Z.to_nat a + length (compute i0 data) <= length data)%nat) by lia.
  assert (C1 : forall (i : nat) (dat : list A), length (compute (S i0 + i)%nat dat) = Z.to_nat (nth i r 0)).
  { intros i dat. specialize (C (S i) dat). simpl in C. rewrite Nat.add_succ_r in C. exact C. }
  simpl stage.
  set (data1 := if sel i0 then write data a (compute i0 data) else data) in *.
  assert (L1 : length data1 = length data).
  { unfold data1. destruct (sel i0); [apply write_length; assumption | reflexivity]. }
  destruct j as [|j].
  - rewrite Nat.add_0_r in Sj. exists data. split; [reflexivity|]. intros k Sl.
    simpl in Sl. unfold in_slice in Sl. simpl nth. rewrite Nat.add_0_r.
    destruct (stage_frame_gen A sel compute dflt r (a + d) (S i0) data1 Nr ltac:(lia) ltac:(lia) C1) as [_ Fr].
    rewrite Fr by (left; lia). unfold data1. rewrite Sj.
    apply write_nth_in; [assumption | assumption | lia].
  - simpl in Lj. assert (Lj' : (j < length r)%nat) by lia.
    assert (Sj' : sel (S i0 + j)%nat = true) by (rewrite <- Sj; f_equal; lia).
    destruct (IH (a + d) (S i0) data1 Nr ltac:(lia) ltac:(lia) C1 j Lj' Sj') as [dat [Ld Hd]].
    exists dat. split; [lia|]. intros k Sl. simpl in Sl. simpl nth.
    rewrite (Hd k Sl). f_equal. f_equal. lia.
Qed.

Lemma stage_spec (A : Type) (sel : nat -> bool) (compute : nat -> list A -> list A) (dflt : A)
      (dims : list Z) (data : list A) :
  nonneg dims -> Z.of_nat (length data) = nsensordata dims ->
  (forall (i : nat) (dat : list A), length (compute i dat) = Z.to_nat (nth i dims 0)) ->
  let out := stage sel compute (layout dims) 0 data in
  length out = length data /\
  (forall (j k : nat), (j < length dims)%nat -> sel j = false ->
     in_slice (nth j (layout dims) 0) (nth j dims 0) (Z.of_nat k) -> nth k out dflt = nth k data dflt) /\
  (forall j : nat, (j < length dims)%nat -> sel j = true ->
     exists dat : list A, length dat = length data /\
       forall k : nat, in_slice (nth j (layout dims) 0) (nth j dims 0) (Z.of_nat k) ->
         nth k out dflt = nth (k - Z.to_nat (nth j (layout dims) 0)) (compute j dat) dflt).
Proof.
  intros N L C out. rewrite nsensordata_zsum in L.
  destruct (stage_frame_gen A sel compute dflt dims 0 0%nat data N ltac:(lia) ltac:(lia) C) as [Lo Fr].
  split; [exact Lo|]. split.
  - intros j k Lj Sj Sl. apply Fr. right; right. exists j. auto.
  - intros j Lj Sj. apply (stage_own_gen A sel compute dflt dims 0 0%nat data N ltac:(lia) ltac:(lia) C j Lj Sj).
Qed.

Close Scope Z_scope.

(* ================================================================== 3. cutoff (over R) *)
Open Scope R_scope.

Lemma clip_spec (x c : R) : 0 < c ->
  - c <= clip x (- c) c <= c /\ (x < - c -> clip x (- c) c = - c) /\
  (- c <= x <= c -> clip x (- c) c = x) /\ (c < x -> clip x (- c) c = c).
Proof.
  intros C. unfold clip. num_R.
  destruct (Rltb x (- c)) eqn:E1; [apply Rltb_true in E1 | apply Rltb_false in E1];
  [|destruct (Rltb c x) eqn:E2; [apply Rltb_true in E2 | apply Rltb_false in E2]];
  repeat split; intros; try lra.
Qed.

Lemma minc_spec (x c : R) : 0 < c ->
  minc c x <= c /\ (x <= c -> minc c x = x) /\ (c < x -> minc c x = c) /\ (0 <= x -> 0 <= minc c x <= c).
Proof.
  intros C. unfold minc. num_R.
  destruct (Rleb c x) eqn:E; [apply Rleb_true in E | apply Rleb_false in E]; repeat split; intros; try lra.
Qed.

Lemma Forall2_map_r (A B : Type) (f : A -> B) (P : A -> B -> Prop) (l : list A) :
  (forall x : A, P x (f x)) -> Forall2 P l (map f l).
Proof. intros Hf. induction l; simpl; constructor; auto. Qed.

Lemma map_fix (A : Type) (f : A -> A) (l : list A) : (forall x : A, f (f x) = f x) -> map f (map f l) = map f l.
Proof. intros Hf. rewrite map_map. apply map_ext. exact Hf. Qed.

Lemma cut1_idem (c : R) (dt : Z) (x : R) : 0 < c -> cut1 c dt (cut1 c dt x) = cut1 c dt x.
Proof.
  intros C. unfold cut1. destruct (Z.eqb dt DT_REAL); [|destruct (Z.eqb dt DT_POSITIVE)]; [| |reflexivity].
  - destruct (clip_spec x c C) as [B _]. destruct (clip_spec (clip x (- c) c) c C) as [_ [_ [I _]]]. apply I. exact B.
  - destruct (minc_spec x c C) as [B _]. destruct (minc_spec (minc c x) c C) as [_ [I _]]. apply I. exact B.
Qed.

Lemma cutoff_spec (c : R) (exempt : bool) (dt : Z) (data : list R) :
  let out := apply_cutoff c exempt dt data in
  length out = length data /\
  (c <= 0 -> out = data) /\
  (exempt = true -> out = data) /\
  (dt <> 0%Z -> dt <> 1%Z -> out = data) /\
  (0 < c -> exempt = false -> dt = 0%Z ->
     Forall2 (fun x y : R => - c <= y <= c /\ (x < - c -> y = - c) /\ (- c <= x <= c -> y = x) /\ (c < x -> y = c)) data out) /\
  (0 < c -> exempt = false -> dt = 1%Z ->
     Forall2 (fun x y : R => y <= c /\ (x <= c -> y = x) /\ (c < x -> y = c) /\ (0 <= x -> 0 <= y <= c)) data out) /\
  apply_cutoff c exempt dt out = out.
Proof.
  intros out. unfold out, apply_cutoff. num_R.
  destruct (Rleb c 0) eqn:E; [apply Rleb_true in E | apply Rleb_false in E].
  { repeat split; intros; try reflexivity; lra. }
  destruct exempt.
  { repeat split; intros; try reflexivity; try discriminate; lra. }
  split; [apply map_length|]. split; [intros; lra|]. split; [intros; discriminate|].
  split.
  { intros N0 N1. rewrite <- (map_id data) at 2. apply map_ext. intros x. unfold cut1, DT_REAL, DT_POSITIVE.
    destruct (Z.eqb_spec dt 0); [contradiction|]. destruct (Z.eqb_spec dt 1); [contradiction|]. reflexivity. }
  split.
  { intros _ _ ->. apply Forall2_map_r. intros x. unfold cut1. simpl. apply clip_spec. exact E. }
  split.
  { intros _ _ ->. apply Forall2_map_r. intros x. unfold cut1. simpl. apply minc_spec. exact E. }
  apply map_fix. intros x. apply cut1_idem. exact E.
Qed.

(* ================================================================== 4. reference frames (over R) *)
Lemma mulMatTVec3_transpose (M : mat3 R) (v : vec3 R) : mulMatTVec3 M v = mulMatVec3 (transpose3 M) v.
Proof. destruct M as [[[[[[[[m0 m1] m2] m3] m4] m5] m6] m7] m8]. dv v. reflexivity. Qed.

Lemma quat2Mat_neg (q : quat R) : quat2Mat (negQuat q) = transpose3 (quat2Mat q).
Proof.
  rewrite !quat2Mat_is_reg. dq q. unfold negQuat, quat2Mat_reg, transpose3. nR. apply mat_ext; ring.
Qed.

(* projecting with xmat_ref^T is rotating with the inverse quaternion *)
Lemma mulMatTVec3_quat (q : quat R) (v : vec3 R) : unitq q ->
  mulMatTVec3 (quat2Mat q) v = rotVecQuat_i v (negQuat q).
Proof.
  intros U. rewrite mulMatTVec3_transpose, <- quat2Mat_neg.
  symmetry. apply rotVecQuat_i_mat. apply unitq_neg. exact U.
Qed.

Lemma sub3_add3 (a b : vec3 R) : add3 (sub3 a b) b = a.
Proof. dv a; dv b. unfold add3, sub3. nR. apply vec_ext; ring. Qed.
Lemma add3_sub3 (a b : vec3 R) : sub3 (add3 a b) b = a.
Proof. dv a; dv b. unfold add3, sub3. nR. apply vec_ext; ring. Qed.

(* the FRAMEPOS reading is the action of the inverse reference pose *)
Lemma frame_pos_negPose (x pr : vec3 R) (q : quat R) : unitq q ->
  frame_pos_ref x pr (quat2Mat q) = trnVecPose (negPose (pr, q)) x.
Proof.
  intros U. unfold frame_pos_ref. rewrite mulMatTVec3_quat by exact U.
  unfold trnVecPose, negPose.
  rewrite !rotVecQuat_i_is_reg. dv x; dv pr; dq q.
  unfold sub3, add3, scl3, rotVecQuat_reg, negQuat. nR. apply vec_ext; ring.
Qed.

Lemma frame_pos_inverse (x y pr : vec3 R) (q : quat R) : unitq q ->
  trnVecPose (pr, q) (frame_pos_ref x pr (quat2Mat q)) = x /\
  frame_pos_ref (trnVecPose (pr, q) y) pr (quat2Mat q) = y.
Proof.
  intros U. split.
  - unfold frame_pos_ref. rewrite mulMatTVec3_quat by exact U. unfold trnVecPose.
    rewrite rot_neg_r by exact U. apply sub3_add3.
  - unfold frame_pos_ref, trnVecPose. rewrite add3_sub3. rewrite mulMatTVec3_quat by exact U.
    apply rot_neg_l. exact U.
Qed.

Lemma frame_quat_spec (qobj qref : quat R) : unitq qref ->
  mulQuat qref (frame_quat_ref qobj qref) = qobj /\
  (forall r : quat R, mulQuat qref r = qobj -> r = frame_quat_ref qobj qref) /\
  quat2Mat (frame_quat_ref qobj qref) = mulMatMat3 (transpose3 (quat2Mat qref)) (quat2Mat qobj) /\
  (unitq qobj -> unitq (frame_quat_ref qobj qref)).
Proof.
  intros U. destruct (negQuat_inverse qref U) as [I1 I2]. unfold frame_quat_ref. repeat split.
  - rewrite <- mulQuat_assoc, I1. apply mulQuat_id_l.
  - intros r <-. rewrite <- mulQuat_assoc, I2. symmetry. apply mulQuat_id_l.
  - rewrite quat2Mat_mul, quat2Mat_neg. reflexivity.
  - intros Uo. apply unitq_mul; [apply unitq_neg; exact U | exact Uo].
Qed.

(* the axis sensors report the columns of the relative rotation reported by FRAMEQUAT *)
Lemma frame_axis_spec (qobj qref : quat R) (offset : Z) :
  frame_axis_ref (quat2Mat qobj) offset (quat2Mat qref) =
  mat_col (quat2Mat (frame_quat_ref qobj qref)) offset.
Proof.
  unfold frame_quat_ref. rewrite quat2Mat_mul, quat2Mat_neg.
  generalize (quat2Mat qobj) (quat2Mat qref). intros Mo Mr.
  destruct Mo as [[[[[[[[a0 a1] a2] a3] a4] a5] a6] a7] a8].
  destruct Mr as [[[[[[[[b0 b1] b2] b3] b4] b5] b6] b7] b8].
  unfold frame_axis_ref, mat_col, transpose3, mulMatMat3, mulMatTVec3.
  destruct (Z.eqb offset 0); [|destruct (Z.eqb offset 1)]; nR; apply vec_ext; ring.
Qed.

(* product rule: with Rdot = [ang_ref]x R the time derivative of R^T (x - x_ref) along
   xdot = lin, x_refdot = lin_ref is the FRAMELINVEL reading; the angular reading is R^T (ang - ang_ref) *)
Lemma frame_vel_product_rule (x xr : vec3 R) (Rm : mat3 R) (ang lin angr linr : vec3 R) :
  snd (frame_vel_ref x xr Rm ang lin angr linr) =
    add3 (mulMatTVec3 (mulMatMat3 (skew angr) Rm) (sub3 x xr)) (mulMatTVec3 Rm (sub3 lin linr)) /\
  fst (frame_vel_ref x xr Rm ang lin angr linr) = mulMatTVec3 Rm (sub3 ang angr).
Proof.
  split; [|reflexivity].
  destruct Rm as [[[[[[[[m0 m1] m2] m3] m4] m5] m6] m7] m8].
  dv x; dv xr; dv ang; dv lin; dv angr; dv linr.
  unfold frame_vel_ref, skew, mulMatMat3, mulMatTVec3, add3, sub3, cross, snd. nR. apply vec_ext; ring.
Qed.

(* non-vacuity *)
Lemma cutoff_example :
  apply_cutoff 2 false 0%Z [3; -5; 1] = [2; -2; 1] /\ apply_cutoff 2 false 1%Z [3; -5; 1] = [2; -5; 1] /\
  apply_cutoff 2 true 0%Z [3; -5; 1] = [3; -5; 1] /\ apply_cutoff 2 false 3%Z [3; -5; 1] = [3; -5; 1].
Proof.
  unfold apply_cutoff, cut1, clip, minc, DT_REAL, DT_POSITIVE. num_R. simpl.
  repeat match goal with
  | |- context [Rleb ?a ?b] => let E := fresh in destruct (Rleb a b) eqn:E;
        [apply Rleb_true in E | apply Rleb_false in E]; try lra
  | |- context [Rltb ?a ?b] => let E := fresh in destruct (Rltb a b) eqn:E;
        [apply Rltb_true in E | apply Rltb_false in E]; try lra
  end; repeat split; reflexivity.
Qed.
