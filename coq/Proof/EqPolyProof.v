(* Proofs at R about Model/EqPoly.v (C07, constraint rows of joint / tendon equalities). *)
From Coq Require Import ZArith List PrimFloat Reals Lra.
From Coquelicot Require Import Coquelicot.
From MJV Require Import Lib.Num Lib.NumR Model.EqPoly.
Open Scope R_scope.

(* derivative of the constraint position with respect to the position of the second object *)
Lemma eqPos_derive_second (c0 c1 c2 c3 c4 pos0 ref0 ref1 x : R) :
  is_derive (fun t : R => eqPos c0 c1 c2 c3 c4 pos0 ref0 t ref1) x (- eqDeriv c1 c2 c3 c4 x ref1).
Proof. unfold eqPos, eqDeriv. num_R. auto_derive; [exact I | ring]. Qed.

(* chain rule: when the two object positions depend on a coordinate with derivatives d0 and d1 (the entries of
   their Jacobian rows), the constraint position has the derivative d0 + d1 * (-deriv): the entry eqRow writes *)
Lemma eqPos_chain (c0 c1 c2 c3 c4 ref0 ref1 : R) (f0 f1 : R -> R) (x d0 d1 : R) :
  is_derive f0 x d0 -> is_derive f1 x d1 ->
  is_derive (fun t : R => eqPos c0 c1 c2 c3 c4 (f0 t) ref0 (f1 t) ref1) x
            (d0 + d1 * (- eqDeriv c1 c2 c3 c4 (f1 x) ref1)).
Proof.
  intros A B. unfold eqPos, eqDeriv. num_R.
  auto_derive.
  - repeat split; try exact I; eexists; eassumption.
  - replace (Derive (fun x0 : R => f0 x0) x) with d0 by (symmetry; apply is_derive_unique; exact A).
    replace (Derive (fun x0 : R => f1 x0) x) with d1 by (symmetry; apply is_derive_unique; exact B).
    ring.
Qed.

Lemma eqRow_nth (jac0 : list R) : forall (jac1 : list R) (deriv : R) (k : nat),
  length jac1 = length jac0 ->
  nth k (eqRow jac0 jac1 deriv) 0 = nth k jac0 0 + nth k jac1 0 * (- deriv).
Proof.
  induction jac0 as [|a r IH]; intros [|b s] deriv k E; try discriminate E.
  - destruct k; simpl; ring.
  - destruct k as [|k]; cbn [eqRow nth]; num_R; [reflexivity|]. apply IH. simpl in E. congruence.
Qed.

(* every entry of the row written into efc_J is the derivative of the constraint position along that coordinate *)
Lemma eq_poly_row (c0 c1 c2 c3 c4 ref0 ref1 : R) (jac0 jac1 : list R) (k : nat) (f0 f1 : R -> R) (x : R) :
  length jac1 = length jac0 ->
  is_derive f0 x (nth k jac0 0) -> is_derive f1 x (nth k jac1 0) ->
  is_derive (fun t : R => eqPos c0 c1 c2 c3 c4 (f0 t) ref0 (f1 t) ref1) x
            (nth k (eqRow jac0 jac1 (eqDeriv c1 c2 c3 c4 (f1 x) ref1)) 0).
Proof. intros E A B. rewrite eqRow_nth by assumption. apply eqPos_chain; assumption. Qed.
