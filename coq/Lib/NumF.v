(* the instance of Num / NumT at IEEE binary64 (PrimFloat), used to RUN kernels; elementary
   functions come from the unverified Lib/FloatFn.v *)
From Coq Require Import ZArith List PrimFloat.
From MJV Require Import Lib.Num Lib.FloatFn.

#[export] Instance NumF : Num float := {
  nzero := 0%float; none := 1%float;
  nadd := PrimFloat.add; nsub := PrimFloat.sub; nmul := PrimFloat.mul; ndiv := PrimFloat.div;
  nopp := PrimFloat.opp; nsqrt := PrimFloat.sqrt; nabs := PrimFloat.abs;
  nleb := PrimFloat.leb; nltb := PrimFloat.ltb; neqb := PrimFloat.eqb;
  nofZ := f_of_Z; ndec := f_dec
}.

#[export] Instance NumTF : NumT float := {
  nsin := fsin; ncos := fcos; ntan := ftan; natan2 := fatan2; nacos := facos; nasin := fasin;
  nexp := fexp; nlog := flog; ntanh := ftanh; npi := fpi
}.

(* comparison helpers for correspondence checkers *)
Definition fclose (tol : float) (a b : float) : bool :=
  let d := PrimFloat.abs (PrimFloat.sub a b) in
  let sc := PrimFloat.add 1 (PrimFloat.add (PrimFloat.abs a) (PrimFloat.abs b)) in
  orb (PrimFloat.leb d (PrimFloat.mul tol sc))
      (orb (andb (negb (PrimFloat.eqb a a)) (negb (PrimFloat.eqb b b)))      (* both NaN *)
           (PrimFloat.eqb a b)).                                             (* equal infinities *)
Fixpoint fclose_list (tol : float) (l1 l2 : list float) : bool :=
  match l1, l2 with
  | nil, nil => true
  | cons a r1, cons b r2 => andb (fclose tol a b) (fclose_list tol r1 r2)
  | _, _ => false
  end.
Definition fbits_eq (a b : float) : bool :=
  orb (andb (PrimFloat.eqb a b) (Bool.eqb (PrimFloat.ltb (PrimFloat.div 1 a) 0) (PrimFloat.ltb (PrimFloat.div 1 b) 0)))
      (andb (negb (PrimFloat.eqb a a)) (negb (PrimFloat.eqb b b))).
