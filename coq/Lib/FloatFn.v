(* UNVERIFIED float implementations of elementary functions, used only on the executable side of
   numeric correspondence (never in a theorem).  Accuracy ~1e-15 relative on moderate arguments. *)
From Coq Require Import ZArith List Bool PrimFloat Uint63.
Import ListNotations.
Open Scope float_scope.

Definition f_of_Z (z : Z) : float :=
  match z with
  | Z0 => 0
  | Zpos p => of_uint63 (Uint63.of_Z (Zpos p))
  | Zneg p => - of_uint63 (Uint63.of_Z (Zpos p))
  end.

Fixpoint fpow_pos (b : float) (p : positive) : float :=
  match p with
  | xH => b
  | xO q => let r := fpow_pos b q in r * r
  | xI q => let r := fpow_pos b q in b * (r * r)
  end.

Definition f_dec (m e : Z) : float :=
  match e with
  | Z0 => f_of_Z m
  | Zpos p => f_of_Z m * fpow_pos 10 p
  | Zneg p => f_of_Z m / fpow_pos 10 p
  end.

Definition fpi : float := 0x1.921fb54442d18p+1.
Definition fpio2_hi : float := 0x1.921fb54442d18p+0.
Definition fpio2_lo : float := 0x1.1a62633145c07p-54.
Definition fln2 : float := 0x1.62e42fefa39efp-1.
Definition fln2_lo : float := 0x1.abc9e3b39803fp-56.

(* round to nearest integer as float (|x| < 2^51) *)
Definition fround (x : float) : float :=
  let big := 0x1.8p+52 in (x + big) - big.

(* Horner evaluation of sum c_i y^i *)
Definition horner (cs : list float) (y : float) : float :=
  fold_right (fun c acc => c + y * acc) 0 cs.

Definition sin_coefs : list float :=   (* sin r = r * P(r^2) *)
  [1; -0x1.5555555555555p-3; 0x1.1111111111111p-7; -0x1.a01a01a01a01ap-13; 0x1.71de3a556c734p-19;
   -0x1.ae64567f544e4p-26; 0x1.6124613a86d09p-33; -0x1.ae7f3e733b81fp-41; 0x1.952c77030ad4ap-49].
Definition cos_coefs : list float :=   (* cos r = Q(r^2) *)
  [1; -0x1p-1; 0x1.5555555555555p-5; -0x1.6c16c16c16c17p-10; 0x1.a01a01a01a01ap-16;
   -0x1.27e4fb7789f5cp-22; 0x1.1eed8eff8d898p-29; -0x1.93974a8c07c9dp-37; 0x1.ae7f3e733b81fp-45;
   -0x1.6827863b97d97p-53].

Definition ksin (r : float) : float := r * horner sin_coefs (r * r).
Definition kcos (r : float) : float := horner cos_coefs (r * r).

Definition f_to_Z_round (x : float) : Z :=    (* x integral valued, |x| < 2^62 *)
  let a := abs x in
  let (m, e) := frshiftexp a in
  let mz := Uint63.to_Z (normfr_mantissa m) in      (* m = mz / 2^53 *)
  let ez := (Uint63.to_Z e - 2101)%Z in             (* frshiftexp adds shift = 2101 *)
  let v := (if (0 <=? ez - 53)%Z then mz * 2 ^ (ez - 53) else mz / 2 ^ (53 - ez))%Z in
  if x <? 0 then (- v)%Z else v.

(* reduction x = k*(pi/2) + r, |r| <= pi/4 ; returns (k mod 4, r) *)
Definition reduce (x : float) : Z * float :=
  let k := fround (x * 0x1.45f306dc9c883p-1) in   (* 2/pi *)
  let r := (x - k * fpio2_hi) - k * fpio2_lo in
  (Z.modulo (f_to_Z_round k) 4, r).

Definition fsin (x : float) : float :=
  if abs x <? 0x1p-27 then x else
  let (k, r) := reduce x in
  match k with
  | 0%Z => ksin r | 1%Z => kcos r | 2%Z => - ksin r | _ => - kcos r
  end.
Definition fcos (x : float) : float :=
  let (k, r) := reduce x in
  match k with
  | 0%Z => kcos r | 1%Z => - ksin r | 2%Z => - kcos r | _ => ksin r
  end.
Definition ftan (x : float) : float := fsin x / fcos x.

(* atan on [0, tan(pi/8)] by series *)
Fixpoint atan_series (n : nat) (k : float) (y : float) (acc : float) : float :=
  (* acc + sum_{i} (-1)^i y^i/(2i+1) evaluated by Horner from the top: computed in atan_small *)
  match n with O => acc | S m => atan_series m (k - 2) y (1 / k - y * acc) end.
Definition atan_small (x : float) : float :=
  let y := x * x in
  x * atan_series 26 51 y (1 / 53).
Definition atan_pos (x : float) : float :=       (* x >= 0 *)
  if 0x1.3504f333f9de6p+1 <? x then               (* x > tan(3pi/8) = 2.414 *)
    fpio2_hi - atan_small (1 / x)
  else if 0x1.a827999fcef32p-2 <? x then          (* x > tan(pi/8) = 0.4142 *)
    fpio2_hi / 2 + atan_small ((x - 1) / (x + 1))
  else atan_small x.
Definition fatan (x : float) : float := if x <? 0 then - atan_pos (- x) else atan_pos x.
Definition fsignbit (x : float) : bool := (1 / x) <? 0.
Definition fatan2 (y x : float) : float :=
  if (x =? 0) && (y =? 0) then
    (if fsignbit x then (if fsignbit y then - fpi else fpi) else y)
  else if abs y <? abs x then
    let a := fatan (y / x) in
    if 0 <? x then a else if (y <? 0) || ((y =? 0) && fsignbit y) then a - fpi else a + fpi
  else
    let a := fatan (x / y) in
    if 0 <? y then fpio2_hi - a else - fpio2_hi - a.
Definition facos (x : float) : float := fatan2 (PrimFloat.sqrt ((1 - x) * (1 + x))) x.
Definition fasin (x : float) : float := fatan2 x (PrimFloat.sqrt ((1 - x) * (1 + x))).

(* exp: x = k ln2 + r *)
Fixpoint exp_series (n : nat) (k : float) (r : float) (acc : float) : float :=
  match n with O => acc | S m => exp_series m (k - 1) r (1 + r * acc / k) end.
Definition fpow2 (k : Z) : float :=
  match k with Z0 => 1 | Zpos p => fpow_pos 2 p | Zneg p => 1 / fpow_pos 2 p end.
Definition fexp (x : float) : float :=
  if 710 <? x then infinity else if x <? -745 then 0 else
  let k := fround (x / fln2) in
  let r := (x - k * fln2) - k * fln2_lo in
  let kz := f_to_Z_round k in
  let e := exp_series 18 18 r 1 in
  (* split the scaling to avoid overflow of 2^k for |k| near 1024 *)
  let h := (kz / 2)%Z in
  e * fpow2 h * fpow2 (kz - h).
Fixpoint log_series (n : nat) (k : float) (s2 : float) (acc : float) : float :=
  match n with O => acc | S m => log_series m (k - 2) s2 (1 / k + s2 * acc) end.
Definition flog (x : float) : float :=
  if x <? 0 then nan else if x =? 0 then neg_infinity else if x =? infinity then infinity else
  let (m, e) := frshiftexp x in                 (* x = m * 2^ez, m in [0.5,1) *)
  let ez := (Uint63.to_Z e - 2101)%Z in
  let '(m2, e2) := if m <? 0x1.6a09e667f3bcdp-1 then (m * 2, (ez - 1)%Z) else (m, ez) in
  let s := (m2 - 1) / (m2 + 1) in
  let l := 2 * s * log_series 15 29 (s * s) (1 / 31) in
  f_of_Z e2 * fln2 + (l + f_of_Z e2 * fln2_lo).
Definition ftanh (x : float) : float :=
  if 20 <? x then 1 else if x <? -20 then -1 else
  let e := fexp (2 * x) in (e - 1) / (e + 1).
