(* boolean equalities used by the correspondence checkers (executable side only) *)
From Coq Require Import List ZArith Bool.
Import ListNotations.
Open Scope Z_scope.

Fixpoint list_eqb {A} (eqb : A -> A -> bool) (l1 l2 : list A) : bool :=
  match l1, l2 with
  | [], [] => true
  | x :: r1, y :: r2 => eqb x y && list_eqb eqb r1 r2
  | _, _ => false
  end.
Definition zz_eqb (a b : Z * Z) : bool := (fst a =? fst b) && (snd a =? snd b).
Definition zlist_eqb := list_eqb Z.eqb.
Definition zzlist_eqb := list_eqb zz_eqb.
Definition tagged (l : list Z) : list (Z * Z) := combine l (map Z.of_nat (seq 0 (length l))).
Definition opt_eqb {A} (eqb : A -> A -> bool) (a b : option A) : bool :=
  match a, b with Some x, Some y => eqb x y | None, None => true | _, _ => false end.
