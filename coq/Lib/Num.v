(* Numeric signature shared by the real-valued kernels: every kernel is written once over [Num T]
   and instantiated at R (where theorems are proved) and at PrimFloat.float (where it is run
   against the C / Python implementation).  Field names carry the prefix n to avoid clashes with
   PrimFloat's add/zero/... *)
From Coq Require Import ZArith List.
Import ListNotations.

Class Num (T : Type) := {
  nzero : T; none : T;
  nadd : T -> T -> T; nsub : T -> T -> T; nmul : T -> T -> T; ndiv : T -> T -> T;
  nopp : T -> T; nsqrt : T -> T; nabs : T -> T;
  nleb : T -> T -> bool; nltb : T -> T -> bool; neqb : T -> T -> bool;
  nofZ : Z -> T;                      (* integer constant *)
  ndec : Z -> Z -> T                  (* ndec m e = m * 10^e, exact for |e| <= 22 at float *)
}.

(* transcendental extension *)
Class NumT (T : Type) `{Num T} := {
  nsin : T -> T; ncos : T -> T; ntan : T -> T; natan2 : T -> T -> T; nacos : T -> T; nasin : T -> T;
  nexp : T -> T; nlog : T -> T; ntanh : T -> T; npi : T
}.

#[global] Hint Mode Num ! : typeclass_instances.
#[global] Hint Mode NumT ! - : typeclass_instances.

Declare Scope num_scope.
Delimit Scope num_scope with num.
Infix "+" := nadd : num_scope.
Infix "-" := nsub : num_scope.
Infix "*" := nmul : num_scope.
Infix "/" := ndiv : num_scope.
Notation "- x" := (nopp x) : num_scope.
Infix "<=?" := nleb : num_scope.
Infix "<?" := nltb : num_scope.
Infix "=?" := neqb : num_scope.

Section Generic.
Context {T : Type} `{Num T}.
Local Open Scope num_scope.
Definition ntwo : T := nofZ 2.
Definition nhalf : T := ndec 5 (-1).
Definition nmax (a b : T) : T := if a <? b then b else a.     (* mju_max: (a > b ? a : b) differs only on NaN *)
Definition nmin (a b : T) : T := if a <? b then a else b.
Definition nsq (a : T) : T := a * a.
Definition nsum (l : list T) : T := fold_left nadd l nzero.
Definition ndot (a b : list T) : T := fold_left (fun s p => s + fst p * snd p) (combine a b) nzero.
Definition nclip (x lo hi : T) : T := nmax lo (nmin x hi).
End Generic.
