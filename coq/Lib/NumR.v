(* the instance of Num / NumT at Coq's real numbers (used for proofs) *)
From Coq Require Import ZArith Reals List Lra.
From MJV Require Import Lib.Num.
Open Scope R_scope.

Definition Rleb (a b : R) : bool := if Rle_dec a b then true else false.
Definition Rltb (a b : R) : bool := if Rlt_dec a b then true else false.
Definition Reqb (a b : R) : bool := if Req_EM_T a b then true else false.

Lemma Rleb_true a b : Rleb a b = true <-> a <= b.
Proof. unfold Rleb. destruct (Rle_dec a b); split; intros; try discriminate; auto; contradiction. Qed.
Lemma Rleb_false a b : Rleb a b = false <-> b < a.
Proof. unfold Rleb. destruct (Rle_dec a b); split; intros; try discriminate; try lra; auto. Qed.
Lemma Rltb_true a b : Rltb a b = true <-> a < b.
Proof. unfold Rltb. destruct (Rlt_dec a b); split; intros; try discriminate; auto; contradiction. Qed.
Lemma Rltb_false a b : Rltb a b = false <-> b <= a.
Proof. unfold Rltb. destruct (Rlt_dec a b); split; intros; try discriminate; try lra; auto. Qed.
Lemma Reqb_true a b : Reqb a b = true <-> a = b.
Proof. unfold Reqb. destruct (Req_EM_T a b); split; intros; try discriminate; auto; contradiction. Qed.
Lemma Reqb_false a b : Reqb a b = false <-> a <> b.
Proof. unfold Reqb. destruct (Req_EM_T a b); split; intros; try discriminate; auto; contradiction. Qed.

Definition Rdec (m e : Z) : R :=
  match e with
  | Z0 => IZR m
  | Zpos p => IZR m * IZR (Z.pow 10 (Zpos p))
  | Zneg p => IZR m / IZR (Z.pow 10 (Zpos p))
  end.

(* atan2 with the C convention (result in (-PI, PI]) *)
Definition Ratan2 (y x : R) : R :=
  if Rlt_dec 0 x then atan (y / x)
  else if Rlt_dec x 0 then (if Rle_dec 0 y then atan (y / x) + PI else atan (y / x) - PI)
  else if Rlt_dec 0 y then PI / 2 else if Rlt_dec y 0 then - PI / 2 else 0.

#[export] Instance NumR : Num R := {
  nzero := 0; none := 1; nadd := Rplus; nsub := Rminus; nmul := Rmult; ndiv := Rdiv;
  nopp := Ropp; nsqrt := sqrt; nabs := Rabs; nleb := Rleb; nltb := Rltb; neqb := Reqb;
  nofZ := IZR; ndec := Rdec
}.

#[export] Instance NumTR : NumT R := {
  nsin := sin; ncos := cos; ntan := tan; natan2 := Ratan2; nacos := acos; nasin := asin;
  nexp := exp; nlog := ln; ntanh := tanh; npi := PI
}.

(* unfolding helper: turns generic operations at R into the standard ones *)
Ltac num_R := cbn [nzero none nadd nsub nmul ndiv nopp nsqrt nabs nleb nltb neqb nofZ ndec NumR
                   nsin ncos ntan natan2 nacos nasin nexp nlog ntanh npi NumTR] in *.
