(* C07 — Kinematics and Jacobians are consistent with positions.
   Only statements, each closed by a lemma of Proof/KinematicsProof.v, followed by Print Assumptions.
   All statements are about Model/Kinematics.v (and Model/Spatial.v) instantiated at the real numbers;
   IEEE rounding is outside.  unitq q : |q|^2 = 1; unitv a : |a|^2 = 1; isRot m : m m^T = m^T m = I, det m = 1.

   Where mj_kinematics1 normalises (mju_normalize4, which leaves a quaternion untouched when its norm is
   within mjMINVAL = 1e-15 of 1 and maps a quaternion of norm < 1e-15 to the identity):
     the free-joint quaternion read from qpos, every ball-joint quaternion read from qpos, the mocap
     quaternion, and xquat once more at the end of every body.
   NOT normalised at run time: body_quat, jnt_axis (the compiler's job), the product of quaternions along a chain
   before the final normalisation. *)
From Coq Require Import ZArith List Bool Reals Lra.
From Coquelicot Require Import Coquelicot.
From MJV Require Import Lib.Num Lib.NumR Model.Spatial Proof.SpatialProof Model.Kinematics Proof.KinematicsProof.
From MJV Require Import Model.EqPoly Proof.EqPolyProof Model.LimitRow Proof.LimitRowProof.
Open Scope R_scope.

(* ---- frames, no hypothesis on the inputs: whenever the recursion returns (no mjERROR), one frame per body
   (world included), xmat is quat2Mat of xquat, the norm of xquat is within 1e-15 of 1, and xmat is
   orthogonal up to the corresponding power of that norm *)
Theorem C07_frames_any :
  forall (bs : list (body R)) (frs : list (frame R)) (jas : list (list (janchor R))),
    kinematics bs = Some (frs, jas) ->
    length frs = S (length bs) /\
    List.Forall (fun f : frame R => let '(_, q, m) := f in
              m = quat2Mat q /\ Rabs (sqrt (qnorm2 q) - 1) <= mjMINVAL /\
              mulMatMat3 m (transpose3 m) =
                (qnorm2 q * qnorm2 q, 0, 0, 0, qnorm2 q * qnorm2 q, 0, 0, 0, qnorm2 q * qnorm2 q) /\
              det3 m = qnorm2 q * qnorm2 q * qnorm2 q) frs.
Proof. exact frames_any. Qed.
Print Assumptions C07_frames_any.

(* ---- frames, unit inputs (goodBody: body_quat unit, mocap quaternion unit, ball / free quaternions of
   qpos unit, hinge axes unit): every xquat is exactly unit and xmat is a proper rotation.
   By induction over the bodies of ANY tree (any parent indices for which the recursion is defined). *)
Theorem C07_frames :
  forall (bs : list (body R)) (frs : list (frame R)) (jas : list (list (janchor R))),
    List.Forall goodBody bs -> kinematics bs = Some (frs, jas) ->
    List.Forall (fun f : frame R => let '(_, q, m) := f in unitq q /\ m = quat2Mat q /\ isRot m) frs.
Proof. exact frames_unit. Qed.
Print Assumptions C07_frames.

(* ---- inertial, geom, site and (fixed) camera frames: mj_local2Global returns a proper rotation for every
   sameframe code when the body frame is as above, the body's inertial orientation is a rotation and the
   local quaternion is unit *)
Theorem C07_local2Global :
  forall (fr : frame R) (ifr : vec3 R * mat3 R) (pos : vec3 R) (q : quat R) (sf : Z),
    frameUnit fr -> isRot (snd ifr) -> unitq q ->
    isRot (snd (local2Global fr ifr pos q sf)) /\ isRot (snd (inertialFrame fr pos q sf)).
Proof. exact local2Global_both. Qed.
Print Assumptions C07_local2Global.

(* ---- the recursion is defined (no mjERROR, every parent frame available) on well-formed trees:
   parent index < own index, a free joint is alone on its body *)
Theorem C07_kinematics_defined :
  forall bs : list (body R), wfTree 1 bs -> kinematics bs <> None.
Proof. exact kinematics_defined. Qed.
Print Assumptions C07_kinematics_defined.

(* ---- mj_differentiatePos inverts mj_integratePos: for every list of joint types, qpos / qvel of the
   matching sizes with unit quaternions (goodQV), h <> 0; exact for slide / hinge / free-translation
   coordinates, for ball / free-rotation coordinates under `principal h w`:
   |h| |w| <= pi and (h |w| = 0 or (|w| >= 1e-15 and |sin(h |w| / 2)| >= 1e-15)), the side conditions of
   C24_sub_integrate_partial (no mjMINVAL guard fires). *)
Theorem C07_diff_integrate :
  forall (js : list jtype) (qpos qvel : list R) (h : R),
    h <> 0 -> goodQV js qpos qvel h ->
    differentiatePos js h qpos (integratePos js qpos qvel h) = qvel /\
    length qvel = nv_of js /\ (nq_of js <= length qpos)%nat.
Proof. exact diff_integrate_full. Qed.
Print Assumptions C07_diff_integrate.

(* ---- what mj_comPos (cdof through mju_dofCom) followed by mj_jac writes, for ANY subtree_com as long as the
   same one is used in both (the com cancels): hinge: (xaxis x (point - xanchor), xaxis); slide: (xaxis, 0);
   ball (and the rotational dofs of a free joint): (body axis k) x (point - xanchor), body axis k *)
Theorem C07_jac_column_algebra :
  forall (xmat : mat3 R) (ja : janchor R) (com point : vec3 R),
    map (fun c : mvec R => jacCol c (sub3 point com)) (jointCdof JHinge xmat ja com) =
      ((cross (snd ja) (sub3 point (fst ja)), snd ja) :: nil) /\
    map (fun c : mvec R => jacCol c (sub3 point com)) (jointCdof JSlide xmat ja com) =
      ((snd ja, zero3) :: nil) /\
    map (fun c : mvec R => jacCol c (sub3 point com)) (jointCdof JBall xmat ja com) =
      (let '(m0, m1, m2, m3, m4, m5, m6, m7, m8) := xmat in
       (cross (m0, m3, m6) (sub3 point (fst ja)), (m0, m3, m6)) ::
       (cross (m1, m4, m7) (sub3 point (fst ja)), (m1, m4, m7)) ::
       (cross (m2, m5, m8) (sub3 point (fst ja)), (m2, m5, m8)) :: nil) /\
    (forall t : jtype, t = JHinge \/ t = JSlide ->
       map (fun c : mvec R => jacCol c (sub3 point com)) (jointCdof t xmat ja com) = (jacColJoint t ja com point :: nil)).
Proof. exact jac_column_algebra. Qed.
Print Assumptions C07_jac_column_algebra.

(* ---- the com in the point offset must be the com in cdof (subtree_com of the tree root, in mj_jac, mj_jacSparse and
   mj_jacSparseSimple alike): with any other com' the hinge column is off by xaxis x (com - com') *)
Theorem C07_jac_com_consistency :
  forall (xmat : mat3 R) (ja : janchor R) (com com' point : vec3 R),
    map (fun c : mvec R => jacCol c (sub3 point com')) (jointCdof JHinge xmat ja com) =
      ((add3 (cross (snd ja) (sub3 point (fst ja))) (cross (snd ja) (sub3 com com')), snd ja) :: nil).
Proof. exact jac_hinge_com_mismatch. Qed.
Print Assumptions C07_jac_com_consistency.

(* ---- the Jacobian column is the derivative.  Partial: serial chains.
   j is a hinge (unit axis) or slide joint reached in state st = (xpos, xquat) of mj_kinematics1's joint loop
   (xquat unit); cs is ANY sequence of what can follow on the way down the tree: further joint-loop iterations
   (slide, hinge with unit axis, ball with unit quaternion), ends of bodies (final normalisation), child-body
   offsets (unit body_quat).  pointAt j st cs loc x is the world position of the point with coordinates loc in
   the last frame, as a function of the coordinate x of j; dirAt is xmat * u there; setq j x is j with qpos = x.
   Then for every x: the chain is defined, the translation column that mj_comPos + mj_jac compute from the
   (xanchor, xaxis) written by mj_kinematics1 (for any com) is d pointAt / dx (Coquelicot is_derive, per
   component), and the rotation column w satisfies d (xmat u) / dx = w x (xmat u) for every u.
   Missing for the full statement: (a) C07_tree_body_is_chain below shows that in a GENERAL tree the frame of
   every regular body is exactly such a chain segment (child offset, its joints, end of body) applied to its
   parent's frame, so the path from a joint to any descendant is a chain; what is not proved is the statement
   about the tree as a function of one coordinate (that changing the coordinate of joint j leaves the state
   before j and all non-descendants unchanged and composes the segments); (b) ball and free joints as the
   differentiated joint; (c) mocap ancestors. *)
Theorem C07_jac_column_partial :
  forall (j : joint R) (st : vec3 R * quat R) (cs : list (@cstep R)) (loc com : vec3 R) (x : R),
    (j_type j = JHinge /\ unitv (j_axis j)) \/ j_type j = JSlide ->
    unitq (snd st) -> List.Forall goodStep cs ->
    let col := jacColJoint (j_type j) (anchorAt (setq j x) st) com (pointAt j st cs loc x) in
    (forall t : R, stateAt j st cs t <> None) /\
    is_derive3 (pointAt j st cs loc) x (fst col) /\
    (forall u : vec3 R, is_derive3 (dirAt j st cs u) x (cross (snd col) (dirAt j st cs u x))).
Proof. exact jac_column. Qed.
Print Assumptions C07_jac_column_partial.

(* ---- trees and chains: for ANY tree on which the recursion is defined, the frame of every body that is neither
   free-floating nor mocap and whose parent is not the world is obtained from the frame of its parent by the chain
   CChild body_pos body_quat :: its joints :: CFinish, i.e. by the steps over which C07_jac_column_partial
   quantifies (body k+1 of the tree is the k-th entry of bs; frames are indexed by body id) *)
Theorem C07_tree_body_is_chain :
  forall (bs : list (body R)) (frs : list (frame R)) (jas : list (list (janchor R))) (k : nat) (b : body R),
    kinematics bs = Some (frs, jas) -> nth_error bs k = Some b ->
    freeJoint (b_joints b) = None -> b_mocap b = None -> b_parent b <> O -> (b_parent b < S k)%nat ->
    exists (pp xpos : vec3 R) (pq xquat : quat R),
      nth_error frs (b_parent b) = Some (pp, pq, quat2Mat pq) /\
      nth_error frs (S k) = Some (xpos, xquat, quat2Mat xquat) /\
      chainFK (CChild (b_pos b) (b_quat b) :: map (@CJoint R) (b_joints b) ++ CFinish :: nil) (pp, pq) =
        Some (xpos, xquat).
Proof. exact tree_body_chain. Qed.
Print Assumptions C07_tree_body_is_chain.

(* ---- constraint rows of joint / tendon equalities with a coupling polynomial (mj_instantiateEquality, both objects
   defined): efc_pos = pos0 - ref0 - c0 - (c1 dif + c2 dif^2 + c3 dif^3 + c4 dif^4), dif = pos1 - ref1, and the row
   jac0 - deriv * jac1 with deriv = c1 + 2 c2 dif + 3 c3 dif^2 + 4 c4 dif^3.  Whenever the two object positions depend
   on a coordinate with derivatives given by entry k of their Jacobian rows, entry k of the written row is the
   derivative of the constraint position along that coordinate (all coefficients, all sizes).  That the object rows
   themselves (unit vector / ten_J) are the derivatives of qpos / ten_length is not part of this theorem (oracle). *)
Theorem C07_eq_poly_row :
  forall (c0 c1 c2 c3 c4 ref0 ref1 : R) (jac0 jac1 : list R) (k : nat) (f0 f1 : R -> R) (x : R),
    length jac1 = length jac0 ->
    is_derive f0 x (nth k jac0 0) -> is_derive f1 x (nth k jac1 0) ->
    is_derive (fun t : R => eqPos c0 c1 c2 c3 c4 (f0 t) ref0 (f1 t) ref1) x
              (nth k (eqRow jac0 jac1 (eqDeriv c1 c2 c3 c4 (f1 x) ref1)) 0).
Proof. exact eq_poly_row. Qed.
Print Assumptions C07_eq_poly_row.

(* ---- address spaces of a constraint row: the dense limit row of a ball joint (mj_instantiateLimit) carries minus the rotation
   axis at the three columns of the joint's DOFS, jnt_dofadr .. jnt_dofadr+2, and zeros elsewhere (the qpos address of the
   joint, where its quaternion is read, differs from the dof address as soon as a free or ball joint precedes it).  That
   -axis is the derivative of the limit distance is covered in the radial direction by C08_spring_gradient_ball_partial's
   closed form and otherwise by the finite-difference oracle. *)
Theorem C07_ball_limit_row_columns :
  forall (nv dofadr : nat) (q : quat R) (r0 r1 : R) (k : nat),
    (dofadr + 3 <= nv)%nat -> (k < nv)%nat ->
    nth k (ballLimitRow nv dofadr q r0 r1) 0 =
      if Nat.leb dofadr k && Nat.ltb k (dofadr + 3)
      then - nth (k - dofadr) (v2l (snd (ballLimit q r0 r1))) 0 else 0.
Proof. exact ballLimitRow_columns. Qed.
Print Assumptions C07_ball_limit_row_columns.

(* ---- the hypotheses are satisfiable by non-trivial data *)
Example C07_goodQV_example :
  goodQV (JHinge :: JBall :: JSlide :: nil) (3 :: 0 :: 1 :: 0 :: 0 :: 7 :: nil) (2 :: 0 :: 0 :: PI :: -1 :: nil) 1.
Proof. exact goodQV_example. Qed.

Example C07_chain_example :
  let j : joint R := mkJoint JHinge (1, 0, 0) (0, 0, 1) (0 :: nil) 0 in
  let s : joint R := mkJoint JSlide (0, 0, 0) (0, 3, 0) (5 :: nil) 1 in
  let b : joint R := mkJoint JBall (0, 1, 0) (0, 0, 1) (0 :: 0 :: 1 :: 0 :: nil) 0 in
  List.Forall goodStep (CJoint s :: CFinish :: CChild (0, 0, 2) (0, 1, 0, 0) :: CJoint b :: CJoint j :: CFinish :: nil) /\
  unitv (j_axis j) /\ unitq (snd ((1, 2, 3), (0, 0, 0, 1)) : quat R).
Proof. exact chain_example. Qed.
