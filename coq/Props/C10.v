(* C10 — Constraint solvers return the optimum of the documented problem.
   Only statements, each closed by a lemma of Proof/SolverProof.v.  Everything is over the real numbers.
   Vocabulary (Model/SolverSpec.v): vectors nat -> R of which the first n (= nv) resp. m (= nefc) entries
   matter, matrices nat -> nat -> R, finite sums;
       objective n m M J a0 aref s a = 1/2 (a - a0)' M (a - a0) + s (J a - aref)
   is the documented objective (a0 = qacc_smooth, J = efc_J, aref = efc_aref, s the constraint cost).
   NOT a theorem anywhere in this file: that Newton / CG / PGS converge.  The theorems say what a converged
   (stationary) point is worth; convergence is observed by the oracle of harness/props/c10.py only. *)
From Coq Require Import ZArith List Bool Reals Lra Lia.
From Coquelicot Require Import Coquelicot.
From MJV Require Import Lib.Num Lib.NumR Model.ConstraintUpdate Model.ConstraintUpdateSpec
                        Model.Solver Model.SolverSpec Proof.SolverProof Proof.SolverRowsProof.
Import ListNotations.
Open Scope R_scope.

(* For every size, every symmetric positive-definite M (x'Mx > 0 unless x = 0), every J, a0, aref and every
   convex cost s of the first m residuals whose directional derivatives are given by minus the force f
   (d/dt s(x + t v) at t = 0 equals -f(x).v):  an acceleration a that satisfies the stationarity equation
   M (a - a0) = J' f(J a - aref) — the equation the solvers drive to zero (grad = Ma - qfrc_smooth -
   qfrc_constraint) — is a global minimiser of the objective, and the only one. *)
Theorem C10_stationary_optimal :
  forall (n m : nat) (M J : mat) (a0 aref : vec) (s : vec -> R) (f : vec -> vec),
    symmetric n M -> posdef n M ->
    depends_on_first m s -> convexV s ->
    (forall x v : vec, is_derive (fun t : R => s (vadd x (vscal t v))) 0 (- dotn m (f x) v)) ->
    forall a : vec,
      eqn n (mulMV n M (vsub a a0)) (mulMTV m J (f (vsub (mulMV n J a) aref))) ->
      forall b : vec,
        objective n m M J a0 aref s a <= objective n m M J a0 aref s b /\
        (objective n m M J a0 aref s b <= objective n m M J a0 aref s a -> eqn n b a).
Proof. exact stationary_optimal. Qed.
Print Assumptions C10_stationary_optimal.

(* The hypotheses on s are met by the cost law of mj_constraintUpdate_impl for every composition of scalar
   rows (equality, limit / frictionless / pyramidal, friction loss — the row kernels row_eq, row_uni,
   row_fric of Model/ConstraintUpdate.v with the relations mj_makeImpedance establishes), in any number and
   order: s = sum of the row costs, f = the row forces.  Elliptic blocks are not included: their convexity
   is not proved (C12 is partial there). *)
Theorem C10_scalar_rows_optimal :
  forall (n m : nat) (M J : mat) (a0 aref : vec) (rows : nat -> rowkind),
    symmetric n M -> posdef n M ->
    (forall r : nat, (r < m)%nat -> rk_ok (rows r)) ->
    forall a : vec,
      eqn n (mulMV n M (vsub a a0))
            (mulMTV m J (sep_force (fun r => rk_force (rows r)) (vsub (mulMV n J a) aref))) ->
      forall b : vec,
        objective n m M J a0 aref (sep_cost m (fun r => rk_cost (rows r))) a <=
        objective n m M J a0 aref (sep_cost m (fun r => rk_cost (rows r))) b /\
        (objective n m M J a0 aref (sep_cost m (fun r => rk_cost (rows r))) b <=
         objective n m M J a0 aref (sep_cost m (fun r => rk_cost (rows r))) a -> eqn n b a).
Proof. exact scalar_rows_optimal. Qed.
Print Assumptions C10_scalar_rows_optimal.

(* The same for the cost and force FUNCTIONS of the C12 model of mj_constraintUpdate_impl itself (cu_cost_fn /
   cu_force_fn = cost and efc_force returned by constraint_update on the residual list), for every row list
   without elliptic blocks whose rows satisfy the relations mj_makeImpedance establishes (scalar_rows_ok):
   the row loop's cost is the sum of the row costs and its force vector the row forces (Proof/SolverRowsProof.v). *)
Theorem C10_constraint_update_optimal :
  forall (n : nat) (M J : mat) (a0 aref : vec) (ne nf : Z) (con : list (@contact R)) (rows : list (@rowdesc R)),
    symmetric n M -> posdef n M -> scalar_rows_ok ne nf 0 rows ->
    forall a : vec,
      eqn n (mulMV n M (vsub a a0))
            (mulMTV (length rows) J (cu_force_fn ne nf con rows (vsub (mulMV n J a) aref))) ->
      forall b : vec,
        objective n (length rows) M J a0 aref (cu_cost_fn ne nf con rows) a <=
        objective n (length rows) M J a0 aref (cu_cost_fn ne nf con rows) b /\
        (objective n (length rows) M J a0 aref (cu_cost_fn ne nf con rows) b <=
         objective n (length rows) M J a0 aref (cu_cost_fn ne nf con rows) a -> eqn n b a).
Proof. exact constraint_update_optimal. Qed.
Print Assumptions C10_constraint_update_optimal.

(* The exit certificate of mj_solPrimal ("cost(qacc) - cost* <= 0.5 * grad'*M^-1*grad"): with w = M^-1 grad
   (Mgrad of the CG branch) the cost at a exceeds the cost at ANY other point by at most 1/2 grad.w.
   M symmetric positive semi-definite suffices. *)
Theorem C10_gap_certificate :
  forall (n m : nat) (M J : mat) (a0 aref : vec) (s : vec -> R) (f : vec -> vec),
    symmetric n M -> possemidef n M ->
    depends_on_first m s -> convexV s ->
    (forall x v : vec, is_derive (fun t : R => s (vadd x (vscal t v))) 0 (- dotn m (f x) v)) ->
    forall a w : vec,
      eqn n (mulMV n M w) (obj_grad n m M J a0 aref f a) ->
      forall b : vec,
        objective n m M J a0 aref s a - objective n m M J a0 aref s b
          <= / 2 * dotn n (obj_grad n m M J a0 aref f a) w.
Proof. exact gap_certificate. Qed.
Print Assumptions C10_gap_certificate.

(* A fully concrete instance (nv = nefc = 1, M = 2, J = 1, qacc_smooth = -3, aref = 0, one limit row with
   D = 1): the hypotheses hold, a = -2 is stationary with force 2 and cost 3, and 3 is the global minimum. *)
Theorem C10_example_1d :
  let M : mat := fun _ _ => 2 in let J : mat := fun _ _ => 1 in
  let a0 : vec := fun _ => -3 in let aref : vec := fun _ => 0 in
  let rows : nat -> rowkind := fun _ => RowUni 1 in
  let a : vec := fun _ => -2 in
  symmetric 1 M /\ posdef 1 M /\ rk_ok (rows 0%nat) /\
  eqn 1 (mulMV 1 M (vsub a a0)) (mulMTV 1 J (sep_force (fun r => rk_force (rows r)) (vsub (mulMV 1 J a) aref))) /\
  sep_force (fun r => rk_force (rows r)) (vsub (mulMV 1 J a) aref) 0%nat = 2 /\
  objective 1 1 M J a0 aref (sep_cost 1 (fun r => rk_cost (rows r))) a = 3 /\
  forall b : vec, 3 <= objective 1 1 M J a0 aref (sep_cost 1 (fun r => rk_cost (rows r))) b.
Proof. exact example_1d. Qed.
Print Assumptions C10_example_1d.

(* An iteration that moves only to candidates passing an acceptance test "cost(candidate) <= cost(current)
   + eps" ends, after any number of iterations and whatever the proposals and the stopping rule are, at a
   cost <= cost(start) + fuel * eps.  guarded_loop: a rejected candidate ends the loop (mj_solPrimal: alpha = 0,
   "no improvement: done"); eps = 0 is the plain statement "never ends higher than it started". *)
Theorem C10_monotone :
  forall (X : Type) (cost : X -> R) (eps : R) (accept : X -> X -> bool) (propose : nat -> X -> option X),
    0 <= eps -> (forall y x : X, accept y x = true -> cost y <= cost x + eps) ->
    forall (fuel k : nat) (x : X), cost (guarded_loop accept propose fuel k x) <= cost x + INR fuel * eps.
Proof. exact guarded_loop_monotone. Qed.
Print Assumptions C10_monotone.

(* guarded_sweep: a rejected candidate is dropped and the sweep continues (PGS costChange: "positive change:
   restore force", with eps = 1e-10 per block). *)
Theorem C10_monotone_sweep :
  forall (X : Type) (cost : X -> R) (eps : R) (accept : X -> X -> bool) (propose : nat -> X -> X),
    0 <= eps -> (forall y x : X, accept y x = true -> cost y <= cost x + eps) ->
    forall (fuel k : nat) (x : X), cost (guarded_sweep accept propose fuel k x) <= cost x + INR fuel * eps.
Proof. exact guarded_sweep_monotone. Qed.
Print Assumptions C10_monotone_sweep.

(* Why the exits of PrimalSearch that return a point without comparing costs stay within tolerance: the
   line-search function phi(alpha) = cost(alpha) - cost(0) is convex with phi(0) = 0, hence phi(alpha) <=
   alpha * phi'(alpha): non-positive when the slope there is <= 0, below alpha * gtol when |slope| < gtol. *)
Theorem C10_linesearch_bound :
  forall (phi : R -> R) (alpha slope : R),
    convex1 phi -> phi 0 = 0 -> is_derive phi alpha slope -> phi alpha <= alpha * slope.
Proof. exact linesearch_bound. Qed.
Print Assumptions C10_linesearch_bound.

(* projectCone of the PGS solver on an elliptic contact block (f0 :: ft) with friction coefficients mu
   (non-zero where used): the result has the same length, lies in the friction cone (f0 >= 0 and
   sum (f_j/mu_j)^2 <= f0^2 — ell_admissible of C11), projecting again changes nothing, a point of the cone is
   returned unchanged, and for f0 >= 0 the normal force is kept and the tangential part is scaled by one
   factor in [0, 1]. *)
Theorem C10_project_cone :
  forall (f0 : R) (ft mu : list R),
    List.Forall (fun f => f <> 0) (firstn (length ft) mu) ->
    let p := project_cone (f0 :: ft) mu true in
    length p = S (length ft) /\
    ell_admissible mu p /\
    project_cone p mu true = p /\
    (ell_admissible mu (f0 :: ft) -> p = f0 :: ft) /\
    (0 <= f0 -> exists c : R, 0 <= c <= 1 /\ p = f0 :: map (fun x => x * c) ft).
Proof. exact project_cone_elliptic. Qed.
Print Assumptions C10_project_cone.

(* projectCone on every other row type clamps force[0] at zero and touches nothing else *)
Theorem C10_project_cone_scalar :
  forall (f0 : R) (ft mu : list R),
    let p := project_cone (f0 :: ft) mu false in
    p = Rmax 0 f0 :: ft /\ 0 <= nth 0 p 0 /\ project_cone p mu false = p /\ (0 <= f0 -> p = f0 :: ft).
Proof. exact project_cone_scalar. Qed.
Print Assumptions C10_project_cone_scalar.

(* friction-loss rows: mju_clip(f, -floss, floss) (momentum step) and the clamp of the sweep coincide, land in
   [-floss, floss], are idempotent and the identity inside the interval; limit / contact rows: max(0, f) *)
Theorem C10_project_box :
  forall f floss : R, 0 <= floss ->
    mju_clip f (- floss) floss = pgs_clamp_friction f floss /\
    Rabs (mju_clip f (- floss) floss) <= floss /\
    mju_clip (mju_clip f (- floss) floss) (- floss) floss = mju_clip f (- floss) floss /\
    (Rabs f <= floss -> mju_clip f (- floss) floss = f).
Proof. exact clip_friction. Qed.
Print Assumptions C10_project_box.

Theorem C10_project_unilateral :
  forall f : R,
    pgs_clamp_unilateral f = Rmax 0 f /\ 0 <= pgs_clamp_unilateral f /\
    pgs_clamp_unilateral (pgs_clamp_unilateral f) = pgs_clamp_unilateral f.
Proof. exact clamp_unilateral. Qed.
Print Assumptions C10_project_unilateral.

(* non-vacuity of the projection: a point outside the cone is moved (into the cone) *)
Example C10_project_example :
  let p := project_cone [1; 3; 4] [1; 1; 1; 1; 1] true in
  ell_admissible [1; 1; 1; 1; 1] p /\ p <> [1; 3; 4].
Proof.
  assert (H : List.Forall (fun f => f <> 0) (firstn (length [3; 4]) [1; 1; 1; 1; 1])) by (simpl; repeat constructor; lra).
  destruct (project_cone_elliptic 1 [3; 4] [1; 1; 1; 1; 1] H) as (_ & Ha & _).
  split; [exact Ha|]. intros E. rewrite E in Ha. destruct Ha as [_ Ha]. simpl in Ha. lra.
Qed.
