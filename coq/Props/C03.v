(* C03 -- Thread-pool dispatch runs each task exactly once.
   Only statements, each closed by a lemma of Proof/ThreadPoolProof.v, followed by Print Assumptions.

   Model (Model/ThreadPool.v): the shared atomics signal_/next_/ndone_, the plain field ntask_, one
   program counter for the dispatching ("main") thread and one per worker; [mstep]/[wstep] perform
   ONE atomic operation, thread operation, API call/return or task begin/end.  [Step] is the
   interleaving of all threads, [reachable] its reachable states from [init], for any number of
   workers, any ntask, any history of mju_threadpool / mju_dispatch calls (the arguments of the calls
   are carried by the call events, so every history is a path).  Sequentially consistent: weak-memory
   behaviours of memory_order_relaxed/acquire/release are outside the model.
   [started s] / [finished s] are the (thread_id, task_id) pairs with which the task function was
   entered / left during the current API call, [bk s] is the ntask argument of the current
   mju_dispatch call, [zseq n] = [0; ..; n-1]. *)
From Coq Require Import List ZArith Bool Permutation Relations.
From MJV Require Import Model.ThreadPool Proof.ThreadPoolProof.
Import ListNotations.
Open Scope Z_scope.

(* No task id is invoked twice within one dispatch; every invoked id is in 0..ntask-1; the thread_id
   argument is 0 (the dispatching thread) or 1..nthread of the current pool, and 0 when there is no
   pool.  Holds in every reachable state, i.e. at every moment of every interleaving. *)
Theorem C03_exactly_once :
  forall s, reachable s ->
    NoDup (map snd (started s)) /\
    (forall tid t, In (tid, t) (started s) ->
       0 <= t < bk s /\ 0 <= tid <= (if pool s then nthr s else 0)).
Proof. exact no_duplicate_in_range. Qed.
Print Assumptions C03_exactly_once.

(* mju_dispatch can take its return step only when the task ids of the finished invocations are
   exactly 0..ntask-1 (each once: nothing lost, nothing duplicated), every invocation that began
   has ended, and every worker is parked in signal_.wait on the current signal value.  Covers the
   pooled path (ThreadPoolContext::Dispatch) and the serial path (no pool or ntask < 2). *)
Theorem C03_return_after_all :
  forall s s', reachable s -> mstep s ERetDispatch = Some s' ->
    Permutation (map snd (finished s)) (zseq (bk s)) /\
    Permutation (started s) (finished s) /\
    Forall (fun w => wp w = WWait (sig s)) (ws s).
Proof. exact return_after_all. Qed.
Print Assumptions C03_return_after_all.

(* Lifecycle histories: whenever the main thread is outside an API call -- after any sequence of
   create / resize / dispatch / destroy -- the pool is absent with no worker left, or it has exactly
   nthread >= 1 workers, all parked on the current signal value (+1 or -1); no worker step is
   enabled in such a state. *)
Theorem C03_histories_leave_pool_parked_or_absent :
  forall s, reachable s -> mp s = MIdle ->
    ((pool s = false /\ ws s = []) \/
     (pool s = true /\ 1 <= nthr s /\ Z.of_nat (length (ws s)) = nthr s /\
      (sig s = 1 \/ sig s = -1) /\ Forall (fun w => wp w = WWait (sig s)) (ws s))) /\
    (forall k e, wstep s k e = None).
Proof. exact parked_between_calls. Qed.
Print Assumptions C03_histories_leave_pool_parked_or_absent.

(* The plain (non-atomic) batch fields are written by mju_dispatch only in states where every
   worker is parked and cannot move, so no worker reads them concurrently. *)
Theorem C03_batch_fields_written_only_when_parked :
  forall s k s', reachable s -> mstep s (ECallDispatch k) = Some s' ->
    Forall (fun w => wp w = WWait (sig s)) (ws s) /\ (forall j e, wstep s j e = None).
Proof. exact batch_fields_written_when_parked. Qed.
Print Assumptions C03_batch_fields_written_only_when_parked.

(* No deadlock, part 1: inside any API call some thread has an enabled step that strictly
   decreases the natural-number variant [measure]. *)
Theorem C03_progress :
  forall s, reachable s -> mp s <> MIdle ->
    exists s', Step s s' /\ (measure s' < measure s)%nat.
Proof. exact progress_reachable. Qed.
Print Assumptions C03_progress.

(* No deadlock, part 2: inside an API call EVERY step of every thread strictly decreases the
   variant, except the dispatcher's busy-wait load of ndone_ that still sees ndone_ < nthread, which
   leaves the state unchanged.  Hence a call performs at most [measure s] non-spin steps, and (with
   part 1) it returns under every schedule that does not run the spinning dispatcher forever
   while a worker is enabled. *)
Theorem C03_variant :
  forall s s', reachable s -> Step s s' -> mp s <> MIdle ->
    (measure s' < measure s)%nat \/ (s' = s /\ mp s = D9 /\ ndn s < nthr s).
Proof. exact variant_reachable. Qed.
Print Assumptions C03_variant.

(* Consequence: from every reachable state there is a finite path to a state outside any API
   call (dispatch returned / pool created / pool destroyed). *)
Theorem C03_call_returns :
  forall s, reachable s -> exists s', clos_refl_trans st Step s s' /\ mp s' = MIdle.
Proof. exact call_returns. Qed.
Print Assumptions C03_call_returns.

(* Link to trace validation: every event log accepted by the executable replay function [run]
   (the function the check evaluates on implementation logs) is a path of [Step], so all theorems
   above apply to every state along it. *)
Theorem C03_accepted_logs_are_paths :
  forall l s s', reachable s -> run s l = Some s' -> reachable s'.
Proof. exact run_reachable. Qed.
Print Assumptions C03_accepted_logs_are_paths.

(* non-vacuity: a real implementation log (2 workers, 3 tasks, then destroy) is accepted; its
   prefix reaches a state where two different threads are inside the task function at once, and a
   state in which the dispatcher is about to return with all three tasks finished. *)
Definition C03_example_log : list (Z * ev) :=
  [(0, ECallPool 2); (0, EInit 0 0); (0, EInit 1 0); (0, EInit 2 1); (0, ESpawn 1); (0, ESpawn 2);
   (0, ERetPool); (0, ECallDispatch 3); (0, EStore 0 0); (0, EStore 1 0); (0, ELoad 2 1);
   (0, EStore 2 (-1)); (1, EWaitRet 2 1); (0, ENotify 2); (0, EFetchAdd 0 0 1); (0, EBegin 0 0);
   (0, EEnd 0 0); (2, EWaitRet 2 1); (2, ELoad 2 (-1)); (0, EFetchAdd 0 1 1); (1, ELoad 2 (-1));
   (0, EBegin 0 1); (1, EFetchAdd 0 2 1); (1, EBegin 1 2); (1, EEnd 1 2); (0, EEnd 0 1);
   (1, EFetchAdd 0 3 1); (2, EFetchAdd 0 4 1); (2, EFetchAdd 1 0 1); (0, EFetchAdd 0 5 1);
   (1, EFetchAdd 1 1 1); (0, ELoad 1 2); (0, ERetDispatch); (0, ECallPool 0); (0, EStore 2 0);
   (1, EWaitRet 2 (-1)); (2, EWaitRet 2 (-1)); (0, ENotify 2); (1, ELoad 2 0); (2, ELoad 2 0);
   (2, EExit); (1, EExit); (0, EJoin 1); (0, EJoin 2); (0, ERetPool)].

Example C03_example_accepted : accepts C03_example_log false = true.
Proof. vm_compute. reflexivity. Qed.

Example C03_example_two_threads_in_tasks :
  exists s, run init (firstn 24 C03_example_log) = Some s /\
            started s = [(1, 2); (0, 1); (0, 0)] /\ finished s = [(0, 0)] /\ mp s = D8 1.
Proof. eexists. vm_compute. repeat split. Qed.

Example C03_example_about_to_return :
  exists s s', run init (firstn 32 C03_example_log) = Some s /\ mstep s ERetDispatch = Some s' /\
               map snd (finished s) = [1; 2; 0] /\ bk s = 3.
Proof. eexists. eexists. vm_compute. repeat split. Qed.
