(* C24 — Rotation and pose utilities implement the group operations.
   Only statements, each closed by a lemma of Proof/SpatialProof.v, followed by Print Assumptions.
   All statements are about Model/Spatial.v instantiated at R (exact real arithmetic).
   Vocabulary (defined in Proof/SpatialProof.v):
     qnorm2 q = q0^2+q1^2+q2^2+q3^2, unitq q := qnorm2 q = 1, qopp q = (-q0,-q1,-q2,-q3),
     unitv a := dot3 a a = 1, unitp p := unitq (snd p),
     rodrigues a t = I + sin t [a]x + (1 - cos t) [a]x^2,
     validEuler c := c is one of x y z X Y Z, rotOf c e = axisAngle2Quat (axis named by c) e,
     factors lower seq es = the rotOf factors of the lower-case (lower = true) resp. upper-case
     characters of seq, in order of appearance; qprod = ordered product with mulQuat;
     notTiny3 v := some |v_i| > 1e-8 (the complement of MJX's jp.allclose(v, 0)). *)
From Coq Require Import ZArith List PrimFloat Reals String Ascii.
From MJV Require Import Lib.Num Lib.NumR Model.Spatial Proof.SpatialProof.
Import ListNotations.
Open Scope R_scope.

(* ---------------- quaternion product: a group on unit quaternions (laws hold for ALL quaternions) *)
Theorem C24_mulQuat_assoc :
  forall a b c : quat R, mulQuat (mulQuat a b) c = mulQuat a (mulQuat b c).
Proof. exact mulQuat_assoc. Qed.
Print Assumptions C24_mulQuat_assoc.

Theorem C24_mulQuat_identity :
  forall a : quat R, mulQuat quatId a = a /\ mulQuat a quatId = a.
Proof. exact mulQuat_identity. Qed.
Print Assumptions C24_mulQuat_identity.

(* negQuat is the conjugate: q * neg q = neg q * q = (|q|^2, 0, 0, 0) for every quaternion,
   hence the two-sided inverse on unit quaternions; products of unit quaternions are unit *)
Theorem C24_negQuat_inverse :
  forall q : quat R,
    mulQuat q (negQuat q) = (qnorm2 q, 0, 0, 0) /\ mulQuat (negQuat q) q = (qnorm2 q, 0, 0, 0) /\
    (unitq q -> mulQuat q (negQuat q) = quatId /\ mulQuat (negQuat q) q = quatId /\ unitq (negQuat q)) /\
    (forall p, qnorm2 (mulQuat q p) = qnorm2 q * qnorm2 p).
Proof. exact negQuat_inverse_full. Qed.
Print Assumptions C24_negQuat_inverse.

(* ---------------- quaternion product composes like the matrix product: ALL quaternions,
   including the identity-quaternion arm of mju_quat2Mat *)
Theorem C24_quat2Mat_mulQuat :
  forall a b : quat R, quat2Mat (mulQuat a b) = mulMatMat3 (quat2Mat a) (quat2Mat b).
Proof. exact quat2Mat_mul. Qed.
Print Assumptions C24_quat2Mat_mulQuat.

(* ---------------- rotVecQuat (mju_ and mji_ variants, zero-vector and identity arms included)
   is multiplication by quat2Mat q and preserves the norm, for unit q *)
Theorem C24_rotVecQuat_matrix :
  forall (v : vec3 R) (q : quat R), unitq q ->
    rotVecQuat v q = mulMatVec3 (quat2Mat q) v /\ rotVecQuat_i v q = mulMatVec3 (quat2Mat q) v.
Proof. exact rotVecQuat_matrix_both. Qed.
Print Assumptions C24_rotVecQuat_matrix.

Theorem C24_rotVecQuat_norm :
  forall (v : vec3 R) (q : quat R), unitq q ->
    norm3 (rotVecQuat v q) = norm3 v /\ norm3 (rotVecQuat_i v q) = norm3 v.
Proof. exact rotVecQuat_norm_both. Qed.
Print Assumptions C24_rotVecQuat_norm.

(* non-unit quaternions: the two functions differ by (1 - |q|^2) v, and the inlined variant
   computes the same function as the exported one *)
Theorem C24_rotVecQuat_nonunit :
  forall (v : vec3 R) (q : quat R),
    rotVecQuat v q = add3 (mulMatVec3 (quat2Mat q) v) (scl3 v (1 - qnorm2 q)) /\
    rotVecQuat_i v q = rotVecQuat v q.
Proof. exact rotVecQuat_nonunit_both. Qed.
Print Assumptions C24_rotVecQuat_nonunit.

(* ---------------- quat2Mat q is a rotation matrix for unit q; |q|^2 times one in general *)
Theorem C24_quat2Mat_rotation :
  forall q : quat R, unitq q ->
    mulMatMat3 (quat2Mat q) (transpose3 (quat2Mat q)) = matId /\
    mulMatMat3 (transpose3 (quat2Mat q)) (quat2Mat q) = matId /\
    det3 (quat2Mat q) = 1.
Proof. exact quat2Mat_rotation. Qed.
Print Assumptions C24_quat2Mat_rotation.

Theorem C24_quat2Mat_scaled :
  forall q : quat R,
    mulMatMat3 (quat2Mat q) (transpose3 (quat2Mat q)) =
      (qnorm2 q * qnorm2 q, 0, 0, 0, qnorm2 q * qnorm2 q, 0, 0, 0, qnorm2 q * qnorm2 q) /\
    det3 (quat2Mat q) = qnorm2 q * qnorm2 q * qnorm2 q.
Proof. exact quat2Mat_scaled. Qed.
Print Assumptions C24_quat2Mat_scaled.

(* ---------------- conversions round-trip up to the sign of the quaternion: all four arms of
   mju_mat2Quat (selected by the comparisons as written in C) and the final mju_normalize4 *)
Theorem C24_mat2Quat_roundtrip :
  forall q : quat R, unitq q -> mat2Quat (quat2Mat q) = q \/ mat2Quat (quat2Mat q) = qopp q.
Proof. exact mat2Quat_roundtrip. Qed.
Print Assumptions C24_mat2Quat_roundtrip.

(* ---------------- poses with unit quaternions form a group under mulPose / negPose, acting by trnVecPose *)
Theorem C24_mulPose_group :
  forall p1 p2 p3 : pose R, unitp p1 -> unitp p2 -> unitp p3 ->
    mulPose (mulPose p1 p2) p3 = mulPose p1 (mulPose p2 p3) /\
    unitp (mulPose p1 p2) /\ unitp (negPose p1) /\
    mulPose poseId p1 = p1 /\ mulPose p1 poseId = p1 /\
    mulPose p1 (negPose p1) = poseId /\ mulPose (negPose p1) p1 = poseId.
Proof. exact mulPose_group. Qed.
Print Assumptions C24_mulPose_group.

Theorem C24_trnVecPose_action :
  forall (p1 p2 : pose R) (v : vec3 R), unitp p1 -> unitp p2 ->
    trnVecPose (mulPose p1 p2) v = trnVecPose p1 (trnVecPose p2 v) /\
    trnVecPose poseId v = v /\
    trnVecPose (negPose p1) (trnVecPose p1 v) = v.
Proof. exact trnVecPose_action_full. Qed.
Print Assumptions C24_trnVecPose_action.

(* ---------------- axis-angle (zero-angle arm included) *)
Theorem C24_axisAngle2Quat_unit :
  forall (ax : vec3 R) (angle : R), unitv ax -> unitq (axisAngle2Quat ax angle).
Proof. exact axisAngle2Quat_unit. Qed.
Print Assumptions C24_axisAngle2Quat_unit.

Theorem C24_axisAngle2Quat_rodrigues :
  forall (ax : vec3 R) (angle : R), unitv ax -> quat2Mat (axisAngle2Quat ax angle) = rodrigues ax angle.
Proof. exact axisAngle2Quat_rodrigues. Qed.
Print Assumptions C24_axisAngle2Quat_rodrigues.

(* ---------------- Euler sequences.  The loop of mju_euler2Quat, for a sequence of ANY length over
   xyzXYZ (proved by induction over the sequence) and any start value tmp: the upper-case
   (extrinsic) factors in reverse order, then tmp, then the lower-case (intrinsic) factors in order. *)
Theorem C24_eulerLoop_product :
  forall (seq : list ascii) (es : list R) (tmp : quat R), Forall validEuler seq ->
    eulerLoop tmp seq es =
      Some (mulQuat (qprod (rev (factors false seq es))) (mulQuat tmp (qprod (factors true seq es)))).
Proof. exact (fun seq es tmp V => eulerLoop_product seq es tmp V). Qed.
Print Assumptions C24_eulerLoop_product.

(* mju_euler2Quat itself (3 characters) *)
Theorem C24_euler2Quat_product :
  forall (euler : vec3 R) (seq : string),
    String.length seq = 3%nat -> Forall validEuler (list_ascii_of_string seq) ->
    euler2Quat euler seq =
      Some (mulQuat (qprod (rev (factors false (list_ascii_of_string seq) (v2l euler))))
                    (qprod (factors true (list_ascii_of_string seq) (v2l euler)))).
Proof. exact euler2Quat_product. Qed.
Print Assumptions C24_euler2Quat_product.

(* mjERROR exactly for strings that are not three characters of xyzXYZ *)
Theorem C24_euler2Quat_error :
  forall (euler : vec3 R) (seq : string),
    euler2Quat euler seq = None <->
    (String.length seq <> 3%nat \/ ~ Forall validEuler (list_ascii_of_string seq)).
Proof. exact euler2Quat_error. Qed.
Print Assumptions C24_euler2Quat_error.

(* ---------------- mju_subQuat inverts mju_quatIntegrate.  Partial: proved for |h| |v| <= pi (pi included)
   under the side condition that no mjMINVAL guard of mju_normalize3 fires on a non-zero value
   (h |v| = 0, or |v| >= mjMINVAL and |sin(h |v| / 2)| >= mjMINVAL).  Inside the excluded band the
   C code replaces the axis by (1,0,0) and the statement is false of the model (error <= ~2e-15).
   The atan2/sin/cos identity needed is proved (Ratan2_half), not assumed. *)
Theorem C24_sub_integrate_partial :
  forall (q : quat R) (v : vec3 R) (h : R),
    unitq q -> Rabs (h * norm3 v) <= PI ->
    (h * norm3 v = 0 \/ (mjMINVAL <= norm3 v /\ mjMINVAL <= Rabs (sin (h * norm3 v * / 2)))) ->
    subQuat (quatIntegrate q v h) q = scl3 v h.
Proof. exact sub_integrate. Qed.
Print Assumptions C24_sub_integrate_partial.

(* ---------------- MJX math.rotate (a different formula) is the same function on unit quaternions *)
Theorem C24_mjx_rotate :
  forall (v : vec3 R) (q : quat R), unitq q -> mjx_rotate v q = rotVecQuat v q.
Proof. exact mjx_rotate_eq. Qed.
Print Assumptions C24_mjx_rotate.

(* both products with a pure quaternion: mju_mulQuatAxis is q * (0,a); mju_derivQuat is 1/2 (0,w) * q *)
Theorem C24_mulQuatAxis_derivQuat :
  forall (q : quat R) (a : vec3 R),
    mulQuatAxis q a = mulQuat q (let '(a0, a1, a2) := a in (0, a0, a1, a2)) /\
    derivQuat q a = (let '(p0, p1, p2, p3) := mulQuat (let '(w0, w1, w2) := a in (0, w0, w1, w2)) q in
                     (/ 2 * p0, / 2 * p1, / 2 * p2, / 2 * p3)).
Proof. exact (fun q a => conj (mulQuatAxis_eq q a) (derivQuat_eq q a)). Qed.
Print Assumptions C24_mulQuatAxis_derivQuat.

(* MJX quat_integrate (normalises AFTER the product, jp.allclose-based zero test at 1e-8) computes the same
   function as mju_quatIntegrate for unit q when the velocity is exactly zero or has a component above 1e-8 *)
Theorem C24_mjx_quat_integrate :
  forall (q : quat R) (v : vec3 R) (dt : R),
    unitq q -> (v = (0, 0, 0) \/ notTiny3 v) -> mjx_quat_integrate q v dt = quatIntegrate q v dt.
Proof. exact mjx_quat_integrate_eq. Qed.
Print Assumptions C24_mjx_quat_integrate.

(* MJX quat_sub = mju_subQuat whenever the vector part of neg(v)*u is exactly zero or has a component above 1e-8
   (in between, MJX returns 0 where C returns ~2*vector part: a difference below 2e-8) *)
Theorem C24_mjx_quat_sub :
  forall u v : quat R,
    (let '(p0, p1, p2, p3) := mulQuat (negQuat v) u in (p1, p2, p3) = (0, 0, 0) \/ notTiny3 (p1, p2, p3)) ->
    mjx_quat_sub u v = subQuat u v.
Proof. exact mjx_quat_sub_eq. Qed.
Print Assumptions C24_mjx_quat_sub.

(* ---------------- non-vacuity: the hypotheses are satisfiable by non-trivial values *)
Example C24_unit_example :
  unitq (/ 2, / 2, - / 2, / 2) /\ ~ isNullQuat (T:=R) (/ 2, / 2, - / 2, / 2) = true.
Proof. exact unitq_example. Qed.

(* rotation by exactly pi about z: every hypothesis of C24_sub_integrate_partial holds in its
   non-degenerate alternative and the round trip returns (0, 0, pi) *)
Example C24_sub_integrate_example :
  let q : quat R := (0, 1, 0, 0) in let v : vec3 R := (0, 0, PI) in let h := 1 in
  unitq q /\ Rabs (h * norm3 v) <= PI /\ h * norm3 v <> 0 /\
  mjMINVAL <= norm3 v /\ mjMINVAL <= Rabs (sin (h * norm3 v * / 2)) /\
  subQuat (quatIntegrate q v h) q = (0, 0, PI).
Proof. exact sub_integrate_example. Qed.

(* intrinsic "xyz" is Rx Ry Rz, extrinsic "XYZ" is Rz Ry Rx, mixed "xYz" is Ry (Rx Rz) *)
Example C24_euler_xyz :
  forall e0 e1 e2 : R,
    euler2Quat (e0, e1, e2) "xyz" = Some (mulQuat (rotOf "x" e0) (mulQuat (rotOf "y" e1) (rotOf "z" e2))) /\
    euler2Quat (e0, e1, e2) "XYZ" = Some (mulQuat (rotOf "Z" e2) (mulQuat (rotOf "Y" e1) (rotOf "X" e0))) /\
    euler2Quat (e0, e1, e2) "xYz" = Some (mulQuat (rotOf "Y" e1) (mulQuat (rotOf "x" e0) (rotOf "z" e2))).
Proof. exact euler_examples. Qed.
