(* C24 — Rotation and pose utilities implement the group operations.
   Only statements, each closed by a lemma of Proof/SpatialProof.v. *)
From Coq Require Import ZArith List PrimFloat Reals.
From MJV Require Import Lib.Num Lib.NumR Model.Spatial Proof.SpatialProof.
Open Scope R_scope.

Theorem C24_mulQuat_assoc :
  forall a b c : quat R, mulQuat (mulQuat a b) c = mulQuat a (mulQuat b c).
Proof. exact mulQuat_assoc. Qed.
Print Assumptions C24_mulQuat_assoc.
