(* C04 — Staged and split pipeline calls equal the monolithic call.
   The driver programs (Gen/Pipeline.v) are regenerated from src/engine/engine_forward.c on every
   run; the statements below are about those regenerated programs and hold for EVERY
   interpretation of the stage functions, condition atoms and assignments. *)
From Coq Require Import String List Bool.
From MJV Require Import Model.Pipeline Proof.PipelineProof Gen.Pipeline Proof.C04Proof Proof.C04SkipProof Proof.C04InvProof.
Import ListNotations.
Open Scope string_scope.

(* mj_step1 ; U ; mj_step2  =  U ; mj_step   for Euler / implicit / implicitfast, where U is the user's
   write of ctrl, qfrc_applied, xfrc_applied.  Premises: no control callback (a callback may read what U
   writes), no passive flex contact (mj_forwardSkip would raise an error that mj_step1 does not), and U
   commutes with every stage/assignment of the computed prefix (validated on the implementation by
   the harness for exactly that prefix). *)
Theorem C04_step12_user :
  forall (data : Type) (call : string -> list string -> data -> data)
         (assign : string -> string -> data -> data) (user : data -> data)
         (atom : string -> data -> bool) (integ : data -> string) (v : string),
    In v ["mjINT_EULER"; "mjINT_IMPLICIT"; "mjINT_IMPLICITFAST"] ->
    (forall d, atom "mjcb_control" d = false) ->
    (forall d, atom "flex_has_passive_contact(m)" d = false) ->
    (forall d, integ d = v) ->
    exists pre, split_prefix asm_nocb v = Some pre /\
      (commutes_list data call assign user atom integ pre ->
       forall d, run data call assign user atom integ prog_split d =
                 run data call assign user atom integ prog_monolithic d).
Proof. exact step12_user. Qed.
Print Assumptions C04_step12_user.

(* with a control callback installed (any callback, any flags) and nothing done between the calls *)
Theorem C04_step12_callback :
  forall (data : Type) (call : string -> list string -> data -> data)
         (assign : string -> string -> data -> data)
         (atom : string -> data -> bool) (integ : data -> string) (v : string),
    In v ["mjINT_EULER"; "mjINT_IMPLICIT"; "mjINT_IMPLICITFAST"] ->
    (forall d, atom "flex_has_passive_contact(m)" d = false) ->
    (forall d, integ d = v) ->
    forall d, run data call assign (fun d => d) atom integ prog_split d =
              run data call assign (fun d => d) atom integ prog_monolithic d.
Proof. exact step12_callback. Qed.
Print Assumptions C04_step12_callback.

(* mj_forwardSkip(stage, sens) runs exactly the stages of the full call that follow the skipped
   prefix; hence it equals the full call on every data on which the skipped prefix is a no-op
   (its inputs unchanged since it last ran) *)
Theorem C04_skip :
  forall (data : Type) (call : string -> list string -> data -> data)
         (assign : string -> string -> data -> data) (user : data -> data)
         (atom : string -> data -> bool) (integ : data -> string) (stage sens : string),
    In (stage, sens) [("mjSTAGE_POS", "0"); ("mjSTAGE_VEL", "0"); ("mjSTAGE_POS", "1"); ("mjSTAGE_VEL", "1")] ->
    (forall d, atom "flex_has_passive_contact(m)" d = false) ->
    exists prefix, skip_prefix stage sens = Some prefix /\ prefix <> [] /\
      forall d, exec_list data call assign user atom integ prefix d = Some d ->
                run data call assign user atom integ (fwd stage sens) d =
                run data call assign user atom integ (fwd "mjSTAGE_NONE" sens) d.
Proof. exact skip_sound. Qed.
Print Assumptions C04_skip.

(* mj_inverseSkip(stage, sens), regenerated from src/engine/engine_inverse.c (statements outside the
   driver language are kept as uninterpreted functions of the whole state, named by their text):
   the full call is  pre ++ mid ++ post  and the skipping call is  pre ++ post  with mid <> [];
   hence the two agree on every data on which mid, run after the common prefix pre, is a no-op
   (the skipped stages' inputs are unchanged since they last ran).  No assumption on flags. *)
Theorem C04_inverse_skip :
  forall (data : Type) (call : string -> list string -> data -> data)
         (assign : string -> string -> data -> data) (user : data -> data)
         (atom : string -> data -> bool) (integ : data -> string) (stage sens : string),
    In (stage, sens) [("mjSTAGE_POS", "0"); ("mjSTAGE_VEL", "0"); ("mjSTAGE_POS", "1"); ("mjSTAGE_VEL", "1")] ->
    exists pre mid : list item, skip_mid stage sens = Some (pre, mid) /\ mid <> [] /\
      forall d : data, mid_noop data call assign user atom integ pre mid d ->
                run data call assign user atom integ (inv stage sens) d =
                run data call assign user atom integ (inv "mjSTAGE_NONE" sens) d.
Proof. exact inv_skip_sound. Qed.
Print Assumptions C04_inverse_skip.

(* mj_inverse = mj_inverseSkip(mjSTAGE_NONE, 0) *)
Theorem C04_inverse_is_skip_none :
  forall (data : Type) (call : string -> list string -> data -> data)
         (assign : string -> string -> data -> data) (user : data -> data)
         (atom : string -> data -> bool) (integ : data -> string) (d : data),
    run data call assign user atom integ (PCall "mj_inverse" []) d =
    run data call assign user atom integ (inv "mjSTAGE_NONE" "0") d.
Proof. exact inverse_is_skip_none. Qed.
Print Assumptions C04_inverse_is_skip_none.

(* generic: for ANY two item lists accepted by the checker *)
Theorem C04_check_split_sound :
  forall (data : Type) (call : string -> list string -> data -> data)
         (assign : string -> string -> data -> data) (user : data -> data)
         (atom : string -> data -> bool) (integ : data -> string) (A B pre : list item),
    check_split A B = Some pre ->
    commutes_list data call assign user atom integ pre ->
    forall d, exec_list data call assign user atom integ B d = exec_list data call assign user atom integ A d.
Proof. exact check_split_sound. Qed.
Print Assumptions C04_check_split_sound.

(* non-vacuity: a concrete interpretation in which the premises hold and the stages really act
   (data = trace of executed stage names) *)
Example C04_example :
  exists t,
    run (list string) (fun f _ d => f :: d) (fun l _ d => l :: d) (fun d => "U" :: d)
        (fun s _ => String.eqb s "mjENABLED(mjENBL_ENERGY)") (fun _ => "mjINT_EULER") prog_split [] = Some t /\
    In "U" t /\ In "mj_Euler" t /\ In "mj_fwdPosition" t /\ In "mj_fwdConstraint" t /\ In "mj_energyPos" t.
Proof. eexists. split; [vm_compute; reflexivity|]. simpl. intuition. Qed.

(* non-vacuity of the inverse statement: the removed segment for (POS, 0) contains the position
   stage, and in the trace interpretation the skipping call really omits it while the full call runs it *)
Example C04_inverse_example :
  (exists pre mid, skip_mid "mjSTAGE_POS" "0" = Some (pre, mid) /\
                   In "mj_invPosition" (items_calls mid) /\ In "mj_sensorPos" (items_calls mid) /\
                   ~ In "mj_invVelocity" (items_calls mid)) /\
  (exists t1 t2,
    run (list string) (fun f _ d => f :: d) (fun l _ d => l :: d) (fun d => d)
        (fun _ _ => false) (fun _ => "mjINT_EULER") (inv "mjSTAGE_NONE" "0") [] = Some t1 /\
    run (list string) (fun f _ d => f :: d) (fun l _ d => l :: d) (fun d => d)
        (fun _ _ => false) (fun _ => "mjINT_EULER") (inv "mjSTAGE_POS" "0") [] = Some t2 /\
    In "mj_invPosition" t1 /\ ~ In "mj_invPosition" t2 /\ In "mj_invConstraint" t2 /\ In "mj_invVelocity" t2).
Proof.
  split.
  - eexists. eexists. split; [vm_compute; reflexivity|]. vm_compute. intuition; discriminate.
  - eexists. eexists. split; [vm_compute; reflexivity|]. split; [vm_compute; reflexivity|]. vm_compute. intuition; discriminate.
Qed.
