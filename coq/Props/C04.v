(* C04 — Staged and split pipeline calls equal the monolithic call.
   The driver programs (Gen/Pipeline.v) are regenerated from src/engine/engine_forward.c on every
   run; the statements below are about those regenerated programs and hold for EVERY
   interpretation of the stage functions, condition atoms and assignments. *)
From Coq Require Import String List Bool.
From MJV Require Import Model.Pipeline Proof.PipelineProof Gen.Pipeline Proof.C04Proof Proof.C04SkipProof.
Import ListNotations.
Open Scope string_scope.

(* mj_step1 ; U ; mj_step2  =  U ; mj_step   for Euler / implicit / implicitfast, where U is the user's
   write of ctrl, qfrc_applied, xfrc_applied.  Premises: no control callback (a callback may read what U
   writes), no passive flex contact (mj_forwardSkip would raise an error that mj_step1 does not), and U
   commutes with every stage/assignment of the computed prefix (validated on the implementation by
   the harness for exactly that prefix). *)
Theorem C04_step12_user :
  forall (data : Type) (call : string -> list string -> data -> data)
         (assign : string -> string -> data -> data) (user : data -> data)
         (atom : string -> data -> bool) (integ : data -> string) (v : string),
    In v ["mjINT_EULER"; "mjINT_IMPLICIT"; "mjINT_IMPLICITFAST"] ->
    (forall d, atom "mjcb_control" d = false) ->
    (forall d, atom "flex_has_passive_contact(m)" d = false) ->
    (forall d, integ d = v) ->
    exists pre, split_prefix asm_nocb v = Some pre /\
      (commutes_list data call assign user atom integ pre ->
       forall d, run data call assign user atom integ prog_split d =
                 run data call assign user atom integ prog_monolithic d).
Proof. exact step12_user. Qed.
Print Assumptions C04_step12_user.

(* with a control callback installed (any callback, any flags) and nothing done between the calls *)
Theorem C04_step12_callback :
  forall (data : Type) (call : string -> list string -> data -> data)
         (assign : string -> string -> data -> data)
         (atom : string -> data -> bool) (integ : data -> string) (v : string),
    In v ["mjINT_EULER"; "mjINT_IMPLICIT"; "mjINT_IMPLICITFAST"] ->
    (forall d, atom "flex_has_passive_contact(m)" d = false) ->
    (forall d, integ d = v) ->
    forall d, run data call assign (fun d => d) atom integ prog_split d =
              run data call assign (fun d => d) atom integ prog_monolithic d.
Proof. exact step12_callback. Qed.
Print Assumptions C04_step12_callback.

(* mj_forwardSkip(stage, sens) runs exactly the stages of the full call that follow the skipped
   prefix; hence it equals the full call on every data on which the skipped prefix is a no-op
   (its inputs unchanged since it last ran) *)
Theorem C04_skip :
  forall (data : Type) (call : string -> list string -> data -> data)
         (assign : string -> string -> data -> data) (user : data -> data)
         (atom : string -> data -> bool) (integ : data -> string) (stage sens : string),
    In (stage, sens) [("mjSTAGE_POS", "0"); ("mjSTAGE_VEL", "0"); ("mjSTAGE_POS", "1"); ("mjSTAGE_VEL", "1")] ->
    (forall d, atom "flex_has_passive_contact(m)" d = false) ->
    exists prefix, skip_prefix stage sens = Some prefix /\ prefix <> [] /\
      forall d, exec_list data call assign user atom integ prefix d = Some d ->
                run data call assign user atom integ (fwd stage sens) d =
                run data call assign user atom integ (fwd "mjSTAGE_NONE" sens) d.
Proof. exact skip_sound. Qed.
Print Assumptions C04_skip.

(* generic: for ANY two item lists accepted by the checker *)
Theorem C04_check_split_sound :
  forall (data : Type) (call : string -> list string -> data -> data)
         (assign : string -> string -> data -> data) (user : data -> data)
         (atom : string -> data -> bool) (integ : data -> string) (A B pre : list item),
    check_split A B = Some pre ->
    commutes_list data call assign user atom integ pre ->
    forall d, exec_list data call assign user atom integ B d = exec_list data call assign user atom integ A d.
Proof. exact check_split_sound. Qed.
Print Assumptions C04_check_split_sound.

(* non-vacuity: a concrete interpretation in which the premises hold and the stages really act
   (data = trace of executed stage names) *)
Example C04_example :
  exists t,
    run (list string) (fun f _ d => f :: d) (fun l _ d => l :: d) (fun d => "U" :: d)
        (fun s _ => String.eqb s "mjENABLED(mjENBL_ENERGY)") (fun _ => "mjINT_EULER") prog_split [] = Some t /\
    In "U" t /\ In "mj_Euler" t /\ In "mj_fwdPosition" t /\ In "mj_fwdConstraint" t /\ In "mj_energyPos" t.
Proof. eexists. split; [vm_compute; reflexivity|]. simpl. intuition. Qed.
