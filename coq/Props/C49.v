(* C49 — Python introspection metadata matches the C headers: the clause "parsing a declared C
   type string and printing it back yields an equivalent declaration", for the model
   Model/CType.v of ast_nodes.py (decl) and type_parsing.py (parse_type).
   Only statements, each closed by a lemma of Proof/CTypeProof.v. *)
From Coq Require Import List Ascii String ZArith Bool.
From MJV Require Import Model.CType Proof.CTypeProof.
Import ListNotations.
Open Scope string_scope.

(* The printable fragment is the boolean predicate [wf] of Model/CType.v:
   no nullable flag (decl prints the word "nullable", which parse_type rejects; the flag of a
   ValueType is not printed at all), the element type of an array is not an array (decl merges the
   extents), extents are non-empty, and every value name is accepted by ValueType.__init__ and is in
   the normal form _parse_qualifiers returns (words separated by single blanks, no const/volatile
   word).  For every AST of the fragment, of any depth, with any qualifiers and any extents
   (negative ones included), parsing the printed declaration gives back the AST. *)
Theorem C49_parse_decl :
  forall t : ctype, wf t = true -> parse_type (decl t) = Some t.
Proof. exact parse_decl. Qed.
Print Assumptions C49_parse_decl.

(* For every string in the image of decl on the fragment, parsing succeeds and printing the result
   gives back the very same string (hence a whitespace-equivalent, indeed identical, declaration). *)
Theorem C49_decl_parse_image :
  forall (t : ctype) (s : string), wf t = true -> s = decl t ->
    exists t', parse_type s = Some t' /\ decl t' = s.
Proof. exact decl_parse_image. Qed.
Print Assumptions C49_decl_parse_image.

(* the one special-cased function-pointer spelling, accepted as a value name, round-trips as a
   whole type (it is outside [wf]: it cannot be qualified or wrapped and still be parsed) *)
Theorem C49_special :
  parse_type (decl (TValue special false false false)) = Some (TValue special false false false).
Proof. exact special_roundtrip. Qed.
Print Assumptions C49_special.

(* the fragment contains the types of the real metadata ... *)
Example C49_wf_const_char_ptr : wf (TPointer (V "char" true false false) false false false false) = true
  /\ decl (TPointer (V "char" true false false) false false false false) = "const char *".
Proof. vm_compute. split; reflexivity. Qed.
Example C49_wf_plugin_ptr_ptr :
  decl (TPointer (TPointer (V "mjpPlugin" true false false) false false false false) false false false false)
  = "const mjpPlugin * *"
  /\ wf (TPointer (TPointer (V "mjpPlugin" true false false) false false false false) false false false false) = true.
Proof. vm_compute. split; reflexivity. Qed.
Example C49_wf_float_2d : wf (TArray (V "float" false false false) [100%Z; 2002%Z]) = true
  /\ decl (TArray (V "float" false false false) [100%Z; 2002%Z]) = "float [100][2002]".
Proof. vm_compute. split; reflexivity. Qed.
Example C49_wf_struct_and_integral :
  wf (V "struct mjuiItemSingle_" false false false) = true /\ wf (V "unsigned char" true false false) = true
  /\ wf (V "unsigned long long" false true false) = true.
Proof. vm_compute. repeat split; reflexivity. Qed.
(* ... and nested pointer-to-array types that need the parentheses *)
Example C49_wf_ptr_to_array :
  let t := TPointer (TArray (TPointer (TArray (V "mjtNum" true false false) [3%Z]) false true false true) [2%Z; 4%Z])
                    false false true false in
  wf t = true /\ decl t = "const mjtNum (* const restrict (* volatile)[2][4])[3]" /\ parse_type (decl t) = Some t.
Proof. vm_compute. repeat split; reflexivity. Qed.

(* each condition of the fragment is needed: outside it the round trip fails in the model
   (and in the Python code: see the correspondence run) *)
Example C49_outside_array_of_array :
  parse_type (decl (TArray (TArray (V "int" false false false) [2%Z]) [3%Z]))
  = Some (TArray (V "int" false false false) [3%Z; 2%Z]).
Proof. vm_compute. reflexivity. Qed.
Example C49_outside_nullable :
  parse_type (decl (TPointer (V "int" false false false) true false false false)) = None.
Proof. vm_compute. reflexivity. Qed.
Example C49_outside_name_not_normal :
  parse_type (decl (V "unsigned const" false false false)) = Some (V "unsigned" true false false).
Proof. vm_compute. reflexivity. Qed.
