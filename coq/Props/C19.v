(* C19 — Internal stack and arena allocation is memory-safe.
   Only statements, each closed by a lemma of Proof/MemoryProof.v, followed by Print Assumptions.

   Vocabulary (Proof/MemoryProof.v):  [Inv s g ab]  is the allocator invariant of an mjData state
   s with the live stack regions g (blocks [GB a n] and mark frames [GF addr saved_pbase
   saved_top], newest first) and the live arena blocks ab;  [Bot s], [Top s], [Lim s] are the
   addresses arena+narena, arena+narena-pstack, arena+parena;  [Avail s] = narena-parena-pstack;
   [pow2 al]: al = 2^k, k < 64;  [size_ok gs size al] := gs = true \/ size + al <= 2^64 and
   [arena_ok ga s bytes al] := bytes + al + parena <= 2^64 \/ (ga = true /\ al + narena <= 2^64)
   are the no-wrap side conditions.  The first argument(s) of stack_alloc / arena_alloc / step select
   the code variant: [true] is engine_memory.c as it is now (the size is compared with the available
   bytes before the size_t arithmetic; /repo commit e39ca69d3), for which the theorems hold for
   EVERY size; [false] is the code before that repair, kept only under names C19_unguarded_*:
   there the statements need the side condition and are false without it (C19_unguarded_*_refuted,
   whose witnesses the check keeps replaying on the implementation so that a revert of the guards
   alarms).  The check determines on every run, by that replay, which variant the working tree
   implements and ties that variant by exact correspondence.
   Histories: [Exec gs gt ga ...] runs operations to completion; each step must satisfy [op_pre]:
   0 <= size < 2^64, power-of-two alignment, (unguarded only: the side condition), for the arena
   alignment + narena <= 2^64, user writes confined to a live block, threadlock not set. *)
From Coq Require Import List ZArith Bool.
From MJV Require Import Model.Memory Proof.MemoryProof.
Import ListNotations.
Open Scope Z_scope.

(* ---- returned blocks: aligned, inside [arena+parena, stack top), below every live stack region
   (blocks and frames) and above every live arena block; the invariant is re-established with the
   new block live.  Otherwise the error outcome with the state unchanged. *)
(* code before the repair: the size must satisfy size + alignment <= 2^64 *)
Theorem C19_unguarded_stack_block_partial :
  forall gt s g ab size al r s',
    Inv s g ab -> pow2 al -> 0 < size < W -> size + al <= W ->
    stack_alloc false gt s size al = (r, s') ->
    (r = RErr /\ s' = s /\ Avail s < size + al - 1)
    \/ (exists p, r = RPtr p /\ p mod al = 0 /\ Lim s <= p /\ p + size <= Top s /\
          (forall i, In i g -> p + size <= g_lo i) /\
          (forall a n, In (a, n) ab -> a + n <= p) /\
          Top s' = p /\ pbase s' = pbase s /\ parena s' = parena s /\
          Inv s' (GB p size :: g) ab).
Proof. exact c19_stack_block_partial_lem. Qed.
Print Assumptions C19_unguarded_stack_block_partial.

(* the code as it is: every size in (0, 2^64) *)
Theorem C19_stack_block :
  forall gt s g ab size al r s',
    Inv s g ab -> pow2 al -> 0 < size < W ->
    stack_alloc true gt s size al = (r, s') ->
    (r = RErr /\ s' = s /\ Avail s < size + al - 1)
    \/ (exists p, r = RPtr p /\ p mod al = 0 /\ Lim s <= p /\ p + size <= Top s /\
          (forall i, In i g -> p + size <= g_lo i) /\
          (forall a n, In (a, n) ab -> a + n <= p) /\
          Top s' = p /\ pbase s' = pbase s /\ parena s' = parena s /\
          Inv s' (GB p size :: g) ab).
Proof. exact c19_stack_block_guarded_lem. Qed.
Print Assumptions C19_stack_block.

(* the statement is false of the code before the repair when size + alignment > 2^64: in a state that
   satisfies the invariant, with fewer than size bytes available, mj_stackAllocByte(2^64-1, 8)
   returns a "block" that starts at the live mark frame and ends beyond the arena, and raises no
   error.  The witness stays in the corpus of the check (it must now give mju_error). *)
Theorem C19_unguarded_wrap_refuted :
  exists s g ab size al p s',
    Inv s g ab /\ pow2 al /\ 0 < size < W /\ Avail s < size /\
    stack_alloc false false s size al = (RPtr p, s') /\
    Bot s < p + size /\ (exists spb t, In (GF p spb t) g) /\ s' = s.
Proof. exact wrap_refuted. Qed.
Print Assumptions C19_unguarded_wrap_refuted.

(* arena blocks are aligned relative to d->arena: absolute alignment needs d->arena aligned *)
Theorem C19_unguarded_arena_block_partial :
  forall s g ab bytes al r s',
    Inv s g ab -> pow2 al -> 0 <= bytes < W -> bytes + al + parena s <= W ->
    arena_alloc false s bytes al = (r, s') ->
    (r = RNull /\ s' = s /\ Avail s < bytes + al - 1)
    \/ (exists p, r = RPtr p /\ (base s mod al = 0 -> p mod al = 0) /\ Lim s <= p /\ p + bytes <= Top s /\
          (forall i, In i g -> p + bytes <= g_lo i) /\
          (forall a n, In (a, n) ab -> a + n <= p) /\
          Lim s' = p + bytes /\ pstack s' = pstack s /\ pbase s' = pbase s /\
          Inv s' g ((p, bytes) :: ab)).
Proof. exact c19_arena_block_partial_lem. Qed.
Print Assumptions C19_unguarded_arena_block_partial.

(* every size; the alignment must not be absurdly large (al + narena <= 2^64) *)
Theorem C19_arena_block :
  forall s g ab bytes al r s',
    Inv s g ab -> pow2 al -> 0 <= bytes < W -> al + narena s <= W ->
    arena_alloc true s bytes al = (r, s') ->
    (r = RNull /\ s' = s /\ Avail s < bytes + al - 1)
    \/ (exists p, r = RPtr p /\ (base s mod al = 0 -> p mod al = 0) /\ Lim s <= p /\ p + bytes <= Top s /\
          (forall i, In i g -> p + bytes <= g_lo i) /\
          (forall a n, In (a, n) ab -> a + n <= p) /\
          Lim s' = p + bytes /\ pstack s' = pstack s /\ pbase s' = pbase s /\
          Inv s' g ((p, bytes) :: ab)).
Proof. exact c19_arena_block_guarded_lem. Qed.
Print Assumptions C19_arena_block.

(* false of the code before the repair: a request of 2^64-8 bytes succeeds with 240 bytes available and
   moves parena backwards; the next honest request then overlaps a live arena block *)
Theorem C19_unguarded_arena_wrap_refuted :
  exists s g ab bytes p s' p2 s'',
    Inv s g ab /\ 0 <= bytes < W /\ Avail s < bytes /\
    arena_alloc false s bytes 1 = (RPtr p, s') /\ parena s' < parena s /\
    arena_alloc false s' 8 1 = (RPtr p2, s'') /\
    (exists a n, In (a, n) ab /\ a <= p2 < a + n).
Proof. exact arena_wrap_refuted. Qed.
Print Assumptions C19_unguarded_arena_wrap_refuted.

(* mj_markStack: the frame is a block like any other, or the error outcome *)
Theorem C19_mark :
  forall gs s g ab r s',
    Inv s g ab -> mark gs s = (r, s') ->
    (r = RErr /\ s' = s /\ Avail s < FRAME + FALIGN - 1)
    \/ (r = RUnit /\ pbase s' mod FALIGN = 0 /\ Lim s <= pbase s' /\ pbase s' + FRAME <= Top s /\
        (forall i, In i g -> pbase s' + FRAME <= g_lo i) /\
        (forall a n, In (a, n) ab -> a + n <= pbase s') /\
        Inv s' (GF (pbase s') (pbase s) (Top s) :: g) ab).
Proof. exact mark_thm. Qed.
Print Assumptions C19_mark.

(* ---- histories.  [Exec] runs a list of operations to completion (no error exit); every step
   must satisfy [op_pre]: sizes/alignments as above, user writes confined to a live block,
   threadlock not set.  The invariant holds after every such history, from every state that
   satisfies it (in particular from a fresh mjData, C19_init). *)
Theorem C19_invariant :
  forall gs gt ga s g ab ops s' g' ab',
    Inv s g ab -> Exec gs gt ga s g ab ops s' g' ab' -> Inv s' g' ab'.
Proof. exact Exec_inv. Qed.
Print Assumptions C19_invariant.

Theorem C19_init :
  forall b n, 0 < b -> 0 <= n -> b + n < W -> Inv (init b n 0 0) [] [].
Proof. exact init_inv. Qed.
Print Assumptions C19_init.

(* freeing restores the marked stack pointer: for every well-nested l1 (allocations, arena
   allocations, user writes into live blocks, nested mark ... free), after  mark; l1; free  the
   values of pstack and pbase and the set of live stack regions are those before the mark *)
Theorem C19_mark_free :
  forall gs gt ga l1 s g ab s' g' ab',
    wn l1 -> Inv s g ab -> Exec gs gt ga s g ab (OMark :: l1 ++ [OFree]) s' g' ab' ->
    pstack s' = pstack s /\ pbase s' = pbase s /\ g' = g /\ Inv s' g' ab'.
Proof. exact mark_free_thm. Qed.
Print Assumptions C19_mark_free.

(* a call that brackets all its stack use (arena allocations and writes outside the brackets are
   allowed) returns with the stack pointer it started with *)
Theorem C19_balanced :
  forall gs gt ga l, bal l ->
  forall s g ab s' g' ab', Inv s g ab -> Exec gs gt ga s g ab l s' g' ab' ->
    pstack s' = pstack s /\ pbase s' = pbase s /\ g' = g /\ Inv s' g' ab'.
Proof. exact bal_restores. Qed.
Print Assumptions C19_balanced.

(* ---- exhaustion *)
Theorem C19_unguarded_exhaust_stack_partial :
  forall gt s g ab size al,
    Inv s g ab -> pow2 al -> 0 < size < W -> size + al <= W -> Avail s < size ->
    stack_alloc false gt s size al = (RErr, s).
Proof. exact c19_exhaust_stack_partial_lem. Qed.
Print Assumptions C19_unguarded_exhaust_stack_partial.

Theorem C19_exhaust_stack :
  forall gt s g ab size al,
    Inv s g ab -> pow2 al -> 0 < size < W -> Avail s < size ->
    stack_alloc true gt s size al = (RErr, s).
Proof. exact c19_exhaust_stack_guarded_lem. Qed.
Print Assumptions C19_exhaust_stack.

Theorem C19_unguarded_exhaust_arena_partial :
  forall s g ab bytes al,
    Inv s g ab -> pow2 al -> 0 <= bytes < W -> bytes + al + parena s <= W -> Avail s < bytes ->
    arena_alloc false s bytes al = (RNull, s).
Proof. exact c19_exhaust_arena_partial_lem. Qed.
Print Assumptions C19_unguarded_exhaust_arena_partial.

Theorem C19_exhaust_arena :
  forall s g ab bytes al,
    Inv s g ab -> pow2 al -> 0 <= bytes < W -> al + narena s <= W -> Avail s < bytes ->
    arena_alloc true s bytes al = (RNull, s).
Proof. exact c19_exhaust_arena_guarded_lem. Qed.
Print Assumptions C19_exhaust_arena.

(* ---- concurrent reservations under the thread lock.  A schedule is any list of actions
   "thread t executes the fetch-add of stackalloc(size, al)" / "thread t executes the rest of its
   call" (SC, one atomic operation per step, any number of threads, any interleaving).  All
   returned blocks are pairwise disjoint, aligned and inside [arena+parena, arena+narena-P0).
   Assumed: requests satisfy the same side condition (size + al <= 2^64 unless guarded), and
   the sum of the reserved sizes does not wrap pstack. *)
Theorem C19_concurrent :
  forall gd b na pa P0, 0 < b -> 0 <= pa <= na -> b + na < W -> 0 <= P0 ->
  forall sched,
    Forall (req_ok gd) sched -> P0 + total sched < W ->
    let c := crun gd b na pa (mkcst P0 [] []) sched in
    ForallOrdPairs (blocks_disj) (c_done c) /\
    (forall size al p, In (size, al, RPtr p) (c_done c) ->
       p mod al = 0 /\ b + pa <= p /\ p + size <= b + na - P0).
Proof. exact c19_concurrent_lem. Qed.
Print Assumptions C19_concurrent.

(* the sequential function on a locked mjData is reserve-then-finish of the concurrent model *)
Theorem C19_tl_sequential :
  forall gs gt s size al, tlock s = true -> size <> 0 ->
    tl_pre_error gt (narena s) (parena s) size al = false ->
    stack_alloc gs gt s size al =
      (tl_finish gt (base s) (narena s) (parena s) (fst (tl_reserve s size al)) size al,
       snd (tl_reserve s size al)).
Proof. exact stack_alloc_tl. Qed.
Print Assumptions C19_tl_sequential.

(* false of the thread-lock branch before the repair: size + alignment - 1 wraps *)
Theorem C19_unguarded_tl_wrap_refuted :
  exists s g ab size p s',
    Inv s g ab /\ 0 < size < W /\ Avail s < size /\
    stack_alloc false false (lock s) size 8 = (RPtr p, s') /\
    (exists n, In (GB p n) g) /\ Bot s < p + size.
Proof. exact tl_wrap_refuted. Qed.
Print Assumptions C19_unguarded_tl_wrap_refuted.

(* ---- usage statistics are upper bounds *)
Theorem C19_stats :
  forall gs gt ga s g ab ops s' g' ab',
    Inv s g ab -> Exec gs gt ga s g ab ops s' g' ab' ->
    pstack s' <= maxs s' /\ pstack s' + parena s' <= maxa s'.
Proof. exact stats_thm. Qed.
Print Assumptions C19_stats.

(* non-vacuity: a concrete history with a nested frame, a block, an arena block and a user write
   into the block runs to completion from a fresh mjData *)
Example C19_example :
  run true true true (init 4096 256 0 0)
      [OMark; OSAlloc 10 8; OWrite 4312 10 7; OAAlloc 16 8; OMark; OSAlloc 300 1; OFree; OFree]
  = [[0; 0; 24; 0; 4328; 24; 24]; [2; 4312; 40; 0; 4328; 40; 40]; [2; 4096; 40; 16; 4328; 40; 56];
     [0; 0; 64; 16; 4288; 64; 80]; [3; 0; 64; 16; 4288; 64; 80]; [0; 0; 40; 16; 4328; 64; 80];
     [0; 0; 0; 16; 0; 64; 80]].
Proof. vm_compute. reflexivity. Qed.

(* the former wrap witness on the code as it is: error outcome, state unchanged *)
Example C19_example_wrap_now_rejected :
  stack_alloc true true wit_s (W - 1) 8 = (RErr, wit_s) /\
  arena_alloc true wit_a (W - 8) 1 = (RNull, wit_a) /\
  stack_alloc true true (lock wit_t) (W - 1) 8 = (RErr, lock wit_t).
Proof. vm_compute. repeat split; reflexivity. Qed.
