(* C36 — equivalent model descriptions compile to equivalent physics.
   Model: Model/Orient.v (ResolveOrientation = mjs_resolveOrientation with mjuu_normvec / mjuu_z2quat / mjuu_frame2quat,
   mjCFrame::Compile and the frame arm of the element Compile functions, default-class copying) and
   Model/Inertia.v (mjuu_frameaccum, mjuu_mulquat); proofs: Proof/OrientProof.v.
   Numeric statements are over the reals.  mjEPS = 1e-14 is the threshold of mjuu_normvec: a vector whose squared norm is
   below it is rejected ("too small"), and a vector whose norm is within mjEPS of 1 (but not 1) is left un-normalised by
   the C code: the theorems exclude that window explicitly. *)
From Coq Require Import ZArith List PrimFloat Reals Lra Bool String Ascii.
From MJV Require Import Lib.Num Lib.NumR Model.Spatial Proof.SpatialProof Model.Inertia Proof.InertiaProof Model.Orient Proof.OrientProof.
Import ListNotations.
Open Scope R_scope.

(* ---- orientation spellings: each spelling resolves to (a quaternion of) the rotation it denotes *)

(* axisangle: the unit quaternion of the rotation by the angle (radians, or degrees converted by /180*pi) about the
   normalised axis; its matrix is Rodrigues' formula; an axis with squared norm below mjEPS is an error; the degree
   spelling equals the radian spelling of the converted angle *)
Theorem C36_orient_axisangle (degree : bool) (ax : vec3 R) (angle : R) :
  (mjEPS <= dot3 ax ax -> (norm3 ax = 1 \/ mjEPS < Rabs (norm3 ax - 1)) ->
   let a := scl3 ax (/ norm3 ax) in
   let q := axisAngle_reg a (toRad degree angle) in
   resolveAxisAngle degree ax angle = Some q /\ unitq q /\ quat2Mat q = rodrigues a (toRad degree angle)) /\
  (dot3 ax ax < mjEPS -> resolveAxisAngle degree ax angle = None) /\
  resolveAxisAngle true ax angle = resolveAxisAngle false ax (angle / 180 * PI).
Proof.
  split; [exact (resolveAxisAngle_spec degree ax angle)|].
  split; [exact (resolveAxisAngle_small degree ax angle) | exact (resolveAxisAngle_degree ax angle)].
Qed.
Print Assumptions C36_orient_axisangle.

(* euler, EVERY sequence over xyzXYZ (only the first three characters are read), radians or degrees: the result is the
   ordered product  [upper-case factors, in reverse order] * [lower-case factors, in order],  each factor being the rotation
   about the named coordinate axis (rotOf = axisAngle2Quat of the unit axis, proved to be Rodrigues' matrix in C24);
   it is a unit quaternion; a sequence shorter than three characters or with another character is an error;
   the degree spelling equals the radian spelling of the converted angles *)
Theorem C36_orient_euler (degree : bool) (c0 c1 c2 : ascii) (rest : list ascii) (e : vec3 R) (seq : list ascii) :
  (Forall validEuler [c0; c1; c2] ->
   let es := map (toRad degree) (v2l e) in
   let q := mulQuat (qprod (rev (factors false [c0; c1; c2] es))) (qprod (factors true [c0; c1; c2] es)) in
   resolveEuler degree (c0 :: c1 :: c2 :: rest) e = Some q /\ unitq q) /\
  (~ Forall validEuler (firstn 3 seq) \/ (List.length seq < 3)%nat -> resolveEuler degree seq e = None) /\
  resolveEuler true seq e = resolveEuler false seq (let '(e0, e1, e2) := e in (e0 / 180 * PI, e1 / 180 * PI, e2 / 180 * PI)).
Proof.
  split; [exact (resolveEuler_spec degree c0 c1 c2 rest e)|].
  split; [exact (resolveEuler_invalid degree seq e) | exact (resolveEuler_degree seq e)].
Qed.
Print Assumptions C36_orient_euler.

(* xyaxes: for the rotation given by the unit quaternion p, the spelling x = s * (first column of its matrix),
   y = t * (second column) + k * x  (any positive scales, any skew along x: the code orthogonalises) resolves to p or -p,
   i.e. to the same rotation *)
Theorem C36_orient_xyaxes (p : quat R) (s t k : R) : unitq p -> 0 < s -> 0 < t ->
  mjEPS <= s * s -> (s = 1 \/ mjEPS < Rabs (s - 1)) -> mjEPS <= t * t -> (t = 1 \/ mjEPS < Rabs (t - 1)) ->
  let m := quat2Mat p in
  let x := scl3 (col3 m 0) s in
  let y := add3 (scl3 (col3 m 1) t) (scl3 x k) in
  resolveXYAxes x y = Some p \/ resolveXYAxes x y = Some (qopp p).
Proof. exact (resolveXYAxes_spec p s t k). Qed.
Print Assumptions C36_orient_xyaxes.

(* zaxis: the result is a unit quaternion whose rotation maps the z axis onto z/|z| and whose own z component is 0 (the
   rotation axis lies in the xy plane: the minimal rotation).  Excluded: directions within 1e-7 of +-z but not equal to
   them (the code treats them as +-z), and the mjEPS windows of mjuu_normvec.  A vector below the threshold is an error. *)
Theorem C36_orient_zaxis (z : vec3 R) :
  (mjEPS <= dot3 z z -> (norm3 z = 1 \/ mjEPS < Rabs (norm3 z - 1)) ->
   let v := scl3 z (/ norm3 z) in
   let sig2 := fst (fst v) * fst (fst v) + snd (fst v) * snd (fst v) in
   (sig2 = 0 \/ (mjEPS <= sig2 /\ (sqrt sig2 = 1 \/ mjEPS < Rabs (sqrt sig2 - 1)))) ->
   exists q : quat R, resolveZAxis z = Some q /\ unitq q /\ col3 (quat2Mat q) 2 = v /\ snd q = 0) /\
  (dot3 z z < mjEPS -> resolveZAxis z = None).
Proof. split; [exact (resolveZAxis_spec z) | exact (resolveZAxis_small z)]. Qed.
Print Assumptions C36_orient_zaxis.

(* ---- frames: an element with pose `own` wrapped in any number of nested frames (outermost first), compiled the way
   mjCFrame::Compile and the element's Compile do it, has the pose written out directly  f1 o (f2 o (... o own));
   for unit quaternions (mjuu_frameaccum composition is associative) *)
Theorem C36_frames (frames : list (pose R)) (own : pose R) :
  Forall unitp frames -> unitp own -> elementInFrames frames own = elementWrittenOut frames own.
Proof. exact (elementInFrames_eq frames own). Qed.
Print Assumptions C36_frames.

Theorem C36_frameaccum_assoc (a b c : pose R) : unitp a -> unitp b -> unitp c ->
  frameaccum (frameaccum a b) c = frameaccum a (frameaccum b c).
Proof. exact (frameaccum_assoc a b c). Qed.
Print Assumptions C36_frameaccum_assoc.

(* ---- default classes (discrete): resolving an attribute of an element through a chain of nested classes (outermost
   first; every class is created as a copy of its parent and then overwritten, the element as a copy of its class) gives
   the element's own setting if any, else the setting of the innermost class that sets it, else the built-in value:
   exactly what writing that value explicitly gives *)
Theorem C36_defaults (V : Type) (builtin : Z -> V) (chain : list (@attrs V)) (own : @attrs V) (a : Z) :
  resolveElement builtin chain own a =
  match own a with Some v => v | None => match innermost chain a with Some v => v | None => builtin a end end.
Proof. exact (resolveElement_spec builtin chain own a). Qed.
Print Assumptions C36_defaults.

(* ---- fusestatic, PARTIAL: only the mass-property algebra.  A set of geoms may be replaced by one lumped body (total mass M
   at its centre of mass c2, carrying the set's tensor about c2) without changing the mass, the first moment or the inertia
   tensor about any point c (general parallel-axis theorem).  Missing: mjCBody::AccumulateInertia / the re-parenting of the
   fused body's children, joints and geoms are not modelled (covered by the simulation oracle only). *)
Theorem C36_fuse_partial (l : list (cgeom R)) (c : vec3 R) : sumM l <> 0 ->
  let M := sumM l in
  let c2 := scl3 (sumMP l) (/ M) in
  scl3 c2 M = sumMP l /\
  sum6 (map (tensorAbout c) l) = add6 (sum6 (map (tensorAbout c2) l)) (offcenter M (sub3 c2 c)).
Proof. exact (lumped_equivalent l c). Qed.
Print Assumptions C36_fuse_partial.

(* ---- degrees versus radians for the angle-valued joint attributes (mjCJoint::Compile): with compiler.degree the limit range
   of a limited HINGE or BALL joint written in degrees (x*180/pi) compiles to x, exactly what the radian spelling gives; ref and
   springref likewise for hinge joints; slide (lengths), free and unlimited joints are copied unchanged in both spellings *)
Theorem C36_joint_degree (jtype : Z) (limited : bool) (lo hi x : R) :
  (jointRange true jtype limited (if (limited && ((jtype =? 3)%Z || (jtype =? 1)%Z))%bool then (lo * 180 / PI, hi * 180 / PI) else (lo, hi))
   = (lo, hi) /\ jointRange false jtype limited (lo, hi) = (lo, hi)) /\
  (jointRef true jtype (if (jtype =? 3)%Z then x * 180 / PI else x) = x /\ jointRef false jtype x = x).
Proof. split; [exact (jointRange_degree jtype limited lo hi) | exact (jointRef_degree jtype x)]. Qed.
Print Assumptions C36_joint_degree.

(* ---- nested attachment (discrete model of mjCModel::FindSpec): for ANY attachment tree (A attached into B attached into C, ...)
   the spec found for a compiler is the one that owns it -- never an intermediate spec -- and every compiler of the tree is found;
   hence an attached element is compiled with the angle unit / euler sequence of the spec it was written in, at every depth *)
Theorem C36_findspec (t : spectree) (c : Z) :
  (forall x : Z, findSpec t c = Some x -> x = c) /\ (In c (compilers t) -> findSpec t c = Some c).
Proof. exact (findSpec_spec t c). Qed.
Print Assumptions C36_findspec.

(* the premises are satisfiable *)
Example C36_example_unit : unitq (/ 2, / 2, / 2, / 2) /\ Forall validEuler ["x"%char; "Y"%char; "z"%char] /\
  mjEPS <= dot3 (0, 0, 2) (0, 0, 2) /\ mjEPS < Rabs (norm3 (0, 0, 2) - 1) /\ unitp ((1, 2, 3), (/ 2, / 2, - / 2, / 2)).
Proof.
  split; [unfold unitq, qnorm2; lra|]. split.
  - constructor; [unfold validEuler; auto|]. constructor; [unfold validEuler; auto 10|]. constructor; [unfold validEuler; auto 10|]. constructor.
  - rewrite mjEPS_R. unfold norm3, dot3. num_R. split; [lra|]. split.
    + replace (0 * 0 + 0 * 0 + 2 * 2) with (2 * 2) by ring. rewrite sqrt_square by lra.
      replace (2 - 1) with 1 by ring. rewrite Rabs_R1. lra.
    + unfold unitp, unitq, qnorm2. simpl. lra.
Qed.
