(* C36 — equivalent model descriptions compile to equivalent physics. *)
From Coq Require Import ZArith List PrimFloat Reals Lra Bool String Ascii.
From MJV Require Import Lib.Num Lib.NumR Model.Spatial Proof.SpatialProof Model.Inertia Proof.InertiaProof Model.Orient Proof.OrientProof.
Import ListNotations.
Open Scope R_scope.

(* default classes: resolving an attribute of an element through a chain of nested classes (outermost first) gives the element's
   own setting if any, else the setting of the innermost class that sets it, else the built-in value *)
Theorem C36_defaults (V : Type) (builtin : Z -> V) (chain : list (@attrs V)) (own : @attrs V) (a : Z) :
  resolveElement builtin chain own a =
  match own a with Some v => v | None => match innermost chain a with Some v => v | None => builtin a end end.
Proof. exact (resolveElement_spec builtin chain own a). Qed.
Print Assumptions C36_defaults.
