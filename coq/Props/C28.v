(* C28 — Sensors report the quantities they are documented to measure.
   Only statements, each closed by a lemma of Proof/SensorProof.v, followed by Print Assumptions.
   Model: Model/Sensor.v (layout written by the compiler, a stage writing through (adr, dim),
   apply_cutoff, the reference-frame change of the frame sensors).  The numeric statements are
   about the model instantiated at R (exact real arithmetic).
   Vocabulary: nonneg dims := every dim is >= 0 (SensorProof); in_slice adr dim k := adr <= k < adr + dim;
   unitq, skew: Proof/SpatialProof.v (C24).
   Not stated as theorems: the 40-odd sensor formulas themselves (oracle on the implementation only). *)
From Coq Require Import ZArith List PrimFloat Reals Bool.
From MJV Require Import Lib.Num Lib.NumR Model.Spatial Model.Sensor Proof.SpatialProof Proof.SensorProof.
Import ListNotations.

(* ---------------- the layout (sensor_adr = prefix sums of sensor_dim, nsensordata = their sum), for
   EVERY list of non-negative dims: as many addresses as sensors, every slice inside
   [0, nsensordata), distinct sensors have disjoint slices, and every index of sensordata belongs
   to some sensor (the slices cover sensordata exactly) *)
Theorem C28_slices :
  forall dims : list Z, nonneg dims ->
    let adrs := layout dims in
    length adrs = length dims /\
    (forall i : nat, (i < length dims)%nat ->
       (0 <= nth i adrs 0 /\ nth i adrs 0 + nth i dims 0 <= nsensordata dims)%Z) /\
    (forall (i j : nat) (k : Z), (i < length dims)%nat -> (j < length dims)%nat -> i <> j ->
       in_slice (nth i adrs 0%Z) (nth i dims 0%Z) k -> ~ in_slice (nth j adrs 0%Z) (nth j dims 0%Z) k) /\
    (forall k : Z, (0 <= k < nsensordata dims)%Z ->
       exists i : nat, (i < length dims)%nat /\ in_slice (nth i adrs 0%Z) (nth i dims 0%Z) k).
Proof. exact slices_spec. Qed.
Print Assumptions C28_slices.

(* ---------------- a stage that writes sensor i only through (sensor_adr[i], sensor_dim[i]), whatever
   the values are and whatever they depend on (compute i may read the whole current sensordata),
   for every selection of sensors: the array keeps its length, the slice of every sensor that is
   NOT processed by the stage is untouched, and the slice of a processed sensor holds at the end
   exactly the values that sensor wrote (no later sensor of the stage overwrites them) *)
Theorem C28_stage_writes_own_slice :
  forall (A : Type) (sel : nat -> bool) (compute : nat -> list A -> list A) (dflt : A)
         (dims : list Z) (data : list A),
    nonneg dims -> Z.of_nat (length data) = nsensordata dims ->
    (forall (i : nat) (dat : list A), length (compute i dat) = Z.to_nat (nth i dims 0%Z)) ->
    let out := stage sel compute (layout dims) 0 data in
    length out = length data /\
    (forall (j k : nat), (j < length dims)%nat -> sel j = false ->
       in_slice (nth j (layout dims) 0%Z) (nth j dims 0%Z) (Z.of_nat k) -> nth k out dflt = nth k data dflt) /\
    (forall j : nat, (j < length dims)%nat -> sel j = true ->
       exists dat : list A, length dat = length data /\
         forall k : nat, in_slice (nth j (layout dims) 0%Z) (nth j dims 0%Z) (Z.of_nat k) ->
           nth k out dflt = nth (k - Z.to_nat (nth j (layout dims) 0%Z)) (compute j dat) dflt).
Proof. exact stage_spec. Qed.
Print Assumptions C28_stage_writes_own_slice.

Open Scope R_scope.

(* ---------------- apply_cutoff with its branches as written (exempt = type is CONTACT or GEOMFROMTO;
   dt = sensor_datatype: 0 REAL, 1 POSITIVE, other = AXIS / QUATERNION), for every data vector:
   length kept; identity when cutoff <= 0 (in particular cutoff = 0), for exempt types and for
   axis / quaternion data; REAL data is clamped to [-c, c] (saturating, identity inside);
   POSITIVE data is clamped from above only (min(c, x): non-negative readings land in [0, c]);
   idempotent in every case *)
Theorem C28_cutoff :
  forall (c : R) (exempt : bool) (dt : Z) (data : list R),
    let out := apply_cutoff c exempt dt data in
    length out = length data /\
    (c <= 0 -> out = data) /\
    (exempt = true -> out = data) /\
    (dt <> 0%Z -> dt <> 1%Z -> out = data) /\
    (0 < c -> exempt = false -> dt = 0%Z ->
       Forall2 (fun x y : R => - c <= y <= c /\ (x < - c -> y = - c) /\ (- c <= x <= c -> y = x) /\ (c < x -> y = c)) data out) /\
    (0 < c -> exempt = false -> dt = 1%Z ->
       Forall2 (fun x y : R => y <= c /\ (x <= c -> y = x) /\ (c < x -> y = c) /\ (0 <= x -> 0 <= y <= c)) data out) /\
    apply_cutoff c exempt dt out = out.
Proof. exact cutoff_spec. Qed.
Print Assumptions C28_cutoff.

(* ---------------- reference frames.  Partial: these are statements about the kernels of
   mj_computeSensorPos / mj_computeSensorVel given that xmat_ref is the rotation matrix of a unit
   quaternion (that xmat/xquat of the reference object are consistent is mj_kinematics' job and is
   only observed by the oracle), and the velocity statement is the algebraic product rule, not a
   derivative in the analytic sense.
   (a) FRAMEPOS with a reference, R_ref^T (x - x_ref), is the action of the inverse reference pose
       (C24 negPose / trnVecPose), hence the two-sided inverse of trnVecPose (x_ref, q_ref);
   (b) FRAMEQUAT with a reference is the unique r with q_ref * r = q_obj, its matrix is R_ref^T R_obj, unit;
   (c) FRAME[XYZ]AXIS with a reference are the columns of the matrix of (b);
   (d) FRAMELINVEL with a reference is Rdot^T (x - x_ref) + R^T (v - v_ref) for Rdot = [w_ref]x R,
       FRAMEANGVEL is R^T (w - w_ref) *)
Theorem C28_frame_ref_partial :
  (forall (x y pr : vec3 R) (q : quat R), unitq q ->
     frame_pos_ref x pr (quat2Mat q) = trnVecPose (negPose (pr, q)) x /\
     trnVecPose (pr, q) (frame_pos_ref x pr (quat2Mat q)) = x /\
     frame_pos_ref (trnVecPose (pr, q) y) pr (quat2Mat q) = y) /\
  (forall (qobj qref : quat R), unitq qref ->
     mulQuat qref (frame_quat_ref qobj qref) = qobj /\
     (forall r : quat R, mulQuat qref r = qobj -> r = frame_quat_ref qobj qref) /\
     quat2Mat (frame_quat_ref qobj qref) = mulMatMat3 (transpose3 (quat2Mat qref)) (quat2Mat qobj) /\
     (unitq qobj -> unitq (frame_quat_ref qobj qref))) /\
  (forall (qobj qref : quat R) (offset : Z),
     frame_axis_ref (quat2Mat qobj) offset (quat2Mat qref) =
     mat_col (quat2Mat (frame_quat_ref qobj qref)) offset) /\
  (forall (x xr : vec3 R) (Rm : mat3 R) (ang lin angr linr : vec3 R),
     snd (frame_vel_ref x xr Rm ang lin angr linr) =
       add3 (mulMatTVec3 (mulMatMat3 (skew angr) Rm) (sub3 x xr)) (mulMatTVec3 Rm (sub3 lin linr)) /\
     fst (frame_vel_ref x xr Rm ang lin angr linr) = mulMatTVec3 Rm (sub3 ang angr)).
Proof.
  exact (conj (fun x y pr q U => conj (frame_pos_negPose x pr q U) (frame_pos_inverse x y pr q U))
        (conj frame_quat_spec (conj frame_axis_spec frame_vel_product_rule))).
Qed.
Print Assumptions C28_frame_ref_partial.

(* ---------------- non-vacuity *)
Example C28_layout_example :
  layout [3; 0; 4; 1]%Z = [0; 3; 3; 7]%Z /\ nsensordata [3; 0; 4; 1]%Z = 8%Z.
Proof. vm_compute. split; reflexivity. Qed.

Example C28_stage_example :
  stage (fun i => Nat.eqb i 1 || Nat.eqb i 3) (fun i _ => repeat (Z.of_nat i) (nth i [2; 1; 0; 2]%nat 0%nat))
        (layout [2; 1; 0; 2]%Z) 0 [9; 9; 9; 9; 9]%Z = [9; 9; 1; 3; 3]%Z.
Proof. vm_compute. reflexivity. Qed.

Example C28_cutoff_example :
  apply_cutoff 2 false 0%Z [3; -5; 1] = [2; -2; 1] /\ apply_cutoff 2 false 1%Z [3; -5; 1] = [2; -5; 1] /\
  apply_cutoff 2 true 0%Z [3; -5; 1] = [3; -5; 1] /\ apply_cutoff 2 false 3%Z [3; -5; 1] = [3; -5; 1].
Proof. exact cutoff_example. Qed.
