(* C30 — Numerical blow-ups are contained.
   Only statements, each closed by a lemma of Proof/ChecksProof.v, followed by Print Assumptions.
   FR x is the real value of the binary64 x (Flocq's B2R (Prim2B x): 0 for NaN and infinities),
   MAXR = 10^10 = mjMAXVAL. *)
From Coq Require Import ZArith List Bool Reals Floats.
From MJV Require Import Lib.Num Lib.NumR Model.Checks Proof.ChecksProof.
Import ListNotations.

(* mju_isBad, for every binary64 value: bad iff NaN, or an infinity, or real value outside
   [-1e10, 1e10] (the bounds themselves are not bad). *)
Theorem C30_isbad :
  forall x : float,
    isBad x = true <->
    (PrimFloat.is_nan x = true \/ PrimFloat.is_infinity x = true \/ (FR x > MAXR)%R \/ (FR x < - MAXR)%R).
Proof. exact isBad_spec. Qed.
Print Assumptions C30_isbad.

(* the special values, decided by computation with the primitive floats *)
Theorem C30_isbad_special :
  isBad PrimFloat.nan = true /\ isBad PrimFloat.infinity = true /\ isBad PrimFloat.neg_infinity = true /\
  isBad mjMAXVAL = false /\ isBad (PrimFloat.opp mjMAXVAL) = false /\ isBad PrimFloat.zero = false /\
  isBad PrimFloat.neg_zero = false.
Proof. exact isBad_special. Qed.
Print Assumptions C30_isbad_special.

(* mj_checkPos / mj_checkVel for ANY visiting order es of (index, value) pairs (so also the
   sleep-filtered loop), any data d, any warning kind k, both settings of autoreset:
   - no bad value visited: data unchanged;
   - otherwise there is a FIRST bad visited pair, with index i, and the result is
       autoreset on : the reset data (core = s0, all warnings zero) with warning k = (number 1, lastinfo i)
       autoreset off: d with only warning k changed to (number + 2, lastinfo i)
         [mj_warning increments, then the check function increments again: what the code does]. *)
Theorem C30_check :
  forall (S : Type) (k : nat) (autoreset : bool) (s0 : S) (es : list (Z * float)) (d : Data S),
    (Forall (fun e => isBad (snd e) = false) es -> check k autoreset s0 es d = d) /\
    (Exists (fun e => isBad (snd e) = true) es ->
       exists i, FirstBad es i /\
         check k autoreset s0 es d = if autoreset then reset_with s0 k i else warned_twice d k i).
Proof. exact (@check_main). Qed.
Print Assumptions C30_check.

(* meaning of FirstBad: the visited list splits at the reported index with nothing bad before *)
Theorem C30_firstbad :
  forall es i, FirstBad es i <->
    exists pre x post, es = pre ++ (i, x) :: post /\ isBad x = true /\
                       Forall (fun e => isBad (snd e) = false) pre.
Proof. exact FirstBad_split. Qed.
Print Assumptions C30_firstbad.

(* mj_checkPos and mj_checkVel as called by mj_step (loop 0..n-1 over the vector [get (core d)]):
   the reported index is the position of the first bad entry *)
Theorem C30_check_posvel :
  forall (S : Type) (autoreset : bool) (s0 : S) (get : S -> list float) (d : Data S),
    let v := get (core d) in
    (Forall (fun x => isBad x = false) v ->
       checkPos autoreset s0 get d = d /\ checkVel autoreset s0 get d = d) /\
    (Exists (fun x => isBad x = true) v ->
       exists i : nat, (i < length v)%nat /\ isBad (nth i v PrimFloat.zero) = true /\
         (forall j, (j < i)%nat -> isBad (nth j v PrimFloat.zero) = false) /\
         checkPos autoreset s0 get d =
           (if autoreset then reset_with s0 WARN_BADQPOS (Z.of_nat i) else warned_twice d WARN_BADQPOS (Z.of_nat i)) /\
         checkVel autoreset s0 get d =
           (if autoreset then reset_with s0 WARN_BADQVEL (Z.of_nat i) else warned_twice d WARN_BADQVEL (Z.of_nat i))).
Proof. exact (@checkPosVel_main). Qed.
Print Assumptions C30_check_posvel.

(* mj_checkAcc: as C30_check, and after a reset the (abstract) mj_forward is applied *)
Theorem C30_checkacc :
  forall (S : Type) (autoreset : bool) (s0 : S) (fwd : Data S -> Data S) (es : list (Z * float)) (d : Data S),
    (Forall (fun e => isBad (snd e) = false) es -> checkAcc autoreset s0 fwd es d = d) /\
    (Exists (fun e => isBad (snd e) = true) es ->
       exists i, FirstBad es i /\
         checkAcc autoreset s0 fwd es d =
           if autoreset then fwd (reset_with s0 WARN_BADQACC i) else warned_twice d WARN_BADQACC i).
Proof. exact (@checkAcc_main). Qed.
Print Assumptions C30_checkacc.

(* the two result states, read through the warning array: the counter of the kind is exactly one
   above the reset counter (autoreset on) resp. old + 2 (autoreset off), lastinfo is i, every
   other warning is as in the reset data resp. unchanged, and the rest of the data is the reset
   data resp. unchanged *)
Theorem C30_counters :
  forall (S : Type) (s0 : S) (d : Data S) (k : nat) (i : Z),
    (k < NWARNING)%nat -> (k < length (warn d))%nat ->
    (wget (reset_with s0 k i) k = {| lastinfo := i; number := 1 |} /\
     (forall j, j <> k -> wget (reset_with s0 k i) j = {| lastinfo := 0; number := 0 |}) /\
     core (reset_with s0 k i) = s0) /\
    (wget (warned_twice d k i) k = {| lastinfo := i; number := (number (wget d k) + 2)%Z |} /\
     (forall j, j <> k -> wget (warned_twice d k i) j = wget d j) /\
     core (warned_twice d k i) = core d).
Proof. exact (@counters_main). Qed.
Print Assumptions C30_counters.

(* the bad-control scan of mj_fwdActuation over ALL nu entries of the (clamped) local control vector:
   nothing bad: controls and data unchanged; otherwise, with i the position of the FIRST bad entry,
   mj_warning(BADCTRL, i) (counter + 1, lastinfo i, nothing else changes) and every control is replaced by 0 *)
Theorem C30_badctrl :
  forall (S : Type) (ctrl : list float) (d : Data S),
    (Forall (fun x => isBad x = false) ctrl -> check_ctrl ctrl d = (ctrl, d)) /\
    (Exists (fun x => isBad x = true) ctrl ->
       exists i : nat, (i < length ctrl)%nat /\ isBad (nth i ctrl PrimFloat.zero) = true /\
         (forall j, (j < i)%nat -> isBad (nth j ctrl PrimFloat.zero) = false) /\
         check_ctrl ctrl d = (repeat PrimFloat.zero (length ctrl), mj_warning d WARN_BADCTRL (Z.of_nat i))).
Proof. exact (@check_ctrl_main). Qed.
Print Assumptions C30_badctrl.

Theorem C30_warning :
  forall (S : Type) (d : Data S) (k : nat) (i : Z), (k < length (warn d))%nat ->
    wget (mj_warning d k i) k = {| lastinfo := i; number := (number (wget d k) + 1)%Z |} /\
    (forall j, j <> k -> wget (mj_warning d k i) j = wget d j) /\ core (mj_warning d k i) = core d.
Proof. exact (@warning_get). Qed.
Print Assumptions C30_warning.

(* entries that pass the check are finite and bounded by 1e10, and the exact-real scalar Euler
   update (qvel' = qvel + h qacc, qpos' = qpos + h qvel') then stays below 3e10 < 2^1023
   (IEEE rounding of the update itself is outside this statement) *)
Theorem C30_finite :
  forall (q v a : float) (h : R),
    isBad q = false -> isBad v = false -> isBad a = false -> (Rabs h <= 1)%R ->
    PrimFloat.is_finite q = true /\ PrimFloat.is_finite v = true /\ PrimFloat.is_finite a = true /\
    let '(q', v') := euler1 h (FR q) (FR v) (FR a) in
    (Rabs v' <= 2 * MAXR /\ Rabs q' <= 3 * MAXR /\ 3 * MAXR < IZR (2 ^ 1023))%R.
Proof. exact finite_after_euler. Qed.
Print Assumptions C30_finite.

(* non-vacuity: a concrete vector with two bad entries; the first one (index 1) is reported *)
Example C30_example :
  let v := [1%float; PrimFloat.nan; 2%float; PrimFloat.infinity] in
  let d : Data unit := {| core := tt; warn := repeat {| lastinfo := 0; number := 4 |} NWARNING |} in
  first_bad (entries_all v) = Some 1%Z /\
  wget (checkPos false tt (fun _ => v) d) WARN_BADQPOS = {| lastinfo := 1; number := 6 |} /\
  wget (checkPos true tt (fun _ => v) d) WARN_BADQPOS = {| lastinfo := 1; number := 1 |} /\
  wget (checkPos true tt (fun _ => v) d) WARN_BADQVEL = {| lastinfo := 0; number := 0 |}.
Proof. vm_compute. repeat split. Qed.
