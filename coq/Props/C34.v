(* C34 — Name lookup inverts naming for every object type.
   Statements only; proofs in Proof/NamesProof.v, model in Model/Names.v.
   A name is the list of its bytes; option nat results: None = -1 / NULL. *)
From Coq Require Import List ZArith Bool.
From MJV Require Import Model.Names Gen.ObjOrder Proof.NamesProof.
Import ListNotations.
Open Scope nat_scope.

(* --- on the tables regenerated from the working tree: the object-type order of the fall-through switch in
       _getnumadr equals the order of the namelist(...) calls in CopyNames (object lists mapped to their count
       fields), the sum defining nnames_map ranges over exactly these count fields, no count field / address
       array / mjOBJ_ label occurs twice, and every definition of mjLOAD_MULTIPLE has the same positive value --- *)
Theorem C34_order : order_ok switch_order copy_order list_count map_sum load_multiple = true.
Proof. vm_compute. reflexivity. Qed.
Print Assumptions C34_order.

(* --- with equal orders, "subtract from the end" (_getnumadr) meets "add from the start" (CopyNames), for any
       list of types and any counts; consecutive tables do not overlap and together fill names_map --- *)
Theorem C34_offsets :
  forall (M : nat) (types : list (list name)),
    (forall k, mapadr_switch M types k = mapadr_copy M types k) /\
    (forall k, k < length types -> mapadr_copy M types (S k) = mapadr_copy M types k + M * length (nth k types [])) /\
    mapadr_copy M types (length types) = nnames_map M types.
Proof. exact (fun M types => conj (mapadr_eq M types) (conj (mapadr_next M types) (mapadr_total M types))). Qed.
Print Assumptions C34_offsets.

(* --- mj_hashString (exact model: signed char, mod 2^64, mod n) lands inside the table; the 64-bit state
       stays below 2^64; a probe sequence is exactly one table cycle --- *)
Theorem C34_hash :
  (forall s size, 0 < size -> hashN s size < size) /\
  (forall s, name_ok s -> (0 <= hash64 s < m64)%Z) /\
  (forall h size, h <= size -> length (probe_seq h size) = size).
Proof. exact (conj hashN_range (conj hash64_range probe_length)). Qed.
Print Assumptions C34_hash.

(* --- one object type, ANY hash function into [0,size), any load multiple M >= 1, any number of objects, any
       names whose non-empty members are pairwise distinct: the table is always built (insertion finds a free
       slot within one cycle); name2id inverts id2name; strings naming no object of the type are not found;
       whatever is found carries the queried name --- *)
Theorem C34_one_type :
  forall (hash : name -> nat -> nat),
    (forall s size, 0 < size -> hash s size < size) ->
    forall M, 1 <= M ->
    forall names, distinct_names names ->
      exists tbl, build hash M names = Some tbl /\
        (forall i s, id2name1 names i = Some s -> name2id1 hash M names tbl s = Some (Z.to_nat i)) /\
        (forall s, (forall k, k < length names -> nth k names [] <> [] -> nth k names [] <> s) ->
                   name2id1 hash M names tbl s = None) /\
        (forall s j, name2id1 hash M names tbl s = Some j -> j < length names /\ nth j names [] = s /\ s <> []).
Proof. exact one_type. Qed.
Print Assumptions C34_one_type.

(* --- mj_id2name: NULL exactly for out-of-range ids and unnamed objects --- *)
Theorem C34_id2name :
  forall names i,
    (id2name1 names i = None <-> (i < 0 \/ Z.of_nat (length names) <= i \/ nth (Z.to_nat i) names [] = []))%Z /\
    (forall s, id2name1 names i = Some s -> (0 <= i < Z.of_nat (length names))%Z /\ s = nth (Z.to_nat i) names [] /\ s <> []).
Proof. exact id2name1_spec. Qed.
Print Assumptions C34_id2name.

(* --- the whole model (all types in one names_map and one names buffer, lookups through the offsets of
       _getnumadr and strncmp against the buffer at name_adr): for every type k of the order,
       roundtrip / NULL-iff / absent-strings / soundness; for every k outside the order (mjOBJ_UNKNOWN, DOF,
       FRAME, ...) nothing is found --- *)
Theorem C34_whole_model :
  forall (hash : name -> nat -> nat),
    (forall s size, 0 < size -> hash s size < size) ->
    forall M, 1 <= M ->
    forall (mn : name) (types : list (list name)),
      names_ok types ->
      (forall ns, In ns types -> distinct_names ns) ->
      exists mp, names_map hash M types = Some mp /\ length mp = nnames_map M types /\
        forall k, k < length types ->
          let ns := nth k types [] in
          (forall i s, id2name mn types k i = Some s -> name2id hash M mn types mp k s = Some (Z.to_nat i)) /\
          (forall i, id2name mn types k i = None <-> (i < 0 \/ Z.of_nat (length ns) <= i \/ nth (Z.to_nat i) ns [] = [])%Z) /\
          (forall i s, id2name mn types k i = Some s -> s = nth (Z.to_nat i) ns [] /\ s <> []) /\
          (forall s, name_ok s -> (forall j, j < length ns -> nth j ns [] <> [] -> nth j ns [] <> s) ->
                     name2id hash M mn types mp k s = None) /\
          (forall s j, name_ok s -> name2id hash M mn types mp k s = Some j -> j < length ns /\ nth j ns [] = s /\ s <> []).
Proof. exact whole_model. Qed.
Print Assumptions C34_whole_model.

Theorem C34_no_such_type :
  forall (hash : name -> nat -> nat) (M : nat), 1 <= M ->
    forall (mn : name) (types : list (list name)) (mp : table) (k : nat) (s : name) (i : Z),
      length types <= k ->
      name2id hash M mn types mp k s = None /\ id2name mn types k i = None.
Proof. exact no_such_type. Qed.
Print Assumptions C34_no_such_type.

(* non-vacuity: real hash, two types, a forced collision ("ab" and "bA" share a home slot in a table of 6), a prefix
   pair, an unnamed object, a byte >= 128 *)
Example C34_example :
  let types := [[[97; 98]; [98; 65]; []]; [[97]; [97; 98]; [200; 1]]]%Z in
  exists mp, names_map hashN 2 types = Some mp /\
    hashN [97; 98]%Z 6 = hashN [98; 65]%Z 6 /\
    name2id hashN 2 [77]%Z types mp 0 [98; 65]%Z = Some 1 /\
    name2id hashN 2 [77]%Z types mp 0 [97]%Z = None /\
    name2id hashN 2 [77]%Z types mp 1 [97]%Z = Some 0 /\
    name2id hashN 2 [77]%Z types mp 1 [200; 1]%Z = Some 2 /\
    id2name [77]%Z types 0 2%Z = None /\
    id2name [77]%Z types 1 1%Z = Some [97; 98]%Z.
Proof. eexists. vm_compute. repeat split; reflexivity. Qed.
