(* C29 — Passive forces follow their physical laws.
   Statements only; proofs in Proof/PassiveProof.v.  Model: Model/Passive.v (mj_springdamper,
   mj_gravcomp and the sums of mj_passive in engine_passive.c; mju_polyForce / mju_polyPotential;
   spring part of mj_energyPos).  This MuJoCo version has polynomial stiffness and damping:
   force coefficient k + p0 x + p1 x^2 (mjNPOLY = 2), potential 1/2 k x^2 + p0/3 x^3 + p1/4 x^4. *)
From Coq Require Import ZArith List Bool PrimFloat Reals.
From Coquelicot Require Import Coquelicot.
From MJV Require Import Lib.Num Lib.NumR Model.Spatial Model.Passive Proof.PassiveProof.
Import ListNotations.
Open Scope R_scope.

(* ---------------------------------------------------------------- springs: force = - gradient of the potential *)
(* scalar joints (hinge / slide): the force written to qfrc_spring, -x*polyForce(k, poly, x) with
   x = q - qpos_spring, is minus the derivative w.r.t. q of the potential reported by mj_energyPos *)
Theorem C29_spring_is_gradient :
  forall k p0 p1 q qs : R,
    is_derive (fun y : R => springEnergyScalar k [p0; p1] y qs) q (- springForce k [p0; p1] (q - qs)).
Proof. exact spring_is_gradient. Qed.
Print Assumptions C29_spring_is_gradient.

(* the plain linear spring: force -k (q - q_ref), potential 1/2 k (q - q_ref)^2, derivative k (q - q_ref) *)
Theorem C29_linear_spring_gradient :
  forall k q qs : R,
    springForce k [] (q - qs) = - (k * (q - qs)) /\
    springEnergyScalar k [] q qs = / 2 * k * ((q - qs) * (q - qs)) /\
    is_derive (fun y : R => springEnergyScalar k [] y qs) q (k * (q - qs)).
Proof. exact linear_spring_gradient. Qed.
Print Assumptions C29_linear_spring_gradient.

(* the coded polynomial in closed form *)
Theorem C29_poly_closed_form :
  forall k p0 p1 x : R,
    polyForce k [p0; p1] x false = k + p0 * x + p1 * (x * x) /\
    polyForce k [p0; p1] x true = k + p0 * Rabs x + p1 * (Rabs x * Rabs x) /\
    polyPotential k [p0; p1] x false = / 2 * k * (x * x) + p0 / 3 * (x * x * x) + p1 / 4 * (x * x * x * x).
Proof. intros. split; [apply polyForce_2|split; [apply polyForce_2_odd|apply polyPotential_2]]. Qed.
Print Assumptions C29_poly_closed_form.

(* tendons: dead band [lower, upper] of the spring length; inside it the displacement is zero *)
Theorem C29_tendon_deadband :
  forall len lo hi : R, lo <= hi ->
    (hi < len /\ tendonDisp len lo hi = len - hi) \/ (len < lo /\ tendonDisp len lo hi = len - lo) \/
    (lo <= len <= hi /\ tendonDisp len lo hi = 0).
Proof. exact tendonDisp_cases. Qed.
Print Assumptions C29_tendon_deadband.

(* the tendon spring force (along the tendon) is minus the derivative of the tendon potential w.r.t.
   the tendon length, away from the two corners of the dead band *)
Theorem C29_tendon_spring_gradient :
  forall (k p0 p1 b : R) (dp : list R) (len vel lo hi : R) (J : list R),
    lo <= hi -> len <> lo -> len <> hi ->
    is_derive (fun y : R => springEnergyTendon (mkTendon k [p0; p1] b dp y vel lo hi J)) len
              (- tendonSpring true (mkTendon k [p0; p1] b dp len vel lo hi J)).
Proof. exact tendon_spring_gradient. Qed.
Print Assumptions C29_tendon_spring_gradient.

(* ---------------------------------------------------------------- damping never adds energy *)
(* joint / dof damping: power v * f <= 0 for non-negative damping coefficients of any polynomial order *)
Theorem C29_damping_dissipates :
  forall (b : R) (poly : list R) (v : R),
    0 <= b -> List.Forall (fun c : R => 0 <= c) poly -> v * damperForce b poly v <= 0.
Proof. exact damping_dissipates. Qed.
Print Assumptions C29_damping_dissipates.

(* actuator-inherited damping (mj_actuatorDamping): the effective coefficients are the joint's / tendon's
   own plus coefficient * gear^2 for every actuator driving it; with non-negative coefficients they are
   non-negative for gears of any sign and magnitude, hence the damper still never adds energy *)
Theorem C29_actuator_damping_closed_form :
  forall b0 g1 d1 g2 d2 : R,
    fst (effDamping b0 [] [(g1, d1, []); (g2, d2, [])]) = b0 + d1 * (g1 * g1) + d2 * (g2 * g2).
Proof. exact effDamping_two. Qed.
Print Assumptions C29_actuator_damping_closed_form.

Theorem C29_actuator_damping_dissipates :
  forall (b0 : R) (poly0 : list R) (acts : list (R * R * list R)) (v : R),
    0 <= b0 -> List.Forall (fun c : R => 0 <= c) poly0 ->
    List.Forall (fun a : R * R * list R => 0 <= snd (fst a) /\ List.Forall (fun c : R => 0 <= c) (snd a)) acts ->
    v * damperForce (fst (effDamping b0 poly0 acts)) (snd (effDamping b0 poly0 acts)) v <= 0.
Proof. exact actuator_damping_dissipates. Qed.
Print Assumptions C29_actuator_damping_dissipates.

(* tendon damping: the generalized force J^T f with f = damperForce(b, poly, J.qvel) has power
   qvel . (J^T f) = (J . qvel) f <= 0 *)
Theorem C29_tendon_damping_dissipates :
  forall (b : R) (dpoly : list R) (J qvel : list R),
    0 <= b -> List.Forall (fun c : R => 0 <= c) dpoly ->
    dotr qvel (map (fun j : R => j * damperForce b dpoly (dotr J qvel)) J) <= 0.
Proof. exact tendon_damping_dissipates. Qed.
Print Assumptions C29_tendon_damping_dissipates.

(* ---------------------------------------------------------------- rest *)
Theorem C29_rest_scalar :
  forall (k b : R) (poly : list R), springForce k poly 0 = 0 /\ damperForce b poly 0 = 0.
Proof. intros. split; [apply springForce_rest|apply damperForce_rest]. Qed.
Print Assumptions C29_rest_scalar.

(* a system of scalar joints at their spring reference, zero velocities and tendons inside their dead
   band with zero velocity: mj_springdamper produces zero qfrc_spring and qfrc_damper (for every
   stiffness, damping, Jacobian and flag setting), hence zero qfrc_passive without gravity compensation *)
Theorem C29_rest_system :
  forall (nv : nat) (es ed : bool) (joints : list (@JointSpring R)) (dofs : list (R * list R * R))
         (tendons : list (@Tendon R)) (gc : list R) (actgc : list bool),
    List.Forall scalarAtRef joints -> List.Forall (fun d : R * list R * R => snd d = 0) dofs -> length dofs = nv ->
    List.Forall tendonAtRest tendons ->
    springdamper nv es ed joints dofs tendons = (repeat 0 nv, repeat 0 nv) /\
    passive (repeat 0 nv) (repeat 0 nv) gc false actgc = repeat 0 nv.
Proof. intros. split; [apply rest_system; assumption|apply rest_passive]. Qed.
Print Assumptions C29_rest_system.

(* ---------------------------------------------------------------- gravity compensation *)
(* the force applied at the centre of mass of a body with factor gc is -gc * mass * gravity *)
Theorem C29_gravcomp_force :
  forall (gravity : vec3 R) (mass gc : R), gravcompForce gravity mass gc = scl3 gravity (- (gc * mass)).
Proof. exact gravcomp_force. Qed.
Print Assumptions C29_gravcomp_force.

(* its generalized force cancels exactly the fraction gc of the generalized gravity force of the body
   (same Jacobian at the centre of mass); with gc = 1 nothing of gravity is left *)
Theorem C29_gravcomp_cancels :
  forall (jacp : list (vec3 R)) (gravity : vec3 R) (mass gc : R) (qfrc : list R),
    applyForce jacp (gravcompForce gravity mass gc) (applyForce jacp (scl3 gravity mass) qfrc) =
    applyForce jacp (scl3 gravity (mass * (1 - gc))) qfrc /\
    (length jacp = length qfrc ->
     applyForce jacp (gravcompForce gravity mass 1) (applyForce jacp (scl3 gravity mass) qfrc) = qfrc).
Proof. intros. split; [apply gravcomp_cancels|apply gravcomp_full]. Qed.
Print Assumptions C29_gravcomp_cancels.
