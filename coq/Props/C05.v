(* C05 — Time integration follows the documented schemes.
   Only statements, each closed by a lemma of Proof/IntegrateProof.v, followed by Print Assumptions.
   All statements are about Model/Integrate.v instantiated at the real numbers (IEEE rounding is
   outside); near_unit q means | sqrt(|q|^2) - 1 | <= mjMINVAL = 1e-15 (mju_normalize4 leaves a
   quaternion untouched when its norm is already that close to 1). *)
From Coq Require Import ZArith List Bool Reals QArith Lra.
From Coquelicot Require Import Coquelicot.
From MJV Require Import Lib.Num Lib.NumR Model.Integrate Gen.RK4Tableau Proof.IntegrateProof.
Import ListNotations.
Open Scope R_scope.

(* the tableau regenerated from RK4_A / RK4_B (exact rationals as written in the source) satisfies
   the eight order conditions of a 4-stage explicit method of order 4 and is the classical one *)
Theorem C05_rk4_tableau :
  rk4_order_ok RK4_A RK4_B = true /\
  qlist_eqb (rk4_lower RK4_A) classical_lower = true /\
  qlist_eqb RK4_B classical_B = true /\
  length RK4_A = 9%nat /\ length RK4_B = 4%nat.
Proof. exact rk4_tableau_ok. Qed.
Print Assumptions C05_rk4_tableau.

Theorem C05_rk4_order_meaning :
  forall A B, rk4_order_ok A B = true ->
    List.Forall (fun p => Qeq (fst p) (snd p)) (rk4_order_conditions A B).
Proof. exact rk4_order_ok_sound. Qed.
Print Assumptions C05_rk4_order_meaning.

(* mj_advance (used by Euler, implicit and as the last stage of RK4): time' = time + h *)
Theorem C05_time :
  forall (js : list jtype) (h : R) (s : State) (qacc : list R) (vp : option (list R)),
    time (advance js h s qacc vp) = time s + h.
Proof. exact advance_time. Qed.
Print Assumptions C05_time.

(* semi-implicit Euler: velocity first, positions integrated on the joint manifold with the NEW velocity *)
Theorem C05_euler_order :
  forall (js : list jtype) (h : R) (s : State) (qacc : list R),
    let s' := euler js h s qacc in
    qvel s' = addToScl (qvel s) qacc h /\
    qpos s' = integratePos js (qpos s) (qvel s') h /\
    time s' = time s + h.
Proof. exact euler_order. Qed.
Print Assumptions C05_euler_order.

(* componentwise for slide / hinge joints: q' = q + h (v + h a) *)
Theorem C05_euler_scalar :
  forall (js : list jtype) (h : R) (q v a : list R) (t : R) (i : nat),
    List.Forall scalar_joint js -> length q = length js -> length v = length js -> length a = length js ->
    (i < length js)%nat ->
    let s' := euler js h {| qpos := q; qvel := v; time := t |} a in
    nth i (qvel s') 0 = nth i v 0 + nth i a 0 * h /\
    nth i (qpos s') 0 = nth i q 0 + h * (nth i v 0 + nth i a 0 * h).
Proof. exact euler_scalar. Qed.
Print Assumptions C05_euler_scalar.

(* mju_quatIntegrate, hypothesis-free: any quaternion (zero, unnormalised), any velocity (zero
   included), any scale *)
Theorem C05_quatintegrate_unit :
  forall (q : R * R * R * R) (v : R * R * R) (s : R), near_unit (quatIntegrate q v s).
Proof. exact quatIntegrate_near_unit. Qed.
Print Assumptions C05_quatintegrate_unit.

(* mj_integratePos on a well-formed qpos/qvel pair: every ball / free quaternion of the result is
   (near-)unit, and there is one per ball/free joint *)
Theorem C05_quat_unit :
  forall (js : list jtype) (qpos qvel : list R) (dt : R),
    length qpos = nq_of js -> length qvel = nv_of js ->
    List.Forall near_unit (quats_of js (integratePos js qpos qvel dt)) /\
    length (quats_of js (integratePos js qpos qvel dt)) =
      length (filter (fun j => match j with JFree | JBall => true | _ => false end) js).
Proof. exact integratePos_quats. Qed.
Print Assumptions C05_quat_unit.

(* mj_nextActivation with actlimited (every dyntype except the DC motor, which is not modelled) *)
Theorem C05_act_clamped :
  forall (exact : bool) (h act act_dot prm0 lo hi : R),
    lo <= hi -> lo <= nextActivation exact h act act_dot prm0 true lo hi <= hi.
Proof. exact act_clamped. Qed.
Print Assumptions C05_act_clamped.

(* the clamp acts on the integrated value, and the Euler branch is act + act_dot h *)
Theorem C05_act_clamp_after :
  forall (exact : bool) (h act act_dot prm0 lo hi : R),
    nextActivation exact h act act_dot prm0 true lo hi =
      mjclip (nextActivation exact h act act_dot prm0 false lo hi) lo hi /\
    nextActivation false h act act_dot prm0 false lo hi = act + act_dot * h.
Proof. exact act_clamp_after_full. Qed.
Print Assumptions C05_act_clamp_after.

(* filterexact: with act_dot = (ctrl - act)/tau, tau = max(mjMINVAL, dynprm[0]), the update equals
   y(h) for the solution y of  y' = (ctrl - y)/tau, y(0) = act *)
Theorem C05_filterexact :
  forall (h act ctrl prm0 lo hi : R),
    let tau := tau_of prm0 in
    nextActivation true h act ((ctrl - act) / tau) prm0 false lo hi = filter_sol ctrl act tau h /\
    filter_sol ctrl act tau 0 = act /\
    (forall t, is_derive (filter_sol ctrl act tau) t ((ctrl - filter_sol ctrl act tau t) / tau)) /\
    0 < tau /\ (MINV <= prm0 -> tau = prm0).
Proof. exact filterexact_full. Qed.
Print Assumptions C05_filterexact.

(* implicit / implicitfast / Euler with joint damping: whatever linear solver is used, if its
   output solves (M - h D) x = qfrc then the new velocity solves (M - h D)(v' - v) = h qfrc.
   Partial: the solver (LU / LDL factorisation) and the derivative matrix D are abstract. *)
Theorem C05_implicit_partial :
  forall (solve : list R -> list R) (M D : list (list R)) (h : R) (qvel qfrc : list R),
    length (solve qfrc) = length qvel ->
    mulMV (matMhD M D h) (solve qfrc) = qfrc ->
    mulMV (matMhD M D h) (vsub (implicit_vel h qvel qfrc solve) qvel) = map (fun f => h * f) qfrc.
Proof. exact implicit_solves. Qed.
Print Assumptions C05_implicit_partial.

(* the force-velocity derivative used by the implicit integrators for an actuator with affine gain and
   bias and no activation (mjd_actuator_vel): it IS the derivative of the applied force -- gain times
   the CLAMPED control plus bias, clamped to forcerange -- wherever that derivative exists (force not
   exactly at a forcerange limit); in particular 0 when saturated at EITHER limit, for any
   (asymmetric, one-sided) forcerange flo < fhi *)
Theorem C05_actuator_vel :
  forall (fl : bool) (flo fhi g0 g1 g2 b0 b1 b2 len u v : R),
    flo < fhi ->
    (fl = true -> act_force_raw g0 g1 g2 b0 b1 b2 len u v <> flo /\ act_force_raw g0 g1 g2 b0 b1 b2 len u v <> fhi) ->
    is_derive (fun w => act_force fl flo fhi g0 g1 g2 b0 b1 b2 len u w) v
              (act_force_vel fl flo fhi g2 b2 u (act_force fl flo fhi g0 g1 g2 b0 b1 b2 len u v)).
Proof. exact act_force_vel_correct. Qed.
Print Assumptions C05_actuator_vel.

(* non-vacuity / the variants that the theorems exclude *)
Example C05_oldvel_differs :
  qpos (euler [JSlide] 1 {| qpos := [0]; qvel := [1]; time := 0 |} [1]) = [2] /\
  qpos (euler_oldvel [JSlide] 1 {| qpos := [0]; qvel := [1]; time := 0 |} [1]) = [1].
Proof. unfold euler, euler_oldvel, advance; simpl; num_R. split; f_equal; ring. Qed.

Example C05_nonorm_keeps_norm :
  forall v s, qnorm2 (quatIntegrate_nonorm (2, 0, 0, 0) v s) = 4.
Proof. intros. rewrite quatIntegrate_nonorm_norm. unfold qnorm2. num_R. ring. Qed.

Example C05_clampfirst_escapes :
  nextActivation_clampfirst 1 0 2 (-1) 1 = 2 /\ nextActivation false 1 0 2 0 true (-1) 1 = 1.
Proof.
  split.
  - unfold nextActivation_clampfirst. rewrite mjclip_id by lra. num_R. ring.
  - unfold nextActivation, mjclip. num_R.
    destruct (Rltb (0 + 2 * 1) (-1)) eqn:E1; [apply Rltb_true in E1; lra|].
    destruct (Rltb 1 (0 + 2 * 1)) eqn:E2; [reflexivity|apply Rltb_false in E2; lra].
Qed.
