(* C16 — Ray casting returns the nearest intersection.
   Only statements, each closed by a lemma of Proof/RayProof.v (selection, any ordered distance type)
   or Proof/RayRProof.v (numeric kernels over the reals), followed by Print Assumptions.
   Model: Model/Ray.v. *)
From Coq Require Import ZArith List Bool PrimFloat Reals.
From MJV Require Import Lib.Num Lib.NumR Model.Ray Proof.RayProof Proof.RayRProof.
Import ListNotations.

(* ray_eliminate equals the rule table: a geom is skipped iff it belongs to the excluded body, or it is
   invisible (alpha 0 of its own rgba when it has no material, of its material otherwise), or static
   geoms are not requested and its body is welded to the world, or a group mask is given and the mask
   entry of its group (clamped to 0..5) is 0. *)
Theorem C16_eliminate :
  forall (bodyid bodyexclude matid : Z) (ga0 ma0 flg : bool) (weld : Z) (gg : option (list Z)) (group : Z),
    ray_eliminate bodyid bodyexclude matid ga0 ma0 flg weld gg group = true <->
    (bodyid = bodyexclude \/ (matid < 0 /\ ga0 = true) \/ (0 <= matid /\ ma0 = true) \/ (flg = false /\ weld = 0) \/
     (exists l, gg = Some l /\ nth (Z.to_nat (Z.min 5 (Z.max 0 group))) l 0 = 0))%Z.
Proof. exact ray_eliminate_rule. Qed.
Print Assumptions C16_eliminate.

(* The selection loop of mj_ray, for every distance type with a three-way comparison that is a total
   preorder, every number of geoms, every elimination pattern and every reported distance:
   the geom id is -1 iff every non-eliminated geom reports a negative distance, and then the distance is
   the initial -1; otherwise the result is the distance and index of a non-eliminated geom reporting a
   non-negative distance that is <= every other such distance and strictly smaller than those of all
   earlier geoms (the FIRST geom attaining the minimum). *)
Theorem C16_select :
  forall (D : Type) (dcmp : D -> D -> Z) (zero minus1 : D),
    (forall a b, dcmp a b < 0 <-> 0 < dcmp b a)%Z ->
    (forall a b c, dcmp a b <= 0 -> dcmp b c <= 0 -> dcmp a c <= 0)%Z ->
    (dcmp minus1 zero < 0)%Z ->
    forall gs : list (bool * D),
    let r := fst (ray_select D dcmp zero minus1 gs) in
    let id := snd (ray_select D dcmp zero minus1 gs) in
    ((id = -1 <-> forall g, In g gs -> fst g = false -> dcmp (snd g) zero < 0) /\
     (id = -1 -> r = minus1) /\
     (id <> -1 ->
        exists n g, id = Z.of_nat n /\ nth_error gs n = Some g /\ fst g = false /\ snd g = r /\ 0 <= dcmp r zero /\
          forall m g', nth_error gs m = Some g' -> fst g' = false -> 0 <= dcmp (snd g') zero ->
            dcmp r (snd g') <= 0 /\ ((m < n)%nat -> dcmp r (snd g') < 0)))%Z.
Proof. exact select_full. Qed.
Print Assumptions C16_select.

(* mj_multiRay = mj_ray per ray, provided the per-ray culling (cutoff, body bounding sphere, bounding
   angles) only skips geoms that are eliminated anyway or would report a negative distance.  That
   hypothesis is about geometry (makeAAMM-like bounds) and is validated by the oracle, not proved. *)
Theorem C16_multi :
  forall (D : Type) (dcmp : D -> D -> Z) (zero minus1 : D) (elim : list bool) (rays : list (list bool * list D)),
    (forall r, In r rays ->
       Forall2 (fun p (g : bool * D) => p = true -> fst g = true \/ (dcmp (snd g) zero < 0)%Z) (fst r) (combine elim (snd r))) ->
    multi_ray D dcmp zero minus1 elim rays = multi_ray_ref D dcmp zero minus1 elim rays.
Proof. exact multi_ray_sound. Qed.
Print Assumptions C16_multi.

Open Scope R_scope.

(* ray_quad over the reals, for a >= mjMINVAL: a non-negative result is the least non-negative root of
   a t^2 + 2 b t + c; a negative result is -1 and there is no non-negative root. *)
Theorem C16_quad :
  forall a b c : R, minval (T:=R) <= a ->
    let r := quad_ret (ray_quad a b c) in
    (0 <= r -> a * r * r + 2 * b * r + c = 0 /\ forall t, 0 <= t -> a * t * t + 2 * b * t + c = 0 -> r <= t) /\
    (r < 0 -> r = -1 /\ forall t, 0 <= t -> a * t * t + 2 * b * t + c <> 0).
Proof. exact quad_spec. Qed.
Print Assumptions C16_quad.

(* ray_sphere (|vec|^2 >= mjMINVAL, as mj_ray checks): the returned t is the least t >= 0 with
   |pnt + t vec - pos|^2 = radius^2; -1 iff there is none. *)
Theorem C16_sphere :
  forall (pos : R * R * R) (rr : R) (pnt vec : R * R * R), minval (T:=R) <= dot3 vec vec ->
    let r := ray_sphere pos rr pnt vec in
    (0 <= r -> dist2 (at_t pnt vec r) pos = rr /\ forall t, 0 <= t -> dist2 (at_t pnt vec t) pos = rr -> r <= t) /\
    (r < 0 -> r = -1 /\ forall t, 0 <= t -> dist2 (at_t pnt vec t) pos <> rr).
Proof. exact sphere_spec. Qed.
Print Assumptions C16_sphere.

(* ray_plane, in the local frame (lp, lv) = ray_map pos mat pnt vec (the local point of pnt + t vec is
   lp + t lv, lemma ray_map_at): the result is -1 or >= 0; a result >= 0 is a point of the rendered
   rectangle hit from the front (local direction z <= -mjMINVAL); and every t >= 0 at which a
   front-facing ray meets the rectangle IS the result (the intersection is unique). *)
Theorem C16_plane :
  forall (pos : R * R * R) (mat : mat9) (size pnt vec : R * R * R),
    let lp := fst (ray_map pos mat pnt vec) in
    let lv := snd (ray_map pos mat pnt vec) in
    let r := ray_plane pos mat size pnt vec in
    (forall t, fst (ray_map pos mat (at_t pnt vec t) vec) = at_t lp lv t) /\
    (r = -1 \/ 0 <= r) /\
    (0 <= r -> snd lv <= - minval (T:=R) /\ on_plane size (at_t lp lv r)) /\
    (forall t, 0 <= t -> snd lv <= - minval (T:=R) -> on_plane size (at_t lp lv t) -> r = t).
Proof.
  intros pos mat size pnt vec lp lv r. split; [intro t; apply ray_map_at|]. apply plane_spec.
Qed.
Print Assumptions C16_plane.

(* ray_box, for a length-preserving mat (every rotation matrix), positive half sizes and a direction that
   on every local axis is either parallel to the faces without lying in a face plane, or has a component
   above the mjMINVAL threshold of the code: the result is -1 or >= 0; a result >= 0 is a point of the
   box surface; and it is <= every t >= 0 at which the ray is on the surface (so -1 iff the ray never
   meets the surface).  The bounding-sphere pretest is part of the model. *)
Theorem C16_box :
  forall (pos : R * R * R) (mat : mat9) (size pnt vec : R * R * R),
    let lp := fst (ray_map pos mat pnt vec) in
    let lv := snd (ray_map pos mat pnt vec) in
    (forall d : R * R * R, dot3 (mulT mat d) (mulT mat d) = dot3 d d) ->
    minval (T:=R) <= dot3 vec vec ->
    match lp, lv, size with (l0, l1, l2), (v0, v1, v2), (s0, s1, s2) =>
      0 < s0 -> 0 < s1 -> 0 < s2 ->
      ((v0 = 0 /\ Rabs l0 <> s0) \/ minval (T:=R) < Rabs v0) ->
      ((v1 = 0 /\ Rabs l1 <> s1) \/ minval (T:=R) < Rabs v1) ->
      ((v2 = 0 /\ Rabs l2 <> s2) \/ minval (T:=R) < Rabs v2) ->
      let r := ray_box pos mat size pnt vec in
      (r = -1 \/ 0 <= r) /\
      (0 <= r -> on_box size (at_t lp lv r)) /\
      (forall t, 0 <= t -> on_box size (at_t lp lv t) -> 0 <= r /\ r <= t)
    end.
Proof. exact box_spec. Qed.
Print Assumptions C16_box.

(* non-vacuity *)
Theorem C16_zcmp_preorder :
  (forall a b, zcmp a b < 0 <-> 0 < zcmp b a)%Z /\ (forall a b c, zcmp a b <= 0 -> zcmp b c <= 0 -> zcmp a c <= 0)%Z.
Proof. split; [exact zcmp_anti | exact zcmp_trans]. Qed.
Print Assumptions C16_zcmp_preorder.

Example C16_select_example :
  ray_select Z zcmp 0%Z (-1)%Z [(false, (-1)%Z); (false, 7%Z); (true, 2%Z); (false, 5%Z); (false, 5%Z); (false, 9%Z)] = (5%Z, 3%Z).
Proof. vm_compute. reflexivity. Qed.
