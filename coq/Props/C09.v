(* C09 — Forward and inverse dynamics agree.
   Only statements, each closed by a lemma of Proof/FwdInvProof.v; over the real numbers, for every number of
   dofs n and constraint rows m.  Vocabulary: Model/SolverSpec.v (vectors, matrices, finite sums) and
   Model/FwdInv.v:
     qfrc_smooth      = qfrc_passive - qfrc_bias + qfrc_applied + qfrc_actuator + J'xfrc   (mj_fwdAcceleration)
     forward_residual = M a - qfrc_smooth - J' f(J a - aref)                               (the solvers' gradient)
     qfrc_inverse     = qfrc_bias + (M a - qfrc_passive - J' f(J a - aref))                (mj_inverseSkip)
     applied_total    = qfrc_applied + qfrc_actuator + J'xfrc                              (mj_compareFwdInv: qforce)
   f is ANY function (the force law mj_constraintUpdate that forward and inverse both call; its model is C12's).
   NOT a theorem: that the forward solver reaches a solution of the forward equation. *)
From Coq Require Import ZArith List Bool Reals Lra Lia.
From MJV Require Import Model.SolverSpec Model.FwdInv Proof.FwdInvProof.
Open Scope R_scope.

(* for EVERY acceleration, converged or not: inverse dynamics minus the applied forces is exactly the residual
   of the forward equation (this is why the oracle can gate on, and compare with, the solver residual) *)
Theorem C09_residual :
  forall (n m : nat) (M J : mat) (aref : vec) (f : vec -> vec) (passive bias applied actuator xfrcq a : vec) (i : nat),
    qfrc_inverse n m M J aref f passive bias a i - applied_total applied actuator xfrcq i =
    forward_residual n m M J aref f (qfrc_smooth passive bias applied actuator xfrcq) a i.
Proof. exact inverse_minus_applied. Qed.
Print Assumptions C09_residual.

(* a solves the forward equation with the force f(J a - aref)  <->  the inverse computation at a, with the same
   force law, returns qfrc_applied + J'xfrc_applied + qfrc_actuator; the constraint forces of both directions are
   the same expression efc_force_at n J aref f a *)
Theorem C09_identity :
  forall (n m : nat) (M J : mat) (aref : vec) (f : vec -> vec) (passive bias applied actuator xfrcq a : vec),
    forward_solution n m M J aref f (qfrc_smooth passive bias applied actuator xfrcq) a <->
    eqn n (qfrc_inverse n m M J aref f passive bias a) (applied_total applied actuator xfrcq).
Proof. exact fwdinv_identity. Qed.
Print Assumptions C09_identity.

(* invdiscrete: if the integrator obtained the discrete acceleration a_d from a forward solution a_c by solving
   A a_d = qfrc_smooth + qfrc_constraint(a_c) (A = M + h diag(B) for Euler with implicit damping, M - h qDeriv for
   implicit / implicitfast, M for Euler without damping), then the change of variables of mj_discreteAcc
   (qfrc = A a_d; solve M a' = qfrc) returns a_c, and inverse dynamics at a' returns the applied forces and the
   forward constraint forces.  A is arbitrary; M positive definite; f reads its argument pointwise.
   Partial in one respect: that mj_EulerSkip / mj_implicitSkip and mj_discreteAcc use the same matrix A is not
   proved but checked by the oracle (the repaired finding C09-F1 was a case where they did not: mj_discreteAcc ignored
   mjDSBL_DAMPER while mj_EulerSkip honoured it). *)
Theorem C09_discrete_partial :
  forall (n m : nat) (M A J : mat) (aref : vec) (f : vec -> vec)
         (passive bias applied actuator xfrcq ac ad a' : vec),
    posdef n M -> pointwise f ->
    forward_solution n m M J aref f (qfrc_smooth passive bias applied actuator xfrcq) ac ->
    (forall i : nat, (i < n)%nat ->
       mulMV n A ad i = qfrc_smooth passive bias applied actuator xfrcq i + qfrc_constraint_at n m J aref f ac i) ->
    eqn n (mulMV n M a') (mulMV n A ad) ->
    eqn n a' ac /\
    eqn n (qfrc_inverse n m M J aref f passive bias a') (applied_total applied actuator xfrcq) /\
    (forall r : nat, efc_force_at n J aref f a' r = efc_force_at n J aref f ac r).
Proof. exact discrete_identity. Qed.
Print Assumptions C09_discrete_partial.

(* the integrator matrices as the code applies them: (M + h diag(B)) x = M x + h B x (mj_discreteAcc, Euler:
   qfrc[i] += h * damp_deriv * qacc[i]) and (M - h qDeriv) x = M x - h qDeriv x *)
Theorem C09_integrator_matrices :
  (forall (n : nat) (M : mat) (h : R) (B x : vec) (i : nat), (i < n)%nat ->
     mulMV n (euler_matrix M h B) x i = mulMV n M x i + h * B i * x i) /\
  (forall (n : nat) (M : mat) (h : R) (Dq : mat) (x : vec) (i : nat),
     mulMV n (implicit_matrix M h Dq) x i = mulMV n M x i - h * mulMV n Dq x i).
Proof. split; [exact euler_matrix_mul|exact implicit_matrix_mul]. Qed.
Print Assumptions C09_integrator_matrices.

(* non-vacuity: a concrete 1-dof instance with a one-sided force law meets every hypothesis *)
Theorem C09_example :
  let M : mat := fun _ _ => 2 in let J : mat := fun _ _ => 1 in let aref : vec := fun _ => 0 in
  let f : vec -> vec := fun x r => Rmax 0 (- x r) in
  let passive : vec := fun _ => - / 2 in let bias : vec := fun _ => 1 in
  let applied : vec := fun _ => / 4 in let actuator : vec := fun _ => / 4 in let xfrcq : vec := fun _ => 0 in
  let ac : vec := fun _ => - / 3 in let ad : vec := fun _ => - (20 / 69) in
  posdef 1 M /\ pointwise f /\
  forward_solution 1 1 M J aref f (qfrc_smooth passive bias applied actuator xfrcq) ac /\
  qfrc_inverse 1 1 M J aref f passive bias ac 0%nat = / 2 /\
  (forall i : nat, (i < 1)%nat ->
     mulMV 1 (euler_matrix M (/ 10) (fun _ => 3)) ad i =
     qfrc_smooth passive bias applied actuator xfrcq i + qfrc_constraint_at 1 1 J aref f ac i).
Proof. exact example_fwdinv. Qed.
Print Assumptions C09_example.
