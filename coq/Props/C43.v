(* C43 — MJX reproduces the MuJoCo C engine (kernel level).
   Statements only.  The property compares two implementations; its theorem content is that of the kernels both are
   tied to on every run (two implementations that agree with one proved model on the same inputs agree with each
   other).  Part 1 states, over the reals, that the MJX FORMULATION of a kernel (Model/MjxKernels.v: masks instead of
   branches, other guards) is the C formulation (Model/ConstraintUpdate.v, Model/CollidePrim.v) on the domain the
   engine establishes; proofs in Proof/MjxKernelsProof.v.  Part 2 re-exports, with explicit statements, the theorems
   of the kernels used by the three-way correspondence (proved for C12, C13, C05, C24 in their own Proof files).
   Not expressed: whole-pipeline equivalence; floating-point rounding. *)
From Coq Require Import ZArith List Bool Reals Lra.
From Coquelicot Require Import Coquelicot.
From MJV Require Import Lib.Num Lib.NumR.
From MJV Require Import Model.Spatial Model.CollidePrim Proof.SpatialProof Proof.CollidePrimProof.
From MJV Require Import Model.ConstraintUpdate Model.ConstraintUpdateSpec Proof.ConstraintUpdateProof.
From MJV Require Model.Integrate Proof.IntegrateProof.
From MJV Require Import Model.MjxKernels Proof.MjxKernelsProof.
Import ListNotations.
Open Scope R_scope.

(* ================================================================ Part 1: MJX formulation = C formulation *)

(* friction-loss row of solver._update_constraint: with efc_D efc_R = 1, efc_R > 0 and frictionloss > 0 (what mj_makeImpedance
   and mj_instantiateFriction establish) MJX's masked expressions (r = 1/efc_D, three 0/1 masks) give the cost and force of
   the three-branch C row *)
Theorem C43_mjx_fric_row :
  forall (D Rr f x : R),
    D * Rr = 1 -> 0 < Rr -> 0 < f ->
    mjx_fric_row D f x =
    (let '(c, _, _) := row_fric (T:=R) 0 D Rr f x in c, let '(_, frc, _) := row_fric (T:=R) 0 D Rr f x in frc).
Proof. exact mjx_fric_row_eq. Qed.
Print Assumptions C43_mjx_fric_row.

(* elliptic cone: for mu > 0 and T >= 0 MJX's bottom_zone / middle_zone masks select the zone the C code selects, which is the
   state mj_constraintUpdate_impl reports (0 top = SATISFIED, 1 bottom = QUADRATIC, 2 middle = CONE), any contact dimension *)
Theorem C43_mjx_zones :
  (forall (mu N Tn : R), 0 < mu -> 0 <= Tn -> mjx_zone mu N Tn = c_zone mu N Tn) /\
  (forall (flg : bool) (s mu : R) (fr : list R) (D0 : R) (Dt : list R) (x0 : R) (xt : list R),
     (let '(_, _, st, _) := block_ell flg s mu fr (D0 :: Dt) (x0 :: xt) in st) =
     match c_zone mu (x0 * mu) (mju_norm (map2 nmul xt fr)) with
     | 0%Z => ST_SATISFIED | 1%Z => ST_QUADRATIC | _ => ST_CONE end).
Proof. exact (conj mjx_zone_eq block_ell_state). Qed.
Print Assumptions C43_mjx_zones.

(* one elliptic contact of dim 3: MJX's cost and the three force components (masks, Dm with max(., mjMINVAL), division by
   T + ~middle mjMINVAL) are those of block_ell in every zone, for mu > 0 with mu^2 (1 + mu^2) >= mjMINVAL *)
Theorem C43_mjx_block3 :
  forall (mu f1 f2 D0 D1 D2 x0 x1 x2 : R) (frest : list R),
    0 < mu -> Rdec 1 (-15) <= mu * mu * (1 + mu * mu) ->
    mjx_block3 mu f1 f2 D0 D1 D2 x0 x1 x2 =
    (let '(c, _, _, _) := block_ell (T:=R) false 0 mu (f1 :: f2 :: frest) [D0; D1; D2] [x0; x1; x2] in c,
     let '(_, fs, _, _) := block_ell (T:=R) false 0 mu (f1 :: f2 :: frest) [D0; D1; D2] [x0; x1; x2] in fs).
Proof. exact mjx_block3_eq. Qed.
Print Assumptions C43_mjx_block3.

(* collision_primitive._plane_sphere: whenever mjraw_PlaneSphere emits a contact (distance <= margin) its dist and pos are
   MJX's, the normal is the plane's z axis, the tangent is zero *)
Theorem C43_mjx_plane_sphere :
  forall (margin : R) (c1 : vec3 R) (m1 : mat3 R) (c2 : vec3 R) (r : R),
    dot3 (sub3 c2 c1) (zaxis m1) - r <= margin ->
    rawPlaneSphere margin c1 m1 c2 r =
    [(fst (mjx_plane_sphere (zaxis m1) c1 c2 r), snd (mjx_plane_sphere (zaxis m1) c1 c2 r), zaxis m1, zero3)].
Proof. exact mjx_plane_sphere_eq. Qed.
Print Assumptions C43_mjx_plane_sphere.

(* stiffness and damping of the reference acceleration aref = -B vel - K imp pos (C: getsolparam + mj_makeImpedance; MJX: constraint._kbi):
   for a solref of one sign, dmax inside [mjMINIMP, mjMAXIMP] and no mjMINVAL guard firing the two formulations give the same (K, B),
   with and without the REFSAFE clamp of the time constant *)
Theorem C43_mjx_kb :
  forall (refsafe : bool) (h s0 s1 dmax : R),
    (0 < s0 /\ 0 < s1) \/ (s0 < 0 /\ s1 < 0) ->
    0 < h -> Rdec 1 (-4) <= dmax <= Rdec 9999 (-4) ->
    (forall tc : R, s0 <= tc -> Rdec 1 (-15) < dmax * dmax * tc * tc * s1 * s1 /\ Rdec 1 (-15) < dmax * tc) ->
    Rdec 1 (-15) < dmax * dmax -> Rdec 1 (-15) < dmax ->
    mjx_kb refsafe h s0 s1 dmax = c_kb refsafe h s0 s1 dmax.
Proof. exact mjx_kb_eq. Qed.
Print Assumptions C43_mjx_kb.

(* what K and B mean.  Standard form (timeconst, dampratio): K = 1/(dmax^2 tc^2 dr^2), B = 2/(dmax tc), hence B^2 = 4 K dr^2: the reference
   dynamics has damping ratio dr.  Direct form (-stiffness, -damping): K dmax^2 = stiffness and B dmax = damping (B is divided by dmax ONCE) *)
Theorem C43_kb_meaning :
  (forall (h tc dr dmax : R),
     0 < tc -> 0 < dr -> Rdec 1 (-4) <= dmax <= Rdec 9999 (-4) ->
     Rdec 1 (-15) < dmax * dmax * tc * tc * dr * dr -> Rdec 1 (-15) < dmax * tc ->
     let '(K, B) := c_kb false h tc dr dmax in
     K = 1 / (dmax * dmax * tc * tc * dr * dr) /\ B = 2 / (dmax * tc) /\ B * B = 4 * K * (dr * dr)) /\
  (forall (refsafe : bool) (h k b dmax : R),
     0 < k -> 0 < b -> Rdec 1 (-4) <= dmax <= Rdec 9999 (-4) -> Rdec 1 (-15) < dmax * dmax -> Rdec 1 (-15) < dmax ->
     let '(K, B) := c_kb refsafe h (- k) (- b) dmax in
     K * (dmax * dmax) = k /\ B * dmax = b).
Proof. exact (conj c_kb_standard c_kb_direct). Qed.
Print Assumptions C43_kb_meaning.

(* tail of the actuation stage (mj_fwdActuation / forward.fwd_actuation): gravity compensation is added to the joint-space actuator force BEFORE the clamp
   to actuatorfrcrange, so qfrc_actuator of a limited joint never leaves the range; clamping first and adding afterwards does leave it *)
Theorem C43_act_tail :
  (forall (frc gc : R) (g : bool) (lo hi : R), lo <= hi -> lo <= act_tail frc gc g true lo hi <= hi) /\
  (exists (frc gc lo hi : R), lo <= hi /\ hi < act_tail_swapped frc gc true true lo hi).
Proof. exact (conj act_tail_in_range act_tail_swapped_leaves_range). Qed.
Print Assumptions C43_act_tail.

(* non-vacuity: the hypotheses hold for ordinary values and the three zones are all reached *)
Example C43_example :
  (0 < 1 /\ Rdec 1 (-15) <= 1 * 1 * (1 + 1 * 1)) /\
  mjx_zone 1 2 1 = 0%Z /\ mjx_zone 1 (-2) 1 = 1%Z /\ mjx_zone 1 0 1 = 2%Z.
Proof.
  split.
  - split; [lra|]. unfold Rdec. simpl. apply Rle_trans with 1; [|lra].
    apply (Rmult_le_reg_r 1000000000000000); [lra|]. unfold Rdiv. rewrite Rmult_assoc, Rinv_l; lra.
  - unfold mjx_zone, mjx_bottom, mjx_middle. num_R.
    repeat split.
    + replace (Rleb 1 0) with false by (symmetry; apply Rleb_false; lra).
      replace (Rltb 0 1) with true by (symmetry; apply Rltb_true; lra).
      replace (Rleb (1 * 2 + 1) 0) with false by (symmetry; apply Rleb_false; lra).
      replace (Rltb 2 (1 * 1)) with false by (symmetry; apply Rltb_false; lra). reflexivity.
    + replace (Rleb 1 0) with false by (symmetry; apply Rleb_false; lra).
      replace (Rltb 0 1) with true by (symmetry; apply Rltb_true; lra).
      replace (Rleb (1 * -2 + 1) 0) with true by (symmetry; apply Rleb_true; lra). reflexivity.
    + replace (Rleb 1 0) with false by (symmetry; apply Rleb_false; lra).
      replace (Rltb 0 1) with true by (symmetry; apply Rltb_true; lra).
      replace (Rleb (1 * 0 + 1) 0) with false by (symmetry; apply Rleb_false; lra).
      replace (Rltb 0 (1 * 1)) with true by (symmetry; apply Rltb_true; lra).
      replace (Rltb 0 (1 * 0 + 1)) with true by (symmetry; apply Rltb_true; lra). reflexivity.
Qed.

(* ================================================================ Part 2: the kernels both implementations are tied to *)

(* constraint row law (C side mj_constraintUpdate_impl, MJX side solver._update_constraint): for every composition of rows and every
   residual, efc_force[k] = - d cost / d jar[k] *)
Corollary C43_row_gradient :
  forall flgH ne nf (con : list (@contact R)) (rows : list (@rowdesc R)) (jar : list R) k,
    cu_wf (length rows) ne nf con 0 rows -> length jar = length rows -> (k < length jar)%nat ->
    constraint_update flgH ne nf con rows jar <> None /\
    length (cu_force (constraint_update flgH ne nf con rows jar)) = length rows /\
    is_derive (fun t : R => cu_cost (constraint_update flgH ne nf con rows (upd jar k t)))
              (nth k jar 0)
              (- nth k (cu_force (constraint_update flgH ne nf con rows jar)) 0).
Proof. exact cu_gradient. Qed.
Print Assumptions C43_row_gradient.

(* plane-sphere (mjc_PlaneSphere, mjx plane_sphere): emitted iff d <= margin; dist = d, normal = plane normal, pos = midpoint of the foot
   point on the plane and the lowest sphere point *)
Corollary C43_plane_sphere_geometry :
  forall (margin : R) (c1 : vec3 R) (m1 : mat3 R) (c2 : vec3 R) (r : R),
    let n := zaxis m1 in
    let d := dot3 (sub3 c2 c1) n - r in
    (margin < d -> rawPlaneSphere margin c1 m1 c2 r = []) /\
    (d <= margin ->
       exists pos : vec3 R,
         rawPlaneSphere margin c1 m1 c2 r = [(d, pos, n, zero3)] /\
         let p1 := sub3 c2 (scl3 n (dot3 (sub3 c2 c1) n)) in
         let p2 := sub3 c2 (scl3 n r) in
         pos = scl3 (add3 p1 p2) (/ 2) /\ sub3 p2 p1 = scl3 n d /\ (dot3 n n = 1 -> dot3 (sub3 p1 c1) n = 0)).
Proof. exact C13_plane_sphere_l. Qed.
Print Assumptions C43_plane_sphere_geometry.

(* sphere-sphere (mjc_SphereSphere, mjx sphere_sphere and the final stage of sphere_capsule / capsule_capsule) *)
Corollary C43_sphere_sphere_geometry :
  forall (margin : R) (c1 : vec3 R) (m1 : mat3 R) (r1 : R) (c2 : vec3 R) (m2 : mat3 R) (r2 : R),
    0 <= margin + r1 + r2 ->
    let D := norm3 (sub3 c2 c1) in
    let d := D - r1 - r2 in
    (margin < d -> rawSphereSphere margin c1 m1 r1 c2 m2 r2 = []) /\
    (d <= margin ->
       exists (pos n : vec3 R),
         rawSphereSphere margin c1 m1 r1 c2 m2 r2 = [(d, pos, n, zero3)] /\ dot3 n n = 1 /\
         pos = add3 (scl3 n (r1 + d / 2)) c1 /\
         (D < mjMINVAL -> n = fst (normalize3 (cross (zaxis m1) (zaxis m2)))) /\
         (mjMINVAL <= D ->
            n = scl3 (sub3 c2 c1) (1 / D) /\
            let p1 := add3 c1 (scl3 n r1) in
            let p2 := sub3 c2 (scl3 n r2) in
            pos = scl3 (add3 p1 p2) (/ 2) /\ sub3 p2 p1 = scl3 n d)).
Proof. exact C13_sphere_sphere_l. Qed.
Print Assumptions C43_sphere_sphere_geometry.

(* semi-implicit Euler (mj_Euler without damping, mjx forward._advance): velocity first, positions with the NEW velocity, time + h *)
Corollary C43_euler_order :
  forall (js : list Integrate.jtype) (h : R) (s : Integrate.State) (qacc : list R),
    let s' := Integrate.euler js h s qacc in
    Integrate.qvel s' = Integrate.addToScl (Integrate.qvel s) qacc h /\
    Integrate.qpos s' = Integrate.integratePos js (Integrate.qpos s) (Integrate.qvel s') h /\
    Integrate.time s' = Integrate.time s + h.
Proof. exact IntegrateProof.euler_order. Qed.
Print Assumptions C43_euler_order.

(* activation update (mj_nextActivation, mjx forward._next_activation): clamped into actrange after the integration *)
Corollary C43_act_clamped :
  forall (exact : bool) (h act act_dot prm0 lo hi : R),
    lo <= hi -> lo <= Integrate.nextActivation exact h act act_dot prm0 true lo hi <= hi.
Proof. exact IntegrateProof.act_clamped. Qed.
Print Assumptions C43_act_clamped.

(* quaternion kernels of mjx math.py equal the C functions on unit quaternions (checked three-way by C24) *)
Corollary C43_mjx_rotate :
  forall (v : vec3 R) (q : quat R), unitq q -> mjx_rotate v q = rotVecQuat v q.
Proof. exact mjx_rotate_eq. Qed.
Print Assumptions C43_mjx_rotate.

Corollary C43_mjx_quat_integrate :
  forall (q : quat R) (v : vec3 R) (dt : R),
    unitq q -> (v = (0, 0, 0) \/ notTiny3 v) -> mjx_quat_integrate q v dt = quatIntegrate q v dt.
Proof. exact mjx_quat_integrate_eq. Qed.
Print Assumptions C43_mjx_quat_integrate.
