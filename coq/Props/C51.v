(* C51 — First-party plugins honour their documented laws.
   Statements only; proofs in Proof/PIDProof.v, Proof/PIDFloat.v, Proof/CableProof.v.
   Models: Model/PID.v (plugin/actuator/pid.cc), Model/Cable.v (plugin/elasticity/cable.cc). *)
From Coq Require Import ZArith List Bool PrimFloat Reals.
From MJV Require Import Lib.Num Lib.NumR Lib.NumF Model.Spatial Model.PID Model.Cable
     Proof.PIDProof Proof.PIDFloat Proof.CableProof.
Import ListNotations.
Open Scope R_scope.

(* ---------------------------------------------------------------- PID: the force law *)
(* Pid::Compute writes kp*e + ki*I + kd*edot, where e = setpoint - length, edot = setpoint rate -
   velocity (the rate is 0 for dyntype none, else the act_dot of the native activation), and I is the
   stored integral advanced by e*h and clipped (0 when ki = 0). *)
Theorem C51_force_law :
  forall (c : @PidCfg R) (a : @ActPrm R) (h : R) (tp : bool) (ctrl len vel act ad : list R),
    let u := get_ctrl c a h ctrl act ad (get_state c a tp act) (actearly a) in
    let e := u - rd len (aid a) in
    let edot := (if (dyntype a =? 0)%Z then 0 else rd ad (last_adr a)) - rd vel (aid a) in
    let I := if has_i c then integral_update c h (if has_i c then rd act (actadr a) else 0) e else 0 in
    pid_force c a h tp ctrl len vel act ad = kp c * e + ki c * I + kd c * edot.
Proof. exact pid_force_law. Qed.
Print Assumptions C51_force_law.

(* ---------------------------------------------------------------- PID: integral clipped *)
(* for every configuration accepted by Pid::Create with an integral limit, the integral used in the
   force is within the limit in every call, whatever the state *)
Theorem C51_integral_clipped :
  forall (c : @PidCfg R) (a : @ActPrm R) (h : R) (tp : bool) (ctrl len act ad : list R) (m : R),
    cfg_accepted c = true -> imax c = Some m ->
    Rabs (pid_integral c a h tp ctrl len act ad) <= m.
Proof. exact pid_integral_clipped. Qed.
Print Assumptions C51_integral_clipped.

(* the documented meaning of the attribute imax: the FORCE of the I term is within [-imax, imax]
   (Create refuses the configurations where imax/ki is negative) *)
Theorem C51_iterm_force_clipped :
  forall (akp aki akd aslew : option R) (f : R) (a : @ActPrm R) (h : R) (tp : bool) (ctrl len act ad : list R),
    let c := cfg_of_attrs akp aki akd (Some f) aslew in
    cfg_accepted c = true ->
    Rabs (ki c * pid_integral c a h tp ctrl len act ad) <= Rabs f.
Proof. exact pid_iterm_force_clipped. Qed.
Print Assumptions C51_iterm_force_clipped.

(* what ActDot requests through act_dot: (requested state - stored state) / h, for the integral slot
   and for the previous-ctrl slot *)
Theorem C51_actdot_requests :
  forall (c : @PidCfg R) (a : @ActPrm R) (h : R) (tp : bool) (ctrl len act ad : list R),
    (0 <= actadr a)%Z -> (actadr a + actnum a <= Z.of_nat (length ad))%Z -> act_valid c a = true ->
    let out := inst_actdot c [a] h tp ctrl len act ad in
    (has_i c = true ->
       rd out (actadr a) = (requested_integral c a h tp ctrl len act ad - rd act (actadr a)) / h) /\
    (has_slew c = true ->
       rd out (slew_adr c a) = (requested_prev_ctrl c a h tp ctrl act ad - rd act (slew_adr c a)) / h).
Proof. exact actdot_requests. Qed.
Print Assumptions C51_actdot_requests.

(* the stored state equals the requested one PROVIDED the engine integrates the slice with the Euler
   rule and no actrange clamp (dyntype other than filterexact, actlimited off) *)
Theorem C51_stored_state_euler :
  forall (c : @PidCfg R) (a : @ActPrm R) (h : R) (tp : bool) (ctrl len act ad : list R),
    (0 <= actadr a)%Z -> (actadr a + actnum a <= Z.of_nat (length ad))%Z ->
    (actadr a + actnum a <= Z.of_nat (length act))%Z -> act_valid c a = true ->
    h <> 0 -> dyntype a <> 3%Z -> actlimited a = false ->
    let dot := inst_actdot c [a] h tp ctrl len act ad in
    let act' := inst_advance [a] h act dot act in
    (has_i c = true -> rd act' (actadr a) = requested_integral c a h tp ctrl len act ad) /\
    (has_slew c = true -> rd act' (slew_adr c a) = requested_prev_ctrl c a h tp ctrl act ad).
Proof. exact stored_state_euler. Qed.
Print Assumptions C51_stored_state_euler.

(* without that proviso the statement is false of the faithful model (binary64 instances, replayed on
   the implementation: KNOWN_FINDINGS C51-F1): filterexact integrates the plugin-owned integral slot
   with the exact-filter formula, actlimited clamps it to the actrange *)
Theorem C51_filterexact_state_refuted :
  exists (c : @PidCfg float) (a : @ActPrm float) (h : float) (ctrl len act ad : list float),
    act_valid c a = true /\ has_i c = true /\ dyntype a = 3%Z /\ actlimited a = false /\
    fclose 0x1p-10 (stored_integral c a h ctrl len act ad) (requested_integral c a h true ctrl len act ad) = false.
Proof.
  exists fx_cfg, fx_act, fx_h, [1%float], fx_len, fx_state, fx_dot0.
  destruct filterexact_state_refuted as (A & B & C & D & E & _). repeat split; assumption.
Qed.
Print Assumptions C51_filterexact_state_refuted.

Theorem C51_actlimited_state_refuted :
  exists (c : @PidCfg float) (a : @ActPrm float) (h : float) (ctrl len act ad : list float),
    act_valid c a = true /\ has_i c = true /\ dyntype a = 1%Z /\ actlimited a = true /\
    fclose 0x1p-10 (stored_integral c a h ctrl len act ad) (requested_integral c a h true ctrl len act ad) = false.
Proof.
  exists fx_cfg, al_act, fx_h, [0.5%float], [0%float], al_state, [0; 0.5]%float.
  destruct actlimited_state_refuted as (A & B & C & D & E & _). repeat split; assumption.
Qed.
Print Assumptions C51_actlimited_state_refuted.

(* every history of (ctrl, length) inputs of an actuator whose plugin state is Euler-integrated
   (dyntype none): the stored integral is within the limit after every step *)
Theorem C51_integral_history :
  forall (c : @PidCfg R) (clim : bool) (lo hi h m : R) (ins : list (R * R)),
    h <> 0 -> has_i c = true -> imax c = Some m -> 0 <= m ->
    forall (tp : bool) (s s' : @Loop R),
      In s' (loop_run c clim lo hi h tp s ins) -> Rabs (l_int s') <= m.
Proof. exact loop_integral_history. Qed.
Print Assumptions C51_integral_history.

(* ---------------------------------------------------------------- PID: slew limit *)
(* whenever previous_ctrl exists (time > 0) the setpoint used is within slewmax*h of it *)
Theorem C51_slew_step :
  forall (c : @PidCfg R) (a : @ActPrm R) (h : R) (ctrl act ad : list R) (st : @PState R) (early : bool) (s : R),
    slew c = Some s -> 0 <= s -> 0 <= h -> previous_ctrl_exists st = true ->
    Rabs (get_ctrl c a h ctrl act ad st early - previous_ctrl st) <= s * h.
Proof. exact get_ctrl_slew. Qed.
Print Assumptions C51_slew_step.

(* every history from time 0 (Euler-integrated plugin state): consecutive setpoints differ by at most
   slewmax*h, from the first pair on *)
Theorem C51_slew_history :
  forall (c : @PidCfg R) (clim : bool) (lo hi h sl : R),
    h <> 0 -> 0 <= h -> slew c = Some sl -> 0 <= sl ->
    forall (ins : list (R * R)) (tp : bool) (s : @Loop R) (k : nat),
      (S k < length ins)%nat ->
      Rabs (nth (S k) (loop_ctrls c clim lo hi h tp s ins) 0 - nth k (loop_ctrls c clim lo hi h tp s ins) 0) <= sl * h.
Proof. exact loop_slew_history. Qed.
Print Assumptions C51_slew_history.

(* ---------------------------------------------------------------- PID: index arithmetic *)
(* every act_dot index written by ActDot for an actuator that passed the actnum validation of Create
   lies among the plugin-owned slots of its slice, and is never the native activation slot *)
Theorem C51_writes_in_slice :
  forall (c : @PidCfg R) (a : @ActPrm R) (h : R) (tp : bool) (ctrl len act ad : list R) (w : Z * R),
    act_valid c a = true -> In w (pid_actdot_writes c a h tp ctrl len act ad) ->
    (actadr a <= fst w < actadr a + act_dim c)%Z /\ (actadr a <= fst w < actadr a + actnum a)%Z /\
    (native_dyn (dyntype a) = true -> fst w <> last_adr a).
Proof. exact pid_writes_in_slice. Qed.
Print Assumptions C51_writes_in_slice.

(* every act / act_dot index read lies in the slice, for dyntype none / integrator / filter /
   filterexact (and for any dyntype as soon as the slice is not empty) *)
Theorem C51_reads_in_slice :
  forall (c : @PidCfg R) (a : @ActPrm R) (i : Z),
    act_valid c a = true -> (dyntype a = 0 \/ native_dyn (dyntype a) = true \/ 1 <= actnum a)%Z ->
    In i (pid_reads c a) -> (actadr a <= i < actadr a + actnum a)%Z.
Proof. exact pid_reads_in_slice. Qed.
Print Assumptions C51_reads_in_slice.

(* the side condition matters: a configuration accepted by Create (dyntype muscle, no integral, no
   slew, actdim 0) reads act[actadr-1] (observation about reads, not a write) *)
Theorem C51_reads_outside_example :
  let c := @mkCfg R 1 0 0 None None in
  let a := @mkAct R 0 4 false 0 0 false 0 0 false 1 5 0 in
  act_valid c a = true /\ In (actadr a - 1)%Z (pid_reads c a).
Proof. exact pid_reads_outside_example. Qed.
Print Assumptions C51_reads_outside_example.

(* the act_dot callback of an instance leaves every entry outside the slices of its actuators
   unchanged (and the array length); the native slot of a validated actuator is unchanged too *)
Theorem C51_actdot_frame :
  forall (c : @PidCfg R) (acts : list (@ActPrm R)) (h : R) (tp : bool) (ctrl len act : list R) (j : Z),
    (forall a : @ActPrm R, In a acts -> act_valid c a = true) ->
    (forall a : @ActPrm R, In a acts -> ~ (actadr a <= j < actadr a + actnum a)%Z) ->
    forall ad : list R,
      rd (inst_actdot c acts h tp ctrl len act ad) j = rd ad j /\
      length (inst_actdot c acts h tp ctrl len act ad) = length ad.
Proof. exact inst_actdot_frame. Qed.
Print Assumptions C51_actdot_frame.

Theorem C51_actdot_native_slot :
  forall (c : @PidCfg R) (a : @ActPrm R) (h : R) (tp : bool) (ctrl len act ad : list R),
    act_valid c a = true -> native_dyn (dyntype a) = true ->
    rd (inst_actdot c [a] h tp ctrl len act ad) (last_adr a) = rd ad (last_adr a).
Proof. exact inst_actdot_native_slot. Qed.
Print Assumptions C51_actdot_native_slot.

(* the compute callback writes only the actuator_force entries of the instance's own actuators *)
Theorem C51_force_frame :
  forall (c : @PidCfg R) (acts : list (@ActPrm R)) (h : R) (tp : bool) (ctrl len vel act ad : list R) (j : Z),
    (forall a : @ActPrm R, In a acts -> aid a <> j) ->
    forall force : list R,
      rd (inst_compute c acts h tp ctrl len vel act ad force) j = rd force j /\
      length (inst_compute c acts h tp ctrl len vel act ad force) = length force.
Proof. exact inst_compute_frame. Qed.
Print Assumptions C51_force_frame.

(* ---------------------------------------------------------------- cable *)
(* LocalStress: curvature equal to the reference gives zero stress, for every stiffness and segment
   length, with and without pull-back *)
Theorem C51_cable_stress_rest :
  forall (k : R * R * R * R) (q : quat R) (w0 : vec3 R) (pullback : bool),
    curvature q = w0 -> localStress k q w0 pullback = (0, 0, 0).
Proof. exact localStress_rest. Qed.
Print Assumptions C51_cable_stress_rest.

(* Cable::Compute: if every body with a predecessor is at its reference curvature, qfrc_passive is
   left unchanged, for every stiffness, Jacobian and body orientation.  Partial: mj_applyFT is
   modelled as qfrc += jacr^T torque; over R a zero segment length is harmless (x/0 is a real), in
   binary64 it is 0/0; the constructor (omega0 = curvature at qpos0) is covered by the tie only. *)
Theorem C51_cable_rest_partial :
  forall (bs : list (@CBody R)) (qfrc : list R),
    (forall b : @CBody R, In b (tl bs) -> curvature (quatDiff (c_bq b) (c_jq b) false) = c_w0 b) ->
    cable_compute bs qfrc = qfrc.
Proof. exact cable_compute_rest. Qed.
Print Assumptions C51_cable_rest_partial.

(* constructor: with the ball joint at its qpos0 value (identity quaternion) the reference curvature
   omega0 = subQuat(body_quat, qpos0 quaternion of the body's BALL joint) is the curvature measured by
   Compute, so a non-flat cable built by the constructor exerts no force at qpos0 -- whatever other
   (slide / hinge) joints the segments carry, since only the ball joint's quaternion enters *)
Theorem C51_cable_omega0_rest :
  forall bq : quat R, cable_omega0 false true bq quatId = curvature (quatDiff bq quatId false).
Proof. exact omega0_is_rest_curvature. Qed.
Print Assumptions C51_cable_omega0_rest.

Theorem C51_cable_rest_at_qpos0 :
  forall (b0 : @CBody R) (rest : list (@CBody R)) (qfrc : list R),
    (forall b : @CBody R, In b rest -> c_jq b = quatId /\ c_w0 b = cable_omega0 false true (c_bq b) quatId) ->
    cable_compute (b0 :: rest) qfrc = qfrc.
Proof. exact cable_rest_at_qpos0. Qed.
Print Assumptions C51_cable_rest_at_qpos0.

(* non-vacuity of the stress law: away from the reference along a stiff direction the stress is not 0 *)
Theorem C51_cable_stress_nonrest :
  forall (k0 k1 k2 len : R) (q : quat R) (w0 : vec3 R),
    k0 <> 0 -> len <> 0 -> fst (fst (curvature q)) <> fst (fst w0) ->
    localStress (k0, k1, k2, len) q w0 false <> (0, 0, 0).
Proof. exact localStress_nonrest. Qed.
Print Assumptions C51_cable_stress_nonrest.
