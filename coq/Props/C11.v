(* C11 — Constraint forces are admissible.
   Statements over R about Model/ConstraintUpdate.v (the force law mj_constraintUpdate_impl that the
   primal solvers evaluate, mju_encodePyramid / mju_decodePyramid, mj_contactForce), each closed by a
   lemma of Proof/ConstraintUpdateProof.v.  cu_adm (Model/ConstraintUpdateSpec.v) follows the row loop:
   friction-loss rows |f| <= frictionloss; limit, frictionless and pyramidal rows f >= 0; elliptic
   blocks f0 >= 0 and sum_j (f_j/friction_j)^2 <= f0^2. *)
From Coq Require Import ZArith List Bool Reals Lra Lia.
From MJV Require Import Lib.Num Lib.NumR Model.ConstraintUpdate Model.ConstraintUpdateSpec Proof.ConstraintUpdateProof.
Import ListNotations.
Open Scope R_scope.

(* for every row composition and every residual vector the returned efc_force is admissible *)
Theorem C11_admissible :
  forall flgH ne nf (con : list (@contact R)) (rows : list (@rowdesc R)) (jar : list R),
    cu_wf (length rows) ne nf con 0 rows -> D_pos rows -> cu_fr_nonzero (length rows) ne nf con 0 rows ->
    length jar = length rows ->
    cu_adm (length rows) ne nf con 0 rows (cu_force (constraint_update flgH ne nf con rows jar)).
Proof. exact cu_admissible. Qed.
Print Assumptions C11_admissible.

(* the three row kinds separately *)
Theorem C11_friction_bound :
  forall s D Rr fl x, D * Rr = 1 -> 0 < Rr -> 0 <= fl -> Rabs (r_force (row_fric s D Rr fl x)) <= fl.
Proof. exact row_fric_bound. Qed.
Print Assumptions C11_friction_bound.

Theorem C11_unilateral :
  forall s D x, 0 <= D -> 0 <= r_force (row_uni s D x).
Proof. exact row_uni_nonneg. Qed.
Print Assumptions C11_unilateral.

(* elliptic contact of any dimension, in every zone: non-negative normal force that bounds the
   friction-weighted tangential norm *)
Theorem C11_elliptic :
  forall flg s mu fr D0 Dt x0 xt,
    0 < mu -> 0 < D0 -> length Dt = length xt -> rel_ok mu fr D0 Dt ->
    List.Forall (fun f => f <> 0) (firstn (length xt) fr) ->
    ell_admissible fr (e_force (block_ell flg s mu fr (D0 :: Dt) (x0 :: xt))).
Proof. exact ell_adm. Qed.
Print Assumptions C11_elliptic.

(* decodePyramid(encodePyramid(force)) = force for forces with force[i+1]/mu[i] <= force[0]/(dim-1)
   (encodePyramid clips b_i = min(a, force[i+1]/mu[i]) from above only) *)
Theorem C11_decode_encode :
  forall (force mu : list R) (dim : Z),
    (2 <= dim)%Z -> length force = Z.to_nat dim -> (Z.to_nat (dim - 1) <= length mu)%nat ->
    (forall i, (i < Z.to_nat (dim - 1))%nat -> nth i mu 0 <> 0 /\
               nth (S i) force 0 / nth i mu 0 <= nth 0 force 0 / IZR (dim - 1)) ->
    decode_pyramid (encode_pyramid force mu dim) mu dim = force.
Proof. exact decode_encode. Qed.
Print Assumptions C11_decode_encode.

(* decoding non-negative pyramid edge forces gives a contact force inside the friction pyramid *)
Theorem C11_decode_cone :
  forall (pyr mu : list R) (dim : Z),
    (2 <= dim)%Z -> length pyr = (2 * Z.to_nat (dim - 1))%nat -> List.Forall (fun p => 0 <= p) pyr ->
    (forall i, (i < Z.to_nat (dim - 1))%nat -> 0 <= nth i mu 0) ->
    let f := decode_pyramid pyr mu dim in
    0 <= nth 0 f 0 /\
    forall i, (i < Z.to_nat (dim - 1))%nat -> Rabs (nth (S i) f 0) <= nth i mu 0 * nth 0 f 0.
Proof. exact decode_cone. Qed.
Print Assumptions C11_decode_cone.

(* mj_contactForce, elliptic cone: the slice efc_force[efc_address .. +dim) zero-padded to 6, with the
   contact's adhesion subtracted from the normal component *)
Theorem C11_contact_force :
  forall (efc_force fr : list R) (adr dim : Z) (adhesion : R),
    (0 <= adr)%Z -> (1 <= dim <= 6)%Z -> (Z.to_nat adr + Z.to_nat dim <= length efc_force)%nat ->
    let r := contact_force false efc_force adr fr dim adhesion in
    length r = 6%nat /\
    nth 0 r 0 = nth (Z.to_nat adr) efc_force 0 - adhesion /\
    (forall k, (1 <= k < Z.to_nat dim)%nat -> nth k r 0 = nth (Z.to_nat adr + k) efc_force 0) /\
    (forall k, (Z.to_nat dim <= k < 6)%nat -> nth k r 0 = 0).
Proof. exact contact_force_elliptic. Qed.
Print Assumptions C11_contact_force.

(* mj_instantiateContact's efc_address bookkeeping (contacts as (exclude, rows added)): a contact has a
   non-negative address exactly when it is included, excluded contacts (in the gap, no dofs affected, passive)
   get -1, and an included contact's address is start + the rows of the included contacts before it, i.e. the
   first of its own rows; mj_contactForce of a contact without address is zero *)
Theorem C11_contact_addresses :
  forall (cs : list (Z * Z)) (start : Z) (k : nat),
    (0 <= start)%Z -> (forall c, In c cs -> (0 <= snd c)%Z) -> (k < length cs)%nat ->
    ((0 <= nth k (contact_addresses start cs) (-1))%Z <-> fst (nth k cs (1%Z, 0%Z)) = 0%Z) /\
    (fst (nth k cs (1%Z, 0%Z)) <> 0%Z -> nth k (contact_addresses start cs) (-1)%Z = (-1)%Z) /\
    (fst (nth k cs (1%Z, 0%Z)) = 0%Z ->
       nth k (contact_addresses start cs) (-1)%Z = (start + included_rows (firstn k cs))%Z).
Proof. exact contact_addresses_full. Qed.
Print Assumptions C11_contact_addresses.

Theorem C11_contact_force_rowless :
  forall (pyramidal : bool) (efc_force fr : list R) (adr dim : Z) (adhesion : R),
    (adr < 0)%Z -> contact_force_gated pyramidal efc_force adr fr dim adhesion = repeat 0 6.
Proof. exact contact_force_rowless. Qed.
Print Assumptions C11_contact_force_rowless.

(* dual solvers: the dry-friction row update of solNoSlip / solPGS (force and bound of the same row)
   stays within the row's frictionloss and is mju_clip to [-floss, floss]; the noslip update of a pair of
   opposing pyramid edges keeps both edges non-negative and their sum (the normal share) unchanged *)
Theorem C11_noslip_friction :
  forall force res arinv fl : R, 0 <= fl ->
    Rabs (noslip_fric_update force res arinv fl) <= fl /\
    noslip_fric_update force res arinv fl = mju_clip (force - res * arinv) (- fl) fl.
Proof. exact noslip_fric_spec. Qed.
Print Assumptions C11_noslip_friction.

Theorem C11_noslip_pyramid :
  forall mid y : R, 0 <= mid ->
    0 <= fst (noslip_pyr_pair mid y) /\ 0 <= snd (noslip_pyr_pair mid y) /\
    fst (noslip_pyr_pair mid y) + snd (noslip_pyr_pair mid y) = 2 * mid.
Proof. exact noslip_pyr_pair_adm. Qed.
Print Assumptions C11_noslip_pyramid.

(* non-vacuity: the composition of Props/C12.v's example (equality, friction-loss, limit rows and an
   elliptic contact of dimension 3) also has positive efc_D and non-zero friction coefficients *)
Example C11_hyp_example :
  let rows : list (@rowdesc R) :=
    [(2, / 2, 0, 0%Z, 0%Z); (4, / 4, 3, 1%Z, 0%Z); (5, / 5, 0, 3%Z, 0%Z);
     (8, / 8, 0, 7%Z, 0%Z); (8, / 8, 0, 7%Z, 0%Z); (2, / 2, 0, 7%Z, 0%Z)] in
  D_pos rows /\ cu_fr_nonzero 6 1 1 [(3%Z, / 2, [/ 2; / 4; 1; 1; 1])] 0 rows.
Proof.
  cbv zeta. split.
  - unfold D_pos. repeat constructor; simpl; lra.
  - simpl. repeat split; repeat constructor; lra.
Qed.
