(* C26 — The state vector API is a faithful serialization.
   Statements only; proofs are in Proof/StateAPIProof.v.  The model (Model/StateAPI.v) is generic in
   the table of state elements: V = values, toBool = (mjtNum)(mjtBool)x, F = mjData fields,
   n = mjNSTATE, elems i = the element of bit i (field, size, stored-as-mjtBool) or None when
   mj_stateElemSize has no case for it.  None as a result = mjERROR. *)
From Coq Require Import String Ascii List ZArith Bool.
From MJV Require Import Model.StateAPI Gen.StateTable Proof.StateAPIProof.
Import ListNotations.
Open Scope Z_scope.

(* --- the table regenerated from the working tree passes the computed checks:
       every bit < mjNSTATE has exactly one enumerator, a size case and a field; the fields are pairwise
       distinct; each size expression equals the MJDATA_POINTERS/MJDATA_SCALAR dimension of its field;
       mjtBool special-casing is identical in get/set/copy and applies exactly to the mjtBool field;
       the elements of the keyframe signature are the seven arrays a keyframe stores --- *)
Theorem C26_table_ok : table_ok gen_tables = true /\ key_ok gen_tables = true.
Proof. vm_compute. split; reflexivity. Qed.
Print Assumptions C26_table_ok.

(* --- consequently, for EVERY model (every valuation env of nq, nv, na, ...) the generated table meets the
       hypotheses of the generic theorems below, and the sizes are the true array lengths --- *)
Theorem C26_generated_table :
  forall env : string -> Z,
    let N := Z.to_nat (t_nstate gen_tables) in
    let E := elems_of gen_tables env in
    all_valid string N E /\
    fields_injective string E /\
    (forall i e, (i < N)%nat -> E i = Some e -> field_len gen_tables env (e_field e) = Some (e_size e)) /\
    (forall i e, (i < N)%nat -> E i = Some e ->
       exists ty d, assoc (e_field e) (t_fields gen_tables) = Some (ty, d) /\ (e_bool e = true <-> ty = "mjtBool"%string)).
Proof.
  exact (fun env => conj (inst_valid gen_tables env (proj1 C26_table_ok))
                   (conj (inst_inj gen_tables env (proj1 C26_table_ok))
                   (conj (inst_len gen_tables env (proj1 C26_table_ok))
                         (inst_bool gen_tables env (proj1 C26_table_ok))))).
Qed.
Print Assumptions C26_generated_table.

(* --- mj_stateSize equals the length mj_getState writes (same error outcome) --- *)
Theorem C26_size_get :
  forall (V : Type) (toBool : V -> V) (F : Type) (n : nat) (elems : nat -> option (elem F)) (d : data V F) (sig : Z),
    wf V toBool F elems d ->
    option_map (@List.length V) (getState V F n elems d sig) = stateSize F n elems sig.
Proof. exact size_get. Qed.
Print Assumptions C26_size_get.

(* --- mj_setState after mj_getState restores exactly the components of sig, leaves every other field --- *)
Theorem C26_set_get :
  forall (V : Type) (toBool : V -> V) (F : Type) (feqb : F -> F -> bool),
    (forall a b : F, feqb a b = true <-> a = b) ->
    forall (n : nat) (elems : nat -> option (elem F)),
      fields_injective F elems ->
      forall (d d' : data V F) (sig : Z) (v : list V),
        wf V toBool F elems d -> wf V toBool F elems d' ->
        getState V F n elems d sig = Some v ->
        exists d'' : data V F,
          setState V toBool F feqb n elems d' v sig = Some d'' /\
          (forall i e, In i (bits n sig) -> elems i = Some e -> d'' (e_field e) = d (e_field e)) /\
          (forall f, (forall i e, In i (bits n sig) -> elems i = Some e -> e_field e <> f) -> d'' f = d' f).
Proof. exact set_get. Qed.
Print Assumptions C26_set_get.

(* --- mj_getState after mj_setState returns the vector, entries of mjtBool components passed through x != 0
       (in this tree eq_active is mjtBool = _Bool, so the conversion is not a byte truncation) --- *)
Theorem C26_get_set :
  forall (V : Type) (toBool : V -> V) (F : Type) (feqb : F -> F -> bool),
    (forall a b : F, feqb a b = true <-> a = b) ->
    forall (n : nat) (elems : nat -> option (elem F)),
      fields_injective F elems ->
      forall (d : data V F) (sig : Z) (v : list V) (size : nat) (m : list bool),
        wf V toBool F elems d ->
        stateSize F n elems sig = Some size -> List.length v = size ->
        stateMask F n elems sig = Some m ->
        exists d' : data V F,
          setState V toBool F feqb n elems d v sig = Some d' /\
          getState V F n elems d' sig = Some (applyMask V toBool m v).
Proof. exact get_set. Qed.
Print Assumptions C26_get_set.

(* ... hence the vector itself when the entries at mjtBool positions are already 0/1 *)
Theorem C26_get_set_bool :
  forall (V : Type) (toBool : V -> V) (F : Type) (feqb : F -> F -> bool),
    (forall a b : F, feqb a b = true <-> a = b) ->
    forall (n : nat) (elems : nat -> option (elem F)),
      fields_injective F elems ->
      forall (d : data V F) (sig : Z) (v : list V) (size : nat) (m : list bool),
        wf V toBool F elems d ->
        stateSize F n elems sig = Some size -> List.length v = size ->
        stateMask F n elems sig = Some m ->
        (forall k x, nth_error m k = Some true -> nth_error v k = Some x -> toBool x = x) ->
        exists d' : data V F,
          setState V toBool F feqb n elems d v sig = Some d' /\
          getState V F n elems d' sig = Some v.
Proof. exact get_set_bool. Qed.
Print Assumptions C26_get_set_bool.

(* --- mj_extractState of a state equals mj_getState with the sub-signature --- *)
Theorem C26_extract :
  forall (V : Type) (toBool : V -> V) (F : Type) (n : nat) (elems : nat -> option (elem F))
         (d : data V F) (s t : Z) (v : list V),
    wf V toBool F elems d ->
    getState V F n elems d s = Some v ->
    Z.land s t = t ->
    extractState V F n elems v s t = getState V F n elems d t.
Proof. exact extract_get. Qed.
Print Assumptions C26_extract.

(* --- mj_copyState = mj_setState after mj_getState (field-wise equal results, same error outcome) --- *)
Theorem C26_copy :
  forall (V : Type) (toBool : V -> V) (F : Type) (feqb : F -> F -> bool) (n : nat) (elems : nat -> option (elem F))
         (src dst : data V F) (sig : Z),
    wf V toBool F elems src ->
    match copyState V F feqb n elems src dst sig, getState V F n elems src sig with
    | Some d1, Some v =>
        match setState V toBool F feqb n elems dst v sig with
        | Some d2 => forall f : F, d1 f = d2 f
        | None => False
        end
    | None, None => setState V toBool F feqb n elems dst [] sig = None
    | _, _ => False
    end.
Proof. exact copy_set_get. Qed.
Print Assumptions C26_copy.

(* --- error outcomes: sig < 0, sig >= 2^n, dstsig not a subset, an element without table entry;
       and no error otherwise when every element below n has an entry --- *)
Theorem C26_errors :
  forall (V : Type) (toBool : V -> V) (F : Type) (feqb : F -> F -> bool) (n : nat) (elems : nat -> option (elem F)),
    (forall sig, (sig < 0 \/ 2 ^ Z.of_nat n <= sig) ->
       stateSize F n elems sig = None /\
       (forall d, getState V F n elems d sig = None) /\
       (forall d v, setState V toBool F feqb n elems d v sig = None) /\
       (forall src dst, copyState V F feqb n elems src dst sig = None) /\
       (forall v t, extractState V F n elems v sig t = None)) /\
    (forall v s t, Z.land s t <> t -> extractState V F n elems v s t = None) /\
    (forall sig i, (i < n)%nat -> Z.testbit sig (Z.of_nat i) = true -> elems i = None ->
       stateSize F n elems sig = None /\
       (forall d, getState V F n elems d sig = None) /\
       (forall d v, setState V toBool F feqb n elems d v sig = None) /\
       (forall src dst, copyState V F feqb n elems src dst sig = None) /\
       (forall v t, extractState V F n elems v sig t = None)) /\
    (all_valid F n elems -> forall sig, 0 <= sig < 2 ^ Z.of_nat n ->
       stateSize F n elems sig <> None /\
       (forall d, getState V F n elems d sig <> None) /\
       (forall d v, setState V toBool F feqb n elems d v sig <> None) /\
       (forall src dst, copyState V F feqb n elems src dst sig <> None) /\
       (forall v t, Z.land sig t = t -> extractState V F n elems v sig t <> None)).
Proof.
  exact (fun V toBool F feqb n elems =>
           conj (errors_invalid_sig V toBool F feqb n elems)
          (conj (errors_not_subset V F n elems)
          (conj (errors_invalid_elem V toBool F feqb n elems)
                (no_error_when_valid V toBool F feqb n elems)))).
Qed.
Print Assumptions C26_errors.

(* --- reset (component-level model of _resetData): every array except plugin_state gets a value that does not
       depend on the previous contents; with a plugin reset callback that overwrites its whole state
       (mjpPlugin.reset is a required callback) a reset mjData equals a fresh mj_makeData one --- *)
Theorem C26_reset_fresh :
  forall (V : Type) (zero : V) (m : rmodel V),
    (forall d1 d2 f, f <> "plugin_state"%string -> resetData V zero m d1 f = resetData V zero m d2 f) /\
    ((forall a b, r_plugin_reset V m a = r_plugin_reset V m b) ->
     forall d raw f, resetData V zero m d f = makeData V zero m raw f).
Proof. exact (fun V zero m => conj (reset_independent V zero m) (reset_fresh V zero m)). Qed.
Print Assumptions C26_reset_fresh.

(* --- keyframe reset: an invalid key is a plain reset; a valid key changes only the seven key arrays, and the result
       is mj_setState (on the table of the working tree, for every model) of the state vector read from it with the
       signature TIME|QPOS|QVEL|ACT|CTRL|MOCAP_POS|MOCAP_QUAT applied to the plain reset --- *)
Theorem C26_reset_key :
  forall (V : Type) (zero : V) (toBool : V -> V) (env : string -> Z) (m : rmodel V) (d : rdata V) (k : keyframe V),
    let N := Z.to_nat (t_nstate gen_tables) in
    let E := elems_of gen_tables env in
    (forall f, resetDataKeyframe V zero m d None f = resetData V zero m d f) /\
    (forall f, ~ In f key_names -> resetDataKeyframe V zero m d (Some k) f = resetData V zero m d f) /\
    (wf V toBool string E (resetData V zero m d) ->
     wf V toBool string E (resetDataKeyframe V zero m d (Some k)) ->
     exists v d'',
       getState V string N E (resetDataKeyframe V zero m d (Some k)) (key_sig gen_tables) = Some v /\
       setState V toBool string String.eqb N E (resetData V zero m d) v (key_sig gen_tables) = Some d'' /\
       forall f, d'' f = resetDataKeyframe V zero m d (Some k) f).
Proof.
  exact (fun V zero toBool env m d k =>
           conj (reset_key_invalid V zero m d)
          (conj (reset_key_other V zero toBool m d k)
                (reset_key_is_set V zero toBool gen_tables env (proj1 C26_table_ok) (proj2 C26_table_ok) m d k))).
Qed.
Print Assumptions C26_reset_key.

(* non-vacuity: on the generated table with a small model (nq=2, nv=1, neq=2, one mocap body, ...) a well-formed mjData
   exists, the full signature has 14 elements, and the round trip really moves data *)
Example C26_example :
  let env := fun k : string => if String.eqb k "nq" then 2 else if String.eqb k "nmocap" then 1 else if String.eqb k "neq" then 2 else 1 in
  let E := elems_of gen_tables env in
  let d : data Z string := fun f => if String.eqb f "eq_active" then [1; 0] else if String.eqb f "qpos" then [5; 6] else
                                    if String.eqb f "mocap_pos" then [7; 8; 9] else if String.eqb f "mocap_quat" then [1; 0; 0; 0] else
                                    if String.eqb f "xfrc_applied" then [0; 0; 0; 0; 0; 0] else [4] in
  stateSize string 14 E 16383 = Some 26%nat /\
  getState Z string 14 E d 514 = Some [5; 6; 1; 0] /\
  option_map (fun d' => (d' "qpos"%string, d' "eq_active"%string, d' "qvel"%string))
             (setState Z toBoolZ string String.eqb 14 E d [9; 8; 7; 0] 514) = Some ([9; 8], [1; 0], [4]) /\
  extractState Z string 14 E [5; 6; 1; 0] 514 512 = Some [1; 0] /\
  stateSize string 14 E 16384 = None.
Proof. vm_compute. repeat split; reflexivity. Qed.
