(* C38 — The asset cache (mjCCache, src/user/user_cache.cc) behaves as a bounded priority cache.
   Only statements, each closed by a lemma of Proof/CacheProof.v, followed by Print Assumptions.

   Vocabulary (Model/Cache.v, Proof/CacheProof.v):
     run h s          = replay of the history h (list of public-method calls) from state s;
                        None would mean undefined behaviour (dangling asset pointer, begin() of an
                        empty std::set) or Trim running out of fuel
     op_ok o          = sizes and capacities passed to Insert / SetCapacity are non-negative
     reachable s      = s is the state after some history of op_ok operations from an empty cache
     sumb look l      = sum of a_bytes over the ids in l
     ptr_lt look x y  = mjCAssetCompare on the assets stored under ids x and y:
                        (access count, insertion number) lexicographically (C38_compare) *)
From Coq Require Import List ZArith Bool Sorted.
From MJV Require Import Model.Cache Proof.CacheProof.
Import ListNotations.
Open Scope Z_scope.

(* Every history runs without undefined behaviour and Trim always terminates; the invariant holds
   after it (since h is arbitrary, after every prefix). *)
Theorem C38_no_ub :
  forall c h, 0 <= c -> Forall op_ok h ->
    exists s rs, run h (init c) = Some (s, rs) /\ inv s.
Proof. exact no_ub. Qed.
Print Assumptions C38_no_ub.

(* size_ (the value reported by Size()) is the sum of the bytes of exactly the held assets and never
   exceeds the capacity. *)
Theorem C38_size :
  forall s, reachable s ->
    (exists held, NoDup held /\ (forall id, In id held <-> c_look s id <> None) /\
                  c_size s = sumb (c_look s) held) /\
    c_size s <= c_cap s /\
    step OSize s = Some (s, RNum (c_size s)).
Proof. exact size_theorem. Qed.
Print Assumptions C38_size.

(* The redundant structures agree with lookup_: models_ and the per-asset reference sets are
   mutually consistent; entries_ holds exactly the held assets, strictly ordered by the comparator;
   insertion numbers of held assets are distinct. *)
Theorem C38_structure :
  forall s, reachable s ->
    (forall m id, In id (c_mod s m) <-> exists a, c_look s id = Some a /\ In m (a_refs a)) /\
    (forall id, In id (c_ent s) <-> c_look s id <> None) /\
    StronglySorted (fun x y => ptr_lt (c_look s) x y = true) (c_ent s) /\
    NoDup (c_ent s) /\
    (forall i j a b, c_look s i = Some a -> c_look s j = Some b -> a_ins a = a_ins b -> i = j).
Proof. exact structure_theorem. Qed.
Print Assumptions C38_structure.

Theorem C38_compare :
  forall a b, asset_lt a b = true <->
              (a_acc a < a_acc b \/ (a_acc a = a_acc b /\ a_ins a < a_ins b)).
Proof. exact asset_lt_spec. Qed.
Print Assumptions C38_compare.

(* SetCapacity/Trim terminates and evicts exactly the first k entries in (access count, insertion
   number) order: every evicted asset is below every survivor, k is the least number of evictions
   that restores the bound, all other assets are untouched. *)
Theorem C38_trim_order :
  forall c s, reachable s -> 0 <= c ->
    exists k s', set_capacity c s = Some s' /\ c_cap s' = c /\
      c_ent s' = skipn k (c_ent s) /\
      (forall id, c_look s' id = if set_mem id (firstn k (c_ent s)) then None else c_look s id) /\
      (forall e y, In e (firstn k (c_ent s)) -> In y (skipn k (c_ent s)) -> ptr_lt (c_look s) e y = true) /\
      (forall j, (j < k)%nat -> sumb (c_look s) (skipn j (c_ent s)) > c) /\
      sumb (c_look s) (skipn k (c_ent s)) <= c.
Proof. exact trim_theorem. Qed.
Print Assumptions C38_trim_order.

(* A lookup that passes data to the callback returns the data of the most recent defining
   operation for that id (last_def), returns the callback's value, and happens only when the
   resource's timestamp equals the stored one (asset unmodified). *)
Theorem C38_lookup :
  forall c h s rs id rts fr s' b d,
    0 <= c -> Forall op_ok h -> run h (init c) = Some (s, rs) ->
    populate id rts fr s = (s', (b, Some d)) ->
    last_def h (init c) (fun _ => None) id = Some d /\ b = fr /\
    exists a, c_look s id = Some a /\ rts = Some (a_ts a) /\ a_data a = d.
Proof. exact lookup_theorem. Qed.
Print Assumptions C38_lookup.

(* "defining operation": an Insert that returned true and either created the asset or found it
   with a different timestamp (an Insert with an equal timestamp keeps the stored data). *)
Theorem C38_defines :
  forall o s i d,
    defines o s = Some (i, d) <->
    exists m ts sz, o = OInsert m i ts d sz /\ snd (insert m i ts d sz s) = true /\
      (c_look s i = None \/ exists a, c_look s i = Some a /\ a_ts a <> ts).
Proof. exact defines_spec. Qed.
Print Assumptions C38_defines.

(* a held asset looked up with its own timestamp is always found *)
Theorem C38_lookup_unmodified :
  forall s id a fr, c_look s id = Some a ->
    snd (populate id (Some (a_ts a)) fr s) = (fr, Some (a_data a)).
Proof. exact lookup_unmodified. Qed.
Print Assumptions C38_lookup_unmodified.

(* RemoveModel m, for EVERY iteration order of the unordered_set models_[m]: an asset referenced by
   m is deleted iff m was its only reference (C38_rm_asset), otherwise it survives with m removed
   from its references and everything else unchanged; assets not referenced by m are untouched. *)
Theorem C38_remove_model :
  forall order m s,
    reachable s -> NoDup order -> (forall id, In id order <-> In id (c_mod s m)) ->
    exists s', remove_model_over order m s = Some s' /\ inv s' /\
      c_cap s' = c_cap s /\ c_ins s' = c_ins s /\
      (forall id, c_look s' id =
         match c_look s id with
         | Some a => if set_mem m (a_refs a) then rm_asset m a else Some a
         | None => None
         end).
Proof. exact remove_model_theorem. Qed.
Print Assumptions C38_remove_model.

Theorem C38_rm_asset :
  forall m a,
    (rm_asset m a = None <-> forall x, In x (a_refs a) -> x = m) /\
    (forall a', rm_asset m a = Some a' ->
       a_ts a' = a_ts a /\ a_bytes a' = a_bytes a /\ a_data a' = a_data a /\ a_ins a' = a_ins a /\
       a_acc a' = a_acc a /\ (forall x, In x (a_refs a') <-> In x (a_refs a) /\ x <> m)).
Proof. exact rm_asset_spec. Qed.
Print Assumptions C38_rm_asset.

(* Refinement: every concrete step from a state satisfying the invariant is a step of the abstract
   finite-map specification aspec (capacity, counter, map id -> asset; no size_, entries_,
   models_), whose total size is unique. *)
Theorem C38_refines :
  forall o s s' r, inv s -> op_ok o -> step o s = Some (s', r) -> aspec o (abs s) (abs s') r.
Proof. exact refines. Qed.
Print Assumptions C38_refines.

Theorem C38_total_unique :
  forall A n n', total A n -> total A n' -> n = n'.
Proof. exact total_unique. Qed.
Print Assumptions C38_total_unique.

(* Concurrency, on the lock-step model: when every public method executes atomically (it holds the
   one mutex for its whole body), any concurrent execution of per-thread programs ts equals the
   sequential history in lock-acquisition order, which is an interleaving of the programs, and
   the invariant (hence everything above) holds at its end. *)
Theorem C38_linearizable :
  forall c ts log s',
    0 <= c -> Forall (Forall op_ok) ts -> cexec (init c) ts log s' ->
    run (log_ops log) (init c) = Some (s', log_res log) /\
    (forall t p, nth_error ts t = Some p -> log_of_thread t log = p) /\
    inv s'.
Proof. exact linearizable. Qed.
Print Assumptions C38_linearizable.

(* non-vacuity: a history with two models sharing an asset, a lookup that raises a priority, an
   eviction by SetCapacity that removes the lower-priority asset first, and a RemoveModel that
   keeps the shared asset *)
Example C38_example :
  let h := [OInsert 0 1 5 100 4; OInsert 1 2 5 101 4; OInsert 1 1 5 102 4; OPop 1 (Some 5) true;
            OSetCap 5; ORemoveModel 0; OSize] in
  option_map (fun x => (dump [1; 2] [0; 1] (fst x), map res_code (snd x))) (run h (init 10)) =
  Some ([[5; 2; 4]; [1]; [5; 4; 100; 0; 1; 1]; []; []; [1]],
        [[1]; [1]; [1]; [1; 100]; []; []; [4]]).
Proof. vm_compute. reflexivity. Qed.
