(* C22 — Sorting and selection utilities are correct and stable.
   Only statements, each closed by a lemma of Proof/SortProof.v, followed by Print Assumptions. *)
From Coq Require Import List ZArith Bool Permutation Sorted.
From MJV Require Import Model.Sort Proof.SortProof Proof.PartialSortProof.
Import ListNotations.
Open Scope Z_scope.

(* mjSORT, for every element type, every comparison that is a total preorder, every length:
   sorted, a permutation, and stable (elements equivalent to any z keep their relative order). *)
Theorem C22_sort :
  forall (A : Type) (cmp : A -> A -> Z),
    (forall a b, 0 < cmp a b -> cmp b a <= 0) ->
    (forall a b c, cmp a b <= 0 -> cmp b c <= 0 -> cmp a c <= 0) ->
    forall l : list A,
      StronglySorted (fun a b => cmp a b <= 0) (mjsort A cmp l) /\
      Permutation (mjsort A cmp l) l /\
      (forall z, filter (fun y => (cmp z y <=? 0) && (cmp y z <=? 0)) (mjsort A cmp l) =
                 filter (fun y => (cmp z y <=? 0) && (cmp y z <=? 0)) l).
Proof. exact mjsort_spec. Qed.
Print Assumptions C22_sort.

(* _mjINSERTION_SORT / mju_insertionSort(Int): same three facts *)
Theorem C22_insertion :
  forall (A : Type) (cmp : A -> A -> Z),
    (forall a b, 0 < cmp a b -> cmp b a <= 0) ->
    (forall a b c, cmp a b <= 0 -> cmp b c <= 0 -> cmp a c <= 0) ->
    forall l : list A,
      StronglySorted (fun a b => cmp a b <= 0) (insertion_sort A cmp l) /\
      Permutation (insertion_sort A cmp l) l /\
      (forall z, filter (fun y => (cmp z y <=? 0) && (cmp y z <=? 0)) (insertion_sort A cmp l) =
                 filter (fun y => (cmp z y <=? 0) && (cmp y z <=? 0)) l).
Proof. exact insertion_sort_spec. Qed.
Print Assumptions C22_insertion.

(* mjPARTIAL_SORT, for every element type, every three-way comparison that is a total preorder
   (sign-antisymmetric and transitive), every length n and every k:
   for 0 < k <= n the array keeps its length, its first k entries are sorted, entries k.. are
   untouched, and the first k entries are the k smallest of the input: together with some `rest`
   they are a permutation of the input and nothing in `rest` is below a selected one;
   for k <= 0 or n < k the array is unchanged. *)
Theorem C22_partial :
  forall (A : Type) (cmp : A -> A -> Z),
    (forall a b, cmp a b < 0 <-> 0 < cmp b a) ->
    (forall a b c, cmp a b <= 0 -> cmp b c <= 0 -> cmp a c <= 0) ->
    forall (l : list A) (k : Z),
      (0 < k <= Z.of_nat (length l) ->
         let out := partial_sort A cmp l k in
         let sel := firstn (Z.to_nat k) out in
         length out = length l /\ length sel = Z.to_nat k /\
         StronglySorted (fun a b => cmp a b <= 0) sel /\
         skipn (Z.to_nat k) out = skipn (Z.to_nat k) l /\
         exists rest, Permutation (sel ++ rest) l /\
                      (forall x y, In x sel -> In y rest -> cmp x y <= 0)) /\
      (k <= 0 \/ Z.of_nat (length l) < k -> partial_sort A cmp l k = l).
Proof. exact partial_sort_spec. Qed.
Print Assumptions C22_partial.

(* non-vacuity: the comparison used by the correspondence meets the hypotheses, and the model
   really moves elements on an input with inversions and ties *)
Theorem C22_kcmp_preorder :
  (forall a b, 0 < kcmp a b -> kcmp b a <= 0) /\
  (forall a b c, kcmp a b <= 0 -> kcmp b c <= 0 -> kcmp a c <= 0).
Proof. exact kcmp_preorder. Qed.
Print Assumptions C22_kcmp_preorder.

Theorem C22_kcmp_anti : forall a b, kcmp a b < 0 <-> 0 < kcmp b a.
Proof. exact kcmp_anti. Qed.
Print Assumptions C22_kcmp_anti.

Example C22_example :
  mjsort (Z * Z) kcmp [(3,0); (1,1); (3,2); (0,3); (1,4)] = [(0,3); (1,1); (1,4); (3,0); (3,2)].
Proof. vm_compute. reflexivity. Qed.

Example C22_partial_example :
  partial_sort (Z * Z) kcmp [(3,0); (1,1); (3,2); (0,3); (1,4); (2,5)] 3 =
    [(0,3); (1,4); (1,1); (0,3); (1,4); (2,5)].
Proof. vm_compute. reflexivity. Qed.
