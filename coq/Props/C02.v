(* C02 -- Multithreaded stepping is bit-identical to single-threaded.
   Only statements, each closed by a lemma of Proof/ParMapProof.v, followed by Print Assumptions.

   Model (Model/ParMap.v): shared memory = function from locations (array id, element index) to
   values; a task = a finite deterministic tree of single shared reads/writes; the machine [step]
   interleaves the running tasks at the granularity of ONE shared access (sequentially consistent);
   any idle thread id may claim any unclaimed task at any moment (a superset of the claim loop of
   ThreadPoolContext::Dispatch/Worker, whose exactly-once / return-after-all behaviour is C03_exactly_once
   and C03_return_after_all); footprints are one classification function own : loc -> owner
   (ORead | OTask i | OScratch thread_id), so pairwise disjointness of the write footprints is the fact
   that [own] is a function.  [respects own i t p]: task i run with thread id t reads only ORead,
   OTask i, OScratch t and writes only OTask i, OScratch t.  [scratch_clean]: the outputs of a task do
   not depend on the thread id it is given nor on the initial content of scratch.  Stack blocks
   reserved by a task under the thread lock are private to it by C19_concurrent and count as OTask i.

   NOT covered by these theorems: data-race freedom in the sense of the C++ memory model, weak
   memory orders, torn accesses; that the C task functions satisfy [respects]/[scratch_clean] is
   tied by observation (footprint runs of the correspondence driver), not proved. *)
From Coq Require Import List ZArith Bool Arith Permutation.
From MJV Require Import Model.Island Model.ParMap Proof.ParMapProof.
Import ListNotations.

(* For every number of tasks, every footprint classification, every family of task programs that
   respect it, every initial memory, every interleaving of single accesses and every assignment of
   tasks to thread ids: when the batch is complete the shared memory equals, at every location that
   is not per-thread scratch, the result of the sequential loop  for i in 0..n-1: task(i, thread 0). *)
Theorem C02_schedule_independent :
  forall (V : Type) (own : loc -> owner) (n : nat) (tasks : nat -> nat -> prog V) (m0 : mem V),
    (forall i t : nat, (i < n)%nat -> respects own i t (tasks i t)) ->
    scratch_clean own n tasks ->
    forall c : cfg V, steps tasks (init_cfg n m0) c -> final_cfg c ->
      forall l : loc, (forall t : nat, own l <> OScratch t) -> cmem c l = seq_run tasks n m0 l.
Proof. exact schedule_independent. Qed.
Print Assumptions C02_schedule_independent.

(* the final memory location by location: read-only locations keep their value, the footprint of
   task i holds what task i computes when run alone on the initial memory *)
Theorem C02_final_characterised :
  forall (V : Type) (own : loc -> owner) (n : nat) (tasks : nat -> nat -> prog V) (m0 : mem V),
    (forall i t : nat, (i < n)%nat -> respects own i t (tasks i t)) ->
    scratch_clean own n tasks ->
    forall c : cfg V, steps tasks (init_cfg n m0) c -> final_cfg c ->
      forall l : loc,
        match own l with
        | ORead => cmem c l = m0 l
        | OTask i => cmem c l = if (i <? n)%nat then exec (tasks i 0%nat) m0 l else m0 l
        | OScratch _ => True
        end.
Proof. exact (fun V => @final_characterised V). Qed.
Print Assumptions C02_final_characterised.

(* in a complete run every task id has been retired exactly once *)
Theorem C02_each_task_once :
  forall (V : Type) (own : loc -> owner) (n : nat) (tasks : nat -> nat -> prog V) (m0 : mem V),
    (forall i t : nat, (i < n)%nat -> respects own i t (tasks i t)) ->
    scratch_clean own n tasks ->
    forall c : cfg V, steps tasks (init_cfg n m0) c -> final_cfg c -> Permutation (finished c) (seq 0 n).
Proof. exact finished_once. Qed.
Print Assumptions C02_each_task_once.

(* task-granularity schedules (the permuted sequential dispatcher of the correspondence driver):
   running the tasks one after the other in any order, each with any thread id, gives the result of
   the sequential loop *)
Theorem C02_permuted_dispatch :
  forall (V : Type) (own : loc -> owner) (n : nat) (tasks : nat -> nat -> prog V) (m0 : mem V),
    (forall i t : nat, (i < n)%nat -> respects own i t (tasks i t)) ->
    scratch_clean own n tasks ->
    forall order : list (nat * nat), Permutation (map fst order) (seq 0 n) ->
      forall l : loc, (forall t : nat, own l <> OScratch t) ->
        fold_left (fun (mm : mem V) (it : nat * nat) => exec (tasks (fst it) (snd it)) mm) order m0 l = seq_run tasks n m0 l.
Proof. exact permuted_dispatch_equal. Qed.
Print Assumptions C02_permuted_dispatch.

(* every run of the executable scheduler [acts] is a run of the machine *)
Theorem C02_scheduler_sound :
  forall (V : Type) (tasks : nat -> nat -> prog V) (l : list (nat * option nat)) (c c' : cfg V),
    acts tasks c l = Some c' -> steps tasks c c'.
Proof. exact (fun V tasks => @acts_sound V tasks). Qed.
Print Assumptions C02_scheduler_sound.

(* footprint tables: with address arrays that are the prefix sums of non-negative counts (what
   C17_maps proves of mj_island: adr = scan 0 cnt) the slice [adr k, adr k + cnt k) is owned by k, i.e.
   the slices are pairwise disjoint and the first-fit lookup of the table is exact *)
Theorem C02_slices_owned :
  forall (cnt : list Z) (k : nat) (e : Z),
    Forall (fun c : Z => 0 <= c)%Z cnt -> (k < length cnt)%nat ->
    (nth k (scan 0 cnt) 0 <= e < nth k (scan 0 cnt) 0 + nth k cnt 0)%Z ->
    table_owner (TSlices (scan 0 cnt) cnt) e = OTask k.
Proof. exact island_slices_owned. Qed.
Print Assumptions C02_slices_owned.

(* the island-solve call site (mj_fwdConstraint -> solveIslandTask): iacc / ifrc_constraint elements
   in island k's dof slice and iefc_force / iefc_state elements in its constraint slice are owned by
   task k *)
Theorem C02_island_site_slices :
  forall (island_nv island_nefc efc_island dof_island con_island : list Z) (nsolver nstat : Z) (k : nat) (e : Z),
    let own := site_owner (island_site island_nv island_nefc efc_island dof_island con_island nsolver nstat) in
    (Forall (fun c : Z => 0 <= c)%Z island_nv -> (k < length island_nv)%nat ->
     (nth k (scan 0 island_nv) 0 <= e < nth k (scan 0 island_nv) 0 + nth k island_nv 0)%Z ->
     own (A_iacc, e) = OTask k /\ own (A_ifrc_constraint, e) = OTask k) /\
    (Forall (fun c : Z => 0 <= c)%Z island_nefc -> (k < length island_nefc)%nat ->
     (nth k (scan 0 island_nefc) 0 <= e < nth k (scan 0 island_nefc) 0 + nth k island_nefc 0)%Z ->
     own (A_iefc_force, e) = OTask k /\ own (A_iefc_state, e) = OTask k).
Proof. exact island_site_slices. Qed.
Print Assumptions C02_island_site_slices.

(* ... and, for island tasks that respect the island footprint table, the memory after the
   dispatched batch equals the sequential loop at EVERY location (this site has no per-thread scratch) *)
Theorem C02_island_solve :
  forall (V : Type) (island_nv island_nefc efc_island dof_island con_island : list Z) (nsolver nstat : Z)
         (tasks : nat -> nat -> prog V) (m0 : mem V),
    let own := site_owner (island_site island_nv island_nefc efc_island dof_island con_island nsolver nstat) in
    let n := length island_nv in
    (forall i t : nat, (i < n)%nat -> respects own i t (tasks i t)) ->
    scratch_clean own n tasks ->
    forall c : cfg V, steps tasks (init_cfg n m0) c -> final_cfg c ->
      forall l : loc, cmem c l = seq_run tasks n m0 l.
Proof. exact island_solve_independent. Qed.
Print Assumptions C02_island_solve.

(* non-vacuity: a concrete family of two tasks with a sliced output array and per-thread scratch
   satisfies both hypotheses ... *)
Theorem C02_example_hypotheses :
  (forall i t : nat, (i < 2)%nat -> respects (site_owner ex_site) i t (ex_task i t)) /\
  scratch_clean (site_owner ex_site) 2 ex_task.
Proof. exact (conj ex_respects ex_clean). Qed.
Print Assumptions C02_example_hypotheses.

(* ... a schedule in which worker 1 claims task 1 first, the dispatching thread 0 claims task 0 and
   their accesses alternate is accepted by the machine, ends complete, and agrees with the
   sequential loop on the output array; the thread-private scratch differs from the sequential run *)
Example C02_example_interleaved :
  exists c : cfg Z,
    acts ex_task (init_cfg 2 ex_m0)
      [(1, Some 1); (0, Some 0); (1, None); (0, None); (0, None); (1, None); (1, None); (0, None);
       (0, None); (1, None); (1, None); (0, None)]%nat = Some c /\
    pending c = [] /\ running c = [] /\ finished c = [0; 1]%nat /\
    map (fun e : Z => cmem c (1, e)%Z) [0; 1; 2]%Z = map (fun e : Z => seq_run ex_task 2 ex_m0 (1, e)%Z) [0; 1; 2]%Z /\
    map (fun e : Z => cmem c (1, e)%Z) [0; 1; 2]%Z = [2; 101; 4]%Z /\
    cmem c (22, 4)%Z = 2%Z /\ seq_run ex_task 2 ex_m0 (22, 4)%Z = 2204%Z.
Proof. eexists. vm_compute. repeat split. Qed.

(* the table lookup on the data of a real island structure (5 islands; implementation run
   seed 3): element 30 of iacc lies in island 1's slice [22, 34) *)
Example C02_example_island_lookup :
  site_owner (island_site [22; 12; 6; 7; 6]%Z [78; 36; 9; 6; 6]%Z [] [] [] 200 20) (A_iacc, 30%Z) = OTask 1 /\
  site_owner (island_site [22; 12; 6; 7; 6]%Z [78; 36; 9; 6; 6]%Z [] [] [] 200 20) (A_iefc_force, 114%Z) = OTask 2 /\
  site_owner (island_site [22; 12; 6; 7; 6]%Z [78; 36; 9; 6; 6]%Z [] [] [] 200 20) (A_solver, 401%Z) = OTask 2 /\
  site_owner (island_site [22; 12; 6; 7; 6]%Z [78; 36; 9; 6; 6]%Z [] [] [] 200 20) (A_qacc, 3%Z) = ORead.
Proof. vm_compute. repeat split. Qed.

(* KNOWN finding C02-F3: the footprint hypothesis of C02_schedule_independent FAILS for the island task
   of the PGS solver with a dense Jacobian as coded (engine_solver.c residual() dots the whole
   efc_force vector): on the two-island instance [pgs_dense_task] of Model/ParMap.v each task reads
   the efc_force entry owned by the other task, so neither task respects the island footprint table.
   C02_island_solve therefore does NOT apply to that configuration; that the implementation is still
   bit-identical there rests on the foreign entries being multiplied by exact zeros of efc_AR
   (0 * finite = +-0), which is OBSERVED by the bitwise oracle, not proved. *)
Theorem C02_pgs_dense_footprint_refuted :
  forall t : nat, ~ respects (site_owner pgs_site) 0 t (pgs_dense_task 0 t) /\
                  ~ respects (site_owner pgs_site) 1 t (pgs_dense_task 1 t).
Proof. exact pgs_dense_outside_footprint. Qed.
Print Assumptions C02_pgs_dense_footprint_refuted.

(* over the integers (where 0 * x = 0 for every x) the two tasks still commute: an interleaved
   schedule and the sequential loop agree -- the integer analogue of what the oracle observes *)
Example C02_pgs_dense_example :
  exists c : cfg Z,
    acts pgs_dense_task (init_cfg 2 (fun l : loc => (7 + snd l)%Z))
      [(1, Some 1); (0, Some 0); (1, None); (0, None); (0, None); (1, None); (0, None); (1, None); (1, None); (0, None)]%nat = Some c /\
    pending c = [] /\ running c = [] /\
    map (fun e : Z => cmem c (A_efc_force, e)) [0; 1]%Z = map (fun e : Z => seq_run pgs_dense_task 2 (fun l : loc => (7 + snd l)%Z) (A_efc_force, e)) [0; 1]%Z.
Proof. eexists. vm_compute. repeat split. Qed.

(* tactile call site: the batching as coded (batch = ceil(ntaxel / nthread), ntask = ceil(ntaxel / batch)) covers
   every taxel with at most nthread non-empty batches, for every taxel count and thread count -- and the
   executable check [tactile_cover_ok] evaluated on the implementation's numbers accepts it ... *)
Theorem C02_tactile_batches_cover :
  forall n t : Z, (0 < n)%Z -> (0 < t)%Z ->
    let b := ceil_div n t in let k := ceil_div n b in
    (0 < b /\ n <= k * b /\ (k - 1) * b < n /\ 1 <= k <= t)%Z /\ tactile_cover_ok n b k n = true.
Proof. exact ceil_batching_covers. Qed.
Print Assumptions C02_tactile_batches_cover.

(* ... while truncating batching (batch = ntaxel / nthread, nthread tasks) leaves the last ntaxel mod nthread
   taxels to no task whenever nthread does not divide ntaxel, and the check rejects it *)
Theorem C02_tactile_floor_batching_refuted :
  forall n t : Z, (0 < t)%Z -> (n mod t <> 0)%Z -> (t * (n / t) < n)%Z /\ tactile_cover_ok n (n / t) t (t * (n / t)) = false.
Proof. exact floor_batching_drops. Qed.
Print Assumptions C02_tactile_floor_batching_refuted.
