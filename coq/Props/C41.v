(* C41 — the MJCF schema-language parser is total and its checks sound.
   Statements about Model/SchemaLang.v (model of doc/generate/mjcf_schema.py); each is closed by a lemma of
   Proof/SchemaLang{Proof,Sound,Iter}.v.  [parse_string] models the code of HEAD (iterative `use` traversals);
   [parse_string_rec rl] models the explicitly recursive variant that preceded commit ff3dbc583, with the
   number rl of Python frames available below _validate as an argument.  [cnl text] is the number of newline
   characters of the text: the lexer's line counter ends at cnl text + 1. *)
From Coq Require Import String.
From Coq Require Import NArith ZArith List Bool.
From MJV Require Import Model.SchemaLang Model.SchemaLangSpec.
From MJV Require Import Proof.SchemaLangProof Proof.SchemaLangSound Proof.SchemaLangIter.
Import ListNotations.
Open Scope N_scope.

(* Totality, for EVERY text (any list of code points): parse_string returns a schema or raises SchemaError
   with a line in 1 .. (number of newlines + 1).  Nothing else: IndexError (token list read past its end),
   KeyError (dict lookups of _validate, _group_attrs, _check_child_cycles), the TypeError branches,
   non-termination of the traversal loops (fuel of the model) are excluded for all inputs. *)
Theorem C41_total :
  forall text : str,
    (exists s, parse_string text = Ok s) \/
    (exists l, parse_string text = SchemaErr l /\ 1 <= l <= cnl text + 1).
Proof. exact parse_string_total'. Qed.
Print Assumptions C41_total.

(* Soundness: every accepted schema satisfies all documented rules, and every line number it records lies
   within the text.  WellFormed = rules enforced while parsing (unique declarations per table, non-empty enums
   with unique keywords, non-empty groups, well-formed arities, known and unique facets, targets exactly on
   enum/flags/id/ref attributes, child/set only in elements with a legal cardinality, constraints with at
   least two non-empty bundles) and the rules of _validate (no dangling use/child/alias/enum/namespace
   reference, acyclic use graph, acyclic child graph through distinct non-alias elements, group and element
   constraints name their attributes, variant groups have no use/required, children unique, no duplicate
   attribute after group expansion, `requires a b`, arity restrictions of file/bool/chars, facet payload
   rules, min <= max, required excludes a default, defaults agree with type and arity). *)
Theorem C41_sound :
  forall (text : str) (s : schema), parse_string text = Ok s -> WellFormed s /\ schema_lines (cnl text + 1) s.
Proof. exact parse_string_sound'. Qed.
Print Assumptions C41_sound.

(* the same for _validate alone, on ANY schema value with unique group and element names *)
Theorem C41_validate_sound :
  forall s : schema, NoDup (map g_name (s_groups s)) -> NoDup (map e_name (s_elements s)) ->
    validate s = VOk -> schema_rules s.
Proof. exact validate_sound'. Qed.
Print Assumptions C41_validate_sound.

(* "a schema breaking one rule is rejected": if the text parses to a schema value that violates any rule,
   parse_string raises SchemaError with a line inside the text.  The converse direction (every well-formed
   schema is accepted) is NOT proved; it is only observed by the correspondence run on generated schemas. *)
Theorem C41_complete_rule_breaking_rejected :
  forall (text : str) (s : schema), parse_text text = Ok s -> ~ WellFormed s ->
    exists l, parse_string text = SchemaErr l /\ 1 <= l <= cnl text + 1.
Proof. exact rule_breaking_rejected'. Qed.
Print Assumptions C41_complete_rule_breaking_rejected.

(* ---------------- the explicitly recursive variant (code before commit ff3dbc583) ---------------- *)

(* it is total only up to the interpreter's recursion limit: RecursionError escapes, and only when the frame
   budget is below (number of declared groups + 2) *)
Theorem C41_recursive_variant_total :
  forall (rl : nat) (text : str),
    match parse_string_rec rl text with
    | Ok _ => True
    | SchemaErr l => 1 <= l <= cnl text + 1
    | PyExn e => e = RecursionError /\ (rl < groups_of text + 2)%nat
    end.
Proof. exact parse_string_total. Qed.
Print Assumptions C41_recursive_variant_total.

(* ... and "no other exception escapes" was FALSE of it: the valid text
   group g0 { use g1 } ... group g999 { use g1000 } group g1000 { a : int }  (1001 groups, 23.8 kB) makes the
   recursive variant raise RecursionError for EVERY budget up to CPython's default limit of 1000 frames;
   the same family is accepted once the budget reaches the chain length (shown at length 101) *)
Theorem C41_recursion_refuted_recursive_variant :
  (forall rl, (rl <= 1000)%nat -> parse_string_rec rl (chain_text 1001) = PyExn RecursionError) /\
  groups_of (chain_text 1001) = 1001%nat /\
  parse_string_rec 100 (chain_text 101) = PyExn RecursionError /\
  is_ok (parse_string_rec 101 (chain_text 101)) = true.
Proof. exact recursion_refuted_full. Qed.
Print Assumptions C41_recursion_refuted_recursive_variant.

(* running out of frames in the cycle check is monotone in the budget *)
Theorem C41_recursion_monotone_recursive_variant :
  forall (text : str) (s : schema) (rl : nat) (e : pyexn),
    parse_text text = Ok s -> cycle_step rl (s_groups s) = VExn e ->
    forall rl', (rl' <= rl)%nat -> parse_string_rec rl' text = PyExn RecursionError.
Proof. exact recursion_monotone. Qed.
Print Assumptions C41_recursion_monotone_recursive_variant.

(* the repaired code accepts the witness *)
Theorem C41_deep_chain_accepted : is_ok (parse_string (chain_text 1001)) = true.
Proof. exact deep_chain_accepted. Qed.
Print Assumptions C41_deep_chain_accepted.

(* non-vacuity: a text with a nested use, a variant group, an enum default, a constraint and a recursive
   child is accepted; one duplicate attribute via use, and one child cycle, turn it into a SchemaError on the
   line of the later declaration / of the child member that closes the cycle *)
Example C41_example_accept :
  is_ok (parse_string (nstr "enum e { a = 0 b = 1 }
group o variant { quat : double[4] = {1, 0, 0, 0}
 euler : double[3] }
group p { pos : double[3]
 use o }
element g : mjsGeom (xml=geom) { use p
 t : enum<e> = b
 name : id<g>
 r : ref<g>
 exclusive quat euler
 child g * }"%string)) = true.
Proof. vm_compute. reflexivity. Qed.

Example C41_example_reject :
  parse_string (nstr "group p { pos : double[3] }
element g { use p
 pos : int }"%string) = SchemaErr 3.
Proof. vm_compute. reflexivity. Qed.

Example C41_example_child_cycle :
  parse_string (nstr "element a {
 child b ? }
element b {
 child a * }"%string) = SchemaErr 4.
Proof. vm_compute. reflexivity. Qed.
