(* C41 — the MJCF schema-language parser is total and its checks sound.
   Statements about Model/SchemaLang.v (model of doc/generate/mjcf_schema.py); each is closed by a lemma of
   Proof/SchemaLangProof.v.  [rl] is the number of Python frames available below _validate (recursion limit
   minus the depth of the caller); [cnl text] the number of newline characters of the text, so that the
   lexer's line counter ends at cnl text + 1; [groups_of text] the number of declared groups. *)
From Coq Require Import NArith ZArith List Bool.
From MJV Require Import Model.SchemaLang Model.SchemaLangSpec Proof.SchemaLangProof.
Import ListNotations.
Open Scope N_scope.

(* For EVERY text (any list of code points) and every frame budget: parse_string returns a schema, or raises
   SchemaError with a line in 1 .. (number of newlines + 1), or raises RecursionError - and the latter only
   when the budget is below (number of declared groups + 2).  IndexError (token list read past its end),
   KeyError (dict lookups of _validate/_group_attrs), the TypeError branches and loop-fuel exhaustion of the
   model are excluded for all inputs. *)
Theorem C41_total :
  forall (rl : nat) (text : str),
    match parse_string rl text with
    | Ok _ => True
    | SchemaErr l => 1 <= l <= cnl text + 1
    | PyExn e => e = RecursionError /\ (rl < groups_of text + 2)%nat
    end.
Proof. exact parse_string_total. Qed.
Print Assumptions C41_total.

(* hence: with `use` chains (bounded by the number of groups) shorter than the limit, no exception other
   than SchemaError escapes *)
Corollary C41_total_within_limit :
  forall (rl : nat) (text : str), (groups_of text + 2 <= rl)%nat ->
    (exists s, parse_string rl text = Ok s) \/
    (exists l, parse_string rl text = SchemaErr l /\ 1 <= l <= cnl text + 1).
Proof. exact parse_string_within_limit. Qed.
Print Assumptions C41_total_within_limit.

(* ... but the limit is real: "no other exception escapes" is FALSE of the faithful model.  The text
   group g0 { use g1 } ... group g999 { use g1000 } group g1000 { a : int }  (1001 groups, 23.8 kB) makes
   parse_string raise RecursionError with all of CPython's default 1000 frames available below _validate
   (and with the 994 measured under the driver); the same family is accepted as soon as the budget reaches
   the chain length (shown at length 101: the 1001-group instance needs ~10^8 steps in _check_group_cycle,
   it is replayed on the implementation by the check). *)
Theorem C41_recursion_refuted :
  parse_string 1000 (chain_text 1001) = PyExn RecursionError /\
  parse_string 994 (chain_text 1001) = PyExn RecursionError /\
  groups_of (chain_text 1001) = 1001%nat /\
  parse_string 100 (chain_text 101) = PyExn RecursionError /\
  is_ok (parse_string 101 (chain_text 101)) = true.
Proof. exact recursion_refuted. Qed.
Print Assumptions C41_recursion_refuted.

(* rules enforced while parsing: every accepted schema has unique declarations per table, non-empty enums
   with unique keywords, non-empty groups, well-formed arities, known and unique facets, targets exactly on
   enum/flags/id/ref attributes, child/set only in elements with a legal cardinality, constraints with at
   least two non-empty bundles; and all recorded line numbers lie within the text *)
Theorem C41_sound_parse_rules :
  forall (rl : nat) (text : str) (s : schema),
    parse_string rl text = Ok s -> schema_syn s /\ schema_lines (cnl text + 1) s.
Proof. exact parse_string_syn. Qed.
Print Assumptions C41_sound_parse_rules.
