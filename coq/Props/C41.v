(* C41 — the MJCF schema-language parser is total and its checks sound.
   Statements about Model/SchemaLang.v (model of doc/generate/mjcf_schema.py); each is closed by a lemma of
   Proof/SchemaLangProof.v.  [rl] is the number of Python frames available below _validate (recursion limit
   minus the depth of the caller); [cnl text] the number of newline characters of the text, so that the
   lexer's line counter ends at cnl text + 1; [groups_of text] the number of declared groups. *)
From Coq Require Import String.
From Coq Require Import NArith ZArith List Bool.
From MJV Require Import Model.SchemaLang Model.SchemaLangSpec Proof.SchemaLangProof Proof.SchemaLangSound.
Import ListNotations.
Open Scope N_scope.

(* For EVERY text (any list of code points) and every frame budget: parse_string returns a schema, or raises
   SchemaError with a line in 1 .. (number of newlines + 1), or raises RecursionError - and the latter only
   when the budget is below (number of declared groups + 2).  IndexError (token list read past its end),
   KeyError (dict lookups of _validate/_group_attrs), the TypeError branches and loop-fuel exhaustion of the
   model are excluded for all inputs. *)
Theorem C41_total :
  forall (rl : nat) (text : str),
    match parse_string rl text with
    | Ok _ => True
    | SchemaErr l => 1 <= l <= cnl text + 1
    | PyExn e => e = RecursionError /\ (rl < groups_of text + 2)%nat
    end.
Proof. exact parse_string_total. Qed.
Print Assumptions C41_total.

(* hence: with `use` chains (bounded by the number of groups) shorter than the limit, no exception other
   than SchemaError escapes *)
Corollary C41_total_within_limit :
  forall (rl : nat) (text : str), (groups_of text + 2 <= rl)%nat ->
    (exists s, parse_string rl text = Ok s) \/
    (exists l, parse_string rl text = SchemaErr l /\ 1 <= l <= cnl text + 1).
Proof. exact parse_string_within_limit. Qed.
Print Assumptions C41_total_within_limit.

(* ... but the limit is real: "no other exception escapes" is FALSE of the faithful model.  The text
   group g0 { use g1 } ... group g999 { use g1000 } group g1000 { a : int }  (1001 groups, 23.8 kB) makes
   parse_string raise RecursionError for EVERY budget up to CPython's default limit of 1000 frames (994 are
   available below _validate under the driver); the same family is accepted as soon as the budget reaches
   the chain length (shown at length 101: the 1001-group instance needs ~10^8 steps in _check_group_cycle,
   it is replayed on the implementation by the check). *)
Theorem C41_recursion_refuted :
  (forall rl, (rl <= 1000)%nat -> parse_string rl (chain_text 1001) = PyExn RecursionError) /\
  groups_of (chain_text 1001) = 1001%nat /\
  parse_string 100 (chain_text 101) = PyExn RecursionError /\
  is_ok (parse_string 101 (chain_text 101)) = true.
Proof. exact recursion_refuted_full. Qed.
Print Assumptions C41_recursion_refuted.

(* the RecursionError is monotone: if the cycle check runs out of frames with budget rl, parse_string raises
   RecursionError for every smaller budget as well *)
Theorem C41_recursion_monotone :
  forall (text : str) (s : schema) (rl : nat) (e : pyexn),
    parse_text text = Ok s -> cycle_step rl (s_groups s) = VExn e ->
    forall rl', (rl' <= rl)%nat -> parse_string rl' text = PyExn RecursionError.
Proof. exact recursion_monotone. Qed.
Print Assumptions C41_recursion_monotone.

(* rules enforced while parsing: every accepted schema has unique declarations per table, non-empty enums
   with unique keywords, non-empty groups, well-formed arities, known and unique facets, targets exactly on
   enum/flags/id/ref attributes, child/set only in elements with a legal cardinality, constraints with at
   least two non-empty bundles; and all recorded line numbers lie within the text *)
Theorem C41_sound_parse_rules :
  forall (rl : nat) (text : str) (s : schema),
    parse_string rl text = Ok s -> schema_syn s /\ schema_lines (cnl text + 1) s.
Proof. exact parse_string_syn. Qed.
Print Assumptions C41_sound_parse_rules.

(* soundness: every accepted schema satisfies all documented rules (WellFormed = the rules above and the
   rules of _validate: no dangling use/child/alias/enum/namespace reference, acyclic use graph, group and
   element constraints name their attributes, variant groups have no use/required, children unique, no
   duplicate attribute after group expansion, `requires a b`, arity restrictions of file/bool/chars, facet
   payload rules, min <= max, required excludes a default, defaults agree with type and arity) *)
Theorem C41_sound :
  forall (rl : nat) (text : str) (s : schema), parse_string rl text = Ok s -> WellFormed s.
Proof. exact parse_string_sound. Qed.
Print Assumptions C41_sound.

(* the same for _validate alone, on ANY schema value with unique group names (not only parser output) *)
Theorem C41_validate_sound :
  forall (rl : nat) (s : schema), NoDup (map g_name (s_groups s)) -> validate rl s = VOk -> schema_rules s.
Proof. exact validate_sound. Qed.
Print Assumptions C41_validate_sound.

(* "a schema breaking one rule is rejected": if the text parses to a schema value that violates any rule,
   parse_string raises SchemaError (with a line inside the text) - under the recursion-limit proviso.
   The converse direction (every well-formed schema is accepted) is NOT proved; it is only observed by the
   correspondence run on generated valid schemas. *)
Theorem C41_complete_rule_breaking_rejected :
  forall (rl : nat) (text : str) (s : schema),
    (groups_of text + 2 <= rl)%nat -> parse_text text = Ok s -> ~ WellFormed s ->
    exists l, parse_string rl text = SchemaErr l /\ 1 <= l <= cnl text + 1.
Proof. exact rule_breaking_rejected. Qed.
Print Assumptions C41_complete_rule_breaking_rejected.

(* non-vacuity: a text with a nested use, a variant group, an enum default and a constraint is accepted,
   and one duplicate attribute via use turns it into a SchemaError on the line of the later declaration *)
Example C41_example_accept :
  is_ok (parse_string 50 (nstr "enum e { a = 0 b = 1 }
group o variant { quat : double[4] = {1, 0, 0, 0}
 euler : double[3] }
group p { pos : double[3]
 use o }
element g : mjsGeom (xml=geom) { use p
 t : enum<e> = b
 name : id<g>
 r : ref<g>
 exclusive quat euler
 child g * }"%string)) = true.
Proof. vm_compute. reflexivity. Qed.

Example C41_example_reject :
  parse_string 50 (nstr "group p { pos : double[3] }
element g { use p
 pos : int }"%string) = SchemaErr 3.
Proof. vm_compute. reflexivity. Qed.
