(* C27 — Actuation follows the documented transmission and force laws.
   Statements only; proofs in Proof/ActuationProof.v.  Model: Model/Actuation.v (mj_fwdActuation of
   engine_forward.c for SISO actuators with dyntype none/integrator/filter/filterexact/muscle,
   gaintype fixed/affine/muscle, biastype none/affine/muscle; muscle functions of engine_util_misc.c). *)
From Coq Require Import ZArith List Bool PrimFloat Reals.
From MJV Require Import Lib.Num Lib.NumR Model.Spatial Model.Actuation Proof.ActuationProof.
Import ListNotations.
Open Scope R_scope.

(* ---------------------------------------------------------------- clamps *)
Theorem C27_clip_range : forall x lo hi : R, lo <= hi -> lo <= clip x lo hi <= hi.
Proof. exact clip_range. Qed.
Print Assumptions C27_clip_range.

Theorem C27_clip_id : forall x lo hi : R, lo <= x <= hi -> clip x lo hi = x.
Proof. exact clip_id. Qed.
Print Assumptions C27_clip_id.

(* controls (control index space): a limited control is clamped into ITS ctrlrange (unless
   mjDSBL_CLAMPCTRL), identity inside the range *)
Theorem C27_ctrl_clamped :
  forall lo hi u : R, lo <= hi ->
    (lo <= clamp_ctrl false (true, lo, hi) u <= hi) /\
    (lo <= u <= hi -> clamp_ctrl false (true, lo, hi) u = u).
Proof. intros lo hi u Hr. split; [apply clamp_ctrl_range; auto|apply clamp_ctrl_id]. Qed.
Print Assumptions C27_ctrl_clamped.

(* mjDSBL_CLAMPCTRL, or ctrllimited off: the control is used as given *)
Theorem C27_ctrl_unclamped :
  forall (lim : bool) (lo hi u : R) (noclamp : bool),
    noclamp = true \/ lim = false -> clamp_ctrl noclamp (lim, lo, hi) u = u.
Proof. exact clamp_ctrl_off. Qed.
Print Assumptions C27_ctrl_unclamped.

(* forcerange, one step of the clamp loop.  Two index spaces: the range is the parameter
   a_forcerange of the ACTUATOR (actuator index), the entries clamped are the OUTPUT block
   [a_outadr, a_outadr + a_outnum) of that actuator.  For a scalar actuator the entry of its block is
   clipped with its own range; every entry outside its block is untouched; nothing happens when the
   actuator is not force-limited or belongs to a disabled group. *)
Theorem C27_clamp_uses_own_range :
  forall (mask : Z) (f : list R) (a : @Actuator R) (o : Z),
    wf_act a -> is_so3 a = false -> inblock a o -> (o < Z.of_nat (length f))%Z ->
    rdz (clamp_block mask f a) o =
    if a_forcelimited a && negb (actuatorDisabled mask (a_group a))
    then clip (rdz f o) (fst (a_forcerange a)) (snd (a_forcerange a)) else rdz f o.
Proof. exact clamp_block_scalar. Qed.
Print Assumptions C27_clamp_uses_own_range.

Theorem C27_clamp_frame :
  forall (mask : Z) (f : list R) (a : @Actuator R) (o : Z),
    wf_act a -> ~ inblock a o -> rdz (clamp_block mask f a) o = rdz f o.
Proof. exact clamp_block_other. Qed.
Print Assumptions C27_clamp_frame.

Theorem C27_clamp_skipped :
  forall (mask : Z) (f : list R) (a : @Actuator R),
    a_forcelimited a = false \/ actuatorDisabled mask (a_group a) = true -> clamp_block mask f a = f.
Proof. exact clamp_block_skipped. Qed.
Print Assumptions C27_clamp_skipped.

(* so3 servo (3 outputs): the norm of its output block ends below forcerange[1] of that actuator *)
Theorem C27_so3_force_clamped :
  forall (mask : Z) (f : list R) (a : @Actuator R),
    wf_act a -> is_so3 a = true -> a_forcelimited a = true -> actuatorDisabled mask (a_group a) = false ->
    0 <= snd (a_forcerange a) -> (a_outadr a + 3 <= Z.of_nat (length f))%Z ->
    norm3 (vec3_at (clamp_block mask f a) (a_outadr a)) <= snd (a_forcerange a).
Proof. exact clamp_block_so3. Qed.
Print Assumptions C27_so3_force_clamped.

(* whole pipeline, any actuator list mixing scalar and multi-output actuators: the actuator_force
   entry at the output address of an enabled force-limited scalar actuator lies within that
   actuator's forcerange, provided later actuators' blocks do not contain that address (the compiler's
   cumulative layout outadr[i] = sum of outnum[j < i], checked by the driver on every model) *)
Theorem C27_force_clamped :
  forall (mask : Z) (h : R) (nout : nat) (tendons : list (bool * R * R)) (ctrl len vel : list R)
         (pre post : list (@Actuator R * R)) (a : @Actuator R) (act : R),
    wf_act a -> is_so3 a = false -> others_apart post (a_outadr a) ->
    (a_outadr a < Z.of_nat nout)%Z ->
    a_forcelimited a = true -> actuatorDisabled mask (a_group a) = false ->
    fst (a_forcerange a) <= snd (a_forcerange a) ->
    fst (a_forcerange a) <= rdz (actuator_forces mask h nout tendons ctrl len vel (pre ++ (a, act) :: post)) (a_outadr a)
    <= snd (a_forcerange a).
Proof. exact enabled_force_in_range. Qed.
Print Assumptions C27_force_clamped.

(* activations: mj_nextActivation lands in actrange when actlimited, and is the Euler step when the
   step stays inside the range (dyntype other than filterexact) *)
Theorem C27_next_activation_in_range :
  forall (a : @Actuator R) (h act adot : R),
    a_actlimited a = true -> fst (a_actrange a) <= snd (a_actrange a) ->
    fst (a_actrange a) <= nextActivation a h act adot <= snd (a_actrange a).
Proof. exact nextActivation_range. Qed.
Print Assumptions C27_next_activation_in_range.

Theorem C27_next_activation_euler :
  forall (a : @Actuator R) (h act adot : R),
    a_dyntype a <> 3%Z ->
    (a_actlimited a = false \/ fst (a_actrange a) <= act + adot * h <= snd (a_actrange a)) ->
    nextActivation a h act adot = act + adot * h.
Proof. exact nextActivation_euler. Qed.
Print Assumptions C27_next_activation_euler.

(* mj_advance: the advanced activation of an activation-limited actuator lies in actrange for EVERY
   dyntype of the model (integrator, filter, exact filter, muscle) and every act_dot *)
Theorem C27_advance_in_range :
  forall (mask : Z) (h : R) (a : @Actuator R) (act adot : R),
    a_actnum a = 1%Z -> a_actlimited a = true -> fst (a_actrange a) <= snd (a_actrange a) ->
    fst (a_actrange a) <= advance1 false mask h (a, act) adot <= snd (a_actrange a).
Proof. exact advance_in_range. Qed.
Print Assumptions C27_advance_in_range.

(* activations are frozen with mjDSBL_ACTUATION, and for an actuator of a disabled group (in-range activation) *)
Theorem C27_advance_frozen :
  forall (mask : Z) (h : R) (a : @Actuator R) (act adot : R),
    a_actnum a = 1%Z ->
    advance1 true mask h (a, act) adot = act /\
    (actuatorDisabled mask (a_group a) = true ->
     (a_actlimited a = false \/ fst (a_actrange a) <= act <= snd (a_actrange a)) ->
     advance1 false mask h (a, act) adot = act).
Proof. exact advance_frozen. Qed.
Print Assumptions C27_advance_frozen.

(* joint actuator-force range: the clamped dof lands in the range; identity inside it *)
Theorem C27_dof_clamped :
  forall (g : option R) (lo hi q : R), lo <= hi -> lo <= dof_post (g, true, lo, hi) q <= hi.
Proof. exact dof_post_range. Qed.
Print Assumptions C27_dof_clamped.

Theorem C27_dof_clamp_id :
  forall (q lo hi : R) (lim : bool), lim = false \/ lo <= q <= hi -> dof_post (None, lim, lo, hi) q = q.
Proof. exact dof_post_id. Qed.
Print Assumptions C27_dof_clamp_id.

(* ---------------------------------------------------------------- disabled groups *)
(* mj_actuatorDisabled tests exactly bit `group` of disableactuator for groups 0..30, and never
   disables other groups *)
Theorem C27_disabled_group_bit :
  forall mask g : Z,
    ((0 <= g <= 30)%Z -> actuatorDisabled mask g = Z.testbit mask g) /\
    ((g < 0 \/ 30 < g)%Z -> actuatorDisabled mask g = false).
Proof. intros mask g. split; [apply disabled_group_bit|apply disabled_group_outside]. Qed.
Print Assumptions C27_disabled_group_bit.

(* an actuator of a disabled group (scalar or so3): every entry of its output block is zero after the
   whole pipeline (gain/bias or so3 law, tendon force scaling, forcerange clamp), for every state,
   control and parameter set, given the non-overlapping output layout *)
Theorem C27_disabled_zero_force :
  forall (mask : Z) (h : R) (nout : nat) (tendons : list (bool * R * R)) (ctrl len vel : list R)
         (pre post : list (@Actuator R * R)) (a : @Actuator R) (act : R) (k : nat),
    wf_act a -> others_apart (pre ++ post) (a_outadr a + Z.of_nat k) ->
    (Z.of_nat k < a_outnum a)%Z -> (a_outadr a + a_outnum a <= Z.of_nat nout)%Z ->
    actuatorDisabled mask (a_group a) = true ->
    rdz (actuator_forces mask h nout tendons ctrl len vel (pre ++ (a, act) :: post)) (a_outadr a + Z.of_nat k) = 0.
Proof. exact disabled_zero_force. Qed.
Print Assumptions C27_disabled_zero_force.

(* mjDSBL_ACTUATION: act_dot, actuator_force and qfrc_actuator are all zero *)
Theorem C27_actuation_disabled_zero :
  forall (mask : Z) (h : R) (nout nv : nat) (noclamp : bool) (lims : list (bool * R * R))
         (ctrl len vel : list R) (xs : list (@Actuator R * R)) (tendons : list (bool * R * R)) (moment : list (list R))
         (dofs : list (option R * bool * R * R)),
    fwd_actuation true mask h nout nv noclamp lims ctrl len vel xs tendons moment dofs =
    (map (fun _ => 0) xs, repeat 0 nout, repeat 0 nv).
Proof. exact actuation_off_zero. Qed.
Print Assumptions C27_actuation_disabled_zero.

(* and a zero force contributes nothing to qfrc_actuator: dropping the actuator leaves moment^T force unchanged *)
Theorem C27_zero_force_no_contribution :
  forall (nv : nat) (M1 M2 : list (list R)) (row : list R) (f1 f2 : list R) (v : nat),
    Forall (fun r : list R => length r = nv) (M1 ++ row :: M2) -> length M1 = length f1 ->
    nth v (mulMatTVec nv (M1 ++ row :: M2) (f1 ++ 0 :: f2)) 0 = nth v (mulMatTVec nv (M1 ++ M2) (f1 ++ f2)) 0.
Proof. exact zero_force_no_contribution. Qed.
Print Assumptions C27_zero_force_no_contribution.

(* ---------------------------------------------------------------- force laws *)
Theorem C27_affine_law :
  forall (mask : Z) (a : @Actuator R) (h u act len vel : R),
    actuatorDisabled mask (a_group a) = false -> a_gaintype a = 1%Z -> a_biastype a = 1%Z -> a_actnum a = 0%Z ->
    raw_force mask a h u act len vel =
    (p (a_gainprm a) 0 + p (a_gainprm a) 1 * len + p (a_gainprm a) 2 * vel) * u +
    (p (a_biasprm a) 0 + p (a_biasprm a) 1 * len + p (a_biasprm a) 2 * vel).
Proof. exact affine_law. Qed.
Print Assumptions C27_affine_law.

Theorem C27_position_servo :
  forall (mask : Z) (a : @Actuator R) (h u act len vel kp kv : R),
    actuatorDisabled mask (a_group a) = false -> a_gaintype a = 0%Z -> a_biastype a = 1%Z -> a_actnum a = 0%Z ->
    p (a_gainprm a) 0 = kp -> p (a_biasprm a) 0 = 0 -> p (a_biasprm a) 1 = - kp -> p (a_biasprm a) 2 = - kv ->
    raw_force mask a h u act len vel = kp * (u - len) - kv * vel.
Proof. exact position_servo. Qed.
Print Assumptions C27_position_servo.

Theorem C27_stateful_law :
  forall (mask : Z) (a : @Actuator R) (h u act len vel : R),
    actuatorDisabled mask (a_group a) = false -> a_actnum a = 1%Z -> a_actearly a = false ->
    raw_force mask a h u act len vel = gain a len vel * act + bias a len vel.
Proof. exact stateful_law. Qed.
Print Assumptions C27_stateful_law.

(* ---------------------------------------------------------------- transmission: moment^T force *)
Theorem C27_moment_additive :
  forall (nv : nat) (moment : list (list R)) (f g : list R) (v : nat),
    Forall (fun r : list R => length r = nv) moment -> length f = length g ->
    nth v (mulMatTVec nv moment (vadd f g)) 0 = nth v (mulMatTVec nv moment f) 0 + nth v (mulMatTVec nv moment g) 0.
Proof. exact moment_additive. Qed.
Print Assumptions C27_moment_additive.

Theorem C27_moment_homogeneous :
  forall (nv : nat) (moment : list (list R)) (f : list R) (c : R) (v : nat),
    Forall (fun r : list R => length r = nv) moment ->
    nth v (mulMatTVec nv moment (vscl c f)) 0 = nth v (mulMatTVec nv moment f) 0 * c.
Proof. exact moment_homogeneous. Qed.
Print Assumptions C27_moment_homogeneous.

(* ---------------------------------------------------------------- muscle curves *)
Theorem C27_sigmoid_range : forall x : R, 0 <= sigmoid x <= 1.
Proof. exact sigmoid_range. Qed.
Print Assumptions C27_sigmoid_range.

Theorem C27_muscle_FL_range : forall len lmin lmax : R, 0 <= muscleGainLength len lmin lmax <= 1.
Proof. exact muscleGainLength_range. Qed.
Print Assumptions C27_muscle_FL_range.

Theorem C27_muscle_FV_range : forall V fvmax : R, 1 <= fvmax -> 0 <= muscleFV V fvmax <= fvmax.
Proof. exact muscleFV_range. Qed.
Print Assumptions C27_muscle_FV_range.

(* MuJoCo's sign convention: the muscle gain is -force*FL*FV, hence non-positive and at least
   -force*fvmax, for a non-negative peak force (given, or scale/acc0 with non-negative scale) *)
Theorem C27_muscle_gain_sign :
  forall (len vel : R) (lr : R * R) (acc0 : R) (prm : list R),
    (0 <= p prm 2 \/ 0 <= p prm 3) -> 1 <= p prm 8 ->
    - (muscleForce prm acc0 * p prm 8) <= muscleGain len vel lr acc0 prm <= 0.
Proof. exact muscleGain_sign. Qed.
Print Assumptions C27_muscle_gain_sign.

Theorem C27_muscle_bias_sign :
  forall (len : R) (lr : R * R) (acc0 : R) (prm : list R),
    (0 <= p prm 2 \/ 0 <= p prm 3) -> 0 <= p prm 7 -> muscleBias len lr acc0 prm <= 0.
Proof. exact muscleBias_sign. Qed.
Print Assumptions C27_muscle_bias_sign.

(* activation dynamics move act towards the clamped control, for all parameters (the time scale is
   floored at mjMINVAL) *)
Theorem C27_muscle_dynamics_sign :
  forall ctrl act p0 p1 w : R,
    let d := clip ctrl 0 1 - act in
    (0 < d -> 0 < muscleDynamics ctrl act (p0, p1, w)) /\
    (d < 0 -> muscleDynamics ctrl act (p0, p1, w) < 0) /\
    (d = 0 -> muscleDynamics ctrl act (p0, p1, w) = 0).
Proof. exact muscleDynamics_sign. Qed.
Print Assumptions C27_muscle_dynamics_sign.
