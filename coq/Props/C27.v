(* C27 — Actuation follows the documented transmission and force laws.
   Statements only; proofs in Proof/ActuationProof.v.  Model: Model/Actuation.v (mj_fwdActuation of
   engine_forward.c for SISO actuators with dyntype none/integrator/filter/filterexact/muscle,
   gaintype fixed/affine/muscle, biastype none/affine/muscle; muscle functions of engine_util_misc.c). *)
From Coq Require Import ZArith List Bool PrimFloat Reals.
From MJV Require Import Lib.Num Lib.NumR Model.Actuation Proof.ActuationProof.
Import ListNotations.
Open Scope R_scope.

(* ---------------------------------------------------------------- clamps *)
Theorem C27_clip_range : forall x lo hi : R, lo <= hi -> lo <= clip x lo hi <= hi.
Proof. exact clip_range. Qed.
Print Assumptions C27_clip_range.

Theorem C27_clip_id : forall x lo hi : R, lo <= x <= hi -> clip x lo hi = x.
Proof. exact clip_id. Qed.
Print Assumptions C27_clip_id.

(* controls: clamped into ctrlrange when ctrllimited (and clamping is enabled), identity inside the range *)
Theorem C27_ctrl_clamped :
  forall (a : @Actuator R) (u : R),
    a_ctrllimited a = true -> fst (a_ctrlrange a) <= snd (a_ctrlrange a) ->
    fst (a_ctrlrange a) <= clamp_ctrl false a u <= snd (a_ctrlrange a) /\
    (fst (a_ctrlrange a) <= u <= snd (a_ctrlrange a) -> clamp_ctrl false a u = u).
Proof. intros a u Hl Hr. split; [apply clamp_ctrl_range; auto|apply clamp_ctrl_id]. Qed.
Print Assumptions C27_ctrl_clamped.

(* mjDSBL_CLAMPCTRL, or ctrllimited off: the control is used as given *)
Theorem C27_ctrl_unclamped :
  forall (a : @Actuator R) (u : R) (noclamp : bool),
    noclamp = true \/ a_ctrllimited a = false -> clamp_ctrl noclamp a u = u.
Proof. exact clamp_ctrl_off. Qed.
Print Assumptions C27_ctrl_unclamped.

(* forcerange: the i-th entry of actuator_force of an enabled force-limited actuator is within range *)
Theorem C27_force_clamped :
  forall (mask : Z) (h : R) (tendons : list (bool * R * R)) (acts : list (@Actuator R))
         (us : list R) (st : list (R * R * R)) (i : nat) (dz : @Actuator R * R * (R * R * R)),
    (i < length (zipped acts us st))%nat ->
    let a := fst (fst (nth i (zipped acts us st) dz)) in
    a_forcelimited a = true -> actuatorDisabled mask (a_group a) = false ->
    fst (a_forcerange a) <= snd (a_forcerange a) ->
    fst (a_forcerange a) <= nth i (actuator_forces mask h tendons acts us st) 0 <= snd (a_forcerange a).
Proof. exact enabled_force_in_range. Qed.
Print Assumptions C27_force_clamped.

Theorem C27_force_clamp_id :
  forall (mask : Z) (a : @Actuator R) (f : R),
    a_forcelimited a = false \/ actuatorDisabled mask (a_group a) = true \/
    fst (a_forcerange a) <= f <= snd (a_forcerange a) -> clamp_force mask a f = f.
Proof. exact clamp_force_id. Qed.
Print Assumptions C27_force_clamp_id.

(* activations: mj_nextActivation lands in actrange when actlimited, and is the Euler step when the
   step stays inside the range (dyntype other than filterexact) *)
Theorem C27_next_activation_in_range :
  forall (a : @Actuator R) (h act adot : R),
    a_actlimited a = true -> fst (a_actrange a) <= snd (a_actrange a) ->
    fst (a_actrange a) <= nextActivation a h act adot <= snd (a_actrange a).
Proof. exact nextActivation_range. Qed.
Print Assumptions C27_next_activation_in_range.

Theorem C27_next_activation_euler :
  forall (a : @Actuator R) (h act adot : R),
    a_dyntype a <> 3%Z ->
    (a_actlimited a = false \/ fst (a_actrange a) <= act + adot * h <= snd (a_actrange a)) ->
    nextActivation a h act adot = act + adot * h.
Proof. exact nextActivation_euler. Qed.
Print Assumptions C27_next_activation_euler.

(* joint actuator-force range: the clamped dof lands in the range; identity inside it *)
Theorem C27_dof_clamped :
  forall (g : option R) (lo hi q : R), lo <= hi -> lo <= dof_post (g, true, lo, hi) q <= hi.
Proof. exact dof_post_range. Qed.
Print Assumptions C27_dof_clamped.

Theorem C27_dof_clamp_id :
  forall (q lo hi : R) (lim : bool), lim = false \/ lo <= q <= hi -> dof_post (None, lim, lo, hi) q = q.
Proof. exact dof_post_id. Qed.
Print Assumptions C27_dof_clamp_id.

(* ---------------------------------------------------------------- disabled groups *)
(* mj_actuatorDisabled tests exactly bit `group` of disableactuator for groups 0..30, and never
   disables other groups *)
Theorem C27_disabled_group_bit :
  forall mask g : Z,
    ((0 <= g <= 30)%Z -> actuatorDisabled mask g = Z.testbit mask g) /\
    ((g < 0 \/ 30 < g)%Z -> actuatorDisabled mask g = false).
Proof. intros mask g. split; [apply disabled_group_bit|apply disabled_group_outside]. Qed.
Print Assumptions C27_disabled_group_bit.

(* an actuator of a disabled group has zero actuator_force after the whole pipeline (gain/bias, tendon
   force scaling, forcerange clamp), for every state, control and parameter set *)
Theorem C27_disabled_zero_force :
  forall (mask : Z) (h : R) (tendons : list (bool * R * R)) (acts : list (@Actuator R))
         (us : list R) (st : list (R * R * R)) (i : nat) (dz : @Actuator R * R * (R * R * R)),
    (i < length (zipped acts us st))%nat ->
    actuatorDisabled mask (a_group (fst (fst (nth i (zipped acts us st) dz)))) = true ->
    nth i (actuator_forces mask h tendons acts us st) 0 = 0.
Proof. exact disabled_zero_force. Qed.
Print Assumptions C27_disabled_zero_force.

(* and a zero force contributes nothing to qfrc_actuator: dropping the actuator leaves moment^T force unchanged *)
Theorem C27_zero_force_no_contribution :
  forall (nv : nat) (M1 M2 : list (list R)) (row : list R) (f1 f2 : list R) (v : nat),
    Forall (fun r : list R => length r = nv) (M1 ++ row :: M2) -> length M1 = length f1 ->
    nth v (mulMatTVec nv (M1 ++ row :: M2) (f1 ++ 0 :: f2)) 0 = nth v (mulMatTVec nv (M1 ++ M2) (f1 ++ f2)) 0.
Proof. exact zero_force_no_contribution. Qed.
Print Assumptions C27_zero_force_no_contribution.

(* ---------------------------------------------------------------- force laws *)
Theorem C27_affine_law :
  forall (mask : Z) (a : @Actuator R) (h u act len vel : R),
    actuatorDisabled mask (a_group a) = false -> a_gaintype a = 1%Z -> a_biastype a = 1%Z -> a_actnum a = 0%Z ->
    raw_force mask a h u act len vel =
    (p (a_gainprm a) 0 + p (a_gainprm a) 1 * len + p (a_gainprm a) 2 * vel) * u +
    (p (a_biasprm a) 0 + p (a_biasprm a) 1 * len + p (a_biasprm a) 2 * vel).
Proof. exact affine_law. Qed.
Print Assumptions C27_affine_law.

Theorem C27_position_servo :
  forall (mask : Z) (a : @Actuator R) (h u act len vel kp kv : R),
    actuatorDisabled mask (a_group a) = false -> a_gaintype a = 0%Z -> a_biastype a = 1%Z -> a_actnum a = 0%Z ->
    p (a_gainprm a) 0 = kp -> p (a_biasprm a) 0 = 0 -> p (a_biasprm a) 1 = - kp -> p (a_biasprm a) 2 = - kv ->
    raw_force mask a h u act len vel = kp * (u - len) - kv * vel.
Proof. exact position_servo. Qed.
Print Assumptions C27_position_servo.

Theorem C27_stateful_law :
  forall (mask : Z) (a : @Actuator R) (h u act len vel : R),
    actuatorDisabled mask (a_group a) = false -> a_actnum a = 1%Z -> a_actearly a = false ->
    raw_force mask a h u act len vel = gain a len vel * act + bias a len vel.
Proof. exact stateful_law. Qed.
Print Assumptions C27_stateful_law.

(* ---------------------------------------------------------------- transmission: moment^T force *)
Theorem C27_moment_additive :
  forall (nv : nat) (moment : list (list R)) (f g : list R) (v : nat),
    Forall (fun r : list R => length r = nv) moment -> length f = length g ->
    nth v (mulMatTVec nv moment (vadd f g)) 0 = nth v (mulMatTVec nv moment f) 0 + nth v (mulMatTVec nv moment g) 0.
Proof. exact moment_additive. Qed.
Print Assumptions C27_moment_additive.

Theorem C27_moment_homogeneous :
  forall (nv : nat) (moment : list (list R)) (f : list R) (c : R) (v : nat),
    Forall (fun r : list R => length r = nv) moment ->
    nth v (mulMatTVec nv moment (vscl c f)) 0 = nth v (mulMatTVec nv moment f) 0 * c.
Proof. exact moment_homogeneous. Qed.
Print Assumptions C27_moment_homogeneous.

(* ---------------------------------------------------------------- muscle curves *)
Theorem C27_sigmoid_range : forall x : R, 0 <= sigmoid x <= 1.
Proof. exact sigmoid_range. Qed.
Print Assumptions C27_sigmoid_range.

Theorem C27_muscle_FL_range : forall len lmin lmax : R, 0 <= muscleGainLength len lmin lmax <= 1.
Proof. exact muscleGainLength_range. Qed.
Print Assumptions C27_muscle_FL_range.

Theorem C27_muscle_FV_range : forall V fvmax : R, 1 <= fvmax -> 0 <= muscleFV V fvmax <= fvmax.
Proof. exact muscleFV_range. Qed.
Print Assumptions C27_muscle_FV_range.

(* MuJoCo's sign convention: the muscle gain is -force*FL*FV, hence non-positive and at least
   -force*fvmax, for a non-negative peak force (given, or scale/acc0 with non-negative scale) *)
Theorem C27_muscle_gain_sign :
  forall (len vel : R) (lr : R * R) (acc0 : R) (prm : list R),
    (0 <= p prm 2 \/ 0 <= p prm 3) -> 1 <= p prm 8 ->
    - (muscleForce prm acc0 * p prm 8) <= muscleGain len vel lr acc0 prm <= 0.
Proof. exact muscleGain_sign. Qed.
Print Assumptions C27_muscle_gain_sign.

Theorem C27_muscle_bias_sign :
  forall (len : R) (lr : R * R) (acc0 : R) (prm : list R),
    (0 <= p prm 2 \/ 0 <= p prm 3) -> 0 <= p prm 7 -> muscleBias len lr acc0 prm <= 0.
Proof. exact muscleBias_sign. Qed.
Print Assumptions C27_muscle_bias_sign.

(* activation dynamics move act towards the clamped control, for all parameters (the time scale is
   floored at mjMINVAL) *)
Theorem C27_muscle_dynamics_sign :
  forall ctrl act p0 p1 w : R,
    let d := clip ctrl 0 1 - act in
    (0 < d -> 0 < muscleDynamics ctrl act (p0, p1, w)) /\
    (d < 0 -> muscleDynamics ctrl act (p0, p1, w) < 0) /\
    (d = 0 -> muscleDynamics ctrl act (p0, p1, w) = 0).
Proof. exact muscleDynamics_sign. Qed.
Print Assumptions C27_muscle_dynamics_sign.
