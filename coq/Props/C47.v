(* C47 — System-identification inertia parameters are always physical.
   Statements about Model/LogCholesky.v at the real numbers, for EVERY theta in R^10
   (theta = [alpha, d1, d2, d3, s12, s23, s13, t1, t2, t3]); proofs in Proof/LogCholeskyProof.v.
   IEEE rounding (and exp overflow/underflow) is outside every theorem. *)
From Coq Require Import ZArith List PrimFloat Reals.
From MJV Require Import Lib.Num Lib.NumR Model.LogCholesky Proof.LogCholeskyProof.
Import ListNotations.
Open Scope R_scope.

(* mass = e^{2 alpha} > 0 *)
Theorem C47_mass_positive :
  forall a d1 d2 d3 s12 s23 s13 t1 t2 t3 : R,
    pm (pi_from_theta a d1 d2 d3 s12 s23 s13 t1 t2 t3) = exp (2 * a) /\
    0 < pm (pi_from_theta a d1 d2 d3 s12 s23 s13 t1 t2 t3).
Proof. exact mass_exp. Qed.
Print Assumptions C47_mass_positive.

(* the pseudo-inertia J recovered from pi is U U^T with U upper triangular (by type) with positive
   diagonal, it is symmetric, x^T J x = |U^T x|^2, and x^T J x > 0 for every x <> 0 *)
Theorem C47_pseudoinertia_spd :
  forall a d1 d2 d3 s12 s23 s13 t1 t2 t3 : R,
    let U := U_of_theta a d1 d2 d3 s12 s23 s13 t1 t2 t3 in
    let J := pseudoinertia_from_pi (pi_from_theta a d1 d2 d3 s12 s23 s13 t1 t2 t3) in
    J = UUt U /\
    (0 < u00 U /\ 0 < u11 U /\ 0 < u22 U /\ 0 < u33 U) /\
    (m10 J = m01 J /\ m20 J = m02 J /\ m30 J = m03 J /\ m21 J = m12 J /\ m31 J = m13 J /\ m32 J = m23 J) /\
    forall x0 x1 x2 x3 : R,
      qf4 J x0 x1 x2 x3 =
        Rsqr (u00 U * x0) + Rsqr (u01 U * x0 + u11 U * x1) + Rsqr (u02 U * x0 + u12 U * x1 + u22 U * x2)
        + Rsqr (u03 U * x0 + u13 U * x1 + u23 U * x2 + u33 U * x3) /\
      (~ (x0 = 0 /\ x1 = 0 /\ x2 = 0 /\ x3 = 0) -> 0 < qf4 J x0 x1 x2 x3).
Proof. exact pseudo_spd. Qed.
Print Assumptions C47_pseudoinertia_spd.

(* the rotational inertia I_bar = tr(Sigma) 1 - Sigma is symmetric positive definite and satisfies the
   triangle inequalities: in every direction (2 x^T I x < tr(I) |x|^2), for the diagonal entries, and
   for every principal moment (eigenvalue lam: 0 < lam and lam < sum of the other two = tr(I) - lam) *)
Theorem C47_inertia_pd_triangle :
  forall a d1 d2 d3 s12 s23 s13 t1 t2 t3 : R,
    let P := pi_from_theta a d1 d2 d3 s12 s23 s13 t1 t2 t3 in
    (forall x0 x1 x2 : R, ~ (x0 = 0 /\ x1 = 0 /\ x2 = 0) ->
        0 < qfI P x0 x1 x2 /\
        2 * qfI P x0 x1 x2 < (i00 P + i11 P + i22 P) * (x0 * x0 + x1 * x1 + x2 * x2)) /\
    (i10 P = i01 P /\ i20 P = i02 P /\ i21 P = i12 P) /\
    (0 < i00 P /\ 0 < i11 P /\ 0 < i22 P) /\
    (i22 P < i00 P + i11 P /\ i11 P < i00 P + i22 P /\ i00 P < i11 P + i22 P) /\
    (forall x0 x1 x2 lam : R, ~ (x0 = 0 /\ x1 = 0 /\ x2 = 0) ->
        i00 P * x0 + i01 P * x1 + i02 P * x2 = lam * x0 ->
        i10 P * x0 + i11 P * x1 + i12 P * x2 = lam * x1 ->
        i20 P * x0 + i21 P * x1 + i22 P * x2 = lam * x2 ->
        0 < lam /\ 2 * lam < i00 P + i11 P + i22 P).
Proof. exact inertia_physical. Qed.
Print Assumptions C47_inertia_pd_triangle.

(* converting back recovers the vector *)
Theorem C47_roundtrip :
  forall a d1 d2 d3 s12 s23 s13 t1 t2 t3 : R,
    theta_from_pseudoinertia (pseudoinertia_from_pi (pi_from_theta a d1 d2 d3 s12 s23 s13 t1 t2 t3))
    = [a; d1; d2; d3; s12; s23; s13; t1; t2; t3].
Proof. exact roundtrip. Qed.
Print Assumptions C47_roundtrip.

(* the upper-triangular factor with positive diagonal is unique, and the modelled Cholesky finds it *)
Theorem C47_factor_unique :
  forall u v : U4 (T:=R),
    (0 < u00 u /\ 0 < u11 u /\ 0 < u22 u /\ 0 < u33 u) ->
    (0 < u00 v /\ 0 < u11 v /\ 0 < u22 v /\ 0 < u33 v) ->
    (UUt u = UUt v -> u = v) /\ chol_upper (UUt u) = u.
Proof. exact factor_unique_chol. Qed.
Print Assumptions C47_factor_unique.

(* what apply_body_theta_inertia hands to the compiler: the same mass and first moment
   (mass * ipos = h), and a full inertia about the centre of mass that is positive definite and
   satisfies the triangle inequalities (every direction, every principal moment) -- the conditions
   the compiler checks (up to its numerical thresholds, which are outside the theorem) *)
Theorem C47_body_physical :
  forall a d1 d2 d3 s12 s23 s13 t1 t2 t3 : R,
    let P := pi_from_theta a d1 d2 d3 s12 s23 s13 t1 t2 t3 in
    let B := body_from_pi P in
    (b_mass B = pm P /\ b_mass B * b_c0 B = ph0 P /\ b_mass B * b_c1 B = ph1 P /\ b_mass B * b_c2 B = ph2 P) /\
    (forall x0 x1 x2 : R, ~ (x0 = 0 /\ x1 = 0 /\ x2 = 0) ->
        0 < qfB B x0 x1 x2 /\
        2 * qfB B x0 x1 x2 < (f00 B + f11 B + f22 B) * (x0 * x0 + x1 * x1 + x2 * x2)) /\
    (forall x0 x1 x2 lam : R, ~ (x0 = 0 /\ x1 = 0 /\ x2 = 0) ->
        f00 B * x0 + f01 B * x1 + f02 B * x2 = lam * x0 ->
        f01 B * x0 + f11 B * x1 + f12 B * x2 = lam * x1 ->
        f02 B * x0 + f12 B * x1 + f22 B * x2 = lam * x2 ->
        0 < lam /\ 2 * lam < f00 B + f11 B + f22 B).
Proof. exact body_physical. Qed.
Print Assumptions C47_body_physical.
