(* C48 — System-identification signal transforms are pure.
   Model: Model/TimeSeries.v.  PURITY ("never modify the series passed in") is definitional in a functional
   model -- a Gallina function cannot write to its argument -- and is therefore NOT a theorem here: it is
   checked on the implementation by the correspondence harness, which fingerprints every input buffer
   (bytes and identity) before and after every modifier call.  The theorems below are the algebraic clauses
   of the property, over the real numbers (IEEE rounding is outside them). *)
From Coq Require Import ZArith List Bool PrimFloat Reals.
From MJV Require Import Lib.Num Lib.NumR Model.TimeSeries Proof.TimeSeriesProof.
Import ListNotations.
Open Scope R_scope.

(* one interval: the interpolated value lies between the two neighbouring samples *)
Theorem C48_lerp_within_neighbours :
  forall xlo ylo xhi yhi t : R,
    xlo < xhi -> xlo <= t <= xhi ->
    Rmin ylo yhi <= lerp xlo ylo xhi yhi t <= Rmax ylo yhi.
Proof. exact lerp_between. Qed.
Print Assumptions C48_lerp_within_neighbours.

(* whole series (strictly increasing timestamps, at least two samples): for every t inside the time range
   the interpolation uses two ADJACENT samples a, b that bracket t and stays within their range *)
Theorem C48_interp_within_neighbours :
  forall (knots : list (R * R)) (t : R),
    incr_knots knots -> (2 <= length knots)%nat ->
    fst (hd (0, 0) knots) <= t <= fst (last knots (0, 0)) ->
    exists l1 l2 a b, knots = l1 ++ a :: b :: l2 /\ fst a <= t <= fst b /\
      Rmin (snd a) (snd b) <= interp knots t <= Rmax (snd a) (snd b).
Proof. exact interp_between. Qed.
Print Assumptions C48_interp_within_neighbours.

(* outside the time range: the first / the last sample (fill_value = (data[0], data[-1])) *)
Theorem C48_interp_outside_range :
  forall (knots : list (R * R)) (t : R),
    incr_knots knots -> knots <> [] ->
    (t < fst (hd (0, 0) knots) -> interp knots t = snd (hd (0, 0) knots)) /\
    (fst (last knots (0, 0)) < t -> interp knots t = snd (last knots (0, 0))).
Proof. exact interp_outside. Qed.
Print Assumptions C48_interp_outside_range.

(* resampling at the original (strictly increasing) timestamps returns the original data *)
Theorem C48_resample_identity :
  forall (times : list R) (cols : list (list R)),
    increasing times -> Forall (fun c => length c = length times) cols ->
    resample times cols times = cols.
Proof. exact resample_identity. Qed.
Print Assumptions C48_resample_identity.

(* grouped per-sensor delays = column by column: for every key type, every per-column operation F, every
   key equality that only identifies equal keys, every list of columns and delays of the same length *)
Theorem C48_grouped_equals_columnwise :
  forall (K C R' : Type) (keq : K -> K -> bool) (F : K -> C -> R') (dflt : R'),
    (forall a b, keq a b = true -> a = b) ->
    forall (columns : list C) (cdflt : C) (delays : list K),
      length delays = length columns ->
      resample_grouped keq F dflt columns cdflt delays = resample_columnwise F columns delays.
Proof. exact @grouped_eq_columnwise. Qed.
Print Assumptions C48_grouped_equals_columnwise.

(* the instance used by apply_resample_and_delay over R *)
Theorem C48_apply_resample_and_delay_columnwise :
  forall (times : list R) (cols : list (list R)) (new_times delays : list R),
    length delays = length cols ->
    apply_resample_and_delay times cols new_times delays = apply_resample_and_delay_columnwise times cols new_times delays.
Proof. exact apply_resample_and_delay_law. Qed.
Print Assumptions C48_apply_resample_and_delay_columnwise.
